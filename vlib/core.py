"""Shared machinery of ./check: build steps, axiom audit, pipeline, verdict
aggregation, known findings, evidence, VIOLATION lines."""

import fcntl
import hashlib
import json
import os
import re
import shutil
import subprocess
import sys
import time
from collections import Counter

ROOT = os.path.dirname(os.path.dirname(os.path.abspath(__file__)))
LEAN = os.path.join(ROOT, "lean")
HARNESS = os.path.join(ROOT, "harness")
TRANSLATOR = os.path.join(ROOT, "translator")
CACHE = os.path.join(ROOT, ".cache")
WORK = os.path.join(ROOT, "work")
REPLAYS = os.path.join(ROOT, "replays")
EVIDENCE = os.path.join(ROOT, "evidence")
REPO = "/repo"
TARGET = os.path.join(CACHE, "target")
HARNESS_BIN = os.path.join(TARGET, "debug", "tx3-verif-harness")
TRANSLATOR_BIN = os.path.join(TARGET, "debug", "tx3-verif-translator")
DRIVER_BIN = os.path.join(LEAN, ".lake", "build", "bin", "driver")
GUARD = "tx3_verif"

ALLOWED_AXIOMS = {"propext", "Classical.choice", "Quot.sound"}

TRUSTED_BASE = [
    "Lean 4.33.0 kernel and compiler (driver executable compiled from the same definitions the theorems are about)",
    "axioms allowed in property theorems: propext, Classical.choice, Quot.sound (audited with #print axioms on every run; no sorry/admit/axiom/native_decide/bv_decide/implemented_by/unsafe)",
    "translator (syn + pest_meta extraction of tables from /repo sources into Tx3Model/Gen/*.lean)",
    "correspondence harness (/verif/harness: generators, canonicalisation, exhaustive matches over the Rust types) and the Lean driver's JSON decoding",
    "hand-written Lean model of the Rust function bodies: tied to the code by the per-run differential correspondence, not by proof",
    "rustc/cargo, serde_json, and the unmodelled dependencies (pallas, pest, ciborium, hex, bech32, base64)",
]

ENV = dict(os.environ)
ENV.update(
    {
        "CARGO_NET_OFFLINE": "true",
        "CARGO_TARGET_DIR": TARGET,
        "RUSTFLAGS": f"--cfg {GUARD}",
        "CARGO_TERM_COLOR": "never",
    }
)


def log(msg):
    print(f"[check] {msg}", file=sys.stderr, flush=True)


class Lock:
    def __init__(self, name):
        os.makedirs(CACHE, exist_ok=True)
        self.path = os.path.join(CACHE, name + ".lock")

    def __enter__(self):
        self.f = open(self.path, "w")
        fcntl.flock(self.f, fcntl.LOCK_EX)
        return self

    def __exit__(self, *a):
        fcntl.flock(self.f, fcntl.LOCK_UN)
        self.f.close()


def run(cmd, cwd=None, timeout=None, stdin=None, stdout=subprocess.PIPE, env=None):
    p = subprocess.run(
        cmd,
        cwd=cwd,
        env=env or ENV,
        stdin=stdin,
        stdout=stdout,
        stderr=subprocess.STDOUT if stdout == subprocess.PIPE else subprocess.PIPE,
        timeout=timeout,
        text=True,
    )
    return p.returncode, (p.stdout if stdout == subprocess.PIPE else (p.stderr or ""))


# --------------------------------------------------------------------------
# build steps


def sync_lockfile(crate_dir):
    src = os.path.join(REPO, "Cargo.lock")
    dst = os.path.join(crate_dir, "Cargo.lock")
    # start from the repository's lock file so that every version is one the
    # offline registry holds; cargo adds the local package entry itself
    if not os.path.exists(dst) or os.path.getmtime(src) > os.path.getmtime(dst):
        shutil.copyfile(src, dst)


GRAMMAR_JSON = os.path.join(WORK, "grammar.json")


GEN_JSON = os.path.join(WORK, "gen.json")
REVIEWED_SITES = os.path.join(ROOT, "tie", "reviewed_sites.json")


def run_translator():
    """Regenerates lean/Tx3Model/Gen/*.lean from /repo's working tree: Grammar.lean from tx3.pest
    (pest2lean.py; also work/grammar.json, which the harness's grammar-driven generator reads) and
    Sites.lean / Schema.lean from the Rust sources (the syn-based translator; also work/gen.json).
    The Lean files are rewritten only when their content changes, so an unchanged tree rebuilds
    nothing."""
    os.makedirs(WORK, exist_ok=True)
    with Lock("lean"):
        rc, out = run(["python3", os.path.join(TRANSLATOR, "pest2lean.py"),
                       os.path.join(REPO, "crates", "tx3-lang", "src", "tx3.pest"),
                       os.path.join(LEAN, "Tx3Model", "Gen", "Grammar.lean"), GRAMMAR_JSON])
    if rc != 0:
        return False, out
    with Lock("cargo"):
        sync_lockfile(TRANSLATOR)
        rc2, out2 = run(["cargo", "build", "--offline", "-q"], cwd=TRANSLATOR)
    if rc2 != 0:
        return False, out + out2
    with Lock("lean"):
        rc3, out3 = run([TRANSLATOR_BIN, REPO, os.path.join(LEAN, "Tx3Model", "Gen"), GEN_JSON])
    return rc3 == 0, out + out3


def unreviewed_sites():
    """Sites of the regenerated tables that the hand-kept review list does not hold (for messages)."""
    try:
        gen = json.load(open(GEN_JSON))
        rev = {s["key"] for s in json.load(open(REVIEWED_SITES))["sites"]}
    except Exception as e:  # noqa
        return [f"could not read the site tables: {e}"]
    return [f"{s['file']}:{s['line']} {s['fn']} {s['kind']}#{s['ord']} | {s['text']}" for s in gen["sites"] if s["key"] not in rev]


def build_harness():
    with Lock("cargo"):
        sync_lockfile(HARNESS)
        rc, out = run(["cargo", "build", "--offline", "-q"], cwd=HARNESS)
    return rc == 0, out


TX3C_TARGET = os.path.join(CACHE, "target-tx3c")
TX3C_BIN = os.path.join(TX3C_TARGET, "debug", "tx3c")


def build_tx3c():
    """The real `tx3c` binary, built from /repo's working tree into the framework's own cache."""
    env = dict(ENV)
    env["CARGO_TARGET_DIR"] = TX3C_TARGET
    with Lock("cargo-tx3c"):
        rc, out = run(["cargo", "build", "--offline", "-q", "-p", "tx3c"], cwd=REPO, env=env)
    if rc == 0:
        ENV["TX3C_BIN"] = TX3C_BIN
    return rc == 0, out


def lake_build(targets):
    with Lock("lean"):
        rc, out = run(["lake", "build"] + targets, cwd=LEAN)
    return rc == 0, out


SITES = "Tx3Proofs.Tie.Sites"
SCHEMA = "Tx3Proofs.Tie.Schema"
SHAPE = "Tx3Proofs.Tie.Shape"
CONSTS = "Tx3Proofs.Tie.Constants"
T = "Tx3.Tie."
# which regenerated-table obligations each property rests on
TIES_BY_PROP = {
    "C02": {SITES: [T + "translator_no_problems", T + "sites_reviewed_numeric"]},
    "C03": {CONSTS: [T + "constants_as_modelled"]},
    "C05": {CONSTS: [T + "constants_as_modelled", T + "constants_reviewed"]},
    "C20": {CONSTS: [T + "constants_as_modelled"]},
    "C06": {SCHEMA: [T + "traversals_cover", T + "carriers_have_traversals"], SHAPE: [T + "ir_shape_as_modelled"]},
    "C07": {SCHEMA: [T + "traversals_cover"], SHAPE: [T + "ir_shape_as_modelled"]},
    "C08": {SCHEMA: [T + "directives_consumed_are_produced"]},
    "C11": {SCHEMA: [T + "serde_notes_reviewed", T + "wire_types_derive_serde"], SITES: [T + "sites_reviewed_wire"],
            SHAPE: [T + "ir_shape_as_modelled"]},
    "C12": {SITES: [T + "translator_no_problems", T + "sites_reviewed_front"], CONSTS: [T + "constants_reviewed"]},
    "C13": {SITES: [T + "translator_no_problems", T + "sites_reviewed_lowering"]},
    "C14": {SITES: [T + "translator_no_problems", T + "sites_reviewed_back"], SHAPE: [T + "ir_shape_as_modelled"],
            CONSTS: [T + "constants_as_modelled"]},
    "C16": {SITES: [T + "translator_no_problems", T + "sites_reviewed_json"]},
    "C17": {SITES: [T + "sites_reviewed_tii"]},
    "C18": {SCHEMA: [T + "serde_notes_reviewed"], SHAPE: [T + "ir_shape_as_modelled"]},
}


def _failing_theorems(module, out):
    """Maps the error lines of a module's build output to the theorems they fall in."""
    path = os.path.join(LEAN, *module.split(".")) + ".lean"
    try:
        lines = open(path).read().split("\n")
    except OSError:
        return None
    decls = [(i + 1, m.group(1)) for i, l in enumerate(lines) for m in [re.match(r"^theorem\s+(\S+)", l)] if m]
    bad = set()
    for m in re.finditer(re.escape(os.path.basename(path)) + r":(\d+):\d+", out):
        ln = int(m.group(1))
        owner = [name for (start, name) in decls if start <= ln]
        if owner:
            bad.add(owner[-1])
    return bad


def tie_obligations(rep, prop, ties):
    """Builds each tie module on its own (a broken tie must not hide the other obligations) and
    audits its theorems.  `ties` = {module: [theorem, ...]}."""
    all_ok = True
    for mod, thms in ties.items():
        ok, out = lake_build([mod])
        if not ok:
            bad = _failing_theorems(mod, out)
            detail = out[-3000:]
            if mod == SITES:
                detail = "sites not in the reviewed list:\n" + "\n".join(unreviewed_sites()[:40]) + "\n" + detail
            for t in thms:
                short = t.split(".")[-1]
                failed = bad is None or not bad or short in bad
                rep.obligation(f"tie:{t}", not failed, detail if failed else "elaborated (another theorem of the module failed)")
                all_ok = all_ok and not failed
            continue
        axioms, aout, _ = audit_axioms(prop + "-tie-" + mod.split(".")[-1], [mod], thms)
        for t in thms:
            ax = axioms.get(t)
            if ax is None:
                rep.obligation(f"tie:{t}", False, "not found by #print axioms: " + aout[-500:])
                all_ok = False
            else:
                bad = [a for a in ax if a not in ALLOWED_AXIOMS]
                rep.obligation(f"tie:{t}", not bad, f"axioms={ax}")
                all_ok = all_ok and not bad
    return all_ok


FORBIDDEN = re.compile(
    r"\b(sorry|admit|native_decide|bv_decide|implemented_by|unsafe)\b|^\s*axiom\s|maxHeartbeats\s+0"
)


def strip_comments(src):
    # block comments (nested) and line comments
    out = []
    i = 0
    depth = 0
    n = len(src)
    while i < n:
        if src.startswith("/-", i):
            depth += 1
            i += 2
        elif depth and src.startswith("-/", i):
            depth -= 1
            i += 2
        elif depth:
            if src[i] == "\n":
                out.append("\n")
            i += 1
        elif src.startswith("--", i):
            while i < n and src[i] != "\n":
                i += 1
        else:
            out.append(src[i])
            i += 1
    return "".join(out)


def grep_forbidden():
    hits = []
    for sub in ("Tx3Model", "Tx3Proofs", "Driver"):
        for dp, _, fns in os.walk(os.path.join(LEAN, sub)):
            for fn in fns:
                if not fn.endswith(".lean"):
                    continue
                p = os.path.join(dp, fn)
                code = strip_comments(open(p).read())
                # string literals may mention the words (e.g. messages)
                code = re.sub(r'"(\\.|[^"\\])*"', '""', code)
                for ln, line in enumerate(code.split("\n"), 1):
                    if FORBIDDEN.search(line):
                        hits.append(f"{os.path.relpath(p, LEAN)}:{ln}: {line.strip()[:100]}")
    return hits


def audit_axioms(prop, modules, theorems):
    """#print axioms on every property theorem; returns (per-theorem dict, log)."""
    os.makedirs(os.path.join(LEAN, ".audit"), exist_ok=True)
    path = os.path.join(LEAN, ".audit", f"{prop}.lean")
    with open(path, "w") as f:
        for m in modules:
            f.write(f"import {m}\n")
        for t in theorems:
            f.write(f"#print axioms {t}\n")
    with Lock("lean"):
        rc, out = run(["lake", "env", "lean", path], cwd=LEAN)
    res = {}
    # messages look like:  'Name' depends on axioms: [a, b]   /   'Name' does not depend on any axioms
    flat = re.sub(r"\s+", " ", out)
    for m in re.finditer(r"'([^']+)' depends on axioms: \[([^\]]*)\]", flat):
        res[m.group(1)] = [a.strip() for a in m.group(2).split(",") if a.strip()]
    for m in re.finditer(r"'([^']+)' does not depend on any axioms", flat):
        res[m.group(1)] = []
    return res, out, rc


# --------------------------------------------------------------------------
# pipeline


def harness_run(prop, seed, n, tier, only=None, extra=None, workname=None):
    wd = os.path.join(WORK, workname or prop)
    os.makedirs(wd, exist_ok=True)
    cases = os.path.join(wd, "cases.jsonl")
    cmd = [HARNESS_BIN, prop, "--seed", str(seed), "--n", str(n), "--tier", tier]
    if only is not None:
        cmd += ["--only", str(only)]
    if extra:
        cmd += extra
    errp = os.path.join(wd, "harness.stderr")
    with open(cases, "w") as f, open(errp, "w") as ef:
        # the repository prints debug output (dbg!) on some paths: keep it out of the pipes
        p = subprocess.run(cmd, stdout=f, stderr=ef, text=True, env=ENV)
    with open(errp, "rb") as ef:
        ef.seek(0, 2)
        size = ef.tell()
        ef.seek(max(0, size - 4000))
        tail = ef.read().decode("utf-8", "replace")
    LAST_ABORT.pop(prop, None)
    if (p.returncode < 0 or p.returncode == 134) and only is None:
        # the code under test killed the harness (stack overflow, allocation failure, abort): the case it died in
        # is the one after the last finished line; regenerate that case alone to confirm
        with open(cases) as f:
            k = sum(1 for line in f if line.endswith("\n"))
        probe = cmd + ["--only", str(k)]
        try:
            q = subprocess.run(probe, stdout=subprocess.DEVNULL, stderr=subprocess.DEVNULL, env=ENV, timeout=600)
            again = q.returncode < 0 or q.returncode == 134
        except subprocess.TimeoutExpired:
            again = False
        LAST_ABORT[prop] = {"signal_or_code": p.returncode, "case_index": k, "reproduced_alone": again,
                            "replay_cmd": " ".join(probe), "stderr_tail": tail[-1500:]}
    return p.returncode, cases, tail


LAST_ABORT = {}
LAST_OUTCOME = {}
DEFER_OUTPUT = [False]


def driver_run(prop, cases, mode=None):
    verdicts = os.path.join(os.path.dirname(cases), "verdicts.jsonl")
    cmd = [DRIVER_BIN, prop] + ([mode] if mode else [])
    with open(cases) as fin, open(verdicts, "w") as fout:
        p = subprocess.run(cmd, stdin=fin, stdout=fout, stderr=subprocess.PIPE, text=True)
    return p.returncode, verdicts, p.stderr[-4000:]


def load_known(prop):
    path = os.path.join(ROOT, "known_findings.json")
    if not os.path.exists(path):
        return []
    data = json.load(open(path))
    return [e for e in data.get("findings", []) if e.get("property") == prop]


def write_replay(prop, payload):
    os.makedirs(REPLAYS, exist_ok=True)
    blob = json.dumps(payload, sort_keys=True)
    h = hashlib.sha1(blob.encode()).hexdigest()[:12]
    path = os.path.join(REPLAYS, f"{prop}-{h}.json")
    with open(path, "w") as f:
        json.dump(payload, f, indent=1, sort_keys=True)
    return path


def default_known_match(entry, clause, verdict):
    """A known finding names the failing clause (exact, or a prefix ending in ':') and may
    require tags that the driver attaches to the case (the input class)."""
    ec = entry.get("clause", "")
    if not (clause == ec or (ec.endswith(":") and clause.startswith(ec))):
        return False
    tags = set(verdict.get("tags", []))
    return all(t in tags for t in entry.get("requires_tags", []))


class Report:
    """Collects obligations, verdicts and produces evidence + exit status."""

    def __init__(self, prop, tier, seed):
        self.prop = prop
        self.tier = tier
        self.seed = seed
        self.t0 = time.time()
        self.obligations = []  # (name, ok, detail)
        self.broken_ties = []  # names of proof/correspondence obligations that no longer check
        self.evaluations = 0
        self.keys = set()
        self.tags = Counter()
        self.spec_fail = []  # (case_line_no, verdict)
        self.corr_fail = []
        self.errors = []
        self.samples = []
        self.known_hit = Counter()
        self.notes = []
        self.extra = {}
        self.first_cases = {}

    def obligation(self, name, ok, detail=""):
        self.obligations.append((name, bool(ok), detail))
        if not ok:
            self.broken_ties.append(name)
            log(f"obligation FAILED: {name} {detail[:300]}")

    def ingest(self, cases_path, verdicts_path, max_samples=3):
        """Reads verdicts; keeps the raw case of each failing verdict."""
        want = {}
        verdicts = []
        with open(verdicts_path) as f:
            for line in f:
                line = line.strip()
                if not line:
                    continue
                v = json.loads(line)
                verdicts.append(v)
        idx_fail = set()
        for v in verdicts:
            self.evaluations += 1
            if "error" in v:
                self.errors.append(v)
                idx_fail.add(v.get("i"))
                continue
            if v.get("nt"):
                self.keys.add(v.get("key"))
            for t in v.get("tags", []):
                self.tags[t] += 1
            if v.get("spec"):
                self.spec_fail.append(v)
                idx_fail.add(v["i"])
            if v.get("corr"):
                self.corr_fail.append(v)
                idx_fail.add(v["i"])
        # fetch raw cases for failures and a few samples
        sample_idx = set()
        nts = [v["i"] for v in verdicts if v.get("nt") and "error" not in v]
        for k in range(max_samples):
            if nts:
                sample_idx.add(nts[(k * max(1, len(nts) // max_samples)) % len(nts)])
        need = idx_fail | sample_idx
        if need:
            with open(cases_path) as f:
                for line in f:
                    try:
                        c = json.loads(line)
                    except Exception:
                        continue
                    if c.get("i") in need:
                        want[c["i"]] = c
        for i in sorted(sample_idx):
            if i in want and len(self.samples) < 6:
                s = json.dumps(want[i])
                self.samples.append(want[i] if len(s) < 3000 else {"i": i, "truncated": s[:3000]})
        self.first_cases.update(want)
        return verdicts

    # ------------------------------------------------------------------
    def finish(self, level, rule, assumptions, checker_cmd, known_match=None, stale_probe=None):
        prop = self.prop
        known = load_known(prop)
        violations = []  # (signature, verdict)
        for v in self.spec_fail:
            for clause in v["spec"]:
                hit = None
                for e in known:
                    if e.get("status") != "finding":
                        continue
                    if known_match and known_match(e, clause, v, self.first_cases.get(v["i"])):
                        hit = e
                        break
                    if not known_match and default_known_match(e, clause, v):
                        hit = e
                        break
                if hit:
                    self.known_hit[hit["id"]] += 1
                else:
                    violations.append((clause, v))
        status = 0
        lines = []
        for e in known:
            if e.get("status") == "finding":
                if self.known_hit.get(e["id"]) or e.get("always_report", True):
                    lines.append(f"KNOWN-FINDING: property={prop} {e['id']}: {e['description']}")
                if not self.known_hit.get(e["id"]) and e.get("expect_hit", False):
                    lines.append(f"STALE-FINDING: property={prop} {e['id']} was not reproduced by this run")
        replay_path = None
        if violations:
            clause, v = min(violations, key=lambda cv: len(json.dumps(self.first_cases.get(cv[1]["i"], {}))))
            payload = {
                "property": prop,
                "kind": "implementation-violates-spec",
                "clause": clause,
                "all_clauses": v["spec"],
                "seed": self.seed,
                "tier": self.tier,
                "case_index": v["i"],
                "case": self.first_cases.get(v["i"]),
                "verdict": v,
                "replay_cmd": f"./check {prop} --replay <this file>",
                "distinct_failing_clauses": sorted({c for c, _ in violations}),
                "failing_cases": len({vv['i'] for _, vv in violations}),
            }
            replay_path = write_replay(prop, payload)
            lines.append(f"VIOLATION property={prop} replay={replay_path}")
            status = 1
        elif LAST_ABORT.get(prop, {}).get("reproduced_alone"):
            payload = dict(LAST_ABORT[prop])
            payload.update({"property": prop, "kind": "implementation-aborts", "clause": "no-panic:abort",
                            "seed": self.seed, "tier": self.tier,
                            "note": "the harness process was killed while running this generated case (it calls the "
                            "real code in-process); the replay command regenerates that one case and dies the same way"})
            replay_path = write_replay(prop, payload)
            lines.append(f"VIOLATION property={prop} replay={replay_path}")
            status = 1
        elif self.broken_ties or self.corr_fail or self.errors:
            first = None
            if self.corr_fail:
                v = min(self.corr_fail, key=lambda v: len(json.dumps(self.first_cases.get(v["i"], {}))))
                first = {"case": self.first_cases.get(v["i"]), "verdict": v}
            payload = {
                "property": prop,
                "kind": "tie-broken",
                "broken_obligations": self.broken_ties,
                "obligation_details": [
                    {"name": n, "detail": d[-3000:]} for (n, ok, d) in self.obligations if not ok
                ],
                "model_disagreements": len(self.corr_fail),
                "disagreeing_fields": sorted({c for v in self.corr_fail for c in v["corr"]}),
                "first_disagreement": first,
                "driver_errors": self.errors[:3],
                "seed": self.seed,
                "tier": self.tier,
                "searched_cases": self.evaluations,
                "note": "the proof/correspondence that ties the model to the code no longer checks; "
                "the search over the generated cases found no input on which the implementation "
                "itself contradicts the property",
            }
            replay_path = write_replay(prop, payload)
            lines.append(f"VIOLATION property={prop} replay={replay_path} no-failing-input-found")
            status = 1
        # evidence
        n_obl = len(self.obligations)
        n_ok = sum(1 for (_, ok, _) in self.obligations if ok)
        ev = {
            "property_id": prop,
            "tier": self.tier,
            "seed": self.seed,
            "level": level,
            "coverage": {
                "obligations": n_obl,
                "discharged": n_ok,
                "checker_cmd": checker_cmd,
                "trusted_base": TRUSTED_BASE,
                "obligation_list": [{"name": n, "ok": ok} for (n, ok, _) in self.obligations],
                "evaluations": self.evaluations,
                "distinct_nontrivial": len(self.keys),
                "rule": rule,
                "samples": self.samples if self.samples else [{"note": "no case stream in this run"}],
                "generator_distribution": dict(self.tags.most_common()),
                "spec_failures": len(self.spec_fail),
                "model_disagreements": len(self.corr_fail),
                "driver_errors": len(self.errors),
                "known_findings_hit": dict(self.known_hit),
                **self.extra,
            },
            "assumptions": assumptions,
            "wall_s": round(time.time() - self.t0, 2),
            "violations": 1 if status else 0,
        }
        os.makedirs(EVIDENCE, exist_ok=True)
        with open(os.path.join(EVIDENCE, f"{prop}.json"), "w") as f:
            json.dump(ev, f, indent=1)
        LAST_OUTCOME.clear()
        LAST_OUTCOME.update({"status": status, "lines": lines,
                             "no_input": any(l.endswith("no-failing-input-found") for l in lines)})
        if not DEFER_OUTPUT[0]:
            for l in lines:
                print(l, flush=True)
        log(
            f"{prop} {self.tier}: obligations {n_ok}/{n_obl}, cases {self.evaluations}, "
            f"distinct non-trivial {len(self.keys)}, spec failures {len(self.spec_fail)}, "
            f"model disagreements {len(self.corr_fail)}, errors {len(self.errors)}, "
            f"{ev['wall_s']}s -> exit {status}"
        )
        return status


def standard_prologue(rep, prop, lean_targets, audit_modules, theorems, need_harness=True, ties=None):
    """translator → lake build → axiom audit → forbidden-word grep → harness build.
    Records one obligation per theorem (compiled + axioms allowed)."""
    ok, out = run_translator()
    rep.obligation("translator:regenerate-Gen", ok, out)
    # the judge first: when a proof module no longer builds, the search for a failing input still has to run
    okd, outd = lake_build(["driver"])
    if not okd:
        rep.obligation("lake-build:driver", False, outd[-6000:])
    okb, outb = lake_build(lean_targets)
    if not okb:
        # find which module failed
        failed = re.findall(r"^- (\S+)", outb, re.M)
        rep.obligation("lake-build:" + ",".join(lean_targets), False, outb[-6000:])
        rep.extra["failed_modules"] = failed
    axioms, aout, arc = audit_axioms(prop, audit_modules, theorems) if okb else ({}, "", 1)
    for t in theorems:
        if not okb:
            rep.obligation(f"theorem:{t}", False, "module did not build")
            continue
        short = t
        ax = axioms.get(t)
        if ax is None:
            rep.obligation(f"theorem:{short}", False, "not found by #print axioms: " + aout[-500:])
        else:
            bad = [a for a in ax if a not in ALLOWED_AXIOMS]
            rep.obligation(f"theorem:{short}", not bad, f"axioms={ax}")
    ties = ties if ties is not None else TIES_BY_PROP.get(prop)
    if ties:
        tie_obligations(rep, prop, ties)
    if okb and rep.tier == "thorough":
        # the toolchain's independent re-checker replays the compiled declarations of each property module
        for mod in audit_modules:
            p = subprocess.run(["lake", "env", "leanchecker", mod], cwd=LEAN, stdout=subprocess.PIPE,
                               stderr=subprocess.STDOUT, text=True)
            rep.obligation(f"leanchecker:{mod}", p.returncode == 0, p.stdout[-2000:])
    hits = grep_forbidden()
    rep.obligation("no-sorry-admit-axiom-native_decide", not hits, "\n".join(hits))
    if need_harness:
        okh, outh = build_harness()
        rep.obligation("harness-builds-against-working-tree", okh, outh[-6000:])
        return okd and okh
    return okd


def parse_args(argv):
    import argparse

    ap = argparse.ArgumentParser()
    ap.add_argument("prop")
    ap.add_argument("--tier", default=os.environ.get("VERIF_TIER", "quick"))
    ap.add_argument("--replay", default=None)
    ap.add_argument("--seed", type=int, default=None)
    a = ap.parse_args(argv)
    seed = a.seed
    if seed is None:
        try:
            seed = int(os.environ.get("VERIF_SEED", "20260927"))
        except ValueError:
            seed = 20260927
    if a.tier not in ("quick", "thorough"):
        a.tier = "quick"
    return a.prop, a.tier, seed, a.replay
