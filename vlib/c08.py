"""C08 — redeemers are attached to the item they were written for."""
from . import compile_common as cc

LEVEL_TEXT = (
    "Lean 4 theorems over the model of compile_redeemers and of the whole compile, and - from the source - over the lowering model: a redeemer written as a data expression (integer expressions, literals, records and variants in any field order, lists) yields the same Plutus Data in every position it may be lowered in, and a policy name is its hash in every position but an address position (C08_redeemer_position_immaterial, C08_policy_name_as_data), and a map-valued redeemer keeps its entries in the order written (C01_map_literal); every redeemer of a successfully "
    "compiled transaction is attached to the item it was written for and carries that block's data "
    "(C08_redeemers_sound) - a spend redeemer comes from an input block that carries one and its index is the position "
    "of one of the block's UTxOs in the sorted distinct body inputs; a mint redeemer comes from a mint or burn block "
    "that carries one and its index is the position, among the sorted distinct minted policies, of a policy read from "
    "one of that block's asset entries; a reward redeemer comes from a withdrawal directive that carries one and its "
    "index is the position of that directive's reward account among the withdrawal keys; the final map contains exactly the entries produced for spend, mint, burn and withdrawal blocks "
    "(nothing invented, nothing lost) and two different redeemers on one key make compilation fail rather than one "
    "replacing the other. Per case the expected map is rebuilt from the template by sorting items as the ledger does "
    "and compared with the witness set read from the real payload."
)
LEVEL_NOTE = cc.MODEL_NOTE + ". That the ledger sorts items the way the model does (inputs by (txid, index), policies and reward accounts bytewise) is the ledger's rule, checked per case against what pallas decodes."
PROP = "C08"
TARGETS = ["Tx3Proofs.C08", "Tx3Proofs.C08Lang", "Tx3Proofs.C01Map"]
THEOREMS = ["Tx3.indexOf?_get", "Tx3.C08_spend_sound", "Tx3.insertRedeemer_keeps", "Tx3.insertRedeemer_present", "Tx3.C08_map_exact",
            "Tx3.policies_sound", "Tx3.C08_mint_sound", "Tx3.C08_reward_sound", "Tx3.C08_redeemers_sound",
    "Tx3.Lang.C08_redeemer_position_immaterial", "Tx3.Lang.C08_policy_name_as_data",
    "Tx3.Lang.C01_map_literal"]
ASSUMPTIONS = [cc.MODEL_NOTE, "redeemer data equality in the model is PData's structural ==",
               "txids/indices/policies are drawn from small pools so that all relative orders occur"]


def check(tier, seed, replay):
    return cc.run(PROP, tier, seed, replay, TARGETS, THEOREMS, cc.GEN_RULE + "; C08 also from the source: 14 expressions (unit, numbers, a parameter, arithmetic, a policy name, records in both field orders, variants, booleans, bytes, lists, text) each written as the redeemer of an input, a mint and a withdrawal of one program, resolved and compiled on both networks - the three redeemers must carry the same data", ASSUMPTIONS)
