"""C08 — redeemers are attached to the item they were written for."""
from . import compile_common as cc

LEVEL_TEXT = (
    "Lean 4 theorems over the model of compile_redeemers: every spend redeemer comes from an input block that carries "
    "one, holds that block's data, and its index is the position of one of the block's UTxOs in the sorted distinct "
    "body inputs; the final map contains exactly the entries produced for spend, mint, burn and withdrawal blocks "
    "(nothing invented, nothing lost) and two different redeemers on one key make compilation fail rather than one "
    "replacing the other. Per case the expected map is rebuilt from the template by sorting items as the ledger does "
    "and compared with the witness set read from the real payload."
)
LEVEL_NOTE = cc.MODEL_NOTE + ". Index soundness is proved for spend items; mint and reward indices are tied by correspondence and the per-case oracle."
PROP = "C08"
TARGETS = ["Tx3Proofs.C08"]
THEOREMS = ["Tx3.indexOf?_get", "Tx3.C08_spend_sound", "Tx3.insertRedeemer_keeps", "Tx3.insertRedeemer_present", "Tx3.C08_map_exact"]
ASSUMPTIONS = [cc.MODEL_NOTE, "redeemer data equality in the model is PData's structural ==",
               "txids/indices/policies are drawn from small pools so that all relative orders occur"]


def check(tier, seed, replay):
    return cc.run(PROP, tier, seed, replay, TARGETS, THEOREMS, cc.GEN_RULE, ASSUMPTIONS)
