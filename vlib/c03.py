"""C03 — input selection honours every stated constraint and finds a match if one exists."""
import json

from . import core

LEVEL_TEXT = (
    "Lean 4 theorems over a model of narrow.rs / select/*.rs in which every choice the Rust code leaves to a "
    "HashSet order or to the float ranking is an explicit oracle: for ALL candidate orders and ALL removal "
    "orders, a single-UTxO input gets exactly one UTxO that alone covers min_amount and gets one whenever "
    "some candidate covers it; a multi-UTxO input gets a subset of the candidates whose sum covers min_amount "
    "in every class and gets one whenever the candidates together cover it; every bound UTxO is in the store, "
    "at the from-address, among the refs, not taken before, and pure lovelace for collateral; the window "
    "always contains the intersection and contains the union when the padding fits; with several blocks, a block whose window holds nothing the earlier ones took is selected exactly as it would be alone, for every oracle (C03_independent_block, C03_two_independent_blocks). Tied to the code by "
    "exhaustive small-scope enumeration (all stores of <=2, thorough <=3, UTxOs x the property's query grid) "
    "and random stores up to 80 UTxOs on the real inputs::resolve."
)
LEVEL_NOTE = (
    "Trusted: Lean kernel + standard axioms, harness/driver, hand-written selector model (tied by correspondence: "
    "success/failure status, error class, and the terminal condition of the excess-removal loop). "
    "Theorems assume non-negative, key-unique UTxO values and min_amount, unique refs in the store. "
    "The float-based ranking is abstracted as an arbitrary order, which is what makes the theorems independent of it."
)
PROP = "C03"
LEAN_TARGETS = ["Tx3Proofs.C03", "Tx3Proofs.C03Independent"]
AUDIT_MODULES = ["Tx3Proofs.C03", "Tx3Proofs.C03Independent"]
THEOREMS = [
    "Tx3.C03_single_sound", "Tx3.C03_single_complete",
    "Tx3.pickManyLoop_inv", "Tx3.pickManyLoop_skipped", "Tx3.removeExcess_inv",
    "Tx3.C03_many_sound", "Tx3.C03_many_complete",
    "Tx3.C03_select_sound", "Tx3.C03_take_complete",
    "Tx3.C03_independent_block", "Tx3.C03_two_independent_blocks"]

RULE = (
    "cases = (store, query list) run through the real inputs::resolve with an in-memory store: corpus; "
    "exhaustive grid = every store of up to 2 (thorough: 3) UTxOs over 2 addresses x lovelace 0..2 x token 0..2, "
    "times address {none,A,B} x ref {none, dangling, own, foreign} x 11 min_amount shapes x {single, many} x "
    "{input, collateral}; sampled 3-5 UTxO stores x grid; random stores of 1..80 UTxOs with amounts up to 2^62 "
    "(crossing the 50-UTxO window); one party's wallet of 49 / 50 / 51 / 52 / 64 / 100 / 300 UTxOs at the queried "
    "address (the strict matches alone exceed the window); multi-block cases; independent blocks (2-3 blocks without an address, each pinned to its own reference or after a token only its own UTxO holds, in both name orders; mixed scope: a block without an address and a block drawing from the address where the same UTxO sits, and a collateral block pinned to a UTxO that holds a token: a failing block that shares no candidate with the others is judged for completeness like a single one). Non-trivial = non-empty store and a constrained query; "
    "distinct = distinct (store, queries)"
)

ASSUMPTIONS = [
    "the store's index semantics (by address: equality; by asset: positive amount) are those of the harness's in-memory UtxoStore",
    "completeness is checked when the candidate set of the property (address/ref constraints, token holders for address-less queries) has at most 50 elements and min_amount is non-negative",
    "which block fails first when several compete is oracle-dependent: only the error class is compared for multi-block cases",
]


def check(tier, seed, replay, prop=PROP, theorems=None, targets=None, level_rule=None, assumptions=None):
    rep = core.Report(prop, tier, seed)
    only = None
    if replay:
        r = json.load(open(replay))
        seed, tier, only = r.get("seed", seed), r.get("tier", tier), r.get("case_index")
        rep.seed, rep.tier = seed, tier
    targets = targets or LEAN_TARGETS
    ok = core.standard_prologue(rep, prop, targets, targets, theorems or THEOREMS)
    if ok:
        n = 300 if tier == "quick" else 6000
        rc, cases, err = core.harness_run(prop, seed, n, tier, only=only)
        rep.obligation("harness-run", rc == 0, err)
        rc2, verdicts, err2 = core.driver_run(prop, cases)
        rep.obligation("driver-run", rc2 == 0, err2)
        rep.ingest(cases, verdicts)
    return rep.finish(
        "proof", level_rule or RULE, assumptions or ASSUMPTIONS,
        f"cd /verif/lean && lake build {' '.join(targets)} && lake env lean .audit/{prop}.lean  (#print axioms)",
    )
