"""C09 — datums and redeemers are encoded as standard Plutus Data."""
from . import compile_common as cc

LEVEL_TEXT = (
    "Lean 4 theorem: the Plutus Data CBOR convention written from its specification (alternatives 0-6 -> tags 121-127, "
    "7-127 -> 1280-1400, larger -> tag 102 with the index; 64-bit integers and bignums of either sign; byte strings "
    "chunked above 64 bytes; lists, maps, nesting) round-trips: specRead (specWrite d) = some d for every value. The "
    "implementation's mapping from expressions to Plutus Data (record/variant -> constructor index and fields in "
    "order, bool, unit, strings) is modelled and tied per case: the inline datum and redeemer bytes of the real "
    "payload are read by the Lean CBOR reader + specRead and must equal the value the expression denotes."
)
LEVEL_NOTE = cc.MODEL_NOTE + ". pallas' PlutusData encoder is not modelled; that its bytes follow the convention is decided per case by reading them with specRead."
PROP = "C09"
TARGETS = ["Tx3Proofs.C09"]
THEOREMS = ["Tx3.Cbor.beNat_natToBytes", "Tx3.PData.C09_read_write", "Tx3.PData.C09_constr_tag", "Tx3.C09_struct", "Tx3.C09_roundtrip_of_expr", "Tx3.PData.C09_bytes_read_write"]
ASSUMPTIONS = [cc.MODEL_NOTE, "constructor indices are drawn from 0..6, 7..127, the boundaries {6,7,8,127,128,129,139,1000}; integers from the i128 boundary set"]


SOURCE_RULE = (
    " Plus the source-level stream of C01 (generated programs with record and variant constructors, spreads, fields "
    "written in any order, datums of every kind): the inline datum of every output of the compiled transaction, read "
    "by the Lean reader, must be the value the constructor expression denotes (clauses output-datum*)."
)


def check(tier, seed, replay):
    import json
    from . import core
    rep = core.Report(PROP, tier, seed)
    only = None
    if replay:
        r = json.load(open(replay))
        seed, tier, only = r.get("seed", seed), r.get("tier", tier), r.get("case_index")
        rep.seed, rep.tier = seed, tier
    ok = core.standard_prologue(rep, PROP, TARGETS, TARGETS, THEOREMS)
    if ok:
        n = 1500 if tier == "quick" else 60000
        rc, cases, err = core.harness_run(PROP, seed, n, tier, only=only)
        rep.obligation("harness-run", rc == 0, err)
        rc2, verdicts, err2 = core.driver_run(PROP, cases)
        rep.obligation("driver-run", rc2 == 0, err2)
        rep.ingest(cases, verdicts)
        if only is None:
            # constructors as the language writes them: the whole pipeline, judged on the datum clauses only
            n2 = 400 if tier == "quick" else 8000
            rc3, cases3, err3 = core.harness_run("C01", seed, n2, tier, workname="C09-source")
            rep.obligation("harness-run:source-level", rc3 == 0, err3)
            rc4, verdicts3, err4 = core.driver_run("C01", cases3)
            rep.obligation("driver-run:source-level", rc4 == 0, err4)
            kept = verdicts3 + ".datum"
            with open(verdicts3) as f, open(kept, "w") as g:
                for line in f:
                    line = line.strip()
                    if not line:
                        continue
                    v = json.loads(line)
                    if "error" not in v:
                        v["spec"] = [c for c in v.get("spec", []) if c.startswith("output-datum")]
                        v["corr"] = []
                        v["tags"] = ["source-level"] + [t for t in v.get("tags", []) if t.startswith("datum")]
                        # indices of the two streams must not collide in the report
                        v["i"] = 10_000_000 + v["i"]
                    g.write(json.dumps(v) + "\n")
            shifted = cases3 + ".shifted"
            with open(cases3) as f, open(shifted, "w") as g:
                for line in f:
                    try:
                        c = json.loads(line)
                    except Exception:
                        continue
                    c["i"] = 10_000_000 + c["i"]
                    g.write(json.dumps(c) + "\n")
            rep.ingest(shifted, kept)
    return rep.finish(
        "proof", cc.GEN_RULE + SOURCE_RULE, ASSUMPTIONS,
        f"cd /verif/lean && lake build {' '.join(TARGETS)} && lake env lean .audit/{PROP}.lean  (#print axioms)",
    )
