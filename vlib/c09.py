"""C09 — datums and redeemers are encoded as standard Plutus Data."""
from . import compile_common as cc

LEVEL_TEXT = (
    "Lean 4 theorem: the Plutus Data CBOR convention written from its specification (alternatives 0-6 -> tags 121-127, "
    "7-127 -> 1280-1400, larger -> tag 102 with the index; 64-bit integers and bignums of either sign; byte strings "
    "chunked above 64 bytes; lists, maps, nesting) round-trips: specRead (specWrite d) = some d for every value. The "
    "implementation's mapping from expressions to Plutus Data (record/variant -> constructor index and fields in "
    "order, bool, unit, strings) is modelled and tied per case: the inline datum and redeemer bytes of the real "
    "payload are read by the Lean CBOR reader + specRead and must equal the value the expression denotes."
)
LEVEL_NOTE = cc.MODEL_NOTE + ". pallas' PlutusData encoder is not modelled; that its bytes follow the convention is decided per case by reading them with specRead."
PROP = "C09"
TARGETS = ["Tx3Proofs.C09"]
THEOREMS = ["Tx3.Cbor.beNat_natToBytes", "Tx3.PData.C09_read_write", "Tx3.PData.C09_constr_tag", "Tx3.C09_struct", "Tx3.C09_roundtrip_of_expr", "Tx3.PData.C09_bytes_read_write"]
ASSUMPTIONS = [cc.MODEL_NOTE, "constructor indices are drawn from 0..6, 7..127, the boundaries {6,7,8,127,128,129,139,1000}; integers from the i128 boundary set"]


def check(tier, seed, replay):
    return cc.run(PROP, tier, seed, replay, TARGETS, THEOREMS, cc.GEN_RULE, ASSUMPTIONS)
