"""C16 — JSON arguments are coerced faithfully and safely at the service boundary."""
import json

from . import core

LEVEL_TEXT = (
    "Lean 4 theorems over the model of interop.rs (from_json per declared type) and of the argument handling of "
    "parse_resolve_request: hex text decodes back to the bytes it encodes, with or without one 0x prefix, for every "
    "byte string; booleans are read from true/false, 0/1 and \"true\"/\"false\" and from nothing else (C16_bool_only); from_json and the request's argument "
    "handling return a value or an error for every JSON value and target type (no panic constructor is reachable); the "
    "argument map handed to the template holds only declared parameters, and exactly what the request supplies for them: for every name the map "
    "holds the coerced value of the last entry under that name in env ++ args when the name is declared and nothing otherwise - no supplied "
    "parameter is dropped, the argument wins over an environment entry of the same name, and every declared entry of an accepted request was "
    "read successfully (C16_request_args_exact, C16_argument_overrides_env). Per generated case the real from_json and the "
    "real parse_resolve_request (TIR envelope decoded by the real from_bytes) are run on the same JSON and compared "
    "with the model outcome for outcome, including which parameters were set, from args or from env."
)
LEVEL_NOTE = (
    "UTxO references: hex(txid)#decimal(index) is read back as exactly that reference for every txid and every index below 2^32 (C16_utxo_ref_roundtrip). Integers: the decimal rendering (C16_int_decimal) and the 0x + 16 big-endian two's-complement bytes rendering "
    "(C16_int_hex16) of every integer of the 128-bit range are read back exactly (theorems; that Rust's to_string / "
    "to_be_bytes produce these renderings is exercised on boundary values); base64 and bech32 decoding are parameters of the model (the crates are trusted, their "
    "results are fed to the judge from the observation); apply_args on the decoded template is C06's model."
)
PROP = "C16"
TARGETS = ["Tx3Proofs.C16", "Tx3Proofs.C16Int", "Tx3Proofs.C16Ref", "Tx3Proofs.C16Exact", "Tx3Proofs.C16Bool"]
THEOREMS = ["Tx3.Json.C16_hex_roundtrip", "Tx3.Json.C16_hexToBytes_plain", "Tx3.Json.C16_hexToBytes_prefixed",
            "Tx3.Json.C16_bool", "Tx3.Json.C16_fromJson_total", "Tx3.Json.C16_request_args",
            "Tx3.Json.parseNatChars_natDigits", "Tx3.Json.C16_int_decimal", "Tx3.Json.ofBE16_toBE16", "Tx3.Json.C16_int_hex16", "Tx3.Json.C16_utxo_ref_roundtrip",
            "Tx3.Json.go_exact", "Tx3.Json.C16_request_args_exact", "Tx3.Json.C16_argument_overrides_env",
    "Tx3.Json.C16_bool_only", "Tx3.Json.C16_number_not_bool", "Tx3.Json.C16_utxo_ref_index_fits"]
RULE = (
    "cases = (a) every admissible encoding of a drawn value per type: integers (boundary i128 / u64 / i64 values) as "
    "JSON number, decimal string, 0x-hex of 16 bytes; booleans as literal, 0/1, strings; byte strings as hex, 0x-hex, "
    "hex and base64 envelopes under each field alias; addresses as hex and as bech32 written by the harness's own "
    "BIP-173 encoder under the prefixes addr / addr_test / stake / stake_test (29- and 57-byte payloads), each with a "
    "broken-checksum twin that must be rejected; UTxO references as txid#index; "
    "(b) ill-formed values: odd-length hex, double 0x prefix, fractional and out-of-range numbers, wrong JSON kinds, "
    "envelopes with missing/duplicate/unknown fields and unknown encodings, bad references; (c) random JSON against a "
    "random type; (d) resolve requests whose parameters are split between args and env, with undeclared extras, "
    "overriding duplicates, and corrupted TIR envelopes (bad hex, wrong encoding, truncated bytes, retired and unknown "
    "versions - among them names up to 80 characters and a wide character at every position of a 64-character name); a name present in both env and args carries a good env value three times out of four; numbers and texts that are no boolean and references whose index is no 32-bit number in the ill-formed stream. "
    "Non-trivial = every case; distinct = distinct (JSON, type) or request"
)
ASSUMPTIONS = ["the HTTP/JSON-RPC server loop around parse_resolve_request is not exercised; serde_json's parser is trusted"]


def check(tier, seed, replay):
    rep = core.Report(PROP, tier, seed)
    only = None
    if replay:
        r = json.load(open(replay))
        seed, tier, only = r.get("seed", seed), r.get("tier", tier), r.get("case_index")
        rep.seed, rep.tier = seed, tier
    ok = core.standard_prologue(rep, PROP, TARGETS, TARGETS, THEOREMS)
    if ok:
        n = 300 if tier == "quick" else 6000
        rc, cases, err = core.harness_run(PROP, seed, n, tier, only=only)
        rep.obligation("harness-run", rc == 0, err)
        rc2, verdicts, err2 = core.driver_run(PROP, cases)
        rep.obligation("driver-run", rc2 == 0, err2)
        rep.ingest(cases, verdicts)
    return rep.finish("proof", RULE, ASSUMPTIONS,
                      "cd /verif/lean && lake build Tx3Proofs.C16 && lake env lean .audit/C16.lean  (#print axioms)")
