"""C07 — staged application is order-independent and reduction is idempotent."""
import json

from . import core

LEVEL_TEXT = (
    "Lean 4 theorems: the three substitution stages (args, inputs, fees) commute syntactically on every expression and transaction, so all six orders give the identical template. Clauses involving reduce and the compiler pass are decided per generated template by running every stage permutation x every reduce placement on the real crates and comparing canonical results (spec oracle on the implementation), with the model's apply/reduce/compiler-pass tied by correspondence on the same cases."
)
LEVEL_NOTE = (
    'Partial: reduce idempotence and schedule-independence with interleaved reductions are explored exhaustively per case (up to 384 schedules) but not yet theorems. Known finding C07-query-error-masked is reported, not suppressed silently.'
)
PROP = "C07"
LEAN_TARGETS = ["Tx3Proofs.C07"]
AUDIT_MODULES = ["Tx3Proofs.C07"]
THEOREMS = [
    "Tx3.Expr.C07_args_fees", "Tx3.Expr.C07_args_inputs", "Tx3.Expr.C07_fees_inputs",
    "Tx3.Stage.commute_expr", "Tx3.C07_apply_commute",
]

RULE = (
    "cases = type-directed random TIR templates (parameters, inputs, fees, compiler ops with parameter "
    "operands, locals-like wrappers) with type-correct args, UTxO sets and a fee; for each, every permutation "
    "of the stages {args, inputs, fees, compiler-ops} x every subset of reduce positions (quick: a third, "
    "always including the repository's own two orders; thorough: all 384) is run on the real crates and the "
    "canonical final templates compared; reduce∘reduce compared with reduce. Non-trivial = the template has "
    "an unresolved parameter node; distinct = distinct (template, args, fee)"
)

ASSUMPTIONS = [
    "proved: the three substitution stages commute syntactically on every expression and transaction (all 6 orders give the identical tree); NOT yet proved: clauses involving reduce and the compiler pass - decided per case by exhaustive schedule exploration on the real crates (spec oracle) and by the model correspondence",
    "a schedule is admissible when every compiler op's operands are free of unresolved parameters at the moment the compiler stage runs",
    "canonical form sorts asset lists (their order comes out of a HashMap)",
]


def check(tier, seed, replay):
    rep = core.Report(PROP, tier, seed)
    only = None
    if replay:
        r = json.load(open(replay))
        seed, tier, only = r.get("seed", seed), r.get("tier", tier), r.get("case_index")
        rep.seed, rep.tier = seed, tier
    ok = core.standard_prologue(rep, PROP, LEAN_TARGETS, AUDIT_MODULES, THEOREMS)
    if ok:
        n = 250 if tier == "quick" else 6000
        rc, cases, err = core.harness_run(PROP, seed, n, tier, only=only)
        rep.obligation("harness-run", rc == 0, err)
        rc2, verdicts, err2 = core.driver_run(PROP, cases)
        rep.obligation("driver-run", rc2 == 0, err2)
        rep.ingest(cases, verdicts)
    return rep.finish(
        "proof", RULE, ASSUMPTIONS,
        "cd /verif/lean && lake build Tx3Proofs.C07 && lake env lean .audit/C07.lean  (#print axioms)",
    )
