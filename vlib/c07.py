"""C07 — staged application is order-independent and reduction is idempotent."""
import json

from . import core

LEVEL_TEXT = (
    "Lean 4 theorems over the reducer model: (1) the three substitution stages (args, inputs, fees) commute "
    "syntactically on every expression and transaction, so all six orders give the identical template; (2) reduction "
    "is idempotent: for every well-formed expression (payloads of substituted parameters and resolved UTxOs are values) "
    "reduce lands in a normal form - whatever the fuel - a normal form is a fixed point of any further reduction, and "
    "with the fuel reduce supplies it reduces to itself, so reduce(reduce(e)) = reduce(e); (3) the hypothesis is what "
    "the pipeline maintains: each substitution stage given values and reduce itself keep templates well-formed, so "
    "interleaving reductions anywhere in a schedule changes nothing that a later reduction would not also produce; "
    "(4) without the hypothesis the law fails (proved witness Set(Add(1,2))); (5) reduction commutes with every stage: "
    "for a well-formed, sealed expression e, if the reducer answers r on e, a on stage(e) and b on stage(r) then a = b, "
    "for arguments, input UTxOs and the fee alike and for every fuel (C07_reduce_commutes_with_stage, proved once over "
    "the laws IsStage that the three stages satisfy), hence along chains of stages (C07_two_stages) and, lifted through the eleven fields, for whole transactions (C07_tx_reduce_commutes_with_stage), and the reducer's "
    "answer does not depend on its fuel (reduceF_det); (6) every stage and every reduction treats the lists of a transaction (signers, references, inputs, outputs, mints, burns, metadata, collateral, directives) entry by entry - lengths and positions are kept, whether or not two entries have become equal (C07_lists_keep_their_length, C07_signers_entrywise, C07_stage_keeps_lists); (7) the compiler-op stage returns a template without ops unchanged, leaves no op behind when the compiler's answers hold none - proved of the Cardano model's reduce_op - and is therefore idempotent once it has succeeded (C07_cardano_compiler_pass_idempotent). The other clauses involving the compiler pass and "
    "the equality of final templates across whole-transaction schedules are decided per generated template by running every stage "
    "permutation x every reduce placement on the real crates and comparing canonical results, with the model's "
    "apply/reduce/compiler-pass tied by correspondence on the same cases and the well-formedness hypothesis evaluated "
    "on every template and applied template."
)
LEVEL_NOTE = (
    "Partial: confluence of reduce with the three substitution stages is a theorem for expressions and transactions when all the "
    "reductions involved succeed (that an error on one schedule is an error on the others is explored per case, and is "
    "where the known finding lives); the compiler pass in a schedule is explored exhaustively per case (up to 384 "
    "schedules), not a theorem; the hypotheses WF and Sealed are theorems for every transaction the lowering model "
    "produces (lowerTx_sealed_WF) and are evaluated on every generated template (tags wf-holds, sealed-holds). "
    "Known finding C07-query-error-masked is reported, not suppressed silently."
)
PROP = "C07"
LEAN_TARGETS = ["Tx3Proofs.C07", "Tx3Proofs.C07Reduce", "Tx3Proofs.C07Confluence", "Tx3Proofs.C07Tx", "Tx3Proofs.C06Lower", "Tx3Proofs.C07Lists", "Tx3Proofs.C07Compiler", "Tx3Proofs.C06LowerAdhoc"]
AUDIT_MODULES = ["Tx3Proofs.C07", "Tx3Proofs.C07Reduce", "Tx3Proofs.C07Confluence", "Tx3Proofs.C07Tx", "Tx3Proofs.C06Lower", "Tx3Proofs.C07Lists", "Tx3Proofs.C07Compiler", "Tx3Proofs.C06LowerAdhoc"]
THEOREMS = [
    "Tx3.Expr.C07_args_fees", "Tx3.Expr.C07_args_inputs", "Tx3.Expr.C07_fees_inputs",
    "Tx3.Stage.commute_expr", "Tx3.C07_apply_commute",
    "Tx3.reduce_nf", "Tx3.nf_fix", "Tx3.nf_fix_fuel", "Tx3.C07_reduce_idempotent", "Tx3.C07_reduce_stable",
    "Tx3.C07_reduce_not_idempotent_without_WF", "Tx3.C07_stages_preserve_WF", "Tx3.C07_reduce_preserves_WF",
    "Tx3.reduce_sealed", "Tx3.confl_args", "Tx3.reduceF_det", "Tx3.confl_stage", "Tx3.Stage.isStage",
    "Tx3.C07_reduce_commutes_with_stage", "Tx3.C07_reduce_then_stage", "Tx3.C07_two_stages", "Tx3.sealedb_Sealed",
    "Tx3.Tx.mapM_rel", "Tx3.C07_tx_reduce_commutes_with_stage",
    "Tx3.Lang.lowerTx_sealed_WF",
    "Tx3.C07_lists_keep_their_length", "Tx3.C07_signers_entrywise", "Tx3.C07_stage_keeps_lists", "Tx3.compilerPass_opFree", "Tx3.compilerPass_leaves_none", "Tx3.C07_compiler_pass_idempotent", "Tx3.reduceOp_answers_opFree", "Tx3.C07_cardano_compiler_pass_idempotent", "Tx3.Lang.lowerTxFull_sealed_WF"]

RULE = (
    "cases = a query-shape sweep (an input block and a collateral block whose query states every subset of address / "
    "min_amount / ref, each as a literal or a parameter - one of them of a custom (alias) type -, single and multi: 144 templates), a redex sweep (small "
    "templates: every rewrite rule of the reducer - add, sub, negate, property access "
    "on list / struct / tuple / map literals, positions a multiple of 2^64 away from real ones included - met by every class of operand: a constant, a closed expression that folds, "
    "a pending parameter, an expression that folds once the argument is there, a substituted parameter, NoOp wrappers), a concat sweep (every pair of operand classes), a coercion sweep (each of the four coercions over 14 operand classes: nothing, scalars, containers, assets, UTxO sets with and without datum, pending), an arg-kind sweep (a parameter of each of the 12 declared types met by an argument of each of the 9 kinds - texts and UTxO sets included - in a datum, behind a coercion and inside a list: 324 templates) "
    "and type-directed random TIR templates (parameters, inputs, fees, compiler ops with parameter "
    "operands, locals-like wrappers) with type-correct args, UTxO sets and a fee; for each, every permutation "
    "of the stages {args, inputs, fees, compiler-ops} x every subset of reduce positions (quick: a third, "
    "always including the repository's own two orders; thorough: all 384) is run on the real crates and the "
    "canonical final templates compared; reduce∘reduce compared with reduce; a twin sweep (two or three entries of one list that become equal only once the arguments are in and reduced, in signers / references / outputs / metadata). Non-trivial = the template has "
    "an unresolved parameter node; distinct = distinct (template, args, fee)"
)

ASSUMPTIONS = [
    "proved: the three substitution stages commute syntactically (all 6 orders give the identical tree); reduce is idempotent on well-formed templates and well-formedness is preserved by every stage; proved: reduce commutes with each stage on expressions whenever the reductions succeed; NOT proved: error agreement across schedules, and the compiler pass - decided per case by exhaustive schedule exploration on the real crates (spec oracle) and by the model correspondence",
    "a schedule is admissible when every compiler op's operands are free of unresolved parameters at the moment the compiler stage runs",
    "canonical form sorts asset lists (their order comes out of a HashMap)",
]


def check(tier, seed, replay):
    rep = core.Report(PROP, tier, seed)
    only = None
    if replay:
        r = json.load(open(replay))
        seed, tier, only = r.get("seed", seed), r.get("tier", tier), r.get("case_index")
        rep.seed, rep.tier = seed, tier
    ok = core.standard_prologue(rep, PROP, LEAN_TARGETS, AUDIT_MODULES, THEOREMS)
    if ok:
        n = 250 if tier == "quick" else 6000
        rc, cases, err = core.harness_run(PROP, seed, n, tier, only=only)
        rep.obligation("harness-run", rc == 0, err)
        rc2, verdicts, err2 = core.driver_run(PROP, cases)
        rep.obligation("driver-run", rc2 == 0, err2)
        rep.ingest(cases, verdicts)
    return rep.finish(
        "proof", RULE, ASSUMPTIONS,
        "cd /verif/lean && lake build Tx3Proofs.C07 && lake env lean .audit/C07.lean  (#print axioms)",
    )
