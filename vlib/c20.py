"""C20 — resolution does not depend on what the compiler instance compiled before."""
from . import c05

LEVEL_TEXT = (
    "Lean 4 theorem over the model of resolve_tx: the compiler state left behind by earlier compilations is dropped "
    "before the first pass, so the outcome (bytes, hash, fee or error) is the same function of the template, arguments, "
    "store and parameters for every history; a second theorem shows the statement fails for a loop without that reset "
    "(a pass that reads the remembered body, as min_utxo sizing does). Tied to the code per case: histories of 0-4 "
    "earlier resolutions (0-5 outputs, with and without min_utxo, succeeding and failing) on one real Compiler, then "
    "the target, against a fresh instance - outcomes and recorded pass traces must be identical."
)
LEVEL_NOTE = (
    "Trusted as for C05. The reset is a provided method of the Compiler trait called by resolve_tx (fix commit); "
    "callers that drive Compiler::compile directly and evaluate min_utxo themselves are outside resolve_tx and outside this property."
)
PROP = "C20"
THEOREMS = ["Tx3.C20_history_independent", "Tx3.C20_needs_reset"]
RULE = (
    "cases = (history, target): history = 0..4 earlier resolve_tx calls on the same Compiler (templates with 0-5 "
    "outputs, with/without min_utxo of their last output, some failing for lack of funds), target = another such "
    "template; the same target is also resolved on a fresh Compiler; a width-boundary sweep (price per byte 280..420 for two min-utxo templates after a history of two resolutions); the price per byte varies over the random plans; a quarter of the templates are validity templates (since_slot later than the chain point, tip_slot / slot_to_time / time_to_slot in bounds and metadata). Non-trivial = non-empty history; distinct = "
    "distinct (history, target)"
)


def check(tier, seed, replay):
    return c05.check(tier, seed, replay, prop=PROP, theorems=THEOREMS, rule=RULE, n_quick=600, n_thorough=30000)
