"""Shared runner of the compile probe (C02, C08, C09, C10, C14)."""
import json

from . import core


def run(prop, tier, seed, replay, targets, theorems, rule, assumptions, n_quick=1500, n_thorough=60000):
    rep = core.Report(prop, tier, seed)
    only = None
    if replay:
        r = json.load(open(replay))
        seed, tier, only = r.get("seed", seed), r.get("tier", tier), r.get("case_index")
        rep.seed, rep.tier = seed, tier
    ok = core.standard_prologue(rep, prop, targets, targets, theorems)
    if ok:
        n = n_quick if tier == "quick" else n_thorough
        rc, cases, err = core.harness_run(prop, seed, n, tier, only=only)
        rep.obligation("harness-run", rc == 0, err)
        rc2, verdicts, err2 = core.driver_run(prop, cases)
        rep.obligation("driver-run", rc2 == 0, err2)
        rep.ingest(cases, verdicts)
    return rep.finish(
        "proof", rule, assumptions,
        f"cd /verif/lean && lake build {' '.join(targets)} && lake env lean .audit/{prop}.lean  (#print axioms)",
    )


GEN_RULE = (
    "cases = constant (fully reduced) TIR transactions generated directly: 0-3 input blocks (UtxoRefs or UtxoSets of 1-3 "
    "refs, with/without redeemers), 0-3 outputs (addresses of several kinds, asset lists of 1-3 entries, datums up to "
    "depth 3, optional flag), validity, 0-2 mints and 0-1 burns over 3 policies, 0-2 withdrawals (stake and base "
    "addresses, with/without redeemer), plutus/native witnesses, donation, publish directive, collateral, signers, "
    "metadata (texts and byte strings of length 0, 1, 4 and 64 among the values), references (lists of literals and `txid#index` texts, well- and ill-formed; output indices from {0..100, 257, 65536, 65537, 2^32-1}), a single mint or burn quantity at every edge of the 64- and 128-bit ranges; vote-delegation certificates over every credential kind (key, script, address with either, malformed) whose contents the Conway reader hands back; integers from the boundary set {0, +-1, +-2^31, +-2^63, +-2^64, i128 extremes} in the "
    "boundary stream; wrong-length hashes and ill-typed fields in the malformed stream. Each is compiled by the real "
    "Compiler::compile (twice) and the payload read by the Lean CBOR/Conway reader. Non-trivial = every case; "
    "distinct = distinct (template, network)"
)

MODEL_NOTE = (
    "theorems are over the Lean model of compile/mod.rs + coercion.rs + plutus_data.rs (Tx3Model/Compile.lean), tied to "
    "the code on every run: the model's abstract transaction must equal what the independent Lean Conway reader "
    "extracts from the real payload, field by field, and the model's error class must equal the real one"
)
