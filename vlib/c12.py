"""C12 — the front end is total: any source text yields an AST or a diagnostic."""
import json

from . import core

LEVEL_TEXT = (
    "Lean 4 theorems over (a) a PEG engine with pest's evaluation rules (ordered choice, greedy repetition, negative "
    "lookahead, implicit WHITESPACE/COMMENT skipping in non-atomic rules, atomic and silent rules, the unrolling of e+) "
    "running the grammar that a translator regenerates from crates/tx3-lang/src/tx3.pest on every run, and (b) the "
    "literal builders of parsing.rs: the engine is a total function and every successful result is a well-placed pair "
    "tree, for every grammar, input and fuel; numerals, UTxO references and booleans are read or rejected with an error "
    "for every text, a numeral exactly when it denotes a 64-bit value; (c) termination: the grammar regenerated from "
    "tx3.pest passes a well-formedness check evaluated by the kernel on every run (no rule reaches itself before "
    "consuming input, no repetition of something that matches the empty string; certificate = nullability and a rank "
    "per rule, recomputed), and for every grammar passing it the budget A*|text| + B*R + 2 + reserve is enough for "
    "every text and start rule - the potential A*|rest| + B*rank + 2*size strictly decreases along every call of "
    "eval / starLoop / skip - so the engine answers pairs or rejected and never out-of-fuel (fuel_enough, "
    "parseF_total, tx3_grammar_well_formed, C12_never_out_of_fuel, C12_engine_total); the driver runs the engine "
    "with exactly that budget. Per generated source text the real pest parser "
    "(pair tree through the cfg(tx3_verif) hook) is compared with the engine pair for pair and on acceptance, the real "
    "literal builders with the model's values, errors and spans, and parse_string / analyze / lower / Workspace::lower "
    "are run under a panic hook and a 20 s watchdog on a thread with the main thread's stack size."
)
LEVEL_NOTE = (
    "Partial: the tree plumbing of parsing.rs / cardano.rs (which child comes where) and the analyzer are not modelled; "
    "their totality is explored per case, not proved. That the model engine terminates on every input is a theorem; "
    "that pest's generated parser does is tied to it by the pair-for-pair comparison per case. Stack exhaustion beyond nesting depth 64 is outside "
    "the property."
)
PROP = "C12"
TARGETS = ["Tx3Proofs.C12", "Tx3Proofs.C12Fuel"]
THEOREMS = ["Tx3.Peg.engine_inv", "Tx3.Front.C12_engine_outcome", "Tx3.Front.C12_number_total",
            "Tx3.Front.C12_number_range", "Tx3.Front.C12_utxo_ref_total", "Tx3.Front.C12_bool_on_rule",
            "Tx3.Peg.headOK_mono", "Tx3.Peg.fuel_enough", "Tx3.Peg.skipOK_of_check", "Tx3.Peg.parseF_total",
            "Tx3.Front.tx3_grammar_well_formed", "Tx3.Front.C12_never_out_of_fuel", "Tx3.Front.C12_engine_total"]
RULE = (
    "cases = reproduced past failures; definition graphs (1-4 types, 0-3 aliases, 0-4 locals and an input referring "
    "to each other and to themselves at random: chains, cycles, undefined names, built-in aliases, several references "
    "to one definition; 80 whose symbol graph is small, which must come back, and 4 of the recorded growth classes; "
    "each in a process of its own); every examples/*.tx3 and the coverage-driven programs of frontp::extra_corpus (stake and vote delegation, named publish with a datum, policy constructors with every field combination, parameters of every type, metadata keys and values of every kind); the call-arity sweep (every callable name - the four "
    "built-ins, Ada, a declared asset, an unknown name - with 0-3 arguments of every kind, in a local, an amount, a "
    "datum, a validity bound and a min_amount); literal probes (boundary numerals, hex, UTxO references, "
    "strings with multi-byte characters, identifiers); random expansions of the grammar file itself from `program` "
    "(30%) and from 18 inner rules spliced into a valid frame (30%), budgeted depth 2-12 with random whitespace and "
    "comments between tokens; 1-3 token-level mutations (delete, duplicate, swap, splice from another file, literal "
    "stretching to 20-44 digit numerals / odd-length hex / long and multi-byte strings, punctuation, trivia, "
    "truncation) of the corpus and of generated programs (30%); nesting of (), [], concat(), Ada(), ! to depth 1-64 "
    "(10%); the unclosed family (an opener of every bracketing construct - comment, string, braces, parentheses, brackets, blocks - written 1, 2, 3, 4, 6, 8, 30 and 64 times and never closed, at the start of a text and after a valid program); literal pairs (two numerals from the edges of what the grammar admits in validity bounds, amounts and metadata, both orders); negated literals at every analysed position; strings around the backslash; the any-character alphabet holds quotes, escapes, comment and block delimiters and control characters. Non-trivial = every case; distinct = distinct source text"
)
ASSUMPTIONS = ["pest's engine itself is compared, not verified", "inputs are at most a few KB; nesting depth at most 64"]


def check(tier, seed, replay):
    rep = core.Report(PROP, tier, seed)
    only = None
    if replay:
        r = json.load(open(replay))
        seed, tier, only = r.get("seed", seed), r.get("tier", tier), r.get("case_index")
        rep.seed, rep.tier = seed, tier
    ok = core.standard_prologue(rep, PROP, TARGETS, TARGETS, THEOREMS)
    if ok:
        n = 3000 if tier == "quick" else 60000
        rc, cases, err = core.harness_run(PROP, seed, n, tier, only=only)
        rep.obligation("harness-run", rc == 0, err)
        rc2, verdicts, err2 = core.driver_run(PROP, cases)
        rep.obligation("driver-run", rc2 == 0, err2)
        rep.ingest(cases, verdicts)
    return rep.finish("proof", RULE, ASSUMPTIONS,
                      "cd /verif/lean && lake build Tx3Proofs.C12 && lake env lean .audit/C12.lean  (#print axioms)")
