"""C01 — the compiled transaction is exactly what the template denotes."""
import json

from . import core

LEVEL_TEXT = (
    "Lean 4: an independent big-step semantics [[.]] written on the generator's own syntax tree (unbounded integers, "
    "multi-asset values as finite maps with pointwise arithmetic, records as constructor applications, inputs as the "
    "UTxOs assigned to them), a model of analysis+lowering (which symbol a name resolves to, what each construct "
    "becomes in the IR, per syntactic position), and the reducer model. Theorems: (1) for every expression of the integer "
    "fragment (literals, parameters, +, -, unary !, any nesting), every argument vector, position and sufficient "
    "fuel, the semantics yields den(e) and lower -> apply_args -> reduce yields the literal den(e), provided the "
    "values stay inside the 128-bit range the IR computes in; a - b - c denotes (a - b) - c and that differs from "
    "a - (b - c) whenever c != 0; (2) the reducer's multi-asset arithmetic is pointwise integer arithmetic: whenever "
    "its +, - or negation succeeds on constant asset lists, the list it writes denotes, class by class, the sum / "
    "difference / negation of what the operands denote, the writer/reader pair of canonical values is lossless, an "
    "overflow of the 128-bit range is an error and never a wrapped value, and subtraction chains associate to the left "
    "class by class (C01_assets_add/_sub/_neg/_sub_chain, reread_canonical); (3) the lovelace fragment: every "
    "combination of Ada(i), + and - over the integer fragment lowers and, once the arguments are applied, reduces to a "
    "constant asset list denoting exactly the lovelace amount integer arithmetic gives and nothing else "
    "(C01_lovelace_fragment); (4) the multi-asset fragment: the same with the constructors of assets the program "
    "declares with constant policy and name, Tok(i), and AnyAsset(0x<policy>, 0x<name>, i): the reduced constant denotes, class by class, the amounts integer "
    "arithmetic gives, for every nesting of + and - (C01_multi_asset_fragment); (5) the value of a template at the "
    "level of the IR: for every combination of constant asset lists, the fee placeholder, inputs used as values "
    "(IntoAssets(ExpectInput ..)), + and -, applying the fee and the input UTxOs and reducing yields a constant that "
    "denotes, class by class, the totals of the assigned UTxOs, the literals and the fee combined by integer "
    "arithmetic - source - Ada(q) - fees is of this shape (C01_template_value, sumUtxo_spec); (6) the independent "
    "semantics the judge evaluates and the pipeline meet on the lovelace fragment: [[e]] is den(e) lovelace and the "
    "reduced constant denotes den(e) lovelace (eval_lovelace, C01_spec_meets_pipeline); (7) from the source to the "
    "value: an amount written with asset constructors over integer expressions, the name fees, input names, + and -, "
    "and names of locals standing for such amounts (read one symbol deeper, Ctx.lvl: the analyzer's snapshot depth) "
    "(source - Ada(quantity) - fees) lowers through lowerE at every fuel from a bound on, and with the arguments, the "
    "assigned inputs and the fee applied reduces to a constant denoting, class by class, integer arithmetic on the "
    "constructors' amounts, the fee and the totals of the assigned UTxOs (C01_source_to_value, input_lowers, "
    "lower_int_inert; the example program satisfies every hypothesis); (8) an index selects the element at exactly "
    "that position or is an error - never the element a multiple of 2^64 away (C01_list_index_exact, "
    "C01_struct_index_exact, C01_index_out_of_range; the defect repaired by 874eff9); (9) the data side: for every data expression "
    "built from integer expressions, hex literals, booleans, unit, record / variant constructors with their fields written in any order "
    "(no spread) and list literals, nested to any depth, [[.]] yields a value whose Plutus Data is den - constructor index = position "
    "of the case, fields in the order the type declares them - and lowering, applying the arguments, reducing and converting "
    "(compile_data_expr for a datum, try_as_data for a redeemer or a list element) yields den too, at every sufficient fuel "
    "(C01_datum_fragment, C01_datum_exact, C01_redeemer_exact, C01_field_order_immaterial; R { extra: q + 1, counter: 7, label: 0xab } "
    "meets every hypothesis and denotes Constr 0 [7, 0xab, 42]); (10) a field of an input's datum and records with a spread: x.f lowers to Property(IntoDatum(query of x), i) with i the position of f in the type definition, and after the input stage reduction yields the i-th field of the datum of the UTxO assigned to x; every declared field a constructor with a spread leaves out is read from the spread by position (C01_input_field_value, lower_input_field, lower_record_with_spread, C01_spread_field_value); (11) a map literal over data expressions denotes - for [[.]] and for lower / apply / reduce / convert alike - the association list of its entries in the order written (C01_map_literal, C01_map_literal_semantics); an optional output is kept exactly when it carries something (C01_optional_output_kept_iff); (12) the compile stage on its own: the body's collateral and reference inputs are exactly the references of the blocks that hold them, every UTxO of a block's set is listed whatever it holds and nothing else is (C01_collateral_exact, C01_collateral_member, C01_collateral_only, C01_reference_inputs_exact, C01_reference_member; the spent inputs: C04_body_inputs_exact) - decided on the real compile() per reduced template by clauses denotes:inputs / denotes:reference-inputs / denotes:collateral over the compile generator (random templates and the utxo-contents family: every UTxO-holding block x what its UTxOs hold). Per generated program (two layouts of the same tree) the real parse, analyze, lower, "
    "resolve_tx (apply, reduce, input selection, compile) is run; the lowered IR must equal the model's, and the "
    "transaction bytes, decoded by the Lean Conway reader, must hold exactly the inputs, outputs (address, lovelace, "
    "native assets, inline datum, in source order), mint, validity interval, signers, reference inputs, metadata "
    "and fee that [[P]] computes from the tree, the arguments, the UTxOs the pipeline assigned and the fee it settled "
    "on; both layouts must give the same IR and the same bytes."
)
LEVEL_NOTE = (
    "Partial: the end-to-end equation (lower, apply, reduce = denotation) is proved for the integer, the lovelace and "
    "the declared-asset fragments, and for amounts over those, fees and input names (C01_source_to_value); and for data expressions without spread (C01_datum_fragment); AnyAsset with non-literal policy or name are per case; inputs as whole values, selection and the Cardano compiler are compared "
    "with [[.]] per case (compile exactness on constant IR is C02's theorems). min_utxo, "
    "collateral and policies with scripts are not generated yet; of the chain-specific directives a treasury donation (compared with [[.]]) and script witnesses are generated and their lowering is compared with the model (LangAdhoc); names are unique, so "
    "shadowing between scopes is not exercised."
)
PROP = "C01"
TARGETS = ["Tx3Proofs.C01", "Tx3Proofs.C01Assets", "Tx3Proofs.C01Lovelace", "Tx3Proofs.C01MultiAsset", "Tx3Proofs.C01Template", "Tx3Proofs.C01Spec", "Tx3Proofs.C01Change", "Tx3Proofs.C01Index", "Tx3Proofs.C01Datum", "Tx3Proofs.C01Field", "Tx3Proofs.C01Optional", "Tx3Proofs.C01Map", "Tx3Proofs.C01Blocks"]
THEOREMS = ["Tx3.Lang.eval_int", "Tx3.Lang.lower_int", "Tx3.Lang.C01_int_fragment", "Tx3.Lang.C01_sub_chain",
            "Tx3.Lang.C01_sub_chain_distinct",
            "Tx3.assetsOfChildren_amt", "Tx3.reread_canonical", "Tx3.C01_assets_add", "Tx3.C01_assets_neg",
            "Tx3.C01_assets_sub", "Tx3.C01_assets_sub_chain", "Tx3.arithAdd_ok", "Tx3.arithSub_ok",
            "Tx3.Lang.lower_lovelace", "Tx3.Lang.C01_lovelace_fragment",
            "Tx3.Lang.lower_multi", "Tx3.Lang.C01_multi_asset_fragment",
            "Tx3.sumUtxo_spec", "Tx3.C01_template_value",
            "Tx3.Lang.eval_lovelace", "Tx3.Lang.C01_spec_meets_pipeline",
            "Tx3.Lang.lower_int_inert", "Tx3.Lang.denotes_add", "Tx3.Lang.denotes_sub", "Tx3.Lang.lowerInput_shape",
            "Tx3.Lang.input_lowers", "Tx3.Lang.C01_source_to_value", "Tx3.Lang.full_pipeline_order",
            "Tx3.nth?_spec", "Tx3.C01_list_index_exact", "Tx3.C01_struct_index_exact", "Tx3.C01_index_out_of_range",
            "Tx3.Lang.good", "Tx3.Lang.egood", "Tx3.Lang.C01_datum_exact", "Tx3.Lang.C01_redeemer_exact",
            "Tx3.Lang.C01_field_order_immaterial", "Tx3.Lang.C01_datum_fragment",
    "Tx3.C01_input_field_value", "Tx3.Lang.lower_input_field", "Tx3.Lang.lower_record_with_spread", "Tx3.Lang.C01_spread_field_value",
    "Tx3.C01_optional_output_kept_iff", "Tx3.C01_optional_output_error_kept",
    "Tx3.Lang.C01_map_literal", "Tx3.Lang.C01_map_literal_semantics",
    "Tx3.C01_collateral_exact", "Tx3.C01_collateral_member", "Tx3.C01_collateral_only", "Tx3.C01_reference_inputs_exact", "Tx3.C01_reference_member"]
RULE = (
    "cases = generated programs over the core fragment: env (Int, Bytes), 2-3 parties, a policy, an asset, a record "
    "and a variant type; one transaction with 1-3 positive Int parameters, optionally an unconstrained Int, a Bytes "
    "and an Address parameter; 0-3 locals chained on each other; input `source` (optionally carrying a record datum) "
    "and optionally a second input with a record datum; 1-3 payment outputs with multi-asset amounts "
    "(Ada / asset constructor / AnyAsset sums over integer expressions, chains X(x) - X(y) + X(z) that pass below zero on "
    "the way, list positions inside and outside the list), a third of the sources multi-UTxO (two UTxOs with equal "
    "lovelace, tokens split), references half of which name a spent UTxO, optional datums (records with explicit "
    "fields in any order and spread from an input, variants, lists, maps, unit, scalars, property access on input "
    "datums, list indexing); a change output `source - a - b - fees` associated three different ways; optional "
    "mint/burn, validity (arbitrary integer expressions, so partly out of range), signers, metadata, reference "
    "input; testnet (2/3) or mainnet; each program printed plainly and with random white space and comments; a third of the declared names (environment keys, parameters) spelled with capitals; a sixth of the asset amounts written as one of the small shapes of + and - over constructors of one class an optional output in a third of the programs (a token and no lovelace, lovelace only, nothing at all); a treasury donation and script witnesses now and then; a variant type whose third case is named Default; (X(a) - X(b), X(a) - X(b) + Ada(q), Ada(q) + (X(a) - X(b)), X(a) - X(b) + Y(c), X(a) + Y(c) - X(b), X(a) - (X(b) - X(c))). "
    "Non-trivial = every case; distinct = distinct (tree, world)"
)
ASSUMPTIONS = ["one UTxO per party, so input selection has one admissible answer; the UTxOs it picked are read from the constant IR handed to the compiler",
               "the fee is the one the resolve loop settled on"]


def check(tier, seed, replay):
    rep = core.Report(PROP, tier, seed)
    only = None
    if replay:
        r = json.load(open(replay))
        seed, tier, only = r.get("seed", seed), r.get("tier", tier), r.get("case_index")
        rep.seed, rep.tier = seed, tier
    ok = core.standard_prologue(rep, PROP, TARGETS, TARGETS, THEOREMS)
    if ok:
        n = 600 if tier == "quick" else 20000
        rc, cases, err = core.harness_run(PROP, seed, n, tier, only=only)
        rep.obligation("harness-run", rc == 0, err)
        rc2, verdicts, err2 = core.driver_run(PROP, cases)
        rep.obligation("driver-run", rc2 == 0, err2)
        rep.ingest(cases, verdicts)
    return rep.finish("proof", RULE, ASSUMPTIONS,
                      "cd /verif/lean && lake build Tx3Proofs.C01 && lake env lean .audit/C01.lean  (#print axioms)")
