"""C14 — the back end is total: resolving yields a transaction or an error, never a panic."""
from . import compile_common as cc

LEVEL_TEXT = (
    "Lean 4 theorems over the back-end model in which every unwrap/expect/todo!/unreachable!/slice-length panic the Rust "
    "code can still reach is an explicit `.panic` outcome: for every template (constant or not), every protocol-"
    "parameter set (including missing cost models) and every fuel, compileAbs, reduce, the chain-specific compiler "
    "ops and the compiler pass return ok or err - never panic. The apply stages and input selection are total "
    "functions of the model. Tied to the code by running the same generated cases (boundary-heavy integers, hashes of "
    "length 0..64, ill-typed fields, missing cost models) through the real crates under catch_unwind: outcome classes "
    "must agree with the model's."
)
LEVEL_NOTE = (
    cc.MODEL_NOTE + ". Partial for panics inside dependencies the model does not describe (pallas address/bech32 parsing of "
    "arbitrary strings, ciborium), stack exhaustion and allocation failure: exercised by the malformed stream only."
)
PROP = "C14"
TARGETS = ["Tx3Proofs.C14", "Tx3Proofs.C14Reduce"]
THEOREMS = ["Tx3.np_tryAsData", "Tx3.np_compileDataExpr", "Tx3.C14_compile_total", "Tx3.C14_reduce_total",
            "Tx3.C14_reduceOp_total", "Tx3.C14_compilerPass_total", "Tx3.C14_tx_reduce_total", "Tx3.C14_tx_compilerPass_total"]
ASSUMPTIONS = [cc.MODEL_NOTE, "the stage correspondence of C06/C07 (apply, reduce, compiler pass on random TIR incl. the malformed stream) runs under catch_unwind as well"]

WIDE_TEXT_RULE = (
    "; plus the wide-text sweep: a 103-character text with a 2- or 4-byte character at every position in turn, and "
    "runs of 2-byte characters of every length up to 80 bytes, where an address, a datum, a withdrawal credential or a "
    "metadata value is expected; resolution-level cases over stores of 1-2 UTxOs and wallets of 49..300 UTxOs at one address, a third of them under protocol parameters drawn from the edges of u64 (coefficient, constant, coins per byte in {0, 1, the usual value, 2^32, 2^64-1}; margin absent, 0, 200000, 2^64-1)"
)


def check(tier, seed, replay):
    return cc.run(PROP, tier, seed, replay, TARGETS, THEOREMS, cc.GEN_RULE + WIDE_TEXT_RULE, ASSUMPTIONS)
