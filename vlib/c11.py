"""C11 — the TIR wire format round-trips and rejects garbage gracefully."""
import json

from . import core

LEVEL_TEXT = (
    "Lean 4 theorems over the model of the wire format (serde's derived data model as ciborium writes it) and a model "
    "reader for it: for every well-shaped expression (node arities as the Rust types guarantee) reading back its "
    "encoding yields exactly that expression, for every fuel at least its size (C11_expr_roundtrip); hence the "
    "encoding is injective - two templates that differ anywhere differ on the wire (C11_expr_injective); the same for "
    "whole transactions, field by field, including optional validity/signers and chain-specific directives "
    "(C11_tx_roundtrip); 128-bit integers (CBOR integer or bignum, either sign), byte strings, text (UTF-8 bytes back "
    "to the string), types, UTxO references, asset classes, UTxOs with optional datum/script round-trip for every "
    "value; the version gate accepts exactly the current version; the RFC 8949 layer: for every data item within "
    "what heads can carry (lengths, tags and integers below 2^64, definite and chunked strings, definite and indefinite "
    "arrays, maps, tags, simple values, floats) and every continuation, the reader run on writer-output ++ rest yields "
    "the item and rest, and the fuel decode starts with suffices (readItem_encode, decode_encode); composed: "
    "from_bytes(to_bytes t) = t for every transaction meeting the executable hypotheses bytesHyps (C11_wire_roundtrip, "
    "C11_bytes_injective), where nestTx - the deepest point ciborium's recursion budget is charged for on the encoding "
    "(one unit per enum, sequence/tuple, map/struct) - is at most 256, and an error beyond it (C11_too_deep). Tied to the code per generated tree: the model "
    "encoder equals encoding::to_bytes byte for byte, the model reader (CBOR reader + untx) reads the REAL bytes back "
    "to the tree that was encoded, every generated expression satisfies the shape hypothesis, and the real "
    "decode(encode t) is canonically equal to t with the same reported parameters and queries and a stable re-encoding."
)
LEVEL_NOTE = (
    "Partial: the hypotheses of the byte-level theorem (bytesHyps: item within CBOR head ranges, slots shaped and no "
    "larger than the reader's fuel) are evaluated per generated transaction (tag wire-theorem-hyps-hold), not derived "
    "from the encoder; ciborium's recursion budget is modelled by nestTx and compared with the real decoder at the boundary of every "
    "slot x wrapper pair, not derived from ciborium's source; the real serde-derived decoder is compared on encoder outputs only; that arbitrary, truncated or "
    "deeply nested bytes never panic or abort the real decoder is runtime behaviour of ciborium, explored in child "
    "processes (so that an abort is observed, not fatal)."
)
PROP = "C11"
TARGETS = ["Tx3Proofs.C11", "Tx3Proofs.C11Roundtrip"]
THEOREMS = ["Tx3.Cbor.beNat_natToBytes", "Tx3.Wire.C11_int128_roundtrip", "Tx3.Wire.C11_bytes_roundtrip", "Tx3.Wire.C11_version_gate",
            "Tx3.Wire.strOf_txtBytes", "Tx3.Wire.txtBytes_inj", "Tx3.Wire.C11_expr_roundtrip", "Tx3.Wire.C11_expr_injective",
            "Tx3.Wire.C11_tx_roundtrip", "Tx3.Cbor.readItem_encode", "Tx3.Cbor.decode_encode", "Tx3.Cbor.wfb_all",
            "Tx3.Wire.C11_wire_roundtrip", "Tx3.Wire.C11_too_deep", "Tx3.Wire.C11_bytes_injective"]
RULE = (
    "cases = IR values: every transaction lowered from /repo/examples/*.tx3, from the coverage-driven corpus (frontp::extra_corpus) and from 30 generated programs; random IR "
    "trees (every expression and block variant, depth 1..6, parameters/inputs/fees/compiler ops, boundary integers, a "
    "malformed tail), half of them after apply_inputs so that UTxO sets occur; version names: the known, retired and "
    "near-miss ones, names of every length up to 80, a 2- or 4-byte character at every position of a 64-character name "
    "(the conversion under catch_unwind); an inflated-count sweep per garbage batch (at every offset of a real "
    "encoding that reads as a short array or map header the header announces 2^61..2^64-1 entries); garbage batches of 400 "
    "byte strings each (random, bit-flipped, truncated, spliced valid encodings, untyped nesting bombs to depth 10^5, typed "
    "nesting bombs - one of 16 IR wrappers nested 10..10^5 times inside the fees / a reference / a datum slot of a real "
    "encoding, assembled as bytes - huge length prefixes) decoded on a 2 MiB thread in child processes; nesting boundary: for each of 10 expression slots "
    "of a transaction x 16 IR wrappers the deepest nesting the real decoder accepts is scanned (0..140) and the "
    "encodings at depths 0, 1 and around it are given to both the real decoder and the model reader; a length sweep (byte strings, texts, addresses, hashes, lists and names of 0, 23, 24, 255, 256, 4095, 4096, 4097 and 5000 items in a datum and a redeemer); an amount sweep (resolved UTxOs holding quantities at the edges of the 64- and 128-bit ranges); a name sweep (parameters, queries, input blocks, custom types, directive names and keys in capitals, mixed case, wide characters, with a space, empty). Non-trivial = every case; distinct = distinct IR value"
)
ASSUMPTIONS = ["UTxO sets and asset maps with more than one element are compared up to element order (HashSet/HashMap iteration order)",
               "equality after the round trip is canonical equality of the harness's exhaustive TIR-to-JSON conversion"]


def check(tier, seed, replay):
    rep = core.Report(PROP, tier, seed)
    only = None
    if replay:
        r = json.load(open(replay))
        seed, tier, only = r.get("seed", seed), r.get("tier", tier), r.get("case_index")
        rep.seed, rep.tier = seed, tier
    ok = core.standard_prologue(rep, PROP, TARGETS, TARGETS, THEOREMS)
    if ok:
        n = 1500 if tier == "quick" else 60000
        rc, cases, err = core.harness_run(PROP, seed, n, tier, only=only)
        rep.obligation("harness-run", rc == 0, err)
        rc2, verdicts, err2 = core.driver_run(PROP, cases)
        rep.obligation("driver-run", rc2 == 0, err2)
        rep.ingest(cases, verdicts)
    return rep.finish("proof", RULE, ASSUMPTIONS,
                      "cd /verif/lean && lake build Tx3Proofs.C11 && lake env lean .audit/C11.lean  (#print axioms)")
