"""C11 — the TIR wire format round-trips and rejects garbage gracefully."""
import json

from . import core

LEVEL_TEXT = (
    "Lean 4 theorems over the model of the wire format (serde's derived data model as ciborium writes it): 128-bit "
    "integers (CBOR integer or bignum, either sign) and byte strings (integer arrays) round-trip for every value, and "
    "the version gate accepts exactly the current version. The model encoder is tied to encoding::to_bytes byte for "
    "byte on every generated tree (random IR trees over every variant to depth 6, applied trees with UTxO sets, every "
    "IR lowered from the examples and from generated programs); the structural round trip is decided per case on the "
    "real crates (decode(encode t) canonically equal to t, same reported parameters and queries, re-encoding stable)."
)
LEVEL_NOTE = (
    "Partial: the derived struct/enum (de)serializers are serde+ciborium machinery, exercised on every case but not "
    "modelled as a decoder; that arbitrary/truncated/deeply nested bytes never panic or abort the decoder is runtime "
    "behaviour of ciborium, explored in child processes (so that an abort is observed, not fatal), not a theorem."
)
PROP = "C11"
TARGETS = ["Tx3Proofs.C11"]
THEOREMS = ["Tx3.Cbor.beNat_natToBytes", "Tx3.Wire.C11_int128_roundtrip", "Tx3.Wire.C11_bytes_roundtrip", "Tx3.Wire.C11_version_gate"]
RULE = (
    "cases = IR values: every transaction lowered from /repo/examples/*.tx3 and from 30 generated programs; random IR "
    "trees (every expression and block variant, depth 1..6, parameters/inputs/fees/compiler ops, boundary integers, a "
    "malformed tail), half of them after apply_inputs so that UTxO sets occur; 6 version names; garbage batches of 400 "
    "byte strings each (random, bit-flipped, truncated, spliced valid encodings, nesting bombs to depth 10^5, huge "
    "length prefixes) run in child processes. Non-trivial = every case; distinct = distinct IR value"
)
ASSUMPTIONS = ["UTxO sets and asset maps with more than one element are compared up to element order (HashSet/HashMap iteration order)",
               "equality after the round trip is canonical equality of the harness's exhaustive TIR-to-JSON conversion"]


def check(tier, seed, replay):
    rep = core.Report(PROP, tier, seed)
    only = None
    if replay:
        r = json.load(open(replay))
        seed, tier, only = r.get("seed", seed), r.get("tier", tier), r.get("case_index")
        rep.seed, rep.tier = seed, tier
    ok = core.standard_prologue(rep, PROP, TARGETS, TARGETS, THEOREMS)
    if ok:
        n = 1500 if tier == "quick" else 60000
        rc, cases, err = core.harness_run(PROP, seed, n, tier, only=only)
        rep.obligation("harness-run", rc == 0, err)
        rc2, verdicts, err2 = core.driver_run(PROP, cases)
        rep.obligation("driver-run", rc2 == 0, err2)
        rep.ingest(cases, verdicts)
    return rep.finish("proof", RULE, ASSUMPTIONS,
                      "cd /verif/lean && lake build Tx3Proofs.C11 && lake env lean .audit/C11.lean  (#print axioms)")
