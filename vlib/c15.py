"""C15 — multi-asset values obey the algebra that balance computations assume."""
import json

from . import core

LEVEL_TEXT = (
    'Lean 4 theorems over an association-list model of CanonicalAssets: add/sub/neg are pointwise integer arithmetic, the commutative-group laws hold up to semantic equality, == is exactly semantic equality, each of is_empty, is_empty_or_negative, is_only_naked, contains_total and contains_some is characterised by the amounts alone, so two values with the same amounts - whatever entries with amount zero they carry - answer alike, alone and on either side of a containment (C15_queries_respect_equality, C15_zero_immaterial); contains_total is the component-wise order on non-negative values, and the asset-expression round trip preserves the value for every iteration order of the map. The model is tied to assets.rs and reduce/mod.rs by a per-run differential correspondence over op trees through the whole public API (zero entries included) and an overflow stream.'
)
LEVEL_NOTE = (
    'Trusted: Lean kernel, axioms propext/Classical.choice/Quot.sound only, the harness and driver, the hand-written model (tied by correspondence, not proof). i128 overflow is outside the theorems (amounts are Int); HashMap order is abstracted and proved immaterial.'
)
PROP = "C15"
LEAN_TARGETS = ["Tx3Proofs.C15", "Tx3Proofs.C15Expr", "Tx3Proofs.C15Queries"]
AUDIT_MODULES = ["Tx3Proofs.C15", "Tx3Proofs.C15Expr", "Tx3Proofs.C15Queries"]
NS = "Tx3.Assets."
THEOREMS = [NS + t for t in [
    "C15_wf_constructors", "C15_wf_ops",
    "C15_amt_add", "C15_amt_sub", "C15_amt_neg", "C15_add_no_zero_entries",
    "C15_add_comm", "C15_add_assoc", "C15_sub_eq_add_neg", "C15_sub_add_cancel",
    "C15_add_zero", "C15_add_neg_self",
    "C15_eq_semantic", "C15_structural_eq_not_semantic",
    "C15_contains", "C15_exprs", "C15_exprs_any_order", "C15_exprs_needs_proper",
    "isEmpty_iff", "isEmptyOrNegative_iff", "isOnlyNaked_iff", "containsTotal_iff", "containsSome_iff", "C15_queries_respect_equality", "C15_zero_immaterial"]] + ["Tx3.C15_expr_sub_is_add_neg"]

RULE = (
    "cases = the law a - b = a + (-b) on reduced expressions for every pair of operands from nothing (None), numbers "
    "and asset lists (49 pairs, both sides reduced by the real reducer); (a, b, c) op trees over the whole public API of CanonicalAssets "
    "(every constructor incl. the empty-policy/empty-name fall-throughs, Add, Sub, Neg): "
    "corpus; exhaustive pairs (a,b) over 3 classes x amounts -2..2 with random construction "
    "paths (thorough: a third of the full cube of triples); random classes with amounts across "
    "the i128 range; an overflow stream; asset lists that name one class two or three times in the expr-law pool; the law zero_immaterial on every triple (a value and the same value after a trip through + answer is_empty, is_empty_or_negative, is_only_naked, contains_some and contains_total alike, on either side). Non-trivial = a and b both have a non-zero amount; "
    "distinct = distinct (a,b,c) trees"
)

ASSUMPTIONS = [
    "amounts are modelled as unbounded Int; i128 overflow is a panic of the debug build, predicted by the driver and compared on the overflow stream",
    "HashMap iteration order is not modelled; every modelled observable is proved order-independent (SemEq_of_perm, C15_exprs_any_order)",
    "AssetClass values Named([]) / Defined([], _) (not produced by any from_* constructor) are outside C15_exprs (C15_exprs_needs_proper)",
]


def check(tier, seed, replay):
    rep = core.Report(PROP, tier, seed)
    only = None
    if replay:
        r = json.load(open(replay))
        seed, tier, only = r.get("seed", seed), r.get("tier", tier), r.get("case_index")
        rep.seed, rep.tier = seed, tier
    ok = core.standard_prologue(rep, PROP, LEAN_TARGETS, AUDIT_MODULES, THEOREMS)
    if ok:
        n = 3000 if tier == "quick" else 200000
        rc, cases, err = core.harness_run(PROP, seed, n, tier, only=only)
        rep.obligation("harness-run", rc == 0, err)
        rc2, verdicts, err2 = core.driver_run(PROP, cases)
        rep.obligation("driver-run", rc2 == 0, err2)
        rep.ingest(cases, verdicts)
    return rep.finish(
        "proof", RULE, ASSUMPTIONS,
        "cd /verif/lean && lake build Tx3Proofs.C15 && lake env lean .audit/C15.lean  (#print axioms); "
        "thorough adds: lake env leanchecker Tx3Proofs.C15",
    )
