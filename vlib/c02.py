"""C02 — quantities are never silently wrapped, truncated or dropped; value is preserved."""
from . import compile_common as cc

LEVEL_TEXT = (
    "Lean 4 theorems over the model of the Cardano compiler with every conversion written as the Rust performs it: "
    "whenever compilation succeeds the fee, both validity bounds, withdrawal and donation amounts and every mint "
    "quantity are the exact integers their expressions denote and lie in their ledger ranges (u64, non-zero i64); "
    "for every output whose asset list holds in-range entries (lovelace in [0, 2^64), native amounts >= 0) the coin is "
    "exactly the sum of the lovelace entries and, for every asset class, the quantity is exactly the sum of the "
    "entries of that class - nothing dropped, wrapped or moved to another class - and every emitted number fits 64 "
    "bits (C02_output_exact_partial, C02_output_block_exact); from the source: an amount written with asset "
    "constructors, fees, input names, + and - that denotes a ledger value (nothing negative, lovelace within 64 bits) "
    "lowers, reduces after the three stages to a list whose entries are inside the ledger ranges, and every output "
    "block carrying it that compiles holds, of lovelace and of every token, exactly what integer arithmetic gives for "
    "the expression as written (compile_view, C02_source_to_output); payments p1..pn next to the change "
    "source - p1 - .. - pn - fees add up, class by class, to the total of the UTxOs assigned to source less the fee "
    "(C02_balance; with a minted and a burnt amount in the change, C02_balance_mint); "
    "a position that holds one number accepts exactly a number or a value with exactly one entry whose amount is again "
    "such a shape, to any depth, and refuses a value of no class or of several (C02_scalar_shape: an iff with the "
    "inductive ScalarOf; C02_scalar_total, C02_scalar_nest: wrapping in one-entry values never changes the number read; C02_no_class_refused, C02_two_classes_refused; on the real compile(): "
    "clause exact:<position>:not-a-number-accepted over every one-number position x every shape of value); "
    "out-of-range values make the model return an error. The two remaining silent alterations (negative lovelace "
    "wraps, negative native asset dropped - both pinned by hashes in the repository's own tests) are proved as "
    "witnesses and reported as known findings. The reducer's checked arithmetic is covered by the L3 correspondence."
)
LEVEL_NOTE = (
    cc.MODEL_NOTE + ". Partial: exactness of output lovelace/native amounts is proved under the explicit hypothesis EntriesInRange "
    "(the two ways out of it are the known findings C02-lovelace-wraps, C02-negative-asset-dropped, with proved "
    "witnesses); the balance is a theorem for the amount fragment of C01_source_to_value (constructors over integer "
    "expressions, fees, input names, +, -) and checked per case beyond it (AnyAsset, property access, mint and burn)."
)
PROP = "C02"
TARGETS = ["Tx3Proofs.C02", "Tx3Proofs.C02Outputs", "Tx3Proofs.C02Balance", "Tx3Proofs.C01Optional", "Tx3Proofs.C01Blocks"]
THEOREMS = ["Tx3.C02_fee_exact", "Tx3.C02_validity_exact", "Tx3.C02_mint_range", "Tx3.C02_withdrawal_exact",
            "Tx3.C02_donation_exact", "Tx3.C02_negative_lovelace_wraps", "Tx3.C02_negative_asset_dropped",
            "Tx3.compileValue_exact", "Tx3.compileValues_exact", "Tx3.assetQty_insertAsset",
            "Tx3.C02_output_exact_partial", "Tx3.C02_output_block_exact",
            "Tx3.view_triples", "Tx3.range_triples", "Tx3.compile_view", "Tx3.den_odd", "Tx3.C02_source_to_output",
            "Tx3.den_minusAll", "Tx3.C02_balance", "Tx3.C02_balance_mint",
    "Tx3.C02_zero_mint_refused", "Tx3.C01_optional_output_kept_iff",
    "Tx3.C02_scalar_shape", "Tx3.C02_scalar_total", "Tx3.C02_scalar_nest", "Tx3.C02_no_class_refused", "Tx3.C02_two_classes_refused"]
ASSUMPTIONS = [cc.MODEL_NOTE,
               "pallas' CBOR encoder is not modelled: its output is read back by the independent Lean reader",
               "spec oracle: expected quantities are computed from the constant template by plain integer arithmetic in the driver"]


def check(tier, seed, replay):
    return cc.run(PROP, tier, seed, replay, TARGETS, THEOREMS, cc.GEN_RULE, ASSUMPTIONS)
