"""C04 — a transaction never spends one UTxO through two input blocks."""
from . import c03

LEVEL_TEXT = (
    "Lean 4 theorems over the model of inputs::resolve (one selector, queries in name order, ignore growing by "
    "each selection), for every oracle: `ignore` is exactly the concatenation of the non-collateral selections "
    "and never holds a UTxO twice, so the UTxO sets of distinct non-collateral blocks are pairwise disjoint and "
    "duplicate-free; a successful resolution binds a non-empty set to every block (otherwise it fails). Tied to "
    "the code by multi-block cases (k = 1..4 overlapping queries + collateral) on the real inputs::resolve and "
    "the compiled body's input list."
)
LEVEL_NOTE = (
    "Trusted as for C03. The clause `body.inputs lists every selected UTxO exactly once` is decided per case on the "
    "real compile output (not a theorem: compile_inputs is exercised, not modelled, here); it fails for two blocks "
    "with one name, recorded as known finding C04-duplicate-block-names."
)
PROP = "C04"
THEOREMS = [
    "Tx3.selectOne_refs_nodup", "Tx3.resolveQueries_inv", "Tx3.C04_disjoint", "Tx3.C04_every_block_bound",
]
RULE = (
    "cases = templates with k in 1..4 non-collateral blocks whose queries overlap (same party, same assets, "
    "overlapping refs; occasionally two blocks with one name) plus optional collateral, over random stores of 1..7 "
    "UTxOs, resolved by the real inputs::resolve and compiled; observed: selection per block and body.inputs. "
    "Non-trivial = non-empty store and a constrained query; distinct = distinct (store, queries)"
)


def check(tier, seed, replay):
    return c03.check(tier, seed, replay, prop=PROP, theorems=THEOREMS, targets=["Tx3Proofs.C04"],
                     level_rule=RULE, assumptions=c03.ASSUMPTIONS)
