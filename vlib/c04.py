"""C04 — a transaction never spends one UTxO through two input blocks."""
from . import c03

LEVEL_TEXT = (
    "Lean 4 theorems over the model of inputs::resolve (one selector, queries in name order, ignore growing by "
    "each selection), for every oracle: `ignore` is exactly the concatenation of the non-collateral selections "
    "and never holds a UTxO twice, so the UTxO sets of distinct non-collateral blocks are pairwise disjoint and "
    "duplicate-free; a successful resolution binds a non-empty set to every block (otherwise it fails). Tied to "
    "the code by multi-block cases (k = 1..4 overlapping queries + collateral) on the real inputs::resolve and "
    "the compiled body's input list."
)
LEVEL_NOTE = (
    "Trusted as for C03. The clause `body.inputs lists every selected UTxO exactly once` is proved over the compile "
    "model (C04_body_inputs_exact: the body's input list is exactly the concatenation of the blocks' reference lists; "
    "C04_body_no_duplicates: no repetition when no reference occurs in two blocks or twice in one) and decided per "
    "case on the real compile output; that the sets substituted into the blocks are the selector's (apply_inputs by "
    "name) is C06/C07's model. It fails for two blocks with one name, where one set is substituted twice "
    "(C04_body_duplicates_if_shared), recorded as known finding C04-duplicate-block-names."
)
PROP = "C04"
THEOREMS = [
    "Tx3.selectOne_refs_nodup", "Tx3.resolveQueries_inv", "Tx3.C04_disjoint", "Tx3.C04_every_block_bound",
    "Tx3.C04_body_inputs_exact", "Tx3.C04_body_no_duplicates", "Tx3.C04_body_duplicates_if_shared",
]
RULE = (
    "cases = templates with k in 1..4 non-collateral blocks whose queries overlap (same party, same assets, "
    "overlapping refs; occasionally two blocks with one name; block names on both sides of `collateral` in the name "
    "order the resolver follows) plus optional collateral, over random stores of 1..7 "
    "UTxOs, resolved by the real inputs::resolve and compiled; observed: selection per block and body.inputs; named blocks (two ordinary blocks after the same plain UTxOs, one of them under a name built from a string literal of the crates' own source - as it is, as prefix, as suffix: common::magic_names); outputs of one transaction at indices congruent modulo 2^8 and 2^16, one block each; the independent blocks of C03. "
    "Non-trivial = non-empty store and a constrained query; distinct = distinct (store, queries)"
)


def check(tier, seed, replay):
    return c03.check(tier, seed, replay, prop=PROP, theorems=THEOREMS, targets=["Tx3Proofs.C04", "Tx3Proofs.C04Body"],
                     level_rule=RULE, assumptions=c03.ASSUMPTIONS)
