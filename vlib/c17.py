"""C17 — the published interface (TII) agrees with the IR it ships."""
import json

from . import core

LEVEL_TEXT = (
    "Lean 4 theorems over the model of the two naming rules and of the analyzer's duplicate check: the interface declares "
    "every parameter, party and environment key under exactly the name lowering requires in the IR, whatever the case "
    "it was written in; and the duplicate check is silent exactly when the keys are pairwise distinct, so an accepted "
    "program has collision-free keys; through the lowering model (the one C01 ties to lowering.rs field by field): whatever it "
    "produces for a transaction - every program, expression, input block, context and fuel - holds a value placeholder only under "
    "the lower-cased name of a parameter of that transaction, a party or an environment key, so every name the independent walk "
    "of C06 finds and every name find_params reports on the lowered IR is a key the interface lists "
    "(C17_lowered_requires_declared, C17_lowered_keys_listed, C17_reported_params_listed), names used only inside a chain-specific directive included (C17_lowered_full_requires_declared); the from, min_amount and ref of an input block each reach its query whichever of them are present, so a parameter used only in the min_amount of a ref-pinned input is required (C17_input_fields_lowered, C17_min_amount_param_required); conversely every parameter an integer expression mentions is required by what it lowers to, under the interface key of the name as declared (C17_used_is_required). Per generated program (identifiers in lower, upper, title and mixed case, unused "
    "parameters, environment values, colliding names) the real tx3c binary built from the working tree emits the TII "
    "file; the embedded IR is decoded by the real from_bytes and compared with lowering; find_params of the decoded IR "
    "must be within the declared keys and every declared name the body uses must be required under the declared spelling."
)
LEVEL_NOTE = (
    "The lowering model's tie to lowering.rs is C01's per-case comparison of lowered transactions (parties there are capitalised, "
    "so the lower-casing rule is exercised); the converse direction (used, hence required) is a theorem for integer expressions and observed per case elsewhere (the single-use parameter sweep). tx3c is run as a process; its JSON is parsed by the harness."
)
PROP = "C17"
TARGETS = ["Tx3Proofs.C17", "Tx3Proofs.C17Lower", "Tx3Proofs.C17Used", "Tx3Proofs.C06LowerAdhoc", "Tx3Proofs.C17Input"]
THEOREMS = ["Tx3.Tii.C17_same_spelling", "Tx3.Tii.C17_required_are_declared", "Tx3.Tii.dupNames_nil_iff", "Tx3.Tii.C17_no_collision",
            "Tx3.Lang.lower_decl", "Tx3.Lang.resolve_names", "Tx3.Lang.C17_lowered_requires_declared",
            "Tx3.Lang.C17_lowered_keys_listed", "Tx3.Lang.C17_reported_params_listed",
    "Tx3.Lang.C17_used_is_required", "Tx3.Lang.C17_lowered_full_requires_declared",
    "Tx3.Lang.C17_input_fields_lowered", "Tx3.Lang.C17_min_amount_param_required"]
RULE = (
    "cases = programs with 2 parties, 2-4 transaction parameters (one unused in half of them), optionally an env block "
    "with two values used in the body, identifiers independently drawn in lower / UPPER / Title / MiXeD case; every "
    "sixth program has two parameters equal up to case; every transaction has one parameter used exactly once, at a "
    "position that rotates over map key, map value, list element, record field, metadata key and value, validity "
    "bounds, mint amount and redeemer, withdrawal amount and redeemer, an output of its own, the min_amount and the redeemer of a second input pinned by ref, a collateral block, a burn, a treasury donation, a second input; plus the reproduced "
    "corpus case tx t(Qty: Int); every transaction of every emitted file is also resolved the way a client would: "
    "exactly the declared keys through parse_resolve_request, then apply_args; a third of the programs name the single-use parameter of their first transaction after a built-in symbol (fees, min_utxo, tip_slot, ...) or another name harvested from the source's string literals (kept when the front end accepts the program). "
    "Non-trivial = every case; distinct = distinct program text"
)
ASSUMPTIONS = ["policies needing scripts are not generated yet"]


def check(tier, seed, replay):
    rep = core.Report(PROP, tier, seed)
    only = None
    if replay:
        r = json.load(open(replay))
        seed, tier, only = r.get("seed", seed), r.get("tier", tier), r.get("case_index")
        rep.seed, rep.tier = seed, tier
    ok = core.standard_prologue(rep, PROP, TARGETS, TARGETS, THEOREMS)
    okc, outc = core.build_tx3c()
    rep.obligation("tx3c-builds-from-working-tree", okc, outc[-3000:])
    if ok and okc:
        n = 120 if tier == "quick" else 3000
        rc, cases, err = core.harness_run(PROP, seed, n, tier, only=only)
        rep.obligation("harness-run", rc == 0, err)
        rc2, verdicts, err2 = core.driver_run(PROP, cases)
        rep.obligation("driver-run", rc2 == 0, err2)
        rep.ingest(cases, verdicts)
    return rep.finish("proof", RULE, ASSUMPTIONS,
                      "cd /verif/lean && lake build Tx3Proofs.C17 && lake env lean .audit/C17.lean  (#print axioms)")
