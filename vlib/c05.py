"""C05 — the fee written in the body is the fee reported and covers the final size."""
import json

from . import core

LEVEL_TEXT = (
    "Lean 4 theorem over the model of the resolve loop (a state machine over last evaluation, round counter and "
    "compiler state, with one evaluation pass as a parameter): if every pass writes the fee it was given into the body "
    "and reports the linear fee of the payload it produced plus the margin, then whatever resolve_tx returns is a fixed "
    "point - body fee = reported fee = a*|payload| + b + margin - and one more pass reproduces it; the loop never "
    "returns an intermediate round. Tied to the code per case: a compiler wrapper records every pass of the real "
    "resolve_tx; each recorded pass must satisfy the pass hypothesis (body fee read by the Lean Conway reader), and "
    "replaying the recorded passes through the model loop must give the same result, error class and pass count."
)
LEVEL_NOTE = (
    "Trusted: Lean kernel + standard axioms; harness wrapper and driver. The inside of a pass (apply_fees, compiler ops, "
    "reduce, selection, compile) is covered by the other properties' models and correspondences; here it is abstracted "
    "by PassOK, checked on every recorded pass; its first half (the body carries the fee the pass was given) is also "
    "proved over the models of apply_fees, reduce and compile (C05_fee_chain, C05_fee_written); the second half (the "
    "reported fee is the linear fee of the payload's size) is a statement about the bytes pallas writes and is checked "
    "on every recorded pass."
)
PROP = "C05"
TARGETS = ["Tx3Proofs.C05", "Tx3Proofs.C05Fee"]
THEOREMS = ["Tx3.resolveLoop_fixed_point", "Tx3.C05_fixed_point", "Tx3.resolveLoop_stable", "Tx3.C05_stable",
            "Tx3.C05_fee_written", "Tx3.C05_fee_chain", "Tx3.C05_fee_estimate_exact"]
RULE = (
    "cases = the apply-fees probe (the real apply_fees on every template shape and on hand-built input / collateral "
    "queries that hold the fee, four fees each); (template, pparams, store, rounds): 5 template shapes using `fees` in outputs and/or min_amount, with and "
    "without min_utxo, 0-2 extra outputs, lowered from source; min_fee_coefficient in {0,1,44,1000}, constant in "
    "{0,155381,10^6}, extra_fees in {None,0,1,5000,2*10^5,1.2*10^6,4999999,5*10^6,5000001,7.5*10^6,2.5*10^7,10^9,2^32,2^40}; the single input amount is aimed at CBOR width boundaries of the "
    "change output and of the fee (24, 2^8, 2^16, 2^32) with jitter, where fee oscillation lives; max rounds in "
    "{0,3,10}; a size-fees probe (eval_size_fees itself on lengths 0..16384 and parameters from the edges of u64: 448 cases). Non-trivial = at least two passes were recorded; distinct = distinct (template, pparams, store, quantity)"
)
ASSUMPTIONS = ["the recorded trace is complete: every compile call of the real loop goes through the wrapper",
               "errors raised inside a pass before compile (e.g. InputNotResolved) end the trace; only their class is compared"]


def check(tier, seed, replay, prop=PROP, theorems=None, rule=None, n_quick=2500, n_thorough=100000):
    rep = core.Report(prop, tier, seed)
    only = None
    if replay:
        r = json.load(open(replay))
        seed, tier, only = r.get("seed", seed), r.get("tier", tier), r.get("case_index")
        rep.seed, rep.tier = seed, tier
    ok = core.standard_prologue(rep, prop, TARGETS, TARGETS, theorems or THEOREMS)
    if ok:
        n = n_quick if tier == "quick" else n_thorough
        rc, cases, err = core.harness_run(prop, seed, n, tier, only=only)
        rep.obligation("harness-run", rc == 0, err)
        rc2, verdicts, err2 = core.driver_run(prop, cases)
        rep.obligation("driver-run", rc2 == 0, err2)
        rep.ingest(cases, verdicts)
    return rep.finish(
        "proof", rule or RULE, ASSUMPTIONS,
        f"cd /verif/lean && lake build Tx3Proofs.C05 && lake env lean .audit/{prop}.lean  (#print axioms)",
    )
