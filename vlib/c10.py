"""C10 — emitted transactions are well-formed, self-consistent and reproducible."""
from . import compile_common as cc

LEVEL_TEXT = (
    "Lean 4 theorems over the compile model for the structural clauses: network id = configured network; script-data "
    "hash present iff redeemers, auxiliary-data hash iff metadata; no zero (cancelled) mint quantity; every native asset an output lists has a quantity in [1, 2^64) (C10_output_quantities_positive); withdrawals keyed "
    "by 29-byte stake-address reward accounts. The byte-level clauses are decided per case on the real payload: the "
    "independent Lean CBOR/Conway reader must parse it and finds no duplicate set member / empty map / empty optional "
    "field; pallas' own decoder must accept it; the reported hash must equal the digest of the body bytes inside the "
    "payload and the auxiliary-data hash the digest of the carried metadata (recomputed by pallas from the decoded "
    "payload); compiling twice must give identical bytes, on a fresh compiler and on one that has compiled another "
    "template (and this one) before without a reset (the model of compile() is a function of the template and the "
    "parameters; clause reproducible-on-a-used-compiler)."
)
LEVEL_NOTE = (
    cc.MODEL_NOTE + ". Partial by nature: hashing and CBOR encoding are pallas runtime behaviour (exercised, not modelled); "
    "cross-process reproducibility is covered by the C18 check. Duplicate set members for templates that repeat a "
    "reference are known findings (a de-duplicating fix breaks a pinned hash in the existing suite)."
)
PROP = "C10"
TARGETS = ["Tx3Proofs.C10", "Tx3Proofs.C10Outputs"]
THEOREMS = ["Tx3.C10_network_id", "Tx3.C10_hash_presence", "Tx3.C10_no_zero_mint", "Tx3.rewardAccount_wf",
            "Tx3.C10_reward_accounts", "Tx3.C10_wf",
    "Tx3.C10_output_quantities_positive"]
ASSUMPTIONS = [cc.MODEL_NOTE, "script_data_hash value (as opposed to presence) is not recomputed"]


def check(tier, seed, replay):
    return cc.run(PROP, tier, seed, replay, TARGETS, THEOREMS, cc.GEN_RULE, ASSUMPTIONS)
