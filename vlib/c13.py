"""C13 — a program the analyzer accepts can always be lowered."""
import json

from . import core

LEVEL_TEXT = (
    "Lean 4 theorems over (a) the model of how analyze, lowering::lower and Workspace::lower are chained, in which "
    "name resolution is an ARBITRARY report: an empty report implies that every transaction lowers, by position and "
    "by name (also when two transactions share a name); every transaction that cannot be lowered is named in the "
    "report of a program whose name resolution is clean, so no such mistake is silently accepted; analyze always "
    "returns; the facade never reaches its unwrap on an Err and never panics; and (b) the model of lowering.rs over "
    "the generator's syntax tree (records with and without spread, calls and arities, names of every symbol kind in "
    "every position, hex literals, local chains followed through the nine symbol snapshots, input blocks): it never "
    "panics, for any program, transaction, context and fuel. Tied to the code per generated program: valid core "
    "programs under semantic mutations (drop/duplicate/rename a field, unknown case/type, arity, wrapped calls, an "
    "identifier swapped for one of another kind, odd-length hex, local chains of length 1-13 in either order, "
    "shadowing names, property/index on locals, removed block fields, chain-specific directives with removed "
    "fields, a second transaction under another or the same name) and token-level mutations of the examples are "
    "run through the real parse, analyze, lower_tx, lower and Workspace::lower; the chaining model is run on the "
    "observed name-resolution report and lowering results and must predict the observed NotLowerable set, and the "
    "lowering model must agree with the real lower_tx on success/failure for every transaction whose name "
    "resolution is clean."
)
LEVEL_NOTE = (
    "Partial: name resolution (scopes, symbol kinds, type expectations of Program::analyze) is a parameter of the "
    "theorems, not a model; chain-specific directives are part of the lowering model since session 6 (LangAdhoc: withdrawal, donation, witnesses, publish, vote delegation; lowerTxFull_noPanic); "
    " the agreement between lowering model and code is on "
    "the outcome class (ok / error), not on the error variant. The property holds of the code because analyze ends "
    "with a trial lowering (fix 0adc075): the theorems show that this chaining suffices, the correspondence shows "
    "that the code still chains that way."
)
PROP = "C13"
TARGETS = ["Tx3Proofs.C13"]
THEOREMS = ["Tx3.Lang.C13", "Tx3.Lang.C13_by_name", "Tx3.Lang.C13_reports", "Tx3.Lang.analyze_total",
            "Tx3.Lang.lowerTx_noPanic", "Tx3.Lang.C13_facade", "Tx3.Lang.C13_facade_ok",
            "Tx3.Lang.analyze_eq_analyzeWith",
    "Tx3.Lang.lowerDirective_noPanic", "Tx3.Lang.lowerTxFull_noPanic"]
RULE = (
    "cases = 10 reproduced failures (missing field, Ada(), type name as value, odd hex, withdrawal without from, "
    "chain of 11 locals, min_utxo arity, index on a local, a broken second transaction, two transactions with one "
    "name); a malformed-literal sweep (an odd-length hex literal at every literal position of 6 (thorough: 40) programs "
    "in turn, metadata and signers included); 80% semantic mutations (1-2 of 16 kinds) of generated core programs, a quarter of them with two "
    "transactions, a third printed with random layout; 20% token-level mutations of examples/*.tx3 and of the coverage-driven corpus (frontp::extra_corpus); each corpus program as it stands; the mutation cross-kind-name (a parameter spelled like a party or an environment key up to case); a third of the transactions carry capitalised names (Transfer, payBack, T, swap_Now). Non-trivial = "
    "the text parses; distinct = distinct source text"
)
ASSUMPTIONS = ["name resolution is abstracted as an arbitrary report in the theorems",
               "programs are a few KB; local chains up to 13 + the generator's own locals"]


def check(tier, seed, replay):
    rep = core.Report(PROP, tier, seed)
    only = None
    if replay:
        r = json.load(open(replay))
        seed, tier, only = r.get("seed", seed), r.get("tier", tier), r.get("case_index")
        rep.seed, rep.tier = seed, tier
    ok = core.standard_prologue(rep, PROP, TARGETS, TARGETS, THEOREMS)
    if ok:
        n = 3000 if tier == "quick" else 100000
        rc, cases, err = core.harness_run(PROP, seed, n, tier, only=only)
        rep.obligation("harness-run", rc == 0, err)
        rc2, verdicts, err2 = core.driver_run(PROP, cases)
        rep.obligation("driver-run", rc2 == 0, err2)
        rep.ingest(cases, verdicts)
    return rep.finish("proof", RULE, ASSUMPTIONS,
                      "cd /verif/lean && lake build Tx3Proofs.C13 && lake env lean .audit/C13.lean  (#print axioms)")
