"""C18 — lowering and encoding are deterministic."""
import json

from . import core

LEVEL_TEXT = (
    "Lean 4 theorems: the encoder model is a function of the lowered tree with no hidden parameter, and the only "
    "hash-ordered container reachable from lowered IR - the field map of a chain-specific directive - is emitted "
    "sorted by key, for which sorting has exactly one result whatever order the fields are held in "
    "(sortBy_perm_invariant: any two permutations sort to the same list, for every total order). The model encoding "
    "must equal the one encoding observed. Per case the real pipeline parses, analyses, lowers and encodes each "
    "program 20 times in one process and, for a quarter of the programs (all in thorough), in 3 fresh processes, and "
    "the real tx3c binary writes the TII file 3 times: one byte string each."
)
LEVEL_NOTE = (
    "Process-level hash seeding (RandomState) is runtime behaviour: exercised by fresh processes, not modelled. "
    "The total-order hypothesis of the sorting theorem is Rust's Ord on String (trusted)."
)
PROP = "C18"
TARGETS = ["Tx3Proofs.C11"]
THEOREMS = ["Tx3.sortBy_perm_invariant", "Tx3.sorted_perm_eq", "Tx3.Wire.C18_directive_order_independent", "Tx3.Wire.C18_encoding_function"]
RULE = (
    "cases = programs: every /repo/examples/*.tx3 and every coverage-driven corpus program (frontp::extra_corpus) that lowers, plus generated programs (transfer shapes, min_utxo "
    "shapes, 1-3 cardano::withdrawal directives with three fields each and a treasury donation, every kind of block (withdrawal, donation, plutus and native witness, mint, metadata, output, signers) written two and three times verbatim, alike-named programs "
    "that give one policy / record / transaction name different contents); each lowered and "
    "encoded 20x in-process, 3x in fresh processes for a quarter of them, TII emitted 3x by the tx3c binary with its "
    "default command line and, for two more command lines per program (1-3 --profile flags and 1-2 "
    "--profile-env-file flags, names from a pool in which some differ only by case), 6x each in fresh processes; references written as lists (two or three outputs of one transaction) in input, reference and collateral blocks; constant_sources (every operator over constant multi-asset values of four classes in min_amount / mint / burn / output); two of the three default emissions go onto an output path that already holds a file (a much longer one, a shorter one). "
    "Non-trivial = every case; distinct = distinct program"
)
ASSUMPTIONS = ["the tx3c binary is built from /repo's working tree into /verif/.cache/target-tx3c on every run"]


def check(tier, seed, replay):
    rep = core.Report(PROP, tier, seed)
    only = None
    if replay:
        r = json.load(open(replay))
        seed, tier, only = r.get("seed", seed), r.get("tier", tier), r.get("case_index")
        rep.seed, rep.tier = seed, tier
    ok = core.standard_prologue(rep, PROP, TARGETS, TARGETS, THEOREMS)
    okc, outc = core.build_tx3c()
    rep.obligation("tx3c-builds-from-working-tree", okc, outc[-3000:])
    if ok:
        n = 40 if tier == "quick" else 600
        rc, cases, err = core.harness_run(PROP, seed, n, tier, only=only)
        rep.obligation("harness-run", rc == 0, err)
        rc2, verdicts, err2 = core.driver_run(PROP, cases)
        rep.obligation("driver-run", rc2 == 0, err2)
        rep.ingest(cases, verdicts)
    return rep.finish("proof", RULE, ASSUMPTIONS,
                      "cd /verif/lean && lake build Tx3Proofs.C11 && lake env lean .audit/C18.lean  (#print axioms)")
