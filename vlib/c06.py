"""C06 — a template closes exactly when its reported parameters and queries are supplied."""
import json

from . import core

LEVEL_TEXT = (
    "Lean 4 theorems over a uniform-tree model of the TIR and of the traversals of reduce/mod.rs: every unresolved value parameter found by an independent generic walk is reported by params (any position: index operands, query bodies, directive values, compiler-op operands); after applying an argument for every reported parameter, a UTxO set for every reported query and a fee, the walk finds nothing, for every expression and for the whole transaction; the resolver's argument guard names an absent reported parameter; what lowering writes for chain-specific directives is fresh too, hence Sealed and WF (lowerTxFull_sealed_WF); arguments may arrive in rounds: two rounds are one round with the joint map, on expressions and transactions (C06_args_in_rounds, C06_tx_args_in_rounds). Tied to the code by a position-complete correspondence sweep (a parameter/input/fees in every child position of every node kind) and random templates, with a third observer walking the serde data model of the real Tx."
)
LEVEL_NOTE = (
    'Trusted: Lean kernel + the three standard axioms, harness/driver, the hand-written traversal model (tied by correspondence). Hypothesis Sealed (Set payloads and UTxO-embedded expressions are closed) holds for the apply stages and, as a theorem, for every slot of every transaction the lowering model produces (lower_fresh, lowerTx_sealed_WF: lowering writes no Set and no UTxO set, and placeholders without children); that reduce keeps a closed expression closed is proved for expressions (C06_reduce_keeps_closed, C06_closes_after_reduce) and checked per case for whole transactions.'
)
PROP = "C06"
LEAN_TARGETS = ["Tx3Proofs.C06", "Tx3Proofs.C06Reduce", "Tx3Proofs.C06Lower", "Tx3Proofs.C06Partial", "Tx3Proofs.C06LowerAdhoc"]
AUDIT_MODULES = ["Tx3Proofs.C06", "Tx3Proofs.C06Reduce", "Tx3Proofs.C06Lower", "Tx3Proofs.C06Partial", "Tx3Proofs.C06LowerAdhoc"]
THEOREMS = [
    "Tx3.Expr.C06_reported_complete", "Tx3.Expr.C06_closes",
    "Tx3.C06_tx_closes", "Tx3.C06_tx_reported_complete",
    "Tx3.C06_missing_arg", "Tx3.C06_no_missing_arg",
    "Tx3.reduce_closed", "Tx3.C06_reduce_keeps_closed", "Tx3.C06_closes_after_reduce",
    "Tx3.Expr.fresh_sealed", "Tx3.Expr.fresh_WF", "Tx3.Lang.lower_fresh", "Tx3.Lang.lowerTx_fresh",
    "Tx3.Lang.lowerTx_sealed_WF",
    "Tx3.Expr.C06_args_in_rounds", "Tx3.C06_tx_args_in_rounds", "Tx3.C06_rounds_pending",
    "Tx3.Lang.lowerDirective_all", "Tx3.Lang.lowerTxFull_fresh", "Tx3.Lang.lowerTxFull_sealed_WF"]

RULE = (
    "cases = TIR transactions: a position-complete sweep (a value parameter, `fees`, an input and an "
    "input whose query holds parameters, placed in every child position of every node kind, in rotating "
    "transaction slots) plus type-directed random templates (every position may hold a parameter, an "
    "input, fees or a compiler op; a malformed tail), each with type-correct arguments, UTxO sets and a fee; templates with 2-4 parameters applied in two rounds (a strict subset of the arguments, then the rest); the arg-kind sweep of C07; a named sweep (a value parameter and an input block under every name harvested from the string literals of the crates' source - as it is, as prefix, as suffix). "
    "Non-trivial = the template has at least one unresolved parameter node; distinct = distinct "
    "(template, args, fee)"
)

ASSUMPTIONS = [
    "theorems are over the uniform-tree model of the TIR (Tx3Model/Tir.lean, Reduce.lean); the model's traversals are tied to reduce/mod.rs by the per-run correspondence on every generated case (params, queries, is_constant, apply_args, apply_inputs, apply_fees, reduce, compiler pass)",
    "Sealed: payloads of Param::Set and expressions inside UTxOs are closed (true of lowering output and preserved by the apply stages); decoded IR that violates it is outside the theorem and is exercised by the malformed stream only",
    "the independent walk on the Rust side runs over the serde data model of the real Tx (ciborium::Value), not over the harness's own encoding",
]


def check(tier, seed, replay):
    rep = core.Report(PROP, tier, seed)
    only = None
    if replay:
        r = json.load(open(replay))
        seed, tier, only = r.get("seed", seed), r.get("tier", tier), r.get("case_index")
        rep.seed, rep.tier = seed, tier
    ok = core.standard_prologue(rep, PROP, LEAN_TARGETS, AUDIT_MODULES, THEOREMS)
    if ok:
        n = 1500 if tier == "quick" else 60000
        rc, cases, err = core.harness_run(PROP, seed, n, tier, only=only)
        rep.obligation("harness-run", rc == 0, err)
        rc2, verdicts, err2 = core.driver_run(PROP, cases)
        rep.obligation("driver-run", rc2 == 0, err2)
        rep.ingest(cases, verdicts)
    return rep.finish(
        "proof", RULE, ASSUMPTIONS,
        "cd /verif/lean && lake build Tx3Proofs.C06 && lake env lean .audit/C06.lean  (#print axioms)",
    )
