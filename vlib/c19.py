"""C19 — diagnostics point inside the text they are attached to."""
import json

from . import core

LEVEL_TEXT = (
    "Lean 4 theorems over the PEG engine running the grammar regenerated from tx3.pest and over the model of the "
    "diagnostic constructors (Error::from_pest, Error::at, From<Span> for SourceSpan): every pair of every successful "
    "parse lies within the input with start <= end, on character boundaries, inner pairs inside outer ones, for every "
    "grammar, rule and input; a diagnostic attached to such a pair, or to a position of the input, points inside the "
    "text it carries and converts to a display span without underflow; the text of a pair is exactly the characters "
    "consumed for it (so the located text of an identifier is its name). Per generated erroneous source the real "
    "parse error's (src, span) and every analysis error's span and name are checked against the property clause by "
    "clause, the model's src against the real one, and pest's pair tree against the engine's."
)
LEVEL_NOTE = (
    "Partial: that pest's error location is a position its engine reached is assumed (pest's furthest-failure "
    "bookkeeping is not modelled) and checked per case; that the builder copies a node's span from its pair is "
    "checked per case for literals and identifiers, not proved for every AST node."
)
PROP = "C19"
TARGETS = ["Tx3Proofs.C19"]
THEOREMS = ["Tx3.Peg.engine_inv", "Tx3.Front.C19_pairs_within_input", "Tx3.Front.C19_tx3_pairs_within_input",
            "Tx3.Front.C19_error_at_within", "Tx3.Front.C19_parse_error_within", "Tx3.Front.C19_source_span",
            "Tx3.Front.C19_text_of_pair"]
RULE = (
    "cases = C12's generators (reproduced failures, corpus, literal probes, grammar expansions, token-level mutations, "
    "nesting): about a third of the texts fail to parse, at positions on every line and column of multi-line inputs, "
    "with multi-byte characters in strings and comments before the error; about a quarter parse and fail analysis; for every diagnostic the first label handed out by miette::Diagnostic::labels() and whether source_code().read_span() can read it. "
    "Non-trivial = every case; distinct = distinct source text"
)
ASSUMPTIONS = ["miette's rendering is not run; the clause checked is the one it needs (label inside the source, on character boundaries)"]


def check(tier, seed, replay):
    rep = core.Report(PROP, tier, seed)
    only = None
    if replay:
        r = json.load(open(replay))
        seed, tier, only = r.get("seed", seed), r.get("tier", tier), r.get("case_index")
        rep.seed, rep.tier = seed, tier
    ok = core.standard_prologue(rep, PROP, TARGETS, TARGETS, THEOREMS)
    if ok:
        n = 3000 if tier == "quick" else 60000
        rc, cases, err = core.harness_run(PROP, seed, n, tier, only=only)
        rep.obligation("harness-run", rc == 0, err)
        rc2, verdicts, err2 = core.driver_run(PROP, cases)
        rep.obligation("driver-run", rc2 == 0, err2)
        rep.ingest(cases, verdicts)
    return rep.finish("proof", RULE, ASSUMPTIONS,
                      "cd /verif/lean && lake build Tx3Proofs.C19 && lake env lean .audit/C19.lean  (#print axioms)")
