#!/bin/bash
# Runs every claimed check with several seeds; prints one line per run. Used to look for
# seed-dependent false alarms on the unchanged tree.
cd /verif
props=$(python3 -c "import json;print(' '.join(c['property_id'] for c in json.load(open('MANIFEST.json'))['checks']))")
for s in ${@:-1 2 3}; do
  for p in $props; do
    out=$(VERIF_SEED=$s ./check $p 2>&1 | grep -v KNOWN-FINDING | tail -2 | tr '\n' ' ')
    echo "seed=$s $out"
  done
done
