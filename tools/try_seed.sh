#!/bin/bash
# try_seed.sh <patch.diff> <prop> [<prop>...] : applies a seeded change to /repo, runs the quick
# checks of the given properties against it, and undoes the change straight afterwards.
set -u
PATCH=$(readlink -f "$1"); shift
cd /repo || exit 2
git diff --quiet || { echo "/repo has uncommitted changes"; exit 2; }
git apply "$PATCH" || { echo "patch does not apply"; exit 2; }
cd /verif
# evidence files must only ever come from the unchanged tree: keep them aside
BK=$(mktemp -d)
cp -a evidence/. "$BK"/
for p in "$@"; do
  out=$(./check $p --tier quick 2>&1 | grep -v KNOWN-FINDING | tail -3)
  echo "== $p: $out"
done
git -C /repo checkout -- .
cp -a "$BK"/. evidence/ && rm -rf "$BK"
git -C /repo status --short | head -3
# regenerate the tables from the restored tree
python3 -c "import sys; sys.path.insert(0, '/verif'); from vlib import core; print('translator:', core.run_translator()[0])"
