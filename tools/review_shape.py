#!/usr/bin/env python3
"""review_shape.py — snapshots the IR shape table that the translator generated from /repo
(lean/Tx3Model/Gen/Schema.lean, `shape`) into lean/Tx3Proofs/Tie/ShapeReviewed.lean.

Run it after reviewing a change of the IR types (a new variant, a field added, renamed, retyped or
reordered) and after bringing the hand-written models (Tx3Model/Tir, Wire, WireDec, Reduce) in line with it:
the obligation `Tie.ir_shape_as_modelled` compares the regenerated table with this snapshot."""
import re, sys, subprocess

src = open("/verif/lean/Tx3Model/Gen/Schema.lean").read()
m = re.search(r"def shape : List \(Nat × List \(Nat × List \(Nat × Nat\)\)\) := \[\n(.*?)\n\]\n", src, re.S)
if not m:
    sys.exit("no shape table in Gen/Schema.lean")
body = m.group(1)
rev = subprocess.run(["git", "-C", "/repo", "rev-parse", "--short", "HEAD"], capture_output=True, text=True).stdout.strip()
out = f"""/- The IR shape the hand-written models were last reviewed against (snapshot of `Gen.shape` at {rev}; written by
tools/review_shape.py, never at check time). -/

namespace Tx3.Tie

def reviewedShape : List (Nat × List (Nat × List (Nat × Nat))) := [
{body}
]

end Tx3.Tie
"""
open("/verif/lean/Tx3Proofs/Tie/ShapeReviewed.lean", "w").write(out)
print("wrote Tie/ShapeReviewed.lean,", body.count("\n") + 1, "types, at", rev)
