#!/bin/bash
# seeds_regress.sh [ID-NN ...] — applies every kept seed (or the ones named) to /repo in turn, runs the quick
# check of its property, reverts; prints one line per seed. Every line must say exit 1 (the seed is reported).
cd /verif
seeds=${@:-$(ls seeded)}
for s in $seeds; do
  id=${s%%-*}
  out=$(tools/try_seed.sh /verif/seeded/$s/patch.diff $id 2>&1 | grep "\[check\]" | tail -1 | sed 's/.*\[check\]//' | cut -c1-150)
  echo "$s $out"
done
