#!/bin/bash
# seeds_regress.sh [ID-NN ...] — applies every kept seed (or the ones named) to /repo in turn, runs the quick
# check of its property, reverts; prints one line per seed. Every line must say exit 1 (the seed is reported)
# or `superseded` (meta.json says which later fix made the seeded change harmless).
cd /verif
seeds=${@:-$(ls seeded)}
for s in $seeds; do
  id=${s%%-*}
  if grep -q '"superseded"' seeded/$s/meta.json; then echo "$s superseded (the change no longer breaks the property on the current tree) -> skipped"; continue; fi
  # the check that reports the seed: its own property's, unless meta.json names another one (./check CNN ...)
  chk=$(python3 -c "import json,re,sys; m=json.load(open('seeded/$s/meta.json')); x=re.search(r'check (C\d\d)', m.get('detected_by',{}).get('check','')); print(x.group(1) if x else '$id')")
  out=$(tools/try_seed.sh /verif/seeded/$s/patch.diff $chk 2>&1 | grep "\[check\]" | tail -1 | sed 's/.*\[check\]//' | cut -c1-150)
  echo "$s $out"
done
