#!/bin/bash
# verify_seed.sh <worktree> <outdir> <crate> : confirms a seeded change compiles, passes the
# existing suite, and that its demonstration fails with it and passes without it.
# The demo (seed_demo.rs) is installed as <worktree>/<dir>/tests/seed_demo.rs, <dir> = crates/<crate>
# unless given as the fourth argument (bin/tx3c for the CLI).
set -u
WT=$1; OUT=$2; CRATE=$3; DIR=${4:-crates/$3}
export CARGO_NET_OFFLINE=true
cd "$WT" || exit 2
git checkout -q -- . ; rm -rf $DIR/tests/seed_demo.rs
git apply "$OUT/patch.diff" || { echo "RESULT patch-does-not-apply"; exit 1; }
cargo test --workspace --offline > "$OUT/suite_with_change.log" 2>&1
SUITE=$?
mkdir -p $DIR/tests && cp "$OUT/seed_demo.rs" $DIR/tests/seed_demo.rs
cargo test -p $CRATE --test seed_demo --offline > "$OUT/demo_with_change.log" 2>&1
DEMO_WITH=$?
git apply -R "$OUT/patch.diff"
cargo test -p $CRATE --test seed_demo --offline > "$OUT/demo_without_change.log" 2>&1
DEMO_WITHOUT=$?
rm -f $DIR/tests/seed_demo.rs; rmdir $DIR/tests 2>/dev/null
git checkout -q -- .
echo "RESULT suite_with_change_rc=$SUITE demo_with_change_rc=$DEMO_WITH demo_without_change_rc=$DEMO_WITHOUT"
