#!/usr/bin/env python3
"""keep_seed.py <ID> <outdir> <verify-log> <detected_check> <detected_text>
Copies a confirmed seeded change into /verif/seeded/<ID>-01/ and completes its meta.json."""
import json, os, shutil, sys
pid, out, vlog, check, text = sys.argv[1:6]
num = sys.argv[6] if len(sys.argv) > 6 else "01"
dst = f"/verif/seeded/{pid}-{num}"
os.makedirs(dst, exist_ok=True)
for f in ("patch.diff", "seed_demo.rs"):
    shutil.copy(os.path.join(out, f), os.path.join(dst, f))
m = json.load(open(os.path.join(out, "meta.json")))
m["id"] = f"{pid}-{num}"
m["origin"] = "independent sub-agent given only the property text and a scratch worktree"
res = [l for l in open(vlog).read().splitlines() if l.startswith("RESULT")]
m["confirmed_by_me"] = {"script": f"tools/verify_seed.sh /tmp/seed/{pid}-wt /tmp/seed/{pid}-out {m.get('crate')} {m.get('crate_dir','')}".strip(),
                        "result": res[-1] if res else "?"}
m["detected_by"] = {"check": check, "result": text}
json.dump(m, open(os.path.join(dst, "meta.json"), "w"), indent=1)
print("kept", dst, m["confirmed_by_me"]["result"])
