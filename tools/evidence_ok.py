#!/usr/bin/env python3
"""evidence_ok.py — refuses evidence files that were written while /repo was modified (a seed or a mutant applied):
every obligation discharged, no VIOLATION recorded. Run before committing evidence."""
import json, glob, sys
bad = []
for f in sorted(glob.glob("/verif/evidence/C*.json")):
    e = json.load(open(f))
    c = e.get("coverage", {})
    if c.get("discharged") != c.get("obligations"):
        bad.append(f"{f}: discharged {c.get('discharged')} != obligations {c.get('obligations')}")
    if e.get("exit_status", 0) not in (0, None):
        bad.append(f"{f}: exit_status {e.get('exit_status')}")
print("\n".join(bad) if bad else "evidence ok")
sys.exit(1 if bad else 0)
