#!/bin/sh
# Builds the framework from files on disk only (offline).
set -e
cd "$(dirname "$0")"
export CARGO_NET_OFFLINE=true CARGO_TARGET_DIR=/verif/.cache/target RUSTFLAGS="--cfg tx3_verif"
mkdir -p .cache work replays evidence
python3 - <<'PY'
import sys
sys.path.insert(0, "/verif")
from vlib import core
ok, out = core.run_translator()
print("translator:", ok, out[-2000:] if not ok else "")
ok2, out2 = core.build_harness()
print("harness:", ok2, out2[-3000:] if not ok2 else "")
ok3, out3 = core.lake_build(["Tx3Model", "Tx3Proofs", "driver"])
print("lean:", ok3, out3[-3000:] if not ok3 else "")
sys.exit(0 if (ok and ok2 and ok3) else 1)
PY
