import Tx3Model.Basic
import Tx3Model.Assets
import Tx3Model.Tir
import Tx3Model.Reduce
import Tx3Model.CompilerOps
import Tx3Model.SpecTir
import Tx3Model.Select
