import Tx3Model.Basic
import Tx3Model.Assets
