import Tx3Proofs.C05
import Tx3Proofs.C05Fee
#print axioms Tx3.C20_history_independent
#print axioms Tx3.C20_needs_reset
