import Tx3Proofs.C05
#print axioms Tx3.C20_history_independent
#print axioms Tx3.C20_needs_reset
