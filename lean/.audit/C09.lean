import Tx3Proofs.C09
#print axioms Tx3.Cbor.beNat_natToBytes
#print axioms Tx3.PData.C09_read_write
#print axioms Tx3.PData.C09_constr_tag
#print axioms Tx3.C09_struct
#print axioms Tx3.C09_roundtrip_of_expr
#print axioms Tx3.PData.C09_bytes_read_write
