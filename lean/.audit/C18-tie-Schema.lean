import Tx3Proofs.Tie.Schema
#print axioms Tx3.Tie.serde_notes_reviewed
