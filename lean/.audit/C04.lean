import Tx3Proofs.C04
#print axioms Tx3.selectOne_refs_nodup
#print axioms Tx3.resolveQueries_inv
#print axioms Tx3.C04_disjoint
#print axioms Tx3.C04_every_block_bound
