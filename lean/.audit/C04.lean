import Tx3Proofs.C04
import Tx3Proofs.C04Body
#print axioms Tx3.selectOne_refs_nodup
#print axioms Tx3.resolveQueries_inv
#print axioms Tx3.C04_disjoint
#print axioms Tx3.C04_every_block_bound
#print axioms Tx3.C04_body_inputs_exact
#print axioms Tx3.C04_body_no_duplicates
#print axioms Tx3.C04_body_duplicates_if_shared
