import Tx3Proofs.C11
#print axioms Tx3.sortBy_perm_invariant
#print axioms Tx3.sorted_perm_eq
#print axioms Tx3.Wire.C18_directive_order_independent
#print axioms Tx3.Wire.C18_encoding_function
