import Tx3Proofs.Tie.Schema
#print axioms Tx3.Tie.serde_notes_reviewed
#print axioms Tx3.Tie.wire_types_derive_serde
