import Tx3Proofs.C15
import Tx3Proofs.C15Expr
import Tx3Proofs.C15Queries
#print axioms Tx3.Assets.C15_wf_constructors
#print axioms Tx3.Assets.C15_wf_ops
#print axioms Tx3.Assets.C15_amt_add
#print axioms Tx3.Assets.C15_amt_sub
#print axioms Tx3.Assets.C15_amt_neg
#print axioms Tx3.Assets.C15_add_no_zero_entries
#print axioms Tx3.Assets.C15_add_comm
#print axioms Tx3.Assets.C15_add_assoc
#print axioms Tx3.Assets.C15_sub_eq_add_neg
#print axioms Tx3.Assets.C15_sub_add_cancel
#print axioms Tx3.Assets.C15_add_zero
#print axioms Tx3.Assets.C15_add_neg_self
#print axioms Tx3.Assets.C15_eq_semantic
#print axioms Tx3.Assets.C15_structural_eq_not_semantic
#print axioms Tx3.Assets.C15_contains
#print axioms Tx3.Assets.C15_exprs
#print axioms Tx3.Assets.C15_exprs_any_order
#print axioms Tx3.Assets.C15_exprs_needs_proper
#print axioms Tx3.Assets.isEmpty_iff
#print axioms Tx3.Assets.isEmptyOrNegative_iff
#print axioms Tx3.Assets.isOnlyNaked_iff
#print axioms Tx3.Assets.containsTotal_iff
#print axioms Tx3.Assets.containsSome_iff
#print axioms Tx3.Assets.C15_queries_respect_equality
#print axioms Tx3.Assets.C15_zero_immaterial
#print axioms Tx3.C15_expr_sub_is_add_neg
