import Tx3Proofs.Tie.Sites
#print axioms Tx3.Tie.translator_no_problems
#print axioms Tx3.Tie.sites_reviewed_json
