import Tx3Proofs.C14
import Tx3Proofs.C14Reduce
#print axioms Tx3.np_tryAsData
#print axioms Tx3.np_compileDataExpr
#print axioms Tx3.C14_compile_total
#print axioms Tx3.C14_reduce_total
#print axioms Tx3.C14_reduceOp_total
#print axioms Tx3.C14_compilerPass_total
#print axioms Tx3.C14_tx_reduce_total
#print axioms Tx3.C14_tx_compilerPass_total
