import Tx3Proofs.Tie.Schema
#print axioms Tx3.Tie.directives_consumed_are_produced
