import Tx3Proofs.C10
import Tx3Proofs.C10Outputs
#print axioms Tx3.C10_network_id
#print axioms Tx3.C10_hash_presence
#print axioms Tx3.C10_no_zero_mint
#print axioms Tx3.rewardAccount_wf
#print axioms Tx3.C10_reward_accounts
#print axioms Tx3.C10_wf
#print axioms Tx3.C10_output_quantities_positive
