import Tx3Proofs.Tie.Sites
#print axioms Tx3.Tie.sites_reviewed_wire
