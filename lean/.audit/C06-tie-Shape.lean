import Tx3Proofs.Tie.Shape
#print axioms Tx3.Tie.ir_shape_as_modelled
