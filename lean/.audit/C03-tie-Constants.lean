import Tx3Proofs.Tie.Constants
#print axioms Tx3.Tie.constants_as_modelled
