import Tx3Proofs.C01
#print axioms Tx3.Lang.eval_int
#print axioms Tx3.Lang.lower_int
#print axioms Tx3.Lang.C01_int_fragment
#print axioms Tx3.Lang.C01_sub_chain
#print axioms Tx3.Lang.C01_sub_chain_distinct
