import Tx3Proofs.C01
import Tx3Proofs.C01Assets
import Tx3Proofs.C01Lovelace
import Tx3Proofs.C01MultiAsset
import Tx3Proofs.C01Template
import Tx3Proofs.C01Spec
import Tx3Proofs.C01Change
import Tx3Proofs.C01Index
import Tx3Proofs.C01Datum
import Tx3Proofs.C01Field
import Tx3Proofs.C01Optional
import Tx3Proofs.C01Map
import Tx3Proofs.C01Blocks
#print axioms Tx3.Lang.eval_int
#print axioms Tx3.Lang.lower_int
#print axioms Tx3.Lang.C01_int_fragment
#print axioms Tx3.Lang.C01_sub_chain
#print axioms Tx3.Lang.C01_sub_chain_distinct
#print axioms Tx3.assetsOfChildren_amt
#print axioms Tx3.reread_canonical
#print axioms Tx3.C01_assets_add
#print axioms Tx3.C01_assets_neg
#print axioms Tx3.C01_assets_sub
#print axioms Tx3.C01_assets_sub_chain
#print axioms Tx3.arithAdd_ok
#print axioms Tx3.arithSub_ok
#print axioms Tx3.Lang.lower_lovelace
#print axioms Tx3.Lang.C01_lovelace_fragment
#print axioms Tx3.Lang.lower_multi
#print axioms Tx3.Lang.C01_multi_asset_fragment
#print axioms Tx3.sumUtxo_spec
#print axioms Tx3.C01_template_value
#print axioms Tx3.Lang.eval_lovelace
#print axioms Tx3.Lang.C01_spec_meets_pipeline
#print axioms Tx3.Lang.lower_int_inert
#print axioms Tx3.Lang.denotes_add
#print axioms Tx3.Lang.denotes_sub
#print axioms Tx3.Lang.lowerInput_shape
#print axioms Tx3.Lang.input_lowers
#print axioms Tx3.Lang.C01_source_to_value
#print axioms Tx3.Lang.full_pipeline_order
#print axioms Tx3.nth?_spec
#print axioms Tx3.C01_list_index_exact
#print axioms Tx3.C01_struct_index_exact
#print axioms Tx3.C01_index_out_of_range
#print axioms Tx3.Lang.good
#print axioms Tx3.Lang.egood
#print axioms Tx3.Lang.C01_datum_exact
#print axioms Tx3.Lang.C01_redeemer_exact
#print axioms Tx3.Lang.C01_field_order_immaterial
#print axioms Tx3.Lang.C01_datum_fragment
#print axioms Tx3.C01_input_field_value
#print axioms Tx3.Lang.lower_input_field
#print axioms Tx3.Lang.lower_record_with_spread
#print axioms Tx3.Lang.C01_spread_field_value
#print axioms Tx3.C01_optional_output_kept_iff
#print axioms Tx3.C01_optional_output_error_kept
#print axioms Tx3.Lang.C01_map_literal
#print axioms Tx3.Lang.C01_map_literal_semantics
#print axioms Tx3.C01_collateral_exact
#print axioms Tx3.C01_collateral_member
#print axioms Tx3.C01_collateral_only
#print axioms Tx3.C01_reference_inputs_exact
#print axioms Tx3.C01_reference_member
