import Tx3Proofs.C12
import Tx3Proofs.C12Fuel
#print axioms Tx3.Peg.engine_inv
#print axioms Tx3.Front.C12_engine_outcome
#print axioms Tx3.Front.C12_number_total
#print axioms Tx3.Front.C12_number_range
#print axioms Tx3.Front.C12_utxo_ref_total
#print axioms Tx3.Front.C12_bool_on_rule
#print axioms Tx3.Peg.headOK_mono
#print axioms Tx3.Peg.fuel_enough
#print axioms Tx3.Peg.skipOK_of_check
#print axioms Tx3.Peg.parseF_total
#print axioms Tx3.Front.tx3_grammar_well_formed
#print axioms Tx3.Front.C12_never_out_of_fuel
#print axioms Tx3.Front.C12_engine_total
