import Tx3Proofs.C12
#print axioms Tx3.Peg.engine_inv
#print axioms Tx3.Front.C12_engine_outcome
#print axioms Tx3.Front.C12_number_total
#print axioms Tx3.Front.C12_number_range
#print axioms Tx3.Front.C12_utxo_ref_total
#print axioms Tx3.Front.C12_bool_on_rule
