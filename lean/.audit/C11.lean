import Tx3Proofs.C11
import Tx3Proofs.C11Roundtrip
#print axioms Tx3.Cbor.beNat_natToBytes
#print axioms Tx3.Wire.C11_int128_roundtrip
#print axioms Tx3.Wire.C11_bytes_roundtrip
#print axioms Tx3.Wire.C11_version_gate
#print axioms Tx3.Wire.strOf_txtBytes
#print axioms Tx3.Wire.txtBytes_inj
#print axioms Tx3.Wire.C11_expr_roundtrip
#print axioms Tx3.Wire.C11_expr_injective
#print axioms Tx3.Wire.C11_tx_roundtrip
#print axioms Tx3.Cbor.readItem_encode
#print axioms Tx3.Cbor.decode_encode
#print axioms Tx3.Cbor.wfb_all
#print axioms Tx3.Wire.C11_wire_roundtrip
#print axioms Tx3.Wire.C11_too_deep
#print axioms Tx3.Wire.C11_bytes_injective
