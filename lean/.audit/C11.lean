import Tx3Proofs.C11
#print axioms Tx3.Cbor.beNat_natToBytes
#print axioms Tx3.Wire.C11_int128_roundtrip
#print axioms Tx3.Wire.C11_bytes_roundtrip
#print axioms Tx3.Wire.C11_version_gate
