import Tx3Proofs.C17
#print axioms Tx3.Tii.C17_same_spelling
#print axioms Tx3.Tii.C17_required_are_declared
#print axioms Tx3.Tii.dupNames_nil_iff
#print axioms Tx3.Tii.C17_no_collision
