import Tx3Proofs.C17
import Tx3Proofs.C17Lower
import Tx3Proofs.C17Used
import Tx3Proofs.C06LowerAdhoc
import Tx3Proofs.C17Input
#print axioms Tx3.Tii.C17_same_spelling
#print axioms Tx3.Tii.C17_required_are_declared
#print axioms Tx3.Tii.dupNames_nil_iff
#print axioms Tx3.Tii.C17_no_collision
#print axioms Tx3.Lang.lower_decl
#print axioms Tx3.Lang.resolve_names
#print axioms Tx3.Lang.C17_lowered_requires_declared
#print axioms Tx3.Lang.C17_lowered_keys_listed
#print axioms Tx3.Lang.C17_reported_params_listed
#print axioms Tx3.Lang.C17_used_is_required
#print axioms Tx3.Lang.C17_lowered_full_requires_declared
#print axioms Tx3.Lang.C17_input_fields_lowered
#print axioms Tx3.Lang.C17_min_amount_param_required
