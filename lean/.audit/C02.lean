import Tx3Proofs.C02
import Tx3Proofs.C02Outputs
import Tx3Proofs.C02Balance
import Tx3Proofs.C01Optional
import Tx3Proofs.C01Blocks
#print axioms Tx3.C02_fee_exact
#print axioms Tx3.C02_validity_exact
#print axioms Tx3.C02_mint_range
#print axioms Tx3.C02_withdrawal_exact
#print axioms Tx3.C02_donation_exact
#print axioms Tx3.C02_negative_lovelace_wraps
#print axioms Tx3.C02_negative_asset_dropped
#print axioms Tx3.compileValue_exact
#print axioms Tx3.compileValues_exact
#print axioms Tx3.assetQty_insertAsset
#print axioms Tx3.C02_output_exact_partial
#print axioms Tx3.C02_output_block_exact
#print axioms Tx3.view_triples
#print axioms Tx3.range_triples
#print axioms Tx3.compile_view
#print axioms Tx3.den_odd
#print axioms Tx3.C02_source_to_output
#print axioms Tx3.den_minusAll
#print axioms Tx3.C02_balance
#print axioms Tx3.C02_balance_mint
#print axioms Tx3.C02_zero_mint_refused
#print axioms Tx3.C01_optional_output_kept_iff
#print axioms Tx3.C02_scalar_shape
#print axioms Tx3.C02_scalar_total
#print axioms Tx3.C02_scalar_nest
#print axioms Tx3.C02_no_class_refused
#print axioms Tx3.C02_two_classes_refused
