import Tx3Proofs.C02
#print axioms Tx3.C02_fee_exact
#print axioms Tx3.C02_validity_exact
#print axioms Tx3.C02_mint_range
#print axioms Tx3.C02_withdrawal_exact
#print axioms Tx3.C02_donation_exact
#print axioms Tx3.C02_negative_lovelace_wraps
#print axioms Tx3.C02_negative_asset_dropped
