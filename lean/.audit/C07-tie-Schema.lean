import Tx3Proofs.Tie.Schema
#print axioms Tx3.Tie.traversals_cover
