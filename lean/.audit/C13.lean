import Tx3Proofs.C13
#print axioms Tx3.Lang.C13
#print axioms Tx3.Lang.C13_by_name
#print axioms Tx3.Lang.C13_reports
#print axioms Tx3.Lang.analyze_total
#print axioms Tx3.Lang.lowerTx_noPanic
#print axioms Tx3.Lang.C13_facade
#print axioms Tx3.Lang.C13_facade_ok
#print axioms Tx3.Lang.analyze_eq_analyzeWith
#print axioms Tx3.Lang.lowerDirective_noPanic
#print axioms Tx3.Lang.lowerTxFull_noPanic
