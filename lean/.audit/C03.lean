import Tx3Proofs.C03
import Tx3Proofs.C03Independent
#print axioms Tx3.C03_single_sound
#print axioms Tx3.C03_single_complete
#print axioms Tx3.pickManyLoop_inv
#print axioms Tx3.pickManyLoop_skipped
#print axioms Tx3.removeExcess_inv
#print axioms Tx3.C03_many_sound
#print axioms Tx3.C03_many_complete
#print axioms Tx3.C03_select_sound
#print axioms Tx3.C03_take_complete
#print axioms Tx3.C03_independent_block
#print axioms Tx3.C03_two_independent_blocks
