import Tx3Proofs.C07
import Tx3Proofs.C07Reduce
import Tx3Proofs.C07Confluence
import Tx3Proofs.C07Tx
import Tx3Proofs.C06Lower
import Tx3Proofs.C07Lists
import Tx3Proofs.C07Compiler
import Tx3Proofs.C06LowerAdhoc
#print axioms Tx3.Expr.C07_args_fees
#print axioms Tx3.Expr.C07_args_inputs
#print axioms Tx3.Expr.C07_fees_inputs
#print axioms Tx3.Stage.commute_expr
#print axioms Tx3.C07_apply_commute
#print axioms Tx3.reduce_nf
#print axioms Tx3.nf_fix
#print axioms Tx3.nf_fix_fuel
#print axioms Tx3.C07_reduce_idempotent
#print axioms Tx3.C07_reduce_stable
#print axioms Tx3.C07_reduce_not_idempotent_without_WF
#print axioms Tx3.C07_stages_preserve_WF
#print axioms Tx3.C07_reduce_preserves_WF
#print axioms Tx3.reduce_sealed
#print axioms Tx3.confl_args
#print axioms Tx3.reduceF_det
#print axioms Tx3.confl_stage
#print axioms Tx3.Stage.isStage
#print axioms Tx3.C07_reduce_commutes_with_stage
#print axioms Tx3.C07_reduce_then_stage
#print axioms Tx3.C07_two_stages
#print axioms Tx3.sealedb_Sealed
#print axioms Tx3.Tx.mapM_rel
#print axioms Tx3.C07_tx_reduce_commutes_with_stage
#print axioms Tx3.Lang.lowerTx_sealed_WF
#print axioms Tx3.C07_lists_keep_their_length
#print axioms Tx3.C07_signers_entrywise
#print axioms Tx3.C07_stage_keeps_lists
#print axioms Tx3.compilerPass_opFree
#print axioms Tx3.compilerPass_leaves_none
#print axioms Tx3.C07_compiler_pass_idempotent
#print axioms Tx3.reduceOp_answers_opFree
#print axioms Tx3.C07_cardano_compiler_pass_idempotent
#print axioms Tx3.Lang.lowerTxFull_sealed_WF
