import Tx3Proofs.C07
#print axioms Tx3.Expr.C07_args_fees
#print axioms Tx3.Expr.C07_args_inputs
#print axioms Tx3.Expr.C07_fees_inputs
#print axioms Tx3.Stage.commute_expr
#print axioms Tx3.C07_apply_commute
