import Tx3Proofs.C05
import Tx3Proofs.C05Fee
#print axioms Tx3.resolveLoop_fixed_point
#print axioms Tx3.C05_fixed_point
#print axioms Tx3.resolveLoop_stable
#print axioms Tx3.C05_stable
#print axioms Tx3.C05_fee_written
#print axioms Tx3.C05_fee_chain
#print axioms Tx3.C05_fee_estimate_exact
