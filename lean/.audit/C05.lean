import Tx3Proofs.C05
#print axioms Tx3.resolveLoop_fixed_point
#print axioms Tx3.C05_fixed_point
#print axioms Tx3.resolveLoop_stable
#print axioms Tx3.C05_stable
