import Tx3Proofs.C16
import Tx3Proofs.C16Int
import Tx3Proofs.C16Ref
import Tx3Proofs.C16Exact
import Tx3Proofs.C16Bool
#print axioms Tx3.Json.C16_hex_roundtrip
#print axioms Tx3.Json.C16_hexToBytes_plain
#print axioms Tx3.Json.C16_hexToBytes_prefixed
#print axioms Tx3.Json.C16_bool
#print axioms Tx3.Json.C16_fromJson_total
#print axioms Tx3.Json.C16_request_args
#print axioms Tx3.Json.parseNatChars_natDigits
#print axioms Tx3.Json.C16_int_decimal
#print axioms Tx3.Json.ofBE16_toBE16
#print axioms Tx3.Json.C16_int_hex16
#print axioms Tx3.Json.C16_utxo_ref_roundtrip
#print axioms Tx3.Json.go_exact
#print axioms Tx3.Json.C16_request_args_exact
#print axioms Tx3.Json.C16_argument_overrides_env
#print axioms Tx3.Json.C16_bool_only
#print axioms Tx3.Json.C16_number_not_bool
#print axioms Tx3.Json.C16_utxo_ref_index_fits
