import Tx3Proofs.C16
#print axioms Tx3.Json.C16_hex_roundtrip
#print axioms Tx3.Json.C16_hexToBytes_plain
#print axioms Tx3.Json.C16_hexToBytes_prefixed
#print axioms Tx3.Json.C16_bool
#print axioms Tx3.Json.C16_fromJson_total
#print axioms Tx3.Json.C16_request_args
