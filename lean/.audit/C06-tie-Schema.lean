import Tx3Proofs.Tie.Schema
#print axioms Tx3.Tie.traversals_cover
#print axioms Tx3.Tie.carriers_have_traversals
