import Tx3Proofs.C19
#print axioms Tx3.Peg.engine_inv
#print axioms Tx3.Front.C19_pairs_within_input
#print axioms Tx3.Front.C19_tx3_pairs_within_input
#print axioms Tx3.Front.C19_error_at_within
#print axioms Tx3.Front.C19_parse_error_within
#print axioms Tx3.Front.C19_source_span
#print axioms Tx3.Front.C19_text_of_pair
