import Tx3Proofs.C06
import Tx3Proofs.C06Reduce
import Tx3Proofs.C06Lower
import Tx3Proofs.C06Partial
import Tx3Proofs.C06LowerAdhoc
#print axioms Tx3.Expr.C06_reported_complete
#print axioms Tx3.Expr.C06_closes
#print axioms Tx3.C06_tx_closes
#print axioms Tx3.C06_tx_reported_complete
#print axioms Tx3.C06_missing_arg
#print axioms Tx3.C06_no_missing_arg
#print axioms Tx3.reduce_closed
#print axioms Tx3.C06_reduce_keeps_closed
#print axioms Tx3.C06_closes_after_reduce
#print axioms Tx3.Expr.fresh_sealed
#print axioms Tx3.Expr.fresh_WF
#print axioms Tx3.Lang.lower_fresh
#print axioms Tx3.Lang.lowerTx_fresh
#print axioms Tx3.Lang.lowerTx_sealed_WF
#print axioms Tx3.Expr.C06_args_in_rounds
#print axioms Tx3.C06_tx_args_in_rounds
#print axioms Tx3.C06_rounds_pending
#print axioms Tx3.Lang.lowerDirective_all
#print axioms Tx3.Lang.lowerTxFull_fresh
#print axioms Tx3.Lang.lowerTxFull_sealed_WF
