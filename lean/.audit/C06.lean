import Tx3Proofs.C06
#print axioms Tx3.Expr.C06_reported_complete
#print axioms Tx3.Expr.C06_closes
#print axioms Tx3.C06_tx_closes
#print axioms Tx3.C06_tx_reported_complete
#print axioms Tx3.C06_missing_arg
#print axioms Tx3.C06_no_missing_arg
