import Tx3Proofs.C06
import Tx3Proofs.C06Reduce
#print axioms Tx3.Expr.C06_reported_complete
#print axioms Tx3.Expr.C06_closes
#print axioms Tx3.C06_tx_closes
#print axioms Tx3.C06_tx_reported_complete
#print axioms Tx3.C06_missing_arg
#print axioms Tx3.C06_no_missing_arg
#print axioms Tx3.reduce_closed
#print axioms Tx3.C06_reduce_keeps_closed
#print axioms Tx3.C06_closes_after_reduce
