import Tx3Proofs.C08
#print axioms Tx3.indexOf?_get
#print axioms Tx3.C08_spend_sound
#print axioms Tx3.insertRedeemer_keeps
#print axioms Tx3.insertRedeemer_present
#print axioms Tx3.C08_map_exact
