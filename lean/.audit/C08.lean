import Tx3Proofs.C08
import Tx3Proofs.C08Lang
import Tx3Proofs.C01Map
#print axioms Tx3.indexOf?_get
#print axioms Tx3.C08_spend_sound
#print axioms Tx3.insertRedeemer_keeps
#print axioms Tx3.insertRedeemer_present
#print axioms Tx3.C08_map_exact
#print axioms Tx3.policies_sound
#print axioms Tx3.C08_mint_sound
#print axioms Tx3.C08_reward_sound
#print axioms Tx3.C08_redeemers_sound
#print axioms Tx3.Lang.C08_redeemer_position_immaterial
#print axioms Tx3.Lang.C08_policy_name_as_data
#print axioms Tx3.Lang.C01_map_literal
