import Tx3Model.Reduce
import Tx3Proofs.Lemmas.Outcome

/-!
# C07 — the lists of a transaction are lists, for every stage and every reduction

Signers, references, inputs, outputs, mints, burns, metadata, collateral and directives are *lists*: whatever a
stage or a reduction does to their entries, it does entry by entry - none is dropped, merged or reordered, whether or
not two of them have become equal on the way.  Proved for the model's `Tx.mapM` (the shape of `Tx::reduce` and of the
compiler-op pass) and `Tx.map` (the substitution stages): every list keeps its length, and the i-th entry of the
result is the image of the i-th entry.  (The twin sweep of C07's check looks for the opposite in the real crates.)
-/

namespace Tx3
open Outcome

theorem mapMO_length {α β} (f : α → Outcome β) : ∀ (xs : List α) (ys : List β), mapMO f xs = .ok ys →
    ys.length = xs.length
  | [], ys, h => by simp [mapMO] at h; subst h; rfl
  | x :: xs, ys, h => by
    simp only [mapMO] at h
    obtain ⟨y, _, h⟩ := bind_eq_ok.mp h
    obtain ⟨ys', hys, h⟩ := bind_eq_ok.mp h
    simp only [pure_eq_ok, Outcome.ok.injEq] at h
    subst h
    simp [mapMO_length f xs ys' hys]

theorem mapMO_getElem {α β} (f : α → Outcome β) : ∀ (xs : List α) (ys : List β), mapMO f xs = .ok ys →
    ∀ (i : Nat) (x : α), xs[i]? = some x → ∃ y, ys[i]? = some y ∧ f x = .ok y
  | [], _, _, i, x, hx => by simp at hx
  | x0 :: xs, ys, h, i, x, hx => by
    simp only [mapMO] at h
    obtain ⟨y0, hy0, h⟩ := bind_eq_ok.mp h
    obtain ⟨ys', hys, h⟩ := bind_eq_ok.mp h
    simp only [pure_eq_ok, Outcome.ok.injEq] at h
    subst h
    cases i with
    | zero => simp at hx; subst hx; exact ⟨y0, by simp, hy0⟩
    | succ j =>
      simp only [List.getElem?_cons_succ] at hx ⊢
      exact mapMO_getElem f xs ys' hys j x hx

/-- **Every list keeps its length** under anything of the shape of `Tx::reduce` (a fallible function applied to every
slot): reduction, the compiler-op pass. -/
theorem C07_lists_keep_their_length (f : Expr → Outcome Expr) (t t' : Tx) (h : t.mapM f = .ok t') :
    t'.references.length = t.references.length ∧ t'.inputs.length = t.inputs.length ∧
    t'.outputs.length = t.outputs.length ∧ t'.mints.length = t.mints.length ∧ t'.burns.length = t.burns.length ∧
    t'.adhoc.length = t.adhoc.length ∧ t'.collateral.length = t.collateral.length ∧
    t'.metadata.length = t.metadata.length ∧
    (t'.signers.map List.length) = (t.signers.map List.length) := by
  unfold Tx.mapM at h
  obtain ⟨references, hr, h⟩ := bind_eq_ok.mp h
  obtain ⟨inputs, hi, h⟩ := bind_eq_ok.mp h
  obtain ⟨outputs, ho, h⟩ := bind_eq_ok.mp h
  obtain ⟨validity, _, h⟩ := bind_eq_ok.mp h
  obtain ⟨mints, hm, h⟩ := bind_eq_ok.mp h
  obtain ⟨burns, hb, h⟩ := bind_eq_ok.mp h
  obtain ⟨fees, _, h⟩ := bind_eq_ok.mp h
  obtain ⟨adhoc, ha, h⟩ := bind_eq_ok.mp h
  obtain ⟨collateral, hc, h⟩ := bind_eq_ok.mp h
  obtain ⟨signers, hs, h⟩ := bind_eq_ok.mp h
  obtain ⟨metadata, hmd, h⟩ := bind_eq_ok.mp h
  simp only [pure_eq_ok, Outcome.ok.injEq] at h
  subst h
  refine ⟨mapMO_length _ _ _ hr, mapMO_length _ _ _ hi, mapMO_length _ _ _ ho, mapMO_length _ _ _ hm,
    mapMO_length _ _ _ hb, mapMO_length _ _ _ ha, mapMO_length _ _ _ hc, mapMO_length _ _ _ hmd, ?_⟩
  cases hts : t.signers with
  | none => rw [hts] at hs; cases hs; rfl
  | some s =>
    rw [hts] at hs
    obtain ⟨s', hs', hs⟩ := bind_eq_ok.mp hs
    cases hs
    simp [mapMO_length _ _ _ hs']

/-- **Entry by entry**: the i-th signer (reference, collateral, directive) of the result is the image of the i-th
signer of the template. -/
theorem C07_signers_entrywise (f : Expr → Outcome Expr) (t t' : Tx) (h : t.mapM f = .ok t')
    (s : List Expr) (hs : t.signers = some s) (i : Nat) (x : Expr) (hx : s[i]? = some x) :
    ∃ s' y, t'.signers = some s' ∧ s'[i]? = some y ∧ f x = .ok y := by
  unfold Tx.mapM at h
  obtain ⟨references, _, h⟩ := bind_eq_ok.mp h
  obtain ⟨inputs, _, h⟩ := bind_eq_ok.mp h
  obtain ⟨outputs, _, h⟩ := bind_eq_ok.mp h
  obtain ⟨validity, _, h⟩ := bind_eq_ok.mp h
  obtain ⟨mints, _, h⟩ := bind_eq_ok.mp h
  obtain ⟨burns, _, h⟩ := bind_eq_ok.mp h
  obtain ⟨fees, _, h⟩ := bind_eq_ok.mp h
  obtain ⟨adhoc, _, h⟩ := bind_eq_ok.mp h
  obtain ⟨collateral, _, h⟩ := bind_eq_ok.mp h
  obtain ⟨signers, hsig, h⟩ := bind_eq_ok.mp h
  obtain ⟨metadata, _, h⟩ := bind_eq_ok.mp h
  simp only [pure_eq_ok, Outcome.ok.injEq] at h
  subst h
  rw [hs] at hsig
  obtain ⟨s', hs', hsig⟩ := bind_eq_ok.mp hsig
  cases hsig
  obtain ⟨y, hy, hf⟩ := mapMO_getElem f s s' hs' i x hx
  exact ⟨s', y, rfl, hy, hf⟩

/-- The substitution stages are plain maps: every list keeps its entries in place. -/
theorem C07_stage_keeps_lists (g : Expr → Expr) (t : Tx) :
    (t.map g).references = t.references.map g ∧ (t.map g).collateral = t.collateral.map g ∧
    (t.map g).adhoc = t.adhoc.map g ∧ (t.map g).signers = t.signers.map (·.map g) ∧
    (t.map g).outputs.length = t.outputs.length ∧ (t.map g).inputs.length = t.inputs.length ∧
    (t.map g).metadata.length = t.metadata.length := by
  simp [Tx.map]

end Tx3
