import Tx3Proofs.Lemmas.Tir

/-!
# C07 — staged application is order-independent and reduction is idempotent

Proved here: the three substitution stages commute *syntactically* — applying arguments,
input UTxOs and fees in any of the six orders yields the very same tree (not merely the same
value), for every expression and every transaction.  The clauses that involve `reduce` and
the compiler pass (`C07_reduce_*`, schedules with interleaved reductions) are stated in
`C07Reduce.lean` as far as they are proved; the rest is decided per case by running every
schedule on the real crates and comparing canonical results (see DESIGN.md §6 C07).
-/

namespace Tx3
namespace Expr

theorem args_fees_aux (σ : ArgMap) (f : Int) :
    (∀ e : Expr, applyArgs σ (applyFees f e) = applyFees f (applyArgs σ e)) ∧
    (∀ es : List Expr, applyArgsL σ (applyFeesL f es) = applyFeesL f (applyArgsL σ es)) := by
  apply Expr.induct
  · intro l; simp [applyArgs, applyFees]
  · intro k cs ih
    cases k with
    | param p =>
      cases p with
      | set => simp [applyArgs, applyFees]
      | expectValue name ty =>
        cases hl : lookupS σ name <;> simp [applyArgs, applyFees, hl]
      | expectInput name many coll => simp [applyArgs, applyFees, ih]
      | expectFees => simp [applyArgs, applyFees, feeExpr]
    | utxoSet m => simp [applyArgs, applyFees]
    | list | map | tuple | struct | assets | builtin | compiler | coerce | adhoc =>
      simp [applyArgs, applyFees, ih]
  · simp
  · intro c cs ihc ihcs; simp [ihc, ihcs]

theorem args_inputs_aux (σ : ArgMap) (ι : InputMap) :
    (∀ e : Expr, applyArgs σ (applyInputs ι e) = applyInputs ι (applyArgs σ e)) ∧
    (∀ es : List Expr, applyArgsL σ (applyInputsL ι es) = applyInputsL ι (applyArgsL σ es)) := by
  apply Expr.induct
  · intro l; simp [applyArgs, applyInputs]
  · intro k cs ih
    cases k with
    | param p =>
      cases p with
      | set => simp [applyArgs, applyInputs]
      | expectValue name ty =>
        cases hl : lookupS σ name <;> simp [applyArgs, applyInputs, hl]
      | expectInput name many coll =>
        cases hl : lookupS ι name <;> simp [applyArgs, applyInputs, hl]
      | expectFees => simp [applyArgs, applyInputs]
    | utxoSet m => simp [applyArgs, applyInputs]
    | list | map | tuple | struct | assets | builtin | compiler | coerce | adhoc =>
      simp [applyArgs, applyInputs, ih]
  · simp
  · intro c cs ihc ihcs; simp [ihc, ihcs]

theorem fees_inputs_aux (f : Int) (ι : InputMap) :
    (∀ e : Expr, applyFees f (applyInputs ι e) = applyInputs ι (applyFees f e)) ∧
    (∀ es : List Expr, applyFeesL f (applyInputsL ι es) = applyInputsL ι (applyFeesL f es)) := by
  apply Expr.induct
  · intro l; simp [applyFees, applyInputs]
  · intro k cs ih
    cases k with
    | param p =>
      cases p with
      | set => simp [applyFees, applyInputs]
      | expectValue name ty => simp [applyFees, applyInputs]
      | expectInput name many coll =>
        cases hl : lookupS ι name <;> simp [applyFees, applyInputs, hl]
      | expectFees => simp [applyFees, applyInputs, feeExpr]
    | utxoSet m => simp [applyFees, applyInputs]
    | list | map | tuple | struct | assets | builtin | compiler | coerce | adhoc =>
      simp [applyFees, applyInputs, ih]
  · simp
  · intro c cs ihc ihcs; simp [ihc, ihcs]

theorem C07_args_fees (σ : ArgMap) (f : Int) (e : Expr) :
    applyArgs σ (applyFees f e) = applyFees f (applyArgs σ e) := (args_fees_aux σ f).1 e
theorem C07_args_inputs (σ : ArgMap) (ι : InputMap) (e : Expr) :
    applyArgs σ (applyInputs ι e) = applyInputs ι (applyArgs σ e) := (args_inputs_aux σ ι).1 e
theorem C07_fees_inputs (f : Int) (ι : InputMap) (e : Expr) :
    applyFees f (applyInputs ι e) = applyInputs ι (applyFees f e) := (fees_inputs_aux f ι).1 e

end Expr

theorem Tx.map_map (f g : Expr → Expr) (t : Tx) : (t.map f).map g = t.map (g ∘ f) := by
  cases t with
  | mk fees refs ins outs val mints burns adhoc coll signers md =>
    cases val <;> cases signers <;>
      simp [Tx.map, List.map_map, Option.map_map, Function.comp_def]

/-- A substitution stage of the pipeline. -/
inductive Stage where
  | args (σ : ArgMap)
  | inputs (ι : InputMap)
  | fees (f : Int)

def Stage.onExpr : Stage → Expr → Expr
  | .args σ => Expr.applyArgs σ
  | .inputs ι => Expr.applyInputs ι
  | .fees f => Expr.applyFees f

def Stage.onTx (s : Stage) (t : Tx) : Tx := t.map s.onExpr

/-- Two stages of different kinds commute on every expression. -/
theorem Stage.commute_expr (s₁ s₂ : Stage) (e : Expr)
    (hk : ∀ a b, ¬ (s₁ = .args a ∧ s₂ = .args b)) (hk' : ∀ a b, ¬ (s₁ = .inputs a ∧ s₂ = .inputs b))
    (hk'' : ∀ a b, ¬ (s₁ = .fees a ∧ s₂ = .fees b)) :
    s₁.onExpr (s₂.onExpr e) = s₂.onExpr (s₁.onExpr e) := by
  cases s₁ <;> cases s₂ <;> simp only [Stage.onExpr]
  · exact absurd ⟨rfl, rfl⟩ (hk _ _)
  · exact Expr.C07_args_inputs _ _ e
  · exact Expr.C07_args_fees _ _ e
  · exact (Expr.C07_args_inputs _ _ e).symm
  · exact absurd ⟨rfl, rfl⟩ (hk' _ _)
  · exact (Expr.C07_fees_inputs _ _ e).symm
  · exact (Expr.C07_args_fees _ _ e).symm
  · exact Expr.C07_fees_inputs _ _ e
  · exact absurd ⟨rfl, rfl⟩ (hk'' _ _)

/-- **The substitution stages commute on transactions**: arguments, inputs and fees applied in
any of the six orders give the identical template. -/
theorem C07_apply_commute (σ : ArgMap) (ι : InputMap) (f : Int) (t : Tx) :
    let A := Tx.applyArgs σ; let I := Tx.applyInputs ι; let F := Tx.applyFees f
    A (I (F t)) = A (F (I t)) ∧ A (F (I t)) = I (A (F t)) ∧ I (A (F t)) = I (F (A t)) ∧
    I (F (A t)) = F (A (I t)) ∧ F (A (I t)) = F (I (A t)) := by
  simp only [Tx.applyArgs, Tx.applyInputs, Tx.applyFees, Tx.map_map]
  have h1 : ∀ e, (Expr.applyInputs ι ∘ Expr.applyFees f) e = (Expr.applyFees f ∘ Expr.applyInputs ι) e :=
    fun e => (Expr.C07_fees_inputs f ι e).symm
  have h2 : ∀ e, (Expr.applyArgs σ ∘ Expr.applyFees f) e = (Expr.applyFees f ∘ Expr.applyArgs σ) e :=
    fun e => Expr.C07_args_fees σ f e
  have h3 : ∀ e, (Expr.applyArgs σ ∘ Expr.applyInputs ι) e = (Expr.applyInputs ι ∘ Expr.applyArgs σ) e :=
    fun e => Expr.C07_args_inputs σ ι e
  refine ⟨?_, ?_, ?_, ?_, ?_⟩ <;> congr 1 <;> funext e <;>
    simp only [Function.comp] <;>
    simp only [Expr.C07_args_fees, Expr.C07_args_inputs, Expr.C07_fees_inputs]

/-! ## Non-vacuity -/

example : Expr.applyArgs [("q", .leaf (.number 5))]
      (Expr.applyFees 7 (.node (.builtin .add) [.node (.param (.expectValue "q" .int)) [],
        .node (.param .expectFees) []]))
    = .node (.builtin .add) [.node (.param .set) [.leaf (.number 5)], Expr.feeExpr 7] := by
  simp [Expr.applyArgs, Expr.applyFees, Expr.applyArgsL, Expr.applyFeesL, lookupS, Expr.feeExpr]

end Tx3
