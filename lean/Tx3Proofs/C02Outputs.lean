import Tx3Proofs.Lemmas.Compile

/-!
# C02 — output amounts are exact (for entries inside their ledger range)

For an output whose asset list holds number literals with non-negative amounts (lovelace entries
below 2^64): if compilation of the output succeeds, its coin is exactly the sum of the lovelace
entries and, for every asset class, its quantity is exactly the sum of the entries of that class —
no entry is dropped, wrapped or attributed to another class — and every emitted number fits 64 bits
(a total that does not fit makes compilation fail: `aggregateOutput`'s guard).  The two ways out of
the hypothesis are the recorded findings (`C02_negative_lovelace_wraps`, `C02_negative_asset_dropped`
in `C02.lean`).
-/

namespace Tx3
open Outcome

/-- The number literal in the amount position, if it is one. -/
def amountOf : Expr → Option Int
  | .leaf (.number n) => some n
  | _ => none

/-- Σ of the lovelace entries (policy `None`). -/
def lovelaceSum : List Expr → Int
  | p :: _ :: a :: rest => (if p.isNone then (amountOf a).getD 0 else 0) + lovelaceSum rest
  | _ => 0

/-- Does the entry `(p, n)` denote the class `(ph, nb)`? -/
def entryIs (p n : Expr) (ph nb : Bytes) : Bool :=
  !p.isNone && (match exprIntoBytes p, exprIntoBytes n with
    | .ok pb, .ok nb' => pb == ph && nb' == nb
    | _, _ => false)

/-- Σ of the entries of one asset class. -/
def classSum (ph nb : Bytes) : List Expr → Int
  | p :: n :: a :: rest => (if entryIs p n ph nb then (amountOf a).getD 0 else 0) + classSum ph nb rest
  | _ => 0

/-- Every entry is a number literal inside its ledger range: lovelace in `[0, 2^64)`, native
amounts non-negative. -/
def EntriesInRange : List Expr → Prop
  | p :: _ :: a :: rest =>
    (∃ v, a = .leaf (.number v) ∧ 0 ≤ v ∧ (p.isNone = true → v ≤ u64Max)) ∧ EntriesInRange rest
  | _ => True

def coinOf (vs : List CValue) : Int := (vs.map CValue.coinPart).sum

/-- What one compiled value contributes to the class `(ph, nb)`. -/
def CValue.qtyPart (ph nb : Bytes) : CValue → Int
  | .asset p n q => if p = ph ∧ n = nb then q else 0
  | _ => 0

def qtyOf (vs : List CValue) (ph nb : Bytes) : Int := (vs.map (CValue.qtyPart ph nb)).sum

/-- Total quantity a multi-asset list holds for a class (over all its entries for that class). -/
def assetQty (l : List (Bytes × Bytes × Int)) (ph nb : Bytes) : Int :=
  (l.map fun e => if e.1 = ph ∧ e.2.1 = nb then e.2.2 else 0).sum

theorem asU64_of_range {v : Int} (h0 : 0 ≤ v) (h1 : v ≤ u64Max) : asU64 v = v := by
  unfold asU64
  unfold u64Max at h1
  omega

theorem exprIntoNumberC_number (v : Int) : exprIntoNumberC (.leaf (.number v)) = .ok v := by
  simp [exprIntoNumberC, exprIntoNumber]

/-- One entry: what `compile_value` yields for an in-range entry. -/
theorem compileValue_exact {p n : Expr} {v : Int} {cv : CValue} (h0 : 0 ≤ v)
    (hl : p.isNone = true → v ≤ u64Max) (h : compileValue p n (.leaf (.number v)) = .ok cv) :
    cv.coinPart = (if p.isNone then v else 0) ∧
    ∀ ph nb, cv.qtyPart ph nb = (if entryIs p n ph nb then v else 0) := by
  unfold compileValue at h
  rw [exprIntoNumberC_number] at h
  simp only [ok_bind] at h
  by_cases hp : p.isNone = true
  · simp only [hp, if_true] at h
    cases h
    refine ⟨by simp [CValue.coinPart, hp, asU64_of_range h0 (hl hp)], ?_⟩
    intro ph nb
    simp [CValue.qtyPart, entryIs, hp]
  · simp only [hp, Bool.false_eq_true, if_false] at h
    by_cases hv : v > 0
    · simp only [hv, if_true] at h
      obtain ⟨pb, hpb, h⟩ := bind_eq_ok.mp h
      obtain ⟨ph', hph', h⟩ := bind_eq_ok.mp h
      obtain ⟨nb', hnb', h⟩ := bind_eq_ok.mp h
      obtain ⟨am, ham, h⟩ := bind_eq_ok.mp h
      obtain ⟨e1, _, _⟩ := numberIntoU64_ok ham
      rw [e1] at h
      have hne : ¬ v = 0 := by omega
      rw [if_neg hne] at h
      cases h
      have hph : ph' = pb := by
        unfold bytesIntoHash at hph'
        split at hph'
        · cases hph'; rfl
        · cases hph'
      subst hph
      refine ⟨by simp [CValue.coinPart, hp], ?_⟩
      intro ph nb
      simp only [CValue.qtyPart, entryIs, hp, Bool.not_false, Bool.true_and, hpb, hnb']
      by_cases h1 : ph' = ph <;> by_cases h2 : nb' = nb <;> simp [h1, h2]
    · simp only [hv, if_false] at h
      cases h
      have hv0 : v = 0 := by omega
      subst hv0
      refine ⟨by simp [CValue.coinPart, hp], ?_⟩
      intro ph nb
      simp [CValue.qtyPart]

/-- All entries: coin and per-class totals of the compiled values are the sums over the entries. -/
theorem compileValues_exact : ∀ (n : Nat) (cs : List Expr) (vs : List CValue), cs.length ≤ n →
    EntriesInRange cs → compileValues cs = .ok vs →
    coinOf vs = lovelaceSum cs ∧ ∀ ph nb, qtyOf vs ph nb = classSum ph nb cs := by
  intro n
  induction n with
  | zero =>
    intro cs vs hl _ h
    cases cs with
    | nil => rw [compileValues] at h; cases h; simp [coinOf, qtyOf, lovelaceSum, classSum]; intro _ _ _ _ hh; cases hh
    | cons _ _ => simp at hl
  | succ n ih =>
    intro cs vs hl hr h
    match cs with
    | [] => rw [compileValues] at h; cases h; simp [coinOf, qtyOf, lovelaceSum, classSum]; intro _ _ _ _ hh; cases hh
    | [_] => rw [compileValues] at h; cases h; simp [coinOf, qtyOf, lovelaceSum, classSum]; intro _ _ _ _ hh; cases hh
    | [_, _] => rw [compileValues] at h; cases h; simp [coinOf, qtyOf, lovelaceSum, classSum]; intro _ _ _ _ hh; cases hh
    | p :: nm :: a :: rest =>
      rw [compileValues] at h
      obtain ⟨cv, hcv, h⟩ := bind_eq_ok.mp h
      obtain ⟨vs', hvs', h⟩ := bind_eq_ok.mp h
      cases h
      obtain ⟨⟨v, ha, h0, hlv⟩, hrest⟩ := hr
      subst ha
      obtain ⟨e1, e2⟩ := compileValue_exact h0 hlv hcv
      obtain ⟨i1, i2⟩ := ih rest vs' (by simp at hl; omega) hrest hvs'
      refine ⟨?_, ?_⟩
      · simp only [coinOf, List.map_cons, List.sum_cons, lovelaceSum, amountOf, Option.getD_some]
        rw [e1]
        unfold coinOf at i1
        rw [i1]
      · intro ph nb
        simp only [qtyOf, List.map_cons, List.sum_cons, classSum, amountOf, Option.getD_some]
        rw [e2 ph nb]
        have := i2 ph nb
        unfold qtyOf at this
        rw [this]

theorem assetQty_insertAsset (p n : Bytes) (q : Int) (ph nb : Bytes) :
    ∀ l : List (Bytes × Bytes × Int),
      assetQty (insertAsset p n q l) ph nb = assetQty l ph nb + (if p = ph ∧ n = nb then q else 0) := by
  intro l
  induction l with
  | nil => simp [insertAsset, assetQty]
  | cons e rest ih =>
    obtain ⟨p', n', q'⟩ := e
    rw [insertAsset]
    by_cases h1 : p = p' ∧ n = n'
    · simp only [h1, and_self, if_true]
      obtain ⟨rfl, rfl⟩ := h1
      simp only [assetQty, List.map_cons, List.sum_cons]
      by_cases h2 : p = ph ∧ n = nb
      · simp [h2]; omega
      · simp [h2]
    · simp only [h1, if_false]
      split
      · simp only [assetQty, List.map_cons, List.sum_cons]
        by_cases h2 : p = ph ∧ n = nb <;> simp [h2] <;> omega
      · have := ih
        simp only [assetQty, List.map_cons, List.sum_cons] at this ⊢
        rw [this]; omega

theorem assetQty_fold (ph nb : Bytes) : ∀ (vs : List CValue) (acc : List (Bytes × Bytes × Int)),
    assetQty (vs.foldl CValue.addTo acc) ph nb =
      assetQty acc ph nb + qtyOf vs ph nb := by
  intro vs
  induction vs with
  | nil => intro acc; simp [qtyOf]
  | cons v vs ih =>
    intro acc
    rw [List.foldl_cons, ih]
    cases v with
    | coin c => simp [qtyOf, CValue.addTo, CValue.qtyPart]
    | asset p n q =>
      simp only [CValue.addTo, assetQty_insertAsset, qtyOf, List.map_cons, List.sum_cons, CValue.qtyPart]
      omega

/-- **C02 (output exactness, partial: in-range entries).** -/
theorem C02_output_exact_partial {env : CompileEnv} {address amount : Expr} {datum : Option Expr}
    {o : AOutput} {cs : List Expr} (h : compileOutputCore env address amount datum = .ok o)
    (hc : exprIntoAssets amount = .ok cs) (hr : EntriesInRange cs) :
    o.coin = lovelaceSum cs ∧ (∀ ph nb, assetQty o.assets ph nb = classSum ph nb cs) ∧
    o.coin ≤ u64Max ∧ ∀ a ∈ o.assets, a.2.2 ≤ u64Max := by
  unfold compileOutputCore at h
  obtain ⟨addr, _, h⟩ := bind_eq_ok.mp h
  obtain ⟨cs', hcs', h⟩ := bind_eq_ok.mp h
  rw [hc] at hcs'; cases hcs'
  obtain ⟨vs, hvs, h⟩ := bind_eq_ok.mp h
  obtain ⟨⟨coin, assets⟩, hagg, h⟩ := bind_eq_ok.mp h
  obtain ⟨d, _, h⟩ := bind_eq_ok.mp h
  cases h
  obtain ⟨e1, e2⟩ := compileValues_exact cs.length cs vs (Nat.le_refl _) hr hvs
  unfold aggregateOutput at hagg
  simp only at hagg
  split at hagg
  · cases hagg
  · rename_i hguard
    cases hagg
    simp only [Bool.or_eq_true, decide_eq_true_eq, List.any_eq_true, not_or, not_exists, not_and, Int.not_lt] at hguard
    refine ⟨e1, ?_, hguard.1, fun a ha => hguard.2 a ha⟩
    intro ph nb
    have := assetQty_fold ph nb vs []
    simp only [assetQty, List.map_nil, List.sum_nil, Int.zero_add] at this
    simp only [assetQty]
    rw [this, e2 ph nb]

/-- The same for an output block of a template, as `compile_output_block` compiles it. -/
theorem C02_output_block_exact {env : CompileEnv} {o : Output} {ao : AOutput} {cs : List Expr}
    (h : compileOutputBlock env o = .ok ao) (hc : exprIntoAssets o.amount = .ok cs) (hr : EntriesInRange cs) :
    ao.coin = lovelaceSum cs ∧ (∀ ph nb, assetQty ao.assets ph nb = classSum ph nb cs) ∧
    ao.coin ≤ u64Max ∧ ∀ a ∈ ao.assets, a.2.2 ≤ u64Max :=
  C02_output_exact_partial (by unfold compileOutputBlock at h; exact h) hc hr

/-- Non-vacuity: an in-range asset list with a lovelace and a token entry. -/
example : EntriesInRange [.leaf .none, .leaf .none, .leaf (.number 5),
    .leaf (.bytes (List.replicate 28 1)), .leaf (.bytes [65]), .leaf (.number 7)] := by
  refine ⟨⟨5, rfl, by decide, fun _ => by decide⟩, ⟨7, rfl, by decide, fun h => by simp [Expr.isNone] at h⟩, trivial⟩

end Tx3
