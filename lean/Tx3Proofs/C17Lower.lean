import Tx3Model.LangLower
import Tx3Model.SpecTir
import Tx3Model.Tii
import Tx3Proofs.Lemmas.Outcome
import Tx3Proofs.Lemmas.Tir
import Tx3Proofs.C06Lower
import Tx3Proofs.C17

/-!
# C17 — the names the lowered IR requires stem from declared names

`C17_required_are_declared` takes as a hypothesis that every name the IR requires is the lower-cased form of a
declared parameter, party or environment key.  Here that hypothesis is *proved* for the lowering model: whatever
`lowerTx` produces - for every program, transaction and fuel - holds a value placeholder only under the lower-cased
name of a transaction parameter, a party or an environment key that the scope declares, so the keys the interface
file lists (`interfaceOf`) cover everything `find_params` can report on the shipped IR.
-/

namespace Tx3
open Outcome Expr

namespace Expr

def Kind.declAt (D : List String) (k : Kind) : Bool :=
  match k with
  | .param (.expectValue n _) => D.contains n
  | _ => true

mutual
/-- Every value placeholder carries a name of `D`. -/
def declb (D : List String) : Expr → Bool
  | leaf _ => true
  | node k cs => Kind.declAt D k && declbL D cs
def declbL (D : List String) : List Expr → Bool
  | [] => true
  | c :: cs => declb D c && declbL D cs
end

variable {D : List String}

theorem declb_leaf (l : Leaf) : declb D (.leaf l) = true := by simp [declb]

theorem declb_node {k : Kind} {cs : List Expr} (hk : Kind.declAt D k = true) (h : declbL D cs = true) :
    declb D (.node k cs) = true := by simp [declb, hk, h]

theorem declbL_of_forall {cs : List Expr} (h : ∀ c ∈ cs, declb D c = true) : declbL D cs = true := by
  induction cs with
  | nil => simp [declbL]
  | cons c cs ih =>
    simp only [declbL, Bool.and_eq_true]
    exact ⟨h c (by simp), ih (fun x hx => h x (by simp [hx]))⟩

/-- The independent walk of C06 finds a value placeholder only under a name of `D`. -/
theorem declb_unresolved_aux :
    (∀ e : Expr, declb D e = true → ∀ n, PRef.value n ∈ unresolved e → n ∈ D) ∧
    (∀ es : List Expr, declbL D es = true → ∀ n, PRef.value n ∈ unresolvedL es → n ∈ D) := by
  apply Expr.induct
  · intro l _ n h; simp at h
  · intro k cs ih hd n h
    simp only [declb, Bool.and_eq_true] at hd
    rw [unresolved_node] at h
    simp only [List.mem_append, Option.mem_toList] at h
    rcases h with h | h
    · cases k with
      | param p =>
        cases p with
        | expectValue name ty =>
          simp [Kind.pref?] at h
          subst h
          simpa [Kind.declAt] using hd.1
        | set | expectInput | expectFees => simp [Kind.pref?] at h
      | utxoSet | list | map | tuple | struct | assets | builtin | compiler | coerce | adhoc => simp [Kind.pref?] at h
    · exact ih hd.2 n h
  · intro _ n h; simp at h
  · intro c cs ihc ihcs hd n h
    simp only [declbL, Bool.and_eq_true] at hd
    simp only [unresolvedL_cons, List.mem_append] at h
    rcases h with h | h
    · exact ihc hd.1 n h
    · exact ihcs hd.2 n h

end Expr

namespace Lang
open Tx3.Expr

/-- What a scope declares: the transaction's parameters, the parties, the environment keys. -/
def declared (s : Scope) : List String :=
  s.tx.params.map (·.1) ++ s.prog.parties ++ s.prog.env.map (·.1)

theorem lastWith_some {α β} (l : List α) (f : α → Option β) (b : β) (h : lastWith l f = some b) :
    ∃ a ∈ l, f a = some b := by
  unfold lastWith at h
  have : ∀ (l : List α) (acc : Option β),
      l.foldl (fun acc a => match f a with | some b => some b | none => acc) acc = some b →
      acc = some b ∨ ∃ a ∈ l, f a = some b := by
    intro l
    induction l with
    | nil => intro acc h; exact Or.inl h
    | cons a l ih =>
      intro acc h
      simp only [List.foldl_cons] at h
      rcases ih _ h with h' | ⟨a', ha', hf⟩
      · cases hfa : f a with
        | none => simp [hfa] at h'; exact Or.inl h'
        | some b' => simp [hfa] at h'; subst h'; exact Or.inr ⟨a, by simp, hfa⟩
      · exact Or.inr ⟨a', by simp [ha'], hf⟩
  rcases this l none h with h' | h'
  · cases h'
  · exact h'

variable {D : List String}

theorem decl_paramValue (n : String) (t : Ty) (h : n.toLower ∈ D) : declb D (paramValue n t) = true := by
  simp [paramValue, declb, Kind.declAt, declbL, h]

theorem decl_builtin (b : BKind) {cs : List Expr} (h : declbL D cs = true) : declb D (builtin b cs) = true := by
  simp [builtin, declb, Kind.declAt, h]

theorem decl_none' : declb D none' = true := by simp [none', declb]

/-- The three symbol kinds that lower to a value placeholder resolve to names of `D`. -/
def NamesIn (s : Scope) (D : List String) : Prop :=
  (∀ x n ty, resolve s x = some (.param n ty) → n.toLower ∈ D) ∧
  (∀ x n ty, resolve s x = some (.envVar n ty) → n.toLower ∈ D) ∧
  (∀ x n, resolve s x = some (.party n) → n.toLower ∈ D)

/-- **Every value placeholder lowering writes carries a declared name**, for every source expression, list, input
block, context and fuel. -/
theorem lower_decl (s : Scope) (hD : NamesIn s D) : ∀ n : Nat,
    (∀ ctx e t, lowerE s n ctx e = .ok t → declb D t = true) ∧
    (∀ ctx es ts, lowerL s n ctx es = .ok ts → declbL D ts = true) ∧
    (∀ ctx b t, lowerInput s n ctx b = .ok t → declb D t = true) := by
  intro n
  induction n with
  | zero =>
    refine ⟨?_, ?_, ?_⟩
    · intro ctx e t h; simp [lowerE, lerr] at h
    · intro ctx es ts h; simp [lowerL, lerr] at h
    · intro ctx b t h; simp [lowerInput, lerr] at h
  | succ n ih =>
    obtain ⟨ihE, ihL, ihI⟩ := ih
    have two : ∀ {x y : Expr}, declb D x = true → declb D y = true → declbL D [x, y] = true := by
      intro x y hx hy; simp [declbL, hx, hy]
    have one : ∀ {x : Expr}, declb D x = true → declbL D [x] = true := by
      intro x hx; simp [declbL, hx]
    refine ⟨?_, ?_, ?_⟩
    · intro ctx e t h
      rw [lowerE.eq_def] at h
      simp only at h
      have fE : ∀ {c : Ctx} {x : LExpr} {y : Expr}, lowerE s n c x = .ok y → declb D y = true := fun hh => ihE _ _ _ hh
      split at h
      · cases h; exact declb_leaf _
      · cases h; exact declb_leaf _
      · cases h; exact declb_leaf _
      · split at h
        · cases h; exact declb_leaf _
        · simp [lerr] at h
      · cases h; simp [declb, Kind.declAt, declbL]
      · split at h
        · cases h; exact declb_leaf _
        · simp [lerr] at h
      · -- identifiers
        split at h
        · simp [lerr] at h
        · split at h
          · simp [lerr] at h
          · cases h; exact decl_paramValue _ _ (hD.1 _ _ _ (by assumption))
          · cases h; exact decl_paramValue _ _ (hD.2.1 _ _ _ (by assumption))
          · cases h; exact decl_paramValue _ _ (hD.2.2 _ _ (by assumption))
          · exact fE h
          · cases h; simp [declb, Kind.declAt, declbL]
          · cases h; exact declb_leaf _
          · split at h
            · split at h
              · cases h; simp [declb, Kind.declAt, declbL]
              · cases h; exact declb_leaf _
            · simp [lerr] at h
          · obtain ⟨q, hq, h⟩ := bind_eq_ok.mp h
            have hq' := ihI _ _ _ hq
            split at h
            · cases h; simp [declb, Kind.declAt, declbL, hq']
            · split at h
              · cases h; simp [declb, Kind.declAt, declbL, hq']
              · cases h; exact hq'
          · simp [lerr] at h
      · obtain ⟨x, hx, h⟩ := bind_eq_ok.mp h
        obtain ⟨y, hy, h⟩ := bind_eq_ok.mp h
        cases h; exact decl_builtin _ (two (fE hx) (fE hy))
      · obtain ⟨x, hx, h⟩ := bind_eq_ok.mp h
        obtain ⟨y, hy, h⟩ := bind_eq_ok.mp h
        cases h; exact decl_builtin _ (two (fE hx) (fE hy))
      · obtain ⟨x, hx, h⟩ := bind_eq_ok.mp h
        obtain ⟨y, hy, h⟩ := bind_eq_ok.mp h
        cases h; exact decl_builtin _ (two (fE hx) (fE hy))
      · obtain ⟨x, hx, h⟩ := bind_eq_ok.mp h
        cases h; exact decl_builtin _ (one (fE hx))
      · -- property access
        obtain ⟨obj, hobj, h⟩ := bind_eq_ok.mp h
        split at h
        · simp [lerr] at h
        · split at h
          · cases h; exact decl_builtin _ (two (fE hobj) (declb_leaf _))
          · simp [lerr] at h
      · -- indexing
        obtain ⟨obj, hobj, h⟩ := bind_eq_ok.mp h
        split at h
        · split at h
          · obtain ⟨ix, hix, h⟩ := bind_eq_ok.mp h
            cases h; exact decl_builtin _ (two (fE hobj) (fE hix))
          · simp [lerr] at h
        · simp [lerr] at h
        · simp [lerr] at h
      · obtain ⟨xs, hxs, h⟩ := bind_eq_ok.mp h
        cases h; exact declb_node rfl (ihL _ _ _ hxs)
      · obtain ⟨xs, hxs, h⟩ := bind_eq_ok.mp h
        cases h; exact declb_node rfl (ihL _ _ _ hxs)
      · -- record constructors
        split at h
        · simp [lerr] at h
        · split at h
          · simp [lerr] at h
          · split at h
            · simp [lerr] at h
            · obtain ⟨fields, hf, h⟩ := bind_eq_ok.mp h
              cases h
              refine declb_node rfl (declbL_of_forall (mapMO_all _ _ hf (fun fi _ y hy => ?_)))
              split at hy
              · exact fE hy
              · split at hy
                · obtain ⟨t', ht', hy⟩ := bind_eq_ok.mp hy
                  cases hy; exact decl_builtin _ (two (fE ht') (declb_leaf _))
                · simp [lerr] at hy
      · obtain ⟨p', hp, h⟩ := bind_eq_ok.mp h
        obtain ⟨n', hn, h⟩ := bind_eq_ok.mp h
        obtain ⟨a', ha, h⟩ := bind_eq_ok.mp h
        cases h
        exact declb_node rfl (by simp [declbL, fE hp, fE hn, fE ha])
      · -- calls
        have comp1 : ∀ (ck : CKind) (args : List LExpr),
            (match args with
              | [a] => (do let x ← lowerE s n ctx a; Outcome.ok (Expr.node (Kind.compiler ck) [x]))
              | _ => lerr "InvalidAst:arity") = .ok t → declb D t = true := by
          intro ck args hh
          split at hh
          · obtain ⟨x, hx, hh⟩ := bind_eq_ok.mp hh
            cases hh; exact declb_node rfl (one (fE hx))
          · simp [lerr] at hh
        split at h
        · exact comp1 _ _ h
        · split at h
          · split at h
            · cases h; simp [declb, Kind.declAt, declbL]
            · simp [lerr] at h
          · split at h
            · exact comp1 _ _ h
            · split at h
              · exact comp1 _ _ h
              · split at h
                · simp [lerr] at h
                · split at h
                  · split at h
                    · obtain ⟨pn, hpn, h⟩ := bind_eq_ok.mp h
                      obtain ⟨a', ha, h⟩ := bind_eq_ok.mp h
                      cases h
                      have hpn' : declb D pn.1 = true ∧ declb D pn.2 = true := by
                        split at hpn
                        · cases hpn; exact ⟨decl_none', decl_none'⟩
                        · obtain ⟨p', hp, hpn⟩ := bind_eq_ok.mp hpn
                          obtain ⟨n', hn, hpn⟩ := bind_eq_ok.mp hpn
                          cases hpn; exact ⟨fE hp, fE hn⟩
                      exact declb_node rfl (by simp [declbL, hpn'.1, hpn'.2, fE ha])
                    · simp [lerr] at h
                  · simp [lerr] at h
      · simp [lerr] at h
    · intro ctx es ts h
      cases es with
      | nil => simp [lowerL] at h; subst h; simp [declbL]
      | cons c cs =>
        rw [lowerL] at h
        obtain ⟨x, hx, h⟩ := bind_eq_ok.mp h
        obtain ⟨xs, hxs, h⟩ := bind_eq_ok.mp h
        cases h
        simp only [declbL, Bool.and_eq_true]
        exact ⟨ihE _ _ _ hx, by
          -- the rest of the list is lowered with the same fuel: by induction on the list
          have : ∀ (cs : List LExpr) (xs : List Expr), lowerL s (n + 1) ctx cs = .ok xs → declbL D xs = true := by
            intro cs
            induction cs with
            | nil => intro xs hh; simp [lowerL] at hh; subst hh; simp [declbL]
            | cons c cs ihc =>
              intro xs hh
              rw [lowerL] at hh
              obtain ⟨x, hx, hh⟩ := bind_eq_ok.mp hh
              obtain ⟨xs', hxs', hh⟩ := bind_eq_ok.mp hh
              cases hh
              simp only [declbL, Bool.and_eq_true]
              exact ⟨ihE _ _ _ hx, ihc _ hxs'⟩
          exact this _ _ hxs⟩
    · intro ctx b t h
      rw [lowerInput] at h
      simp only [] at h
      obtain ⟨a1, h1, h⟩ := bind_eq_ok.mp h
      obtain ⟨a2, h2, h⟩ := bind_eq_ok.mp h
      obtain ⟨a3, h3, h⟩ := bind_eq_ok.mp h
      cases h
      have opt : ∀ (c : Ctx) (o : Option LExpr) (a : Expr),
          (match o with | some x => lowerE s n c x | none => Outcome.ok none') = .ok a → declb D a = true := by
        intro c o a hh
        cases o with
        | none => cases hh; exact decl_none'
        | some x => exact ihE _ _ _ hh
      simp [declb, Kind.declAt, declbL, opt _ _ _ h1, opt _ _ _ h2, opt _ _ _ h3]

theorem lowerOpt_decl (s : Scope) (hD : NamesIn s D) (c : Ctx) (e : Option LExpr) (t : Expr) (h : lowerOpt s c e = .ok t) :
    declb D t = true := by
  unfold lowerOpt at h
  cases e with
  | none => cases h; exact decl_none'
  | some x => exact (lower_decl s hD _).1 _ _ _ h

/-- **Every slot of a lowered transaction is fresh**, hence `Sealed` and `WF`: the hypotheses of the stage and
reducer theorems hold for whatever the lowering model produces. -/
theorem lowerTx_decl (s : Scope) (hD : NamesIn s D) (t : Tx) (h : lowerTx s = .ok t) : ∀ e ∈ t.slots, declb D e = true := by
  unfold lowerTx at h
  simp only [] at h
  obtain ⟨references, hrefs, h⟩ := bind_eq_ok.mp h
  obtain ⟨inputs, hins, h⟩ := bind_eq_ok.mp h
  obtain ⟨outputs, houts, h⟩ := bind_eq_ok.mp h
  obtain ⟨validity, hval, h⟩ := bind_eq_ok.mp h
  obtain ⟨mints, hmints, h⟩ := bind_eq_ok.mp h
  obtain ⟨burns, hburns, h⟩ := bind_eq_ok.mp h
  obtain ⟨signers, hsig, h⟩ := bind_eq_ok.mp h
  obtain ⟨metadata, hmeta, h⟩ := bind_eq_ok.mp h
  obtain ⟨collateral, hcoll, h⟩ := bind_eq_ok.mp h
  cases h
  have fE := (lower_decl s hD (lowerFuel s)).1
  have fI := (lower_decl s hD (lowerFuel s)).2.2
  have hR : ∀ e ∈ references, declb D e = true :=
    mapMO_all _ _ hrefs (fun r _ y hy => fE _ _ _ hy)
  have hI : ∀ i ∈ inputs, declb D i.utxos = true ∧ declb D i.redeemer = true :=
    mapMO_all (P := fun (i : Input) => declb D i.utxos = true ∧ declb D i.redeemer = true) _ _ hins (fun b _ y hy => by
      obtain ⟨q, hq, hy⟩ := bind_eq_ok.mp hy
      obtain ⟨red, hred, hy⟩ := bind_eq_ok.mp hy
      cases hy
      exact ⟨fI _ _ _ hq, lowerOpt_decl s hD _ _ _ hred⟩)
  have hO : ∀ o ∈ outputs, declb D o.address = true ∧ declb D o.datum = true ∧ declb D o.amount = true :=
    mapMO_all (P := fun (o : Output) => declb D o.address = true ∧ declb D o.datum = true ∧ declb D o.amount = true) _ _ houts
      (fun b _ y hy => by
        obtain ⟨a1, h1, hy⟩ := bind_eq_ok.mp hy
        obtain ⟨a2, h2, hy⟩ := bind_eq_ok.mp hy
        obtain ⟨a3, h3, hy⟩ := bind_eq_ok.mp hy
        cases hy
        exact ⟨lowerOpt_decl s hD _ _ _ h1, lowerOpt_decl s hD _ _ _ h2, lowerOpt_decl s hD _ _ _ h3⟩)
  have mintOK : ∀ (l : List MintBlock) (ms : List Mint),
      mapMO (fun (m : MintBlock) => (do
        let amount ← lowerOpt s {} m.amount
        let redeemer ← lowerOpt s {} m.redeemer
        Outcome.ok ({ amount, redeemer } : Mint))) l = .ok ms →
      ∀ m ∈ ms, declb D m.amount = true ∧ declb D m.redeemer = true := fun l ms hm =>
    mapMO_all (P := fun (m : Mint) => declb D m.amount = true ∧ declb D m.redeemer = true) _ _ hm (fun b _ y hy => by
      obtain ⟨a1, h1, hy⟩ := bind_eq_ok.mp hy
      obtain ⟨a2, h2, hy⟩ := bind_eq_ok.mp hy
      cases hy
      exact ⟨lowerOpt_decl s hD _ _ _ h1, lowerOpt_decl s hD _ _ _ h2⟩)
  have hM := mintOK _ _ hmints
  have hB := mintOK _ _ hburns
  have hMd : ∀ m ∈ metadata, declb D m.key = true ∧ declb D m.value = true :=
    mapMO_all (P := fun (m : Metadata) => declb D m.key = true ∧ declb D m.value = true) _ _ hmeta (fun b _ y hy => by
      obtain ⟨a1, h1, hy⟩ := bind_eq_ok.mp hy
      obtain ⟨a2, h2, hy⟩ := bind_eq_ok.mp hy
      cases hy
      exact ⟨fE _ _ _ h1, fE _ _ _ h2⟩)
  have hS : ∀ e ∈ (match signers with | some l => l | none => []), declb D e = true := by
    cases hts : s.tx.signers with
    | none => rw [hts] at hsig; cases hsig; intro e he; cases he
    | some l =>
      rw [hts] at hsig
      obtain ⟨xs, hxs, hsig⟩ := bind_eq_ok.mp hsig
      cases hsig
      exact mapMO_all _ _ hxs (fun r _ y hy => fE _ _ _ hy)
  have hV : ∀ e ∈ (match validity with | some (a, b) => [a, b] | none => []), declb D e = true := by
    cases htv : s.tx.validity with
    | none => rw [htv] at hval; cases hval; intro e he; cases he
    | some ab =>
      obtain ⟨a, b⟩ := ab
      rw [htv] at hval
      obtain ⟨x, hx, hval⟩ := bind_eq_ok.mp hval
      obtain ⟨y, hy, hval⟩ := bind_eq_ok.mp hval
      cases hval
      intro e he
      simp only [List.mem_cons, List.not_mem_nil, or_false] at he
      rcases he with rfl | rfl
      · exact lowerOpt_decl s hD _ _ _ hx
      · exact lowerOpt_decl s hD _ _ _ hy
  have hC : ∀ e ∈ collateral, declb D e = true := by
    cases htc : s.tx.collateral with
    | none => rw [htc] at hcoll; cases hcoll; intro e he; cases he
    | some b =>
      rw [htc] at hcoll
      obtain ⟨a1, h1, hcoll⟩ := bind_eq_ok.mp hcoll
      obtain ⟨a2, h2, hcoll⟩ := bind_eq_ok.mp hcoll
      obtain ⟨a3, h3, hcoll⟩ := bind_eq_ok.mp hcoll
      cases hcoll
      intro e he
      simp only [List.mem_cons, List.not_mem_nil, or_false] at he
      subst he
      simp [declb, Kind.declAt, declbL, lowerOpt_decl s hD _ _ _ h1, lowerOpt_decl s hD _ _ _ h2,
        lowerOpt_decl s hD _ _ _ h3]
  intro e he
  unfold Tx.slots at he
  rcases List.mem_append.mp he with he | he
  rotate_left
  · exact hC e he
  rcases List.mem_append.mp he with he | he
  rotate_left
  · exact hR e he
  rcases List.mem_append.mp he with he | he
  rotate_left
  · obtain ⟨m, hm, he⟩ := List.mem_flatMap.mp he
    simp only [List.mem_cons, List.not_mem_nil, or_false] at he
    rcases he with rfl | rfl
    · exact (hMd m hm).1
    · exact (hMd m hm).2
  rcases List.mem_append.mp he with he | he
  rotate_left
  · exact hV e he
  rcases List.mem_append.mp he with he | he
  rotate_left
  · exact hS e he
  rcases List.mem_append.mp he with he | he
  rotate_left
  · cases he
  rcases List.mem_append.mp he with he | he
  rotate_left
  · simp only [List.mem_cons, List.not_mem_nil, or_false] at he
    subst he
    simp [declb, Kind.declAt, declbL]
  rcases List.mem_append.mp he with he | he
  rotate_left
  · obtain ⟨m, hm, he⟩ := List.mem_flatMap.mp he
    simp only [List.mem_cons, List.not_mem_nil, or_false] at he
    rcases he with rfl | rfl
    · exact (hB m hm).1
    · exact (hB m hm).2
  rcases List.mem_append.mp he with he | he
  rotate_left
  · obtain ⟨m, hm, he⟩ := List.mem_flatMap.mp he
    simp only [List.mem_cons, List.not_mem_nil, or_false] at he
    rcases he with rfl | rfl
    · exact (hM m hm).1
    · exact (hM m hm).2
  rcases List.mem_append.mp he with he | he
  · obtain ⟨i, hi, he⟩ := List.mem_flatMap.mp he
    simp only [List.mem_cons, List.not_mem_nil, or_false] at he
    rcases he with rfl | rfl
    · exact (hI i hi).1
    · exact (hI i hi).2
  · obtain ⟨o, ho, he⟩ := List.mem_flatMap.mp he
    simp only [List.mem_cons, List.not_mem_nil, or_false] at he
    rcases he with rfl | rfl | rfl
    · exact (hO o ho).1
    · exact (hO o ho).2.1
    · exact (hO o ho).2.2

/-- Which names resolve to the three symbol kinds that become value placeholders. -/
theorem resolve_outer_cases (s : Scope) (x : String) (sym : Sym) (h : resolve s x = some sym) :
    (∀ n ty, sym = .param n ty → n = x ∧ x ∈ s.tx.params.map (·.1)) ∧
    (∀ n ty, sym = .envVar n ty → n = x ∧ x ∈ s.prog.env.map (·.1)) ∧
    (∀ n, sym = .party n → n = x ∧ x ∈ s.prog.parties) := by
  have key : ∀ {α} (l : List (String × α)) (v : α),
      lastWith l (fun p => if p.1 = x then some p.2 else none) = some v → x ∈ l.map (·.1) := by
    intro α l v hl
    obtain ⟨a, ha, hf⟩ := lastWith_some _ _ _ hl
    split at hf
    · rename_i he; rw [← he]; exact List.mem_map.mpr ⟨a, ha, rfl⟩
    · cases hf
  unfold resolve at h
  split at h
  · cases h; refine ⟨?_, ?_, ?_⟩ <;> intros <;> simp_all
  split at h
  · cases h; refine ⟨?_, ?_, ?_⟩ <;> intros <;> simp_all
  split at h
  · cases h; refine ⟨?_, ?_, ?_⟩ <;> intros <;> simp_all
  unfold resolveOuter at h
  split at h
  · rename_i ty hl
    cases h
    refine ⟨fun n ty' he => ?_, ?_, ?_⟩
    · cases he; exact ⟨rfl, key _ _ hl⟩
    · intros; simp_all
    · intros; simp_all
  split at h
  · cases h; refine ⟨?_, ?_, ?_⟩ <;> intros <;> simp_all
  split at h
  · cases h; refine ⟨?_, ?_, ?_⟩ <;> intros <;> simp_all
  split at h
  · cases h; refine ⟨?_, ?_, ?_⟩ <;> intros <;> simp_all
  split at h
  · cases h; refine ⟨?_, ?_, ?_⟩ <;> intros <;> simp_all
  split at h
  · cases h; refine ⟨?_, ?_, ?_⟩ <;> intros <;> simp_all
  split at h
  · cases h; refine ⟨?_, ?_, ?_⟩ <;> intros <;> simp_all
  split at h
  · rename_i hp
    cases h
    refine ⟨?_, ?_, fun n he => ?_⟩
    · intros; simp_all
    · intros; simp_all
    · cases he; exact ⟨rfl, List.contains_iff_mem.mp hp⟩
  split at h
  · rename_i ty hl
    cases h
    refine ⟨?_, fun n ty' he => ?_, ?_⟩
    · intros; simp_all
    · cases he; exact ⟨rfl, key _ _ hl⟩
    · intros; simp_all
  split at h
  · cases h; refine ⟨?_, ?_, ?_⟩ <;> intros <;> simp_all
  · cases h

/-- The scope's own declarations, lower-cased, are names every placeholder symbol resolves into. -/
theorem resolve_names (s : Scope) : NamesIn s ((declared s).map Tii.tiiKey) := by
  refine ⟨fun x n ty h => ?_, fun x n ty h => ?_, fun x n h => ?_⟩
  · obtain ⟨rfl, hm⟩ := (resolve_outer_cases s x _ h).1 n ty rfl
    exact List.mem_map.mpr ⟨n, by simp [declared, hm], rfl⟩
  · obtain ⟨rfl, hm⟩ := (resolve_outer_cases s x _ h).2.1 n ty rfl
    exact List.mem_map.mpr ⟨n, by simp [declared, hm], rfl⟩
  · obtain ⟨rfl, hm⟩ := (resolve_outer_cases s x _ h).2.2 n rfl
    exact List.mem_map.mpr ⟨n, by simp [declared, hm], rfl⟩

/-- **C17 through lowering.** Whatever the lowering model produces for a transaction - any program, any fuel - the
independent walk of C06 finds a value placeholder only under the interface key (`tiiKey`) of a parameter of that
transaction, a party or an environment key: the hypothesis of `C17_required_are_declared` holds of every lowered IR. -/
theorem C17_lowered_requires_declared (s : Scope) (t : Tx) (h : lowerTx s = .ok t) (n : String)
    (hn : PRef.value n ∈ t.unresolved) : ∃ d ∈ declared s, n = Tii.irName d := by
  unfold Tx.unresolved at hn
  obtain ⟨e, he, hn⟩ := List.mem_flatMap.mp hn
  have := declb_unresolved_aux.1 e (lowerTx_decl s (resolve_names s) t h e he) n hn
  obtain ⟨d, hd, rfl⟩ := List.mem_map.mp this
  exact ⟨d, hd, rfl⟩

/-- ... hence every name the lowered IR requires is a key the interface file lists. -/
theorem C17_lowered_keys_listed (s : Scope) (t : Tx) (h : lowerTx s = .ok t) (n : String)
    (hn : PRef.value n ∈ t.unresolved) :
    let i := Tii.interfaceOf (s.tx.params.map (·.1)) s.prog.parties (s.prog.env.map (·.1))
    n ∈ i.params ++ i.parties ++ i.environment := by
  obtain ⟨d, hd, rfl⟩ := C17_lowered_requires_declared s t h n hn
  exact Tii.C17_required_are_declared _ _ _ [Tii.irName d]
    (fun r hr => ⟨d, by simpa [declared] using hd, by simpa using hr⟩) _ (by simp)

/-- What `find_params` (the model's `Tx.params`) reports on a lowered transaction is listed too. -/
theorem C17_reported_params_listed (s : Scope) (t : Tx) (h : lowerTx s = .ok t) :
    ∀ p ∈ t.params, ∃ d ∈ declared s, p.1 = Tii.irName d := by
  intro p hp
  have aux : (∀ e : Expr, ∀ p ∈ Expr.params e, PRef.value p.1 ∈ Expr.unresolved e) ∧
      (∀ es : List Expr, ∀ p ∈ Expr.paramsL es, PRef.value p.1 ∈ Expr.unresolvedL es) := by
    apply Expr.induct
    · intro l p hp; simp [Expr.params] at hp
    · intro k cs ih p hp
      rw [unresolved_node]
      cases k with
      | param q =>
        cases q with
        | expectValue name ty => simp [Expr.params] at hp; subst hp; simp [Kind.pref?]
        | expectInput a b c => simp only [Expr.params] at hp; simp [ih p hp]
        | set | expectFees => simp [Expr.params] at hp
      | utxoSet m => simp [Expr.params] at hp
      | list | map | tuple | struct | assets | builtin | compiler | coerce | adhoc =>
        simp only [Expr.params] at hp; simp [ih p hp]
    · intro p hp; simp [Expr.paramsL] at hp
    · intro c cs ihc ihcs p hp
      simp only [Expr.paramsL, List.mem_append] at hp
      simp only [unresolvedL_cons, List.mem_append]
      rcases hp with hp | hp
      · exact Or.inl (ihc p hp)
      · exact Or.inr (ihcs p hp)
  unfold Tx.params at hp
  obtain ⟨e, he, hpe⟩ := List.mem_flatMap.mp hp
  exact C17_lowered_requires_declared s t h p.1 (List.mem_flatMap.mpr ⟨e, he, aux.1 e p hpe⟩)

/-! Non-vacuity (an evaluation, not a proof): a transaction whose parameter, party and environment key are written in
mixed case lowers, and the walk finds exactly the three lower-cased names. -/
def exProg17 : Program :=
  { env := [("Limit", .int)], parties := ["Sender"], policies := [], assets := [], types := [], aliases := [], txs := [] }
def exTx17 : TxDef :=
  { name := "t", params := [("Qty", .int)], locals := [], inputs := [], references := [], collateral := none,
    outputs := [{ name := none, optional := false, to := some (.leaf (.id "Sender")),
                  amount := some (.node (.call "Ada") [.node .add [.leaf (.id "Qty"), .leaf (.id "Limit")]]), datum := none }],
    mints := [], burns := [], validity := none, signers := none, metadata := none, adhoc := [] }
#guard (match lowerTx { prog := exProg17, tx := exTx17 } with
  | .ok t => t.unresolved.filter (· != .fees) == [.value "sender", .value "qty", .value "limit"]
  | _ => false)


