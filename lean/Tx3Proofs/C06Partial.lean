import Tx3Model.Reduce
import Tx3Model.SpecTir
import Tx3Proofs.Lemmas.Tir
import Tx3Proofs.C07

/-!
# C06 / C07 — arguments may arrive in rounds

A host may apply some of the arguments now and the rest later (a stored, partly applied template).  Proved for the
model of `apply_args`: two rounds are one round with the two argument maps put together (the earlier map first: a name
bound in the first round stays bound to that value), on every expression and on whole transactions - so the parameters
still pending after the first round are exactly those the joint map leaves pending, and a template closes under the
rounds exactly when it closes under the joint map.
-/

namespace Tx3
open Expr

theorem lookupS_append {α} (m1 m2 : List (String × α)) (k : String) :
    lookupS (m1 ++ m2) k = (lookupS m1 k).orElse (fun _ => lookupS m2 k) := by
  induction m1 with
  | nil => simp [lookupS]
  | cons x xs ih =>
    obtain ⟨k', v⟩ := x
    simp only [List.cons_append, lookupS]
    by_cases h : k' = k
    · simp [h]
    · simp [h, ih]

namespace Expr

theorem applyArgs_rounds_aux (σ1 σ2 : ArgMap) :
    (∀ e : Expr, applyArgs σ2 (applyArgs σ1 e) = applyArgs (σ1 ++ σ2) e) ∧
    (∀ es : List Expr, applyArgsL σ2 (applyArgsL σ1 es) = applyArgsL (σ1 ++ σ2) es) := by
  apply Expr.induct
  · intro l; simp [applyArgs]
  · intro k cs ih
    cases k with
    | param p =>
      cases p with
      | set => simp [applyArgs]
      | expectValue name ty =>
        cases h1 : lookupS σ1 name with
        | none =>
          cases h2 : lookupS σ2 name <;> simp [applyArgs, h1, h2, lookupS_append]
        | some v => simp [applyArgs, h1, lookupS_append]
      | expectInput name many coll => simp [applyArgs, ih]
      | expectFees => simp [applyArgs]
    | utxoSet m => simp [applyArgs]
    | list | map | tuple | struct | assets | builtin | compiler | coerce | adhoc =>
      simp [applyArgs, ih]
  · simp
  · intro c cs ihc ihcs; simp [ihc, ihcs]

/-- **Two rounds of arguments are one round with the joint map**, on every expression. -/
theorem C06_args_in_rounds (σ1 σ2 : ArgMap) (e : Expr) :
    applyArgs σ2 (applyArgs σ1 e) = applyArgs (σ1 ++ σ2) e := (applyArgs_rounds_aux σ1 σ2).1 e

end Expr

/-- ... and on whole transactions. -/
theorem C06_tx_args_in_rounds (σ1 σ2 : ArgMap) (t : Tx) :
    (t.applyArgs σ1).applyArgs σ2 = t.applyArgs (σ1 ++ σ2) := by
  simp only [Tx.applyArgs, Tx.map_map]
  congr 1
  funext e
  exact Expr.C06_args_in_rounds σ1 σ2 e

/-- What is still pending after the rounds is what the joint map leaves pending (the independent walk of C06). -/
theorem C06_rounds_pending (σ1 σ2 : ArgMap) (t : Tx) :
    ((t.applyArgs σ1).applyArgs σ2).unresolved = (t.applyArgs (σ1 ++ σ2)).unresolved := by
  rw [C06_tx_args_in_rounds]

/-- Non-vacuity: a name bound in the first round keeps that value; one bound only in the second gets it there. -/
example : Expr.applyArgs [("b", .leaf (.number 2)), ("a", .leaf (.number 9))]
      (Expr.applyArgs [("a", .leaf (.number 1))]
        (.node .list [.node (.param (.expectValue "a" .int)) [], .node (.param (.expectValue "b" .int)) []])) =
    .node .list [.node (.param .set) [.leaf (.number 1)], .node (.param .set) [.leaf (.number 2)]] := by
  simp [Expr.applyArgs, Expr.applyArgsL, lookupS]

end Tx3
