import Tx3Model.Reduce
import Tx3Proofs.Lemmas.Outcome

/-!
# C01 / C02 — an index selects the element at that position, or nothing

The reducer's `Indexable::index` on list and record literals (what `xs[i]` and field access reduce through): a
result is the element at exactly the position the index denotes - never the element a multiple of 2^64 away, never
one for a negative position.  (Before fix 874eff9 the 128-bit index was cast with `as usize`, and `xs[2^64]` was
`xs[0]`; the model then said `asUsize` where it now says `nth?`.)
-/

namespace Tx3
open Outcome Expr

theorem nth?_spec {xs : List Expr} {n : Int} {r : Expr} :
    nth? xs n = some r ↔ 0 ≤ n ∧ n < xs.length ∧ xs[n.toNat]? = some r := by
  unfold nth?
  constructor
  · intro h
    split at h
    · cases h
    · rename_i hn
      have h0 : 0 ≤ n := by omega
      refine ⟨h0, ?_, h⟩
      have hlt : n.toNat < xs.length := by
        have := List.getElem?_eq_some_iff.mp h
        exact this.1
      omega
  · intro ⟨h0, _, h⟩
    rw [if_neg (by omega)]
    exact h

/-- **Lists.** `xs[i]` reduces to an element only for `0 ≤ i < |xs|`, and then to the element at position `i`. -/
theorem C01_list_index_exact (xs : List Expr) (n : Int) (r : Expr)
    (h : index (.node .list xs) (.leaf (.number n)) = some r) :
    0 ≤ n ∧ n < xs.length ∧ xs[n.toNat]? = some r := by
  unfold index at h
  simp only [Expr.asNumber?, Option.bind_eq_bind, Option.bind_some] at h
  exact nth?_spec.mp h

/-- **Records.** The same for the fields of a record literal. -/
theorem C01_struct_index_exact (c : Nat) (fields : List Expr) (n : Int) (r : Expr)
    (h : index (.node (.struct c) fields) (.leaf (.number n)) = some r) :
    0 ≤ n ∧ n < fields.length ∧ fields[n.toNat]? = some r := by
  unfold index at h
  simp only [Expr.asNumber?, Option.bind_eq_bind, Option.bind_some] at h
  exact nth?_spec.mp h

/-- A position outside the sequence is an error of the reducer (`PropertyIndexNotFound`), whatever its distance
from a real position. -/
theorem C01_index_out_of_range (xs : List Expr) (n : Int) (h : n < 0 ∨ (xs.length : Int) ≤ n) :
    indexOrErr (.node .list xs) (.leaf (.number n)) = .err "PropertyIndexNotFound" := by
  unfold indexOrErr
  cases hi : index (.node .list xs) (.leaf (.number n)) with
  | none => rfl
  | some r =>
    have := C01_list_index_exact xs n r hi
    omega

/-- The witness of the repaired defect: position 2^64 of a three-element list is no element. -/
example : index (.node .list [.leaf (.number 7), .leaf (.number 8), .leaf (.number 9)]) (.leaf (.number (2^64))) = none := by
  decide

example : index (.node .list [.leaf (.number 7), .leaf (.number 8), .leaf (.number 9)]) (.leaf (.number 2)) =
    some (.leaf (.number 9)) := by
  simp [index, Expr.asNumber?, nth?]

end Tx3
