import Tx3Proofs.C01Change
import Tx3Proofs.C02Outputs

/-!
# C02 — from the source to the quantities of the compiled output, and the balance

`C01_source_to_value` ends at the constant asset list the reducer writes for an amount; `C02_output_block_exact`
starts from the entries of such a list and ends at the coin and the multi-asset map of the compiled output.  This
module joins them: the list the reducer writes for an amount of the language (constructors, `fees`, input names,
`+`, `-`) is, entry by entry, inside the ledger ranges whenever what the source denotes is, and the compiled output
then holds, of lovelace and of every token, *exactly what integer arithmetic gives for the expression as written*.
The balance follows: a change written `source - a₁ - … - aₙ - fees` next to outputs `a₁ … aₙ` yields outputs
whose quantities add up, class by class, to the total of the UTxOs assigned to `source` minus the fee.
-/

namespace Tx3
open Outcome Expr Assets Tx3.Lang

/-- The classes a ledger value has: lovelace, or a token under a non-empty policy. -/
def LedgerClass : AssetClass → Prop
  | .naked => True
  | .defined p _ => p ≠ []
  | .named _ => False

/-- What the compiler will read from the triples written for a list of entries with distinct ledger classes. -/
theorem view_triples : ∀ (l : Assets), Assets.WF l → (∀ kv ∈ l, LedgerClass kv.1) →
    lovelaceSum (l.flatMap triple) = amt l .naked ∧
    ∀ ph nb, classSum ph nb (l.flatMap triple) = amt l (.defined ph nb) := by
  intro l
  induction l with
  | nil => intro _ _; exact ⟨by simp [lovelaceSum], fun ph nb => by simp [classSum]⟩
  | cons kv l ih =>
    obtain ⟨k, v⟩ := kv
    intro hw hk
    obtain ⟨hnot, hw'⟩ := WF_cons.mp hw
    obtain ⟨ih1, ih2⟩ := ih hw' (fun kv h => hk kv (List.mem_cons_of_mem _ h))
    have hkc := hk (k, v) List.mem_cons_self
    cases k with
    | naked =>
      have h0 : amt l .naked = 0 := amt_zero_of_not_mem_keys hnot
      refine ⟨?_, fun ph nb => ?_⟩
      · simp only [List.flatMap_cons, triple, AssetClass.policy?, AssetClass.name?, List.cons_append, List.nil_append,
          lovelaceSum, Expr.isNone, if_true, amountOf, Option.getD_some, ih1, amt_cons, h0, Int.add_zero]
      · simp only [List.flatMap_cons, triple, AssetClass.policy?, AssetClass.name?, List.cons_append, List.nil_append,
          classSum, entryIs, Expr.isNone, Bool.not_true, Bool.false_and, Bool.false_eq_true, if_false, ih2, amt_cons,
          Int.zero_add]
        simp
    | named nm => exact absurd hkc (by simp [LedgerClass])
    | defined p n =>
      refine ⟨?_, fun ph nb => ?_⟩
      · simp only [List.flatMap_cons, triple, AssetClass.policy?, AssetClass.name?, List.cons_append, List.nil_append,
          lovelaceSum, Expr.isNone, Bool.false_eq_true, if_false, ih1, amt_cons, Int.zero_add]
        simp
      · simp only [List.flatMap_cons, triple, AssetClass.policy?, AssetClass.name?, List.cons_append, List.nil_append,
          classSum, entryIs, Expr.isNone, Bool.not_false, Bool.true_and, exprIntoBytes, amountOf, Option.getD_some, ih2,
          amt_cons]
        by_cases h1 : p = ph <;> by_cases h2 : n = nb
        · subst h1; subst h2
          have h0 : amt l (.defined p n) = 0 := amt_zero_of_not_mem_keys hnot
          simp [h0]
        · simp [h1, h2]
        · simp [h1, h2]
        · simp [h1, h2]

/-- …and they are inside the ledger ranges when the amounts are. -/
theorem range_triples : ∀ (l : Assets), (∀ kv ∈ l, 0 ≤ kv.2 ∧ (kv.1 = .naked → kv.2 ≤ u64Max)) →
    (∀ kv ∈ l, LedgerClass kv.1) → EntriesInRange (l.flatMap triple) := by
  intro l
  induction l with
  | nil => intro _ _; simp [EntriesInRange]
  | cons kv l ih =>
    obtain ⟨k, v⟩ := kv
    intro h hk
    have hv := h (k, v) List.mem_cons_self
    have hkc := hk (k, v) List.mem_cons_self
    have hrest := ih (fun kv hm => h kv (List.mem_cons_of_mem _ hm)) (fun kv hm => hk kv (List.mem_cons_of_mem _ hm))
    simp only [List.flatMap_cons, triple, List.cons_append, List.nil_append, EntriesInRange]
    refine ⟨⟨v, rfl, hv.1, fun hn => ?_⟩, hrest⟩
    cases k with
    | naked => exact hv.2 rfl
    | named nm => exact absurd hkc (by simp [LedgerClass])
    | defined p n => simp [AssetClass.policy?, Expr.isNone] at hn

/-- What `Denotes` says in terms of the entries. -/
theorem denotes_entries {cs : List Expr} {d : AssetClass → Int} (h : Denotes (.node .assets cs) d) :
    ∀ k, entryAmt k cs = d k := by
  obtain ⟨_, c, hc, hamt⟩ := h
  intro k
  have := (assetsOfChildren_amt cs.length cs [] c (Nat.le_refl _) Good_nil (by simpa [assetsVal] using hc)).2 k
  rw [← hamt k, this]; simp

/-- **What the compiler reads from a reduced amount.**  If what the source denotes is a ledger value - nothing under a
bare name, nothing negative, lovelace within 64 bits - then the entries of the list the reducer wrote are inside the
ledger ranges, their lovelace adds up to the lovelace denoted and their entries of each token to that token's amount. -/
theorem compile_view {r : Expr} {d : AssetClass → Int} (hd : Denotes r d) (hf : RForm r)
    (hnamed : ∀ nm, d (.named nm) = 0) (hempty : ∀ nb, d (.defined [] nb) = 0) (hnn : ∀ k, 0 ≤ d k)
    (hmax : d .naked ≤ u64Max) :
    ∃ cs, r = .node .assets cs ∧ EntriesInRange cs ∧ lovelaceSum cs = d .naked ∧
      ∀ ph nb, classSum ph nb cs = d (.defined ph nb) := by
  cases hf with
  | ada v =>
    have he := denotes_entries hd
    have hv : v = d .naked := by
      have := he .naked
      simpa [entryAmt, entryClass_none] using this
    refine ⟨_, rfl, ⟨⟨v, rfl, by rw [hv]; exact hnn _, fun _ => by rw [hv]; exact hmax⟩, trivial⟩, ?_, fun ph nb => ?_⟩
    · simp [lovelaceSum, Expr.isNone, amountOf, hv]
    · have := he (.defined ph nb)
      simp only [entryAmt, entryClass_none] at this
      simp [classSum, entryIs, Expr.isNone, ← this]
  | tok pb nb v hp =>
    have he := denotes_entries hd
    have hv : v = d (.defined pb nb) := by
      have := he (.defined pb nb)
      simpa [entryAmt, entryClass_defined hp] using this
    refine ⟨_, rfl, ⟨⟨v, rfl, by rw [hv]; exact hnn _, fun hn => by simp [Expr.isNone] at hn⟩, trivial⟩, ?_, fun ph nb' => ?_⟩
    · have := he .naked
      simp only [entryAmt, entryClass_defined hp] at this
      simp [lovelaceSum, Expr.isNone, ← this]
    · have := he (.defined ph nb')
      simp only [entryAmt, entryClass_defined hp] at this
      simp only [classSum, entryIs, Expr.isNone, Bool.not_false, Bool.true_and, exprIntoBytes, amountOf, Option.getD_some]
      rw [← this]
      by_cases h1 : pb = ph <;> by_cases h2 : nb = nb' <;> simp [h1, h2]
  | canon a ga hz =>
    -- what was written denotes `a` itself
    obtain ⟨_, c, hc, hamt⟩ := hd
    obtain ⟨c', hc', _, hamt'⟩ := reread_canonical ga
    rw [hc] at hc'; cases hc'
    have hda : ∀ k, amt a k = d k := fun k => by rw [← hamt' k, hamt k]
    have hperm : (sortAssets a).Perm a := sortBy_perm _ a
    have hwl : Assets.WF (sortAssets a) := by
      unfold Assets.WF keys at *
      exact (List.Perm.nodup_iff (List.Perm.map _ hperm)).mpr ga.wf
    have hsem : ∀ k, amt (sortAssets a) k = d k := fun k => by
      rw [← hda k]; exact SemEq_of_perm hperm hwl k
    have hmem : ∀ kv ∈ sortAssets a, kv.2 = d kv.1 ∧ kv.2 ≠ 0 := fun kv h => by
      refine ⟨?_, hz kv (hperm.mem_iff.mp h)⟩
      rw [← hsem kv.1]; exact (amt_of_mem hwl (show (kv.1, kv.2) ∈ sortAssets a from h)).symm
    have hled : ∀ kv ∈ sortAssets a, LedgerClass kv.1 := fun kv h => by
      obtain ⟨e, hne⟩ := hmem kv h
      have hpr := ga.proper kv (hperm.mem_iff.mp h)
      cases hk : kv.1 with
      | naked => simp [LedgerClass]
      | named nm => rw [hk] at e; rw [hnamed nm] at e; exact absurd e hne
      | defined p n =>
        simp only [LedgerClass]
        intro hp
        rw [hk, hp] at e; rw [hempty n] at e; exact absurd e hne
    obtain ⟨v1, v2⟩ := view_triples (sortAssets a) hwl hled
    have hch : childrenOfAssets a = (sortAssets a).flatMap triple := rfl
    have hrange : EntriesInRange ((sortAssets a).flatMap triple) := by
      refine range_triples _ (fun kv h => ?_) hled
      obtain ⟨e, _⟩ := hmem kv h
      exact ⟨by rw [e]; exact hnn _, fun hk => by rw [e, hk]; exact hmax⟩
    exact ⟨_, rfl, by rw [hch]; exact hrange, by rw [hch, v1, hsem], fun ph nb => by rw [hch, v2, hsem]⟩

/-! ### from the source -/

/-- Classes no ledger value has. -/
def Odd (k : AssetClass) : Prop := (∃ nm, k = .named nm) ∨ (∃ nb, k = .defined [] nb)

theorem mden_odd (s : Scope) (ints : String → Int) (cls : String → AssetClass) :
    ∀ (e : MExp), (∀ x ∈ e.toks, TokOf s cls x) → e.Fits ints cls → ∀ k, Odd k → e.den ints cls k = 0
  | .ada i, _, _, k, hk => by
    have : k ≠ .naked := by rcases hk with ⟨_, rfl⟩ | ⟨_, rfl⟩ <;> simp
    simp [MExp.den, this]
  | .tok x i, ht, _, k, hk => by
    obtain ⟨_, _, _, _, _, ph, nh, pb, nb, _, _, _, hcls, hpne⟩ := ht x (by simp [MExp.toks])
    have : k ≠ cls x := by
      rw [hcls, entryClass_defined hpne]
      rcases hk with ⟨_, rfl⟩ | ⟨_, rfl⟩
      · simp
      · intro h; injection h with h1 _; exact hpne h1.symm
    simp [MExp.den, this]
  | .any ph nh i, _, hf, k, hk => by
    obtain ⟨_, pb, nb, hpb, hnb, hpne⟩ := hf
    have : k ≠ anyCls ph nh := by
      simp only [anyCls, hpb, hnb]
      rcases hk with ⟨_, rfl⟩ | ⟨_, rfl⟩
      · simp
      · intro h; injection h with h1 _; exact hpne h1.symm
    simp [MExp.den, this]
  | .add a b, ht, hf, k, hk => by
    simp [MExp.den, mden_odd s ints cls a (fun x hx => ht x (by simp [MExp.toks, hx])) hf.1 k hk,
      mden_odd s ints cls b (fun x hx => ht x (by simp [MExp.toks, hx])) hf.2.1 k hk]
  | .sub a b, ht, hf, k, hk => by
    simp [MExp.den, mden_odd s ints cls a (fun x hx => ht x (by simp [MExp.toks, hx])) hf.1 k hk,
      mden_odd s ints cls b (fun x hx => ht x (by simp [MExp.toks, hx])) hf.2.1 k hk]

/-- An amount of the language never denotes anything of a class no ledger value has, when the UTxOs do not. -/
theorem den_odd (s : Scope) (σ : ArgMap) (ints : String → Int) (cls : String → AssetClass) (fee : Int)
    (ι : InputMap) (assigned : String → List UtxoMeta)
    (hU : ∀ x k, Odd k → TExp.utxoTotal (assigned x) k = 0) :
    ∀ (c : CExp) (ctx : Ctx), c.OK s σ ints cls fee ι assigned ctx → ∀ k, Odd k → c.den ints cls fee assigned k = 0
  | .pure e, _, h, k, hk => by simpa [CExp.den] using mden_odd s ints cls e h.2.1 h.2.2 k hk
  | .fees, _, _, k, hk => by
    have : k ≠ .naked := by rcases hk with ⟨_, rfl⟩ | ⟨_, rfl⟩ <;> simp
    simp [CExp.den, this]
  | .input x, _, _, k, hk => by simpa [CExp.den] using hU x k hk
  | .add a b, ctx, h, k, hk => by
    simp [CExp.den, den_odd s σ ints cls fee ι assigned hU a ctx h.1 k hk,
      den_odd s σ ints cls fee ι assigned hU b ctx h.2.1 k hk]
  | .sub a b, ctx, h, k, hk => by
    simp [CExp.den, den_odd s σ ints cls fee ι assigned hU a ctx h.1 k hk,
      den_odd s σ ints cls fee ι assigned hU b ctx h.2.1 k hk]
  | .loc _ c, ctx, h, k, hk => by
    simpa [CExp.den] using den_odd s σ ints cls fee ι assigned hU c ctx.down h.2.2 k hk

/-- **C02 (from the source to the compiled output).**  An amount written with asset constructors, `fees`, input
names, `+` and `-`, that denotes a ledger value (nothing negative, lovelace within 64 bits): lowering succeeds,
reduction after the three stages succeeds, and *any* output block carrying the reduced amount that compiles holds
exactly, of lovelace and of every token, what integer arithmetic gives for the expression as written. -/
theorem C02_source_to_output (s : Scope) (σ : ArgMap) (ints : String → Int) (cls : String → AssetClass) (ctx : Ctx)
    (hl : ctx.lvl ≠ 0) (ha : ctx.asset = true) (hA : AdaBuiltin s) (fee : Int) (ι : InputMap)
    (assigned : String → List UtxoMeta) (c : CExp) (h : c.OK s σ ints cls fee ι assigned ctx)
    (hU : ∀ x k, Odd k → TExp.utxoTotal (assigned x) k = 0)
    (hnn : ∀ k, 0 ≤ c.den ints cls fee assigned k) (hmax : c.den ints cls fee assigned .naked ≤ u64Max) :
    ∃ N, ∀ n, N ≤ n → ∃ t, lowerE s n ctx c.toL = .ok t ∧
      ∀ m, N ≤ m → ∃ r, reduceF m (full σ fee ι t) = .ok r ∧
        ∀ (env : CompileEnv) (o : Output) (ao : AOutput), o.amount = r → compileOutputBlock env o = .ok ao →
          ao.coin = c.den ints cls fee assigned .naked ∧
          ∀ ph nb, assetQty ao.assets ph nb = c.den ints cls fee assigned (.defined ph nb) := by
  obtain ⟨N, hN⟩ := C01_source_to_value s σ ints cls ctx hl ha hA fee ι assigned c h
  refine ⟨N, fun n hn => ?_⟩
  obtain ⟨t, hlow, hred⟩ := hN n hn
  refine ⟨t, hlow, fun m hm => ?_⟩
  obtain ⟨r, hr, hd, hform⟩ := hred m hm
  refine ⟨r, hr, fun env o ao ho hcomp => ?_⟩
  have hodd := den_odd s σ ints cls fee ι assigned hU c ctx h
  obtain ⟨cs, rfl, hrange, hlov, hcl⟩ := compile_view hd hform (fun nm => hodd _ (Or.inl ⟨nm, rfl⟩))
    (fun nb => hodd _ (Or.inr ⟨nb, rfl⟩)) hnn hmax
  obtain ⟨e1, e2, _, _⟩ := C02_output_block_exact hcomp (by rw [ho]; rfl) hrange
  exact ⟨by rw [e1, hlov], fun ph nb => by rw [e2 ph nb, hcl ph nb]⟩

/-! ### the balance -/

/-- `x - p₁ - … - pₙ`, associated as the parser does. -/
def minusAll (x : CExp) : List CExp → CExp
  | [] => x
  | p :: ps => minusAll (.sub x p) ps

/-- The change every example writes: `source - p₁ - … - pₙ - fees`. -/
def changeOf (x : String) (ps : List CExp) : CExp := .sub (minusAll (.input x) ps) .fees

def denSum (ints : String → Int) (cls : String → AssetClass) (fee : Int) (assigned : String → List UtxoMeta)
    (ps : List CExp) (k : AssetClass) : Int :=
  (ps.map fun p => p.den ints cls fee assigned k).sum

theorem den_minusAll (ints : String → Int) (cls : String → AssetClass) (fee : Int) (assigned : String → List UtxoMeta)
    (k : AssetClass) : ∀ (ps : List CExp) (x : CExp),
    (minusAll x ps).den ints cls fee assigned k = x.den ints cls fee assigned k - denSum ints cls fee assigned ps k := by
  intro ps
  induction ps with
  | nil => intro x; simp [minusAll, denSum]
  | cons p ps ih =>
    intro x
    rw [minusAll, ih]
    simp only [CExp.den, denSum, List.map_cons, List.sum_cons]
    omega

/-- **C02 (value is preserved).**  Payments `p₁ … pₙ` next to the change `source - p₁ - … - pₙ - fees`: what the
outputs denote adds up, class by class, to the total of the UTxOs assigned to `source` less the fee.  (By
`C02_source_to_output` each compiled output holds exactly what its amount denotes, so consumed value equals produced
value plus fee in the transaction itself.) -/
theorem C02_balance (ints : String → Int) (cls : String → AssetClass) (fee : Int) (assigned : String → List UtxoMeta)
    (x : String) (ps : List CExp) (k : AssetClass) :
    denSum ints cls fee assigned ps k + (changeOf x ps).den ints cls fee assigned k +
      (if k = AssetClass.naked then fee else 0) = TExp.utxoTotal (assigned x) k := by
  simp only [changeOf, CExp.den, den_minusAll]
  omega

/-- The change of a minting transaction: `source + minted - burnt - p₁ - … - pₙ - fees`. -/
def changeOfMint (x : String) (minted burnt : CExp) (ps : List CExp) : CExp :=
  .sub (minusAll (.sub (.add (.input x) minted) burnt) ps) .fees

/-- **C02 (value is preserved, with mint and burn).**  What the outputs denote plus the fee is, class by class, the
total of the UTxOs assigned to `source` plus what is minted less what is burnt. -/
theorem C02_balance_mint (ints : String → Int) (cls : String → AssetClass) (fee : Int) (assigned : String → List UtxoMeta)
    (x : String) (minted burnt : CExp) (ps : List CExp) (k : AssetClass) :
    denSum ints cls fee assigned ps k + (changeOfMint x minted burnt ps).den ints cls fee assigned k +
      (if k = AssetClass.naked then fee else 0) =
    TExp.utxoTotal (assigned x) k + minted.den ints cls fee assigned k - burnt.den ints cls fee assigned k := by
  simp only [changeOfMint, CExp.den, den_minusAll]
  omega

/-! ### the hypotheses are satisfiable: the example of `C01Change`, `source - Ada(quantity) - fees` -/

theorem chDen (k : AssetClass) :
    chExp.den chInts maCls 170000 exAssigned k = if k = AssetClass.naked then 2830000 else 0 := by
  by_cases hk : k = AssetClass.naked
  · subst hk; simp [chExp, CExp.den, MExp.den, IExp.den, chInts, TExp.utxoTotal, exAssigned, exMeta, amt, get?]
  · have : ¬ AssetClass.naked = k := fun e => hk e.symm
    simp [chExp, CExp.den, MExp.den, IExp.den, chInts, TExp.utxoTotal, exAssigned, exMeta, amt, get?, hk, this]

example : (∀ x k, Odd k → TExp.utxoTotal (exAssigned x) k = 0) ∧
    (∀ k, 0 ≤ chExp.den chInts maCls 170000 exAssigned k) ∧
    chExp.den chInts maCls 170000 exAssigned .naked ≤ u64Max := by
  refine ⟨fun x k hk => ?_, fun k => ?_, ?_⟩
  · have : ¬ AssetClass.naked = k := by rcases hk with ⟨_, rfl⟩ | ⟨_, rfl⟩ <;> simp
    simp [TExp.utxoTotal, exAssigned, exMeta, amt, get?, this]
  · rw [chDen]; split <;> omega
  · rw [chDen]; simp [u64Max]

/-- One payment and the change: `Ada(quantity)` to the receiver, `source - Ada(quantity) - fees` back. -/
example (k : AssetClass) :
    denSum chInts maCls 170000 exAssigned [.pure (.ada (.par "quantity"))] k +
      (changeOf "source" [.pure (.ada (.par "quantity"))]).den chInts maCls 170000 exAssigned k +
      (if k = AssetClass.naked then 170000 else 0) = TExp.utxoTotal (exAssigned "source") k :=
  C02_balance _ _ _ _ _ _ _

example : changeOf "source" [.pure (.ada (.par "quantity"))] = chExp := rfl

end Tx3
