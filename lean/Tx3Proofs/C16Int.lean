import Tx3Model.Json
import Tx3Proofs.Lemmas.Outcome
import Tx3Proofs.C16

/-!
# C16 — integers survive their decimal and 16-byte hexadecimal encodings

`decChars v` is the usual decimal rendering (what a client's `to_string` produces); for every
integer of the 128-bit range `string_to_bigint` reads it back exactly.
-/

namespace Tx3.Json
open Tx3

def digitChar (d : Nat) : Char := Char.ofNat (48 + d)

/-- Decimal digits, most significant first. -/
def natDigits (n : Nat) : List Char :=
  if n < 10 then [digitChar n] else natDigits (n / 10) ++ [digitChar (n % 10)]
termination_by n
decreasing_by omega

/-- The decimal rendering of an integer. -/
def decChars (v : Int) : List Char := if v < 0 then '-' :: natDigits (-v).toNat else natDigits v.toNat

theorem decDigit_digitChar : ∀ d, d < 10 → decDigit (digitChar d) = some d := by decide

theorem digitChar_not_sign : ∀ d, d < 10 → digitChar d ≠ '-' ∧ digitChar d ≠ '+' ∧ digitChar d ≠ 'x' := by decide

theorem parseNatChars_append (l : List Char) (c : Char) : ∀ acc,
    parseNatChars (l ++ [c]) acc = (parseNatChars l acc).bind fun m => (decDigit c).map fun d => m * 10 + d := by
  induction l with
  | nil =>
    intro acc
    simp only [List.nil_append, parseNatChars]
    cases decDigit c <;> simp [parseNatChars]
  | cons x xs ih =>
    intro acc
    simp only [List.cons_append, parseNatChars]
    cases decDigit x with
    | none => simp
    | some d => simp [ih]

theorem parseNatChars_natDigits (n : Nat) : parseNatChars (natDigits n) 0 = some n := by
  induction n using Nat.strongRecOn with
  | ind n ih =>
    rw [natDigits]
    split
    · rename_i h
      simp [parseNatChars, decDigit_digitChar n h]
    · rename_i h
      rw [parseNatChars_append, ih (n / 10) (by omega)]
      simp only [Option.bind_some, decDigit_digitChar (n % 10) (by omega), Option.map_some]
      congr 1
      omega

theorem natDigits_head (n : Nat) : ∃ c cs, natDigits n = c :: cs ∧ c ≠ '-' ∧ c ≠ '+' ∧ (c = '0' → cs = []) := by
  induction n using Nat.strongRecOn with
  | ind n ih =>
    rw [natDigits]
    split
    · rename_i h
      exact ⟨digitChar n, [], rfl, (digitChar_not_sign n h).1, (digitChar_not_sign n h).2.1, fun _ => rfl⟩
    · rename_i h
      obtain ⟨c, cs, hc, h1, h2, h3⟩ := ih (n / 10) (by omega)
      refine ⟨c, cs ++ [digitChar (n % 10)], by rw [hc]; rfl, h1, h2, ?_⟩
      intro h0
      -- a leading zero only for n / 10 = 0, which is excluded here
      have hcs := h3 h0
      subst hcs
      have hp := parseNatChars_natDigits (n / 10)
      rw [hc, h0] at hp
      simp [parseNatChars, decDigit] at hp
      omega

/-- **Decimal strings.** Every integer of the 128-bit range, rendered in decimal (with a `-` when
negative), is read back exactly. -/
theorem C16_int_decimal (v : Int) (hv : inI128 v = true) :
    stringToBigint (String.ofList (decChars v)) = .ok v := by
  unfold stringToBigint
  simp only [String.toList_ofList]
  by_cases hneg : v < 0
  · obtain ⟨c, cs, hc, h1, h2, _⟩ := natDigits_head (-v).toNat
    have hd : decChars v = '-' :: c :: cs := by simp [decChars, hneg, hc]
    have hp := parseNatChars_natDigits (-v).toNat
    rw [hc] at hp
    simp only [hd, has0x, Bool.false_eq_true, if_false, parseDec, String.toList_ofList, hp, Option.map_some]
    have e : -max (-v) 0 = v := by omega
    simp [e, hv]
  · obtain ⟨c, cs, hc, h1, h2, h3⟩ := natDigits_head v.toNat
    have hd : decChars v = c :: cs := by simp [decChars, hneg, hc]
    have hp := parseNatChars_natDigits v.toNat
    rw [hc] at hp
    have hx : has0x (c :: cs) = false := by
      unfold has0x
      split
      · rename_i heq
        simp only [List.cons.injEq] at heq
        have := h3 heq.1
        rw [this] at heq
        simp at heq
      · rfl
    have hpd : parseDec (String.ofList (c :: cs)) = some v := by
      unfold parseDec
      simp only [String.toList_ofList]
      split
      · rename_i heq; simp only [List.cons.injEq] at heq; exact absurd heq.1 h1
      · rename_i heq; simp only [List.cons.injEq] at heq; exact absurd heq.1 h2
      · rename_i c' cs' _ _ heq
        simp only [List.cons.injEq] at heq
        obtain ⟨rfl, rfl⟩ := heq
        rw [hp]
        show some ((v.toNat : Nat) : Int) = some v
        congr 1
        omega
      · rename_i heq; simp at heq
    simp only [hd, hx, Bool.false_eq_true, if_false, hpd, hv, if_true]

example : decChars (-120) = ['-', '1', '2', '0'] := by
  simp [decChars, natDigits, digitChar]

/-! ### sixteen big-endian bytes -/

/-- `n` as `w` big-endian bytes (the low `w` bytes of `n`). -/
def toBE : Nat → Nat → Bytes
  | 0, _ => []
  | w + 1, n => toBE w (n / 256) ++ [UInt8.ofNat (n % 256)]

theorem toBE_length : ∀ w n, (toBE w n).length = w := by
  intro w
  induction w with
  | zero => intro n; rfl
  | succ w ih => intro n; simp [toBE, ih]

theorem beNat_snoc (bs : Bytes) (b : UInt8) :
    ofBE16.Cbor_beNat (bs ++ [b]) = ofBE16.Cbor_beNat bs * 256 + b.toNat := by
  unfold ofBE16.Cbor_beNat; rw [List.foldl_append]; rfl

theorem beNat_toBE : ∀ w n, ofBE16.Cbor_beNat (toBE w n) = n % 256 ^ w := by
  intro w
  induction w with
  | zero => intro n; simp [toBE, ofBE16.Cbor_beNat, Nat.mod_one]
  | succ w ih =>
    intro n
    rw [toBE, beNat_snoc, ih]
    have : (UInt8.ofNat (n % 256)).toNat = n % 256 := by simp [UInt8.toNat_ofNat']
    rw [this, Nat.pow_succ]
    have h1 := Nat.div_add_mod n 256
    have h2 := Nat.mod_mul_left_div_self n 256 (256 ^ w)
    have h3 : n % (256 * 256 ^ w) = 256 * (n / 256 % 256 ^ w) + n % 256 := by
      rw [Nat.mod_mul]
      omega
    rw [Nat.mul_comm (256 ^ w) 256, h3]
    omega

/-- `i128::to_be_bytes`: two's complement. -/
def toBE16 (v : Int) : Bytes := toBE 16 (v % 2 ^ 128).toNat

theorem ofBE16_toBE16 (v : Int) (hv : inI128 v = true) : ofBE16 (toBE16 v) = v := by
  have hr : -(2:Int)^127 ≤ v ∧ v < (2:Int)^127 := by
    unfold inI128 i128Min i128Max at hv
    simp at hv
    constructor <;> omega
  have hb : (0:Int) ≤ v % 2 ^ 128 ∧ v % 2 ^ 128 < 2 ^ 128 := by omega
  have hm : (v % 2 ^ 128).toNat % 256 ^ 16 = (v % 2 ^ 128).toNat := by
    apply Nat.mod_eq_of_lt
    have : (256:Nat) ^ 16 = 2 ^ 128 := by decide
    omega
  unfold ofBE16 toBE16
  simp only [beNat_toBE, hm]
  by_cases hn : v < 0
  · have e : v % 2 ^ 128 = v + 2 ^ 128 := by omega
    rw [e]
    have : ¬ ((v + 2 ^ 128).toNat < 2 ^ 127) := by omega
    rw [if_neg this]
    omega
  · have e : v % 2 ^ 128 = v := by omega
    rw [e]
    have : v.toNat < 2 ^ 127 := by omega
    rw [if_pos this]
    omega

/-- **Sixteen-byte hexadecimal strings.** Every integer of the 128-bit range written as `0x` followed
by its 16 big-endian two's-complement bytes in hexadecimal is read back exactly. -/
theorem C16_int_hex16 (v : Int) (hv : inI128 v = true) :
    stringToBigint (String.ofList ('0' :: 'x' :: (toBE16 v).flatMap hexOfByte)) = .ok v := by
  unfold stringToBigint
  have hx : has0x (String.ofList ('0' :: 'x' :: (toBE16 v).flatMap hexOfByte)).toList = true := by
    simp [has0x]
  rw [hx]
  simp only [if_true, C16_hexToBytes_prefixed]
  have hl : (toBE16 v).length = 16 := toBE_length 16 _
  rw [if_pos hl, ofBE16_toBE16 v hv]

end Tx3.Json
