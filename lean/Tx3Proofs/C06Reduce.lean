import Tx3Proofs.C07Reduce
import Tx3Proofs.C06

/-!
# C06 — reduction keeps a closed template closed

`C06_closes` (in `C06.lean`) shows that after applying an argument for every reported parameter, a
UTxO set for every reported query and a fee, the independent walk finds no unresolved parameter.
The property continues "…and reducing": here, for every fuel, `reduce` of a closed expression is
closed — no rewrite of the reducer can bring a parameter back (every result is a leaf, an operand,
a part of an operand, or a canonical asset list).
-/

namespace Tx3
open Outcome Expr

theorem Closed_of_mem {cs : List Expr} {c : Expr} (h : ClosedL cs) (hc : c ∈ cs) : Closed c :=
  ClosedL_iff.mp h c hc

theorem Closed_children {k : Kind} {cs : List Expr} (h : Closed (.node k cs)) : ClosedL cs :=
  (Closed_node.mp h).2

theorem Closed_mk {k : Kind} {cs : List Expr} (hk : k.pref? = none) (h : ClosedL cs) : Closed (.node k cs) :=
  Closed_node.mpr ⟨hk, h⟩

theorem Closed_assetsNode (a : Assets) : Closed (assetsNode a) := by
  unfold assetsNode
  refine Closed_mk rfl (ClosedL_iff.mpr ?_)
  intro c hc
  unfold childrenOfAssets at hc
  simp only [List.mem_flatMap] at hc
  obtain ⟨kv, _, hkv⟩ := hc
  simp only [List.mem_cons, List.mem_nil_iff, or_false] at hkv
  rcases hkv with rfl | rfl | rfl
  · split <;> exact Closed_leaf _
  · split <;> exact Closed_leaf _
  · exact Closed_leaf _

theorem Closed_arithNeg {x r : Expr} (h : arithNeg x = .ok r) : Closed r := by
  unfold arithNeg at h
  split at h
  · cases h; exact Closed_leaf _
  · split at h
    · cases h; exact Closed_leaf _
    · cases h
  · split at h
    · dsimp only at h
      split at h
      · cases h; exact Closed_assetsNode _
      · cases h
    · cases h
  · cases h

theorem Closed_arithAdd {x y r : Expr} (hx : Closed x) (hy : Closed y) (h : arithAdd x y = .ok r) :
    Closed r := by
  unfold arithAdd at h
  split at h
  · cases h; exact hy
  · split at h
    · split at h
      · cases h; exact Closed_leaf _
      · cases h
    · cases h; exact hx
    · cases h
  · split at h
    · split at h
      · dsimp only at h
        split at h
        · cases h; exact Closed_assetsNode _
        · cases h
      · cases h
    · split at h
      · cases h; exact Closed_assetsNode _
      · cases h
    · cases h
  · cases h

theorem Closed_arithSub {x y r : Expr} (hx : Closed x) (hy : Closed y) (h : arithSub x y = .ok r) :
    Closed r := by
  unfold arithSub at h
  split at h
  · exact Closed_arithNeg h
  · obtain ⟨ny, hny, h⟩ := bind_eq_ok.mp h
    exact Closed_arithAdd hx (Closed_arithNeg hny) h
  · obtain ⟨ny, hny, h⟩ := bind_eq_ok.mp h
    exact Closed_arithAdd hx (Closed_arithNeg hny) h
  · cases h

theorem Closed_concat {x y r : Expr} (hx : Closed x) (hy : Closed y) (h : concat x y = .ok r) :
    Closed r := by
  unfold concat at h
  split at h
  · cases h; exact hy
  · split at h
    · cases h; exact Closed_leaf _
    · cases h; exact Closed_leaf _
    · cases h; exact hx
    · cases h
  · split at h
    · cases h; exact Closed_leaf _
    · cases h; exact hx
    · cases h
  · split at h
    · cases h
      exact Closed_mk rfl (ClosedL_append.mpr ⟨Closed_children hx, Closed_children hy⟩)
    · cases h
  · cases h

theorem Closed_findPair {idx : Expr} : ∀ {kvs : List Expr} {r : Expr}, ClosedL kvs →
    findPair idx kvs = some r → Closed r := by
  intro kvs
  induction kvs using findPair.induct idx with
  | case1 k v rest hk =>
    intro r hn h
    rw [findPair] at h
    simp only [hk, if_true] at h
    cases h
    obtain ⟨h1, h2⟩ := ClosedL_cons.mp hn
    obtain ⟨h3, _⟩ := ClosedL_cons.mp h2
    exact Closed_mk rfl (ClosedL_cons.mpr ⟨h1, ClosedL_cons.mpr ⟨h3, ClosedL_nil⟩⟩)
  | case2 k v rest hk ih =>
    intro r hn h
    rw [findPair] at h
    simp only [hk] at h
    obtain ⟨_, h2⟩ := ClosedL_cons.mp hn
    obtain ⟨_, h4⟩ := ClosedL_cons.mp h2
    exact ih h4 (by simpa using h)
  | case3 kvs hne =>
    intro r _ h
    rw [findPair] at h
    · cases h
    · exact hne

theorem Closed_index {x idx r : Expr} (hx : Closed x) (h : index x idx = some r) : Closed r := by
  unfold index at h
  split at h
  · exact Closed_findPair (Closed_children hx) h
  · cases hn : idx.asNumber? with
    | none => simp [hn] at h
    | some n =>
      simp only [hn, Option.bind_eq_bind, Option.bind_some] at h
      obtain ⟨i, hi⟩ := nth?_some h
      exact Closed_of_mem (Closed_children hx) (List.mem_of_getElem? hi)
  · cases hn : idx.asNumber? with
    | none => simp [hn] at h
    | some n =>
      simp only [hn, Option.bind_eq_bind, Option.bind_some] at h
      have hc := Closed_children hx
      obtain ⟨h1, h2⟩ := ClosedL_cons.mp hc
      obtain ⟨h3, _⟩ := ClosedL_cons.mp h2
      split at h
      · cases h; exact h1
      · split at h
        · cases h; exact h3
        · cases h
  · cases hn : idx.asNumber? with
    | none => simp [hn] at h
    | some n =>
      simp only [hn, Option.bind_eq_bind, Option.bind_some] at h
      obtain ⟨i, hi⟩ := nth?_some h
      exact Closed_of_mem (Closed_children hx) (List.mem_of_getElem? hi)
  · cases h

theorem Closed_reduceBuiltin {b : BKind} {cs : List Expr} {r : Expr} (hn : ClosedL cs)
    (h : reduceBuiltin b cs = .ok r) : Closed r := by
  unfold reduceBuiltin at h
  split at h
  · obtain ⟨h1, h2⟩ := ClosedL_cons.mp hn
    exact Closed_arithAdd h1 (ClosedL_cons.mp h2).1 h
  · obtain ⟨h1, h2⟩ := ClosedL_cons.mp hn
    exact Closed_arithSub h1 (ClosedL_cons.mp h2).1 h
  · obtain ⟨h1, h2⟩ := ClosedL_cons.mp hn
    exact Closed_concat h1 (ClosedL_cons.mp h2).1 h
  · exact Closed_arithNeg h
  · obtain ⟨h1, _⟩ := ClosedL_cons.mp hn
    unfold indexOrErr at h
    split at h
    · cases h; exact Closed_index h1 (by assumption)
    · cases h
  · cases h; exact (ClosedL_cons.mp hn).1
  · cases h

theorem Closed_firstDatum (metas : List UtxoMeta) (cs : List Expr) (hn : ClosedL cs) :
    Closed (firstDatum metas cs) := by
  unfold firstDatum
  split
  · split
    · split
      · exact (ClosedL_cons.mp hn).1
      · exact Closed_leaf _
    · exact Closed_leaf _
  · exact Closed_leaf _

theorem Closed_reduceCoerce {c : KKind} {cs : List Expr} {r : Expr} (hn : ClosedL cs)
    (h : reduceCoerce c cs = .ok r) : Closed r := by
  unfold reduceCoerce at h
  split at h
  · cases h; exact (ClosedL_cons.mp hn).1
  · have hx := (ClosedL_cons.mp hn).1
    unfold intoAssets at h
    split at h
    · cases h; exact hx
    · cases h; exact hx
    · split at h
      · cases h; exact Closed_assetsNode _
      · cases h
    · cases h
  · have hx := (ClosedL_cons.mp hn).1
    unfold intoDatum at h
    split at h <;> first
      | (cases h; exact hx)
      | (cases h; exact Closed_leaf _)
      | (cases h; exact Closed_firstDatum _ _ (Closed_children hx))
      | cases h
  · unfold errUn at h; cases h
  · cases h

/-- **Reduction keeps a closed expression closed**, for every fuel. -/
theorem reduce_closed : ∀ (n : Nat) (e e' : Expr), Closed e → reduceF n e = .ok e' → Closed e' := by
  intro n
  induction n with
  | zero => intro e e' _ h; rw [reduceF] at h; cases h
  | succ n ih =>
    intro e e' hc h
    have hL : ∀ {cs r : List Expr}, ClosedL cs → mapMO (reduceF n) cs = .ok r → ClosedL r := by
      intro cs r hcs hr
      exact ClosedL_iff.mpr (mapMO_ok_forall hr fun a ha b hb => ih a b (Closed_of_mem hcs ha) hb)
    cases e with
    | leaf l => rw [reduceF] at h; cases h; exact Closed_leaf _
    | node k cs =>
      have hcs := Closed_children hc
      have hk := (Closed_node.mp hc).1
      cases k with
      | param p =>
        cases p with
        | set =>
          simp only [reduceF] at h
          split at h
          · cases h; exact (ClosedL_cons.mp hcs).1
          · cases h
        | expectValue name ty => simp [Kind.pref?] at hk
        | expectFees => simp [Kind.pref?] at hk
        | expectInput name many coll => simp [Kind.pref?] at hk
      | builtin b =>
        cases b with
        | noop =>
          simp only [reduceF] at h
          split at h
          · exact ih _ _ (ClosedL_cons.mp hcs).1 h
          · cases h
        | add | sub | concat | negate | property =>
          simp only [reduceF] at h
          obtain ⟨cs1, h1, h⟩ := bind_eq_ok.mp h
          have c1 := hL hcs h1
          try dsimp only at h
          split at h
          · exact Closed_reduceBuiltin c1 h
          · obtain ⟨cs2, h2, h⟩ := bind_eq_ok.mp h
            have c2 := hL c1 h2
            try dsimp only at h
            split at h
            · obtain ⟨r, hr, h⟩ := bind_eq_ok.mp h
              cases h
              exact Closed_mk rfl (ClosedL_cons.mpr ⟨Closed_reduceBuiltin c2 hr, ClosedL_nil⟩)
            · cases h; exact Closed_mk rfl c2
      | coerce c =>
        cases c with
        | noop =>
          simp only [reduceF] at h
          split at h
          · exact ih _ _ (ClosedL_cons.mp hcs).1 h
          · cases h
        | intoAssets | intoDatum | intoScript =>
          simp only [reduceF] at h
          obtain ⟨cs1, h1, h⟩ := bind_eq_ok.mp h
          have c1 := hL hcs h1
          try dsimp only at h
          split at h
          · exact Closed_reduceCoerce c1 h
          · obtain ⟨cs2, h2, h⟩ := bind_eq_ok.mp h
            have c2 := hL c1 h2
            try dsimp only at h
            split at h
            · obtain ⟨r, hr, h⟩ := bind_eq_ok.mp h
              cases h
              exact Closed_mk rfl (ClosedL_cons.mpr ⟨Closed_reduceCoerce c2 hr, ClosedL_nil⟩)
            · cases h; exact Closed_mk rfl c2
      | utxoSet m => rw [reduceF] at h; cases h; exact hc
      | list | map | tuple | struct | assets | compiler | adhoc =>
        simp only [reduceF] at h
        obtain ⟨cs1, h1, h⟩ := bind_eq_ok.mp h
        have c1 := hL hcs h1
        cases h
        exact Closed_mk rfl c1

/-- **C06, with the reduction the property ends on**: a closed expression reduces to a closed one. -/
theorem C06_reduce_keeps_closed (e e' : Expr) (hc : Closed e) (h : e.reduce = .ok e') : Closed e' :=
  reduce_closed _ e e' hc h

/-- **C06, end to end on an expression**: supply an argument for every reported parameter, a UTxO
set for every reported query and a fee, reduce — if the reduction succeeds, nothing unresolved is
left. -/
theorem C06_closes_after_reduce (σ : ArgMap) (ι : InputMap) (f : Int) (hσ : ValuesClosed σ)
    (hι : ValuesClosed ι) (e e' : Expr) (hs : Sealed e)
    (hp : ∀ p ∈ params e, (lookupS σ p.1).isSome) (hq : ∀ q ∈ queries e, (lookupS ι q.name).isSome)
    (h : (applyInputs ι (applyFees f (applyArgs σ e))).reduce = .ok e') : unresolved e' = [] :=
  C06_reduce_keeps_closed _ e' (C06_closes σ ι f hσ hι e hs hp hq) h

example : Closed (.node (.builtin .add) [.leaf (.number 1), .leaf (.number 2)]) := by
  simp [Closed, unresolved, unresolvedL, Kind.pref?]

end Tx3
