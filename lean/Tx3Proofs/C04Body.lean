import Tx3Proofs.Lemmas.Compile

/-!
# C04 — the body lists every selected UTxO exactly once

`inputs::resolve` binds a UTxO set to every block (`C04_disjoint`, in `C04.lean`: the sets of distinct
blocks are pairwise disjoint and duplicate-free, for every oracle).  `compile_inputs` then lists, block
by block, the references of each block's set.  Proved here over the compile model: the body's input
list is exactly the concatenation of the blocks' reference lists (nothing added, nothing dropped, order
kept), and it has no repetition whenever that concatenation has none.  The case that escapes —
two blocks carrying one name share one set — is the recorded finding C04-duplicate-block-names.
-/

namespace Tx3
open Outcome

def toTxIn (r : UtxoRef) : TxIn := (r.txid, r.index)

theorem mapMO_utxoRefIntoInput {rs : List UtxoRef} {ins : List TxIn}
    (h : mapMO utxoRefIntoInput rs = .ok ins) : ins = rs.map fun r => (r.txid, r.index) := by
  induction rs generalizing ins with
  | nil => rw [mapMO] at h; cases h; rfl
  | cons r rs ih =>
    rw [mapMO] at h
    obtain ⟨y, hy, h⟩ := bind_eq_ok.mp h
    obtain ⟨ys, hys, h⟩ := bind_eq_ok.mp h
    cases h
    unfold utxoRefIntoInput at hy
    obtain ⟨hh, hhh, hy⟩ := bind_eq_ok.mp hy
    cases hy
    unfold bytesIntoHash at hhh
    split at hhh
    · cases hhh
      rw [ih hys]; rfl
    · cases hhh

/-- The references of all input blocks, in block order. -/
def Tx.inputRefs (t : Tx) : List UtxoRef := t.inputs.flatMap fun i => refsOrNothing i.utxos

/-- **The body's inputs are exactly the blocks' references**, in order. -/
theorem C04_body_inputs_exact {t : Tx} {ins : List TxIn} (h : compileInputs t = .ok ins) :
    ins = t.inputRefs.map toTxIn :=
  mapMO_utxoRefIntoInput h

theorem toTxIn_inj {a b : UtxoRef} (h : toTxIn a = toTxIn b) : a = b := by
  cases a; cases b
  simp only [toTxIn, Prod.mk.injEq] at h
  obtain ⟨h1, h2⟩ := h
  subst h1 h2
  rfl

theorem map_pair_nodup {rs : List UtxoRef} (h : rs.Nodup) : (rs.map toTxIn).Nodup := by
  induction rs with
  | nil => simp
  | cons r rs ih =>
    obtain ⟨h1, h2⟩ := List.nodup_cons.mp h
    rw [List.map_cons, List.nodup_cons]
    refine ⟨?_, ih h2⟩
    intro hm
    obtain ⟨x, hx, hfx⟩ := List.mem_map.mp hm
    exact h1 (toTxIn_inj hfx ▸ hx)

theorem nodup_of_map_pair {rs : List UtxoRef} (h : (rs.map toTxIn).Nodup) : rs.Nodup := by
  induction rs with
  | nil => simp
  | cons r rs ih =>
    rw [List.map_cons, List.nodup_cons] at h
    rw [List.nodup_cons]
    exact ⟨fun hm => h.1 (List.mem_map.mpr ⟨r, hm, rfl⟩), ih h.2⟩

/-- **Each selected UTxO is listed once**: if no reference occurs in two blocks or twice in one
(what `C04_disjoint` establishes for the sets `inputs::resolve` binds to blocks with distinct names),
the body's input list has no repetition — on the compiled transaction. -/
theorem C04_body_no_duplicates {env : CompileEnv} {t : Tx} {a : ATx} (h : compileAbs env t = .ok a)
    (hd : t.inputRefs.Nodup) : a.inputs.Nodup := by
  rw [C04_body_inputs_exact (compileAbs_ok h).inputs]
  exact map_pair_nodup hd

/-- and conversely a reference held by two blocks is listed twice (the recorded finding: the
compiler does not de-duplicate). -/
theorem C04_body_duplicates_if_shared {t : Tx} {ins : List TxIn} (h : compileInputs t = .ok ins)
    (hd : ¬ t.inputRefs.Nodup) : ¬ ins.Nodup := by
  rw [C04_body_inputs_exact h]
  intro hn
  exact hd (nodup_of_map_pair hn)

def exInput : Input := { name := "a", utxos := .leaf (.utxoRefs [{ txid := [1], index := 0 }]), redeemer := .leaf .none }

example : (Tx.inputRefs ⟨.leaf .none, [], [exInput], [], none, [], [], [], [], none, []⟩).Nodup := by
  simp [Tx.inputRefs, exInput, refsOrNothing, exprIntoUtxoRefs]

end Tx3
