import Tx3Proofs.Lemmas.Compile
import Tx3Proofs.Lemmas.Tir

/-!
# C14 — the back end is total: never a panic

Every `unwrap`/`expect`/`todo!`/`unreachable!`/slice-length panic of the Rust code is an
explicit `.panic` outcome of the model wherever it can still be reached.  The theorems say
that no input reaches one: compilation of any template, with any protocol parameters, returns
`ok` or `err`.  (The model of the reducer and of the compiler ops is covered in
`C14Reduce.lean`.)
-/

namespace Tx3
open Outcome

/-- Discharges `NoPanic` goals by structure: `ok`/`err`/`pure`, binds, `mapMO`, `if`, `match`. -/
macro "np_auto" : tactic => `(tactic| repeat (first
  | exact np_ok _ | exact np_err _ | exact np_pure _
  | assumption
  | apply np_bind | apply np_mapMO
  | intro _
  | split))

theorem np_cerr {α} (s : String) : NoPanic (cerr s : Outcome α) := np_err _

theorem np_exprIntoNumberC (e : Expr) : NoPanic (exprIntoNumberC e) := by
  unfold exprIntoNumberC; split <;> first | exact np_ok _ | exact np_cerr _
theorem np_numberIntoU64 (v : Int) (w : String) : NoPanic (numberIntoU64 v w) := by
  unfold numberIntoU64; split <;> first | exact np_ok _ | exact np_cerr _
theorem np_numberIntoI64 (v : Int) (w : String) : NoPanic (numberIntoI64 v w) := by
  unfold numberIntoI64; split <;> first | exact np_ok _ | exact np_cerr _
theorem np_bytesIntoHash (n : Nat) (b : Bytes) : NoPanic (bytesIntoHash n b) := by
  unfold bytesIntoHash; split <;> first | exact np_ok _ | exact np_cerr _
theorem np_exprIntoBytes (e : Expr) : NoPanic (exprIntoBytes e) := by
  unfold exprIntoBytes; split <;> first | exact np_ok _ | exact np_cerr _
theorem np_bytesIntoAddress (b : Bytes) : NoPanic (bytesIntoAddress b) := by
  unfold bytesIntoAddress; split <;> first | exact np_ok _ | exact np_cerr _
theorem np_policyIntoAddress (env : CompileEnv) (p : Bytes) : NoPanic (policyIntoAddress env p) := by
  unfold policyIntoAddress; exact np_bind (np_bytesIntoHash _ _) fun _ => np_ok _
theorem np_exprIntoAddress (env : CompileEnv) (e : Expr) : NoPanic (exprIntoAddress env e) := by
  unfold exprIntoAddress
  split <;> first | exact np_bytesIntoAddress _ | exact np_policyIntoAddress _ _ | exact np_cerr _
theorem np_exprIntoAssets (e : Expr) : NoPanic (exprIntoAssets e) := by
  unfold exprIntoAssets; split <;> first | exact np_ok _ | exact np_cerr _
theorem np_exprIntoUtxoRefs (e : Expr) : NoPanic (exprIntoUtxoRefs e) := by
  unfold exprIntoUtxoRefs; split <;> first | exact np_ok _ | exact np_cerr _ | (split <;> first | exact np_ok _ | exact np_cerr _)
theorem np_utxoRefIntoInput (r : UtxoRef) : NoPanic (utxoRefIntoInput r) := by
  unfold utxoRefIntoInput; exact np_bind (np_bytesIntoHash _ _) fun _ => np_ok _
theorem np_exprIntoAddressKeyhash (e : Expr) : NoPanic (exprIntoAddressKeyhash e) := by
  unfold exprIntoAddressKeyhash
  split
  · exact np_bytesIntoHash _ _
  · apply np_bind (np_bytesIntoAddress _); intro a; split
    · split <;> first | exact np_ok _ | exact np_cerr _
    · exact np_cerr _
  · exact np_cerr _
theorem np_exprIntoRewardAccount (env : CompileEnv) (e : Expr) : NoPanic (exprIntoRewardAccount env e) := by
  unfold exprIntoRewardAccount
  apply np_bind (np_exprIntoAddress _ _); intro a
  split
  · simp only; repeat (first | exact np_ok _ | exact np_err _ | split)
  · exact np_err _

/-! ### Plutus data -/

theorem np_tryAsDataL_of (es : List Expr) (h : ∀ e ∈ es, NoPanic (tryAsData e)) : NoPanic (tryAsDataL es) := by
  induction es with
  | nil => rw [tryAsDataL]; exact np_ok _
  | cons c cs ih =>
    rw [tryAsDataL]
    exact np_bind (h c List.mem_cons_self) fun _ =>
      np_bind (ih fun e he => h e (List.mem_cons_of_mem _ he)) fun _ => np_ok _

theorem np_tryAsDataKV_of : ∀ (n : Nat) (es : List Expr), es.length ≤ n →
    (∀ e ∈ es, NoPanic (tryAsData e)) → NoPanic (tryAsDataKV es) := by
  intro n
  induction n with
  | zero =>
    intro es hl _
    cases es with
    | nil => rw [tryAsDataKV]; exact np_ok _; intro k v rest h; cases h
    | cons c cs => simp at hl
  | succ n ih =>
    intro es hl h
    match es with
    | [] => rw [tryAsDataKV]; exact np_ok _; intro k v rest h; cases h
    | [c] => rw [tryAsDataKV]; exact np_ok _; intro k v rest h; cases h
    | k :: v :: rest =>
      rw [tryAsDataKV]
      exact np_bind (h k (by simp)) fun _ => np_bind (h v (by simp)) fun _ =>
        np_bind (ih rest (by simp at hl; omega) fun e he => h e (by simp [he])) fun _ => np_ok _

theorem np_tryAsData_aux :
    (∀ e : Expr, NoPanic (tryAsData e)) ∧ (∀ es : List Expr, ∀ e ∈ es, NoPanic (tryAsData e)) := by
  apply Expr.induct (P := fun e => NoPanic (tryAsData e)) (Q := fun es => ∀ e ∈ es, NoPanic (tryAsData e))
  · intro l; cases l <;> simp only [tryAsData] <;> first | exact np_ok _ | exact np_err _
  · intro k cs ih
    cases k <;> simp only [tryAsData] <;> first
      | exact np_err _
      | exact np_bind (np_tryAsDataL_of cs ih) fun _ => np_ok _
      | exact np_bind (np_tryAsDataKV_of cs.length cs (Nat.le_refl _) ih) fun _ => np_ok _
  · intro e he; cases he
  · intro c cs hc hcs e he
    rcases List.mem_cons.mp he with he | he
    · subst he; exact hc
    · exact hcs e he

theorem np_tryAsData (e : Expr) : NoPanic (tryAsData e) := np_tryAsData_aux.1 e
theorem np_tryAsDataL (es : List Expr) : NoPanic (tryAsDataL es) :=
  np_tryAsDataL_of es (np_tryAsData_aux.2 es)
theorem np_tryAsDataKV (es : List Expr) : NoPanic (tryAsDataKV es) :=
  np_tryAsDataKV_of es.length es (Nat.le_refl _) (np_tryAsData_aux.2 es)

theorem np_compileDataExpr_aux :
    (∀ e : Expr, NoPanic (compileDataExpr e)) ∧ (∀ es : List Expr, ∀ e ∈ es, NoPanic (compileDataExpr e)) := by
  apply Expr.induct (P := fun e => NoPanic (compileDataExpr e))
    (Q := fun es => ∀ e ∈ es, NoPanic (compileDataExpr e))
  · intro l; cases l <;> simp only [compileDataExpr] <;> first | exact np_ok _ | exact np_err _
  · intro k cs ih
    have hL : NoPanic (compileDataExprL cs) := by
      clear k
      induction cs with
      | nil => rw [compileDataExprL]; exact np_ok _
      | cons c cs ihc =>
        rw [compileDataExprL]
        exact np_bind (ih c List.mem_cons_self) fun _ =>
          np_bind (ihc fun e he => ih e (List.mem_cons_of_mem _ he)) fun _ => np_ok _
    cases k <;> simp only [compileDataExpr] <;> first
      | exact np_err _
      | exact np_bind hL fun _ => np_ok _
      | exact np_bind (np_tryAsDataL cs) fun _ => np_ok _
      | exact np_bind (np_tryAsDataKV cs) fun _ => np_ok _
  · intro e he; cases he
  · intro c cs hc hcs e he
    rcases List.mem_cons.mp he with he | he
    · subst he; exact hc
    · exact hcs e he

theorem np_compileDataExpr (e : Expr) : NoPanic (compileDataExpr e) := np_compileDataExpr_aux.1 e

/-! ### outputs, mint, body fields -/

theorem np_compileValue (p n a : Expr) : NoPanic (compileValue p n a) := by
  unfold compileValue
  apply np_bind (np_exprIntoNumberC _); intro amount
  split
  · exact np_ok _
  · split
    · apply np_bind (np_exprIntoBytes _); intro _
      apply np_bind (np_bytesIntoHash _ _); intro _
      apply np_bind (np_exprIntoBytes _); intro _
      apply np_bind (np_exprIntoNumberC _); intro _
      apply np_bind (np_numberIntoU64 _ _); intro _
      split <;> first | exact np_cerr _ | exact np_ok _
    · exact np_ok _

theorem np_compileValues : ∀ (n : Nat) (cs : List Expr), cs.length ≤ n → NoPanic (compileValues cs) := by
  intro n
  induction n with
  | zero => intro cs h; cases cs with
    | nil => rw [compileValues]; exact np_ok _; intro p n a rest h; cases h
    | cons c cs => simp at h
  | succ n ih =>
    intro cs h
    match cs with
    | [] => rw [compileValues]; exact np_ok _; intro p n a rest h; cases h
    | [_] => rw [compileValues]; exact np_ok _; intro p n a rest h; cases h
    | [_, _] => rw [compileValues]; exact np_ok _; intro p n a rest h; cases h
    | p :: nm :: a :: rest =>
      rw [compileValues]
      exact np_bind (np_compileValue _ _ _) fun _ =>
        np_bind (ih rest (by simp at h; omega)) fun _ => np_ok _

theorem np_aggregateOutput (vs : List CValue) : NoPanic (aggregateOutput vs) := by
  unfold aggregateOutput; simp only; split <;> first | exact np_cerr _ | exact np_ok _

theorem np_optData (d : Option Expr) :
    NoPanic (match d with
      | some e => do let x ← compileDataExpr e; pure (some x)
      | none => pure none : Outcome (Option PData)) := by
  cases d with
  | none => exact np_pure _
  | some e => exact np_bind (np_compileDataExpr e) fun _ => np_pure _

theorem np_compileOutputCore (env : CompileEnv) (address amount : Expr) (datum : Option Expr) :
    NoPanic (compileOutputCore env address amount datum) := by
  unfold compileOutputCore
  apply np_bind (np_exprIntoAddress _ _); intro _
  apply np_bind (np_exprIntoAssets _); intro cs
  apply np_bind (np_compileValues cs.length cs (Nat.le_refl _)); intro vs
  apply np_bind (np_aggregateOutput vs); intro ⟨coin, assets⟩
  apply np_bind (np_optData datum); intro _
  exact np_ok _

theorem np_getOrMissing (o : Option Expr) :
    NoPanic (match o with | some e => .ok e | none => .err "MissingExpression" : Outcome Expr) := by
  cases o <;> first | exact np_ok _ | exact np_err _

theorem np_compileAdhocScript (v s : Option Expr) : NoPanic (compileAdhocScript v s) := by
  unfold compileAdhocScript
  apply np_bind
  · cases s with
    | none => exact np_pure _
    | some e => exact np_bind (np_exprIntoBytes e) fun _ => np_pure _
  intro sb
  apply np_bind
  · cases v with
    | none => exact np_pure _
    | some e => exact np_bind (np_exprIntoNumberC e) fun _ => np_pure _
  intro vv
  cases sb with
  | none => exact np_err _
  | some b => simp only; repeat (first | exact np_ok _ | exact np_err _ | exact np_cerr _ | split)

theorem np_compilePublish (env : CompileEnv) (d : Expr) : NoPanic (compilePublish env d) := by
  unfold compilePublish
  apply np_bind (np_getOrMissing _); intro _
  apply np_bind (np_exprIntoAddress _ _); intro _
  apply np_bind (np_getOrMissing _); intro _
  apply np_bind (np_exprIntoAssets _); intro cs
  apply np_bind (np_compileValues cs.length cs (Nat.le_refl _)); intro vs
  apply np_bind (np_aggregateOutput vs); intro ⟨coin, assets⟩
  apply np_bind
  · cases adhocGet d "datum" with
    | none => exact np_pure _
    | some e => exact np_bind (np_compileDataExpr e) fun _ => np_pure _
  intro _
  apply np_bind
  · cases adhocGet d "version" <;> cases adhocGet d "script" <;>
      first | exact np_pure _ | exact np_bind (np_compileAdhocScript _ _) fun _ => np_pure _
  intro _
  exact np_ok _

theorem np_compileOutputs (env : CompileEnv) (t : Tx) : NoPanic (compileOutputs env t) := by
  unfold compileOutputs
  simp only
  apply np_bind
  · apply np_mapMO_mem
    intro x hx
    obtain ⟨hx1, _⟩ := List.mem_filter.mp hx
    obtain ⟨o, _, ho⟩ := List.mem_map.mp hx1
    rw [← ho]
    exact np_compileOutputCore _ _ _ _
  intro _
  exact np_bind (np_mapMO (np_compilePublish env) _) fun _ => np_ok _

theorem np_compileMintAsset (b : Bool) (p n a : Expr) : NoPanic (compileMintAsset b p n a) := by
  unfold compileMintAsset
  apply np_bind (np_exprIntoBytes _); intro _
  apply np_bind (np_bytesIntoHash _ _); intro _
  apply np_bind (np_exprIntoBytes _); intro _
  apply np_bind (np_exprIntoNumberC _); intro _
  apply np_bind
  · repeat (first | exact np_ok _ | exact np_cerr _ | split)
  intro _
  apply np_bind (np_numberIntoI64 _ _); intro _
  split <;> first | exact np_cerr _ | exact np_ok _

theorem np_compileMintAssets (b : Bool) : ∀ (n : Nat) (cs : List Expr), cs.length ≤ n →
    NoPanic (compileMintAssets b cs) := by
  intro n
  induction n with
  | zero => intro cs h; cases cs with
    | nil => rw [compileMintAssets]; exact np_ok _; intro p n a rest h; cases h
    | cons c cs => simp at h
  | succ n ih =>
    intro cs h
    match cs with
    | [] => rw [compileMintAssets]; exact np_ok _; intro p n a rest h; cases h
    | [_] => rw [compileMintAssets]; exact np_ok _; intro p n a rest h; cases h
    | [_, _] => rw [compileMintAssets]; exact np_ok _; intro p n a rest h; cases h
    | p :: nm :: a :: rest =>
      rw [compileMintAssets]
      exact np_bind (np_compileMintAsset _ _ _ _) fun _ =>
        np_bind (ih rest (by simp at h; omega)) fun _ => np_ok _

theorem np_compileMintBlock (t : Tx) : NoPanic (compileMintBlock t) := by
  unfold compileMintBlock
  split
  · exact np_ok _
  · apply np_bind (np_mapMO (fun m => np_exprIntoAssets _) _); intro ml
    apply np_bind (np_compileMintAssets _ _ _ (Nat.le_refl _)); intro _
    apply np_bind (np_mapMO (fun m => np_exprIntoAssets _) _); intro bl
    apply np_bind (np_compileMintAssets _ _ _ (Nat.le_refl _)); intro _
    apply np_bind
    · exact np_mapMO (fun x => np_bind (np_numberIntoI64 _ _) fun _ => np_pure _) _
    intro _
    exact np_ok _

theorem np_compileValidity (t : Tx) : NoPanic (compileValidity t) := by
  unfold compileValidity
  have conv : ∀ e : Expr, NoPanic (if e.isNone = true then (Outcome.ok none : Outcome (Option Int)) else do
      let n ← exprIntoNumberC e
      let s ← numberIntoU64 n "slot"
      Outcome.ok (some s)) := by
    intro e
    split
    · exact np_ok _
    · exact np_bind (np_exprIntoNumberC _) fun _ => np_bind (np_numberIntoU64 _ _) fun _ => np_ok _
  simp only
  split
  · exact np_ok _
  · exact np_bind (conv _) fun _ => np_bind (conv _) fun _ => np_ok _

theorem np_compileWithdrawalDirective (env : CompileEnv) (d : Expr) :
    NoPanic (compileWithdrawalDirective env d) := by
  unfold compileWithdrawalDirective
  apply np_bind (np_getOrMissing _); intro _
  apply np_bind (np_exprIntoRewardAccount _ _); intro _
  apply np_bind (np_getOrMissing _); intro _
  apply np_bind (np_exprIntoNumberC _); intro _
  apply np_bind (np_numberIntoU64 _ _); intro _
  exact np_ok _

theorem np_compileWithdrawals (env : CompileEnv) (t : Tx) : NoPanic (compileWithdrawals env t) := by
  unfold compileWithdrawals
  have key : ∀ (ds : List Expr) (acc : List (Bytes × Int)), NoPanic (compileWithdrawals.go env ds acc) := by
    intro ds
    induction ds with
    | nil => intro acc; rw [compileWithdrawals.go]; exact np_ok _
    | cons d rest ih =>
      intro acc
      rw [compileWithdrawals.go]
      apply np_bind (np_compileWithdrawalDirective _ _); intro w
      split
      · exact np_err _
      · exact ih _
  exact key _ _

theorem np_exprIntoStakeCredential (env : CompileEnv) (e : Expr) : NoPanic (exprIntoStakeCredential env e) := by
  unfold exprIntoStakeCredential
  apply np_bind (np_exprIntoAddress _ _); intro a
  split
  · simp only
    repeat (first | exact np_ok _ | exact np_cerr _ | split)
  · exact np_cerr _

theorem np_compileCerts (env : CompileEnv) (t : Tx) : NoPanic (compileCerts env t) := by
  unfold compileCerts
  apply np_mapMO
  intro d
  apply np_bind (np_getOrMissing _); intro _
  apply np_bind (np_exprIntoStakeCredential _ _); intro sc
  obtain ⟨script, cred⟩ := sc
  apply np_bind (np_getOrMissing _); intro _
  apply np_bind (np_exprIntoBytes _); intro _
  apply np_bind (np_bytesIntoHash _ _); intro _
  exact np_pure _

theorem np_compileRequiredSigners (t : Tx) : NoPanic (compileRequiredSigners t) := by
  unfold compileRequiredSigners
  split
  · exact np_ok _
  · exact np_mapMO np_exprIntoAddressKeyhash _

theorem np_compileDonation (t : Tx) : NoPanic (compileDonation t) := by
  unfold compileDonation
  split
  · exact np_ok _
  · apply np_bind (np_exprIntoNumberC _); intro _
    apply np_bind (np_numberIntoU64 _ _); intro _
    split <;> first | exact np_cerr _ | exact np_ok _

theorem np_insertRedeemer (k : Nat × Nat) (d : PData) :
    ∀ l : List ((Nat × Nat) × PData), NoPanic (insertRedeemer k d l) := by
  intro l
  induction l with
  | nil => rw [insertRedeemer]; exact np_ok _
  | cons x xs ih =>
    obtain ⟨k', d'⟩ := x
    rw [insertRedeemer]
    split
    · split <;> first | exact np_ok _ | exact np_err _
    · split
      · exact np_ok _
      · exact np_bind ih fun _ => np_ok _

theorem np_compileSpendRedeemers (t : Tx) (ins : List TxIn) : NoPanic (compileSpendRedeemers t ins) := by
  unfold compileSpendRedeemers
  simp only
  apply np_bind
  · apply np_mapMO
    intro i
    apply np_bind (np_exprIntoUtxoRefs _); intro utxos
    split
    · exact np_err _
    · split
      · exact np_ok _
      · apply np_mapMO
        intro r
        split
        · exact np_bind (np_tryAsData _) fun _ => np_ok _
        · exact np_err _
  intro _
  exact np_ok _

theorem np_mintPoliciesLoop : ∀ (n : Nat) (cs : List Expr) (acc : List Bytes), cs.length ≤ n →
    NoPanic (compileMintRedeemers.policies cs acc) := by
  intro n
  induction n with
  | zero => intro cs acc h; cases cs with
    | nil => rw [compileMintRedeemers.policies]; exact np_ok _; intro p a b rest h; cases h
    | cons c cs => simp at h
  | succ n ih =>
    intro cs acc h
    match cs with
    | [] => rw [compileMintRedeemers.policies]; exact np_ok _; intro p a b rest h; cases h
    | [_] => rw [compileMintRedeemers.policies]; exact np_ok _; intro p a b rest h; cases h
    | [_, _] => rw [compileMintRedeemers.policies]; exact np_ok _; intro p a b rest h; cases h
    | p :: a :: b :: rest =>
      rw [compileMintRedeemers.policies]
      apply np_bind (np_exprIntoBytes _); intro _
      apply np_bind (np_bytesIntoHash _ _); intro _
      exact ih rest _ (by simp at h; omega)

theorem np_compileMintRedeemers (blocks : List Mint) (mint : List (Bytes × Bytes × Int)) :
    NoPanic (compileMintRedeemers blocks mint) := by
  unfold compileMintRedeemers
  apply np_bind
  · apply np_mapMO
    intro m
    split
    · exact np_ok _
    · apply np_bind (np_exprIntoAssets _); intro cs
      split
      · exact np_err _
      · apply np_bind (np_mintPoliciesLoop cs.length cs [] (Nat.le_refl _)); intro ps
        apply np_mapMO
        intro p
        split
        · exact np_bind (np_tryAsData _) fun _ => np_ok _
        · exact np_err _
  intro _
  exact np_ok _

theorem np_compileWithdrawalRedeemers (env : CompileEnv) (t : Tx) (ws : List (Bytes × Int)) :
    NoPanic (compileWithdrawalRedeemers env t ws) := by
  unfold compileWithdrawalRedeemers
  apply np_bind
  · apply np_mapMO
    intro d
    split
    · exact np_ok _
    · split
      · exact np_ok _
      · apply np_bind (np_getOrMissing _); intro _
        apply np_bind (np_exprIntoRewardAccount _ _); intro _
        split
        · exact np_bind (np_tryAsData _) fun _ => np_ok _
        · exact np_err _
  intro _
  exact np_ok _

theorem np_compileRedeemers (env : CompileEnv) (t : Tx) (ins : List TxIn)
    (mint : List (Bytes × Bytes × Int)) (ws : List (Bytes × Int)) :
    NoPanic (compileRedeemers env t ins mint ws) := by
  unfold compileRedeemers
  apply np_bind (np_compileSpendRedeemers _ _); intro _
  apply np_bind (np_compileMintRedeemers _ _); intro _
  apply np_bind (np_compileMintRedeemers _ _); intro _
  apply np_bind (np_compileWithdrawalRedeemers _ _ _); intro _
  have key : ∀ (l acc : List ((Nat × Nat) × PData)), NoPanic (compileRedeemers.ins l acc) := by
    intro l
    induction l with
    | nil => intro acc; rw [compileRedeemers.ins]; exact np_ok _
    | cons x xs ih =>
      intro acc
      obtain ⟨k, d⟩ := x
      rw [compileRedeemers.ins]
      exact np_bind (np_insertRedeemer _ _ _) fun _ => ih _
  exact key _ _

theorem np_nativeWitnessOk (t : Tx) : NoPanic (nativeWitnessOk t) := by
  unfold nativeWitnessOk; simp only; split <;> first | exact np_ok _ | exact np_err _

theorem np_exprIntoMetadatum (e : Expr) : NoPanic (exprIntoMetadatum e) := by
  unfold exprIntoMetadatum
  split
  · split <;> first | exact np_ok _ | exact np_cerr _
  · exact np_ok _
  · exact np_ok _
  · exact np_cerr _

theorem np_compileAuxiliaryData (t : Tx) : NoPanic (compileAuxiliaryData t) := by
  unfold compileAuxiliaryData
  apply np_bind
  · apply np_mapMO
    intro m
    apply np_bind (np_exprIntoNumberC _); intro _
    apply np_bind (np_numberIntoU64 _ _); intro _
    apply np_bind (np_exprIntoMetadatum _); intro _
    exact np_pure _
  intro _
  exact np_ok _

/-- **C14 (compile).** For every constant or non-constant template and every protocol-parameter
set (including ones without cost models), compilation returns a transaction or an error; it
never panics. -/
theorem C14_compile_total (env : CompileEnv) (t : Tx) : NoPanic (compileAbs env t) := by
  unfold compileAbs
  apply np_bind (np_compileValidity _); intro ⟨since, untl⟩
  simp only
  apply np_bind (np_mapMO np_utxoRefIntoInput _); intro _
  apply np_bind (np_compileOutputs _ _); intro _
  apply np_bind (np_exprIntoNumberC _); intro _
  apply np_bind (np_numberIntoU64 _ _); intro _
  apply np_bind (np_compileCerts _ _); intro _
  apply np_bind (np_compileMintBlock _); intro _
  apply np_bind (np_mapMO np_utxoRefIntoInput _); intro _
  apply np_bind (np_compileWithdrawals _ _); intro _
  apply np_bind (np_mapMO np_utxoRefIntoInput _); intro _
  apply np_bind (np_compileRequiredSigners _); intro _
  apply np_bind (np_compileDonation _); intro _
  apply np_bind (np_compileRedeemers _ _ _ _ _); intro _
  apply np_bind (np_nativeWitnessOk _); intro _
  apply np_bind (np_compileAuxiliaryData _); intro _
  split <;> first | exact np_err _ | exact np_ok _

end Tx3
