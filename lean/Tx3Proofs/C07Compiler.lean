import Tx3Model.Reduce
import Tx3Model.CompilerOps
import Tx3Proofs.Lemmas.Outcome
import Tx3Proofs.Lemmas.Tir

/-!
# C07 — the compiler-op stage: what it leaves behind, and running it again

The stage that asks the chain-specific compiler for `min_utxo`, `tip_slot`, `slot_to_time`, `time_to_slot` and script
addresses walks the template and replaces every compiler-op node by what the compiler answers for its (walked and
reduced) operands.  Proved for the model `compilerPass`, for every way the compiler may answer (`rop` arbitrary):

* a template without compiler ops comes back unchanged (`compilerPass_opFree`);
* when the compiler's answers hold no compiler op themselves - numbers, asset lists, addresses: all the Cardano
  compiler ever answers - a successful pass leaves none anywhere (`compilerPass_leaves_none`), and
* a second pass changes nothing (`C07_compiler_pass_idempotent`): schedules that differ in how often the stage runs
  after its first success agree.
-/

namespace Tx3
open Outcome Expr

mutual
/-- No compiler op anywhere the stage looks (it does not look inside resolved UTxOs). -/
def opFree : Expr → Bool
  | .leaf _ => true
  | .node k cs =>
    match k with
    | .utxoSet _ => true
    | .compiler _ => false
    | _ => opFreeL cs
def opFreeL : List Expr → Bool
  | [] => true
  | c :: cs => opFree c && opFreeL cs
end

theorem compilerPass_opFree_aux (rop : ReduceOp) :
    (∀ e : Expr, opFree e = true → compilerPass rop e = .ok e) ∧
    (∀ es : List Expr, opFreeL es = true → compilerPassL rop es = .ok es) := by
  apply Expr.induct
  · intro l _; simp [compilerPass]
  · intro k cs ih h
    cases k with
    | utxoSet m => simp [compilerPass]
    | compiler c => simp [opFree] at h
    | param p => cases p <;> (simp only [opFree] at h; simp [compilerPass, ih h])
    | list | map | tuple | struct | assets | builtin | coerce | adhoc =>
      simp only [opFree] at h; simp [compilerPass, ih h]
  · intro _; simp [compilerPassL]
  · intro c cs ihc ihcs h
    simp only [opFreeL, Bool.and_eq_true] at h
    simp [compilerPassL, ihc h.1, ihcs h.2]

/-- **Nothing to do, nothing done.** -/
theorem compilerPass_opFree (rop : ReduceOp) (e : Expr) (h : opFree e = true) : compilerPass rop e = .ok e :=
  (compilerPass_opFree_aux rop).1 e h

theorem compilerPass_leaves_none_aux (rop : ReduceOp) (hrop : ∀ c cs r, rop c cs = .ok r → opFree r = true) :
    (∀ e e' : Expr, compilerPass rop e = .ok e' → opFree e' = true) ∧
    (∀ es es' : List Expr, compilerPassL rop es = .ok es' → opFreeL es' = true) := by
  apply Expr.induct
  · intro l e' h; simp [compilerPass] at h; subst h; simp [opFree]
  · intro k cs ih e' h
    cases k with
    | utxoSet m => simp [compilerPass] at h; subst h; simp [opFree]
    | compiler c =>
      simp only [compilerPass] at h
      obtain ⟨cs', _, h⟩ := bind_eq_ok.mp h
      obtain ⟨cs'', _, h⟩ := bind_eq_ok.mp h
      exact hrop c cs'' e' h
    | param p =>
      cases p <;>
        (simp only [compilerPass] at h
         obtain ⟨cs', hcs, h⟩ := bind_eq_ok.mp h
         cases h
         simp only [opFree]
         exact ih cs' hcs)
    | list | map | tuple | struct | assets | builtin | coerce | adhoc =>
      simp only [compilerPass] at h
      obtain ⟨cs', hcs, h⟩ := bind_eq_ok.mp h
      cases h
      simp only [opFree]
      exact ih cs' hcs
  · intro es' h; simp [compilerPassL] at h; subst h; simp [opFreeL]
  · intro c cs ihc ihcs es' h
    simp only [compilerPassL] at h
    obtain ⟨c', hc, h⟩ := bind_eq_ok.mp h
    obtain ⟨cs', hcs, h⟩ := bind_eq_ok.mp h
    cases h
    simp [opFreeL, ihc c' hc, ihcs cs' hcs]

/-- **A successful pass leaves no compiler op behind**, when the compiler's own answers hold none. -/
theorem compilerPass_leaves_none (rop : ReduceOp) (hrop : ∀ c cs r, rop c cs = .ok r → opFree r = true)
    (e e' : Expr) (h : compilerPass rop e = .ok e') : opFree e' = true :=
  (compilerPass_leaves_none_aux rop hrop).1 e e' h

/-- **Running the stage again changes nothing.** -/
theorem C07_compiler_pass_idempotent (rop : ReduceOp) (hrop : ∀ c cs r, rop c cs = .ok r → opFree r = true)
    (e e' : Expr) (h : compilerPass rop e = .ok e') : compilerPass rop e' = .ok e' :=
  compilerPass_opFree rop e' (compilerPass_leaves_none rop hrop e e' h)

/-- Non-vacuity: a stage that answers `tip_slot()` with a number; the second pass is the identity. -/
example :
    let rop : ReduceOp := fun _ _ => .ok (.leaf (.number 7))
    compilerPass rop (.node .list [.node (.compiler .computeTipSlot) [], .leaf (.number 1)]) =
      .ok (.node .list [.leaf (.number 7), .leaf (.number 1)]) := by
  simp [compilerPass, compilerPassL, mapMO]

/-- **The Cardano compiler's answers hold no compiler op**: a script address, a lovelace amount, a slot or a
timestamp - so the two theorems above apply to the model of `tx3-cardano`'s `reduce_op`, whatever its chain point,
parameters and remembered body. -/
theorem reduceOp_answers_opFree (env : OpEnv) (c : CKind) (cs : List Expr) (r : Expr)
    (h : reduceOp env c cs = .ok r) : opFree r = true := by
  -- every successful answer is a leaf or a single asset entry over leaves
  have leafFree : ∀ l : Leaf, opFree (.leaf l) = true := fun l => by simp [opFree]
  have hmk : ∀ (b : Bytes) (r : Expr),
      (if b.length = 28 then Outcome.ok (Expr.leaf (.address ((if env.mainnet then 0x71 else 0x70) :: b)))
       else opErr "CoerceError:28-byte hash") = .ok r → opFree r = true := by
    intro b r hh
    split at hh
    · cases hh; exact leafFree _
    · simp [opErr] at hh
  cases c with
  | buildScriptAddress =>
    rcases cs with _ | ⟨x, _ | ⟨y, ys⟩⟩
    · simp [reduceOp] at h
    · simp only [reduceOp] at h
      split at h
      · exact hmk _ _ h
      · exact hmk _ _ h
      · simp [opErr] at h
    · simp [reduceOp] at h
  | computeMinUtxo =>
    rcases cs with _ | ⟨x, _ | ⟨y, ys⟩⟩
    · simp [reduceOp] at h
    · simp only [reduceOp] at h
      obtain ⟨idx, _, h⟩ := bind_eq_ok.mp h
      obtain ⟨lovelace, _, h⟩ := bind_eq_ok.mp h
      cases h; simp [opFree, opFreeL]
    · simp [reduceOp] at h
  | computeTipSlot =>
    rcases cs with _ | ⟨x, xs⟩
    · simp only [reduceOp] at h; cases h; exact leafFree _
    · simp [reduceOp] at h
  | computeSlotToTime =>
    rcases cs with _ | ⟨x, _ | ⟨y, ys⟩⟩
    · simp [reduceOp] at h
    · simp only [reduceOp] at h
      obtain ⟨slot, _, h⟩ := bind_eq_ok.mp h
      split at h
      · simp [opErr] at h
      · split at h
        · cases h; exact leafFree _
        · simp [opErr] at h
    · simp [reduceOp] at h
  | computeTimeToSlot =>
    rcases cs with _ | ⟨x, _ | ⟨y, ys⟩⟩
    · simp [reduceOp] at h
    · simp only [reduceOp] at h
      obtain ⟨time, _, h⟩ := bind_eq_ok.mp h
      split at h
      · simp [opErr] at h
      · split at h
        · cases h; exact leafFree _
        · simp [opErr] at h
    · simp [reduceOp] at h

/-- The compiler stage of the Cardano model is idempotent once it has succeeded. -/
theorem C07_cardano_compiler_pass_idempotent (env : OpEnv) (e e' : Expr)
    (h : compilerPass (reduceOp env) e = .ok e') : compilerPass (reduceOp env) e' = .ok e' :=
  C07_compiler_pass_idempotent _ (reduceOp_answers_opFree env) e e' h

end Tx3
