import Tx3Proofs.Lemmas.Tir
import Tx3Proofs.Lemmas.Outcome

/-!
# C07 — reduction is idempotent (and leaves a normal form)

`NF e`: no node of `e` can still be rewritten by `reduce` — no `Set`, no `NoOp`, and every built-in
or coercion that is left has an operand that is not constant.  `WF e`: the payload of every
substituted parameter and the datum/script of every resolved UTxO is in normal form (what
`apply_args` / `apply_inputs` / `apply_fees` put there: values).

* `reduce_nf`   : `WF e → reduceF n e = ok e' → NF e'`             (whatever the fuel)
* `nf_fix`      : `NF e → reduceF n e = ok e' → e' = e`             (whatever the fuel)
* `nf_fix_fuel` : `NF e → size e ≤ n → reduceF n e = ok e`
* `C07_reduce_idempotent` : `WF e → reduce e = ok e' → reduce e' = ok e'`
* `C07_reduce_not_idempotent_without_WF`: the hypothesis is needed — on arbitrary decoded IR
  (`Set(Add(1, 2))`) a second reduction still makes progress.
-/

namespace Tx3
open Outcome

namespace Expr

@[simp] theorem NFL_nil : NFL [] = true := by simp [NFL]
@[simp] theorem NFL_cons (c : Expr) (cs : List Expr) : NFL (c :: cs) = (NF c && NFL cs) := by simp [NFL]
@[simp] theorem WFL_nil : WFL [] = true := by simp [WFL]
@[simp] theorem WFL_cons (c : Expr) (cs : List Expr) : WFL (c :: cs) = (WF c && WFL cs) := by simp [WFL]
@[simp] theorem NF_leaf (l : Leaf) : NF (leaf l) = true := by simp [NF]

theorem NFL_iff {cs : List Expr} : NFL cs = true ↔ ∀ c ∈ cs, NF c = true := by
  induction cs with
  | nil => simp
  | cons c cs ih => simp [ih]

theorem WFL_iff {cs : List Expr} : WFL cs = true ↔ ∀ c ∈ cs, WF c = true := by
  induction cs with
  | nil => simp
  | cons c cs ih => simp [ih]

theorem NFL_append {xs ys : List Expr} : NFL (xs ++ ys) = (NFL xs && NFL ys) := by
  induction xs with
  | nil => simp
  | cons x xs ih => simp [ih, Bool.and_assoc]

end Expr

open Expr

/-! ### `mapMO` against a pointwise fact -/

theorem mapMO_ok_forall {f : Expr → Outcome Expr} {P : Expr → Prop} :
    ∀ {l r : List Expr}, mapMO f l = .ok r → (∀ a ∈ l, ∀ b, f a = .ok b → P b) → ∀ b ∈ r, P b := by
  intro l
  induction l with
  | nil => intro r h _; rw [mapMO] at h; cases h; intro b hb; cases hb
  | cons x xs ih =>
    intro r h hp
    rw [mapMO] at h
    obtain ⟨y, hy, h⟩ := bind_eq_ok.mp h
    obtain ⟨ys, hys, h⟩ := bind_eq_ok.mp h
    cases h
    intro b hb
    rcases List.mem_cons.mp hb with rfl | hb
    · exact hp x List.mem_cons_self _ hy
    · exact ih hys (fun a ha => hp a (List.mem_cons_of_mem _ ha)) b hb

theorem mapMO_id_of {f : Expr → Outcome Expr} :
    ∀ {l r : List Expr}, mapMO f l = .ok r → (∀ a ∈ l, ∀ b, f a = .ok b → b = a) → r = l := by
  intro l
  induction l with
  | nil => intro r h _; rw [mapMO] at h; cases h; rfl
  | cons x xs ih =>
    intro r h hp
    rw [mapMO] at h
    obtain ⟨y, hy, h⟩ := bind_eq_ok.mp h
    obtain ⟨ys, hys, h⟩ := bind_eq_ok.mp h
    cases h
    rw [hp x List.mem_cons_self _ hy, ih hys (fun a ha => hp a (List.mem_cons_of_mem _ ha))]

theorem mapMO_fix_of {f : Expr → Outcome Expr} :
    ∀ {l : List Expr}, (∀ a ∈ l, f a = .ok a) → mapMO f l = .ok l := by
  intro l
  induction l with
  | nil => intro _; rfl
  | cons x xs ih =>
    intro hp
    rw [mapMO, hp x List.mem_cons_self, ih (fun a ha => hp a (List.mem_cons_of_mem _ ha))]
    rfl

/-! ### results of the built-ins and coercions on normal-form operands are in normal form -/

theorem NF_assetsNode (a : Assets) : NF (assetsNode a) = true := by
  unfold assetsNode
  simp only [NF]
  rw [NFL_iff]
  intro c hc
  unfold childrenOfAssets at hc
  simp only [List.mem_flatMap] at hc
  obtain ⟨kv, _, hkv⟩ := hc
  simp only [List.mem_cons, List.mem_nil_iff, or_false] at hkv
  rcases hkv with rfl | rfl | rfl
  · split <;> simp
  · split <;> simp
  · simp

theorem NF_arithNeg {x r : Expr} (h : arithNeg x = .ok r) : NF r = true := by
  unfold arithNeg at h
  split at h
  · cases h; simp
  · split at h
    · cases h; simp
    · cases h
  · split at h
    · dsimp only at h
      split at h
      · cases h; exact NF_assetsNode _
      · cases h
    · cases h
  · cases h

theorem NF_arithAdd {x y r : Expr} (hx : NF x = true) (hy : NF y = true) (h : arithAdd x y = .ok r) :
    NF r = true := by
  unfold arithAdd at h
  split at h
  · cases h; exact hy
  · split at h
    · split at h
      · cases h; simp
      · cases h
    · cases h; exact hx
    · cases h
  · split at h
    · split at h
      · dsimp only at h
        split at h
        · cases h; exact NF_assetsNode _
        · cases h
      · cases h
    · split at h
      · cases h; exact NF_assetsNode _
      · cases h
    · cases h
  · cases h

theorem NF_arithSub {x y r : Expr} (hx : NF x = true) (hy : NF y = true) (h : arithSub x y = .ok r) :
    NF r = true := by
  unfold arithSub at h
  split at h
  · exact NF_arithNeg h
  · obtain ⟨ny, hny, h⟩ := bind_eq_ok.mp h
    exact NF_arithAdd hx (NF_arithNeg hny) h
  · obtain ⟨ny, hny, h⟩ := bind_eq_ok.mp h
    exact NF_arithAdd hx (NF_arithNeg hny) h
  · cases h

theorem NF_list_children {xs : List Expr} (h : NF (.node .list xs) = true) : NFL xs = true := by
  simpa [NF] using h

theorem NF_concat {x y r : Expr} (hx : NF x = true) (hy : NF y = true) (h : concat x y = .ok r) :
    NF r = true := by
  unfold concat at h
  split at h
  · cases h; exact hy
  · split at h
    · cases h; simp
    · cases h; simp
    · cases h; exact hx
    · cases h
  · split at h
    · cases h; simp
    · cases h; exact hx
    · cases h
  · split at h
    · cases h
      have h1 := NF_list_children hx
      have h2 := NF_list_children hy
      simp [NF, NFL_append, h1, h2]
    · cases h
  · cases h

theorem NF_findPair {idx : Expr} : ∀ {kvs : List Expr} {r : Expr}, NFL kvs = true →
    findPair idx kvs = some r → NF r = true := by
  intro kvs
  induction kvs using findPair.induct idx with
  | case1 k v rest hk =>
    intro r hn h
    rw [findPair] at h
    simp only [hk, if_true] at h
    cases h
    simp only [NFL_cons, Bool.and_eq_true] at hn
    simp [NF, hn.1, hn.2.1]
  | case2 k v rest hk ih =>
    intro r hn h
    rw [findPair] at h
    simp only [hk] at h
    simp only [NFL_cons, Bool.and_eq_true] at hn
    exact ih hn.2.2 (by simpa using h)
  | case3 kvs hne =>
    intro r _ h
    rw [findPair] at h
    · cases h
    · exact hne

theorem NF_getElem? {xs : List Expr} {i : Nat} {r : Expr} (hn : NFL xs = true) (h : xs[i]? = some r) :
    NF r = true := NFL_iff.mp hn r (List.mem_of_getElem? h)

theorem nth?_some {xs : List Expr} {n : Int} {r : Expr} (h : nth? xs n = some r) : ∃ i : Nat, xs[i]? = some r := by
  unfold nth? at h
  split at h
  · cases h
  · exact ⟨_, h⟩

theorem NF_index {x idx r : Expr} (hx : NF x = true) (h : index x idx = some r) : NF r = true := by
  unfold index at h
  split at h
  · exact NF_findPair (by simpa [NF] using hx) h
  · cases hn : idx.asNumber? with
    | none => simp [hn] at h
    | some n =>
      simp only [hn, Option.bind_eq_bind, Option.bind_some] at h
      obtain ⟨i, hi⟩ := nth?_some h
      exact NF_getElem? (by simpa [NF] using hx) hi
  · cases hn : idx.asNumber? with
    | none => simp [hn] at h
    | some n =>
      simp only [hn, Option.bind_eq_bind, Option.bind_some] at h
      simp only [NF, NFL_cons, NFL_nil, Bool.and_true, Bool.and_eq_true] at hx
      split at h
      · cases h; exact hx.1
      · split at h
        · cases h; exact hx.2
        · cases h
  · cases hn : idx.asNumber? with
    | none => simp [hn] at h
    | some n =>
      simp only [hn, Option.bind_eq_bind, Option.bind_some] at h
      obtain ⟨i, hi⟩ := nth?_some h
      exact NF_getElem? (by simpa [NF] using hx) hi
  · cases h

theorem NF_reduceBuiltin {b : BKind} {cs : List Expr} {r : Expr} (hn : NFL cs = true)
    (h : reduceBuiltin b cs = .ok r) : NF r = true := by
  unfold reduceBuiltin at h
  split at h
  · simp only [NFL_cons, NFL_nil, Bool.and_true, Bool.and_eq_true] at hn
    exact NF_arithAdd hn.1 hn.2 h
  · simp only [NFL_cons, NFL_nil, Bool.and_true, Bool.and_eq_true] at hn
    exact NF_arithSub hn.1 hn.2 h
  · simp only [NFL_cons, NFL_nil, Bool.and_true, Bool.and_eq_true] at hn
    exact NF_concat hn.1 hn.2 h
  · exact NF_arithNeg h
  · simp only [NFL_cons, NFL_nil, Bool.and_true, Bool.and_eq_true] at hn
    unfold indexOrErr at h
    split at h
    · cases h; exact NF_index hn.1 (by assumption)
    · cases h
  · simp only [NFL_cons, NFL_nil, Bool.and_true] at hn
    cases h; exact hn
  · cases h

theorem NF_firstDatum (metas : List UtxoMeta) (cs : List Expr) (hn : NFL cs = true) :
    NF (firstDatum metas cs) = true := by
  unfold firstDatum
  split
  · split
    · split
      · simp only [NFL_cons, Bool.and_eq_true] at hn; exact hn.1
      · simp
    · simp
  · simp

theorem NF_reduceCoerce {c : KKind} {cs : List Expr} {r : Expr} (hn : NFL cs = true)
    (h : reduceCoerce c cs = .ok r) : NF r = true := by
  unfold reduceCoerce at h
  split at h
  · simp only [NFL_cons, NFL_nil, Bool.and_true] at hn
    cases h; exact hn
  · simp only [NFL_cons, NFL_nil, Bool.and_true] at hn
    unfold intoAssets at h
    split at h
    · cases h; exact hn
    · cases h; exact hn
    · split at h
      · cases h; exact NF_assetsNode _
      · cases h
    · cases h
  · simp only [NFL_cons, NFL_nil, Bool.and_true] at hn
    unfold intoDatum at h
    split at h <;> first
      | (cases h; exact hn)
      | (cases h; simp)
      | (cases h; exact NF_firstDatum _ _ (by simpa [NF] using hn))
      | cases h
  · unfold errUn at h; cases h
  · cases h

/-! ### a normal form is a fixed point, whatever the fuel -/

theorem nf_fix : ∀ (n : Nat) (e e' : Expr), NF e = true → reduceF n e = .ok e' → e' = e := by
  intro n
  induction n with
  | zero => intro e e' _ h; rw [reduceF] at h; cases h
  | succ n ih =>
    intro e e' hn h
    have hL : ∀ {cs r : List Expr}, NFL cs = true → mapMO (reduceF n) cs = .ok r → r = cs := by
      intro cs r hcs hr
      exact mapMO_id_of hr fun a ha b hb => ih a b (NFL_iff.mp hcs a ha) hb
    cases e with
    | leaf l => rw [reduceF] at h; cases h; rfl
    | node k cs =>
      cases k with
      | param p =>
        cases p with
        | set => simp [NF] at hn
        | expectValue name ty => rw [reduceF] at h; cases h; rfl
        | expectFees => rw [reduceF] at h; cases h; rfl
        | expectInput name many coll =>
          have hcs : NFL cs = true := by simpa [NF] using hn
          simp only [reduceF] at h
          obtain ⟨cs1, h1, h⟩ := bind_eq_ok.mp h
          have e1 : cs1 = cs := hL hcs h1
          rw [e1] at h
          obtain ⟨cs2, h2, h⟩ := bind_eq_ok.mp h
          have e2 : cs2 = cs := hL hcs h2
          rw [e2] at h
          cases h; rfl
      | builtin b =>
        cases b with
        | noop => simp [NF] at hn
        | add | sub | concat | negate | property =>
          have hcs : NFL cs = true ∧ isConstantL cs = false := by simpa [NF] using hn
          simp only [reduceF] at h
          obtain ⟨cs1, h1, h⟩ := bind_eq_ok.mp h
          have e1 : cs1 = cs := hL hcs.1 h1
          rw [e1] at h
          try dsimp only at h
          rw [if_neg (by simp [hcs.2])] at h
          obtain ⟨cs2, h2, h⟩ := bind_eq_ok.mp h
          have e2 : cs2 = cs := hL hcs.1 h2
          rw [e2] at h
          try dsimp only at h
          rw [if_neg (by simp [hcs.2])] at h
          cases h; rfl
      | coerce c =>
        cases c with
        | noop => simp [NF] at hn
        | intoAssets | intoDatum | intoScript =>
          have hcs : NFL cs = true ∧ isConstantL cs = false := by simpa [NF] using hn
          simp only [reduceF] at h
          obtain ⟨cs1, h1, h⟩ := bind_eq_ok.mp h
          have e1 : cs1 = cs := hL hcs.1 h1
          rw [e1] at h
          try dsimp only at h
          rw [if_neg (by simp [hcs.2])] at h
          obtain ⟨cs2, h2, h⟩ := bind_eq_ok.mp h
          have e2 : cs2 = cs := hL hcs.1 h2
          rw [e2] at h
          try dsimp only at h
          rw [if_neg (by simp [hcs.2])] at h
          cases h; rfl
      | utxoSet m => rw [reduceF] at h; cases h; rfl
      | list | map | tuple | struct | assets | compiler | adhoc =>
        have hcs : NFL cs = true := by simpa [NF] using hn
        simp only [reduceF] at h
        obtain ⟨cs1, h1, h⟩ := bind_eq_ok.mp h
        have e1 : cs1 = cs := hL hcs h1
        rw [e1] at h
        cases h; rfl

/-! ### reduction of a well-formed expression ends in normal form, whatever the fuel -/

theorem reduce_nf : ∀ (n : Nat) (e e' : Expr), WF e = true → reduceF n e = .ok e' → NF e' = true := by
  intro n
  induction n with
  | zero => intro e e' _ h; rw [reduceF] at h; cases h
  | succ n ih =>
    intro e e' hw h
    -- children: reduced once they are in normal form; reduced again they do not move
    have hL : ∀ {cs r : List Expr}, WFL cs = true → mapMO (reduceF n) cs = .ok r → NFL r = true := by
      intro cs r hcs hr
      exact NFL_iff.mpr (mapMO_ok_forall hr fun a ha b hb => ih a b (WFL_iff.mp hcs a ha) hb)
    have hI : ∀ {cs r : List Expr}, NFL cs = true → mapMO (reduceF n) cs = .ok r → r = cs := by
      intro cs r hcs hr
      exact mapMO_id_of hr fun a ha b hb => nf_fix n a b (NFL_iff.mp hcs a ha) hb
    cases e with
    | leaf l => rw [reduceF] at h; cases h; simp
    | node k cs =>
      cases k with
      | param p =>
        cases p with
        | set =>
          have hcs : NFL cs = true := by simpa [WF] using hw
          simp only [reduceF] at h
          split at h
          · cases h; simpa using hcs
          · cases h
        | expectValue name ty => rw [reduceF] at h; cases h; simp [NF]
        | expectFees => rw [reduceF] at h; cases h; simp [NF]
        | expectInput name many coll =>
          have hcs : WFL cs = true := by simpa [WF] using hw
          simp only [reduceF] at h
          obtain ⟨cs1, h1, h⟩ := bind_eq_ok.mp h
          have n1 := hL hcs h1
          obtain ⟨cs2, h2, h⟩ := bind_eq_ok.mp h
          have e2 : cs2 = cs1 := hI n1 h2
          rw [e2] at h
          cases h
          simpa [NF] using n1
      | builtin b =>
        have hcs : WFL cs = true := by cases b <;> simpa [WF] using hw
        cases b with
        | noop =>
          simp only [reduceF] at h
          split at h
          · simp only [WFL_cons, WFL_nil, Bool.and_true] at hcs
            exact ih _ _ hcs h
          · cases h
        | add | sub | concat | negate | property =>
          simp only [reduceF] at h
          obtain ⟨cs1, h1, h⟩ := bind_eq_ok.mp h
          have n1 := hL hcs h1
          try dsimp only at h
          by_cases hc : isConstantL cs1 = true
          · rw [if_pos hc] at h
            exact NF_reduceBuiltin n1 h
          · rw [if_neg hc] at h
            obtain ⟨cs2, h2, h⟩ := bind_eq_ok.mp h
            have e2 : cs2 = cs1 := hI n1 h2
            rw [e2] at h
            try dsimp only at h
            rw [if_neg hc] at h
            cases h
            simp [NF, n1, hc]
      | coerce c =>
        have hcs : WFL cs = true := by cases c <;> simpa [WF] using hw
        cases c with
        | noop =>
          simp only [reduceF] at h
          split at h
          · simp only [WFL_cons, WFL_nil, Bool.and_true] at hcs
            exact ih _ _ hcs h
          · cases h
        | intoAssets | intoDatum | intoScript =>
          simp only [reduceF] at h
          obtain ⟨cs1, h1, h⟩ := bind_eq_ok.mp h
          have n1 := hL hcs h1
          try dsimp only at h
          by_cases hc : isConstantL cs1 = true
          · rw [if_pos hc] at h
            exact NF_reduceCoerce n1 h
          · rw [if_neg hc] at h
            obtain ⟨cs2, h2, h⟩ := bind_eq_ok.mp h
            have e2 : cs2 = cs1 := hI n1 h2
            rw [e2] at h
            try dsimp only at h
            rw [if_neg hc] at h
            cases h
            simp [NF, n1, hc]
      | utxoSet m =>
        have hcs : NFL cs = true := by simpa [WF] using hw
        rw [reduceF] at h; cases h
        simpa [NF] using hcs
      | list | map | tuple | struct | assets | compiler | adhoc =>
        have hcs : WFL cs = true := by simpa [WF] using hw
        simp only [reduceF] at h
        obtain ⟨cs1, h1, h⟩ := bind_eq_ok.mp h
        have n1 := hL hcs h1
        cases h
        simpa [NF] using n1

/-! ### with enough fuel a normal form reduces (to itself) -/

theorem sizeL_mem {c : Expr} {cs : List Expr} (h : c ∈ cs) : c.size ≤ Expr.sizeL cs := by
  induction cs with
  | nil => cases h
  | cons x xs ih =>
    rw [Expr.sizeL]
    rcases List.mem_cons.mp h with rfl | h
    · omega
    · have := ih h; omega

theorem nf_fix_fuel : ∀ (n : Nat) (e : Expr), NF e = true → e.size ≤ n → reduceF n e = .ok e := by
  intro n
  induction n with
  | zero =>
    intro e _ hs
    cases e <;> simp [Expr.size] at hs
  | succ n ih =>
    intro e hn hs
    have hL : ∀ {cs : List Expr}, NFL cs = true → Expr.sizeL cs ≤ n → mapMO (reduceF n) cs = .ok cs := by
      intro cs hcs hsz
      exact mapMO_fix_of fun a ha => ih a (NFL_iff.mp hcs a ha) (Nat.le_trans (sizeL_mem ha) hsz)
    cases e with
    | leaf l => rw [reduceF]
    | node k cs =>
      have hsz : Expr.sizeL cs ≤ n := by rw [Expr.size] at hs; omega
      cases k with
      | param p =>
        cases p with
        | set => simp [NF] at hn
        | expectValue name ty => rw [reduceF]
        | expectFees => rw [reduceF]
        | expectInput name many coll =>
          have hcs : NFL cs = true := by simpa [NF] using hn
          simp only [reduceF, hL hcs hsz, ok_bind]
      | builtin b =>
        cases b with
        | noop => simp [NF] at hn
        | add | sub | concat | negate | property =>
          have hcs : NFL cs = true ∧ isConstantL cs = false := by simpa [NF] using hn
          simp only [reduceF, hL hcs.1 hsz, ok_bind, hcs.2, Bool.false_eq_true, if_false]
      | coerce c =>
        cases c with
        | noop => simp [NF] at hn
        | intoAssets | intoDatum | intoScript =>
          have hcs : NFL cs = true ∧ isConstantL cs = false := by simpa [NF] using hn
          simp only [reduceF, hL hcs.1 hsz, ok_bind, hcs.2, Bool.false_eq_true, if_false]
      | utxoSet m => rw [reduceF]
      | list | map | tuple | struct | assets | compiler | adhoc =>
        have hcs : NFL cs = true := by simpa [NF] using hn
        simp only [reduceF, hL hcs hsz, ok_bind]

/-! ### the property -/

/-- **Reduction is idempotent.** Reducing the result of a reduction changes nothing — for every
well-formed expression (payloads of substituted parameters and resolved UTxOs are values). -/
theorem C07_reduce_idempotent (e e' : Expr) (hw : WF e = true) (h : e.reduce = .ok e') :
    e'.reduce = .ok e' := by
  unfold Expr.reduce at h ⊢
  exact nf_fix_fuel _ e' (reduce_nf _ e e' hw h) (Nat.le_succ _)

/-- A reduced expression is a fixed point under *any* further reduction that terminates, with any
fuel: re-reducing between stages (the resolver does, the test helper does not) cannot change it. -/
theorem C07_reduce_stable (n m : Nat) (e e' e'' : Expr) (hw : WF e = true) (h : reduceF n e = .ok e')
    (h' : reduceF m e' = .ok e'') : e'' = e' :=
  nf_fix m e' e'' (reduce_nf n e e' hw h) h'

/-- The hypothesis is needed: on arbitrary decoded IR a second reduction still makes progress
(`Set(Add(1, 2))` reduces to `Add(1, 2)`, which reduces to `3`). -/
theorem C07_reduce_not_idempotent_without_WF :
    ∃ e e' e'' : Expr, e.reduce = .ok e' ∧ e'.reduce = .ok e'' ∧ e'' ≠ e' := by
  refine ⟨.node (.param .set) [.node (.builtin .add) [.leaf (.number 1), .leaf (.number 2)]],
    .node (.builtin .add) [.leaf (.number 1), .leaf (.number 2)], .leaf (.number 3), ?_, ?_, ?_⟩
  · simp [Expr.reduce, Expr.size, Expr.sizeL, reduceF]
  · simp [Expr.reduce, Expr.size, Expr.sizeL, reduceF, mapMO, isConstantL, isConstant, reduceBuiltin,
      arithAdd, inI128, i128Min, i128Max]
  · intro h; cases h

/-- What the stages produce is well-formed: the three substitution stages only ever put values
(`Set` of a literal, of a fee literal, of a resolved UTxO set) in place — stated for arguments and
fees; for inputs the supplied UTxO sets must hold reduced datums. -/
theorem WF_feeExpr (f : Int) : WF (feeExpr f) = true := by
  simp [feeExpr, WF, NF]

/-- Non-vacuity: a well-formed, not yet reduced expression. -/
example : WF (.node (.builtin .add) [.node (.param .set) [.leaf (.number 1)], .leaf (.number 2)]) = true := by
  simp [WF, NF]

/-! ### the hypothesis is what the pipeline maintains -/

theorem NF_imp_WF_aux : (∀ e : Expr, NF e = true → WF e = true) ∧ (∀ es : List Expr, NFL es = true → WFL es = true) := by
  apply Expr.induct
  · intro l _; simp [WF]
  · intro k cs ih h
    cases k with
    | param p => cases p <;> simp_all [NF, WF]
    | builtin b => cases b <;> simp_all [NF, WF]
    | coerce c => cases c <;> simp_all [NF, WF]
    | utxoSet m => simpa [NF, WF] using h
    | list | map | tuple | struct | assets | compiler | adhoc => simp_all [NF, WF]
  · intro _; simp
  · intro c cs ihc ihcs h
    simp only [NFL_cons, Bool.and_eq_true] at h
    simp [ihc h.1, ihcs h.2]

/-- A reduced expression is well-formed again: reductions may be interleaved with the stages. -/
theorem NF_imp_WF (e : Expr) (h : NF e = true) : WF e = true := NF_imp_WF_aux.1 e h

def ValuesNF (m : List (String × Expr)) : Prop := ∀ kv ∈ m, NF kv.2 = true

theorem lookupS_mem {m : List (String × Expr)} {k : String} {v : Expr} (h : lookupS m k = some v) :
    (k, v) ∈ m ∨ ∃ k', (k', v) ∈ m := by
  induction m with
  | nil => simp [lookupS] at h
  | cons kv rest ih =>
    obtain ⟨k', v'⟩ := kv
    rw [lookupS] at h
    split at h
    · cases h; exact Or.inr ⟨k', List.mem_cons_self⟩
    · rcases ih h with h1 | ⟨k'', h2⟩
      · exact Or.inl (List.mem_cons_of_mem _ h1)
      · exact Or.inr ⟨k'', List.mem_cons_of_mem _ h2⟩

theorem lookupS_nf {m : List (String × Expr)} (hm : ValuesNF m) {k : String} {v : Expr}
    (h : lookupS m k = some v) : NF v = true := by
  rcases lookupS_mem h with h1 | ⟨k', h2⟩
  · exact hm _ h1
  · exact hm _ h2

theorem WF_applyArgs_aux (σ : ArgMap) (hσ : ValuesNF σ) :
    (∀ e : Expr, WF e = true → WF (applyArgs σ e) = true) ∧
    (∀ es : List Expr, WFL es = true → WFL (applyArgsL σ es) = true) := by
  apply Expr.induct
  · intro l _; simp [applyArgs, WF]
  · intro k cs ih h
    cases k with
    | param p =>
      cases p with
      | set => simpa [applyArgs] using h
      | expectValue name ty =>
        cases hl : lookupS σ name with
        | none => simpa [applyArgs, hl] using h
        | some v => simp [applyArgs, hl, WF, lookupS_nf hσ hl]
      | expectInput name many coll => simp only [applyArgs, WF] at h ⊢; exact ih h
      | expectFees => simpa [applyArgs] using h
    | utxoSet m => simpa [applyArgs] using h
    | builtin b => cases b <;> (simp only [applyArgs, WF] at h ⊢; exact ih h)
    | coerce c => cases c <;> (simp only [applyArgs, WF] at h ⊢; exact ih h)
    | list | map | tuple | struct | assets | compiler | adhoc => simp only [applyArgs, WF] at h ⊢; exact ih h
  · intro _; simp
  · intro c cs ihc ihcs h
    simp only [WFL_cons, Bool.and_eq_true] at h
    simp [ihc h.1, ihcs h.2]

theorem WF_applyFees_aux (f : Int) :
    (∀ e : Expr, WF e = true → WF (applyFees f e) = true) ∧
    (∀ es : List Expr, WFL es = true → WFL (applyFeesL f es) = true) := by
  apply Expr.induct
  · intro l _; simp [applyFees, WF]
  · intro k cs ih h
    cases k with
    | param p =>
      cases p with
      | set => simpa [applyFees] using h
      | expectValue name ty => simpa [applyFees] using h
      | expectInput name many coll => simp only [applyFees, WF] at h ⊢; exact ih h
      | expectFees => simp [applyFees, WF_feeExpr]
    | utxoSet m => simpa [applyFees] using h
    | builtin b => cases b <;> (simp only [applyFees, WF] at h ⊢; exact ih h)
    | coerce c => cases c <;> (simp only [applyFees, WF] at h ⊢; exact ih h)
    | list | map | tuple | struct | assets | compiler | adhoc => simp only [applyFees, WF] at h ⊢; exact ih h
  · intro _; simp
  · intro c cs ihc ihcs h
    simp only [WFL_cons, Bool.and_eq_true] at h
    simp [ihc h.1, ihcs h.2]

theorem WF_applyInputs_aux (ι : InputMap) (hι : ValuesNF ι) :
    (∀ e : Expr, WF e = true → WF (applyInputs ι e) = true) ∧
    (∀ es : List Expr, WFL es = true → WFL (applyInputsL ι es) = true) := by
  apply Expr.induct
  · intro l _; simp [applyInputs, WF]
  · intro k cs ih h
    cases k with
    | param p =>
      cases p with
      | set => simpa [applyInputs] using h
      | expectValue name ty => simpa [applyInputs] using h
      | expectInput name many coll =>
        cases hl : lookupS ι name with
        | none => simpa [applyInputs, hl] using h
        | some v => simp [applyInputs, hl, WF, lookupS_nf hι hl]
      | expectFees => simpa [applyInputs] using h
    | utxoSet m => simpa [applyInputs] using h
    | builtin b => cases b <;> (simp only [applyInputs, WF] at h ⊢; exact ih h)
    | coerce c => cases c <;> (simp only [applyInputs, WF] at h ⊢; exact ih h)
    | list | map | tuple | struct | assets | compiler | adhoc => simp only [applyInputs, WF] at h ⊢; exact ih h
  · intro _; simp
  · intro c cs ihc ihcs h
    simp only [WFL_cons, Bool.and_eq_true] at h
    simp [ihc h.1, ihcs h.2]

/-- **Every stage keeps templates well-formed** when it is given values (argument literals, resolved
UTxO sets whose datums are reduced): the hypothesis of `C07_reduce_idempotent` holds at every
point of every schedule that starts from a lowered template. -/
theorem C07_stages_preserve_WF (σ : ArgMap) (ι : InputMap) (f : Int) (hσ : ValuesNF σ) (hι : ValuesNF ι)
    (e : Expr) (h : WF e = true) :
    WF (applyArgs σ e) = true ∧ WF (applyInputs ι e) = true ∧ WF (applyFees f e) = true :=
  ⟨(WF_applyArgs_aux σ hσ).1 e h, (WF_applyInputs_aux ι hι).1 e h, (WF_applyFees_aux f).1 e h⟩

/-- …and so does `reduce` (its result is in normal form). -/
theorem C07_reduce_preserves_WF (n : Nat) (e e' : Expr) (hw : WF e = true) (h : reduceF n e = .ok e') :
    WF e' = true := NF_imp_WF e' (reduce_nf n e e' hw h)

end Tx3
