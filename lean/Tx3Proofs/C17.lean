import Tx3Model.Tii

/-!
# C17 — the published interface agrees with the IR it ships

The model fixes the two naming rules (what lowering requires, what the interface declares) and
the analyzer's duplicate check.  Proved: they spell every key identically, and a program the
analyzer accepts has collision-free key sets.  That the file's embedded IR decodes to what
lowering produced, and that the keys the IR really requires are among the declared ones, is
decided per generated program by running the real `tx3c` binary and the real decoder.
-/

namespace Tx3.Tii

/-- **Same spelling.** Whatever the case of a declared name, the interface declares it under
exactly the name the IR requires. -/
theorem C17_same_spelling (declared : String) : tiiKey declared = irName declared := rfl

/-- Every IR-required name that stems from a declared name is a declared interface key. -/
theorem C17_required_are_declared (params parties env : List String) (required : List String)
    (h : ∀ r ∈ required, ∃ d ∈ params ++ parties ++ env, r = irName d) :
    ∀ r ∈ required, r ∈ (interfaceOf params parties env).params ++
      (interfaceOf params parties env).parties ++ (interfaceOf params parties env).environment := by
  intro r hr
  obtain ⟨d, hd, rfl⟩ := h r hr
  simp only [interfaceOf, List.mem_append, List.mem_map] at hd ⊢
  rcases hd with (hd | hd) | hd
  · exact Or.inl (Or.inl ⟨d, hd, rfl⟩)
  · exact Or.inl (Or.inr ⟨d, hd, rfl⟩)
  · exact Or.inr ⟨d, hd, rfl⟩

theorem dupNames_nil_iff (names : List String) : ∀ seen : List String,
    dupNames seen names = [] ↔
      (∀ n ∈ names, n.toLower ∉ seen) ∧ (names.map String.toLower).Nodup := by
  induction names with
  | nil => intro seen; simp [dupNames]
  | cons n ns ih =>
    intro seen
    rw [dupNames]
    by_cases hs : seen.contains n.toLower = true
    · simp only [hs, ↓reduceIte]
      constructor
      · intro h; cases h
      · rintro ⟨h1, _⟩
        exact absurd (List.contains_iff_mem.mp hs) (h1 n List.mem_cons_self)
    · simp only [hs, Bool.false_eq_true, ↓reduceIte]
      rw [ih]
      have hns : n.toLower ∉ seen := fun h => hs (List.contains_iff_mem.mpr h)
      simp only [List.mem_cons, not_or, List.map_cons, List.nodup_cons, List.mem_map]
      constructor
      · rintro ⟨h1, h2⟩
        refine ⟨fun m hm => ?_, fun ⟨m, hm, he⟩ => (h1 m hm).1 he, h2⟩
        rcases hm with hm | hm
        · subst hm; exact hns
        · exact (h1 m hm).2
      · rintro ⟨h1, h2, h3⟩
        exact ⟨fun m hm => ⟨fun he => h2 ⟨m, hm, he⟩, h1 m (Or.inr hm)⟩, h3⟩

/-- **No collisions.** The analyzer's duplicate check is silent exactly when the keys are
pairwise distinct: a program it accepts has collision-free parameter (party, environment) keys
in the interface file and in the IR. -/
theorem C17_no_collision (names : List String) :
    dupNames [] names = [] ↔ (names.map tiiKey).Nodup := by
  rw [dupNames_nil_iff]
  have : List.map tiiKey names = List.map String.toLower names := rfl
  rw [this]
  simp

/-- Non-vacuity: two names that are equal once lower-cased are reported; two that are not, are not. -/
example (a b : String) (h : a.toLower = b.toLower) : dupNames [] [a, b] = [b] := by
  simp [dupNames, h]
example (a b : String) (h : a.toLower ≠ b.toLower) : dupNames [] [a, b] = [] := by
  simp [dupNames, Ne.symm h]

end Tx3.Tii
