import Tx3Model.Resolve
import Tx3Proofs.C02
import Tx3Proofs.C07Reduce

/-!
# C05 — the first half of `PassOK`, from the compile model: a pass writes the fee it was given

`C05_fixed_point` (in `C05.lean`) assumes of one evaluation pass that the body carries the fee the
pass was given.  Over the models of `apply_fees`, `reduce` and `compile`: for every template whose
`fees` slot is the `fees` placeholder (what lowering emits), applying the fee `f`, reducing and
compiling yields a transaction whose fee field is exactly `f` — or an error when `f` does not fit
an unsigned 64-bit field; never another number.
-/

namespace Tx3
open Outcome Expr

/-- What lowering puts in the `fees` slot. -/
def feesPlaceholder : Expr := .node (.param .expectFees) []

theorem applyFees_placeholder (f : Int) : applyFees f feesPlaceholder = feeExpr f := by
  simp [feesPlaceholder, applyFees]

/-- The applied fee reduces to a one-entry asset list holding `f`. -/
theorem reduce_feeExpr (f : Int) :
    (feeExpr f).reduce = .ok (.node .assets [.leaf .none, .leaf .none, .leaf (.number f)]) := by
  simp [Expr.reduce, feeExpr, Expr.size, Expr.sizeL, reduceF]

/-- …which the compiler reads as the number `f`. -/
theorem feeExpr_as_number (f : Int) :
    exprIntoNumberC (.node .assets [.leaf .none, .leaf .none, .leaf (.number f)]) = .ok f := by
  simp [exprIntoNumberC, exprIntoNumber]

/-- **A pass writes the fee it was given.** If the reduced template's `fees` slot is what `apply_fees`
and `reduce` make of the placeholder for the fee `f`, a successful compilation carries exactly `f`. -/
theorem C05_fee_written {env : CompileEnv} {t : Tx} {a : ATx} (f : Int)
    (hfees : t.fees = .node .assets [.leaf .none, .leaf .none, .leaf (.number f)])
    (h : compileAbs env t = .ok a) : a.fee = f ∧ 0 ≤ f ∧ f ≤ u64Max := by
  obtain ⟨n, h1, h2, h3, h4⟩ := C02_fee_exact h
  rw [hfees, feeExpr_as_number] at h1
  cases h1
  exact ⟨h2, h3, h4⟩

/-- The whole chain on the `fees` slot: placeholder → `apply_fees f` → `reduce` → the compiler's number. -/
theorem C05_fee_chain (f : Int) :
    ∃ r, (applyFees f feesPlaceholder).reduce = .ok r ∧ exprIntoNumberC r = .ok f := by
  rw [applyFees_placeholder]
  exact ⟨_, reduce_feeExpr f, feeExpr_as_number f⟩

/-! ## the estimate -/

/-- **The reported fee is the linear fee or a refusal.** `eval_size_fees` never panics; what it returns is exactly
`a * len + b + margin`, and it returns it whenever that amount (with non-negative parameters) fits 64 bits. -/
theorem C05_fee_estimate_exact (p : FeeParams) (len : Nat) :
    Outcome.NoPanic (p.evalSizeFees len) ∧
    (∀ f, p.evalSizeFees len = .ok f → f = (len : Int) * p.a + p.b + p.margin ∧ f < 2^64) ∧
    (0 ≤ p.a → 0 ≤ p.b → 0 ≤ p.margin → p.sizeFee len < 2^64 → p.evalSizeFees len = .ok (p.sizeFee len)) := by
  unfold FeeParams.evalSizeFees
  refine ⟨?_, ?_, ?_⟩
  · split
    · exact Outcome.np_ok _
    · exact Outcome.np_err _
  · intro f h
    split at h
    · rename_i hc
      cases h
      exact ⟨rfl, hc.2.2⟩
    · cases h
  · intro ha hb hm hs
    have h0 : (0 : Int) ≤ (len : Int) * p.a := Int.mul_nonneg (Int.natCast_nonneg _) ha
    unfold FeeParams.sizeFee at hs ⊢
    rw [if_pos ⟨by omega, by omega, hs⟩]

example : ({ a := 44, b := 155381, margin := 200000 } : FeeParams).evalSizeFees 300 = .ok 368581 := by decide
example : ({ a := 2^32, b := 0, margin := 0 } : FeeParams).evalSizeFees (2^32) = .err "CoerceError:fee" := by decide

end Tx3
