import Tx3Model.Assets
import Tx3Proofs.Lemmas.Assets

/-!
# C15 — every question asked of a value is a question about its amounts

"Equality is semantic: entries with amount zero are immaterial however the value was constructed."  For `==` that is
`C15_eq_semantic`.  Here the same for the five predicates the resolver and the reducer ask (`is_empty`,
`is_empty_or_negative`, `is_only_naked`, `contains_total`, `contains_some`): each is characterised through `amt` alone -
the amount per class, an absent class counting as zero - so two values with the same amounts answer alike, on either
side of a containment, whatever entries with amount zero they carry.  (The check's law `zero_immaterial` looks for the
opposite in the real crate; it found `is_only_naked` answering by keys, fix fd945d3.)
-/

namespace Tx3.Assets

theorem amt_eq_zero_iff {a : Assets} (ha : WF a) (c : AssetClass) :
    amt a c = 0 ↔ ∀ v, (c, v) ∈ a → v = 0 := by
  constructor
  · intro h v hv; rw [amt_of_mem ha hv] at h; exact h
  · intro h
    by_cases hk : c ∈ keys a
    · obtain ⟨kv, hkv, rfl⟩ := List.mem_map.mp hk
      rw [amt_of_mem ha (k := kv.1) (v := kv.2) hkv]; exact h kv.2 hkv
    · exact amt_zero_of_not_mem_keys hk

/-- `is_empty` ⟺ every amount is zero. -/
theorem isEmpty_iff {a : Assets} (ha : WF a) : isEmpty a = true ↔ ∀ c, amt a c = 0 := by
  unfold isEmpty
  simp only [List.all_eq_true, decide_eq_true_eq]
  constructor
  · intro h c
    exact (amt_eq_zero_iff ha c).mpr fun v hv => h (c, v) hv
  · intro h kv hkv
    have := h kv.1
    rwa [amt_of_mem ha (k := kv.1) (v := kv.2) hkv] at this

/-- `is_empty_or_negative` ⟺ no amount is positive. -/
theorem isEmptyOrNegative_iff {a : Assets} (ha : WF a) : isEmptyOrNegative a = true ↔ ∀ c, amt a c ≤ 0 := by
  unfold isEmptyOrNegative
  simp only [List.all_eq_true, Bool.not_eq_true', decide_eq_false_iff_not, Int.not_lt]
  constructor
  · intro h c
    by_cases hk : c ∈ keys a
    · obtain ⟨kv, hkv, rfl⟩ := List.mem_map.mp hk
      rw [amt_of_mem ha (k := kv.1) (v := kv.2) hkv]; exact h kv hkv
    · rw [amt_zero_of_not_mem_keys hk]; exact Int.le_refl 0
  · intro h kv hkv
    have := h kv.1
    rwa [amt_of_mem ha (k := kv.1) (v := kv.2) hkv] at this

/-- `is_only_naked` ⟺ every class with a non-zero amount is lovelace. -/
theorem isOnlyNaked_iff {a : Assets} (ha : WF a) :
    isOnlyNaked a = true ↔ ∀ c, amt a c ≠ 0 → c.isNaked = true := by
  unfold isOnlyNaked
  simp only [List.all_eq_true, Bool.or_eq_true, beq_iff_eq]
  constructor
  · intro h c hc
    by_cases hk : c ∈ keys a
    · obtain ⟨kv, hkv, rfl⟩ := List.mem_map.mp hk
      rw [amt_of_mem ha (k := kv.1) (v := kv.2) hkv] at hc
      rcases h kv hkv with h0 | hn
      · exact absurd h0 hc
      · exact hn
    · exact absurd (amt_zero_of_not_mem_keys hk) hc
  · intro h kv hkv
    by_cases h0 : kv.2 = 0
    · exact Or.inl h0
    · refine Or.inr (h kv.1 ?_)
      rwa [amt_of_mem ha (k := kv.1) (v := kv.2) hkv]

theorem get?_eq_some_amt {a : Assets} {c : AssetClass} {s : Int} (h : get? a c = some s) : amt a c = s := by
  unfold amt; rw [h]; rfl

theorem get?_none_amt {a : Assets} {c : AssetClass} (h : get? a c = none) : amt a c = 0 := by
  unfold amt; rw [h]; rfl

/-- `contains_total` ⟺ every non-zero amount of the other value is positive and matched. -/
theorem containsTotal_iff (self : Assets) {other : Assets} (ho : WF other) :
    containsTotal self other = true ↔ ∀ c, amt other c ≠ 0 → 0 < amt other c ∧ amt other c ≤ amt self c := by
  unfold containsTotal
  simp only [List.all_eq_true]
  have entry : ∀ (k : AssetClass) (v : Int),
      ((if v = 0 then true else if v < 0 then false else
          match get? self k with
          | none => false
          | some s => if s < 0 then false else !(decide (s < v))) = true) ↔
        (v ≠ 0 → 0 < v ∧ v ≤ amt self k) := by
    intro k v
    by_cases h0 : v = 0
    · simp [h0]
    · by_cases hneg : v < 0
      · simp only [h0, hneg, if_false, if_true, Bool.false_eq_true, ne_eq, not_false_eq_true, forall_const, false_iff,
          not_and]
        intro hp; omega
      · simp only [h0, hneg, if_false, ne_eq, not_false_eq_true, forall_const]
        cases hg : get? self k with
        | none =>
          simp only [get?_none_amt hg, Bool.false_eq_true, false_iff, not_and]
          intro _; omega
        | some s =>
          simp only [get?_eq_some_amt hg]
          by_cases hs : s < 0
          · simp only [hs, if_true, Bool.false_eq_true, false_iff, not_and]
            intro _; omega
          · simp only [hs, if_false, Bool.not_eq_true', decide_eq_false_iff_not, Int.not_lt]
            constructor
            · intro h; exact ⟨by omega, h⟩
            · intro h; exact h.2
  constructor
  · intro h c hc
    by_cases hk : c ∈ keys other
    · obtain ⟨kv, hkv, rfl⟩ := List.mem_map.mp hk
      have e := amt_of_mem ho (k := kv.1) (v := kv.2) hkv
      rw [e] at hc ⊢
      exact (entry kv.1 kv.2).mp (h kv hkv) hc
    · exact absurd (amt_zero_of_not_mem_keys hk) hc
  · intro h kv hkv
    have e := amt_of_mem ho (k := kv.1) (v := kv.2) hkv
    refine (entry kv.1 kv.2).mpr ?_
    intro hne
    have := h kv.1 (by rw [e]; exact hne)
    rwa [e] at this

/-- `contains_some` ⟺ the other value is empty, or neither is and some class is held positively by both sides'
amounts. -/
theorem containsSome_iff {self other : Assets} (hs : WF self) (ho : WF other) :
    containsSome self other = true ↔
      ((∀ c, amt other c = 0) ∨
       ((∃ c, amt self c ≠ 0) ∧ ∃ c, amt other c ≠ 0 ∧ 0 < amt self c)) := by
  unfold containsSome
  by_cases heo : isEmpty other = true
  · simp only [heo, if_true, true_iff]
    exact Or.inl ((isEmpty_iff ho).mp heo)
  · have hno : ¬ ∀ c, amt other c = 0 := fun h => heo ((isEmpty_iff ho).mpr h)
    simp only [heo, Bool.false_eq_true, if_false]
    by_cases hes : isEmpty self = true
    · simp only [hes, if_true, Bool.false_eq_true, false_iff, not_or, not_and]
      refine ⟨hno, fun ⟨c, hc⟩ => absurd ((isEmpty_iff hs).mp hes c) hc⟩
    · have hns : ∃ c, amt self c ≠ 0 := by
        by_cases h : ∃ c, amt self c ≠ 0
        · exact h
        · exact absurd ((isEmpty_iff hs).mpr fun c => by
            by_cases hc : amt self c = 0
            · exact hc
            · exact absurd ⟨c, hc⟩ h) hes
      simp only [hes, Bool.false_eq_true, if_false, List.any_eq_true]
      constructor
      · rintro ⟨kv, hkv, hcond⟩
        refine Or.inr ⟨hns, kv.1, ?_, ?_⟩
        · rw [amt_of_mem ho (k := kv.1) (v := kv.2) hkv]
          intro h0; simp [h0] at hcond
        · by_cases h0 : kv.2 = 0
          · simp [h0] at hcond
          · simp only [h0, if_false] at hcond
            cases hg : get? self kv.1 with
            | none => simp [hg] at hcond
            | some s => simp only [hg, decide_eq_true_eq] at hcond; rw [get?_eq_some_amt hg]; exact hcond
      · rintro (h | ⟨_, c, hc, hpos⟩)
        · exact absurd h hno
        · have hk : c ∈ keys other := by
            by_cases hk : c ∈ keys other
            · exact hk
            · exact absurd (amt_zero_of_not_mem_keys hk) hc
          obtain ⟨kv, hkv, rfl⟩ := List.mem_map.mp hk
          refine ⟨kv, hkv, ?_⟩
          have e := amt_of_mem ho (k := kv.1) (v := kv.2) hkv
          rw [e] at hc
          simp only [hc, if_false]
          cases hg : get? self kv.1 with
          | none => rw [get?_none_amt hg] at hpos; omega
          | some s => rw [get?_eq_some_amt hg] at hpos; simp [hpos]

/-- **Equal values answer alike.** Two values with the same amounts (`≈ₐ`: entries with amount zero immaterial) give the
same answer to every predicate, alone and on either side of a containment. -/
theorem C15_queries_respect_equality {a a' x : Assets} (ha : WF a) (ha' : WF a') (hx : WF x) (h : a ≈ₐ a') :
    isEmpty a = isEmpty a' ∧ isEmptyOrNegative a = isEmptyOrNegative a' ∧ isOnlyNaked a = isOnlyNaked a' ∧
    containsTotal a x = containsTotal a' x ∧ containsTotal x a = containsTotal x a' ∧
    containsSome a x = containsSome a' x ∧ containsSome x a = containsSome x a' := by
  have beq_of_iff : ∀ {p q : Bool}, (p = true ↔ q = true) → p = q := by
    intro p q hpq; cases p <;> cases q <;> simp_all
  refine ⟨beq_of_iff ?_, beq_of_iff ?_, beq_of_iff ?_, beq_of_iff ?_, beq_of_iff ?_, beq_of_iff ?_, beq_of_iff ?_⟩
  · rw [isEmpty_iff ha, isEmpty_iff ha']; simp only [h _]
  · rw [isEmptyOrNegative_iff ha, isEmptyOrNegative_iff ha']; simp only [h _]
  · rw [isOnlyNaked_iff ha, isOnlyNaked_iff ha']; simp only [h _]
  · rw [containsTotal_iff a hx, containsTotal_iff a' hx]; simp only [h _]
  · rw [containsTotal_iff x ha, containsTotal_iff x ha']; simp only [h _]
  · rw [containsSome_iff ha hx, containsSome_iff ha' hx]; simp only [h _]
  · rw [containsSome_iff hx ha, containsSome_iff hx ha']; simp only [h _]

/-- In particular a value and the same value after a trip through `+` (which drops the entries with amount zero). -/
theorem C15_zero_immaterial {a x : Assets} (ha : WF a) (hx : WF x) :
    isEmpty a = isEmpty (add a empty) ∧ isEmptyOrNegative a = isEmptyOrNegative (add a empty) ∧
    isOnlyNaked a = isOnlyNaked (add a empty) ∧
    containsTotal a x = containsTotal (add a empty) x ∧ containsTotal x a = containsTotal x (add a empty) ∧
    containsSome a x = containsSome (add a empty) x ∧ containsSome x a = containsSome x (add a empty) := by
  have hsem : a ≈ₐ add a empty := fun c => by rw [amt_add ha WF_empty]; simp [empty]
  exact C15_queries_respect_equality ha (WF_add ha) hx hsem

/-- The witness behind fix fd945d3: a named class with amount zero is not "something else than lovelace". -/
example : isOnlyNaked [(.named [0x62, 0x65], 0)] = true ∧ isOnlyNaked empty = true := by decide

end Tx3.Assets
