import Tx3Model.Lang
import Tx3Model.LangLower
import Tx3Model.Reduce
import Tx3Proofs.Lemmas.Outcome

/-!
# C01 — the compiled transaction is exactly what the template denotes

`⟦·⟧` (`Lang.eval`, `Lang.denote`) is the independent semantics; `Lang.lowerTx` models analysis +
lowering; `applyArgs`, `Expr.reduce` model the reducer (all three tied to the code per case: same
IR, same transaction, field by field).  Proved here, for every expression of the integer
fragment (literals, parameters, `+`, `-`, unary `!`, nested to any depth), every argument
vector and every fuel above the depth: lowering, applying the arguments and reducing yields
exactly the number `⟦e⟧` — in particular `a - b - c` is `(a - b) - c` — provided the values stay
inside the 128-bit range the IR computes in.  The remaining constructs of the fragment
(multi-asset values, records with spread, inputs, the Cardano compiler) are compared per case
against `⟦·⟧`, not proved.
-/

namespace Tx3.Lang
open Tx3 Tx3.Expr

/-- The integer fragment. -/
inductive IExp where
  | num (n : Int)
  | par (x : String)
  | add (a b : IExp)
  | sub (a b : IExp)
  | neg (a : IExp)

namespace IExp

def toL : IExp → LExpr
  | num n => .leaf (.num n)
  | par x => .leaf (.id x)
  | add a b => .node .add [a.toL, b.toL]
  | sub a b => .node .sub [a.toL, b.toL]
  | neg a => .node .neg [a.toL]

/-- Ordinary integer arithmetic. -/
def den (ints : String → Int) : IExp → Int
  | num n => n
  | par x => ints x
  | add a b => a.den ints + b.den ints
  | sub a b => a.den ints - b.den ints
  | neg a => - a.den ints

def depth : IExp → Nat
  | num _ => 0
  | par _ => 0
  | add a b => max a.depth b.depth + 1
  | sub a b => max a.depth b.depth + 1
  | neg a => a.depth + 1

def pars : IExp → List String
  | num _ => []
  | par x => [x]
  | add a b => a.pars ++ b.pars
  | sub a b => a.pars ++ b.pars
  | neg a => a.pars

def Small (v : Int) : Prop := -(2:Int)^127 < v ∧ v < (2:Int)^127

/-- Every intermediate value lies strictly inside the `i128` range. -/
def Fits (ints : String → Int) : IExp → Prop
  | num n => Small n
  | par x => Small (ints x)
  | add a b => a.Fits ints ∧ b.Fits ints ∧ Small (a.den ints + b.den ints)
  | sub a b => a.Fits ints ∧ b.Fits ints ∧ Small (a.den ints - b.den ints)
  | neg a => a.Fits ints

end IExp

theorem small_inI128 {v : Int} (h : IExp.Small v) : inI128 v = true := by
  unfold IExp.Small at h
  unfold inI128 i128Min i128Max
  rw [decide_eq_true_eq]
  constructor <;> omega

theorem fits_small (ints : String → Int) : ∀ e : IExp, e.Fits ints → IExp.Small (e.den ints)
  | .num _, h => h
  | .par _, h => h
  | .add _ _, h => h.2.2
  | .sub _ _, h => h.2.2
  | .neg a, h => by
    have := fits_small ints a h
    unfold IExp.Small at *
    simp only [IExp.den]; omega

/-! ## the semantics on the fragment -/

/-- The names of the fragment are integer parameters of `ρ` and nothing else. -/
def ParamsOf (ρ : Env) (ints : String → Int) (xs : List String) : Prop :=
  ∀ x ∈ xs, lookup ρ.tx.locals x = none ∧ ρ.inputs.find? (fun i => i.name = x) = none ∧ x ≠ "fees" ∧
    lookup ρ.ints x = some (ints x)

theorem eval_int (ρ : Env) (ints : String → Int) (mode : Mode) :
    ∀ (e : IExp), ParamsOf ρ ints e.pars → ∀ k, eval ρ (e.depth + 1 + k) mode e.toL = .ok (.int (e.den ints))
  | .num n, _, k => by
    rw [show (IExp.num n).depth + 1 + k = k + 1 by simp only [IExp.depth]; omega, IExp.toL, eval]; rfl
  | .par x, h, k => by
    obtain ⟨h1, h2, h3, h4⟩ := h x (by simp [IExp.pars])
    rw [show (IExp.par x).depth + 1 + k = k + 1 by simp only [IExp.depth]; omega, IExp.toL, eval]
    simp only [h1, h2, h3, h4, if_false, IExp.den]
  | .add a b, h, k => by
    have ha := eval_int ρ ints mode a (fun x hx => h x (by simp [IExp.pars, hx]))
    have hb := eval_int ρ ints mode b (fun x hx => h x (by simp [IExp.pars, hx]))
    have e1 : (IExp.add a b).depth + 1 + k = (a.depth + 1 + (max a.depth b.depth - a.depth + k)) + 1 := by
      simp only [IExp.depth]; omega
    have e2 : (IExp.add a b).depth + 1 + k = (b.depth + 1 + (max a.depth b.depth - b.depth + k)) + 1 := by
      simp only [IExp.depth]; omega
    rw [IExp.toL, e1, eval]
    simp only [ha, Outcome.ok_bind]
    rw [show a.depth + 1 + (max a.depth b.depth - a.depth + k) = b.depth + 1 + (max a.depth b.depth - b.depth + k) by omega]
    simp only [hb, Outcome.ok_bind, IExp.den]
  | .sub a b, h, k => by
    have ha := eval_int ρ ints mode a (fun x hx => h x (by simp [IExp.pars, hx]))
    have hb := eval_int ρ ints mode b (fun x hx => h x (by simp [IExp.pars, hx]))
    have e1 : (IExp.sub a b).depth + 1 + k = (a.depth + 1 + (max a.depth b.depth - a.depth + k)) + 1 := by
      simp only [IExp.depth]; omega
    rw [IExp.toL, e1, eval]
    simp only [ha, Outcome.ok_bind]
    rw [show a.depth + 1 + (max a.depth b.depth - a.depth + k) = b.depth + 1 + (max a.depth b.depth - b.depth + k) by omega]
    simp only [hb, Outcome.ok_bind, IExp.den]
  | .neg a, h, k => by
    have ha := eval_int ρ ints mode a (fun x hx => h x (by simp [IExp.pars, hx]))
    have e1 : (IExp.neg a).depth + 1 + k = (a.depth + 1 + k) + 1 := by simp only [IExp.depth]; omega
    rw [IExp.toL, e1, eval]
    simp only [ha, Outcome.ok_bind, IExp.den]

/-! ## the code on the fragment: lower, apply the arguments, reduce -/

/-- The names of the fragment resolve to parameters, and the argument map binds their IR names
(lower-cased) to the same numbers the semantics uses. -/
def ScopeOf (s : Scope) (σ : ArgMap) (ints : String → Int) (xs : List String) : Prop :=
  ∀ x ∈ xs, (∃ ty, resolve s x = some (.param x ty)) ∧
    lookupS σ x.toLower = some (.leaf (.number (ints x)))

theorem reduceF_leaf (n : Nat) (l : Leaf) : reduceF (n + 1) (.leaf l) = .ok (.leaf l) := by
  simp [reduceF]

theorem lower_int (s : Scope) (σ : ArgMap) (ints : String → Int) (ctx : Ctx) (hl : ctx.lvl ≠ 0) :
    ∀ (e : IExp), ScopeOf s σ ints e.pars → e.Fits ints → ∀ k,
      ∃ t, lowerE s (e.depth + 1 + k) ctx e.toL = .ok t ∧
        ∀ m, reduceF (e.depth + 2 + m) (applyArgs σ t) = .ok (.leaf (.number (e.den ints)))
  | .num n, _, _, k => by
    refine ⟨.leaf (.number n), ?_, ?_⟩
    · rw [show (IExp.num n).depth + 1 + k = k + 1 by simp only [IExp.depth]; omega, IExp.toL, lowerE]
    · intro m
      rw [show (IExp.num n).depth + 2 + m = (m + 1) + 1 by simp only [IExp.depth]; omega]
      simp only [applyArgs, reduceF_leaf, IExp.den]
  | .par x, h, _, k => by
    obtain ⟨⟨ty, hr⟩, hσ⟩ := h x (by simp [IExp.pars])
    refine ⟨paramValue x (lowerTy ty), ?_, ?_⟩
    · rw [show (IExp.par x).depth + 1 + k = k + 1 by simp only [IExp.depth]; omega, IExp.toL, lowerE]
      simp only [hr, hl, if_false]
    · intro m
      rw [show (IExp.par x).depth + 2 + m = (m + 1) + 1 by simp only [IExp.depth]; omega]
      simp only [paramValue, applyArgs, hσ, reduceF, IExp.den]
  | .add a b, h, hf, k => by
    obtain ⟨ta, hla, hra⟩ := lower_int s σ ints ctx hl a (fun x hx => h x (by simp [IExp.pars, hx])) hf.1
      (max a.depth b.depth - a.depth + k)
    obtain ⟨tb, hlb, hrb⟩ := lower_int s σ ints ctx hl b (fun x hx => h x (by simp [IExp.pars, hx])) hf.2.1
      (max a.depth b.depth - b.depth + k)
    refine ⟨builtin .add [ta, tb], ?_, ?_⟩
    · rw [show (IExp.add a b).depth + 1 + k = (a.depth + 1 + (max a.depth b.depth - a.depth + k)) + 1 by
        simp only [IExp.depth]; omega, IExp.toL, lowerE]
      simp only [hla, Outcome.ok_bind]
      rw [show a.depth + 1 + (max a.depth b.depth - a.depth + k) = b.depth + 1 + (max a.depth b.depth - b.depth + k) by omega]
      simp only [hlb, Outcome.ok_bind]
    · intro m
      have h1 := hra (max a.depth b.depth - a.depth + m)
      have h2 := hrb (max a.depth b.depth - b.depth + m)
      rw [show a.depth + 2 + (max a.depth b.depth - a.depth + m) = max a.depth b.depth + 2 + m by omega] at h1
      rw [show b.depth + 2 + (max a.depth b.depth - b.depth + m) = max a.depth b.depth + 2 + m by omega] at h2
      rw [show (IExp.add a b).depth + 2 + m = (max a.depth b.depth + 2 + m) + 1 by simp only [IExp.depth]; omega]
      simp only [builtin, applyArgs, applyArgsL, reduceF, mapMO, h1, h2, Outcome.ok_bind, Outcome.pure_eq_ok,
        isConstantL, isConstant, Bool.and_self, if_true, reduceBuiltin, arithAdd, small_inI128 hf.2.2, IExp.den]
  | .sub a b, h, hf, k => by
    obtain ⟨ta, hla, hra⟩ := lower_int s σ ints ctx hl a (fun x hx => h x (by simp [IExp.pars, hx])) hf.1
      (max a.depth b.depth - a.depth + k)
    obtain ⟨tb, hlb, hrb⟩ := lower_int s σ ints ctx hl b (fun x hx => h x (by simp [IExp.pars, hx])) hf.2.1
      (max a.depth b.depth - b.depth + k)
    refine ⟨builtin .sub [ta, tb], ?_, ?_⟩
    · rw [show (IExp.sub a b).depth + 1 + k = (a.depth + 1 + (max a.depth b.depth - a.depth + k)) + 1 by
        simp only [IExp.depth]; omega, IExp.toL, lowerE]
      simp only [hla, Outcome.ok_bind]
      rw [show a.depth + 1 + (max a.depth b.depth - a.depth + k) = b.depth + 1 + (max a.depth b.depth - b.depth + k) by omega]
      simp only [hlb, Outcome.ok_bind]
    · intro m
      have h1 := hra (max a.depth b.depth - a.depth + m)
      have h2 := hrb (max a.depth b.depth - b.depth + m)
      rw [show a.depth + 2 + (max a.depth b.depth - a.depth + m) = max a.depth b.depth + 2 + m by omega] at h1
      rw [show b.depth + 2 + (max a.depth b.depth - b.depth + m) = max a.depth b.depth + 2 + m by omega] at h2
      rw [show (IExp.sub a b).depth + 2 + m = (max a.depth b.depth + 2 + m) + 1 by simp only [IExp.depth]; omega]
      have hb := fits_small ints b hf.2.1
      have hnb : inI128 (-(b.den ints)) = true := small_inI128 (by unfold IExp.Small at *; omega)
      have hs : inI128 (a.den ints + -(b.den ints)) = true := by
        have := hf.2.2
        rw [show a.den ints + -(b.den ints) = a.den ints - b.den ints by omega]
        exact small_inI128 this
      simp only [builtin, applyArgs, applyArgsL, reduceF, mapMO, h1, h2, Outcome.ok_bind, Outcome.pure_eq_ok,
        isConstantL, isConstant, Bool.and_self, if_true, reduceBuiltin, arithSub, arithNeg, arithAdd, hnb, hs, IExp.den]
      rw [show a.den ints + -(b.den ints) = a.den ints - b.den ints by omega]
  | .neg a, h, hf, k => by
    obtain ⟨ta, hla, hra⟩ := lower_int s σ ints ctx hl a (fun x hx => h x (by simp [IExp.pars, hx])) hf k
    refine ⟨builtin .negate [ta], ?_, ?_⟩
    · rw [show (IExp.neg a).depth + 1 + k = (a.depth + 1 + k) + 1 by simp only [IExp.depth]; omega, IExp.toL, lowerE]
      simp only [hla, Outcome.ok_bind]
    · intro m
      have h1 := hra m
      rw [show (IExp.neg a).depth + 2 + m = (a.depth + 2 + m) + 1 by simp only [IExp.depth]; omega]
      have ha := fits_small ints a hf
      have hn : inI128 (-(a.den ints)) = true := small_inI128 (by unfold IExp.Small at *; omega)
      simp only [builtin, applyArgs, applyArgsL, reduceF, mapMO, h1, Outcome.ok_bind, Outcome.pure_eq_ok,
        isConstantL, isConstant, Bool.and_self, if_true, reduceBuiltin, arithNeg, hn, IExp.den]

/-- **Lowering and reduction compute `⟦e⟧`** on the integer fragment: for every expression, every
argument vector agreeing with the semantic environment, every position (`mode` / `ctx`; the
identifiers of the expression must still carry symbols, `ctx.lvl ≠ 0`, which holds for every node of
the transaction itself and eight symbols deep) and all sufficient fuels, the semantics yields `den e` and the code — lower, apply the arguments, reduce —
yields the literal `den e`. -/
theorem C01_int_fragment (ρ : Env) (s : Scope) (σ : ArgMap) (ints : String → Int) (mode : Mode) (ctx : Ctx)
    (hl : ctx.lvl ≠ 0)
    (e : IExp) (hρ : ParamsOf ρ ints e.pars) (hs : ScopeOf s σ ints e.pars) (hf : e.Fits ints) (k m : Nat) :
    eval ρ (e.depth + 1 + k) mode e.toL = .ok (.int (e.den ints)) ∧
    ∃ t, lowerE s (e.depth + 1 + k) ctx e.toL = .ok t ∧
      reduceF (e.depth + 2 + m) (applyArgs σ t) = .ok (.leaf (.number (e.den ints))) := by
  refine ⟨eval_int ρ ints mode e hρ k, ?_⟩
  obtain ⟨t, h1, h2⟩ := lower_int s σ ints ctx hl e hs hf k
  exact ⟨t, h1, h2 m⟩

/-- **No re-association**: `a - b - c` denotes, and is computed as, `(a - b) - c`. -/
theorem C01_sub_chain (ints : String → Int) (a b c : IExp) :
    (IExp.sub (IExp.sub a b) c).den ints = (a.den ints - b.den ints) - c.den ints := rfl

/-- …and that differs from `a - (b - c)` whenever `c ≠ 0`: the two readings cannot be confused. -/
theorem C01_sub_chain_distinct (ints : String → Int) (a b c : IExp) (hc : c.den ints ≠ 0) :
    (IExp.sub (IExp.sub a b) c).den ints ≠ (IExp.sub a (IExp.sub b c)).den ints := by
  simp only [IExp.den]; omega

/-- Non-vacuity: a three-term chain over a parameter. -/
example : (IExp.sub (IExp.sub (.par "q") (.num 2)) (.num 3)).den (fun _ => 10) = 5 := by decide

/-! ## what the fee and input stages leave alone -/

/-- The fee and the input stage do not touch the expression (no fee placeholder, no input query in it). -/
def Inert (t : Expr) : Prop := ∀ (f : Int) (ι : InputMap), applyInputs ι (applyFees f t) = t

theorem Inert_leaf (l : Leaf) : Inert (.leaf l) := by intro f ι; simp [applyFees, applyInputs]

theorem Inert_paramValue (x : String) (ty : Ty) : Inert (paramValue x ty) := by
  intro f ι; simp [paramValue, applyFees, applyInputs]

theorem Inert_builtin2 (b : BKind) {x y : Expr} (hx : Inert x) (hy : Inert y) : Inert (builtin b [x, y]) := by
  intro f ι
  simp [builtin, applyFees, applyFeesL, applyInputs, applyInputsL, hx f ι, hy f ι]

theorem Inert_assets3 {p n a : Expr} (hp : Inert p) (hn : Inert n) (ha : Inert a) :
    Inert (.node .assets [p, n, a]) := by
  intro f ι
  simp [applyFees, applyFeesL, applyInputs, applyInputsL, hp f ι, hn f ι, ha f ι]

theorem Inert_builtin1 (b : BKind) {x : Expr} (hx : Inert x) : Inert (builtin b [x]) := by
  intro f ι
  simp [builtin, applyFees, applyFeesL, applyInputs, applyInputsL, hx f ι]

/-- Whatever the integer fragment lowers to is inert. -/
theorem lower_int_inert (s : Scope) (σ : ArgMap) (ints : String → Int) :
    ∀ (e : IExp), ScopeOf s σ ints e.pars → ∀ (n : Nat) (ctx : Ctx) (t : Expr), lowerE s n ctx e.toL = .ok t → Inert t
  | .num v, _, n, ctx, t, h => by
    cases n with
    | zero => rw [lowerE] at h; cases h
    | succ n => rw [IExp.toL, lowerE] at h; cases h; exact Inert_leaf _
  | .par x, hs, n, ctx, t, h => by
    obtain ⟨⟨ty, hr⟩, _⟩ := hs x (by simp [IExp.pars])
    cases n with
    | zero => rw [lowerE] at h; cases h
    | succ n =>
      rw [IExp.toL, lowerE] at h
      by_cases hl : ctx.lvl = 0
      · simp [hl, lerr] at h
      · simp only [hl, if_false, hr] at h
        cases h; exact Inert_paramValue _ _
  | .add a b, hs, n, ctx, t, h => by
    cases n with
    | zero => rw [lowerE] at h; cases h
    | succ n =>
      rw [IExp.toL, lowerE] at h
      obtain ⟨x, hx, h⟩ := Outcome.bind_eq_ok.mp h
      obtain ⟨y, hy, h⟩ := Outcome.bind_eq_ok.mp h
      cases h
      exact Inert_builtin2 _ (lower_int_inert s σ ints a (fun z hz => hs z (by simp [IExp.pars, hz])) n ctx x hx)
        (lower_int_inert s σ ints b (fun z hz => hs z (by simp [IExp.pars, hz])) n ctx y hy)
  | .sub a b, hs, n, ctx, t, h => by
    cases n with
    | zero => rw [lowerE] at h; cases h
    | succ n =>
      rw [IExp.toL, lowerE] at h
      obtain ⟨x, hx, h⟩ := Outcome.bind_eq_ok.mp h
      obtain ⟨y, hy, h⟩ := Outcome.bind_eq_ok.mp h
      cases h
      exact Inert_builtin2 _ (lower_int_inert s σ ints a (fun z hz => hs z (by simp [IExp.pars, hz])) n ctx x hx)
        (lower_int_inert s σ ints b (fun z hz => hs z (by simp [IExp.pars, hz])) n ctx y hy)
  | .neg a, hs, n, ctx, t, h => by
    cases n with
    | zero => rw [lowerE] at h; cases h
    | succ n =>
      rw [IExp.toL, lowerE] at h
      obtain ⟨x, hx, h⟩ := Outcome.bind_eq_ok.mp h
      cases h
      exact Inert_builtin1 _ (lower_int_inert s σ ints a hs n ctx x hx)

end Tx3.Lang
