import Tx3Model.Json
import Tx3Proofs.Lemmas.Outcome
import Tx3Proofs.C16

/-!
# C16 — the argument map is exactly what the request supplies for the declared parameters

`C16_request_args` says that only declared parameters reach the template.  Here the other half: *every* declared
parameter the request supplies reaches it, under the value the request gives it - the argument when there is one, the
environment's entry otherwise - and nothing is dropped on the way.  Stated for the model of `parse_resolve_request`'s
argument handling (`parseArgs`), whose outcome the correspondence compares with the real function on every generated
request (which parameters were set, from `args` or from `env`).
-/

namespace Tx3.Json
open Tx3 Outcome

/-- The value of the last entry under `k` (JSON maps hold a key once; the concatenation `env ++ args` may hold it twice,
and the later one - the argument - is the one that counts). -/
def lastEntry (l : List (String × JVal)) (k : String) : Option JVal :=
  l.foldl (fun acc e => if e.1 = k then some e.2 else acc) none

theorem lookup_insertArg (m : List (String × Arg)) (k : String) (v : Arg) (k' : String) :
    lookup (insertArg m k v) k' = if k = k' then some v else lookup m k' := by
  induction m with
  | nil => simp [insertArg, lookup]
  | cons x xs ih =>
    obtain ⟨k0, v0⟩ := x
    rw [insertArg]
    by_cases h0 : k0 = k
    · subst h0
      simp only [if_true, lookup]
      by_cases h1 : k0 = k' <;> simp [h1]
    · simp only [h0, if_false, lookup]
      by_cases h1 : k0 = k'
      · subst h1
        have : ¬ k = k0 := fun e => h0 e.symm
        simp [this]
      · simp only [h1, if_false, ih]

/-- What the entries read so far amount to for key `k`: the coerced value of the last declared entry under `k`. -/
def expected (cd : Codecs) (declared : List (String × Ty)) (l : List (String × JVal)) (k : String) : Option Arg :=
  match lookup declared k, lastEntry l k with
  | some ty, some v => (match fromJson cd v ty with | .ok a => some a | _ => none)
  | _, _ => none

theorem lastEntry_append_singleton (l : List (String × JVal)) (e : String × JVal) (k : String) :
    lastEntry (l ++ [e]) k = if e.1 = k then some e.2 else lastEntry l k := by
  simp [lastEntry, List.foldl_append]

/-- The loop invariant of `parseArgs.go`, and its conclusion. -/
theorem go_exact (cd : Codecs) (declared : List (String × Ty)) :
    ∀ (rest done : List (String × JVal)) (acc m : List (String × Arg)),
      (∀ k, lookup acc k = expected cd declared done k) →
      parseArgs.go cd declared rest acc = .ok m →
      ∀ k, lookup m k = expected cd declared (done ++ rest) k := by
  intro rest
  induction rest with
  | nil =>
    intro done acc m hacc hm
    rw [parseArgs.go] at hm
    cases hm
    simpa using hacc
  | cons kv rest ih =>
    intro done acc m hacc hm
    obtain ⟨k0, v0⟩ := kv
    rw [parseArgs.go] at hm
    have happ : done ++ (k0, v0) :: rest = (done ++ [(k0, v0)]) ++ rest := by simp
    rw [happ]
    cases hl : lookup declared k0 with
    | none =>
      simp only [hl] at hm
      refine ih (done ++ [(k0, v0)]) acc m ?_ hm
      intro k
      rw [hacc k]
      unfold expected
      rw [lastEntry_append_singleton]
      by_cases hk : k0 = k
      · subst hk; simp [hl]
      · simp [hk]
    | some ty =>
      simp only [hl] at hm
      obtain ⟨a, ha, hm⟩ := bind_eq_ok.mp hm
      refine ih (done ++ [(k0, v0)]) (insertArg acc k0 a) m ?_ hm
      intro k
      rw [lookup_insertArg]
      unfold expected
      rw [lastEntry_append_singleton]
      by_cases hk : k0 = k
      · subst hk; simp [hl, ha]
      · simp only [hk, if_false]
        have := hacc k
        unfold expected at this
        exact this

/-- **Exactly what the request supplies.** When the request is accepted, the argument map holds, for every name, the
coerced value of the last entry under that name in `env ++ args` if the name is a declared parameter, and nothing
otherwise: no supplied parameter is dropped, none is invented, and the value is the one supplied. -/
theorem C16_request_args_exact (cd : Codecs) (declared : List (String × Ty)) (env args : List (String × JVal))
    (m : List (String × Arg)) (h : parseArgs cd declared env args = .ok m) (k : String) :
    lookup m k = expected cd declared (env ++ args) k := by
  unfold parseArgs at h
  have := go_exact cd declared (env ++ args) [] [] m (fun k => by simp [lookup, expected, lastEntry]) h k
  simpa using this

theorem foldl_last_init (k : String) : ∀ (l : List (String × JVal)) (acc : Option JVal),
    l.foldl (fun acc e => if e.1 = k then some e.2 else acc) acc =
      (l.foldl (fun acc e => if e.1 = k then some e.2 else acc) none).orElse (fun _ => acc)
  | [], acc => by simp
  | e :: l, acc => by
    simp only [List.foldl_cons]
    rw [foldl_last_init k l (if e.1 = k then some e.2 else acc), foldl_last_init k l (if e.1 = k then some e.2 else none)]
    by_cases hk : e.1 = k
    · simp [hk]
    · simp [hk]

theorem lastEntry_append (l1 l2 : List (String × JVal)) (k : String) :
    lastEntry (l1 ++ l2) k = (lastEntry l2 k).orElse (fun _ => lastEntry l1 k) := by
  unfold lastEntry
  rw [List.foldl_append, foldl_last_init]

theorem lastEntry_mem : ∀ (l : List (String × JVal)) (k : String) (v : JVal), lastEntry l k = some v → (k, v) ∈ l := by
  intro l k v h
  have key : ∀ (l : List (String × JVal)) (acc : Option JVal),
      l.foldl (fun acc e => if e.1 = k then some e.2 else acc) acc = some v → acc = some v ∨ (k, v) ∈ l := by
    intro l
    induction l with
    | nil => intro acc h; exact Or.inl h
    | cons e l ih =>
      intro acc h
      simp only [List.foldl_cons] at h
      rcases ih _ h with h' | h'
      · by_cases hk : e.1 = k
        · simp only [hk, if_true, Option.some.injEq] at h'
          obtain ⟨ke, ve⟩ := e
          simp only at hk h'
          subst hk; subst h'
          exact Or.inr List.mem_cons_self
        · simp only [hk, if_false] at h'; exact Or.inl h'
      · exact Or.inr (List.mem_cons_of_mem _ h')
  rcases key l none h with h' | h'
  · cases h'
  · exact h'

/-- Every declared entry of an accepted request was read successfully. -/
theorem go_all_read (cd : Codecs) (declared : List (String × Ty)) :
    ∀ (rest : List (String × JVal)) (acc m : List (String × Arg)), parseArgs.go cd declared rest acc = .ok m →
      ∀ e ∈ rest, ∀ ty, lookup declared e.1 = some ty → ∃ a, fromJson cd e.2 ty = .ok a := by
  intro rest
  induction rest with
  | nil => intro acc m _ e he; cases he
  | cons x xs ih =>
    intro acc m hm e he ty hty
    obtain ⟨kx, vx⟩ := x
    rw [parseArgs.go] at hm
    cases hlx : lookup declared kx with
    | none =>
      simp only [hlx] at hm
      rcases List.mem_cons.mp he with rfl | he
      · simp only at hty; rw [hlx] at hty; cases hty
      · exact ih acc m hm e he ty hty
    | some tx =>
      simp only [hlx] at hm
      obtain ⟨a, ha, hm⟩ := bind_eq_ok.mp hm
      rcases List.mem_cons.mp he with rfl | he
      · simp only at hty; rw [hlx] at hty; cases hty; exact ⟨a, ha⟩
      · exact ih _ m hm e he ty hty

/-- **The argument wins.** A declared parameter present among the arguments gets the argument's value, whatever the
environment says under the same name; one present in the environment only gets the environment's. -/
theorem C16_argument_overrides_env (cd : Codecs) (declared : List (String × Ty)) (env args : List (String × JVal))
    (m : List (String × Arg)) (h : parseArgs cd declared env args = .ok m) (k : String) (ty : Ty)
    (hd : lookup declared k = some ty) :
    (∀ v, lastEntry args k = some v → ∃ a, fromJson cd v ty = .ok a ∧ lookup m k = some a) ∧
    (lastEntry args k = none → ∀ v, lastEntry env k = some v → ∃ a, fromJson cd v ty = .ok a ∧ lookup m k = some a) ∧
    (lastEntry args k = none → lastEntry env k = none → lookup m k = none) := by
  have hx := C16_request_args_exact cd declared env args m h k
  -- every declared entry read on the way was coerced successfully (otherwise the request is refused)
  have hok : ∀ v, lastEntry (env ++ args) k = some v → ∃ a, fromJson cd v ty = .ok a := by
    intro v hv
    unfold parseArgs at h
    exact go_all_read cd declared _ _ _ h (k, v) (lastEntry_mem _ _ _ hv) ty hd
  have hx' : lookup m k = expected cd declared (env ++ args) k := hx
  unfold expected at hx'
  rw [lastEntry_append] at hx' hok
  refine ⟨fun v hv => ?_, fun hn v hv => ?_, fun hn he => ?_⟩
  · obtain ⟨a, ha⟩ := hok v (by simp [hv])
    refine ⟨a, ha, ?_⟩
    rw [hx']; simp [hd, hv, ha]
  · obtain ⟨a, ha⟩ := hok v (by simp [hn, hv])
    refine ⟨a, ha, ?_⟩
    rw [hx']; simp [hd, hn, hv, ha]
  · rw [hx']; simp [hd, hn, he]

end Tx3.Json
