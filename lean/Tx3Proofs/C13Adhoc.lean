import Tx3Model.LangAdhoc
import Tx3Proofs.C13

/-!
# C13 / C14 — lowering of the chain-specific directives never panics either

`lowerTx_noPanic` covers everything but the directives.  With `lowerDirective` (the model of `cardano.rs`'s `IntoLower`
impls) the whole of `IntoLower for TxDef` is covered: a missing `from` / `amount`, a field that does not lower, an
unsupported block - each is an error, none a panic, for every program, directive and fuel.
-/

namespace Tx3.Lang
open Tx3 Tx3.Outcome

theorem lowerDirective_noPanic (s : Scope) (fuel : Nat) (ctx : Ctx) (w : String) (fs : List (String × LExpr)) :
    NoPanic (lowerDirective s fuel ctx w fs) := by
  unfold lowerDirective
  simp only
  split
  · split
    · exact np_lerr _
    · exact np_lerr _
    · refine np_bind (lowerE_noPanic _ _ _ _) fun _ => np_bind (lowerE_noPanic _ _ _ _) fun _ => np_bind ?_ fun _ => np_ok _
      split
      · exact lowerE_noPanic _ _ _ _
      · exact np_ok _
  · split
    · exact np_lerr _
    · refine np_bind (np_mapMO (fun kv => np_bind (lowerE_noPanic _ _ _ _) fun _ => np_ok _) _) fun _ => np_ok _

theorem lowerTxFull_noPanic (s : Scope) : NoPanic (lowerTxFull s) := by
  unfold lowerTxFull
  exact np_bind (lowerTx_noPanic s) fun _ =>
    np_bind (np_mapMO (fun d => lowerDirective_noPanic _ _ _ _ _) _) fun _ => np_ok _

end Tx3.Lang
