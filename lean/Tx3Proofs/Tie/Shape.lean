import Tx3Model.Gen.Schema
import Tx3Proofs.Tie.ShapeReviewed

/-!
# Tie — the IR types have the shape the models were written against

`Gen.shape` is regenerated from `/repo`'s sources on every run: per IR type its variants in declaration
order, each with the (name, type) keys of its fields in declaration order.  The wire model writes struct fields
and enum variants in exactly that order and by exactly those names; the reducer, traversal and compile models
match on exactly those variants.  A variant added, a field added, renamed, retyped or reordered changes the
table and breaks this obligation before any input is drawn; the checks then search for a failing input as usual.
-/

namespace Tx3.Tie
open Tx3.Gen

theorem ir_shape_as_modelled : shape = reviewedShape := by decide +kernel

/-- which types differ (evaluated for the replay file when the obligation breaks) -/
def shapeDiff : List Nat :=
  (shape.filter fun t => !(reviewedShape.any fun r => r == t)).map (·.1) ++
  (reviewedShape.filter fun r => !(shape.any fun t => t.1 == r.1)).map (·.1)

end Tx3.Tie
