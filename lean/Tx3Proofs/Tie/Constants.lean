import Tx3Model.Gen.Schema
import Tx3Model.Select
import Tx3Model.CompilerOps
import Tx3Model.Resolve

/-!
# Tie — the named constants of the crates have the values the models and the judges use

`Gen.C.*` and `Gen.constKeys` are regenerated from `/repo`'s sources on every run (every top-level `const` of the
translated files: numeric ones as numbers, all of them as (name key, value key)).  The models carry the same numbers -
the selector's window, the size assumed for an output when no body is remembered, the default fee margin the judge of
C05 assumes when a configuration leaves it out - and the front-end limits.  A constant changed, added or removed breaks
this obligation before any input is drawn; the checks then search for a failing input as usual.
-/

namespace Tx3.Tie
open Tx3.Gen

/-- The default fee margin assumed where the configuration names none (harness and judge of C05 / C20). -/
def defaultExtraFees : Nat := 200000
/-- Bytes assumed for an output when `min_utxo` has no remembered body (`CompilerOps.reduceOp`). -/
def minUtxoBytes : Nat := 197
/-- Bytes a metadata text or byte string may hold (front end). -/
def metadataMaxSizeBytes : Nat := 64

theorem constants_as_modelled :
    C.DEFAULT_EXTRA_FEES = defaultExtraFees ∧ C.MIN_UTXO_BYTES = minUtxoBytes ∧
    C.METADATA_MAX_SIZE_BYTES = metadataMaxSizeBytes ∧ C.MAX_SEARCH_SPACE_SIZE = Tx3.window := by decide

/-- Snapshot of every constant (name key, value key) the models were last reviewed against: EXECUTION_UNITS,
DEFAULT_EXTRA_FEES, MIN_UTXO_BYTES, METADATA_MAX_SIZE_BYTES, BUILTIN_FUNCTIONS, MAX_SEARCH_SPACE_SIZE, MISMATCH_PENALTY,
MIN_SUPPORTED_VERSION, IR_VERSION. -/
def reviewedConstKeys : List (Nat × Nat) := [(10911021508681708129, 12981148942370108237), (16983077594058767305, 15405032631470598994), (3507931041038077480, 4994709793538579224), (15323890327836260295, 573522890330722151), (16971053746613592070, 17676537539905448874), (2552916537639924053, 570543213818838016), (17764590168291834567, 6274650180091880188), (814874520762293389, 6259424529091880973), (17892535216867873097, 10755399822473626692)]

theorem constants_reviewed : constKeys = reviewedConstKeys := by decide +kernel

end Tx3.Tie
