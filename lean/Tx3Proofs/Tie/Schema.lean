import Tx3Model.Gen.Schema

/-!
# Tie: the IR's data types and the traversals over them

`Gen.schema` (types, variants, fields, whether an `Expression` is reachable from a field) and
`Gen.traversals` (per `impl Composite/Apply/Node for T` method: per `match self` arm how many pattern
positions are bound and used, or which `self.` fields the body mentions) are regenerated from
/repo's sources on every run.

* `traversals_cover`: every traversal method visits every expression-carrying position of every
  variant / field of its type — the structural core of C06 and C07 (a child that a traversal forgets
  produces no wrong answer until someone puts a parameter there).  The exemptions are listed with
  their reason.
* `serde_shape`: every IR type derives both `Serialize` and `Deserialize`, and the only serde
  attributes and hand-written trait impls are the reviewed ones — the wire model (C11, C18) assumes
  serde's derived, symmetric data model.
* `directives_consumed_are_produced`: every directive name the compiler looks for is one lowering
  writes (C08: a renamed directive produces no error, only a missing redeemer).
-/

namespace Tx3.Tie
open Tx3.Gen

def requiredMethods : List Nat :=
  [K.components, K.try_map_components, K.reduce_nested, K.apply_args, K.apply_inputs, K.apply_fees,
   K.is_constant, K.params, K.queries, K.reduce, K.apply]

/-- (type, variant, method or none = every method): positions a traversal may leave alone.
* `Expression::UtxoSet`: resolved UTxOs are values; their datum/script expressions are constants
  by construction (hypothesis `Sealed` of C06).
* `Expression::EvalCompiler` in `is_constant`: a pending compiler op is never constant, whatever
  its operand.
* `Param::Set`: the payload of a substituted parameter is a value produced by `apply_*` itself and
  is left alone by every later stage (hypothesis `Sealed` of C06; `is_constant` and the compiler-op
  visitor do look inside).
* `Param::ExpectInput` in `is_constant`: an unresolved input is never constant, whatever its query. -/
def exempt : List (Nat × Nat × Option Nat) :=
  [(K.Expression, K.UtxoSet, none),
   (K.Expression, K.EvalCompiler, some K.is_constant),
   (K.Param, K.Set, none),
   (K.Param, K.ExpectInput, some K.is_constant)]

def isExempt (t v m : Nat) : Bool :=
  exempt.any fun e => e.1 == t && e.2.1 == v && (match e.2.2 with | none => true | some x => x == m)

def exprCount (v : GVariant) : Nat := (v.fields.filter (·.carries)).length

def armCovers (m : GMethod) (v : GVariant) : Bool :=
  m.arms.any fun a => a.variantKey == v.key && decide (exprCount v ≤ a.used)

def lookupFields (t : Nat) : Option (List (Nat × Bool)) := (fieldKeys.find? (·.1 == t)).map (·.2)

def methodOK (m : GMethod) : Bool :=
  if !requiredMethods.contains m.methodKey then true else
  match schema.find? (·.key == m.typeKey) with
  | none => true                                   -- container impls (`Vec<T>`, `Option<T>`, …)
  | some t =>
    if t.isEnum then
      t.variants.all fun v => exprCount v == 0 || isExempt t.key v.key m.methodKey || armCovers m v
    else
      match lookupFields t.key with
      | none => true
      | some fs => fs.all fun f => !f.2 || m.selfFieldKeys.contains f.1

def uncovered : List (String × String) :=
  (traversals.filter fun m => !methodOK m).map fun m => (m.ty, m.method)

theorem traversals_cover : traversals.all methodOK = true := by decide +kernel

/-- Every expression-carrying IR type of `v1beta0.rs` has its traversal: a direct `Apply` impl or a
`Composite` impl with both `components` and `try_map_components`. -/
def hasTraversal (t : GType) : Bool :=
  let ms := traversals.filter (·.typeKey == t.key)
  (ms.any (·.methodKey == K.params) && ms.any (·.methodKey == K.apply_args)) ||
  (ms.any (·.methodKey == K.components) && ms.any (·.methodKey == K.try_map_components))

/-- types that carry expressions only as data of a resolved UTxO, or that are not part of a template -/
def noTraversalNeeded : List Nat := [K.Utxo, K.AnyTir]

def carriesAny (t : GType) : Bool := t.variants.any fun v => v.fields.any (·.carries)

theorem carriers_have_traversals :
    (schema.filter fun t => carriesAny t && !noTraversalNeeded.contains t.key).all hasTraversal = true := by
  decide +kernel

/-! ### serde shape -/

/-- reviewed serde attributes and hand-written impls (keys of `Gen.serdeNotes` entries):
AdHocDirective.data serialize_with = serialize_ordered (C18 fix); Utxo: Hash/PartialEq/Eq by ref;
CanonicalAssets: PartialEq/Eq ignoring zero entries (C15 fix); TirVersion: rename_all lowercase. -/
def reviewedSerdeNotes : List Nat :=
  [125613160316950825, 12313383433108592007, 7193056370090394734, 5898313969508693605,
   11337312849449749583, 3686541572097382778, 6665851529003067588]

theorem serde_notes_reviewed : (serdeNoteKeys.all fun k => reviewedSerdeNotes.contains k) = true := by
  decide +kernel

/-- every type reachable in an encoded template derives the symmetric pair -/
def wireTypes : List GType := schema.filter fun t => carriesAny t || t.key == K.UtxoRef || t.key == K.Type

theorem wire_types_derive_serde : (wireTypes.all (·.derivesSerde)) = true := by decide +kernel

/-! ### directive names -/

theorem directives_consumed_are_produced :
    (directivesConsumedKeys.all fun k => directivesProducedKeys.contains k) = true := by decide +kernel

example : 8 < traversals.length ∧ 10 < schema.length ∧ 2 < directivesConsumedKeys.length := by decide +kernel

end Tx3.Tie
