import Tx3Model.Gen.Sites
import Tx3Proofs.Tie.SitesReviewed

/-!
# Tie: panic, cast and arithmetic sites

`Gen.sites` is regenerated from /repo's sources on every run.  Each obligation says: every site of a
given class in the files a property is anchored in has been reviewed (`Tie.reviewedSites`, kept by
hand with a note per site).  A new `unwrap`, `expect`, `todo!`, slice index, `as` cast or unchecked
operator in an anchored file makes the corresponding theorem fail to check — before any input is
drawn.  Keys are numbers so that the obligations reduce in the kernel.
-/

namespace Tx3.Tie
open Tx3.Gen

/-- indices in `Gen.files` -/
def frontFiles : List Nat := [0, 1, 2, 3, 4]          -- parsing, cardano, analyzing, ast, lowering
def lowerFiles : List Nat := [1, 4, 5]                -- cardano, lowering, facade
def backFiles : List Nat := [6, 7, 8, 9, 11, 12, 13, 14, 15, 16, 17, 18, 21, 22, 23, 24, 25]
def numericFiles : List Nat := [6, 7, 12, 13, 14, 15, 16, 17]   -- reduce, assets, tx3-cardano
def jsonFiles : List Nat := [19, 20]                  -- interop, trp
def wireFiles : List Nat := [10]                      -- encoding
def tiiFiles : List Nat := [26, 27]                   -- tx3c tii, build

def keysOf (files : List Nat) (classes : List Nat) : List Nat :=
  (sites.filter fun s => files.contains s.fileId && classes.contains s.cls).map (·.key)

def allReviewed (ks : List Nat) : Bool := ks.all fun k => reviewedSites.contains k

/-- The translator read and parsed every anchored file. -/
theorem translator_no_problems : problems = [] := by decide

/-- The file table the indices above refer to has not moved. -/
theorem files_count : files.length = 28 := by decide

theorem sites_reviewed_front : allReviewed (keysOf frontFiles [0]) = true := by decide +kernel
theorem sites_reviewed_lowering : allReviewed (keysOf lowerFiles [0]) = true := by decide +kernel
theorem sites_reviewed_back : allReviewed (keysOf backFiles [0]) = true := by decide +kernel
theorem sites_reviewed_numeric : allReviewed (keysOf numericFiles [1, 2]) = true := by decide +kernel
theorem sites_reviewed_json : allReviewed (keysOf jsonFiles [0, 1, 2]) = true := by decide +kernel
theorem sites_reviewed_wire : allReviewed (keysOf wireFiles [0]) = true := by decide +kernel
theorem sites_reviewed_tii : allReviewed (keysOf tiiFiles [0]) = true := by decide +kernel

/-- Non-vacuity: the tables are populated. -/
example : 50 < (keysOf frontFiles [0]).length ∧ 5 < (keysOf numericFiles [1, 2]).length := by decide +kernel

end Tx3.Tie
