import Tx3Proofs.Lemmas.Compile

/-!
# C08 — redeemers are attached to the item they were written for

Over the model of `compile_redeemers`.  Spend items are indexed in the sorted, duplicate-free
list of body inputs; mint items among the sorted distinct policies of the mint field; reward
items among the reward accounts of the withdrawal map.  The theorems say: every redeemer in
the witness set points at exactly the item its block named and carries exactly that block's
redeemer data, and two blocks can never silently overwrite each other.
-/

namespace Tx3
open Outcome

theorem indexOf?_get {α} [DecidableEq α] {x : α} {l : List α} {i : Nat} (h : indexOf? x l = some i) :
    l[i]? = some x := by
  unfold indexOf? at h
  simp only at h
  split at h
  · rename_i hlt
    cases h
    rw [List.getElem?_eq_getElem hlt]
    congr 1
    exact List.getElem_idxOf hlt
  · cases h

/-- **Spend redeemers point at their own UTxO.** Every spend entry produced for the template
comes from an input block that carries a redeemer, carries that block's data, and its index is
the position of one of that block's UTxOs among the sorted distinct body inputs. -/
theorem C08_spend_sound {t : Tx} {bodyInputs : List TxIn} {rs : List ((Nat × Nat) × PData)}
    (h : compileSpendRedeemers t bodyInputs = .ok rs) :
    ∀ r ∈ rs, ∃ i ∈ t.inputs, i.redeemer.isNone = false ∧ tryAsData i.redeemer = .ok r.2 ∧
      ∃ refs, exprIntoUtxoRefs i.utxos = .ok refs ∧ ∃ u ∈ refs, r.1.1 = 0 ∧
        (dedupAdj (sortBy txInLe bodyInputs))[r.1.2]? = some (u.txid, u.index % 2^32) := by
  unfold compileSpendRedeemers at h
  simp only at h
  obtain ⟨per, hper, h⟩ := bind_eq_ok.mp h
  cases h
  intro r hr
  obtain ⟨block, hblock, hrb⟩ := List.mem_flatten.mp hr
  obtain ⟨i, hi, hfi⟩ := mapMO_ok_mem hper block hblock
  obtain ⟨refs, hrefs, hfi⟩ := bind_eq_ok.mp hfi
  split at hfi
  · cases hfi
  · split at hfi
    · cases hfi; cases hrb
    · rename_i hne hred
      obtain ⟨u, hu, hfu⟩ := mapMO_ok_mem hfi r hrb
      split at hfu
      · rename_i ix hix
        obtain ⟨d, hd, hfu⟩ := bind_eq_ok.mp hfu
        cases hfu
        refine ⟨i, hi, by simpa using hred, hd, refs, hrefs, u, hu, rfl, indexOf?_get hix⟩
      · cases hfu

/-- **No silent overwrite.** Inserting into the redeemer map either keeps an identical entry,
adds a new key, or fails: a key never ends up with data different from what was there. -/
theorem insertRedeemer_keeps (k : Nat × Nat) (d : PData) :
    ∀ (l r : List ((Nat × Nat) × PData)), insertRedeemer k d l = .ok r →
    (∀ e ∈ l, e ∈ r) ∧ (∀ e ∈ r, e ∈ l ∨ e = (k, d)) := by
  intro l
  induction l with
  | nil => intro r h; rw [insertRedeemer] at h; cases h; simp
  | cons x xs ih =>
    intro r h
    obtain ⟨k', d'⟩ := x
    rw [insertRedeemer] at h
    split at h
    · split at h
      · cases h; exact ⟨fun e he => he, fun e he => Or.inl he⟩
      · cases h
    · split at h
      · cases h
        exact ⟨fun e he => List.mem_cons_of_mem _ he, fun e he => by
          rcases List.mem_cons.mp he with he | he
          · exact Or.inr he
          · exact Or.inl he⟩
      · obtain ⟨r', hr', h⟩ := bind_eq_ok.mp h
        cases h
        obtain ⟨i1, i2⟩ := ih r' hr'
        refine ⟨fun e he => ?_, fun e he => ?_⟩
        · rcases List.mem_cons.mp he with he | he
          · subst he; exact List.mem_cons_self
          · exact List.mem_cons_of_mem _ (i1 e he)
        · rcases List.mem_cons.mp he with he | he
          · subst he; exact Or.inl List.mem_cons_self
          · rcases i2 e he with h1 | h1
            · exact Or.inl (List.mem_cons_of_mem _ h1)
            · exact Or.inr h1

/-- An entry is present, possibly as an identical (`==`) entry inserted earlier for the same key. -/
def Present (e : (Nat × Nat) × PData) (l : List ((Nat × Nat) × PData)) : Prop :=
  ∃ e' ∈ l, e' = e ∨ (e'.1 = e.1 ∧ (e'.2 == e.2) = true)

theorem insertRedeemer_present (k : Nat × Nat) (d : PData) :
    ∀ (l r : List ((Nat × Nat) × PData)), insertRedeemer k d l = .ok r → Present (k, d) r := by
  intro l
  induction l with
  | nil => intro r h; rw [insertRedeemer] at h; cases h; exact ⟨(k, d), by simp, Or.inl rfl⟩
  | cons y ys ihy =>
    intro r h
    obtain ⟨k', d'⟩ := y
    rw [insertRedeemer] at h
    split at h
    · rename_i hk
      split at h
      · rename_i hd
        cases h
        exact ⟨(k', d'), List.mem_cons_self, Or.inr ⟨hk.symm, hd⟩⟩
      · cases h
    · split at h
      · cases h; exact ⟨(k, d), List.mem_cons_self, Or.inl rfl⟩
      · obtain ⟨r', hr', h⟩ := bind_eq_ok.mp h
        cases h
        obtain ⟨e', he', hh⟩ := ihy r' hr'
        exact ⟨e', List.mem_cons_of_mem _ he', hh⟩

/-- **The witness set holds exactly the redeemers written in the template**: the final map
contains only entries produced for a spend, mint, burn or withdrawal block — nothing is
invented — and every entry produced is present (two different redeemers on one key make
compilation fail instead of one silently replacing the other). -/
theorem C08_map_exact (env : CompileEnv) (t : Tx) (inputs : List TxIn)
    (mint : List (Bytes × Bytes × Int)) (ws : List (Bytes × Int)) (rs : List ((Nat × Nat) × PData))
    (h : compileRedeemers env t inputs mint ws = .ok rs) :
    ∃ s m b w, compileSpendRedeemers t inputs = .ok s ∧ compileMintRedeemers t.mints mint = .ok m ∧
      compileMintRedeemers t.burns mint = .ok b ∧ compileWithdrawalRedeemers env t ws = .ok w ∧
      (∀ e ∈ s ++ m ++ b ++ w, Present e rs) ∧ (∀ e ∈ rs, e ∈ s ++ m ++ b ++ w) := by
  unfold compileRedeemers at h
  obtain ⟨s, hs, h⟩ := bind_eq_ok.mp h
  obtain ⟨m, hm, h⟩ := bind_eq_ok.mp h
  obtain ⟨b, hb, h⟩ := bind_eq_ok.mp h
  obtain ⟨w, hw, h⟩ := bind_eq_ok.mp h
  refine ⟨s, m, b, w, hs, hm, hb, hw, ?_⟩
  have key : ∀ (l acc r : List ((Nat × Nat) × PData)), compileRedeemers.ins l acc = .ok r →
      (∀ e ∈ acc, e ∈ r) ∧ (∀ e ∈ l, Present e r) ∧ (∀ e ∈ r, e ∈ acc ∨ e ∈ l) := by
    intro l
    induction l with
    | nil =>
      intro acc r hr; rw [compileRedeemers.ins] at hr; cases hr
      exact ⟨fun e he => he, fun e he => (by cases he), fun e he => Or.inl he⟩
    | cons x xs ih =>
      intro acc r hr
      obtain ⟨k, d⟩ := x
      rw [compileRedeemers.ins] at hr
      obtain ⟨acc', hacc', hr⟩ := bind_eq_ok.mp hr
      obtain ⟨j1, j2⟩ := insertRedeemer_keeps k d acc acc' hacc'
      obtain ⟨i1, i2, i3⟩ := ih acc' r hr
      obtain ⟨e', he', hh⟩ := insertRedeemer_present k d acc acc' hacc'
      refine ⟨fun e he => i1 e (j1 e he), fun e he => ?_, fun e he => ?_⟩
      · rcases List.mem_cons.mp he with he | he
        · subst he; exact ⟨e', i1 e' he', hh⟩
        · exact i2 e he
      · rcases i3 e he with h1 | h1
        · rcases j2 e h1 with h2 | h2
          · exact Or.inl h2
          · subst h2; exact Or.inr List.mem_cons_self
        · exact Or.inr (List.mem_cons_of_mem _ h1)
  obtain ⟨_, k2, k3⟩ := key _ [] rs h
  refine ⟨k2, fun e he => ?_⟩
  rcases k3 e he with h1 | h1
  · cases h1
  · exact h1

/-! ### mint / burn and reward redeemers -/

/-- The policies collected for a block are policies of that block's asset entries (or were there
before): each is the 28-byte hash read from the policy position of some entry. -/
theorem policies_sound : ∀ (n : Nat) (cs : List Expr) (acc ps : List Bytes), cs.length ≤ n →
    compileMintRedeemers.policies cs acc = .ok ps →
    ∀ p ∈ ps, p ∈ acc ∨ ∃ pe ∈ cs, ∃ pb, exprIntoBytes pe = .ok pb ∧ bytesIntoHash 28 pb = .ok p := by
  intro n
  induction n with
  | zero =>
    intro cs acc ps hl h p hp
    cases cs with
    | nil => rw [compileMintRedeemers.policies] at h; cases h; exact Or.inl hp; intro _ _ _ _ hh; cases hh
    | cons _ _ => simp at hl
  | succ n ih =>
    intro cs acc ps hl h p hp
    match cs with
    | [] => rw [compileMintRedeemers.policies] at h; cases h; exact Or.inl hp; intro _ _ _ _ hh; cases hh
    | [_] => rw [compileMintRedeemers.policies] at h; cases h; exact Or.inl hp; intro _ _ _ _ hh; cases hh
    | [_, _] => rw [compileMintRedeemers.policies] at h; cases h; exact Or.inl hp; intro _ _ _ _ hh; cases hh
    | pe :: a :: b :: rest =>
      rw [compileMintRedeemers.policies] at h
      obtain ⟨pb, hpb, h⟩ := bind_eq_ok.mp h
      obtain ⟨ph, hph, h⟩ := bind_eq_ok.mp h
      have hr : rest.length ≤ n := by simp at hl; omega
      rcases ih rest _ ps hr h p hp with h1 | ⟨pe', hpe', hh⟩
      · split at h1
        · exact Or.inl h1
        · rcases List.mem_append.mp h1 with h2 | h2
          · exact Or.inl h2
          · simp only [List.mem_singleton] at h2
            subst h2
            exact Or.inr ⟨pe, by simp, pb, hpb, hph⟩
      · exact Or.inr ⟨pe', by simp [hpe'], hh⟩

/-- **Mint and burn redeemers point at a policy of their own block.** Every entry produced comes
from a mint/burn block that carries a redeemer, carries that block's data, has tag 1, and its index
is the position — among the sorted distinct minted policies — of a policy read from one of that
block's asset entries. -/
theorem C08_mint_sound {blocks : List Mint} {mint : List (Bytes × Bytes × Int)}
    {rs : List ((Nat × Nat) × PData)} (h : compileMintRedeemers blocks mint = .ok rs) :
    ∀ r ∈ rs, ∃ m ∈ blocks, m.redeemer.isNone = false ∧ tryAsData m.redeemer = .ok r.2 ∧ r.1.1 = 1 ∧
      ∃ cs, exprIntoAssets m.amount = .ok cs ∧ ∃ p, (mintPolicies mint)[r.1.2]? = some p ∧
        ∃ pe ∈ cs, ∃ pb, exprIntoBytes pe = .ok pb ∧ bytesIntoHash 28 pb = .ok p := by
  unfold compileMintRedeemers at h
  try simp only at h
  obtain ⟨per, hper, h⟩ := bind_eq_ok.mp h
  cases h
  intro r hr
  obtain ⟨block, hblock, hrb⟩ := List.mem_flatten.mp hr
  obtain ⟨m, hm, hfm⟩ := mapMO_ok_mem hper block hblock
  split at hfm
  · cases hfm; cases hrb
  · rename_i hred
    obtain ⟨cs, hcs, hfm⟩ := bind_eq_ok.mp hfm
    split at hfm
    · cases hfm
    · obtain ⟨ps, hps, hfm⟩ := bind_eq_ok.mp hfm
      obtain ⟨p, hp, hfp⟩ := mapMO_ok_mem hfm r hrb
      split at hfp
      · rename_i ix hix
        obtain ⟨d, hd, hfp⟩ := bind_eq_ok.mp hfp
        cases hfp
        rcases policies_sound cs.length cs [] ps (Nat.le_refl _) hps p hp with h1 | h1
        · cases h1
        · exact ⟨m, hm, by simpa using hred, hd, rfl, cs, hcs, p, indexOf?_get hix, h1⟩
      · cases hfp

/-- **Withdrawal redeemers point at their own reward account.** Every entry produced comes from a
`withdrawal` directive that carries a redeemer, carries that directive's data, has tag 3, and its
index is the position of the directive's reward account among the withdrawal keys. -/
theorem C08_reward_sound {env : CompileEnv} {t : Tx} {ws : List (Bytes × Int)}
    {rs : List ((Nat × Nat) × PData)} (h : compileWithdrawalRedeemers env t ws = .ok rs) :
    ∀ r ∈ rs, ∃ d ∈ t.adhoc, adhocName d = "withdrawal" ∧ ∃ re, adhocGet d "redeemer" = some re ∧
      tryAsData re = .ok r.2 ∧ r.1.1 = 3 ∧ ∃ cred acct, adhocGet d "credential" = some cred ∧
        exprIntoRewardAccount env cred = .ok acct ∧ (ws.map (·.1))[r.1.2]? = some acct := by
  unfold compileWithdrawalRedeemers at h
  obtain ⟨per, hper, h⟩ := bind_eq_ok.mp h
  cases h
  intro r hr
  obtain ⟨block, hblock, hrb⟩ := List.mem_flatten.mp hr
  obtain ⟨d, hd, hfd⟩ := mapMO_ok_mem hper block hblock
  obtain ⟨hd1, hd2⟩ := List.mem_filter.mp hd
  split at hfd
  · cases hfd; cases hrb
  · rename_i re hre
    split at hfd
    · cases hfd; cases hrb
    · obtain ⟨cred, hcred, hfd⟩ := bind_eq_ok.mp hfd
      obtain ⟨acct, hacct, hfd⟩ := bind_eq_ok.mp hfd
      split at hfd
      · rename_i ix hix
        obtain ⟨dd, hdd, hfd⟩ := bind_eq_ok.mp hfd
        cases hfd
        simp only [List.mem_singleton] at hrb
        subst hrb
        have hc : adhocGet d "credential" = some cred := by
          cases hg : adhocGet d "credential" with
          | none => rw [hg] at hcred; cases hcred
          | some e => rw [hg] at hcred; cases hcred; rfl
        exact ⟨d, hd1, by simpa using hd2, re, hre, hdd, rfl, cred, acct, hc, hacct, indexOf?_get hix⟩
      · cases hfd

/-- **C08, on the compiled transaction.** Every redeemer of a successfully compiled transaction is
attached to the item it was written for: a spend redeemer to a UTxO of its own input block (index in
the sorted distinct body inputs), a mint redeemer to a policy of its own mint or burn block (index
among the sorted distinct minted policies), a reward redeemer to its own directive's reward account
(index among the withdrawal keys) — and carries that block's data. -/
theorem C08_redeemers_sound {env : CompileEnv} {t : Tx} {a : ATx} (h : compileAbs env t = .ok a) :
    ∀ r ∈ a.redeemers,
      (∃ i ∈ t.inputs, i.redeemer.isNone = false ∧ tryAsData i.redeemer = .ok r.2 ∧
        ∃ refs, exprIntoUtxoRefs i.utxos = .ok refs ∧ ∃ u ∈ refs, r.1.1 = 0 ∧
          (dedupAdj (sortBy txInLe a.inputs))[r.1.2]? = some (u.txid, u.index % 2^32)) ∨
      (∃ m ∈ t.mints ++ t.burns, m.redeemer.isNone = false ∧ tryAsData m.redeemer = .ok r.2 ∧ r.1.1 = 1 ∧
        ∃ cs, exprIntoAssets m.amount = .ok cs ∧ ∃ p, (mintPolicies a.mint)[r.1.2]? = some p ∧
          ∃ pe ∈ cs, ∃ pb, exprIntoBytes pe = .ok pb ∧ bytesIntoHash 28 pb = .ok p) ∨
      (∃ d ∈ t.adhoc, adhocName d = "withdrawal" ∧ ∃ re, adhocGet d "redeemer" = some re ∧
        tryAsData re = .ok r.2 ∧ r.1.1 = 3 ∧ ∃ cred acct, adhocGet d "credential" = some cred ∧
          exprIntoRewardAccount env cred = .ok acct ∧ (a.withdrawals.map (·.1))[r.1.2]? = some acct) := by
  have parts := compileAbs_ok h
  obtain ⟨s, m, b, w, hs, hm, hb, hw, _, hall⟩ :=
    C08_map_exact env t a.inputs a.mint a.withdrawals a.redeemers parts.redeemers
  intro r hr
  have := hall r hr
  simp only [List.mem_append] at this
  rcases this with ((h1 | h1) | h1) | h1
  · exact Or.inl (C08_spend_sound hs r h1)
  · obtain ⟨mm, hmm, rest⟩ := C08_mint_sound hm r h1
    exact Or.inr (Or.inl ⟨mm, List.mem_append_left _ hmm, rest⟩)
  · obtain ⟨mm, hmm, rest⟩ := C08_mint_sound hb r h1
    exact Or.inr (Or.inl ⟨mm, List.mem_append_right _ hmm, rest⟩)
  · exact Or.inr (Or.inr (C08_reward_sound hw r h1))

end Tx3
