import Tx3Proofs.C14
import Tx3Model.CompilerOps

/-!
# C14 (continued) — apply, reduce and the compiler pass never panic

The apply stages are total functions of the model (no `Outcome` at all).  `reduce`, the
chain-specific compiler ops and the compiler pass return `ok` or `err` on every input — any
decodable IR, any arguments, any fuel.
-/

namespace Tx3
open Outcome

theorem np_errUn (s : String) : NoPanic (errUn s) := np_err _
theorem np_errBin (s : String) : NoPanic (errBin s) := np_err _

theorem np_arithNeg (x : Expr) : NoPanic (arithNeg x) := by
  unfold arithNeg
  repeat (first | exact np_ok _ | exact np_err _ | exact np_errUn _ | split | dsimp only)

theorem np_arithAdd (x y : Expr) : NoPanic (arithAdd x y) := by
  unfold arithAdd
  repeat (first | exact np_ok _ | exact np_err _ | exact np_errBin _ | split | dsimp only)

theorem np_arithSub (x y : Expr) : NoPanic (arithSub x y) := by
  unfold arithSub
  split
  · exact np_arithNeg _
  · exact np_bind (np_arithNeg _) fun _ => np_arithAdd _ _
  · exact np_bind (np_arithNeg _) fun _ => np_arithAdd _ _
  · exact np_errBin _

theorem np_concat (x y : Expr) : NoPanic (concat x y) := by
  unfold concat
  repeat (first | exact np_ok _ | exact np_err _ | exact np_errBin _ | split | dsimp only)

theorem np_indexOrErr (x i : Expr) : NoPanic (indexOrErr x i) := by
  unfold indexOrErr; split <;> first | exact np_ok _ | exact np_err _

theorem np_intoAssets (x : Expr) : NoPanic (intoAssets x) := by
  unfold intoAssets
  repeat (first | exact np_ok _ | exact np_err _ | split)

theorem np_intoDatum (x : Expr) : NoPanic (intoDatum x) := by
  unfold intoDatum
  repeat (first | exact np_ok _ | exact np_err _ | split)

theorem np_reduceBuiltin (b : BKind) (cs : List Expr) : NoPanic (reduceBuiltin b cs) := by
  unfold reduceBuiltin
  split <;> first
    | exact np_arithAdd _ _ | exact np_arithSub _ _ | exact np_concat _ _ | exact np_arithNeg _
    | exact np_indexOrErr _ _ | exact np_ok _ | exact np_err _

theorem np_reduceCoerce (c : KKind) (cs : List Expr) : NoPanic (reduceCoerce c cs) := by
  unfold reduceCoerce
  split <;> first
    | exact np_intoAssets _ | exact np_intoDatum _ | exact np_ok _ | exact np_err _
    | exact np_errUn _

/-- **C14 (reduce).** Reduction of any expression, with any fuel, returns `ok` or `err`. -/
theorem C14_reduce_total : ∀ (n : Nat) (e : Expr), NoPanic (reduceF n e) := by
  intro n
  induction n with
  | zero => intro e; rw [reduceF]; exact np_err _
  | succ n ih =>
    intro e
    cases e with
    | leaf l => rw [reduceF]; exact np_ok _
    | node k cs =>
      have hmap : ∀ l : List Expr, NoPanic (mapMO (reduceF n) l) := fun l => np_mapMO ih l
      have hb : ∀ b : BKind, b ≠ .noop → NoPanic (do
          let cs1 ← mapMO (reduceF n) cs
          if Expr.isConstantL cs1 then reduceBuiltin b cs1
          else do
            let cs2 ← mapMO (reduceF n) cs1
            if Expr.isConstantL cs2 then do
              let r ← reduceBuiltin b cs2
              Outcome.ok (Expr.node (.builtin .noop) [r])
            else Outcome.ok (Expr.node (.builtin b) cs2)) := by
        intro b _
        apply np_bind (hmap _); intro cs1
        split
        · exact np_reduceBuiltin _ _
        · apply np_bind (hmap _); intro cs2
          split
          · exact np_bind (np_reduceBuiltin _ _) fun _ => np_ok _
          · exact np_ok _
      have hc : ∀ c : KKind, c ≠ .noop → NoPanic (do
          let cs1 ← mapMO (reduceF n) cs
          if Expr.isConstantL cs1 then reduceCoerce c cs1
          else do
            let cs2 ← mapMO (reduceF n) cs1
            if Expr.isConstantL cs2 then do
              let r ← reduceCoerce c cs2
              Outcome.ok (Expr.node (.coerce .noop) [r])
            else Outcome.ok (Expr.node (.coerce c) cs2)) := by
        intro c _
        apply np_bind (hmap _); intro cs1
        split
        · exact np_reduceCoerce _ _
        · apply np_bind (hmap _); intro cs2
          split
          · exact np_bind (np_reduceCoerce _ _) fun _ => np_ok _
          · exact np_ok _
      have hnoop : NoPanic (match cs with | [x] => reduceF n x | _ => .err "shape:noop") := by
        split <;> first | exact ih _ | exact np_err _
      have hdefault : NoPanic (do let cs1 ← mapMO (reduceF n) cs; Outcome.ok (Expr.node k cs1)) :=
        np_bind (hmap _) fun _ => np_ok _
      cases k with
      | param p =>
        cases p with
        | set => simp only [reduceF]; split <;> first | exact np_ok _ | exact np_err _
        | expectValue _ _ => simp only [reduceF]; exact np_ok _
        | expectFees => simp only [reduceF]; exact np_ok _
        | expectInput _ _ _ =>
          simp only [reduceF]
          exact np_bind (hmap _) fun _ => np_bind (hmap _) fun _ => np_ok _
      | builtin b =>
        cases b with
        | noop => simp only [reduceF]; exact hnoop
        | add => simp only [reduceF]; exact hb _ (by simp)
        | sub => simp only [reduceF]; exact hb _ (by simp)
        | concat => simp only [reduceF]; exact hb _ (by simp)
        | negate => simp only [reduceF]; exact hb _ (by simp)
        | property => simp only [reduceF]; exact hb _ (by simp)
      | coerce c =>
        cases c with
        | noop => simp only [reduceF]; exact hnoop
        | intoAssets => simp only [reduceF]; exact hc _ (by simp)
        | intoDatum => simp only [reduceF]; exact hc _ (by simp)
        | intoScript => simp only [reduceF]; exact hc _ (by simp)
      | utxoSet m => simp only [reduceF]; exact np_ok _
      | list | map | tuple | struct | assets | compiler | adhoc => simp only [reduceF]; exact hdefault

theorem C14_expr_reduce_total (e : Expr) : NoPanic e.reduce := C14_reduce_total _ _

theorem np_exprIntoNumber (e : Expr) : NoPanic (exprIntoNumber e) := by
  fun_induction exprIntoNumber e with
  | case1 m => exact np_ok _
  | case2 p a e ih => exact ih
  | case3 e h1 h2 => exact np_err _

theorem np_liftNum (x : Outcome Int) (h : NoPanic x) : NoPanic (liftNum x) := by
  unfold liftNum
  cases x with
  | ok n => exact np_ok _
  | err e => exact np_err _
  | panic s => exact absurd rfl (h s)

/-- **C14 (compiler ops).** The chain-specific evaluation of every compiler op on any operands —
hashes of any length, any index, any slot or timestamp, with or without a previously compiled
body — returns `ok` or `err`. -/
theorem C14_reduceOp_total (env : OpEnv) (c : CKind) (cs : List Expr) : NoPanic (reduceOp env c cs) := by
  unfold reduceOp
  split
  · simp only
    split
    · split <;> first | exact np_ok _ | (unfold opErr; exact np_err _)
    · split <;> first | exact np_ok _ | (unfold opErr; exact np_err _)
    · unfold opErr; exact np_err _
  · apply np_bind (np_liftNum _ (np_exprIntoNumber _)); intro idx
    apply np_bind
    · split
      · exact np_ok _
      · split <;> first | exact np_ok _ | exact np_err _
    intro _
    exact np_ok _
  · exact np_ok _
  · apply np_bind (np_liftNum _ (np_exprIntoNumber _)); intro slot
    split
    · unfold opErr; exact np_err _
    · simp only; split <;> first | exact np_ok _ | (unfold opErr; exact np_err _)
  · apply np_bind (np_liftNum _ (np_exprIntoNumber _)); intro time
    split
    · unfold opErr; exact np_err _
    · split <;> first | exact np_ok _ | (unfold opErr; exact np_err _)
  · exact np_err _

/-- **C14 (compiler pass).** -/
theorem C14_compilerPass_total (rop : ReduceOp) (hrop : ∀ c cs, NoPanic (rop c cs)) :
    (∀ e : Expr, NoPanic (compilerPass rop e)) ∧ (∀ es : List Expr, NoPanic (compilerPassL rop es)) := by
  apply Expr.induct
  · intro l; rw [compilerPass]; exact np_ok _
  · intro k cs ih
    cases k with
    | utxoSet m => simp only [compilerPass]; exact np_ok _
    | compiler c =>
      simp only [compilerPass]
      exact np_bind ih fun _ => np_bind (np_mapMO C14_expr_reduce_total _) fun _ => hrop _ _
    | list | map | tuple | struct | assets | param | builtin | coerce | adhoc =>
      simp only [compilerPass]; exact np_bind ih fun _ => np_ok _
  · rw [compilerPassL]; exact np_ok _
  · intro c cs hc hcs
    rw [compilerPassL]
    exact np_bind hc fun _ => np_bind hcs fun _ => np_ok _

/-! ### transaction level -/

theorem np_txMapM (f : Expr → Outcome Expr) (hf : ∀ e, NoPanic (f e)) (t : Tx) : NoPanic (t.mapM f) := by
  unfold Tx.mapM
  apply np_bind (np_mapMO hf _); intro _
  apply np_bind (np_mapMO (fun i => np_bind (hf _) fun _ => np_bind (hf _) fun _ => np_pure _) _); intro _
  apply np_bind (np_mapMO (fun o => np_bind (hf _) fun _ => np_bind (hf _) fun _ =>
    np_bind (hf _) fun _ => np_pure _) _); intro _
  apply np_bind
  · split
    · exact np_bind (hf _) fun _ => np_bind (hf _) fun _ => np_pure _
    · exact np_pure _
  intro _
  apply np_bind (np_mapMO (fun m => np_bind (hf _) fun _ => np_bind (hf _) fun _ => np_pure _) _); intro _
  apply np_bind (np_mapMO (fun m => np_bind (hf _) fun _ => np_bind (hf _) fun _ => np_pure _) _); intro _
  apply np_bind (hf _); intro _
  apply np_bind (np_mapMO hf _); intro _
  apply np_bind (np_mapMO hf _); intro _
  apply np_bind
  · split
    · exact np_bind (np_mapMO hf _) fun _ => np_pure _
    · exact np_pure _
  intro _
  apply np_bind (np_mapMO (fun m => np_bind (hf _) fun _ => np_bind (hf _) fun _ => np_pure _) _); intro _
  exact np_pure _

/-- **C14 (transaction).** Reducing, and running the compiler pass over, a whole transaction
never panics. -/
theorem C14_tx_reduce_total (t : Tx) : NoPanic t.reduce := np_txMapM _ C14_expr_reduce_total t

theorem C14_tx_compilerPass_total (env : OpEnv) (t : Tx) : NoPanic (t.compilerPass (reduceOp env)) :=
  np_txMapM _ (C14_compilerPass_total _ (C14_reduceOp_total env)).1 t

end Tx3
