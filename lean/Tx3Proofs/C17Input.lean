import Tx3Proofs.C17Used

/-!
# C17 — what an input block says is in its query, pinned by `ref` or not

`lowerInput` (the model of `IntoLower for InputBlock`) lowers `from`, `min_amount` and `ref` each on its own and puts
the three results under the block's query node: none of them is skipped because another one is present.  So a
parameter that the body uses only inside the `min_amount` of an input that is also pinned by `ref` is required by the
IR (seed C17-10 makes the real lowering drop `min_amount` when `ref` is there: the model and the code then disagree
on the programs of the single-use parameter sweep, positions 16-18).
-/

namespace Tx3.Lang
open Tx3 Outcome Expr

/-- **Every field of an input block reaches its query**: whatever `from`, `min_amount` and `ref` lower to is inside
what the block lowers to - all three, whichever of them are present. -/
theorem C17_input_fields_lowered (s : Scope) (n : Nat) (ctx : Ctx) (b : InputBlock) (t : Expr)
    (h : lowerInput s (n + 1) ctx b = .ok t) :
    (∀ m, b.«from» = some m → ∃ tm, lowerE s n ctx.enterAddress m = .ok tm ∧ ∀ x ∈ unresolved tm, x ∈ unresolved t) ∧
    (∀ m, b.minAmount = some m → ∃ tm, lowerE s n ctx.enterAsset m = .ok tm ∧ ∀ x ∈ unresolved tm, x ∈ unresolved t) ∧
    (∀ m, b.ref = some m → ∃ tm, lowerE s n ctx m = .ok tm ∧ ∀ x ∈ unresolved tm, x ∈ unresolved t) := by
  rw [lowerInput] at h
  obtain ⟨ta, hta, h⟩ := bind_eq_ok.mp h
  obtain ⟨tm, htm, h⟩ := bind_eq_ok.mp h
  obtain ⟨tr, htr, h⟩ := bind_eq_ok.mp h
  cases h
  have hu : unresolved (.node (.param (.expectInput b.name.toLower b.many false)) [ta, tm, tr]) =
      [PRef.input b.name.toLower] ++ (unresolved ta ++ (unresolved tm ++ (unresolved tr ++ []))) := by
    simp [unresolved_node, Kind.pref?, unresolvedL]
  refine ⟨fun m hm => ?_, fun m hm => ?_, fun m hm => ?_⟩
  · rw [hm] at hta
    refine ⟨ta, hta, fun x hx => ?_⟩
    rw [hu]; simp [hx]
  · rw [hm] at htm
    refine ⟨tm, htm, fun x hx => ?_⟩
    rw [hu]; simp [hx]
  · rw [hm] at htr
    refine ⟨tr, htr, fun x hx => ?_⟩
    rw [hu]; simp [hx]

/-- **Used in `min_amount`, hence required** - with or without a `ref` next to it. -/
theorem C17_min_amount_param_required (s : Scope) (n : Nat) (ctx : Ctx) (hl : ctx.lvl ≠ 0) (b : InputBlock) (t : Expr)
    (e : IExp) (hm : b.minAmount = some e.toL)
    (hs : ∀ x ∈ e.pars, ∃ ty, resolve s x = some (.param x ty))
    (h : lowerInput s (n + 1) ctx b = .ok t) :
    ∀ x ∈ e.pars, PRef.value (Tii.tiiKey x) ∈ unresolved t := by
  intro x hx
  obtain ⟨tm, htm, hsub⟩ := (C17_input_fields_lowered s n ctx b t h).2.1 e.toL hm
  exact hsub _ (C17_used_is_required s ctx.enterAsset (by simpa [Ctx.enterAsset] using hl) e hs n tm htm x hx)

end Tx3.Lang
