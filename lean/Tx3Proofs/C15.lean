import Tx3Proofs.Lemmas.Assets

/-!
# C15 — multi-asset values obey the algebra that balance computations assume

Property theorems only (helper lemmas live in `Lemmas/Assets.lean`).
`a ≈ₐ b` is semantic equality: every asset class has the same amount on both
sides, an absent class counting as zero.  `WF` is the `HashMap` invariant of the
Rust representation (one entry per class); it is established by every
constructor and preserved by every operation (`C15_wf_*`), so it is not a
restriction on reachable values.
-/

namespace Tx3.Assets

/-! ## Well-formedness is an invariant of the public API -/

theorem C15_wf_constructors (c : AssetClass) (p nm : Bytes) (po no : Option Bytes) (n : Int) :
    WF empty ∧ WF (fromClassAndAmount c n) ∧ WF (fromNakedAmount n) ∧ WF (fromNamedAsset nm n) ∧
    WF (fromDefinedAsset p nm n) ∧ WF (fromAsset po no n) :=
  ⟨WF_empty, WF_fromClassAndAmount c n, WF_fromNakedAmount n, WF_fromNamedAsset nm n,
   WF_fromDefinedAsset p nm n, WF_fromAsset po no n⟩

theorem C15_wf_ops {a : Assets} (b : Assets) (ha : WF a) : WF (add a b) ∧ WF (sub a b) ∧ WF (neg a) :=
  ⟨WF_add ha, WF_sub ha, WF_neg ha⟩

/-! ## The operations are pointwise integer arithmetic -/

theorem C15_amt_add {a b : Assets} (ha : WF a) (hb : WF b) (c : AssetClass) :
    amt (add a b) c = amt a c + amt b c := amt_add ha hb c

theorem C15_amt_sub {a b : Assets} (ha : WF a) (hb : WF b) (c : AssetClass) :
    amt (sub a b) c = amt a c - amt b c := amt_sub ha hb c

theorem C15_amt_neg (a : Assets) (c : AssetClass) : amt (neg a) c = - amt a c := amt_neg a c

/-- `Add`/`Sub` leave no zero entries behind (the `retain`). -/
theorem C15_add_no_zero_entries {a b : Assets} {k : AssetClass} {v : Int}
    (h : (k, v) ∈ add a b) : v ≠ 0 := retainNZ_nonzero h

/-! ## Commutative group, up to semantic equality -/

theorem C15_add_comm {a b : Assets} (ha : WF a) (hb : WF b) : add a b ≈ₐ add b a := by
  intro c; rw [amt_add ha hb, amt_add hb ha]; omega

theorem C15_add_assoc {a b c : Assets} (ha : WF a) (hb : WF b) (hc : WF c) :
    add (add a b) c ≈ₐ add a (add b c) := by
  intro x
  rw [amt_add (WF_add ha) hc, amt_add ha hb, amt_add ha (WF_add hb), amt_add hb hc]; omega

theorem C15_sub_eq_add_neg {a b : Assets} (ha : WF a) (hb : WF b) :
    sub a b ≈ₐ add a (neg b) := by
  intro c; rw [amt_sub ha hb, amt_add ha (WF_neg hb), amt_neg]; omega

theorem C15_sub_add_cancel {a b : Assets} (ha : WF a) (hb : WF b) :
    add (sub a b) b ≈ₐ a := by
  intro c; rw [amt_add (WF_sub ha) hb, amt_sub ha hb]; omega

theorem C15_add_zero {a : Assets} (ha : WF a) : add a empty ≈ₐ a := by
  intro c; rw [amt_add ha WF_empty]; simp [empty]

theorem C15_add_neg_self {a : Assets} (ha : WF a) : add a (neg a) ≈ₐ empty := by
  intro c; rw [amt_add ha (WF_neg ha), amt_neg]; simp only [empty, amt_nil]; omega

/-! ## Equality is semantic -/

/-- `a == b` holds exactly when the two values are semantically equal — zero entries are
immaterial however the value was built. -/
theorem C15_eq_semantic {a b : Assets} (ha : WF a) (hb : WF b) :
    beq a b = true ↔ a ≈ₐ b := by
  unfold beq
  simp only [Bool.and_eq_true, List.all_eq_true, decide_eq_true_eq]
  constructor
  · rintro ⟨h1, h2⟩ c
    cases hg : get? a c with
    | some v =>
      have := h1 _ (mem_of_get?_some hg)
      simp only at this
      unfold amt at *; rw [hg]; exact this
    | none =>
      cases hg' : get? b c with
      | none => unfold amt; rw [hg, hg']
      | some w =>
        have := h2 _ (mem_of_get?_some hg')
        simp only at this
        unfold amt at *; rw [hg] at *; rw [hg']; exact this.symm
  · intro h
    constructor
    · rintro ⟨k, v⟩ hm
      simp only
      rw [← h k, amt_of_mem ha hm]
    · rintro ⟨k, v⟩ hm
      simp only
      rw [h k, amt_of_mem hb hm]

/-- The derived equality the pinned tree used is *not* semantic: the naked amount zero differs
from the empty value.  (Witness of the defect repaired by the `fix:` commit; kept so that the
model of the old behaviour stays documented and checked.) -/
theorem C15_structural_eq_not_semantic :
    ¬ (∀ a b : Assets, WF a → WF b → (beqStructural a b = true ↔ a ≈ₐ b)) := by
  intro h
  have := (h (fromNakedAmount 0) empty (WF_fromNakedAmount 0) WF_empty).mpr
    (by intro c; simp [fromNakedAmount, empty, amt_cons])
  revert this; decide

/-! ## `contains` is the component-wise order on non-negative values -/

def NonNeg (a : Assets) : Prop := ∀ c, 0 ≤ amt a c

theorem C15_contains {a b : Assets} (hb : WF b) (hna : NonNeg a) (hnb : NonNeg b) :
    containsTotal a b = true ↔ ∀ c, amt b c ≤ amt a c := by
  unfold containsTotal
  simp only [List.all_eq_true]
  constructor
  · intro h c
    cases hg : get? b c with
    | none => have := hna c; unfold amt at *; rw [hg]; simpa using this
    | some v =>
      have hm := mem_of_get?_some hg
      have := h _ hm
      simp only at this
      have hbv : amt b c = v := by unfold amt; rw [hg]; rfl
      rw [hbv]
      by_cases hv0 : v = 0
      · subst hv0; exact hna c
      · rw [if_neg hv0] at this
        by_cases hvn : v < 0
        · rw [if_pos hvn] at this; cases this
        · rw [if_neg hvn] at this
          cases hga : get? a c with
          | none => rw [hga] at this; cases this
          | some s =>
            rw [hga] at this
            simp only at this
            have has : amt a c = s := by unfold amt; rw [hga]; rfl
            rw [has]
            by_cases hs : s < 0
            · rw [if_pos hs] at this; cases this
            · rw [if_neg hs] at this; simp at this; omega
  · intro h kv hm
    obtain ⟨k, v⟩ := kv
    simp only
    have hbv : amt b k = v := amt_of_mem hb hm
    have h1 := h k
    have h2 := hnb k
    rw [hbv] at h1 h2
    by_cases hv0 : v = 0
    · rw [if_pos hv0]
    · rw [if_neg hv0]
      have hvn : ¬ v < 0 := by omega
      rw [if_neg hvn]
      cases hga : get? a k with
      | none =>
        have : amt a k = 0 := by unfold amt; rw [hga]; rfl
        omega
      | some s =>
        have : amt a k = s := by unfold amt; rw [hga]; rfl
        simp only
        have hs : ¬ s < 0 := by omega
        rw [if_neg hs]; simp; omega

/-! ## Conversion to the IR's asset-expression list and back -/

def ProperKeys (a : Assets) : Prop := ∀ kv ∈ a, kv.1.Proper

theorem ofExpr_toExpr {k : AssetClass} (hk : k.Proper) (v : Int) :
    ofExprs (toExprs [(k, v)]) ≈ₐ [(k, v)] := by
  intro c
  cases k with
  | naked =>
    simp [ofExprs, toExprs, ofExpr, AssetClass.policy?, AssetClass.name?, constPolicy,
      constName, fromAsset, fromNakedAmount]
    rw [amt_add WF_empty (WF_single _ _)]; simp [empty]
  | named n =>
    have hn : n ≠ [] := hk
    simp [ofExprs, toExprs, ofExpr, AssetClass.policy?, AssetClass.name?, constPolicy,
      constName, fromAsset, fromNamedAsset, hn]
    rw [amt_add WF_empty (WF_single _ _)]; simp [empty]
  | defined p n =>
    have hp : p ≠ [] := hk
    simp [ofExprs, toExprs, ofExpr, AssetClass.policy?, AssetClass.name?, constPolicy,
      constName, fromAsset, fromDefinedAsset, hp]
    rw [amt_add WF_empty (WF_single _ _)]; simp [empty]

theorem WF_ofExpr (e : ConstAsset) : WF (ofExpr e) := WF_fromAsset _ _ _

theorem foldl_ofExprs_amt (es : List ConstAsset) : ∀ (acc : Assets), WF acc → ∀ c,
    amt (es.foldl (fun acc e => add acc (ofExpr e)) acc) c
      = amt acc c + amt (es.foldl (fun acc e => add acc (ofExpr e)) empty) c
    ∧ WF (es.foldl (fun acc e => add acc (ofExpr e)) acc) := by
  induction es with
  | nil => intro acc h c; simp [empty, h]
  | cons e rest ih =>
    intro acc h c
    simp only [List.foldl_cons]
    have h1 := ih (add acc (ofExpr e)) (WF_add h) c
    have h2 := ih (add empty (ofExpr e)) (WF_add WF_empty) c
    refine ⟨?_, h1.2⟩
    rw [h1.1, h2.1, amt_add h (WF_ofExpr e), amt_add WF_empty (WF_ofExpr e)]
    simp [empty]; omega

/-- Converting a value to the IR's asset-expression list (in whatever order the map yields
its entries) and back preserves it. -/
theorem C15_exprs {a : Assets} (ha : WF a) (hp : ProperKeys a) :
    ofExprs (toExprs a) ≈ₐ a := by
  induction a with
  | nil => intro c; rfl
  | cons kv rest ih =>
    obtain ⟨k, v⟩ := kv
    obtain ⟨hnk, hwf'⟩ := WF_cons.mp ha
    have hp' : ProperKeys rest := fun kv h => hp kv (List.mem_cons_of_mem _ h)
    have hk : k.Proper := hp (k, v) List.mem_cons_self
    intro c
    have hcons : toExprs ((k, v) :: rest) = toExprs [(k, v)] ++ toExprs rest := rfl
    unfold ofExprs
    rw [hcons, List.foldl_append]
    have hw : WF (ofExprs (toExprs [(k, v)])) :=
      (foldl_ofExprs_amt (toExprs [(k, v)]) empty WF_empty c).2
    have := (foldl_ofExprs_amt (toExprs rest) _ hw c).1
    unfold ofExprs at this hw
    rw [this]
    have h1 := ofExpr_toExpr hk v c
    have h2 := ih hwf' hp' c
    unfold ofExprs at h1 h2
    rw [h1, h2, amt_cons, amt_cons]
    by_cases hkc : k = c
    · subst hkc; simp [amt_zero_of_not_mem_keys hnk]
    · simp [hkc]

/-- …whatever the iteration order of the underlying map. -/
theorem C15_exprs_any_order {a l : Assets} (ha : WF a) (hp : ProperKeys a) (hl : l.Perm a) :
    ofExprs (toExprs l) ≈ₐ a := by
  have hwl : WF l := by
    unfold WF keys at *
    exact (List.Perm.nodup_iff (List.Perm.map _ hl)).mpr ha
  have hpl : ProperKeys l := fun kv h => hp kv (hl.mem_iff.mp h)
  exact SemEq.trans (C15_exprs hwl hpl) (SemEq_of_perm hl hwl)

/-- `Proper` cannot be dropped: a `Named([])` class does not survive the round trip (it comes
back as the naked class).  Such classes are not produced by any `from_*` constructor. -/
theorem C15_exprs_needs_proper :
    ¬ (ofExprs (toExprs [(AssetClass.named [], 1)]) ≈ₐ [(AssetClass.named [], 1)]) := by
  intro h
  have := h AssetClass.naked
  revert this; decide

/-! ## Non-vacuity: concrete values meeting the hypotheses -/

example : WF (add (fromNakedAmount 2) (fromDefinedAsset [1] [2] (-1))) ∧
    NonNeg (fromNakedAmount 2) ∧ ProperKeys (fromDefinedAsset [1] [2] 5) := by
  refine ⟨WF_add (WF_fromNakedAmount 2), ?_, ?_⟩
  · intro c; simp only [fromNakedAmount, amt_cons]; split <;> simp
  · intro kv h; simp [fromDefinedAsset] at h; subst h; simp [AssetClass.Proper]

example : beq (fromNakedAmount 0) empty = true := by decide
example : beq (sub (fromNakedAmount 3) (fromNakedAmount 3)) (neg (fromNakedAmount 0)) = true := by
  decide
example : containsTotal (fromNakedAmount 3) (fromNakedAmount 2) = true := by decide

end Tx3.Assets
