import Tx3Proofs.C16Int

/-!
# C16 — UTxO references written `txid#index` are read back exactly

For every transaction id (any bytes) and every output index below 2^32, the text `hex(txid) ++ "#" ++ decimal(index)`
is read by `string_to_utxo_ref` as exactly that reference.
-/

namespace Tx3.Json
open Tx3

theorem hexDigit_ne_hash : ∀ n, n < 16 → hexDigit n ≠ '#' := by decide

theorem hexChars_no_hash (bs : Bytes) : ∀ c ∈ bs.flatMap hexOfByte, c ≠ '#' := by
  intro c hc
  simp only [List.mem_flatMap, hexOfByte, List.mem_cons, List.mem_nil_iff, or_false] at hc
  obtain ⟨b, _, h⟩ := hc
  have hlt : b.toNat < 256 := b.toNat_lt
  rcases h with rfl | rfl
  · exact hexDigit_ne_hash _ (by omega)
  · exact hexDigit_ne_hash _ (by omega)

theorem splitOnceHash_append (l r : List Char) (h : ∀ c ∈ l, c ≠ '#') :
    ∀ acc, splitOnceHash (l ++ '#' :: r) acc = some (acc.reverse ++ l, r) := by
  induction l with
  | nil => intro acc; simp [splitOnceHash]
  | cons c cs ih =>
    intro acc
    have hc : c ≠ '#' := h c (by simp)
    simp only [List.cons_append, splitOnceHash, hc, if_false]
    rw [ih (fun x hx => h x (by simp [hx]))]
    simp

theorem natDigits_digits (n : Nat) : ∀ c ∈ natDigits n, ∃ d, d < 10 ∧ c = digitChar d := by
  induction n using Nat.strongRecOn with
  | ind n ih =>
    intro c hc
    rw [natDigits] at hc
    split at hc
    · rename_i h
      simp only [List.mem_cons, List.mem_nil_iff, or_false] at hc
      exact ⟨n, h, hc⟩
    · simp only [List.mem_append, List.mem_cons, List.mem_nil_iff, or_false] at hc
      rcases hc with hc | hc
      · exact ih (n / 10) (by omega) c hc
      · exact ⟨n % 10, by omega, hc⟩

theorem natDigits_ne_nil (n : Nat) : natDigits n ≠ [] := by
  rw [natDigits]
  split
  · simp
  · simp

/-- **C16 (UTxO references).** -/
theorem C16_utxo_ref_roundtrip (txid : Bytes) (index : Nat) (h : index < 2 ^ 32) :
    stringToUtxoRef (String.ofList (txid.flatMap hexOfByte ++ '#' :: natDigits index)) = .ok { txid, index } := by
  unfold stringToUtxoRef
  simp only [String.toList_ofList]
  rw [splitOnceHash_append _ _ (hexChars_no_hash txid) []]
  simp only [List.reverse_nil, List.nil_append]
  rw [C16_hex_roundtrip]
  cases hd : natDigits index with
  | nil => exact absurd hd (natDigits_ne_nil index)
  | cons c cs =>
    obtain ⟨d, hd10, hc⟩ := natDigits_digits index c (by rw [hd]; simp)
    have hne : c ≠ '+' := by rw [hc]; exact (digitChar_not_sign d hd10).2.1
    have hp := parseNatChars_natDigits index
    rw [hd] at hp
    have : indexChars (c :: cs) = some index := by
      unfold indexChars
      split
      · rename_i heq; cases heq; exact absurd rfl hne
      · rename_i heq; cases heq
      · exact hp
    rw [this]
    simp [h]

/-- Non-vacuity: `ab01#7`. -/
example : stringToUtxoRef "ab01#7" = .ok { txid := [0xab, 0x01], index := 7 } := by
  have := C16_utxo_ref_roundtrip [0xab, 0x01] 7 (by decide)
  simpa [hexOfByte, hexDigit, natDigits, digitChar] using this

end Tx3.Json
