import Tx3Model.LangLower
import Tx3Model.SpecTir
import Tx3Model.Tii
import Tx3Proofs.Lemmas.Outcome
import Tx3Proofs.Lemmas.Tir
import Tx3Proofs.C01

/-!
# C17 — a declared name the body uses is required by the IR, under the declared spelling

`C17Lower` shows that every name the lowered IR requires is a declared interface key.  The converse on the integer
fragment (literals, parameters, `+`, `-`, unary `!`, nested to any depth - where most parameters of a template
live): every parameter the expression mentions is required by what it lowers to, under exactly the interface key
(`tiiKey`) of the name as declared, however it is capitalised.
-/

namespace Tx3.Lang
open Tx3 Tx3.Expr Outcome

theorem unresolved_builtin2 (b : BKind) (x y : Expr) :
    unresolved (builtin b [x, y]) = unresolved x ++ unresolved y := by
  simp [builtin, unresolved_node, Kind.pref?, unresolvedL]

theorem unresolved_builtin1 (b : BKind) (x : Expr) : unresolved (builtin b [x]) = unresolved x := by
  simp [builtin, unresolved_node, Kind.pref?, unresolvedL]

/-- **Used, hence required.** -/
theorem C17_used_is_required (s : Scope) (ctx : Ctx) (hl : ctx.lvl ≠ 0) :
    ∀ (e : IExp), (∀ x ∈ e.pars, ∃ ty, resolve s x = some (.param x ty)) →
      ∀ (n : Nat) (t : Expr), lowerE s n ctx e.toL = .ok t →
        ∀ x ∈ e.pars, PRef.value (Tii.tiiKey x) ∈ unresolved t
  | .num k, _, n, t, h, x, hx => by simp [IExp.pars] at hx
  | .par y, hs, n, t, h, x, hx => by
    simp only [IExp.pars, List.mem_cons, List.not_mem_nil, or_false] at hx
    subst hx
    obtain ⟨ty, hr⟩ := hs x (by simp [IExp.pars])
    cases n with
    | zero => simp [IExp.toL, lowerE, lerr] at h
    | succ n =>
      rw [IExp.toL, lowerE] at h
      simp only [hl, if_false, hr] at h
      cases h
      simp [paramValue, unresolved_node, Kind.pref?, Tii.tiiKey, unresolvedL]
  | .add a b, hs, n, t, h, x, hx => by
    cases n with
    | zero => simp [IExp.toL, lowerE, lerr] at h
    | succ n =>
      rw [IExp.toL, lowerE] at h
      obtain ⟨ta, hta, h⟩ := bind_eq_ok.mp h
      obtain ⟨tb, htb, h⟩ := bind_eq_ok.mp h
      cases h
      rw [unresolved_builtin2]
      simp only [IExp.pars, List.mem_append] at hx
      rcases hx with hx | hx
      · exact List.mem_append_left _ (C17_used_is_required s ctx hl a (fun y hy => hs y (by simp [IExp.pars, hy])) n ta hta x hx)
      · exact List.mem_append_right _ (C17_used_is_required s ctx hl b (fun y hy => hs y (by simp [IExp.pars, hy])) n tb htb x hx)
  | .sub a b, hs, n, t, h, x, hx => by
    cases n with
    | zero => simp [IExp.toL, lowerE, lerr] at h
    | succ n =>
      rw [IExp.toL, lowerE] at h
      obtain ⟨ta, hta, h⟩ := bind_eq_ok.mp h
      obtain ⟨tb, htb, h⟩ := bind_eq_ok.mp h
      cases h
      rw [unresolved_builtin2]
      simp only [IExp.pars, List.mem_append] at hx
      rcases hx with hx | hx
      · exact List.mem_append_left _ (C17_used_is_required s ctx hl a (fun y hy => hs y (by simp [IExp.pars, hy])) n ta hta x hx)
      · exact List.mem_append_right _ (C17_used_is_required s ctx hl b (fun y hy => hs y (by simp [IExp.pars, hy])) n tb htb x hx)
  | .neg a, hs, n, t, h, x, hx => by
    cases n with
    | zero => simp [IExp.toL, lowerE, lerr] at h
    | succ n =>
      rw [IExp.toL, lowerE] at h
      obtain ⟨ta, hta, h⟩ := bind_eq_ok.mp h
      cases h
      rw [unresolved_builtin1]
      exact C17_used_is_required s ctx hl a (fun y hy => hs y (by simpa [IExp.pars] using hy)) n ta hta x (by simpa [IExp.pars] using hx)

end Tx3.Lang
