import Tx3Model.Gen.Grammar
import Tx3Proofs.Lemmas.Peg

/-!
# C12 — the engine never runs out of fuel on a well-formed grammar

`eval` is defined by recursion on a fuel argument (a bound on the recursion depth, iterations of a repetition
included).  For a grammar that passes `check` - no rule reaches itself before consuming input, no repetition has a
body that matches the empty string; the certificate is recomputed from `tx3.pest` on every run and checked by the
kernel - the budget `fuelNeeded R S len` is enough for every input of `len` characters, every start rule, every
mode: the answer is never `fuelOut`.  So the model of the parser is a total function from texts to "pairs" or
"rejected": it terminates on every input (this is the termination argument for PEG parsing on this grammar,
machine-checked: the potential `A·|rest| + B·rank + 2·size` strictly decreases along every call).
-/

namespace Tx3.Peg

/-- The result is not `fuelOut`, what is left never grows, and (when `strict`) shrinks. -/
def Fine (s : St) (strict : Bool) (res : Res) : Prop :=
  res ≠ .fuelOut ∧ ∀ s' ts, res = .ok s' ts →
    s'.rest.length ≤ s.rest.length ∧ (strict = true → s'.rest.length < s.rest.length)

theorem Fine.fail (s : St) (b : Bool) : Fine s b .fail :=
  ⟨(by intro h; cases h), (by intro _ _ h; cases h)⟩

theorem Fine.ok {s s' : St} {b : Bool} {ts : List PTree} (h1 : s'.rest.length ≤ s.rest.length)
    (h2 : b = true → s'.rest.length < s.rest.length) : Fine s b (.ok s' ts) :=
  ⟨(by intro h; cases h), (by intro _ _ h; cases h; exact ⟨h1, h2⟩)⟩

theorem Fine.same (s : St) (ts : List PTree) : Fine s false (.ok s ts) :=
  Fine.ok (Nat.le_refl _) (by intro h; cases h)

theorem Fine.weaken {s : St} {b b' : Bool} {res : Res} (h : Fine s b res) (hb : b' = true → b = true) :
    Fine s b' res :=
  ⟨h.1, fun s' ts hr => ⟨(h.2 s' ts hr).1, fun hb' => (h.2 s' ts hr).2 (hb hb')⟩⟩

/-- From a later state. -/
theorem Fine.from {s s1 : St} {b : Bool} {res : Res} (h : Fine s1 b res) (hle : s1.rest.length ≤ s.rest.length) :
    Fine s b res :=
  ⟨h.1, fun s' ts hr => ⟨Nat.le_trans (h.2 s' ts hr).1 hle, fun hb => Nat.lt_of_lt_of_le ((h.2 s' ts hr).2 hb) hle⟩⟩

theorem PExpr.size_pos (e : PExpr) : 1 ≤ e.size := by
  cases e <;> simp [PExpr.size] <;> omega

theorem headOK_mono (nul : Nat → Bool) (rk : Nat → Nat) (R : Nat) :
    ∀ (e : PExpr) (r r' : Nat), r ≤ r' → headOK nul rk R r e = true → headOK nul rk R r' e = true := by
  intro e
  induction e with
  | ref i => intro r r' h; simp only [headOK, decide_eq_true_eq]; omega
  | seq a b iha ihb =>
    intro r r' h
    simp only [headOK, Bool.and_eq_true]
    intro ⟨h1, h2⟩
    refine ⟨iha r r' h h1, ?_⟩
    by_cases hc : canEmpty nul a = true
    · simp only [hc, if_true] at h2 ⊢; exact ihb _ _ h h2
    · simp only [hc, if_false] at h2 ⊢; exact h2
  | choice a b iha ihb =>
    intro r r' h
    simp only [headOK, Bool.and_eq_true]
    exact fun ⟨h1, h2⟩ => ⟨iha r r' h h1, ihb r r' h h2⟩
  | star e ih | plus e ih =>
    intro r r' h
    simp only [headOK, Bool.and_eq_true]
    exact fun ⟨h1, h2⟩ => ⟨ih r r' h h1, h2⟩
  | opt e ih | not e ih => intro r r' h; simp only [headOK]; exact ih r r' h
  | str _ | any | soi | eoi | ranges _ => intro r r' _ _; simp [headOK]

/-! ### arithmetic of the potential -/

theorem pot_le {A n n' : Nat} (h : n' ≤ n) : A * n' ≤ A * n := Nat.mul_le_mul_left A h

theorem pot_drop {A B R S n n' r z : Nat} (hA : B * R + 2 * S + 4 ≤ A) (hn : n' < n) (hr : r ≤ R) (hz : z ≤ S) :
    A * n' + B * r + 2 * z + 4 ≤ A * n := by
  have h1 := Nat.mul_le_mul_left A (Nat.succ_le_of_lt hn)
  have h2 := Nat.mul_le_mul_left B hr
  rw [Nat.mul_succ] at h1
  omega

theorem pot_rank {B S k r z : Nat} (hB : 2 * S + 1 ≤ B) (h : k < r) (hz : z ≤ S) : B * k + 2 * z + 1 ≤ B * r := by
  have h1 := Nat.mul_le_mul_left B (Nat.succ_le_of_lt h)
  rw [Nat.mul_succ] at h1
  omega

section
variable (g : Grammar) (c : Cert) (R S A B : Nat)

/-- What a skip needs, as a reserve `ρ` on top of `A·|rest|`. -/
def SkipOK (ρ : Nat) : Prop :=
  ∀ f s, A * s.rest.length + ρ ≤ f → Fine s false (skip g f false s)

theorem skip_fine {ρ : Nat} {atomic : Bool} (H : atomic = false → SkipOK g A ρ) (f : Nat) (s : St)
    (h1 : A * s.rest.length + ρ ≤ f) (h2 : 1 ≤ f) : Fine s false (skip g f atomic s) := by
  cases atomic with
  | false => exact H rfl f s h1
  | true =>
    obtain ⟨f', rfl⟩ : ∃ f', f = f' + 1 := ⟨f - 1, by omega⟩
    simp only [skip, if_true]
    exact Fine.same s _

/-- Every rule of the grammar passes the per-rule check. -/
def RulesOK : Prop := ∀ i r, g.rules[i]? = some r → ruleOK c R S i r = true

def EvalP (ρ f : Nat) : Prop :=
  ∀ (atomic ws : Bool) (e : PExpr) (s : St) (r : Nat), (atomic = false → SkipOK g A ρ) → r ≤ R →
    headOK c.nulOf c.rkOf R r e = true → e.size ≤ S →
    A * s.rest.length + B * r + 2 * e.size + ρ ≤ f →
    Fine s (!canEmpty c.nulOf e) (eval g f atomic ws e s)

def LoopP (ρ f : Nat) : Prop :=
  ∀ (atomic ws : Bool) (e : PExpr) (first : Bool) (s : St) (acc : List PTree) (r : Nat),
    (atomic = false → SkipOK g A ρ) → r ≤ R →
    headOK c.nulOf c.rkOf R r e = true → canEmpty c.nulOf e = false → e.size ≤ S →
    A * s.rest.length + B * r + 2 * e.size + 1 + ρ ≤ f →
    Fine s false (starLoop g f atomic ws e first s acc)

theorem fuel_enough (hR : RulesOK g c R S) (hA : B * R + 2 * S + 4 ≤ A) (hB : 2 * S + 1 ≤ B) (ρ : Nat) :
    ∀ f, EvalP g c R S A B ρ f ∧ LoopP g c R S A B ρ f := by
  intro f
  induction f with
  | zero =>
    constructor
    · intro atomic ws e s r _ _ _ _ hp
      have := e.size_pos; omega
    · intro atomic ws e first s acc r _ _ _ _ _ hp
      omega
  | succ f ih =>
    obtain ⟨ihE, ihL⟩ := ih
    constructor
    · intro atomic ws e s r H hr hh hs hp
      cases e with
      | str cs =>
        simp only [eval]
        cases hd : dropPrefix cs s.rest with
        | none => exact Fine.fail _ _
        | some rest =>
          have := dropPrefix_eq hd
          have hl : s.rest.length = cs.length + rest.length := by rw [this, List.length_append]
          refine Fine.ok (by simp only; omega) ?_
          intro hb
          simp only [canEmpty, Bool.not_eq_true', List.isEmpty_eq_false_iff] at hb
          have : 0 < cs.length := List.length_pos_iff.mpr hb
          simp only; omega
      | any =>
        simp only [eval]
        cases hr' : s.rest with
        | nil => exact Fine.fail _ _
        | cons ch rest => exact Fine.ok (by simp [hr']) (by intro _; simp [hr'])
      | soi =>
        simp only [eval]
        split
        · exact (Fine.same s _).weaken (by simp [canEmpty])
        · exact Fine.fail _ _
      | eoi =>
        simp only [eval]
        cases hr' : s.rest with
        | nil => exact (Fine.same s _).weaken (by simp [canEmpty])
        | cons ch rest => exact Fine.fail _ _
      | ranges rs =>
        simp only [eval]
        cases hr' : s.rest with
        | nil => exact Fine.fail _ _
        | cons ch rest =>
          simp only
          split
          · exact Fine.ok (by simp [hr']) (by intro _; simp [hr'])
          · exact Fine.fail _ _
      | ref i =>
        simp only [eval]
        cases hi : g.rules[i]? with
        | none => exact Fine.fail _ _
        | some rl =>
          have hok := hR i rl hi
          simp only [ruleOK, Bool.and_eq_true, decide_eq_true_eq, Bool.or_eq_true, Bool.not_eq_true'] at hok
          obtain ⟨⟨⟨hbody, hnul⟩, hrk⟩, hsz⟩ := hok
          simp only [headOK, decide_eq_true_eq] at hh
          have hpot : A * s.rest.length + B * c.rkOf i + 2 * rl.body.size + ρ ≤ f := by
            have := pot_rank hB hh hsz
            simp only [PExpr.size] at hp
            omega
          have hstrict : (!canEmpty c.nulOf (.ref i)) = true → (!canEmpty c.nulOf rl.body) = true := by
            simp only [canEmpty, Bool.not_eq_true']
            intro h
            cases hnul with
            | inl h' => exact h'
            | inr h' => rw [h] at h'; cases h'
          simp only
          cases hm : rl.mode with
          | silent =>
            simp only
            exact (ihE _ true rl.body s (c.rkOf i)
              (by intro h; simp only [Bool.or_eq_false_iff] at h; exact H h.1.1) (Nat.le_of_lt hrk) hbody hsz hpot).weaken hstrict
          | normal =>
            have hf := (ihE atomic true rl.body s (c.rkOf i) H (Nat.le_of_lt hrk) hbody hsz hpot).weaken hstrict
            cases he : eval g f atomic true rl.body s with
            | ok s' ts => simp only; exact Fine.ok (hf.2 s' ts he).1 (hf.2 s' ts he).2
            | fail => exact Fine.fail _ _
            | fuelOut => exact absurd he hf.1
          | atomic =>
            have hf := (ihE true false rl.body s (c.rkOf i) (by intro h; cases h) (Nat.le_of_lt hrk) hbody hsz
              hpot).weaken hstrict
            cases he : eval g f true false rl.body s with
            | ok s' ts => simp only; exact Fine.ok (hf.2 s' ts he).1 (hf.2 s' ts he).2
            | fail => exact Fine.fail _ _
            | fuelOut => exact absurd he hf.1
      | seq a b =>
        simp only [eval]
        simp only [headOK, Bool.and_eq_true] at hh
        simp only [PExpr.size] at hs hp
        have hfa := ihE atomic ws a s r H hr hh.1 (by omega) (by omega)
        cases ha : eval g f atomic ws a s with
        | fuelOut => exact absurd ha hfa.1
        | fail => exact Fine.fail _ _
        | ok s1 t1 =>
          obtain ⟨hn1, hst1⟩ := hfa.2 s1 t1 ha
          simp only
          have hfk : Fine s1 false (if ws = true then skip g f atomic s1 else Res.ok s1 []) := by
            cases ws with
            | true =>
              simp only [if_true]
              have := pot_le (A := A) hn1
              exact skip_fine g A H f s1 (by omega) (by have := a.size_pos; omega)
            | false => simp only [Bool.false_eq_true, if_false]; exact Fine.same _ _
          cases hk : (if ws = true then skip g f atomic s1 else Res.ok s1 []) with
          | fuelOut => exact absurd hk hfk.1
          | fail => exact Fine.fail _ _
          | ok s2 x =>
            obtain ⟨hn2, _⟩ := hfk.2 s2 x hk
            simp only
            have hrb : (if canEmpty c.nulOf a = true then r else R) ≤ R := by split <;> omega
            have hfb : Fine s2 (!canEmpty c.nulOf b) (eval g f atomic ws b s2) := by
              refine ihE atomic ws b s2 _ H hrb hh.2 (by omega) ?_
              by_cases hlt : s2.rest.length < s.rest.length
              · have := pot_drop (z := b.size) hA hlt hrb (by omega)
                omega
              · have he : s1.rest.length = s.rest.length := by omega
                have hca : canEmpty c.nulOf a = true := by
                  cases hc : canEmpty c.nulOf a with
                  | true => rfl
                  | false => have := hst1 (by simp [hc]); omega
                have he2 : s2.rest.length = s.rest.length := by omega
                simp only [hca, if_true]
                rw [he2]; omega
            cases hb : eval g f atomic ws b s2 with
            | fuelOut => exact absurd hb hfb.1
            | fail => exact Fine.fail _ _
            | ok s3 t3 =>
              obtain ⟨hn3, hst3⟩ := hfb.2 s3 t3 hb
              simp only
              refine Fine.ok (by omega) ?_
              intro hb'
              simp only [canEmpty, Bool.not_eq_true', Bool.and_eq_false_iff] at hb'
              cases hb' with
              | inl h => have := hst1 (by simp [h]); omega
              | inr h => have := hst3 (by simp [h]); omega
      | choice a b =>
        simp only [eval]
        simp only [headOK, Bool.and_eq_true] at hh
        simp only [PExpr.size] at hs hp
        have hsa : (!canEmpty c.nulOf (.choice a b)) = true → (!canEmpty c.nulOf a) = true := by
          simp only [canEmpty, Bool.not_eq_true', Bool.or_eq_false_iff]; exact fun h => h.1
        have hsb : (!canEmpty c.nulOf (.choice a b)) = true → (!canEmpty c.nulOf b) = true := by
          simp only [canEmpty, Bool.not_eq_true', Bool.or_eq_false_iff]; exact fun h => h.2
        have hfa := (ihE atomic ws a s r H hr hh.1 (by omega) (by omega)).weaken hsa
        cases ha : eval g f atomic ws a s with
        | fail =>
          simp only
          exact (ihE atomic ws b s r H hr hh.2 (by omega) (by omega)).weaken hsb
        | fuelOut => exact absurd ha hfa.1
        | ok s1 t1 => simp only; rw [← ha]; exact hfa
      | star e =>
        simp only [eval]
        simp only [headOK, Bool.and_eq_true, Bool.not_eq_true'] at hh
        simp only [PExpr.size] at hs hp
        exact (ihL atomic ws e true s [] r H hr hh.1 hh.2 (by omega) (by omega)).weaken (by simp [canEmpty])
      | plus e =>
        simp only [eval]
        simp only [headOK, Bool.and_eq_true, Bool.not_eq_true'] at hh
        simp only [PExpr.size] at hs hp
        have hh' : headOK c.nulOf c.rkOf R r (.seq e (.star e)) = true := by
          simp only [headOK, hh.2, Bool.false_eq_true, if_false, Bool.and_eq_true, Bool.not_eq_true']
          exact ⟨hh.1, headOK_mono _ _ _ e r R hr hh.1, trivial⟩
        have := ihE atomic ws (.seq e (.star e)) s r H hr hh' (by simp only [PExpr.size]; omega)
          (by simp only [PExpr.size]; omega)
        exact this.weaken (by simp [canEmpty])
      | opt e =>
        simp only [eval]
        simp only [headOK] at hh
        simp only [PExpr.size] at hs hp
        have hfe := (ihE atomic ws e s r H hr hh (by omega) (by omega)).weaken (b' := false) (by intro h; cases h)
        cases he : eval g f atomic ws e s with
        | fail => exact (Fine.same s _).weaken (by simp [canEmpty])
        | fuelOut => exact absurd he hfe.1
        | ok s1 t1 => simp only; rw [← he]; exact hfe.weaken (by simp [canEmpty])
      | not e =>
        simp only [eval]
        simp only [headOK] at hh
        simp only [PExpr.size] at hs hp
        have hfe := ihE atomic ws e s r H hr hh (by omega) (by omega)
        cases he : eval g f atomic ws e s with
        | fail => exact (Fine.same s _).weaken (by simp [canEmpty])
        | fuelOut => exact absurd he hfe.1
        | ok s1 t1 => exact Fine.fail _ _
    · intro atomic ws e first s acc r H hr hh hc hs hp
      simp only [starLoop]
      have hfk : Fine s false (if (first || !ws) = true then Res.ok s [] else skip g f atomic s) := by
        split
        · exact Fine.same _ _
        · exact skip_fine g A H f s (by omega) (by have := e.size_pos; omega)
      cases hk : (if (first || !ws) = true then Res.ok s [] else skip g f atomic s) with
      | fuelOut => exact absurd hk hfk.1
      | fail => exact Fine.same _ _
      | ok s1 x =>
        obtain ⟨hn1, _⟩ := hfk.2 s1 x hk
        simp only
        have hfe := ihE atomic ws e s1 r H hr hh hs (by have := pot_le (A := A) hn1; omega)
        cases he : eval g f atomic ws e s1 with
        | fuelOut => exact absurd he hfe.1
        | fail => exact Fine.same _ _
        | ok s2 ts =>
          obtain ⟨_, hst⟩ := hfe.2 s2 ts he
          have hlt : s2.rest.length < s.rest.length := by have := hst (by simp [hc]); omega
          simp only
          refine (ihL atomic ws e false s2 (acc ++ ts) R H (Nat.le_refl _) (headOK_mono _ _ _ e r R hr hh) hc hs ?_).from
            (Nat.le_of_lt hlt)
          have := pot_drop (z := e.size) hA hlt (Nat.le_refl R) hs
          omega

/-- `check` gives the per-rule facts. -/
theorem checkFrom_get (c : Cert) (R S : Nat) : ∀ (rs : List Rule) (i k : Nat) (r : Rule),
    checkFrom c R S i rs = true → rs[k]? = some r → ruleOK c R S (i + k) r = true := by
  intro rs
  induction rs with
  | nil => intro i k r _ h; cases h
  | cons x xs ih =>
    intro i k r h hk
    simp only [checkFrom, Bool.and_eq_true] at h
    cases k with
    | zero => simp only [List.getElem?_cons_zero, Option.some.injEq] at hk; subst hk; exact h.1
    | succ k =>
      simp only [List.getElem?_cons_succ] at hk
      have := ih (i + 1) k r h.2 hk
      rwa [show i + 1 + k = i + (k + 1) by omega] at this

theorem rulesOK_of_check (hc : check g c R S = true) : RulesOK g c R S := by
  intro i r hi
  simp only [check, Bool.and_eq_true] at hc
  have := checkFrom_get c R S g.rules.toList 0 i r hc.1.1.1.1.1 (by simpa using hi)
  simpa using this

/-- The skip between items needs `reserve` on top of `A·|rest|`. -/
theorem skipOK_of_check (hc : check g c R S = true) (hA : B * R + 2 * S + 4 ≤ A) (hB : 2 * S + 1 ≤ B) :
    SkipOK g A (B * R + 12) := by
  have hR := rulesOK_of_check g c R S hc
  simp only [check, Bool.and_eq_true, Bool.not_eq_true', decide_eq_true_eq] at hc
  obtain ⟨⟨⟨⟨⟨_, hnw⟩, hnc⟩, hS⟩, hrw⟩, hrc⟩ := hc
  intro f s hp
  obtain ⟨f', rfl⟩ : ∃ f', f = f' + 1 := ⟨f - 1, by omega⟩
  simp only [skip, Bool.false_eq_true, if_false]
  -- both loops run in atomic mode, where a skip is free: the reserve there is 0
  have hL := (fuel_enough g c R S A B hR hA hB 0 f').2
  have h1 : Fine s false (starLoop g f' true false (.ref g.whitespace) true s []) :=
    hL true false (.ref g.whitespace) true s [] R (by intro h; cases h) (Nat.le_refl _)
      (by simp only [headOK, decide_eq_true_eq]; exact hrw) (by simp only [canEmpty]; exact hnw)
      (by simp only [PExpr.size]; omega) (by simp only [PExpr.size]; omega)
  cases hw : starLoop g f' true false (.ref g.whitespace) true s [] with
  | fuelOut => exact absurd hw h1.1
  | fail => exact Fine.fail _ _
  | ok s1 x =>
    obtain ⟨hn1, _⟩ := h1.2 s1 x hw
    simp only
    have h2 : Fine s1 false (starLoop g f' true false (.seq (.ref g.comment) (.star (.ref g.whitespace))) true s1 []) :=
      hL true false _ true s1 [] R (by intro h; cases h) (Nat.le_refl _)
        (by simp only [headOK, decide_eq_true_eq, Bool.and_eq_true, Bool.not_eq_true', hnc, Bool.false_eq_true,
              if_false, canEmpty]; exact ⟨hrc, hrw, hnw⟩)
        (by simp only [canEmpty, hnc, Bool.false_and])
        (by simp only [PExpr.size]; omega)
        (by simp only [PExpr.size]; have := pot_le (A := A) hn1; omega)
    exact h2.from hn1

/-- **The budget is enough.**  For a grammar that passes `check`, parsing any text from any rule with
`fuelNeeded R S |text|` never answers `fuelOut`. -/
theorem parseF_total (hc : check g c R S = true) (rule : Nat) (input : String) :
    parseF g (fuelNeeded R S input.toList.length) rule input ≠ .fuelOut := by
  have hA : coefB S * R + 2 * S + 4 ≤ coefA R S := by unfold coefA; omega
  have hB : 2 * S + 1 ≤ coefB S := by unfold coefB; omega
  have hR := rulesOK_of_check g c R S hc
  have hsk := skipOK_of_check g c R S (coefA R S) (coefB S) hc hA hB
  unfold parseF
  cases hi : g.rules[rule]? with
  | none =>
    have : fuelNeeded R S input.toList.length = (fuelNeeded R S input.toList.length - 1) + 1 := by
      unfold fuelNeeded; omega
    rw [this]
    simp only [eval, hi]
    intro h; cases h
  | some rl =>
    have hok := hR rule rl hi
    simp only [ruleOK, Bool.and_eq_true, decide_eq_true_eq] at hok
    have := (fuel_enough g c R S (coefA R S) (coefB S) hR hA hB (coefB S * R + 12)
      (fuelNeeded R S input.toList.length)).1 false true (.ref rule) { rest := input.toList, pos := 0 } R
      (fun _ => hsk) (Nat.le_refl _) (by simp only [headOK, decide_eq_true_eq]; exact hok.1.2)
      (by simp only [PExpr.size]; simp only [check, Bool.and_eq_true, decide_eq_true_eq] at hc; omega)
      (by simp only [PExpr.size, fuelNeeded, reserve]; omega)
    exact this.1

end

end Tx3.Peg

namespace Tx3.Front
open Tx3.Peg

/-- The certificate computed from the grammar regenerated from `tx3.pest` is accepted (evaluated by the kernel on
every run: a left-recursive rule or a repetition of something that matches the empty string breaks this). -/
theorem tx3_grammar_well_formed : check Gen.grammar Gen.cert Gen.rankBound Gen.sizeBound = true := by
  decide +kernel

/-- **C12 (termination of the parser model).** On the tx3 grammar the engine answers "pairs" or "rejected" for
every text and every start rule: it never runs out of fuel. -/
theorem C12_never_out_of_fuel (rule : Nat) (input : String) : Gen.parseTx3 rule input ≠ .fuelOut :=
  parseF_total Gen.grammar Gen.cert Gen.rankBound Gen.sizeBound tx3_grammar_well_formed rule input

/-- The engine's answer: well-placed pairs, or a rejection. -/
theorem C12_engine_total (rule : Nat) (input : String) :
    (∃ s ts, Gen.parseTx3 rule input = .ok s ts ∧ AllGood input.toList 0 (utf8Len input.toList) ts) ∨
    Gen.parseTx3 rule input = .fail := by
  cases h : Gen.parseTx3 rule input with
  | ok s ts =>
    left
    refine ⟨s, ts, rfl, ?_⟩
    unfold Gen.parseTx3 parseF at h
    have := (engine_inv Gen.grammar input.toList _).1 _ _ _ _ _ _ ⟨[], by simp, by simp [utf8Len]⟩ h
    obtain ⟨pre, h1, h2⟩ := this.1
    refine this.2.2.mono (Nat.le_refl _) ?_
    rw [h1, utf8Len_append]; omega
  | fail => right; rfl
  | fuelOut => exact absurd h (C12_never_out_of_fuel rule input)

end Tx3.Front
