import Tx3Model.Front
import Tx3Model.Gen.Grammar
import Tx3Proofs.Lemmas.Peg

/-!
# C19 — diagnostics point inside the text they are attached to

The spans the front end attaches to diagnostics are spans of pest pairs (analysis errors copy the
span of the AST node they concern, which the builder copies from its pair; builder errors use
`Error::at(pair)`) or pest's own error location.  Proved over the PEG engine running the grammar
translated from `tx3.pest` (tied to pest per case: same acceptance, same pair tree, byte for byte):
every pair of every successful parse lies within the input, on character boundaries, start ≤ end;
a diagnostic built by `Error::at` / `Error::from_pest` from such a position satisfies the property
and converts to a display span without underflow; the text of a pair is exactly the characters
consumed for it.  That pest's *error* position is a position its engine reached is assumed.
-/

namespace Tx3.Front
open Tx3.Peg

/-- The property's clause for one diagnostic: `start ≤ end ≤ length`, on character boundaries. -/
def Within (e : ParseError) : Prop :=
  e.span.dummy = false ∧ e.span.start ≤ e.span.stop ∧ e.span.stop ≤ utf8Len e.src ∧
  IsPos e.src e.span.start ∧ IsPos e.src e.span.stop

theorem IsPos.le_len {input : List Char} {p : Nat} (h : IsPos input p) : p ≤ utf8Len input := by
  obtain ⟨pre, suf, h1, h2⟩ := h; rw [h1, utf8Len_append]; omega

theorem initial_valid (input : List Char) : St.Valid input { rest := input, pos := 0 } :=
  ⟨[], by simp, by simp [utf8Len]⟩

/-- **Every pair of a successful parse lies inside the input**, on character boundaries, inner
pairs inside outer ones — for every grammar, rule and input. -/
theorem C19_pairs_within_input (g : Grammar) (fuel rule : Nat) (input : String) (s : St) (ts : List PTree)
    (h : Peg.parseF g fuel rule input = .ok s ts) : AllGood input.toList 0 (utf8Len input.toList) ts := by
  unfold Peg.parseF at h
  have := (engine_inv g input.toList _).1 _ _ _ _ _ _ (initial_valid _) h
  exact this.2.2.mono (Nat.le_refl _) this.1.le_len

/-- …in particular for the grammar the repository ships, with the budget that is always enough
(`C12_never_out_of_fuel`). -/
theorem C19_tx3_pairs_within_input (input : String) (s : St) (ts : List PTree)
    (h : Gen.parseTx3 Gen.programRule input = .ok s ts) :
    AllGood input.toList 0 (utf8Len input.toList) ts :=
  C19_pairs_within_input _ _ _ _ _ _ h

/-- A diagnostic attached to a pair (`Error::at`) points inside the text it carries. -/
theorem C19_error_at_within (input : List Char) (lo hi : Nat) (t : PTree) (h : Good input lo hi t) :
    Within (errorAt input t) := by
  cases t with
  | node r a b cs =>
    simp only [Good] at h
    exact ⟨rfl, h.2.1, IsPos.le_len h.2.2.2.2.1, h.2.2.2.1, h.2.2.2.2.1⟩

/-- A parse error (`Error::from_pest`) whose location is a position of the input points inside the
text it carries. -/
theorem C19_parse_error_within (input : List Char) (p q : Nat) (hp : IsPos input p) (hq : IsPos input q)
    (hpq : p ≤ q) : Within (mkParseError input (p, q)) :=
  ⟨rfl, hpq, IsPos.le_len hq, hp, hq⟩

/-- The display span of such a diagnostic is computed without underflow and ends where the label ends. -/
theorem C19_source_span (e : ParseError) (h : Within e) :
    ∃ off len, sourceSpan e.span = .ok (off, len) ∧ off = e.span.start ∧ off + len = e.span.stop := by
  refine ⟨e.span.start, e.span.stop - e.span.start, ?_, rfl, by have := h.2.1; omega⟩
  unfold sourceSpan
  have := h.2.1
  rw [if_neg (by omega)]

/-- With the line-based source the pinned commit used, the property fails: an error on the second
line of a two-line input carried that line (4 bytes) and the absolute offset 6. -/
example : ¬ Within { src := ['b', ' ', 'c', ';'], span := { dummy := false, start := 6, stop := 6 } } := by
  intro h; exact absurd h.2.2.1 (by decide)

/-! ### the text of a pair -/

theorem utf8Size_pos' (c : Char) : 0 < c.utf8Size := Char.utf8Size_pos c

theorem sliceFrom_skip (pre rest : List Char) (pos a b : Nat) (h : pos + utf8Len pre ≤ a) (hab : a ≤ b)
    (_hne : a < b ∨ rest = []) :
    sliceFrom (pre ++ rest) pos a b = sliceFrom rest (pos + utf8Len pre) a b := by
  induction pre generalizing pos with
  | nil => simp [utf8Len]
  | cons c cs ih =>
    have hc := utf8Size_pos' c
    rw [utf8Len_cons] at h
    simp only [List.cons_append, sliceFrom]
    rw [if_neg (by omega), if_neg (by omega), ih _ (by omega), utf8Len_cons]
    congr 1; omega

/-- Lowering the lower bound below the current position changes nothing. -/
theorem sliceFrom_lower (l : List Char) (b q a a' : Nat) (ha : a ≤ q) (ha' : a' ≤ q) :
    sliceFrom l q a b = sliceFrom l q a' b := by
  induction l generalizing q with
  | nil => rfl
  | cons d ds ihl =>
    simp only [sliceFrom]
    split
    · rfl
    · congr 1
      exact ihl _ (by omega) (by omega)

theorem sliceFrom_take (mid suf : List Char) (pos b : Nat) (h : pos + utf8Len mid = b) :
    sliceFrom (mid ++ suf) pos pos b = mid := by
  induction mid generalizing pos with
  | nil =>
    simp only [utf8Len, List.map_nil, List.sum_nil, Nat.add_zero] at h
    subst h
    cases suf with
    | nil => rfl
    | cons c cs => simp [sliceFrom]
  | cons c cs ih =>
    have hc := utf8Size_pos' c
    rw [utf8Len_cons] at h
    simp only [List.cons_append, sliceFrom]
    rw [if_neg (by omega), if_pos (by omega)]
    congr 1
    rw [sliceFrom_lower _ _ _ pos (pos + c.utf8Size) (by omega) (Nat.le_refl _)]
    exact ih _ (by omega)

/-- **The text of a pair is the text consumed for it**: if the input splits as `pre ++ mid ++ suf`
and the pair spans the bytes of `mid`, `pair.as_str()` is `mid` — so an identifier's name is the
located text. -/
theorem C19_text_of_pair (pre mid suf : List Char) (r : String) (cs : List PTree) :
    textOf (pre ++ (mid ++ suf)) (.node r (utf8Len pre) (utf8Len pre + utf8Len mid) cs) = mid := by
  unfold textOf
  simp only [PTree.start, PTree.stop]
  by_cases hm : mid = []
  · subst hm
    simp only [utf8Len, List.map_nil, List.sum_nil, Nat.add_zero, List.nil_append]
    -- empty span: nothing is taken
    generalize hp : (List.map Char.utf8Size pre).sum = p
    suffices ∀ (l : List Char) (q : Nat), sliceFrom l q p p = [] by exact this _ _
    intro l
    induction l with
    | nil => intro q; rfl
    | cons d ds ih =>
      intro q
      simp only [sliceFrom]
      split
      · rfl
      · exact ih _
  · have hpos : 0 < utf8Len mid := by
      cases mid with
      | nil => exact absurd rfl hm
      | cons c cs => rw [utf8Len_cons]; have := utf8Size_pos' c; omega
    rw [sliceFrom_skip pre (mid ++ suf) 0 _ _ (by omega) (by omega) (Or.inl (by omega))]
    simp only [Nat.zero_add]
    exact sliceFrom_take mid suf _ _ rfl

end Tx3.Front
