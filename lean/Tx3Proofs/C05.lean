import Tx3Model.Resolve
import Tx3Proofs.Lemmas.Outcome

/-!
# C05 — the fee written in the body is the fee reported and covers the final size
# C20 — resolution does not depend on what the compiler instance compiled before

Over the model of the resolve loop.  `bodyFee payload` stands for "the fee field of the body
inside the payload" (the Lean Conway reader computes it on real payloads).
-/

namespace Tx3
open Outcome

/-- What one evaluation pass guarantees: the body carries the fee the pass was given, and the
reported fee is the linear fee of the payload it produced plus the margin. -/
def PassOK {σ} (pass : Pass σ) (p : FeeParams) (bodyFee : Bytes → Int) : Prop :=
  ∀ f cs e cs', pass f cs = .ok (e, cs') → bodyFee e.payload = f ∧ e.fee = p.sizeFee e.payload.length

theorem resolveLoop_fixed_point {σ} (pass : Pass σ) (p : FeeParams) (bodyFee : Bytes → Int)
    (hp : PassOK pass p bodyFee) (maxRounds : Nat) :
    ∀ (fuel : Nat) (last : Option Eval) (rounds : Nat) (cs : σ) (r : Eval),
    (∀ l, last = some l → l.fee = p.sizeFee l.payload.length) →
    resolveLoop pass maxRounds fuel last rounds cs = .ok r →
    bodyFee r.payload = r.fee ∧ r.fee = p.sizeFee r.payload.length := by
  intro fuel
  induction fuel with
  | zero => intro last rounds cs r _ h; rw [resolveLoop] at h; cases h
  | succ fuel ih =>
    intro last rounds cs r hinv h
    rw [resolveLoop] at h
    split at h
    · rename_i e cs' hpass
      obtain ⟨hb, hf⟩ := hp _ _ _ _ hpass
      cases last with
      | some l =>
        simp only at h
        split at h
        · rename_i heq
          -- the pass computed from `l`'s own fee reproduced `l`: a fixed point
          cases h
          have hl := hinv r rfl
          subst heq
          simp only [Option.map_some, Option.getD_some] at hb
          exact ⟨hb, hl⟩
        · split at h
          · cases h
          · exact ih _ _ _ r (fun l' hl' => by cases hl'; exact hf) h
      | none =>
        simp only at h
        split at h
        · cases h
        · exact ih _ _ _ r (fun l' hl' => by cases hl'; exact hf) h
    · cases h
    · cases h

/-- **C05.** Whenever resolution returns a transaction, the fee written in its body is exactly
the fee reported to the caller, and that fee is the protocol's linear fee for the returned
payload's size plus the configured margin: the loop returns a fixed point of
fee ↦ transaction ↦ fee, never an intermediate round. -/
theorem C05_fixed_point {σ} (pass : Pass σ) (p : FeeParams) (bodyFee : Bytes → Int)
    (hp : PassOK pass p bodyFee) (fresh left : σ) (n : Nat) (r : Eval)
    (h : resolveTx pass fresh n left = .ok r) :
    bodyFee r.payload = r.fee ∧ r.fee = p.sizeFee r.payload.length := by
  unfold resolveTx at h
  exact resolveLoop_fixed_point pass p bodyFee hp _ _ none 0 fresh r (fun l hl => by cases hl) h

/-- The result is also stable: one more pass with the returned fee gives the same evaluation. -/
theorem resolveLoop_stable {σ} (pass : Pass σ) (maxRounds : Nat) :
    ∀ (fuel : Nat) (last : Option Eval) (rounds : Nat) (cs : σ) (r : Eval),
    resolveLoop pass maxRounds fuel last rounds cs = .ok r →
    ∃ cs₁ cs₂, pass r.fee cs₁ = .ok (r, cs₂) := by
  intro fuel
  induction fuel with
  | zero => intro last rounds cs r h; rw [resolveLoop] at h; cases h
  | succ fuel ih =>
    intro last rounds cs r h
    rw [resolveLoop] at h
    split at h
    · rename_i e cs' hpass
      cases last with
      | some l =>
        simp only at h
        split at h
        · rename_i heq
          cases h
          subst heq
          exact ⟨cs, cs', by simpa using hpass⟩
        · split at h
          · cases h
          · exact ih _ _ _ r h
      | none =>
        simp only at h
        split at h
        · cases h
        · exact ih _ _ _ r h
    · cases h
    · cases h

theorem C05_stable {σ} (pass : Pass σ) (fresh left : σ) (n : Nat) (r : Eval)
    (h : resolveTx pass fresh n left = .ok r) : ∃ cs₁ cs₂, pass r.fee cs₁ = .ok (r, cs₂) := by
  unfold resolveTx at h
  exact resolveLoop_stable pass _ _ none 0 fresh r h

/-- **C20.** The outcome of a resolution — transaction bytes, hash and fee, or the error — is
the same whatever state earlier compilations left in the compiler instance. -/
theorem C20_history_independent {σ} (pass : Pass σ) (fresh : σ) (n : Nat) (left₁ left₂ : σ) :
    resolveTx pass fresh n left₁ = resolveTx pass fresh n left₂ := rfl

/-- Without the reset the statement is false: a pass that looks at the remembered state
(as `min_utxo` sizing does) gives different results from different histories. -/
theorem C20_needs_reset :
    ∃ (pass : Pass Nat) (s₁ s₂ : Nat),
      resolveLoop pass 3 6 none 0 s₁ ≠ resolveLoop pass 3 6 none 0 s₂ := by
  refine ⟨fun _ s => .ok ({ payload := [UInt8.ofNat s], hash := [], fee := 0 }, s), 0, 1, ?_⟩
  decide

/-! ## Non-vacuity: a pass that converges after two rounds -/

example :
    let pass : Pass Unit := fun f _ =>
      .ok ({ payload := List.replicate (if f = 0 then 10 else 12) 0, hash := [], fee := if f = 0 then 20 else 24 }, ())
    resolveTx pass () 3 () = .ok { payload := List.replicate 12 0, hash := [], fee := 24 } := by
  decide

end Tx3
