import Tx3Model.Lang
import Tx3Model.LangLower
import Tx3Model.Reduce
import Tx3Model.PlutusData
import Tx3Proofs.Lemmas.Outcome
import Tx3Proofs.C01

/-!
# C01 — datums and redeemers: what a data expression denotes is what reaches the Plutus Data writer

The data side of the property (`a record written with its fields in another order than the type definition`, nested
records, lists, integer arithmetic inside fields).  `DExp` is the fragment: integer expressions of `IExp`, hex literals,
booleans, unit, record / variant constructors **with their fields written in any order** (no spread) and list
literals, nested to any depth.  `den` is what such an expression denotes as Plutus Data, written from the language's
definition: the constructor index is the position of the case in the type definition and the fields come in the order
the type *declares* them.  Proved: lowering, applying the arguments, reducing and converting to Plutus Data - the four
models tied to lowering.rs, reduce/mod.rs and compile/plutus_data.rs per case - yield exactly `den`, for every
expression of the fragment, every argument vector, every position and all sufficient fuels.
-/

namespace Tx3.Lang
open Tx3 Tx3.Expr Outcome

/-- The data fragment. -/
inductive DExp where
  | int (i : IExp)
  | hex (digits : String)
  | bool (b : Bool)
  | unit
  | record (ty : String) (case : Option String) (names : List String) (vals : List DExp)
  | list (vals : List DExp)

namespace DExp

mutual
def toL : DExp → LExpr
  | int i => i.toL
  | hex h => .leaf (.hex h)
  | bool b => .leaf (.bool b)
  | unit => .leaf .unit
  | record ty case names vals => .node (.record ty case names false) (toLL vals)
  | list vals => .node .list (toLL vals)
def toLL : List DExp → List LExpr
  | [] => []
  | v :: vs => toL v :: toLL vs
end

mutual
def depth : DExp → Nat
  | int i => i.depth
  | hex _ => 0
  | bool _ => 0
  | unit => 0
  | record _ _ _ vals => depthL vals + 1
  | list vals => depthL vals + 2
def depthL : List DExp → Nat
  | [] => 0
  | v :: vs => max (depth v) (depthL vs)
end

/-- `Lang.lookup` on the written fields, as an option-valued pick. -/
def pick {α} (names : List String) (vals : List α) (f : String) : Option α := Lang.lookup (names.zip vals) f

mutual
/-- What the expression denotes: constructor index = position of the case, fields in *declaration* order. -/
def den (s : Scope) (ints : String → Int) : DExp → PData
  | int i => .int (i.den ints)
  | hex h => .bytes ((hexDecode h).getD [])
  | bool b => .constr (if b then 1 else 0) []
  | unit => .constr 0 []
  | record ty case names vals =>
    (match findType s.prog ty with
     | some td =>
       (match caseIndex td (case.getD "Default") with
        | some (ix, cd) => .constr ix (cd.fields.map fun f => (pick names (denL s ints vals) f.1).getD pdUnit)
        | none => pdUnit)
     | none => pdUnit)
  | list vals => .list (denL s ints vals)
def denL (s : Scope) (ints : String → Int) : List DExp → List PData
  | [] => []
  | v :: vs => den s ints v :: denL s ints vs
end

mutual
/-- The hypotheses: names of integer parameters resolve and are bound, literals are well-formed, every constructor
names a declared case and writes every field the case declares (in whatever order; further names are ignored). -/
def OK (s : Scope) (σ : ArgMap) (ints : String → Int) : DExp → Prop
  | int i => ScopeOf s σ ints i.pars ∧ i.Fits ints
  | hex h => ∃ b, hexDecode h = some b
  | bool _ => True
  | unit => True
  | record ty case names vals =>
    (∃ td ix cd, findType s.prog ty = some td ∧ caseIndex td (case.getD "Default") = some (ix, cd) ∧
      ∀ f ∈ cd.fields, f.1 ∈ names) ∧ names.length = vals.length ∧ OKL s σ ints vals
  | list vals => OKL s σ ints vals
def OKL (s : Scope) (σ : ArgMap) (ints : String → Int) : List DExp → Prop
  | [] => True
  | v :: vs => OK s σ ints v ∧ OKL s σ ints vs
end

theorem toLL_eq_map : ∀ vs : List DExp, toLL vs = vs.map toL
  | [] => by simp [toLL]
  | v :: vs => by simp [toLL, toLL_eq_map vs]

theorem denL_eq_map (s : Scope) (ints : String → Int) : ∀ vs : List DExp, denL s ints vs = vs.map (den s ints)
  | [] => by simp [denL]
  | v :: vs => by simp [denL, denL_eq_map s ints vs]

theorem OKL_mem {s : Scope} {σ : ArgMap} {ints : String → Int} : ∀ {vs : List DExp}, OKL s σ ints vs →
    ∀ v ∈ vs, OK s σ ints v
  | [], _, v, hv => by cases hv
  | w :: ws, h, v, hv => by
    simp only [OKL] at h
    rcases List.mem_cons.mp hv with rfl | hv
    · exact h.1
    · exact OKL_mem h.2 v hv

theorem depth_le_depthL : ∀ {vs : List DExp} {v : DExp}, v ∈ vs → depth v ≤ depthL vs
  | [], v, hv => by cases hv
  | w :: ws, v, hv => by
    simp only [depthL]
    rcases List.mem_cons.mp hv with rfl | hv
    · omega
    · have := depth_le_depthL hv; omega

end DExp

/-! ## list plumbing -/

theorem pick_map {α β} (F : α → β) : ∀ (names : List String) (vals : List α) (f : String),
    DExp.pick names (vals.map F) f = (DExp.pick names vals f).map F
  | [], _, _ => by simp [DExp.pick, Lang.lookup]
  | _ :: _, [], _ => by simp [DExp.pick, Lang.lookup]
  | n :: ns, v :: vs, f => by
    have ih := pick_map F ns vs f
    simp only [DExp.pick] at ih ⊢
    simp only [List.map_cons, List.zip_cons_cons, Lang.lookup]
    split
    · rfl
    · exact ih

theorem pick_mem {α} : ∀ (names : List String) (vals : List α) (f : String) (v : α),
    DExp.pick names vals f = some v → v ∈ vals
  | [], _, _, _, h => by simp [DExp.pick, Lang.lookup] at h
  | _ :: _, [], _, _, h => by simp [DExp.pick, Lang.lookup] at h
  | n :: ns, w :: ws, f, v, h => by
    simp only [DExp.pick, List.zip_cons_cons, Lang.lookup] at h
    split at h
    · cases h; simp
    · exact List.mem_cons_of_mem _ (pick_mem ns ws f v h)

theorem pick_some {α} : ∀ (names : List String) (vals : List α) (f : String),
    names.length = vals.length → f ∈ names → ∃ v, DExp.pick names vals f = some v
  | [], _, _, _, h => by cases h
  | _ :: _, [], _, hl, _ => by simp at hl
  | n :: ns, w :: ws, f, hl, h => by
    simp only [DExp.pick, List.zip_cons_cons, Lang.lookup]
    by_cases e : n = f
    · exact ⟨w, by simp [e]⟩
    · simp only [e, if_false]
      have hf : f ∈ ns := by
        rcases List.mem_cons.mp h with h | h
        · exact absurd h.symm e
        · exact h
      exact pick_some ns ws f (by simpa using hl) hf

/-- A chain of three maps over a list: when every element goes through all three stages with a known end result, the
three `mapMO`s succeed and end in the mapped results. -/
theorem mapMO_chain3 {α β γ δ} (f : α → Outcome β) (g : β → Outcome γ) (c : γ → Outcome δ) (h : α → δ) :
    ∀ xs : List α, (∀ x ∈ xs, ∃ t, f x = .ok t ∧ ∃ r, g t = .ok r ∧ c r = .ok (h x)) →
      ∃ ts, mapMO f xs = .ok ts ∧ ∃ rs, mapMO g ts = .ok rs ∧ mapMO c rs = .ok (xs.map h)
  | [], _ => ⟨[], by simp [mapMO], [], by simp [mapMO], by simp [mapMO]⟩
  | x :: xs, hx => by
    obtain ⟨t, ht, r, hr, hc⟩ := hx x (by simp)
    obtain ⟨ts, hts, rs, hrs, hcs⟩ := mapMO_chain3 f g c h xs (fun y hy => hx y (by simp [hy]))
    exact ⟨t :: ts, by simp [mapMO, ht, hts], r :: rs, by simp [mapMO, hr, hrs], by simp [mapMO, hc, hcs]⟩

/-- The same with two end results kept side by side (a field is converted by `compile_data_expr`, a list element by
`try_as_data`). -/
theorem mapMO_chain3' {α β γ δ} (f : α → Outcome β) (g : β → Outcome γ) (c c' : γ → Outcome δ) (h : α → δ) :
    ∀ xs : List α, (∀ x ∈ xs, ∃ t, f x = .ok t ∧ ∃ r, g t = .ok r ∧ c r = .ok (h x) ∧ c' r = .ok (h x)) →
      ∃ ts, mapMO f xs = .ok ts ∧ ∃ rs, mapMO g ts = .ok rs ∧ mapMO c rs = .ok (xs.map h) ∧
        mapMO c' rs = .ok (xs.map h)
  | [], _ => ⟨[], by simp [mapMO], [], by simp [mapMO], by simp [mapMO], by simp [mapMO]⟩
  | x :: xs, hx => by
    obtain ⟨t, ht, r, hr, hc, hc'⟩ := hx x (by simp)
    obtain ⟨ts, hts, rs, hrs, hcs, hcs'⟩ := mapMO_chain3' f g c c' h xs (fun y hy => hx y (by simp [hy]))
    exact ⟨t :: ts, by simp [mapMO, ht, hts], r :: rs, by simp [mapMO, hr, hrs], by simp [mapMO, hc, hcs],
      by simp [mapMO, hc', hcs']⟩

theorem compileDataExprL_eq_mapMO : ∀ rs : List Expr, compileDataExprL rs = mapMO compileDataExpr rs
  | [] => by simp [compileDataExprL, mapMO]
  | r :: rs => by
    rw [compileDataExprL, compileDataExprL_eq_mapMO rs]
    simp only [mapMO]
    cases compileDataExpr r <;> rfl

theorem tryAsDataL_eq_mapMO : ∀ rs : List Expr, tryAsDataL rs = mapMO tryAsData rs
  | [] => by simp [tryAsDataL, mapMO]
  | r :: rs => by
    rw [tryAsDataL, tryAsDataL_eq_mapMO rs]
    simp only [mapMO]
    cases tryAsData r <;> rfl

theorem applyArgsL_eq_map (σ : ArgMap) : ∀ ts : List Expr, applyArgsL σ ts = ts.map (applyArgs σ)
  | [] => by simp [applyArgsL]
  | t :: ts => by simp [applyArgsL, applyArgsL_eq_map σ ts]

theorem mapMO_map {α β γ} (f : β → Outcome γ) (g : α → β) : ∀ xs : List α,
    mapMO f (xs.map g) = mapMO (fun x => f (g x)) xs
  | [] => by simp [mapMO]
  | x :: xs => by simp [mapMO, mapMO_map f g xs]

theorem lowerL_eq_mapMO (s : Scope) (n : Nat) (ctx : Ctx) : ∀ cs : List LExpr,
    lowerL s (n + 1) ctx cs = mapMO (lowerE s n ctx) cs
  | [] => by simp [lowerL, mapMO]
  | c :: cs => by
    rw [lowerL, lowerL_eq_mapMO s n ctx cs]
    simp only [mapMO]
    rfl


/-! ## the theorem -/

/-- Lower, apply the arguments, reduce, convert (as a field and as a list element): all succeed and end in `den`. -/
def Good (s : Scope) (σ : ArgMap) (ints : String → Int) (ctx : Ctx) (d : DExp) : Prop :=
  ∀ k m, ∃ t, lowerE s (d.depth + 1 + k) ctx d.toL = .ok t ∧
    ∃ r, reduceF (d.depth + 2 + m) (applyArgs σ t) = .ok r ∧
      compileDataExpr r = .ok (d.den s ints) ∧ tryAsData r = .ok (d.den s ints)

theorem map_zip_range_snd {α β} (H : α → β) (l : List α) :
    ((List.range l.length).zip l).map (fun fi => H fi.2) = l.map H := by
  have : ((List.range l.length).zip l).map (fun fi => H fi.2) = (((List.range l.length).zip l).map Prod.snd).map H := by
    simp [List.map_map, Function.comp_def]
  rw [this, List.map_snd_zip (by simp)]

mutual
theorem good (s : Scope) (σ : ArgMap) (ints : String → Int) (ctx : Ctx) (hl : ctx.lvl ≠ 0) :
    ∀ d : DExp, d.OK s σ ints → Good s σ ints ctx d
  | .int i, h => by
    intro k m
    obtain ⟨t, ht, hr⟩ := lower_int s σ ints ctx hl i h.1 h.2 k
    exact ⟨t, by simpa [DExp.depth, DExp.toL] using ht, _, by simpa [DExp.depth] using hr m, rfl, rfl⟩
  | .hex hd, h => by
    intro k m
    obtain ⟨b, hb⟩ := h
    refine ⟨.leaf (.bytes b), ?_, .leaf (.bytes b), ?_, ?_, ?_⟩
    · rw [show (DExp.hex hd).depth + 1 + k = k + 1 by simp only [DExp.depth]; omega, DExp.toL, lowerE]
      simp [hb]
    · rw [show (DExp.hex hd).depth + 2 + m = (m + 1) + 1 by simp only [DExp.depth]; omega]
      simp [applyArgs, reduceF]
    · simp [compileDataExpr, DExp.den, hb]
    · simp [tryAsData, DExp.den, hb]
  | .bool b, _ => by
    intro k m
    refine ⟨.leaf (.bool b), ?_, .leaf (.bool b), ?_, ?_, ?_⟩
    · rw [show (DExp.bool b).depth + 1 + k = k + 1 by simp only [DExp.depth]; omega, DExp.toL, lowerE]
    · rw [show (DExp.bool b).depth + 2 + m = (m + 1) + 1 by simp only [DExp.depth]; omega]
      simp [applyArgs, reduceF]
    · simp [compileDataExpr, DExp.den]
    · simp [tryAsData, DExp.den]
  | .unit, _ => by
    intro k m
    refine ⟨.node (.struct 0) [], ?_, .node (.struct 0) [], ?_, ?_, ?_⟩
    · rw [show DExp.unit.depth + 1 + k = k + 1 by simp only [DExp.depth]; omega, DExp.toL, lowerE]
    · rw [show DExp.unit.depth + 2 + m = (m + 1) + 1 by simp only [DExp.depth]; omega]
      simp [applyArgs, applyArgsL, reduceF, mapMO]
    · simp [compileDataExpr, compileDataExprL, DExp.den]
    · simp [tryAsData, tryAsDataL, DExp.den]
  | .record ty case names vals, h => by
    intro k m
    obtain ⟨⟨td, ix, cd, hft, hci, hall⟩, hlen, hvals⟩ := h
    have ihL := goodL s σ ints ctx hl vals hvals
    let F := DExp.depthL vals + 1 + k
    let N := DExp.depthL vals + 2 + m
    let hfun : Nat × (String × LTy) → PData := fun fi =>
      (DExp.pick names (DExp.denL s ints vals) fi.2.1).getD pdUnit
    obtain ⟨G, hG, hlowE⟩ : ∃ G : Nat × (String × LTy) → Outcome Expr,
        (∀ fi v, Lang.lookup (names.zip (DExp.toLL vals)) fi.2.1 = some v → G fi = lowerE s F ctx v) ∧
        lowerE s (F + 1) ctx (DExp.record ty case names vals).toL =
          (mapMO G ((List.range cd.fields.length).zip cd.fields) >>= fun fields => .ok (.node (.struct ix) fields)) := by
      refine ⟨?G, ?_, ?_⟩
      case refine_2 =>
        rw [DExp.toL, lowerE]
        simp only [hl, if_false, hft, hci, Bool.false_eq_true]
        rfl
      · intro fi v hv
        simp only [hv]
    have step : ∀ fi ∈ (List.range cd.fields.length).zip cd.fields,
        ∃ t, G fi = .ok t ∧
          ∃ r, reduceF N (applyArgs σ t) = .ok r ∧ compileDataExpr r = .ok (hfun fi) ∧ tryAsData r = .ok (hfun fi) := by
      intro fi hfi
      have hmem : fi.2 ∈ cd.fields := (List.of_mem_zip hfi).2
      obtain ⟨v, hv⟩ := pick_some names vals fi.2.1 hlen (hall _ hmem)
      have hvm := pick_mem _ _ _ _ hv
      have hd := DExp.depth_le_depthL hvm
      obtain ⟨t, ht, r, hr, hc, hc'⟩ := ihL v hvm (DExp.depthL vals - v.depth + k) (DExp.depthL vals - v.depth + m)
      have e1 : Lang.lookup (names.zip (DExp.toLL vals)) fi.2.1 = some v.toL := by
        have := pick_map DExp.toL names vals fi.2.1
        rw [hv] at this
        rw [DExp.toLL_eq_map]; exact this
      have e2 : hfun fi = v.den s ints := by
        have := pick_map (DExp.den s ints) names vals fi.2.1
        rw [hv] at this
        simp only [hfun, DExp.denL_eq_map, this, Option.map_some, Option.getD_some]
      rw [show v.depth + 1 + (DExp.depthL vals - v.depth + k) = F by simp only [F]; omega] at ht
      rw [show v.depth + 2 + (DExp.depthL vals - v.depth + m) = N by simp only [N]; omega] at hr
      refine ⟨t, by rw [hG fi _ e1]; exact ht, r, hr, by rw [e2]; exact hc, by rw [e2]; exact hc'⟩
    obtain ⟨ts, hts, rs, hrs, hcs, hcs'⟩ := mapMO_chain3' _ _ _ _ hfun _ step
    have hden : (DExp.record ty case names vals).den s ints =
        .constr ix (((List.range cd.fields.length).zip cd.fields).map hfun) := by
      simp only [DExp.den, hft, hci]
      congr 1
      exact (map_zip_range_snd (fun f => (DExp.pick names (DExp.denL s ints vals) f.1).getD pdUnit) cd.fields).symm
    refine ⟨.node (.struct ix) ts, ?_, .node (.struct ix) rs, ?_, ?_, ?_⟩
    · rw [show (DExp.record ty case names vals).depth + 1 + k = F + 1 by simp only [DExp.depth, F]; omega, hlowE, hts]; rfl
    · rw [show (DExp.record ty case names vals).depth + 2 + m = N + 1 by simp only [DExp.depth, N]; omega]
      simp only [applyArgs, reduceF]
      rw [applyArgsL_eq_map, mapMO_map, hrs]; rfl
    · rw [hden]; simp only [compileDataExpr]; rw [compileDataExprL_eq_mapMO, hcs]; rfl
    · rw [hden]; simp only [tryAsData]; rw [tryAsDataL_eq_mapMO, hcs']; rfl
  | .list vals, h => by
    intro k m
    have ihL := goodL s σ ints ctx hl vals h
    let F := DExp.depthL vals + 1 + k
    let N := DExp.depthL vals + 3 + m
    have step : ∀ v ∈ vals, ∃ t, lowerE s F ctx v.toL = .ok t ∧
        ∃ r, reduceF N (applyArgs σ t) = .ok r ∧ tryAsData r = .ok (v.den s ints) ∧ tryAsData r = .ok (v.den s ints) := by
      intro v hvm
      have hd := DExp.depth_le_depthL hvm
      obtain ⟨t, ht, r, hr, _, hc'⟩ := ihL v hvm (DExp.depthL vals - v.depth + k) (DExp.depthL vals - v.depth + 1 + m)
      rw [show v.depth + 1 + (DExp.depthL vals - v.depth + k) = F by simp only [F]; omega] at ht
      rw [show v.depth + 2 + (DExp.depthL vals - v.depth + 1 + m) = N by simp only [N]; omega] at hr
      exact ⟨t, ht, r, hr, hc', hc'⟩
    obtain ⟨ts, hts, rs, hrs, hcs, _⟩ := mapMO_chain3' (fun v : DExp => lowerE s F ctx v.toL) _ _ _ (DExp.den s ints) _ step
    refine ⟨.node .list ts, ?_, .node .list rs, ?_, ?_, ?_⟩
    · rw [show (DExp.list vals).depth + 1 + k = (F + 1) + 1 by simp only [DExp.depth, F]; omega, DExp.toL, lowerE]
      rw [lowerL_eq_mapMO, DExp.toLL_eq_map, mapMO_map, hts]; rfl
    · rw [show (DExp.list vals).depth + 2 + m = N + 1 by simp only [DExp.depth, N]; omega]
      simp only [applyArgs, reduceF]
      rw [applyArgsL_eq_map, mapMO_map, hrs]; rfl
    · simp only [compileDataExpr, DExp.den]; rw [tryAsDataL_eq_mapMO, hcs, DExp.denL_eq_map]; rfl
    · simp only [tryAsData, DExp.den]; rw [tryAsDataL_eq_mapMO, hcs, DExp.denL_eq_map]; rfl
theorem goodL (s : Scope) (σ : ArgMap) (ints : String → Int) (ctx : Ctx) (hl : ctx.lvl ≠ 0) :
    ∀ vs : List DExp, DExp.OKL s σ ints vs → ∀ v ∈ vs, Good s σ ints ctx v
  | [], _ => fun v hv => by cases hv
  | w :: ws, h => fun v hv => by
    have h' : DExp.OK s σ ints w ∧ DExp.OKL s σ ints ws := by simpa only [DExp.OKL] using h
    have g1 := good s σ ints ctx hl w h'.1
    have g2 := goodL s σ ints ctx hl ws h'.2
    rcases List.mem_cons.mp hv with e | hv
    · rw [e]; exact g1
    · exact g2 v hv
end

/-- **C01, data side.** For every data expression of the fragment - integer arithmetic over parameters, literals,
constructors with their fields in any written order, lists, any nesting - whose hypotheses hold, every argument
vector, every position whose identifiers still carry symbols and all sufficient fuels: lowering succeeds, and applying
the arguments, reducing and converting to Plutus Data yields exactly what the expression denotes (constructor index =
position of the case, fields in the order the type declares them). -/
theorem C01_datum_exact (s : Scope) (σ : ArgMap) (ints : String → Int) (ctx : Ctx) (hl : ctx.lvl ≠ 0)
    (d : DExp) (h : d.OK s σ ints) (k m : Nat) :
    ∃ t, lowerE s (d.depth + 1 + k) ctx d.toL = .ok t ∧
      ∃ r, reduceF (d.depth + 2 + m) (applyArgs σ t) = .ok r ∧ compileDataExpr r = .ok (d.den s ints) :=
  let ⟨t, ht, r, hr, hc, _⟩ := good s σ ints ctx hl d h k m
  ⟨t, ht, r, hr, hc⟩

/-- The same for a redeemer or a list element (`try_as_data`). -/
theorem C01_redeemer_exact (s : Scope) (σ : ArgMap) (ints : String → Int) (ctx : Ctx) (hl : ctx.lvl ≠ 0)
    (d : DExp) (h : d.OK s σ ints) (k m : Nat) :
    ∃ t, lowerE s (d.depth + 1 + k) ctx d.toL = .ok t ∧
      ∃ r, reduceF (d.depth + 2 + m) (applyArgs σ t) = .ok r ∧ tryAsData r = .ok (d.den s ints) :=
  let ⟨t, ht, r, hr, _, hc⟩ := good s σ ints ctx hl d h k m
  ⟨t, ht, r, hr, hc⟩

/-- **Written order is immaterial.** Two constructors of one case whose written fields are a rearrangement of each other
(same value under every declared name) denote the same data. -/
theorem C01_field_order_immaterial (s : Scope) (ints : String → Int) (ty : String) (case : Option String)
    (n1 n2 : List String) (v1 v2 : List DExp)
    (h : ∀ f, (DExp.pick n1 v1 f).map (DExp.den s ints) = (DExp.pick n2 v2 f).map (DExp.den s ints)) :
    (DExp.record ty case n1 v1).den s ints = (DExp.record ty case n2 v2).den s ints := by
  simp only [DExp.den, DExp.denL_eq_map, pick_map, h]

/-! ## the independent semantics `⟦·⟧` on the fragment: `eval` yields a value whose data is `den` -/

namespace DExp
mutual
/-- The hypotheses on the semantic side: names are integer parameters of `ρ`, literals are well-formed, constructors
name a declared case and write every declared field. -/
def EOK (ρ : Env) (ints : String → Int) : DExp → Prop
  | int i => ParamsOf ρ ints i.pars
  | hex h => ∃ b, hexDecode h = some b
  | bool _ => True
  | unit => True
  | record ty case names vals =>
    (∃ td ix cd, findType ρ.prog ty = some td ∧ caseIndex td (case.getD "Default") = some (ix, cd) ∧
      ∀ f ∈ cd.fields, f.1 ∈ names) ∧ names.length = vals.length ∧ EOKL ρ ints vals
  | list vals => EOKL ρ ints vals
def EOKL (ρ : Env) (ints : String → Int) : List DExp → Prop
  | [] => True
  | v :: vs => EOK ρ ints v ∧ EOKL ρ ints vs
end
end DExp

theorem mapMO_const {α β} (f : α → Outcome β) (h : α → β) : ∀ xs : List α, (∀ x ∈ xs, f x = .ok (h x)) →
    mapMO f xs = .ok (xs.map h)
  | [], _ => by simp [mapMO]
  | x :: xs, hx => by
    simp [mapMO, hx x (by simp), mapMO_const f h xs (fun y hy => hx y (by simp [hy]))]

theorem pick_mapMO {α β} (g : α → Outcome β) : ∀ (names : List String) (xs : List α) (ys : List β) (f : String) (x : α),
    mapMO g xs = .ok ys → DExp.pick names xs f = some x → ∃ y, DExp.pick names ys f = some y ∧ g x = .ok y
  | [], _, _, _, _, _, h => by simp [DExp.pick, Lang.lookup] at h
  | _ :: _, [], _, _, _, _, h => by simp [DExp.pick, Lang.lookup] at h
  | n :: ns, x0 :: xs, ys, f, x, hm, h => by
    simp only [mapMO] at hm
    obtain ⟨y0, hy0, hm⟩ := bind_eq_ok.mp hm
    obtain ⟨ys0, hys0, hm⟩ := bind_eq_ok.mp hm
    simp only [pure_eq_ok, Outcome.ok.injEq] at hm
    subst hm
    simp only [DExp.pick, List.zip_cons_cons, Lang.lookup] at h ⊢
    by_cases e : n = f
    · simp only [e, if_true, Option.some.injEq] at h ⊢
      subst h
      exact ⟨y0, rfl, hy0⟩
    · simp only [e, if_false] at h ⊢
      exact pick_mapMO g ns xs ys0 f x hys0 h

theorem evalL_eq_mapMO (ρ : Env) (n : Nat) (mode : Mode) : ∀ cs : List LExpr,
    evalL ρ (n + 1) mode cs = mapMO (eval ρ n mode) cs
  | [] => by simp [evalL, mapMO]
  | c :: cs => by
    rw [evalL, evalL_eq_mapMO ρ n mode cs]
    simp only [mapMO]
    rfl

theorem mapM_toData {vs : List Val} {ds : List PData} (h : vs.map Val.toData = ds.map some) :
    vs.mapM Val.toData = some ds := by
  induction vs generalizing ds with
  | nil => cases ds <;> simp_all
  | cons v vs ih =>
    cases ds with
    | nil => simp at h
    | cons d ds =>
      simp only [List.map_cons, List.cons.injEq] at h
      simp [List.mapM_cons, h.1, ih h.2]

/-- `eval` succeeds and yields a value whose data is `den`. -/
def EGood (ρ : Env) (s : Scope) (ints : String → Int) (d : DExp) : Prop :=
  ∀ mode k, ∃ v, eval ρ (2 * d.depth + 1 + k) mode d.toL = .ok v ∧ v.toData = some (d.den s ints)

mutual
theorem egood (ρ : Env) (s : Scope) (ints : String → Int) (hp : ρ.prog = s.prog) :
    ∀ d : DExp, d.EOK ρ ints → EGood ρ s ints d
  | .int i, h => by
    intro mode k
    have := eval_int ρ ints mode i h (i.depth + k)
    exact ⟨_, by rw [show 2 * (DExp.int i).depth + 1 + k = i.depth + 1 + (i.depth + k) by simp only [DExp.depth]; omega]; exact this, rfl⟩
  | .hex hd, h => by
    intro mode k
    obtain ⟨b, hb⟩ := h
    refine ⟨.bytes b, ?_, by simp [Val.toData, DExp.den, hb]⟩
    rw [show 2 * (DExp.hex hd).depth + 1 + k = k + 1 by simp only [DExp.depth]; omega, DExp.toL, eval]
    simp [hb]
  | .bool b, _ => by
    intro mode k
    refine ⟨.bool b, ?_, by simp [Val.toData, DExp.den]⟩
    rw [show 2 * (DExp.bool b).depth + 1 + k = k + 1 by simp only [DExp.depth]; omega, DExp.toL, eval]
  | .unit, _ => by
    intro mode k
    refine ⟨.data (.constr 0 []), ?_, by simp [Val.toData, DExp.den]⟩
    rw [show 2 * DExp.unit.depth + 1 + k = k + 1 by simp only [DExp.depth]; omega, DExp.toL, eval]
  | .record ty case names vals, h => by
    intro mode k
    obtain ⟨⟨td, ix, cd, hft, hci, hall⟩, hlen, hvals⟩ := h
    have ihL := egoodL ρ s ints hp vals hvals
    let F := 2 * DExp.depthL vals + 1 + k
    -- the written values, evaluated
    have hvs : ∃ vs, mapMO (eval ρ F .datum) (DExp.toLL vals) = .ok vs := by
      rw [DExp.toLL_eq_map, mapMO_map]
      have : ∀ v ∈ vals, ∃ t, eval ρ F .datum v.toL = .ok t ∧ ∃ r, (Outcome.ok t : Outcome Val) = .ok r ∧
          (Outcome.ok () : Outcome Unit) = .ok ((fun _ => ()) v) := by
        intro v hvm
        have hd := DExp.depth_le_depthL hvm
        obtain ⟨t, ht, _⟩ := ihL v hvm .datum (2 * (DExp.depthL vals - v.depth) + k)
        rw [show 2 * v.depth + 1 + (2 * (DExp.depthL vals - v.depth) + k) = F by simp only [F]; omega] at ht
        exact ⟨t, ht, t, rfl, rfl⟩
      obtain ⟨ts, hts, _⟩ := mapMO_chain3 _ _ _ _ vals this
      exact ⟨ts, hts⟩
    obtain ⟨vs, hvs⟩ := hvs
    let hfun : Nat × (String × LTy) → PData := fun fi =>
      (DExp.pick names (DExp.denL s ints vals) fi.2.1).getD pdUnit
    obtain ⟨G, hG, hev⟩ : ∃ G : Nat × (String × LTy) → Outcome PData,
        (∀ fi v d, Lang.lookup (names.zip vs) fi.2.1 = some v → v.toData = some d → G fi = .ok d) ∧
        eval ρ (F + 1 + 1) mode (DExp.record ty case names vals).toL =
          (mapMO G ((List.range cd.fields.length).zip cd.fields) >>= fun fields => .ok (.data (.constr ix fields))) := by
      refine ⟨?G, ?_, ?_⟩
      case refine_2 =>
        rw [DExp.toL, eval]
        simp only [hft, hci, evalL_eq_mapMO, hvs, ok_bind, Bool.false_eq_true, if_false]
        rfl
      · intro fi v d hv hd
        simp only [hv, hd]
    have step : ∀ fi ∈ (List.range cd.fields.length).zip cd.fields, G fi = .ok (hfun fi) := by
      intro fi hfi
      have hmem : fi.2 ∈ cd.fields := (List.of_mem_zip hfi).2
      obtain ⟨d, hd⟩ := pick_some names vals fi.2.1 hlen (hall _ hmem)
      have hdm := pick_mem _ _ _ _ hd
      have hdl := DExp.depth_le_depthL hdm
      have hd' : DExp.pick names (DExp.toLL vals) fi.2.1 = some d.toL := by
        rw [DExp.toLL_eq_map, pick_map, hd]; rfl
      obtain ⟨v, hv, hev⟩ := pick_mapMO _ names _ vs fi.2.1 _ hvs hd'
      obtain ⟨v', hv', hdata⟩ := ihL d hdm .datum (2 * (DExp.depthL vals - d.depth) + k)
      rw [show 2 * d.depth + 1 + (2 * (DExp.depthL vals - d.depth) + k) = F by simp only [F]; omega] at hv'
      rw [hev] at hv'
      cases hv'
      have e2 : hfun fi = d.den s ints := by
        have := pick_map (DExp.den s ints) names vals fi.2.1
        rw [hd] at this
        simp only [hfun, DExp.denL_eq_map, this, Option.map_some, Option.getD_some]
      rw [hG fi v _ hv hdata, e2]
    have hden : (DExp.record ty case names vals).den s ints =
        .constr ix (((List.range cd.fields.length).zip cd.fields).map hfun) := by
      simp only [DExp.den, ← hp, hft, hci]
      congr 1
      exact (map_zip_range_snd (fun f => (DExp.pick names (DExp.denL s ints vals) f.1).getD pdUnit) cd.fields).symm
    refine ⟨.data (.constr ix (((List.range cd.fields.length).zip cd.fields).map hfun)), ?_, by rw [hden]; rfl⟩
    rw [show 2 * (DExp.record ty case names vals).depth + 1 + k = F + 1 + 1 by simp only [DExp.depth, F]; omega, hev,
      mapMO_const G hfun _ step]
    rfl
  | .list vals, h => by
    intro mode k
    have ihL := egoodL ρ s ints hp vals h
    let F := 2 * DExp.depthL vals + 3 + k
    have step : ∀ v ∈ vals, ∃ t, eval ρ F mode v.toL = .ok t ∧ ∃ r, (Outcome.ok t : Outcome Val) = .ok r ∧
        (match r.toData with | some d => Outcome.ok d | none => .err "x") = .ok (v.den s ints) := by
      intro v hvm
      have hd := DExp.depth_le_depthL hvm
      obtain ⟨t, ht, hdata⟩ := ihL v hvm mode (2 * (DExp.depthL vals - v.depth) + 2 + k)
      rw [show 2 * v.depth + 1 + (2 * (DExp.depthL vals - v.depth) + 2 + k) = F by simp only [F]; omega] at ht
      exact ⟨t, ht, t, rfl, by rw [hdata]⟩
    obtain ⟨ts, hts, rs, hrs, hcs⟩ := mapMO_chain3 (fun v : DExp => eval ρ F mode v.toL) _ _ (DExp.den s ints) vals step
    have hrt : rs = ts := by
      have : ∀ ts : List Val, mapMO (fun t => (Outcome.ok t : Outcome Val)) ts = .ok ts := by
        intro ts; induction ts with
        | nil => simp [mapMO]
        | cons t ts ih => simp [mapMO, ih]
      rw [this] at hrs; cases hrs; rfl
    subst hrt
    have hdat : rs.map Val.toData = (vals.map (DExp.den s ints)).map some := by
      have : ∀ (rs : List Val) (ds : List PData),
          mapMO (fun r : Val => match r.toData with | some d => Outcome.ok d | none => .err "x") rs = .ok ds →
          rs.map Val.toData = ds.map some := by
        intro rs
        induction rs with
        | nil => intro ds hh; simp [mapMO] at hh; subst hh; rfl
        | cons r rs ih =>
          intro ds hh
          simp only [mapMO] at hh
          obtain ⟨d, hd, hh⟩ := bind_eq_ok.mp hh
          obtain ⟨ds', hds', hh⟩ := bind_eq_ok.mp hh
          simp only [pure_eq_ok, Outcome.ok.injEq] at hh
          subst hh
          cases hr : r.toData with
          | none => simp [hr] at hd
          | some d' => simp only [hr, Outcome.ok.injEq] at hd; subst hd; simp [hr, ih _ hds']
      exact this _ _ hcs
    refine ⟨.data (.list (vals.map (DExp.den s ints))), ?_, by simp [Val.toData, DExp.den, DExp.denL_eq_map]⟩
    rw [show 2 * (DExp.list vals).depth + 1 + k = (F + 1) + 1 by simp only [DExp.depth, F]; omega, DExp.toL, eval]
    simp only [evalL_eq_mapMO, DExp.toLL_eq_map, mapMO_map, hts, ok_bind, mapM_toData hdat]
theorem egoodL (ρ : Env) (s : Scope) (ints : String → Int) (hp : ρ.prog = s.prog) :
    ∀ vs : List DExp, DExp.EOKL ρ ints vs → ∀ v ∈ vs, EGood ρ s ints v
  | [], _ => fun v hv => by cases hv
  | w :: ws, h => fun v hv => by
    have h' : DExp.EOK ρ ints w ∧ DExp.EOKL ρ ints ws := by simpa only [DExp.EOKL] using h
    have g1 := egood ρ s ints hp w h'.1
    have g2 := egoodL ρ s ints hp ws h'.2
    rcases List.mem_cons.mp hv with e | hv
    · rw [e]; exact g1
    · exact g2 v hv
end

/-- **C01, data side, against `⟦·⟧`.** On the data fragment the independent semantics and the code agree: `eval` yields
a value whose Plutus Data is `den`, and lowering, applying the arguments, reducing and converting yields `den` too. -/
theorem C01_datum_fragment (ρ : Env) (s : Scope) (σ : ArgMap) (ints : String → Int) (mode : Mode) (ctx : Ctx)
    (hl : ctx.lvl ≠ 0) (hp : ρ.prog = s.prog) (d : DExp) (hρ : d.EOK ρ ints) (hs : d.OK s σ ints) (k m : Nat) :
    (∃ v, eval ρ (2 * d.depth + 1 + k) mode d.toL = .ok v ∧ v.toData = some (d.den s ints)) ∧
    ∃ t, lowerE s (d.depth + 1 + k) ctx d.toL = .ok t ∧
      ∃ r, reduceF (d.depth + 2 + m) (applyArgs σ t) = .ok r ∧ compileDataExpr r = .ok (d.den s ints) :=
  ⟨egood ρ s ints hp d hρ mode k, C01_datum_exact s σ ints ctx hl d hs k m⟩

/-! ## the hypotheses are satisfiable: `R { extra: q + 1, counter: 7, label: 0xab, }` for `type R { counter, label, extra }` -/

def dtProg : Program :=
  { env := [], parties := [], policies := [], assets := [],
    types := [{ name := "R", cases := [{ name := "Default", fields := [("counter", .int), ("label", .bytes), ("extra", .int)] }] }],
    aliases := [], txs := [] }
def dtTx : TxDef :=
  { name := "t", params := [("q", .int)], locals := [], inputs := [], references := [], collateral := none,
    outputs := [], mints := [], burns := [], validity := none, signers := none, metadata := none, adhoc := [] }
def dtScope : Scope := { prog := dtProg, tx := dtTx }
def dtArgs : ArgMap := [("q".toLower, .leaf (.number 41))]
def dtExp : DExp :=
  .record "R" none ["extra", "counter", "label"] [.int (.add (.par "q") (.num 1)), .int (.num 7), .hex "ab"]

example : dtExp.OK dtScope dtArgs (fun _ => 41) := by
  refine ⟨⟨_, 0, _, rfl, rfl, ?_⟩, rfl, ⟨?_, ?_⟩, ⟨?_, ?_⟩, ⟨[0xab], ?_⟩, trivial⟩
  · intro f hf
    simp only [List.mem_cons, List.not_mem_nil, or_false] at hf
    rcases hf with rfl | rfl | rfl <;> simp
  · intro x hx
    simp only [IExp.pars, List.append_nil, List.mem_cons, List.not_mem_nil, or_false] at hx
    subst hx
    refine ⟨⟨.int, ?_⟩, ?_⟩
    · simp [resolve, resolveOuter, indexOfOutput, indexOfOutput.go, lastWith, dtScope, dtTx]
    · simp [dtArgs, lookupS]
  · simp [IExp.Fits, IExp.Small, IExp.den]
  · intro x hx; simp [IExp.pars] at hx
  · simp [IExp.Fits, IExp.Small]
  · simp [hexDecode, hexDecodeChars, hexVal]

/-- ... and what it denotes has the fields in declaration order: `Constr 0 [7, 0xab, 42]`. -/
example : dtExp.den dtScope (fun _ => 41) = .constr 0 [.int 7, .bytes [0xab], .int 42] := by
  simp [dtExp, DExp.den, DExp.denL, DExp.pick, Lang.lookup, findType, caseIndex, caseIndex.go, dtScope, dtProg,
    IExp.den, hexDecode, hexDecodeChars, hexVal]

def dtEnv : Env :=
  { prog := dtProg, tx := dtTx, ints := [("q", 41)], byteVals := [], addrs := [], inputs := [], fee := 0,
    mainnet := false, tipSlot := 0 }

example : dtExp.EOK dtEnv (fun _ => 41) := by
  refine ⟨⟨_, 0, _, rfl, rfl, ?_⟩, rfl, ?_, ?_, ⟨[0xab], ?_⟩, trivial⟩
  · intro f hf
    simp only [List.mem_cons, List.not_mem_nil, or_false] at hf
    rcases hf with rfl | rfl | rfl <;> simp
  · intro x hx
    simp only [IExp.pars, List.append_nil, List.mem_cons, List.not_mem_nil, or_false] at hx
    subst hx
    simp [dtEnv, dtTx, Lang.lookup]
  · intro x hx; simp [IExp.pars] at hx
  · simp [hexDecode, hexDecodeChars, hexVal]

end Tx3.Lang
