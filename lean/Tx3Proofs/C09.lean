import Tx3Model.PlutusData
import Tx3Proofs.Lemmas.CborRoundtrip
import Tx3Proofs.Lemmas.Cbor

/-!
# C09 — datums and redeemers are encoded as standard Plutus Data

`specWrite` / `specRead` are the Plutus Data CBOR convention written from its specification
(constructor alternatives 0–6 → tags 121–127, 7–127 → tags 1280–1400, larger → tag 102 with the
index; integers of any size; byte strings chunked above 64 bytes).  The theorem says a
standard reader recovers exactly the constructor index and field values that were written, for
every value — every constructor index, every integer, every nesting.
-/

namespace Tx3
namespace PData

open Cbor

/-! ## chunks -/

theorem chunk64_flatten : ∀ (fuel : Nat) (b : Bytes), b.length ≤ 64 * fuel → (chunk64 fuel b).flatten = b := by
  intro fuel
  induction fuel with
  | zero => intro b h; simp at h; subst h; simp [chunk64]
  | succ fuel ih =>
    intro b h
    rw [chunk64]
    split
    · rename_i he; simp at he; subst he; simp
    · simp only [List.flatten_cons]
      rw [ih (b.drop 64) (by simp; omega)]
      exact List.take_append_drop 64 b

/-! ## the round trip -/

theorem read_write_aux :
    (∀ d : PData, specRead (specWrite d) = some d) ∧
    (∀ ds : List PData, specReadL (specWriteL ds) = some ds) ∧
    (∀ kvs : List (PData × PData), specReadKV (specWriteKV kvs) = some kvs) := by
  have key := @PData.rec
    (motive_1 := fun d => specRead (specWrite d) = some d)
    (motive_2 := fun ds => specReadL (specWriteL ds) = some ds)
    (motive_3 := fun kvs => specReadKV (specWriteKV kvs) = some kvs)
    (motive_4 := fun kv => specRead (specWrite kv.1) = some kv.1 ∧ specRead (specWrite kv.2) = some kv.2)
  have h1 : ∀ (ix : Nat) (fields : List PData), specReadL (specWriteL fields) = some fields →
      specRead (specWrite (constr ix fields)) = some (constr ix fields) := by
    intro ix fs ih
    rw [specWrite]
    split
    · rename_i h
      rw [specRead]
      have h1 : 121 ≤ 121 + ix ∧ 121 + ix ≤ 127 := by omega
      rw [if_pos h1, ih, Option.map_some]
      have : 121 + ix - 121 = ix := by omega
      rw [this]
    · split
      · rename_i h6 h127
        rw [specRead]
        have hn : ¬ (121 ≤ 1280 + (ix - 7) ∧ 1280 + (ix - 7) ≤ 127) := by omega
        have hy : 1280 ≤ 1280 + (ix - 7) ∧ 1280 + (ix - 7) ≤ 1400 := by omega
        rw [if_neg hn, if_pos hy, ih, Option.map_some]
        have : 1280 + (ix - 7) - 1280 + 7 = ix := by omega
        rw [this]
      · rename_i h6 h127
        rw [specRead]
        rw [if_neg (by omega), if_neg (by omega), if_pos rfl]
        have : ¬ ((ix : Int) < 0) := by omega
        simp only [this, ↓reduceIte, ih, Option.map_some, Int.toNat_natCast]
  have h2 : ∀ kvs : List (PData × PData), specReadKV (specWriteKV kvs) = some kvs →
      specRead (specWrite (map kvs)) = some (map kvs) := by
    intro kvs ih; rw [specWrite, specRead, ih]; rfl
  have h3 : ∀ xs : List PData, specReadL (specWriteL xs) = some xs →
      specRead (specWrite (list xs)) = some (list xs) := by
    intro xs ih; rw [specWrite, specRead, ih]; rfl
  have h4 : ∀ v : Int, specRead (specWrite (int v)) = some (int v) := by
    intro v
    rw [specWrite]
    split
    · rw [specRead]
    · split
      · rename_i hr hp
        rw [specRead]
        rw [if_neg (by omega), if_neg (by omega), if_neg (by omega), if_pos rfl]
        simp only [beNat_natToBytes]
        have : ((v.toNat : Nat) : Int) = v := by omega
        rw [this]
      · rename_i hr hp
        rw [specRead]
        rw [if_neg (by omega), if_neg (by omega), if_neg (by omega), if_neg (by omega), if_pos rfl]
        simp only [beNat_natToBytes]
        have : -1 - (((-1 - v).toNat : Nat) : Int) = v := by omega
        rw [this]
  have h5 : ∀ b : Bytes, specRead (specWrite (bytes b)) = some (bytes b) := by
    intro b
    rw [specWrite]
    split
    · rw [specRead]
    · rw [specRead, chunk64_flatten _ _ (by omega)]
  have h6 : specReadL (specWriteL []) = some [] := by simp [specWriteL, specReadL]
  have h7 : ∀ (head : PData) (tail : List PData), specRead (specWrite head) = some head →
      specReadL (specWriteL tail) = some tail →
      specReadL (specWriteL (head :: tail)) = some (head :: tail) := by
    intro h t ih1 ih2; simp [specWriteL, specReadL, ih1, ih2]
  have h8 : specReadKV (specWriteKV []) = some [] := by simp [specWriteKV, specReadKV]
  have h9 : ∀ (head : PData × PData) (tail : List (PData × PData)),
      (specRead (specWrite head.1) = some head.1 ∧ specRead (specWrite head.2) = some head.2) →
      specReadKV (specWriteKV tail) = some tail →
      specReadKV (specWriteKV (head :: tail)) = some (head :: tail) := by
    intro ⟨a, b⟩ t ih1 ih2; simp [specWriteKV, specReadKV, ih1.1, ih1.2, ih2]
  have h10 : ∀ (a b : PData), specRead (specWrite a) = some a → specRead (specWrite b) = some b →
      (specRead (specWrite (a, b).1) = some (a, b).1 ∧ specRead (specWrite (a, b).2) = some (a, b).2) :=
    fun a b x y => ⟨x, y⟩
  refine ⟨fun d => key h1 h2 h3 h4 h5 h6 h7 h8 h9 h10 d, ?_, ?_⟩
  · intro ds
    induction ds with
    | nil => exact h6
    | cons d ds ih => exact h7 d ds (key h1 h2 h3 h4 h5 h6 h7 h8 h9 h10 d) ih
  · intro kvs
    induction kvs with
    | nil => exact h8
    | cons kv kvs ih =>
      exact h9 kv kvs ⟨key h1 h2 h3 h4 h5 h6 h7 h8 h9 h10 kv.1, key h1 h2 h3 h4 h5 h6 h7 h8 h9 h10 kv.2⟩ ih

/-- **C09 (codec).** A standard Plutus Data reader recovers exactly what was written — for every
constructor index (0–6, 7–127 and beyond), every integer (64-bit or bignum, either sign),
every byte string (short or chunked) and every nesting of lists, maps and records. -/
theorem C09_read_write (d : PData) : specRead (specWrite d) = some d := read_write_aux.1 d

/-- The tag used for a constructor alternative is the standard one. -/
theorem C09_constr_tag (i : Nat) (fs : List PData) :
    specWrite (constr i fs) =
      if i ≤ 6 then .tag (121 + i) (.array (specWriteL fs))
      else if i ≤ 127 then .tag (1280 + (i - 7)) (.array (specWriteL fs))
      else .tag 102 (.array [.int i, .array (specWriteL fs)]) := by
  rw [specWrite]

end PData

/-- **C09 (records and variants).** A record or variant case becomes the constructor with the
case's index and its fields in declaration order; whenever an expression converts at all, a
standard reader gets that value back from the bytes. -/
theorem C09_struct (c : Nat) (fs : List Expr) (ds : List PData) (h : tryAsDataL fs = .ok ds) :
    tryAsData (.node (.struct c) fs) = .ok (.constr c ds) ∧
    PData.specRead (PData.specWrite (.constr c ds)) = some (.constr c ds) := by
  refine ⟨?_, PData.C09_read_write _⟩
  rw [tryAsData, h]; rfl

theorem C09_roundtrip_of_expr (e : Expr) (d : PData) (_h : tryAsData e = .ok d) :
    PData.specRead (PData.specWrite d) = some d := PData.C09_read_write d

/-! ## Non-vacuity: the eighth case of a variant, a 128-bit integer -/

example : PData.specWrite (.constr 7 []) = .tag 1280 (.array []) := by
  simp [PData.specWrite, PData.specWriteL]
example : PData.specRead (PData.specWrite (.constr 200 [.int 5])) = some (.constr 200 [.int 5]) :=
  PData.C09_read_write _
example : tryAsData (.node (.struct 7) [.leaf (.number (2^100))]) = .ok (.constr 7 [.int (2^100)]) := by
  simp [tryAsData, tryAsDataL]; rfl

end Tx3

/-! ## Down to bytes -/

namespace Tx3.PData
open Tx3.Cbor

/-- **C09, bytes.** A standard reader - the RFC 8949 reader followed by the Plutus Data reader - gets every value
back from the bytes written for it, provided the item is within what CBOR heads can carry (`wfb`: list and map
lengths below 2^64; integers beyond 64 bits are written as bignums and byte strings beyond 64 bytes in chunks
by `specWrite` itself). -/
theorem C09_bytes_read_write (d : PData) (h : (specWrite d).wfb = true) :
    (decode (encode (specWrite d))).bind specRead = some d := by
  rw [decode_encode_of_wfb _ h]
  exact C09_read_write d

example : (decode (encode (specWrite (.constr 200 [.int 5, .int (2 ^ 70)])))).bind specRead
    = some (.constr 200 [.int 5, .int (2 ^ 70)]) := by
  apply C09_bytes_read_write
  simp [specWrite, specWriteL, Item.wfb, wfbL, natToBytes]

end Tx3.PData

