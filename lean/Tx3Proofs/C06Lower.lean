import Tx3Model.LangLower
import Tx3Model.SpecTir
import Tx3Proofs.Lemmas.Outcome
import Tx3Proofs.Lemmas.Tir

/-!
# C06 / C07 — what lowering produces meets the hypotheses of the stage theorems

The theorems about the substitution stages and the reducer (`C06_closes`, `C07_reduce_commutes_with_stage`,
`C07_reduce_idempotent`, …) assume `Sealed` / `WF`: a substituted parameter (`Set`) and the expressions kept with a
resolved UTxO are closed values, parameter placeholders carry no children.  Those hypotheses are evaluated by the
driver on every generated template; here they are *proved* for everything the lowering model produces, for every
source expression, input block, context and fuel: lowering never writes a `Set` or a UTxO set, and writes parameter
and fee placeholders without children.
-/

namespace Tx3
open Outcome Expr

namespace Expr

def Kind.freshAt (k : Kind) (cs : List Expr) : Bool :=
  match k with
  | .param .set => false
  | .utxoSet _ => false
  | .param (.expectValue _ _) => cs.isEmpty
  | .param .expectFees => cs.isEmpty
  | _ => true

mutual
/-- No substituted parameter, no UTxO set; value and fee placeholders without children. -/
def freshb : Expr → Bool
  | leaf _ => true
  | node k cs => Kind.freshAt k cs && freshbL cs
def freshbL : List Expr → Bool
  | [] => true
  | c :: cs => freshb c && freshbL cs
end

theorem fresh_sealed_aux :
    (∀ e : Expr, freshb e = true → sealedb e = true) ∧ (∀ es : List Expr, freshbL es = true → sealedbL es = true) := by
  apply Expr.induct
  · intro l _; simp [sealedb]
  · intro k cs ih h
    simp only [freshb, Bool.and_eq_true] at h
    simp only [sealedb, Bool.and_eq_true]
    refine ⟨?_, ih h.2⟩
    have h1 := h.1
    cases k with
    | param p => cases p <;> simp_all [Kind.freshAt, Kind.sealedAtB]
    | utxoSet m => simp [Kind.freshAt] at h1
    | list | map | tuple | struct | assets | builtin | compiler | coerce | adhoc => simp [Kind.sealedAtB]
  · intro _; simp [sealedbL]
  · intro c cs ihc ihcs h
    simp only [freshbL, Bool.and_eq_true] at h
    simp only [sealedbL, Bool.and_eq_true]
    exact ⟨ihc h.1, ihcs h.2⟩

theorem fresh_WF_aux :
    (∀ e : Expr, freshb e = true → WF e = true) ∧ (∀ es : List Expr, freshbL es = true → WFL es = true) := by
  apply Expr.induct
  · intro l _; simp [WF]
  · intro k cs ih h
    simp only [freshb, Bool.and_eq_true] at h
    have h1 := h.1
    cases k with
    | param p => cases p <;> simp_all [Kind.freshAt, WF]
    | utxoSet m => simp [Kind.freshAt] at h1
    | list | map | tuple | struct | assets | builtin | compiler | coerce | adhoc => simp only [WF]; exact ih h.2
  · intro _; simp [WFL]
  · intro c cs ihc ihcs h
    simp only [freshbL, Bool.and_eq_true] at h
    simp only [WFL, Bool.and_eq_true]
    exact ⟨ihc h.1, ihcs h.2⟩

theorem fresh_sealed {e : Expr} (h : freshb e = true) : sealedb e = true := fresh_sealed_aux.1 e h
theorem fresh_WF {e : Expr} (h : freshb e = true) : WF e = true := fresh_WF_aux.1 e h

theorem freshb_leaf (l : Leaf) : freshb (.leaf l) = true := by simp [freshb]

/-- A node of a kind that is neither a parameter nor a UTxO set, over fresh children. -/
theorem freshb_node {k : Kind} {cs : List Expr} (hk : ∀ cs, Kind.freshAt k cs = true) (h : freshbL cs = true) :
    freshb (.node k cs) = true := by simp [freshb, hk cs, h]

theorem freshbL_of_forall {cs : List Expr} (h : ∀ c ∈ cs, freshb c = true) : freshbL cs = true := by
  induction cs with
  | nil => simp [freshbL]
  | cons c cs ih =>
    simp only [freshbL, Bool.and_eq_true]
    exact ⟨h c (by simp), ih (fun x hx => h x (by simp [hx]))⟩

end Expr

theorem mapMO_all {α β} {f : α → Outcome β} {P : β → Prop} :
    ∀ (xs : List α) (ys : List β), mapMO f xs = .ok ys → (∀ x ∈ xs, ∀ y, f x = .ok y → P y) → ∀ y ∈ ys, P y := by
  intro xs
  induction xs with
  | nil => intro ys h _ y hy; simp [mapMO] at h; subst h; cases hy
  | cons x xs ih =>
    intro ys h hf y hy
    simp only [mapMO] at h
    obtain ⟨y0, h0, h⟩ := bind_eq_ok.mp h
    obtain ⟨ys0, h1, h⟩ := bind_eq_ok.mp h
    simp only [pure_eq_ok, Outcome.ok.injEq] at h
    subst h
    rcases List.mem_cons.mp hy with rfl | hy
    · exact hf x (by simp) _ h0
    · exact ih ys0 h1 (fun x' hx' => hf x' (by simp [hx'])) y hy

namespace Lang
open Tx3.Expr

theorem fresh_paramValue (n : String) (t : Ty) : freshb (paramValue n t) = true := by
  simp [paramValue, freshb, Kind.freshAt, freshbL]

theorem fresh_builtin (b : BKind) {cs : List Expr} (h : freshbL cs = true) : freshb (builtin b cs) = true := by
  simp [builtin, freshb, Kind.freshAt, h]

theorem fresh_none' : freshb none' = true := by simp [none', freshb]

/-- **Everything lowering writes is fresh**, for every source expression, list, input block, context and fuel. -/
theorem lower_fresh (s : Scope) : ∀ n : Nat,
    (∀ ctx e t, lowerE s n ctx e = .ok t → freshb t = true) ∧
    (∀ ctx es ts, lowerL s n ctx es = .ok ts → freshbL ts = true) ∧
    (∀ ctx b t, lowerInput s n ctx b = .ok t → freshb t = true) := by
  intro n
  induction n with
  | zero =>
    refine ⟨?_, ?_, ?_⟩
    · intro ctx e t h; simp [lowerE, lerr] at h
    · intro ctx es ts h; simp [lowerL, lerr] at h
    · intro ctx b t h; simp [lowerInput, lerr] at h
  | succ n ih =>
    obtain ⟨ihE, ihL, ihI⟩ := ih
    have two : ∀ {x y : Expr}, freshb x = true → freshb y = true → freshbL [x, y] = true := by
      intro x y hx hy; simp [freshbL, hx, hy]
    have one : ∀ {x : Expr}, freshb x = true → freshbL [x] = true := by
      intro x hx; simp [freshbL, hx]
    refine ⟨?_, ?_, ?_⟩
    · intro ctx e t h
      rw [lowerE.eq_def] at h
      simp only at h
      have fE : ∀ {c : Ctx} {x : LExpr} {y : Expr}, lowerE s n c x = .ok y → freshb y = true := fun hh => ihE _ _ _ hh
      split at h
      · cases h; exact freshb_leaf _
      · cases h; exact freshb_leaf _
      · cases h; exact freshb_leaf _
      · split at h
        · cases h; exact freshb_leaf _
        · simp [lerr] at h
      · cases h; simp [freshb, Kind.freshAt, freshbL]
      · split at h
        · cases h; exact freshb_leaf _
        · simp [lerr] at h
      · -- identifiers
        split at h
        · simp [lerr] at h
        · split at h
          · simp [lerr] at h
          · cases h; exact fresh_paramValue _ _
          · cases h; exact fresh_paramValue _ _
          · cases h; exact fresh_paramValue _ _
          · exact fE h
          · cases h; simp [freshb, Kind.freshAt, freshbL]
          · cases h; exact freshb_leaf _
          · split at h
            · split at h
              · cases h; simp [freshb, Kind.freshAt, freshbL]
              · cases h; exact freshb_leaf _
            · simp [lerr] at h
          · obtain ⟨q, hq, h⟩ := bind_eq_ok.mp h
            have hq' := ihI _ _ _ hq
            split at h
            · cases h; simp [freshb, Kind.freshAt, freshbL, hq']
            · split at h
              · cases h; simp [freshb, Kind.freshAt, freshbL, hq']
              · cases h; exact hq'
          · simp [lerr] at h
      · obtain ⟨x, hx, h⟩ := bind_eq_ok.mp h
        obtain ⟨y, hy, h⟩ := bind_eq_ok.mp h
        cases h; exact fresh_builtin _ (two (fE hx) (fE hy))
      · obtain ⟨x, hx, h⟩ := bind_eq_ok.mp h
        obtain ⟨y, hy, h⟩ := bind_eq_ok.mp h
        cases h; exact fresh_builtin _ (two (fE hx) (fE hy))
      · obtain ⟨x, hx, h⟩ := bind_eq_ok.mp h
        obtain ⟨y, hy, h⟩ := bind_eq_ok.mp h
        cases h; exact fresh_builtin _ (two (fE hx) (fE hy))
      · obtain ⟨x, hx, h⟩ := bind_eq_ok.mp h
        cases h; exact fresh_builtin _ (one (fE hx))
      · -- property access
        obtain ⟨obj, hobj, h⟩ := bind_eq_ok.mp h
        split at h
        · simp [lerr] at h
        · split at h
          · cases h; exact fresh_builtin _ (two (fE hobj) (freshb_leaf _))
          · simp [lerr] at h
      · -- indexing
        obtain ⟨obj, hobj, h⟩ := bind_eq_ok.mp h
        split at h
        · split at h
          · obtain ⟨ix, hix, h⟩ := bind_eq_ok.mp h
            cases h; exact fresh_builtin _ (two (fE hobj) (fE hix))
          · simp [lerr] at h
        · simp [lerr] at h
        · simp [lerr] at h
      · obtain ⟨xs, hxs, h⟩ := bind_eq_ok.mp h
        cases h; exact freshb_node (fun _ => rfl) (ihL _ _ _ hxs)
      · obtain ⟨xs, hxs, h⟩ := bind_eq_ok.mp h
        cases h; exact freshb_node (fun _ => rfl) (ihL _ _ _ hxs)
      · -- record constructors
        split at h
        · simp [lerr] at h
        · split at h
          · simp [lerr] at h
          · split at h
            · simp [lerr] at h
            · obtain ⟨fields, hf, h⟩ := bind_eq_ok.mp h
              cases h
              refine freshb_node (fun _ => rfl) (freshbL_of_forall (mapMO_all _ _ hf (fun fi _ y hy => ?_)))
              split at hy
              · exact fE hy
              · split at hy
                · obtain ⟨t', ht', hy⟩ := bind_eq_ok.mp hy
                  cases hy; exact fresh_builtin _ (two (fE ht') (freshb_leaf _))
                · simp [lerr] at hy
      · obtain ⟨p', hp, h⟩ := bind_eq_ok.mp h
        obtain ⟨n', hn, h⟩ := bind_eq_ok.mp h
        obtain ⟨a', ha, h⟩ := bind_eq_ok.mp h
        cases h
        exact freshb_node (fun _ => rfl) (by simp [freshbL, fE hp, fE hn, fE ha])
      · -- calls
        have comp1 : ∀ (ck : CKind) (args : List LExpr),
            (match args with
              | [a] => (do let x ← lowerE s n ctx a; Outcome.ok (Expr.node (Kind.compiler ck) [x]))
              | _ => lerr "InvalidAst:arity") = .ok t → freshb t = true := by
          intro ck args hh
          split at hh
          · obtain ⟨x, hx, hh⟩ := bind_eq_ok.mp hh
            cases hh; exact freshb_node (fun _ => rfl) (one (fE hx))
          · simp [lerr] at hh
        split at h
        · exact comp1 _ _ h
        · split at h
          · split at h
            · cases h; simp [freshb, Kind.freshAt, freshbL]
            · simp [lerr] at h
          · split at h
            · exact comp1 _ _ h
            · split at h
              · exact comp1 _ _ h
              · split at h
                · simp [lerr] at h
                · split at h
                  · split at h
                    · obtain ⟨pn, hpn, h⟩ := bind_eq_ok.mp h
                      obtain ⟨a', ha, h⟩ := bind_eq_ok.mp h
                      cases h
                      have hpn' : freshb pn.1 = true ∧ freshb pn.2 = true := by
                        split at hpn
                        · cases hpn; exact ⟨fresh_none', fresh_none'⟩
                        · obtain ⟨p', hp, hpn⟩ := bind_eq_ok.mp hpn
                          obtain ⟨n', hn, hpn⟩ := bind_eq_ok.mp hpn
                          cases hpn; exact ⟨fE hp, fE hn⟩
                      exact freshb_node (fun _ => rfl) (by simp [freshbL, hpn'.1, hpn'.2, fE ha])
                    · simp [lerr] at h
                  · simp [lerr] at h
      · simp [lerr] at h
    · intro ctx es ts h
      cases es with
      | nil => simp [lowerL] at h; subst h; simp [freshbL]
      | cons c cs =>
        rw [lowerL] at h
        obtain ⟨x, hx, h⟩ := bind_eq_ok.mp h
        obtain ⟨xs, hxs, h⟩ := bind_eq_ok.mp h
        cases h
        simp only [freshbL, Bool.and_eq_true]
        exact ⟨ihE _ _ _ hx, by
          -- the rest of the list is lowered with the same fuel: by induction on the list
          have : ∀ (cs : List LExpr) (xs : List Expr), lowerL s (n + 1) ctx cs = .ok xs → freshbL xs = true := by
            intro cs
            induction cs with
            | nil => intro xs hh; simp [lowerL] at hh; subst hh; simp [freshbL]
            | cons c cs ihc =>
              intro xs hh
              rw [lowerL] at hh
              obtain ⟨x, hx, hh⟩ := bind_eq_ok.mp hh
              obtain ⟨xs', hxs', hh⟩ := bind_eq_ok.mp hh
              cases hh
              simp only [freshbL, Bool.and_eq_true]
              exact ⟨ihE _ _ _ hx, ihc _ hxs'⟩
          exact this _ _ hxs⟩
    · intro ctx b t h
      rw [lowerInput] at h
      simp only [] at h
      obtain ⟨a1, h1, h⟩ := bind_eq_ok.mp h
      obtain ⟨a2, h2, h⟩ := bind_eq_ok.mp h
      obtain ⟨a3, h3, h⟩ := bind_eq_ok.mp h
      cases h
      have opt : ∀ (c : Ctx) (o : Option LExpr) (a : Expr),
          (match o with | some x => lowerE s n c x | none => Outcome.ok none') = .ok a → freshb a = true := by
        intro c o a hh
        cases o with
        | none => cases hh; exact fresh_none'
        | some x => exact ihE _ _ _ hh
      simp [freshb, Kind.freshAt, freshbL, opt _ _ _ h1, opt _ _ _ h2, opt _ _ _ h3]

theorem lowerOpt_fresh (s : Scope) (c : Ctx) (e : Option LExpr) (t : Expr) (h : lowerOpt s c e = .ok t) :
    freshb t = true := by
  unfold lowerOpt at h
  cases e with
  | none => cases h; exact fresh_none'
  | some x => exact (lower_fresh s _).1 _ _ _ h

/-- **Every slot of a lowered transaction is fresh**, hence `Sealed` and `WF`: the hypotheses of the stage and
reducer theorems hold for whatever the lowering model produces. -/
theorem lowerTx_fresh (s : Scope) (t : Tx) (h : lowerTx s = .ok t) : ∀ e ∈ t.slots, freshb e = true := by
  unfold lowerTx at h
  simp only [] at h
  obtain ⟨references, hrefs, h⟩ := bind_eq_ok.mp h
  obtain ⟨inputs, hins, h⟩ := bind_eq_ok.mp h
  obtain ⟨outputs, houts, h⟩ := bind_eq_ok.mp h
  obtain ⟨validity, hval, h⟩ := bind_eq_ok.mp h
  obtain ⟨mints, hmints, h⟩ := bind_eq_ok.mp h
  obtain ⟨burns, hburns, h⟩ := bind_eq_ok.mp h
  obtain ⟨signers, hsig, h⟩ := bind_eq_ok.mp h
  obtain ⟨metadata, hmeta, h⟩ := bind_eq_ok.mp h
  obtain ⟨collateral, hcoll, h⟩ := bind_eq_ok.mp h
  cases h
  have fE := (lower_fresh s (lowerFuel s)).1
  have fI := (lower_fresh s (lowerFuel s)).2.2
  have hR : ∀ e ∈ references, freshb e = true :=
    mapMO_all _ _ hrefs (fun r _ y hy => fE _ _ _ hy)
  have hI : ∀ i ∈ inputs, freshb i.utxos = true ∧ freshb i.redeemer = true :=
    mapMO_all (P := fun (i : Input) => freshb i.utxos = true ∧ freshb i.redeemer = true) _ _ hins (fun b _ y hy => by
      obtain ⟨q, hq, hy⟩ := bind_eq_ok.mp hy
      obtain ⟨red, hred, hy⟩ := bind_eq_ok.mp hy
      cases hy
      exact ⟨fI _ _ _ hq, lowerOpt_fresh s _ _ _ hred⟩)
  have hO : ∀ o ∈ outputs, freshb o.address = true ∧ freshb o.datum = true ∧ freshb o.amount = true :=
    mapMO_all (P := fun (o : Output) => freshb o.address = true ∧ freshb o.datum = true ∧ freshb o.amount = true) _ _ houts
      (fun b _ y hy => by
        obtain ⟨a1, h1, hy⟩ := bind_eq_ok.mp hy
        obtain ⟨a2, h2, hy⟩ := bind_eq_ok.mp hy
        obtain ⟨a3, h3, hy⟩ := bind_eq_ok.mp hy
        cases hy
        exact ⟨lowerOpt_fresh s _ _ _ h1, lowerOpt_fresh s _ _ _ h2, lowerOpt_fresh s _ _ _ h3⟩)
  have mintOK : ∀ (l : List MintBlock) (ms : List Mint),
      mapMO (fun (m : MintBlock) => (do
        let amount ← lowerOpt s {} m.amount
        let redeemer ← lowerOpt s {} m.redeemer
        Outcome.ok ({ amount, redeemer } : Mint))) l = .ok ms →
      ∀ m ∈ ms, freshb m.amount = true ∧ freshb m.redeemer = true := fun l ms hm =>
    mapMO_all (P := fun (m : Mint) => freshb m.amount = true ∧ freshb m.redeemer = true) _ _ hm (fun b _ y hy => by
      obtain ⟨a1, h1, hy⟩ := bind_eq_ok.mp hy
      obtain ⟨a2, h2, hy⟩ := bind_eq_ok.mp hy
      cases hy
      exact ⟨lowerOpt_fresh s _ _ _ h1, lowerOpt_fresh s _ _ _ h2⟩)
  have hM := mintOK _ _ hmints
  have hB := mintOK _ _ hburns
  have hMd : ∀ m ∈ metadata, freshb m.key = true ∧ freshb m.value = true :=
    mapMO_all (P := fun (m : Metadata) => freshb m.key = true ∧ freshb m.value = true) _ _ hmeta (fun b _ y hy => by
      obtain ⟨a1, h1, hy⟩ := bind_eq_ok.mp hy
      obtain ⟨a2, h2, hy⟩ := bind_eq_ok.mp hy
      cases hy
      exact ⟨fE _ _ _ h1, fE _ _ _ h2⟩)
  have hS : ∀ e ∈ (match signers with | some l => l | none => []), freshb e = true := by
    cases hts : s.tx.signers with
    | none => rw [hts] at hsig; cases hsig; intro e he; cases he
    | some l =>
      rw [hts] at hsig
      obtain ⟨xs, hxs, hsig⟩ := bind_eq_ok.mp hsig
      cases hsig
      exact mapMO_all _ _ hxs (fun r _ y hy => fE _ _ _ hy)
  have hV : ∀ e ∈ (match validity with | some (a, b) => [a, b] | none => []), freshb e = true := by
    cases htv : s.tx.validity with
    | none => rw [htv] at hval; cases hval; intro e he; cases he
    | some ab =>
      obtain ⟨a, b⟩ := ab
      rw [htv] at hval
      obtain ⟨x, hx, hval⟩ := bind_eq_ok.mp hval
      obtain ⟨y, hy, hval⟩ := bind_eq_ok.mp hval
      cases hval
      intro e he
      simp only [List.mem_cons, List.not_mem_nil, or_false] at he
      rcases he with rfl | rfl
      · exact lowerOpt_fresh s _ _ _ hx
      · exact lowerOpt_fresh s _ _ _ hy
  have hC : ∀ e ∈ collateral, freshb e = true := by
    cases htc : s.tx.collateral with
    | none => rw [htc] at hcoll; cases hcoll; intro e he; cases he
    | some b =>
      rw [htc] at hcoll
      obtain ⟨a1, h1, hcoll⟩ := bind_eq_ok.mp hcoll
      obtain ⟨a2, h2, hcoll⟩ := bind_eq_ok.mp hcoll
      obtain ⟨a3, h3, hcoll⟩ := bind_eq_ok.mp hcoll
      cases hcoll
      intro e he
      simp only [List.mem_cons, List.not_mem_nil, or_false] at he
      subst he
      simp [freshb, Kind.freshAt, freshbL, lowerOpt_fresh s _ _ _ h1, lowerOpt_fresh s _ _ _ h2,
        lowerOpt_fresh s _ _ _ h3]
  intro e he
  unfold Tx.slots at he
  rcases List.mem_append.mp he with he | he
  rotate_left
  · exact hC e he
  rcases List.mem_append.mp he with he | he
  rotate_left
  · exact hR e he
  rcases List.mem_append.mp he with he | he
  rotate_left
  · obtain ⟨m, hm, he⟩ := List.mem_flatMap.mp he
    simp only [List.mem_cons, List.not_mem_nil, or_false] at he
    rcases he with rfl | rfl
    · exact (hMd m hm).1
    · exact (hMd m hm).2
  rcases List.mem_append.mp he with he | he
  rotate_left
  · exact hV e he
  rcases List.mem_append.mp he with he | he
  rotate_left
  · exact hS e he
  rcases List.mem_append.mp he with he | he
  rotate_left
  · cases he
  rcases List.mem_append.mp he with he | he
  rotate_left
  · simp only [List.mem_cons, List.not_mem_nil, or_false] at he
    subst he
    simp [freshb, Kind.freshAt, freshbL]
  rcases List.mem_append.mp he with he | he
  rotate_left
  · obtain ⟨m, hm, he⟩ := List.mem_flatMap.mp he
    simp only [List.mem_cons, List.not_mem_nil, or_false] at he
    rcases he with rfl | rfl
    · exact (hB m hm).1
    · exact (hB m hm).2
  rcases List.mem_append.mp he with he | he
  rotate_left
  · obtain ⟨m, hm, he⟩ := List.mem_flatMap.mp he
    simp only [List.mem_cons, List.not_mem_nil, or_false] at he
    rcases he with rfl | rfl
    · exact (hM m hm).1
    · exact (hM m hm).2
  rcases List.mem_append.mp he with he | he
  · obtain ⟨i, hi, he⟩ := List.mem_flatMap.mp he
    simp only [List.mem_cons, List.not_mem_nil, or_false] at he
    rcases he with rfl | rfl
    · exact (hI i hi).1
    · exact (hI i hi).2
  · obtain ⟨o, ho, he⟩ := List.mem_flatMap.mp he
    simp only [List.mem_cons, List.not_mem_nil, or_false] at he
    rcases he with rfl | rfl | rfl
    · exact (hO o ho).1
    · exact (hO o ho).2.1
    · exact (hO o ho).2.2

/-- The hypotheses of the stage theorems, for every lowered transaction. -/
theorem lowerTx_sealed_WF (s : Scope) (t : Tx) (h : lowerTx s = .ok t) :
    ∀ e ∈ t.slots, sealedb e = true ∧ WF e = true :=
  fun e he => ⟨fresh_sealed (lowerTx_fresh s t h e he), fresh_WF (lowerTx_fresh s t h e he)⟩

end Lang
end Tx3
