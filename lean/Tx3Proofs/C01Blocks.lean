import Tx3Proofs.C04Body
import Tx3Proofs.Lemmas.Sort

/-!
# C01 — the compile stage lists every UTxO its blocks hold, whatever the UTxO holds

`C04_body_inputs_exact` says it for the spent inputs.  Here the same for the two other blocks that hold UTxOs - the
collateral and the reference inputs - and the consequence the checks look for on the real payload (clauses
`denotes:collateral`, `denotes:reference-inputs` of the compile judge, run by C01): a UTxO that is in the set a block
was given is in the body's field, with no condition on its assets or datum (the model of `compile_collateral` never
reads them; a change that makes the real function read them - seed C01-10 - disagrees with it on the `utxo-contents`
family).  Also: a position that holds one number accepts a number or a value with exactly one entry, nothing else
(`C02_scalar_shape`, the model side of clause `exact:<position>:not-a-number-accepted`).
-/

namespace Tx3
open Outcome

/-- The references of all collateral blocks, in block order. -/
def Tx.collateralRefs (t : Tx) : List UtxoRef := (t.collateral.filter fun e => !e.isNone).flatMap refsOrNothing

theorem C01_collateral_exact {t : Tx} {l : List TxIn} (h : compileCollateral t = .ok l) :
    l = t.collateralRefs.map toTxIn :=
  mapMO_utxoRefIntoInput h

theorem C01_reference_inputs_exact {t : Tx} {l : List TxIn} (h : compileReferenceInputs t = .ok l) :
    l = (t.references.flatMap refsOrNothing).map toTxIn :=
  mapMO_utxoRefIntoInput h

theorem refsOrNothing_utxoSet (metas : List UtxoMeta) (cs : List Expr) (m : UtxoMeta) (hm : m ∈ metas) :
    m.ref ∈ refsOrNothing (.node (.utxoSet metas) cs) := by
  unfold refsOrNothing exprIntoUtxoRefs
  simp only
  exact (sortBy_perm _ _).mem_iff.mpr (List.mem_map.mpr ⟨m, hm, rfl⟩)

/-- **Every UTxO a collateral block holds is pledged**: no condition on what it holds. -/
theorem C01_collateral_member {t : Tx} {l : List TxIn} (h : compileCollateral t = .ok l)
    (metas : List UtxoMeta) (cs : List Expr) (hb : Expr.node (.utxoSet metas) cs ∈ t.collateral)
    (m : UtxoMeta) (hm : m ∈ metas) : toTxIn m.ref ∈ l := by
  rw [C01_collateral_exact h]
  refine List.mem_map.mpr ⟨m.ref, ?_, rfl⟩
  unfold Tx.collateralRefs
  refine List.mem_flatMap.mpr ⟨_, ?_, refsOrNothing_utxoSet metas cs m hm⟩
  exact List.mem_filter.mpr ⟨hb, by simp [Expr.isNone]⟩

/-- **Every UTxO a reference block holds is read.** -/
theorem C01_reference_member {t : Tx} {l : List TxIn} (h : compileReferenceInputs t = .ok l)
    (metas : List UtxoMeta) (cs : List Expr) (hb : Expr.node (.utxoSet metas) cs ∈ t.references)
    (m : UtxoMeta) (hm : m ∈ metas) : toTxIn m.ref ∈ l := by
  rw [C01_reference_inputs_exact h]
  exact List.mem_map.mpr ⟨m.ref, List.mem_flatMap.mpr ⟨_, hb, refsOrNothing_utxoSet metas cs m hm⟩, rfl⟩

/-- **Nothing else is pledged**: a member of the body's collateral is a reference of some collateral block. -/
theorem C01_collateral_only {t : Tx} {l : List TxIn} (h : compileCollateral t = .ok l) (x : TxIn) (hx : x ∈ l) :
    ∃ e ∈ t.collateral, ∃ r ∈ refsOrNothing e, x = toTxIn r := by
  rw [C01_collateral_exact h] at hx
  obtain ⟨r, hr, rfl⟩ := List.mem_map.mp hx
  obtain ⟨e, he, hre⟩ := List.mem_flatMap.mp hr
  exact ⟨e, (List.mem_filter.mp he).1, r, hre, rfl⟩

/-- The shapes `expr_into_number` accepts: a number, or a value with exactly one entry whose amount is again
such a shape - to any depth (`Ada(fees)`, `Ada(Ada(fees))`, ...). -/
inductive ScalarOf : Expr → Int → Prop
  | num (n : Int) : ScalarOf (.leaf (.number n)) n
  | one (p a e : Expr) (n : Int) : ScalarOf e n → ScalarOf (.node .assets [p, a, e]) n

/-- **A position that holds one number**: `expr_into_number` answers `n` exactly on the shapes `ScalarOf _ n`
(no bound on the nesting); a value of no class or of several classes is refused. -/
theorem C02_scalar_shape (e : Expr) (n : Int) : exprIntoNumber e = .ok n ↔ ScalarOf e n := by
  constructor
  · intro h
    fun_induction exprIntoNumber e with
    | case1 m => cases h; exact .num _
    | case2 p a e ih => exact .one _ _ _ _ (ih h)
    | case3 e h1 h2 => cases h
  · intro h
    induction h with
    | num n => simp [exprIntoNumber]
    | one p a e n _ ih => simp [exprIntoNumber, ih]

/-- Whatever it is given, `expr_into_number` answers a number or the one coercion error - never anything else. -/
theorem C02_scalar_total (e : Expr) :
    (∃ n, exprIntoNumber e = .ok n) ∨ exprIntoNumber e = .err "CoerceError:Number" := exprIntoNumber_total e

theorem C02_no_class_refused : exprIntoNumber (.node .assets []) = .err "CoerceError:Number" := by
  simp [exprIntoNumber]

theorem C02_two_classes_refused (p a q p' a' q' : Expr) :
    exprIntoNumber (.node .assets [p, a, q, p', a', q']) = .err "CoerceError:Number" := by
  simp [exprIntoNumber]

/-- Non-vacuity: a number three entries deep is read. -/
example : exprIntoNumber (.node .assets [.leaf .none, .leaf .none, .node .assets [.leaf .none, .leaf .none,
    .node .assets [.leaf .none, .leaf .none, .leaf (.number 7)]]]) = .ok 7 := by simp [exprIntoNumber]

/-- `k` one-entry values around an expression (`Ada(Ada(..e..))`, any class at each level). -/
def nestOne : List (Expr × Expr) → Expr → Expr
  | [], e => e
  | (p, a) :: rest, e => .node .assets [p, a, nestOne rest e]

/-- **Wrapping does not change the number read**: through any number of one-entry values, of any classes, a
one-number position reads exactly what the innermost expression denotes - the same number or the same refusal. -/
theorem C02_scalar_nest (ws : List (Expr × Expr)) (e : Expr) :
    exprIntoNumber (nestOne ws e) = exprIntoNumber e := by
  induction ws with
  | nil => rfl
  | cons w rest ih => obtain ⟨p, a⟩ := w; simp only [nestOne]; rw [exprIntoNumber_one, ih]

end Tx3
