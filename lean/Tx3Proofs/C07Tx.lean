import Tx3Proofs.C07Confluence
import Tx3Proofs.C11Roundtrip

/-!
# C07 — reduction commutes with every stage, for whole transactions

`Tx.reduce` maps the reducer over every expression slot (`Tx.mapM`), the stages map their substitution over
every slot (`Tx.map`).  A three-way relation that holds slot by slot lifts through the eleven fields.
-/

namespace Tx3
open Outcome Expr Tx3.Wire

section lift
variable {f1 f2 f3 : Expr → Outcome Expr} {g : Expr → Expr} {P : Expr → Prop}

/-- The slot-wise relation. -/
def Rel3 (f1 f2 f3 : Expr → Outcome Expr) (g : Expr → Expr) (e : Expr) : Prop :=
  ∀ r a b, f1 e = .ok r → f2 (g e) = .ok a → f3 (g r) = .ok b → a = b

theorem mapMO_rel {α : Type} (F1 F2 F3 : α → Outcome α) (G : α → α) :
    ∀ (l lr la lb : List α),
      (∀ x ∈ l, ∀ r a b, F1 x = .ok r → F2 (G x) = .ok a → F3 (G r) = .ok b → a = b) →
      mapMO F1 l = .ok lr → mapMO F2 (l.map G) = .ok la → mapMO F3 (lr.map G) = .ok lb → la = lb := by
  intro l
  induction l with
  | nil =>
    intro lr la lb _ h1 ha hb
    rw [mapMO] at h1; cases h1
    simp only [List.map_nil] at ha hb
    rw [mapMO] at ha hb; cases ha; cases hb; rfl
  | cons x xs ih =>
    intro lr la lb hx h1 ha hb
    rw [mapMO] at h1
    obtain ⟨r, hr, h1⟩ := bind_eq_ok.mp h1
    obtain ⟨rs, hrs, h1⟩ := bind_eq_ok.mp h1
    cases h1
    simp only [List.map_cons] at ha hb
    rw [mapMO] at ha hb
    obtain ⟨a, ha1, ha⟩ := bind_eq_ok.mp ha
    obtain ⟨as, has, ha⟩ := bind_eq_ok.mp ha
    cases ha
    obtain ⟨b, hb1, hb⟩ := bind_eq_ok.mp hb
    obtain ⟨bs, hbs, hb⟩ := bind_eq_ok.mp hb
    cases hb
    rw [hx x (by simp) r a b hr ha1 hb1, ih rs as bs (fun y hy => hx y (by simp [hy])) hrs has hbs]

end lift

/-- Lifting a slot-wise three-way relation to transactions. -/
theorem Tx.mapM_rel (f1 f2 f3 : Expr → Outcome Expr) (g : Expr → Expr) (t tr ta tb : Tx)
    (hrel : ∀ e ∈ t.slots, Rel3 f1 f2 f3 g e)
    (h : t.mapM f1 = .ok tr) (ha : (t.map g).mapM f2 = .ok ta) (hb : (tr.map g).mapM f3 = .ok tb) : ta = tb := by
  unfold Tx.mapM at h ha hb
  obtain ⟨refs1, hrefs1, h⟩ := bind_eq_ok.mp h
  obtain ⟨ins1, hins1, h⟩ := bind_eq_ok.mp h
  obtain ⟨outs1, houts1, h⟩ := bind_eq_ok.mp h
  obtain ⟨val1, hval1, h⟩ := bind_eq_ok.mp h
  obtain ⟨mints1, hmints1, h⟩ := bind_eq_ok.mp h
  obtain ⟨burns1, hburns1, h⟩ := bind_eq_ok.mp h
  obtain ⟨fees1, hfees1, h⟩ := bind_eq_ok.mp h
  obtain ⟨adhoc1, hadhoc1, h⟩ := bind_eq_ok.mp h
  obtain ⟨coll1, hcoll1, h⟩ := bind_eq_ok.mp h
  obtain ⟨sig1, hsig1, h⟩ := bind_eq_ok.mp h
  obtain ⟨md1, hmd1, h⟩ := bind_eq_ok.mp h
  cases h
  simp only [Tx.map] at ha hb
  obtain ⟨refs2, hrefs2, ha⟩ := bind_eq_ok.mp ha
  obtain ⟨ins2, hins2, ha⟩ := bind_eq_ok.mp ha
  obtain ⟨outs2, houts2, ha⟩ := bind_eq_ok.mp ha
  obtain ⟨val2, hval2, ha⟩ := bind_eq_ok.mp ha
  obtain ⟨mints2, hmints2, ha⟩ := bind_eq_ok.mp ha
  obtain ⟨burns2, hburns2, ha⟩ := bind_eq_ok.mp ha
  obtain ⟨fees2, hfees2, ha⟩ := bind_eq_ok.mp ha
  obtain ⟨adhoc2, hadhoc2, ha⟩ := bind_eq_ok.mp ha
  obtain ⟨coll2, hcoll2, ha⟩ := bind_eq_ok.mp ha
  obtain ⟨sig2, hsig2, ha⟩ := bind_eq_ok.mp ha
  obtain ⟨md2, hmd2, ha⟩ := bind_eq_ok.mp ha
  cases ha
  obtain ⟨refs3, hrefs3, hb⟩ := bind_eq_ok.mp hb
  obtain ⟨ins3, hins3, hb⟩ := bind_eq_ok.mp hb
  obtain ⟨outs3, houts3, hb⟩ := bind_eq_ok.mp hb
  obtain ⟨val3, hval3, hb⟩ := bind_eq_ok.mp hb
  obtain ⟨mints3, hmints3, hb⟩ := bind_eq_ok.mp hb
  obtain ⟨burns3, hburns3, hb⟩ := bind_eq_ok.mp hb
  obtain ⟨fees3, hfees3, hb⟩ := bind_eq_ok.mp hb
  obtain ⟨adhoc3, hadhoc3, hb⟩ := bind_eq_ok.mp hb
  obtain ⟨coll3, hcoll3, hb⟩ := bind_eq_ok.mp hb
  obtain ⟨sig3, hsig3, hb⟩ := bind_eq_ok.mp hb
  obtain ⟨md3, hmd3, hb⟩ := bind_eq_ok.mp hb
  cases hb
  -- plain lists of expressions
  have eRefs : refs2 = refs3 := mapMO_rel f1 f2 f3 g _ _ _ _
    (fun e he => hrel e (mem_slots_refs he)) hrefs1 hrefs2 hrefs3
  have eAdhoc : adhoc2 = adhoc3 := mapMO_rel f1 f2 f3 g _ _ _ _
    (fun e he => hrel e (mem_slots_adhoc he)) hadhoc1 hadhoc2 hadhoc3
  have eColl : coll2 = coll3 := mapMO_rel f1 f2 f3 g _ _ _ _
    (fun e he => hrel e (mem_slots_coll he)) hcoll1 hcoll2 hcoll3
  have eFees : fees2 = fees3 := hrel _ (mem_slots_fees t) _ _ _ hfees1 hfees2 hfees3
  -- inputs
  have eIns : ins2 = ins3 := by
    refine mapMO_rel _ _ _ (fun (i : Input) => { i with utxos := g i.utxos, redeemer := g i.redeemer }) _ _ _ _ ?_ hins1 hins2 hins3
    intro i hi r a b h1 h2 h3
    obtain ⟨u1, hu1, h1⟩ := bind_eq_ok.mp h1
    obtain ⟨r1, hr1, h1⟩ := bind_eq_ok.mp h1
    cases h1
    obtain ⟨u2, hu2, h2⟩ := bind_eq_ok.mp h2
    obtain ⟨r2, hr2, h2⟩ := bind_eq_ok.mp h2
    cases h2
    obtain ⟨u3, hu3, h3⟩ := bind_eq_ok.mp h3
    obtain ⟨r3, hr3, h3⟩ := bind_eq_ok.mp h3
    cases h3
    have := mem_slots_input hi
    rw [hrel _ this.1 _ _ _ hu1 hu2 hu3, hrel _ this.2 _ _ _ hr1 hr2 hr3]
  -- outputs
  have eOuts : outs2 = outs3 := by
    refine mapMO_rel _ _ _ (fun (o : Output) => { o with address := g o.address, datum := g o.datum, amount := g o.amount }) _ _ _ _ ?_ houts1 houts2 houts3
    intro o ho r a b h1 h2 h3
    obtain ⟨a1, ha1, h1⟩ := bind_eq_ok.mp h1
    obtain ⟨d1, hd1, h1⟩ := bind_eq_ok.mp h1
    obtain ⟨m1, hm1, h1⟩ := bind_eq_ok.mp h1
    cases h1
    obtain ⟨a2, ha2, h2⟩ := bind_eq_ok.mp h2
    obtain ⟨d2, hd2, h2⟩ := bind_eq_ok.mp h2
    obtain ⟨m2, hm2, h2⟩ := bind_eq_ok.mp h2
    cases h2
    obtain ⟨a3, ha3, h3⟩ := bind_eq_ok.mp h3
    obtain ⟨d3, hd3, h3⟩ := bind_eq_ok.mp h3
    obtain ⟨m3, hm3, h3⟩ := bind_eq_ok.mp h3
    cases h3
    have := mem_slots_output ho
    rw [hrel _ this.1 _ _ _ ha1 ha2 ha3, hrel _ this.2.1 _ _ _ hd1 hd2 hd3, hrel _ this.2.2 _ _ _ hm1 hm2 hm3]
  -- mints, burns, metadata
  have mintRel : ∀ (l l1 l2 l3 : List Mint), (∀ m ∈ l, m.amount ∈ t.slots ∧ m.redeemer ∈ t.slots) →
      mapMO (fun (m : Mint) => do
        let a ← f1 m.amount; let r ← f1 m.redeemer; pure ({ amount := a, redeemer := r } : Mint)) l = .ok l1 →
      mapMO (fun (m : Mint) => do
        let a ← f2 m.amount; let r ← f2 m.redeemer; pure ({ amount := a, redeemer := r } : Mint))
        (l.map fun m => { amount := g m.amount, redeemer := g m.redeemer }) = .ok l2 →
      mapMO (fun (m : Mint) => do
        let a ← f3 m.amount; let r ← f3 m.redeemer; pure ({ amount := a, redeemer := r } : Mint))
        (l1.map fun m => { amount := g m.amount, redeemer := g m.redeemer }) = .ok l3 → l2 = l3 := by
    intro l l1 l2 l3 hmem h1 h2 h3
    refine mapMO_rel _ _ _ (fun (m : Mint) => ({ amount := g m.amount, redeemer := g m.redeemer } : Mint)) _ _ _ _ ?_ h1 h2 h3
    intro m hm r a b h1 h2 h3
    obtain ⟨a1, ha1, h1⟩ := bind_eq_ok.mp h1
    obtain ⟨r1, hr1, h1⟩ := bind_eq_ok.mp h1
    cases h1
    obtain ⟨a2, ha2, h2⟩ := bind_eq_ok.mp h2
    obtain ⟨r2, hr2, h2⟩ := bind_eq_ok.mp h2
    cases h2
    obtain ⟨a3, ha3, h3⟩ := bind_eq_ok.mp h3
    obtain ⟨r3, hr3, h3⟩ := bind_eq_ok.mp h3
    cases h3
    have := hmem m hm
    rw [hrel _ this.1 _ _ _ ha1 ha2 ha3, hrel _ this.2 _ _ _ hr1 hr2 hr3]
  have eMints : mints2 = mints3 := mintRel _ _ _ _ (fun m hm => mem_slots_mint hm) hmints1 hmints2 hmints3
  have eBurns : burns2 = burns3 := mintRel _ _ _ _ (fun m hm => mem_slots_burn hm) hburns1 hburns2 hburns3
  have eMd : md2 = md3 := by
    refine mapMO_rel _ _ _ (fun (m : Metadata) => ({ key := g m.key, value := g m.value } : Metadata)) _ _ _ _ ?_ hmd1 hmd2 hmd3
    intro m hm r a b h1 h2 h3
    obtain ⟨a1, ha1, h1⟩ := bind_eq_ok.mp h1
    obtain ⟨r1, hr1, h1⟩ := bind_eq_ok.mp h1
    cases h1
    obtain ⟨a2, ha2, h2⟩ := bind_eq_ok.mp h2
    obtain ⟨r2, hr2, h2⟩ := bind_eq_ok.mp h2
    cases h2
    obtain ⟨a3, ha3, h3⟩ := bind_eq_ok.mp h3
    obtain ⟨r3, hr3, h3⟩ := bind_eq_ok.mp h3
    cases h3
    have := mem_slots_metadata hm
    rw [hrel _ this.1 _ _ _ ha1 ha2 ha3, hrel _ this.2 _ _ _ hr1 hr2 hr3]
  -- validity and signers
  have eVal : val2 = val3 := by
    cases hv : t.validity with
    | none =>
      simp only [hv, Option.map_none] at hval1 hval2
      cases hval1
      simp only [Option.map_none] at hval3
      cases hval2; cases hval3; rfl
    | some ab =>
      obtain ⟨x, y⟩ := ab
      simp only [hv, Option.map_some] at hval1 hval2
      obtain ⟨x1, hx1, hval1⟩ := bind_eq_ok.mp hval1
      obtain ⟨y1, hy1, hval1⟩ := bind_eq_ok.mp hval1
      cases hval1
      simp only [Option.map_some] at hval3
      obtain ⟨x2, hx2, hval2⟩ := bind_eq_ok.mp hval2
      obtain ⟨y2, hy2, hval2⟩ := bind_eq_ok.mp hval2
      cases hval2
      obtain ⟨x3, hx3, hval3⟩ := bind_eq_ok.mp hval3
      obtain ⟨y3, hy3, hval3⟩ := bind_eq_ok.mp hval3
      cases hval3
      have := mem_slots_validity hv
      rw [hrel _ this.1 _ _ _ hx1 hx2 hx3, hrel _ this.2 _ _ _ hy1 hy2 hy3]
  have eSig : sig2 = sig3 := by
    cases hs : t.signers with
    | none =>
      simp only [hs, Option.map_none] at hsig1 hsig2
      cases hsig1
      simp only [Option.map_none] at hsig3
      cases hsig2; cases hsig3; rfl
    | some sg =>
      simp only [hs, Option.map_some] at hsig1 hsig2
      obtain ⟨s1, hs1, hsig1⟩ := bind_eq_ok.mp hsig1
      cases hsig1
      simp only [Option.map_some] at hsig3
      obtain ⟨s2, hs2, hsig2⟩ := bind_eq_ok.mp hsig2
      cases hsig2
      obtain ⟨s3, hs3, hsig3⟩ := bind_eq_ok.mp hsig3
      cases hsig3
      rw [mapMO_rel f1 f2 f3 g _ _ _ _ (fun e he => hrel e (mem_slots_signer hs he)) hs1 hs2 hs3]
  rw [eRefs, eAdhoc, eColl, eFees, eIns, eOuts, eMints, eBurns, eMd, eVal, eSig]

/-- **C07, for transactions.** For every stage `s`, if `reduce` answers `tr` on the template `t`, `ta` on `s t`
and `tb` on `s tr`, then `ta = tb`: whether a reduction is placed before a stage or not, the template after the
next reduction is the same. -/
theorem C07_tx_reduce_commutes_with_stage (s : Stage) (hv : s.ValuesNF) (t tr ta tb : Tx)
    (hw : ∀ e ∈ t.slots, WF e = true ∧ Sealed e)
    (h : t.reduce = .ok tr) (ha : (s.onTx t).reduce = .ok ta) (hb : (s.onTx tr).reduce = .ok tb) : ta = tb := by
  unfold Tx.reduce Stage.onTx at *
  refine Tx.mapM_rel Expr.reduce Expr.reduce Expr.reduce s.onExpr t tr ta tb ?_ h ha hb
  intro e he r a b h1 h2 h3
  exact C07_reduce_then_stage s hv e r a b (hw e he).1 (hw e he).2 h1 h2 h3

end Tx3
