import Tx3Proofs.C01Datum

/-!
# C01 / C08 / C09 — map literals keep their entries in the order written

`{ k1: v1, k2: v2, … }` with keys and values from the data fragment of `C01Datum`: lowering, applying the arguments,
reducing and converting yields the Plutus Data map whose entries are `(den k1, den v1), (den k2, den v2), …` **in the
order written** - a Plutus map is an association list, its order is part of the value (the clause seed C08-09, which
sorted the entries of a map-valued redeemer, went against).
-/

namespace Tx3.Lang
open Tx3 Tx3.Expr Outcome

/-- Keys and values, interleaved as the syntax tree holds them. -/
def flatKV : List (DExp × DExp) → List DExp
  | [] => []
  | kv :: rest => kv.1 :: kv.2 :: flatKV rest

def pairUp : List PData → List (PData × PData)
  | a :: b :: rest => (a, b) :: pairUp rest
  | _ => []

theorem pairUp_flatKV (s : Scope) (ints : String → Int) : ∀ kvs : List (DExp × DExp),
    pairUp ((flatKV kvs).map (DExp.den s ints)) = kvs.map fun kv => (kv.1.den s ints, kv.2.den s ints)
  | [] => by simp [flatKV, pairUp]
  | kv :: rest => by simp [flatKV, pairUp, pairUp_flatKV s ints rest]

/-- `try_as_data` over the flattened entries, two at a time. -/
theorem tryAsDataKV_of_mapMO : ∀ (n : Nat) (rs : List Expr) (ds : List PData), rs.length = 2 * n →
    mapMO tryAsData rs = .ok ds → tryAsDataKV rs = .ok (pairUp ds)
  | 0, rs, ds, hl, h => by
    have : rs = [] := List.eq_nil_of_length_eq_zero (by omega)
    subst this
    simp [mapMO] at h; subst h
    simp [tryAsDataKV, pairUp]
  | n + 1, rs, ds, hl, h => by
    match rs, hl with
    | a :: b :: rest, hl =>
      simp only [mapMO] at h
      obtain ⟨da, hda, h⟩ := bind_eq_ok.mp h
      obtain ⟨ds1, h1, h⟩ := bind_eq_ok.mp h
      obtain ⟨db, hdb, h1⟩ := bind_eq_ok.mp h1
      obtain ⟨ds2, h2, h1⟩ := bind_eq_ok.mp h1
      simp only [pure_eq_ok, Outcome.ok.injEq] at h h1
      subst h1; subst h
      have hrest : rest.length = 2 * n := by simp at hl; omega
      rw [tryAsDataKV]
      simp only [hda, hdb, ok_bind, tryAsDataKV_of_mapMO n rest ds2 hrest h2, pairUp]

theorem flatKV_length : ∀ kvs : List (DExp × DExp), (flatKV kvs).length = 2 * kvs.length
  | [] => by simp [flatKV]
  | kv :: rest => by simp [flatKV, flatKV_length rest]; omega

theorem mem_flatKV {kvs : List (DExp × DExp)} {d : DExp} (h : d ∈ flatKV kvs) : ∃ kv ∈ kvs, d = kv.1 ∨ d = kv.2 := by
  induction kvs with
  | nil => simp [flatKV] at h
  | cons kv rest ih =>
    simp only [flatKV, List.mem_cons] at h
    rcases h with h | h | h
    · exact ⟨kv, by simp, Or.inl h⟩
    · exact ⟨kv, by simp, Or.inr h⟩
    · obtain ⟨kv', hk, hd⟩ := ih h
      exact ⟨kv', by simp [hk], hd⟩

/-- **A map literal denotes the association list of its entries, in the order written.** -/
theorem C01_map_literal (s : Scope) (σ : ArgMap) (ints : String → Int) (ctx : Ctx) (hl : ctx.lvl ≠ 0)
    (kvs : List (DExp × DExp)) (hok : ∀ kv ∈ kvs, kv.1.OK s σ ints ∧ kv.2.OK s σ ints) (k m : Nat) :
    let D := DExp.depthL (flatKV kvs)
    ∃ t, lowerE s (D + 3 + k) ctx (.node .map (DExp.toLL (flatKV kvs))) = .ok t ∧
      ∃ r, reduceF (D + 4 + m) (applyArgs σ t) = .ok r ∧
        compileDataExpr r = .ok (.map (kvs.map fun kv => (kv.1.den s ints, kv.2.den s ints))) ∧
        tryAsData r = .ok (.map (kvs.map fun kv => (kv.1.den s ints, kv.2.den s ints))) := by
  intro D
  let vals := flatKV kvs
  let F := D + 1 + k
  let N := D + 3 + m
  have step : ∀ v ∈ vals, ∃ t, lowerE s F ctx v.toL = .ok t ∧
      ∃ r, reduceF N (applyArgs σ t) = .ok r ∧ tryAsData r = .ok (v.den s ints) ∧ tryAsData r = .ok (v.den s ints) := by
    intro v hvm
    have hd : v.depth ≤ D := DExp.depth_le_depthL hvm
    obtain ⟨kv, hkv, hv⟩ := mem_flatKV hvm
    have hvok : v.OK s σ ints := by rcases hv with rfl | rfl; exact (hok kv hkv).1; exact (hok kv hkv).2
    obtain ⟨t, ht, r, hr, _, hc'⟩ := good s σ ints ctx hl v hvok (D - v.depth + k) (D - v.depth + 1 + m)
    rw [show v.depth + 1 + (D - v.depth + k) = F by simp only [F, D]; omega] at ht
    rw [show v.depth + 2 + (D - v.depth + 1 + m) = N by simp only [N, D]; omega] at hr
    exact ⟨t, ht, r, hr, hc', hc'⟩
  obtain ⟨ts, hts, rs, hrs, hcs, _⟩ := mapMO_chain3' (fun v : DExp => lowerE s F ctx v.toL) _ _ _ (DExp.den s ints) _ step
  have hlen : rs.length = 2 * kvs.length := by
    have key : ∀ {α β} (g : α → Outcome β) (xs : List α) (ys : List β), mapMO g xs = .ok ys → ys.length = xs.length := by
      intro α β g xs
      induction xs with
      | nil => intro ys hh; simp [mapMO] at hh; subst hh; rfl
      | cons x xs ih =>
        intro ys hh
        simp only [mapMO] at hh
        obtain ⟨y, _, hh⟩ := bind_eq_ok.mp hh
        obtain ⟨ys', hys, hh⟩ := bind_eq_ok.mp hh
        simp only [pure_eq_ok, Outcome.ok.injEq] at hh
        subst hh
        simp [ih ys' hys]
    rw [key _ _ _ hrs, key _ _ _ hts]
    exact flatKV_length kvs
  have hkv := tryAsDataKV_of_mapMO kvs.length rs _ hlen hcs
  rw [pairUp_flatKV] at hkv
  refine ⟨.node .map ts, ?_, .node .map rs, ?_, ?_, ?_⟩
  · rw [show D + 3 + k = (F + 1) + 1 by simp only [F]; omega, lowerE]
    rw [lowerL_eq_mapMO, DExp.toLL_eq_map, mapMO_map, hts]; rfl
  · rw [show D + 4 + m = N + 1 by simp only [N]; omega]
    simp only [applyArgs, reduceF]
    rw [applyArgsL_eq_map, mapMO_map, hrs]; rfl
  · simp only [compileDataExpr]; rw [hkv]; rfl
  · simp only [tryAsData]; rw [hkv]; rfl

/-! ## the same for `⟦·⟧` -/

theorem pairs_flatKV (s : Scope) (ints : String → Int) : ∀ kvs : List (DExp × DExp),
    pairs ((flatKV kvs).map (DExp.den s ints)) = kvs.map fun kv => (kv.1.den s ints, kv.2.den s ints)
  | [] => by simp [flatKV, pairs]
  | kv :: rest => by simp [flatKV, pairs, pairs_flatKV s ints rest]

/-- **`⟦{k1: v1, …}⟧`** is a value whose data is the same association list, in the order written. -/
theorem C01_map_literal_semantics (ρ : Env) (s : Scope) (ints : String → Int) (hp : ρ.prog = s.prog)
    (kvs : List (DExp × DExp)) (hok : ∀ kv ∈ kvs, kv.1.EOK ρ ints ∧ kv.2.EOK ρ ints) (mode : Mode) (k : Nat) :
    ∃ v, eval ρ (2 * DExp.depthL (flatKV kvs) + 5 + k) mode (.node .map (DExp.toLL (flatKV kvs))) = .ok v ∧
      v.toData = some (.map (kvs.map fun kv => (kv.1.den s ints, kv.2.den s ints))) := by
  let D := DExp.depthL (flatKV kvs)
  let F := 2 * D + 3 + k
  have step : ∀ v ∈ flatKV kvs, ∃ t, eval ρ F mode v.toL = .ok t ∧ ∃ r, (Outcome.ok t : Outcome Val) = .ok r ∧
      (match r.toData with | some d => Outcome.ok d | none => .err "x") = .ok (v.den s ints) := by
    intro v hvm
    have hd : v.depth ≤ D := DExp.depth_le_depthL hvm
    obtain ⟨kv, hkv, hv⟩ := mem_flatKV hvm
    have hvok : v.EOK ρ ints := by rcases hv with rfl | rfl; exact (hok kv hkv).1; exact (hok kv hkv).2
    obtain ⟨t, ht, hdata⟩ := egood ρ s ints hp v hvok mode (2 * (D - v.depth) + 2 + k)
    rw [show 2 * v.depth + 1 + (2 * (D - v.depth) + 2 + k) = F by simp only [F]; omega] at ht
    exact ⟨t, ht, t, rfl, by rw [hdata]⟩
  obtain ⟨ts, hts, rs, hrs, hcs⟩ := mapMO_chain3 (fun v : DExp => eval ρ F mode v.toL) _ _ (DExp.den s ints) _ step
  have hrt : rs = ts := by
    have : ∀ ts : List Val, mapMO (fun t => (Outcome.ok t : Outcome Val)) ts = .ok ts := by
      intro ts; induction ts with
      | nil => simp [mapMO]
      | cons t ts ih => simp [mapMO, ih]
    rw [this] at hrs; cases hrs; rfl
  subst hrt
  have hdat : rs.map Val.toData = ((flatKV kvs).map (DExp.den s ints)).map some := by
    have : ∀ (rs : List Val) (ds : List PData),
        mapMO (fun r : Val => match r.toData with | some d => Outcome.ok d | none => .err "x") rs = .ok ds →
        rs.map Val.toData = ds.map some := by
      intro rs
      induction rs with
      | nil => intro ds hh; simp [mapMO] at hh; subst hh; rfl
      | cons r rs ih =>
        intro ds hh
        simp only [mapMO] at hh
        obtain ⟨d, hd, hh⟩ := bind_eq_ok.mp hh
        obtain ⟨ds', hds', hh⟩ := bind_eq_ok.mp hh
        simp only [pure_eq_ok, Outcome.ok.injEq] at hh
        subst hh
        cases hr : r.toData with
        | none => simp [hr] at hd
        | some d' => simp only [hr, Outcome.ok.injEq] at hd; subst hd; simp [hr, ih _ hds']
    exact this _ _ hcs
  refine ⟨.data (.map (pairs ((flatKV kvs).map (DExp.den s ints)))), ?_, by simp [Val.toData, pairs_flatKV]⟩
  rw [show 2 * DExp.depthL (flatKV kvs) + 5 + k = (F + 1) + 1 by simp only [F, D]; omega, eval]
  simp only [evalL_eq_mapMO, DExp.toLL_eq_map, mapMO_map, hts, ok_bind, mapM_toData hdat]

end Tx3.Lang
