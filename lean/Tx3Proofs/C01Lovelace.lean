import Tx3Proofs.C01
import Tx3Proofs.C01Assets

/-!
# C01 — the lovelace fragment: `Ada(i)`, `+`, `-` over integer expressions

For every expression built from `Ada(i)` (with `i` of the integer fragment of `C01.lean`), `+` and
`-`: lowering succeeds, and applying the arguments and reducing yields a *constant asset list* that
denotes exactly `den e` lovelace and nothing else — in particular `Ada(a) - Ada(b) - Ada(c)` denotes
`(a - b) - c` — provided every intermediate amount stays inside the 128-bit range the IR computes in
(otherwise the reducer reports an error: `C01_assets_add` and friends never produce a wrapped value).
-/

namespace Tx3.Lang
open Tx3 Tx3.Expr Assets Outcome

/-- The lovelace fragment. -/
inductive AExp where
  | ada (i : IExp)
  | add (a b : AExp)
  | sub (a b : AExp)

namespace AExp

def toL : AExp → LExpr
  | ada i => .node (.call "Ada") [i.toL]
  | add a b => .node .add [a.toL, b.toL]
  | sub a b => .node .sub [a.toL, b.toL]

/-- Ordinary integer arithmetic on the lovelace amount. -/
def den (ints : String → Int) : AExp → Int
  | ada i => i.den ints
  | add a b => a.den ints + b.den ints
  | sub a b => a.den ints - b.den ints

def depth : AExp → Nat
  | ada i => i.depth + 1
  | add a b => max a.depth b.depth + 1
  | sub a b => max a.depth b.depth + 1

def pars : AExp → List String
  | ada i => i.pars
  | add a b => a.pars ++ b.pars
  | sub a b => a.pars ++ b.pars

/-- Every intermediate value lies strictly inside the `i128` range. -/
def Fits (ints : String → Int) : AExp → Prop
  | ada i => i.Fits ints
  | add a b => a.Fits ints ∧ b.Fits ints ∧ IExp.Small (a.den ints + b.den ints)
  | sub a b => a.Fits ints ∧ b.Fits ints ∧ IExp.Small (a.den ints - b.den ints)

end AExp

/-- A reduced result that denotes `v` lovelace and nothing else. -/
def DenotesLovelace (r : Expr) (v : Int) : Prop :=
  isConstant r = true ∧ ∃ c, assetsVal r = some c ∧ ∀ k, amt c k = if k = AssetClass.naked then v else 0

theorem fits_small_a (ints : String → Int) : ∀ e : AExp, e.Fits ints → IExp.Small (e.den ints)
  | .ada i, h => fits_small ints i h
  | .add _ _, h => h.2.2
  | .sub _ _, h => h.2.2

theorem isConstantL_of_leaves : ∀ (l : List Expr), (∀ c ∈ l, ∃ lf, c = Expr.leaf lf) → isConstantL l = true := by
  intro l
  induction l with
  | nil => intro _; rfl
  | cons c cs ih =>
    intro h
    obtain ⟨lf, rfl⟩ := h c List.mem_cons_self
    simp [isConstantL, isConstant, ih fun x hx => h x (List.mem_cons_of_mem _ hx)]

theorem isConstant_assetsNode (c : Assets) : isConstant (assetsNode c) = true := by
  unfold assetsNode
  simp only [isConstant]
  apply isConstantL_of_leaves
  intro e he
  unfold childrenOfAssets at he
  obtain ⟨kv, _, hkv⟩ := List.mem_flatMap.mp he
  simp only [List.mem_cons, List.mem_nil_iff, or_false] at hkv
  rcases hkv with rfl | rfl | rfl
  · split <;> exact ⟨_, rfl⟩
  · split <;> exact ⟨_, rfl⟩
  · exact ⟨_, rfl⟩

/-- What the base case yields. -/
theorem lovelace_literal (v : Int) (hv : IExp.Small v) :
    DenotesLovelace (.node .assets [.leaf .none, .leaf .none, .leaf (.number v)]) v := by
  refine ⟨by simp [isConstant, isConstantL], ?_⟩
  have hfit : inI128 v = true := small_inI128 hv
  by_cases h0 : v = 0
  · subst h0
    refine ⟨[], ?_, fun k => by simp [amt, get?]⟩
    simp [assetsVal, assetsOfChildren, nameExprOf, constPolicy, constName, fromAsset, fromNakedAmount, addRaw,
      upsert, fitsI128, retainNZ, inI128, i128Min, i128Max]
  · refine ⟨[(.naked, v)], ?_, fun k => ?_⟩
    · simp [assetsVal, assetsOfChildren, nameExprOf, constPolicy, constName, fromAsset, fromNakedAmount, addRaw,
        upsert, fitsI128, retainNZ, hfit, h0]
    · by_cases hk : k = AssetClass.naked
      · subst hk; simp [amt, get?]
      · have : ¬ AssetClass.naked = k := fun e => hk e.symm
        simp [amt, get?, hk, this]

/-- `Ada` is the built-in lovelace constructor: not shadowed by an asset definition of the program. -/
def AdaBuiltin (s : Scope) : Prop :=
  resolve s "Ada" = some (.asset (.leaf .unit) (.leaf .unit)) ∧ s.prog.assets.any (·.1 = "Ada") = false

theorem small_i128 {v : Int} (h : IExp.Small v) : inI128 v = true := small_inI128 h
theorem zero_i128 : inI128 0 = true := by decide

theorem lovelace_amt_fits {a b : Assets} {va vb : Int}
    (ha : ∀ k, amt a k = if k = AssetClass.naked then va else 0)
    (hb : ∀ k, amt b k = if k = AssetClass.naked then vb else 0) (hs : IExp.Small (va + vb)) :
    ∀ k, inI128 (amt a k + amt b k) = true := by
  intro k
  rw [ha k, hb k]
  by_cases hk : k = AssetClass.naked
  · simp only [hk, if_true]; exact small_i128 hs
  · simp only [hk, if_false]; exact zero_i128

theorem reduce_binary_const (n : Nat) (b : BKind) (hb : b ≠ .noop) (x y rx ry : Expr)
    (hx : reduceF n x = .ok rx) (hy : reduceF n y = .ok ry)
    (cx : isConstant rx = true) (cy : isConstant ry = true) :
    reduceF (n + 1) (.node (.builtin b) [x, y]) = reduceBuiltin b [rx, ry] := by
  cases b with
  | noop => exact absurd rfl hb
  | add | sub | concat | negate | property =>
    simp only [reduceF, mapMO, hx, hy, ok_bind, pure_eq_ok, isConstantL, cx, cy, Bool.and_self, if_true]

theorem lower_lovelace (s : Scope) (σ : ArgMap) (ints : String → Int) (ctx : Ctx) (hl : ctx.lvl ≠ 0)
    (hA : AdaBuiltin s) :
    ∀ (e : AExp), ScopeOf s σ ints e.pars → e.Fits ints → ∀ k,
      ∃ t, lowerE s (e.depth + 1 + k) ctx e.toL = .ok t ∧
        ∀ m, ∃ r, reduceF (e.depth + 2 + m) (applyArgs σ t) = .ok r ∧ DenotesLovelace r (e.den ints)
  | .ada i, h, hf, k => by
    obtain ⟨ti, hli, hri⟩ := lower_int s σ ints ctx hl i h hf k
    refine ⟨.node .assets [none', none', ti], ?_, ?_⟩
    · rw [show (AExp.ada i).depth + 1 + k = (i.depth + 1 + k) + 1 by simp only [AExp.depth]; omega, AExp.toL, lowerE]
      simp only [hl, hA.1, hA.2, hli, ok_bind, if_false, Bool.not_false, Bool.and_true, decide_true,
        Bool.true_and, show ("Ada" = "min_utxo") = False by decide, show ("Ada" = "tip_slot") = False by decide,
        show ("Ada" = "slot_to_time") = False by decide, show ("Ada" = "time_to_slot") = False by decide]
      simp
    · intro m
      refine ⟨.node .assets [.leaf .none, .leaf .none, .leaf (.number (i.den ints))], ?_,
        lovelace_literal _ (fits_small ints i hf)⟩
      rw [show (AExp.ada i).depth + 2 + m = (i.depth + 2 + m) + 1 by simp only [AExp.depth]; omega]
      have h1 := hri m
      have hn : ∀ j, reduceF (j + 1) (Expr.leaf Leaf.none) = .ok (.leaf .none) := fun j => reduceF_leaf j _
      have e2 : i.depth + 2 + m = (i.depth + 1 + m) + 1 := by omega
      simp only [none', applyArgs, applyArgsL, reduceF, mapMO, h1, ok_bind, pure_eq_ok]
      rw [e2]
      simp only [reduceF, ok_bind]
  | .add a b, h, hf, k => by
    obtain ⟨ta, hla, hra⟩ := lower_lovelace s σ ints ctx hl hA a (fun x hx => h x (by simp [AExp.pars, hx])) hf.1
      (max a.depth b.depth - a.depth + k)
    obtain ⟨tb, hlb, hrb⟩ := lower_lovelace s σ ints ctx hl hA b (fun x hx => h x (by simp [AExp.pars, hx])) hf.2.1
      (max a.depth b.depth - b.depth + k)
    refine ⟨builtin .add [ta, tb], ?_, ?_⟩
    · rw [show (AExp.add a b).depth + 1 + k = (a.depth + 1 + (max a.depth b.depth - a.depth + k)) + 1 by
        simp only [AExp.depth]; omega, AExp.toL, lowerE]
      simp only [hla, ok_bind]
      rw [show a.depth + 1 + (max a.depth b.depth - a.depth + k) = b.depth + 1 + (max a.depth b.depth - b.depth + k) by omega]
      simp only [hlb, ok_bind]
    · intro m
      obtain ⟨ra, h1, ⟨ca, va, hva, hama⟩⟩ := hra (max a.depth b.depth - a.depth + m)
      obtain ⟨rb, h2, ⟨cb, vb, hvb, hamb⟩⟩ := hrb (max a.depth b.depth - b.depth + m)
      rw [show a.depth + 2 + (max a.depth b.depth - a.depth + m) = max a.depth b.depth + 2 + m by omega] at h1
      rw [show b.depth + 2 + (max a.depth b.depth - b.depth + m) = max a.depth b.depth + 2 + m by omega] at h2
      rw [show (AExp.add a b).depth + 2 + m = (max a.depth b.depth + 2 + m) + 1 by simp only [AExp.depth]; omega]
      have hfit := lovelace_amt_fits hama hamb hf.2.2
      have hok := arithAdd_ok hva hvb hfit
      refine ⟨assetsNode (retainNZ (addRaw va vb)), ?_, isConstant_assetsNode _, ?_⟩
      · simp only [builtin, applyArgs, applyArgsL]
        rw [reduce_binary_const _ .add (by decide) _ _ ra rb h1 h2 ca cb]
        simp only [reduceBuiltin, hok]
      · obtain ⟨c, hc, hamt⟩ := C01_assets_add hva hvb hok
        refine ⟨c, hc, fun k' => ?_⟩
        rw [hamt k', hama k', hamb k']
        by_cases hk : k' = AssetClass.naked <;> simp [hk, AExp.den]
  | .sub a b, h, hf, k => by
    obtain ⟨ta, hla, hra⟩ := lower_lovelace s σ ints ctx hl hA a (fun x hx => h x (by simp [AExp.pars, hx])) hf.1
      (max a.depth b.depth - a.depth + k)
    obtain ⟨tb, hlb, hrb⟩ := lower_lovelace s σ ints ctx hl hA b (fun x hx => h x (by simp [AExp.pars, hx])) hf.2.1
      (max a.depth b.depth - b.depth + k)
    refine ⟨builtin .sub [ta, tb], ?_, ?_⟩
    · rw [show (AExp.sub a b).depth + 1 + k = (a.depth + 1 + (max a.depth b.depth - a.depth + k)) + 1 by
        simp only [AExp.depth]; omega, AExp.toL, lowerE]
      simp only [hla, ok_bind]
      rw [show a.depth + 1 + (max a.depth b.depth - a.depth + k) = b.depth + 1 + (max a.depth b.depth - b.depth + k) by omega]
      simp only [hlb, ok_bind]
    · intro m
      obtain ⟨ra, h1, ⟨ca, va, hva, hama⟩⟩ := hra (max a.depth b.depth - a.depth + m)
      obtain ⟨rb, h2, ⟨cb, vb, hvb, hamb⟩⟩ := hrb (max a.depth b.depth - b.depth + m)
      rw [show a.depth + 2 + (max a.depth b.depth - a.depth + m) = max a.depth b.depth + 2 + m by omega] at h1
      rw [show b.depth + 2 + (max a.depth b.depth - b.depth + m) = max a.depth b.depth + 2 + m by omega] at h2
      rw [show (AExp.sub a b).depth + 2 + m = (max a.depth b.depth + 2 + m) + 1 by simp only [AExp.depth]; omega]
      have sb := fits_small_a ints b hf.2.1
      have hneg : ∀ k', inI128 (- amt vb k') = true := by
        intro k'
        rw [hamb k']
        by_cases hk : k' = AssetClass.naked
        · simp only [hk, if_true]; exact small_i128 (by unfold IExp.Small at *; omega)
        · simp only [hk, if_false]; exact zero_i128
      have hsub : ∀ k', inI128 (amt va k' - amt vb k') = true := by
        intro k'
        rw [hama k', hamb k']
        by_cases hk : k' = AssetClass.naked
        · simp only [hk, if_true]; exact small_i128 hf.2.2
        · simp only [hk, if_false]; exact zero_i128
      obtain ⟨r, hok⟩ := arithSub_ok hva hvb hneg hsub
      obtain ⟨c, hc, hamt⟩ := C01_assets_sub hva hvb hok
      refine ⟨r, ?_, ?_, c, hc, fun k' => ?_⟩
      · simp only [builtin, applyArgs, applyArgsL]
        rw [reduce_binary_const _ .sub (by decide) _ _ ra rb h1 h2 ca cb]
        simp only [reduceBuiltin, hok]
      · -- the result of a subtraction is written by `assetsNode`
        unfold arithSub at hok
        obtain ⟨cs, rfl⟩ := assetsVal_is_assets hva
        simp only at hok
        obtain ⟨ny, hny, hok⟩ := bind_eq_ok.mp hok
        obtain ⟨nb, hnb, _⟩ := C01_assets_neg hvb hny
        have := arithAdd_ok hva hnb (fun k' => by
          have := C01_assets_neg hvb hny
          obtain ⟨nb', hnb', hn'⟩ := this
          rw [hnb] at hnb'; cases hnb'
          rw [hn' k']; have := hsub k'; rwa [Int.sub_eq_add_neg] at this)
        rw [this] at hok
        cases hok
        exact isConstant_assetsNode _
      · rw [hamt k', hama k', hamb k']
        by_cases hk : k' = AssetClass.naked <;> simp [hk, AExp.den]

/-- **C01 on the lovelace fragment.** `Ada(a) - Ada(b) - Ada(c)` — and every other combination of
`Ada`, `+`, `-` over the integer fragment — lowers, and after the arguments are applied reduces to a
constant asset list denoting exactly the lovelace amount ordinary integer arithmetic gives, with the
subtraction chain associated to the left. -/
theorem C01_lovelace_fragment (s : Scope) (σ : ArgMap) (ints : String → Int) (ctx : Ctx) (hl : ctx.lvl ≠ 0)
    (hA : AdaBuiltin s) (e : AExp) (hs : ScopeOf s σ ints e.pars) (hf : e.Fits ints) (k m : Nat) :
    ∃ t r, lowerE s (e.depth + 1 + k) ctx e.toL = .ok t ∧
      reduceF (e.depth + 2 + m) (applyArgs σ t) = .ok r ∧ DenotesLovelace r (e.den ints) := by
  obtain ⟨t, h1, h2⟩ := lower_lovelace s σ ints ctx hl hA e hs hf k
  obtain ⟨r, h3, h4⟩ := h2 m
  exact ⟨t, r, h1, h3, h4⟩

theorem C01_lovelace_sub_chain (ints : String → Int) (a b c : AExp) :
    (AExp.sub (AExp.sub a b) c).den ints = (a.den ints - b.den ints) - c.den ints := rfl

end Tx3.Lang
