import Tx3Proofs.Lemmas.Select

/-!
# C03 — input selection honours every stated constraint and finds a match if one exists

All theorems are for **every** candidate order, every choice made by `take`'s padding and
every choice of the excess-removal loop (`Oracle`), i.e. for every `HashSet` iteration order
and every ranking the float-based selector may compute.
-/

namespace Tx3

open Assets

/-- The spec's notion of "covers": component-wise `≥`. -/
def Covers (l : List SUtxo) (target : Assets) : Prop := ∀ c, amt target c ≤ sumAmt l c

/-! ## Single-UTxO inputs -/

theorem pickSingle_sub (cands : List SUtxo) (target : Assets) :
    ∀ u ∈ pickSingle cands target, u ∈ cands := by
  intro u hu
  unfold pickSingle at hu
  cases hf : cands.find? (fun u => containsTotal u.assets target) with
  | none => rw [hf] at hu; cases hu
  | some v =>
    rw [hf] at hu
    simp only [List.mem_singleton] at hu
    subst hu; exact List.mem_of_find?_eq_some hf

/-- **Sound (single).** A single-UTxO input receives exactly one UTxO, which alone covers
`min_amount` in every asset class. -/
theorem C03_single_sound (cands : List SUtxo) (target : Assets)
    (ht : WF target) (hnt : NonNeg target) (hu : UWF cands) :
    pickSingle cands target = [] ∨
    ∃ u ∈ cands, pickSingle cands target = [u] ∧ ∀ c, amt target c ≤ amt u.assets c := by
  unfold pickSingle
  cases hf : cands.find? (fun u => containsTotal u.assets target) with
  | none => left; rfl
  | some v =>
    right
    have hm := List.mem_of_find?_eq_some hf
    have hp := List.find?_some hf
    exact ⟨v, hm, rfl, (C15_contains ht (hu v hm).2 hnt).mp hp⟩

/-- **Complete (single).** If some candidate alone covers `min_amount`, selection succeeds —
whatever order the selector ranks the candidates in. -/
theorem C03_single_complete (cands : List SUtxo) (target : Assets)
    (ht : WF target) (hnt : NonNeg target) (hu : UWF cands)
    (h : ∃ u ∈ cands, ∀ c, amt target c ≤ amt u.assets c) : pickSingle cands target ≠ [] := by
  obtain ⟨u, hm, hc⟩ := h
  unfold pickSingle
  cases hf : cands.find? (fun u => containsTotal u.assets target) with
  | some v => simp
  | none =>
    have := List.find?_eq_none.mp hf u hm
    simp only [Bool.not_eq_true] at this
    have := (C15_contains ht (hu u hm).2 hnt).mpr hc
    simp_all

/-! ## Multi-UTxO inputs: the accumulation loop -/

theorem pickManyLoop_cons (x : SUtxo) (cs m : List SUtxo) (p : Assets) :
    pickManyLoop (x :: cs) m p =
      if containsSome x.assets p = true then
        (if isEmptyOrNegative (sub p x.assets) = true then (m ++ [x], sub p x.assets)
         else pickManyLoop cs (m ++ [x]) (sub p x.assets))
      else (if isEmptyOrNegative p = true then (m, p) else pickManyLoop cs m p) := by
  rw [pickManyLoop]

/-- Loop invariant: `pending = target − Σ matched`, class by class; what is matched is the old
`matched` followed by a sublist of the candidates. -/
theorem pickManyLoop_inv (target : Assets) (cs : List SUtxo) :
    ∀ (matched : List SUtxo) (pending : Assets), WF pending → UWF cs →
    (∀ c, amt pending c = amt target c - sumAmt matched c) →
    WF (pickManyLoop cs matched pending).2 ∧
    (∀ c, amt (pickManyLoop cs matched pending).2 c
        = amt target c - sumAmt (pickManyLoop cs matched pending).1 c) ∧
    (∃ t, t.Sublist cs ∧ (pickManyLoop cs matched pending).1 = matched ++ t) := by
  induction cs with
  | nil => intro m p hp _ hinv; exact ⟨hp, hinv, [], List.Sublist.refl _, by simp [pickManyLoop]⟩
  | cons x cs ih =>
    intro m p hp hcs hinv
    obtain ⟨⟨hxw, _⟩, hcs'⟩ := UWF_cons.mp hcs
    rw [pickManyLoop_cons]
    have hp' : WF (sub p x.assets) := WF_sub hp
    have hinv' : ∀ c, amt (sub p x.assets) c = amt target c - sumAmt (m ++ [x]) c := by
      intro c; rw [amt_sub hp hxw, hinv c, sumAmt_append]; simp; omega
    split
    · split
      · exact ⟨hp', hinv', [x], by simp, rfl⟩
      · obtain ⟨h1, h2, t, ht, he⟩ := ih (m ++ [x]) (sub p x.assets) hp' hcs' hinv'
        exact ⟨h1, h2, x :: t, List.Sublist.cons_cons x ht, by rw [he]; simp⟩
    · split
      · exact ⟨hp, hinv, [], List.nil_sublist _, by simp⟩
      · obtain ⟨h1, h2, t, ht, he⟩ := ih m p hp hcs' hinv
        exact ⟨h1, h2, t, List.Sublist.cons x ht, he⟩

/-- If the loop runs out of candidates with something still pending in class `c`, then every
candidate it did not take has nothing of class `c`. -/
theorem pickManyLoop_skipped (target : Assets) (cs : List SUtxo) :
    ∀ (matched : List SUtxo) (pending : Assets), WF pending → UWF cs →
    (∀ c, amt pending c = amt target c - sumAmt matched c) →
    ∀ c, amt (pickManyLoop cs matched pending).2 c > 0 →
      sumAmt (pickManyLoop cs matched pending).1 c = sumAmt matched c + sumAmt cs c := by
  induction cs with
  | nil => intro m p _ _ _ c _; simp [pickManyLoop]
  | cons x cs ih =>
    intro m p hp hcs hinv c
    obtain ⟨⟨hxw, hxn⟩, hcs'⟩ := UWF_cons.mp hcs
    rw [pickManyLoop_cons]
    have hp' : WF (sub p x.assets) := WF_sub hp
    have hinv' : ∀ c, amt (sub p x.assets) c = amt target c - sumAmt (m ++ [x]) c := by
      intro c; rw [amt_sub hp hxw, hinv c, sumAmt_append]; simp; omega
    split
    · split
      · rename_i he
        intro hpos
        have := (isEmptyOrNegative_iff hp').mp he c
        simp only at hpos; omega
      · intro hpos
        rw [ih (m ++ [x]) (sub p x.assets) hp' hcs' hinv' c hpos, sumAmt_append]
        simp; omega
    · rename_i hc
      split
      · rename_i he
        intro hpos
        have := (isEmptyOrNegative_iff hp).mp he c
        simp only at hpos; omega
      · intro hpos
        have hskip := ih m p hp hcs' hinv c hpos
        rw [hskip]
        -- `x` was skipped while class `c` was still pending: it holds nothing of class `c`
        have hpend : amt p c ≠ 0 := by
          obtain ⟨_, h2, _⟩ := pickManyLoop_inv target cs m p hp hcs' hinv
          have hfin := h2 c
          have hmono : sumAmt m c ≤ sumAmt (pickManyLoop cs m p).1 c := by
            rw [hskip]; have := sumAmt_nonneg hcs' c; omega
          have := hinv c
          omega
        have hcf : containsSome x.assets p = false := by
          cases h : containsSome x.assets p <;> simp_all
        have := containsSome_false hp hcf c hpend
        have := hxn c
        simp; omega

/-! ## Multi-UTxO inputs: the excess-removal loop -/

theorem removable_sub (matched : List SUtxo) (target : Assets) :
    ∀ u ∈ removable matched target, u ∈ matched := by
  intro u hu
  unfold removable at hu
  split at hu
  · cases hu
  · split at hu
    · cases hu
    · exact (List.mem_filter.mp hu).1

theorem removable_spec {matched : List SUtxo} {target : Assets} {u : SUtxo}
    (hu : u ∈ removable matched target) :
    matched.length ≠ 1 ∧ containsTotal (excessOf matched target) u.assets = true := by
  unfold removable at hu
  split at hu
  · cases hu
  · rename_i hlen
    split at hu
    · cases hu
    · exact ⟨hlen, (List.mem_filter.mp hu).2⟩

theorem removeExcess_inv (pickExcess : List SUtxo → Nat) (target : Assets) (ht : WF target) :
    ∀ (fuel : Nat) (matched : List SUtxo), UWF matched → (matched.map (·.ref)).Nodup →
    Covers matched target →
    Covers (removeExcess pickExcess target fuel matched) target ∧
    (∀ u ∈ removeExcess pickExcess target fuel matched, u ∈ matched) ∧
    (matched ≠ [] → removeExcess pickExcess target fuel matched ≠ []) := by
  intro fuel
  induction fuel with
  | zero => intro m _ _ hc; exact ⟨hc, fun u hu => hu, fun h => h⟩
  | succ fuel ih =>
    intro m hm hn hc
    rw [removeExcess]
    split
    · rename_i u hg
      have hur : u ∈ removable m target := List.mem_of_getElem? hg
      have hum : u ∈ m := removable_sub m target u hur
      obtain ⟨hlen, hct⟩ := removable_spec hur
      have hwt : WF (totalAssets m) := WF_totalAssets hm
      have hex : ∀ c, amt (excessOf m target) c = sumAmt m c - amt target c := by
        intro c; unfold excessOf; rw [amt_sub hwt ht, amt_totalAssets hm]
      have huw := hm u hum
      have himp := containsTotal_imp huw.1 hct
      have hsub : ∀ v ∈ (m.filter fun v => v.ref ≠ u.ref), v ∈ m :=
        fun v hv => (List.mem_filter.mp hv).1
      have hc' : Covers (m.filter fun v => v.ref ≠ u.ref) target := by
        intro c
        rw [sumAmt_filter_ref hn hum c]
        by_cases hpos : amt u.assets c > 0
        · have := himp c hpos; rw [hex c] at this; omega
        · have := huw.2 c; have := hc c; omega
      obtain ⟨h1, h2, h3⟩ := ih _ (UWF_of_subset hsub hm) (filter_ref_nodup hn u.ref) hc'
      refine ⟨h1, fun v hv => hsub v (h2 v hv), fun _ => h3 ?_⟩
      -- at least two elements with distinct refs: something other than `u` remains
      intro hempty
      have hall : ∀ v ∈ m, v.ref = u.ref := by
        intro v hv
        by_cases hr : v.ref = u.ref
        · exact hr
        · have : v ∈ (m.filter fun v => v.ref ≠ u.ref) := List.mem_filter.mpr ⟨hv, by simp [hr]⟩
          rw [hempty] at this; cases this
      match m, hn, hum, hlen, hall with
      | [], _, hum, _, _ => cases hum
      | [_], _, _, hlen, _ => simp at hlen
      | a :: b :: rest, hn, _, _, hall =>
        have ha := hall a (by simp)
        have hb := hall b (by simp)
        simp only [List.map_cons, List.nodup_cons, List.mem_cons, not_or] at hn
        exact hn.1.1 (ha.trans hb.symm)
    · exact ⟨hc, fun u hu => hu, fun h => h⟩

/-! ## Multi-UTxO inputs: the theorems -/

theorem sublist_nodup_refs {t cs : List SUtxo} (h : t.Sublist cs) (hn : (cs.map (·.ref)).Nodup) :
    (t.map (·.ref)).Nodup := List.Nodup.sublist (List.Sublist.map _ h) hn

/-- What `pick_many` returns, in terms of the two loops. -/
theorem pickMany_spec (cands : List SUtxo) (target : Assets) (pe : List SUtxo → Nat)
    (ht : WF target) (hu : UWF cands) (hn : (cands.map (·.ref)).Nodup) :
    (pickMany cands target pe = [] ∨ Covers (pickMany cands target pe) target) ∧
    (∀ u ∈ pickMany cands target pe, u ∈ cands) := by
  obtain ⟨h1, h2, t, hts, hte⟩ := pickManyLoop_inv target cands [] target ht hu (by intro c; simp)
  unfold pickMany
  generalize hloop : pickManyLoop cands [] target = r at h1 h2 hte
  obtain ⟨matched, pending⟩ := r
  simp only at h1 h2 hte ⊢
  simp only [List.nil_append] at hte
  have hte' : t = matched := hte.symm
  subst hte'
  have hsub : ∀ u ∈ t, u ∈ cands := fun u hu' => hts.subset hu'
  split
  · exact ⟨Or.inl rfl, fun u hu' => by cases hu'⟩
  · rename_i he
    have he' : isEmptyOrNegative pending = true := by
      cases h : isEmptyOrNegative pending <;> simp_all
    have hcov : Covers t target := by
      intro c
      have := (isEmptyOrNegative_iff h1).mp he' c
      have := h2 c
      omega
    obtain ⟨r1, r2, _⟩ := removeExcess_inv pe target ht t.length t (UWF_of_subset hsub hu)
      (sublist_nodup_refs hts hn) hcov
    exact ⟨Or.inr r1, fun u hu' => hsub u (r2 u hu')⟩

/-- **Sound (many).** Whatever a multi-UTxO input receives is drawn from the candidates, and its
sum covers `min_amount` in every asset class — for every candidate order and every order in
which the excess-removal loop meets the matched UTxOs. -/
theorem C03_many_sound (cands : List SUtxo) (target : Assets) (pe : List SUtxo → Nat)
    (ht : WF target) (hu : UWF cands) (hn : (cands.map (·.ref)).Nodup) :
    (∀ u ∈ pickMany cands target pe, u ∈ cands) ∧
    (pickMany cands target pe ≠ [] → Covers (pickMany cands target pe) target) := by
  obtain ⟨h1, h2⟩ := pickMany_spec cands target pe ht hu hn
  exact ⟨h2, fun hne => h1.resolve_left hne⟩

/-- **Complete (many).** If the candidates together cover `min_amount` (in particular if some
subset of them does) and there is at least one candidate, selection succeeds. -/
theorem C03_many_complete (cands : List SUtxo) (target : Assets) (pe : List SUtxo → Nat)
    (ht : WF target) (hnt : NonNeg target) (hu : UWF cands) (hn : (cands.map (·.ref)).Nodup)
    (hne : cands ≠ []) (hcov : Covers cands target) : pickMany cands target pe ≠ [] := by
  obtain ⟨h1, h2, t, hts, hte⟩ := pickManyLoop_inv target cands [] target ht hu (by intro c; simp)
  have hskip := pickManyLoop_skipped target cands [] target ht hu (by intro c; simp)
  unfold pickMany
  generalize hloop : pickManyLoop cands [] target = r at h1 h2 hte hskip
  obtain ⟨matched, pending⟩ := r
  simp only at h1 h2 hte hskip ⊢
  simp only [List.nil_append] at hte
  have hte' : t = matched := hte.symm
  subst hte'
  have hsub : ∀ u ∈ t, u ∈ cands := fun u hu' => hts.subset hu'
  -- nothing positive can be pending at the end: the total of the candidates covers the target
  have hpend : isEmptyOrNegative pending = true := by
    rw [isEmptyOrNegative_iff h1]
    intro c
    by_cases hpos : amt pending c > 0
    · have := hskip c hpos
      have := h2 c
      have := hcov c
      simp at *; omega
    · omega
  simp only [hpend, Bool.not_true, Bool.false_eq_true, ↓reduceIte]
  -- the matched set is not empty
  have htne : t ≠ [] := by
    intro hte
    subst hte
    -- nothing was matched although candidates exist: look at the first candidate
    match cands, hne, hloop, hu with
    | x :: cs, _, hloop, hu =>
      rw [pickManyLoop_cons] at hloop
      have hp0 : ∀ c, amt pending c ≤ 0 := (isEmptyOrNegative_iff h1).mp hpend
      split at hloop
      · split at hloop
        · simp at hloop
        · have := (pickManyLoop_inv target cs [x] (sub target x.assets) (WF_sub ht)
            (UWF_cons.mp hu).2 (by
              intro c; rw [amt_sub ht (UWF_cons.mp hu).1.1]; simp)).2.2
          obtain ⟨t', _, ht'⟩ := this
          simp only [List.nil_append] at hloop
          rw [hloop] at ht'
          simp at ht'
      · rename_i hcs
        -- `contains_some x target = false` forces the target to be non-empty …
        have hcf : containsSome x.assets target = false := by
          cases h : containsSome x.assets target <;> simp_all
        unfold containsSome at hcf
        split at hcf
        · cases hcf
        · rename_i hte
          -- … but an empty match means `pending = target ≤ 0`, and the target is covered by
          -- non-negative candidates, so it is empty: contradiction
          have htz : isEmpty target = true := by
            unfold isEmpty
            simp only [List.all_eq_true, decide_eq_true_eq]
            rintro ⟨k, v⟩ hm
            have hv : amt target k = v := amt_of_mem ht hm
            have h2' := h2 k
            simp only [sumAmt_nil] at h2'
            have := hp0 k
            have := hnt k
            simp only
            omega
          simp_all
  obtain ⟨_, _, r3⟩ := removeExcess_inv pe target ht t.length t (UWF_of_subset hsub hu)
    (sublist_nodup_refs hts hn) (by
      intro c
      have := (isEmptyOrNegative_iff h1).mp hpend c
      have := h2 c
      omega)
  exact r3 htne

/-! ## The selector around the coin selection: hard constraints, the window -/

/-- The oracle only reorders: `order` returns elements of its argument, `fill d k` returns
elements of `d`. (A `HashSet` iteration and a sort do exactly that.) -/
structure Oracle.Sane (o : Oracle) : Prop where
  order_sub : ∀ l, ∀ u ∈ o.order l, u ∈ l
  order_refs : ∀ l, (l.map (·.ref)).Nodup → ((o.order l).map (·.ref)).Nodup
  fill_sub : ∀ d k, ∀ r ∈ o.fill d k, r ∈ d
  /-- `take(k)` of an iterator yields everything when there are at most `k` elements -/
  fill_all : ∀ d k, d.length ≤ k → ∀ r ∈ d, r ∈ o.fill d k

theorem fetch_refs_nodup {st : Store} (hst : (st.map (·.ref)).Nodup) (refs : List UtxoRef)
    (p : SUtxo → Bool) : (((st.fetch refs).filter p).map (·.ref)).Nodup := by
  unfold Store.fetch
  exact List.Nodup.sublist
    (List.Sublist.map _ ((List.filter_sublist).trans List.filter_sublist)) hst

/-- **Sound (constraints).** Every UTxO bound to a block is in the store, sits at the `from`
address when one is given, is among the `ref` references when given, was not taken by an
earlier block, and is pure lovelace for collateral. -/
theorem C03_select_sound (st : Store) (o : Oracle) (ho : o.Sane) (sp : SearchSpace) (q : CQuery)
    (ignored : List UtxoRef) (hst : (st.map (·.ref)).Nodup) (hsw : UWF st) (htw : WF (targetOf q)) :
    ∀ u ∈ selectOne st o sp q ignored,
      u ∈ st ∧ hardOk q u = true ∧ u.ref ∉ ignored ∧
      (q.collateral = true → isOnlyNaked u.assets = true) := by
  intro u hu
  unfold selectOne at hu
  simp only at hu
  -- the fetched candidate list, whatever branch
  have key : ∀ (fetched : List SUtxo), (∀ v ∈ fetched, v ∈ st) → (fetched.map (·.ref)).Nodup →
      u ∈ (if q.many = true then pickMany (o.order fetched) (targetOf q) o.pickExcess
           else pickSingle (o.order fetched) (targetOf q)) → u ∈ fetched := by
    intro fetched hsub hnd hmem
    have huwf : UWF (o.order fetched) := fun v hv => hsw v (hsub v (ho.order_sub _ v hv))
    split at hmem
    · exact ho.order_sub _ u ((C03_many_sound _ _ _ htw huwf (ho.order_refs _ hnd)).1 u hmem)
    · exact ho.order_sub _ u (pickSingle_sub _ _ u hmem)
  have hfetch : ∀ v ∈ ((st.fetch ((sp.take window o.fill).filter fun r => !ignored.contains r)).filter
      (hardOk q)), v ∈ st ∧ hardOk q v = true ∧ v.ref ∉ ignored := by
    intro v hv
    obtain ⟨hv1, hv2⟩ := List.mem_filter.mp hv
    unfold Store.fetch at hv1
    obtain ⟨hv3, hv4⟩ := List.mem_filter.mp hv1
    have hv5 := List.mem_filter.mp (List.contains_iff_mem.mp hv4)
    refine ⟨hv3, hv2, ?_⟩
    intro hc
    have := hv5.2
    simp at this
    exact this hc
  by_cases hcoll : q.collateral = true
  · simp only [hcoll, ↓reduceIte] at hu
    have hm := key _ (fun v hv => (hfetch v (List.mem_filter.mp hv).1).1)
      (List.Nodup.sublist (List.Sublist.map _ List.filter_sublist) (fetch_refs_nodup hst _ _)) hu
    obtain ⟨hm1, hm2⟩ := List.mem_filter.mp hm
    obtain ⟨a, b, c⟩ := hfetch u hm1
    exact ⟨a, b, c, fun _ => hm2⟩
  · simp only [hcoll, Bool.false_eq_true, ↓reduceIte] at hu
    have hm := key _ (fun v hv => (hfetch v hv).1) (fetch_refs_nodup hst _ _) hu
    obtain ⟨a, b, c⟩ := hfetch u hm
    exact ⟨a, b, c, fun h => absurd h hcoll⟩

/-- The best matches (the intersection) are always inside the window handed to the selector,
and when the padding fits the window everything in the union is. -/
theorem C03_take_complete (sp : SearchSpace) (n : Nat) (o : Oracle) (ho : o.Sane) :
    (∀ r ∈ sp.intersection.toList, r ∈ sp.take n o.fill) ∧
    ((sp.union.toList.filter fun r => !sp.intersection.toList.contains r).length
        ≤ n - sp.intersection.toList.length →
      ∀ r ∈ sp.union.toList, r ∈ sp.take n o.fill) := by
  unfold SearchSpace.take
  constructor
  · intro r hr
    simp only
    split
    · exact List.mem_append_left _ hr
    · exact hr
  · intro hlen r hr
    simp only
    by_cases hb : r ∈ sp.intersection.toList
    · split
      · exact List.mem_append_left _ hb
      · exact hb
    · split
      · apply List.mem_append_right
        apply ho.fill_all _ _ hlen
        exact List.mem_filter.mpr ⟨hr, by simp [hb]⟩
      · rename_i hlt
        -- the window is already full of best matches: the padding bound is 0, so the
        -- difference is empty, contradiction with `r` being in it
        have : n - sp.intersection.toList.length = 0 := by omega
        rw [this] at hlen
        have hmem : r ∈ (sp.union.toList.filter fun r => !sp.intersection.toList.contains r) :=
          List.mem_filter.mpr ⟨hr, by simp [hb]⟩
        have : (sp.union.toList.filter fun r => !sp.intersection.toList.contains r) = [] :=
          List.length_eq_zero_iff.mp (by omega)
        rw [this] at hmem; cases hmem

/-! ## Non-vacuity -/

example : pickSingle [⟨⟨[1], 0⟩, [0x60], [(.naked, 5)]⟩] [(.naked, 3)] ≠ [] := by decide
example : pickMany [⟨⟨[1], 0⟩, [0x60], [(.naked, 2)]⟩, ⟨⟨[2], 0⟩, [0x60], [(.naked, 2)]⟩]
    [(.naked, 3)] (fun _ => 0) ≠ [] := by decide

end Tx3
