import Tx3Proofs.Lemmas.Tir

/-!
# C06 — a template closes exactly when its reported parameters and queries are supplied

`Expr.unresolved` is the spec's generic walk over every child of every node; `params`,
`queries`, `applyArgs`, `applyInputs`, `applyFees` are the implementation model's traversals
(which skip the payload of `Set` and the expressions inside UTxOs — hence `Sealed`).
-/

namespace Tx3
namespace Expr

/-- Argument values and UTxO sets are closed expressions. -/
def ValuesClosed (m : List (String × Expr)) : Prop := ∀ k v, lookupS m k = some v → Closed v

/-! ## Every unresolved value parameter is reported -/

theorem reported_complete_aux :
    (∀ e : Expr, Sealed e → ∀ n, PRef.value n ∈ unresolved e → ∃ ty, (n, ty) ∈ params e) ∧
    (∀ es : List Expr, SealedL es → ∀ n, PRef.value n ∈ unresolvedL es →
      ∃ ty, (n, ty) ∈ paramsL es) := by
  apply Expr.induct
  · intro l _ n h; simp at h
  · intro k cs ih hs n h
    obtain ⟨hk, hcs⟩ := Sealed_node.mp hs
    rw [unresolved_node] at h
    cases k with
    | param p =>
      cases p with
      | set =>
        have : unresolvedL cs = [] := hk
        simp [Kind.pref?, this] at h
      | expectValue name ty =>
        have : cs = [] := hk
        subst this
        simp [Kind.pref?] at h
        subst h
        exact ⟨ty, by simp [params]⟩
      | expectInput name many coll =>
        simp [Kind.pref?] at h
        obtain ⟨ty, hty⟩ := ih hcs n h
        exact ⟨ty, by simpa [params] using hty⟩
      | expectFees =>
        have : cs = [] := hk
        subst this
        simp [Kind.pref?] at h
    | utxoSet m =>
      have : unresolvedL cs = [] := hk
      simp [Kind.pref?, this] at h
    | list | map | tuple | struct | assets | builtin | compiler | coerce | adhoc =>
      simp [Kind.pref?] at h
      obtain ⟨ty, hty⟩ := ih hcs n h
      exact ⟨ty, by simpa [params] using hty⟩
  · intro _ n h; simp at h
  · intro c cs ihc ihcs hs n h
    obtain ⟨h1, h2⟩ := SealedL_cons.mp hs
    simp only [unresolvedL_cons, List.mem_append] at h
    rcases h with h | h
    · obtain ⟨ty, hty⟩ := ihc h1 n h
      exact ⟨ty, by simp [hty]⟩
    · obtain ⟨ty, hty⟩ := ihcs h2 n h
      exact ⟨ty, by simp [hty]⟩

/-- **Reported parameters are complete.** Every value parameter the independent walk finds
anywhere in a sealed expression is reported by `params` — in whatever position it sits
(index operands, query bodies, directive values, compiler-op operands, …). -/
theorem C06_reported_complete (e : Expr) (hs : Sealed e) (n : String)
    (h : PRef.value n ∈ unresolved e) : ∃ ty, (n, ty) ∈ params e :=
  reported_complete_aux.1 e hs n h

/-! ## Supplying what is reported closes the template -/

theorem closes_aux (σ : ArgMap) (ι : InputMap) (f : Int)
    (hσ : ValuesClosed σ) (hι : ValuesClosed ι) :
    (∀ e : Expr, Sealed e →
      (∀ p ∈ params e, (lookupS σ p.1).isSome) → (∀ q ∈ queries e, (lookupS ι q.name).isSome) →
      Closed (applyInputs ι (applyFees f (applyArgs σ e)))) ∧
    (∀ es : List Expr, SealedL es →
      (∀ p ∈ paramsL es, (lookupS σ p.1).isSome) → (∀ q ∈ queriesL es, (lookupS ι q.name).isSome) →
      ClosedL (applyInputsL ι (applyFeesL f (applyArgsL σ es)))) := by
  apply Expr.induct
  · intro l _ _ _; simp [applyArgs, applyFees, applyInputs, Closed]
  · intro k cs ih hs hp hq
    obtain ⟨hk, hcs⟩ := Sealed_node.mp hs
    cases k with
    | param p =>
      cases p with
      | set =>
        have : ClosedL cs := hk
        simp only [applyArgs, applyFees, applyInputs]
        exact Closed_node.mpr ⟨by simp [Kind.pref?], this⟩
      | expectValue name ty =>
        have := hp (name, ty) (by simp [params])
        simp only at this
        cases hl : lookupS σ name with
        | none => simp [hl] at this
        | some v =>
          simp only [applyArgs, hl, applyFees, applyInputs]
          exact Closed_node.mpr ⟨by simp [Kind.pref?], ClosedL_cons.mpr ⟨hσ _ _ hl, ClosedL_nil⟩⟩
      | expectInput name many coll =>
        have := hq ⟨name, many, coll, cs⟩ (by simp [queries])
        simp only at this
        cases hl : lookupS ι name with
        | none => simp [hl] at this
        | some us =>
          simp only [applyArgs, applyFees, applyInputs, hl]
          exact Closed_node.mpr ⟨by simp [Kind.pref?], ClosedL_cons.mpr ⟨hι _ _ hl, ClosedL_nil⟩⟩
      | expectFees =>
        simp only [applyArgs, applyFees]
        simp only [feeExpr, applyInputs]
        exact Closed_feeExpr f
    | utxoSet m =>
      have : ClosedL cs := hk
      simp only [applyArgs, applyFees, applyInputs]
      exact Closed_node.mpr ⟨by simp [Kind.pref?], this⟩
    | list | map | tuple | struct | assets | builtin | compiler | coerce | adhoc =>
      simp only [applyArgs, applyFees, applyInputs]
      refine Closed_node.mpr ⟨by simp [Kind.pref?], ih hcs ?_ ?_⟩
      · intro p hp'; exact hp p (by simpa [params] using hp')
      · intro q hq'; exact hq q (by simpa [queries] using hq')
  · intro _ _ _; simp [ClosedL]
  · intro c cs ihc ihcs hs hp hq
    obtain ⟨h1, h2⟩ := SealedL_cons.mp hs
    simp only [applyArgsL_cons, applyFeesL_cons, applyInputsL_cons]
    refine ClosedL_cons.mpr ⟨ihc h1 ?_ ?_, ihcs h2 ?_ ?_⟩
    · intro p hp'; exact hp p (by simp [hp'])
    · intro q hq'; exact hq q (by simp [hq'])
    · intro p hp'; exact hp p (by simp [hp'])
    · intro q hq'; exact hq q (by simp [hq'])

/-- **Closure.** After an argument for every reported parameter, a UTxO set for every reported
query and a fee have been applied, the independent walk finds no unresolved parameter anywhere
in the expression. -/
theorem C06_closes (σ : ArgMap) (ι : InputMap) (f : Int) (hσ : ValuesClosed σ) (hι : ValuesClosed ι)
    (e : Expr) (hs : Sealed e)
    (hp : ∀ p ∈ params e, (lookupS σ p.1).isSome) (hq : ∀ q ∈ queries e, (lookupS ι q.name).isSome) :
    Closed (applyInputs ι (applyFees f (applyArgs σ e))) :=
  (closes_aux σ ι f hσ hι).1 e hs hp hq

end Expr

/-! ## Transaction level -/

theorem Tx.unresolved_map (f : Expr → Expr) (t : Tx) :
    (t.map f).unresolved = t.slots.flatMap (fun e => (f e).unresolved) := by
  unfold Tx.unresolved; rw [Tx.slots_map, List.flatMap_map]

/-- **C06 (closure), for a whole transaction.** -/
theorem C06_tx_closes (σ : ArgMap) (ι : InputMap) (f : Int)
    (hσ : Expr.ValuesClosed σ) (hι : Expr.ValuesClosed ι) (t : Tx)
    (hs : ∀ e ∈ t.slots, Expr.Sealed e)
    (hp : ∀ p ∈ t.params, (lookupS σ p.1).isSome)
    (hq : ∀ q ∈ t.queries, (lookupS ι q.name).isSome) :
    (((t.applyArgs σ).applyFees f).applyInputs ι).unresolved = [] := by
  unfold Tx.applyArgs Tx.applyFees Tx.applyInputs Tx.unresolved
  rw [Tx.slots_map, Tx.slots_map, Tx.slots_map]
  simp only [List.map_map, List.flatMap_map]
  rw [List.flatMap_eq_nil_iff]
  intro e he
  apply Expr.C06_closes σ ι f hσ hι e (hs e he)
  · intro p hp'; exact hp p (List.mem_flatMap.mpr ⟨e, he, hp'⟩)
  · intro q hq'; exact hq q (List.mem_flatMap.mpr ⟨e, he, hq'⟩)

/-- **C06 (reported parameters are complete), for a whole transaction.** -/
theorem C06_tx_reported_complete (t : Tx) (hs : ∀ e ∈ t.slots, Expr.Sealed e) (n : String)
    (h : PRef.value n ∈ t.unresolved) : ∃ ty, (n, ty) ∈ t.params := by
  unfold Tx.unresolved at h
  obtain ⟨e, he, hn⟩ := List.mem_flatMap.mp h
  obtain ⟨ty, hty⟩ := Expr.C06_reported_complete e (hs e he) n hn
  exact ⟨ty, List.mem_flatMap.mpr ⟨e, he, hty⟩⟩

/-! ## The argument guard -/

theorem mem_insertKey {k x : String} {l : List String} : x ∈ insertKey k l ↔ x = k ∨ x ∈ l := by
  induction l with
  | nil => simp [insertKey]
  | cons y ys ih =>
    unfold insertKey
    split
    · rename_i h; subst h; simp
    · split
      · simp
      · simp [ih]; constructor
        · rintro (h | h | h) <;> simp [h]
        · rintro (h | h | h) <;> simp [h]

theorem mem_keySet {x : String} {l : List String} : x ∈ keySet l ↔ x ∈ l := by
  induction l with
  | nil => simp [keySet]
  | cons y ys ih =>
    have : keySet (y :: ys) = insertKey y (keySet ys) := rfl
    rw [this, mem_insertKey, ih]; simp

/-- **Missing argument.** If some reported parameter has no argument, resolution stops before
anything else with a missing-argument error that names a reported parameter that is absent;
if none is missing the guard lets the template through. -/
theorem C06_missing_arg (t : Tx) (σ : ArgMap) :
    (∃ p ∈ t.params, (lookupS σ p.1).isNone) →
    ∃ name, (∃ ty, (name, ty) ∈ t.params) ∧ (lookupS σ name).isNone ∧
      t.safeApplyArgs σ = .err ("MissingTxArg:" ++ name) := by
  rintro ⟨p, hp, hnone⟩
  unfold Tx.safeApplyArgs
  cases hf : (keySet (t.params.map (·.1))).find? (fun p => (lookupS σ p).isNone) with
  | none =>
    have := List.find?_eq_none.mp hf p.1 (mem_keySet.mpr (List.mem_map.mpr ⟨p, hp, rfl⟩))
    simp [hnone] at this
  | some name =>
    have hmem := List.mem_of_find?_eq_some hf
    have hprop := List.find?_some hf
    obtain ⟨q, hq, hqn⟩ := List.mem_map.mp (mem_keySet.mp hmem)
    refine ⟨name, ⟨q.2, ?_⟩, hprop, rfl⟩
    rw [← hqn]; exact hq

theorem C06_no_missing_arg (t : Tx) (σ : ArgMap)
    (h : ∀ p ∈ t.params, (lookupS σ p.1).isSome) : t.safeApplyArgs σ = .ok (t.applyArgs σ) := by
  unfold Tx.safeApplyArgs
  cases hf : (keySet (t.params.map (·.1))).find? (fun p => (lookupS σ p).isNone) with
  | none => rfl
  | some name =>
    have hmem := List.mem_of_find?_eq_some hf
    have hprop := List.find?_some hf
    obtain ⟨q, hq, hqn⟩ := List.mem_map.mp (mem_keySet.mp hmem)
    have := h q hq
    rw [hqn] at this
    cases hl : lookupS σ name <;> simp [hl] at this hprop

/-! ## Non-vacuity -/

/-- `xs[i]` with the index a parameter: sealed, and both parameters are reported. -/
example :
    let e := Expr.node (.builtin .property)
      [.node (.param (.expectValue "xs" .list)) [], .node (.param (.expectValue "i" .int)) []]
    Expr.Sealed e ∧ e.params = [("xs", .list), ("i", .int)] := by
  simp [Expr.Sealed, Expr.SealedL, Expr.Kind.SealedAt, Expr.params, Expr.paramsL]

end Tx3
