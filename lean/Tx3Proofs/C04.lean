import Tx3Proofs.C03

/-!
# C04 — a transaction never spends one UTxO through two input blocks

`resolveQueries` is the model of `inputs::resolve`: one selector, the queries in name order,
`ignore` growing by each non-collateral selection.  The theorems hold for every oracle (every
hash order / candidate ranking).
-/

namespace Tx3

open Assets

theorem removeExcess_sublist (pe : List SUtxo → Nat) (target : Assets) :
    ∀ (fuel : Nat) (m : List SUtxo), (removeExcess pe target fuel m).Sublist m := by
  intro fuel
  induction fuel with
  | zero => intro m; exact List.Sublist.refl _
  | succ fuel ih =>
    intro m
    rw [removeExcess]
    split
    · exact (ih _).trans List.filter_sublist
    · exact List.Sublist.refl _

theorem pickMany_sublist (cands : List SUtxo) (target : Assets) (pe : List SUtxo → Nat)
    (ht : WF target) (hu : UWF cands) : (pickMany cands target pe).Sublist cands := by
  obtain ⟨_, _, t, hts, hte⟩ := pickManyLoop_inv target cands [] target ht hu (by intro c; simp)
  unfold pickMany
  generalize pickManyLoop cands [] target = r at hte
  obtain ⟨matched, pending⟩ := r
  simp only [List.nil_append] at hte ⊢
  split
  · exact List.nil_sublist _
  · rw [hte]; exact (removeExcess_sublist pe target _ _).trans hts

theorem pickSingle_refs_nodup (cands : List SUtxo) (target : Assets) :
    ((pickSingle cands target).map (·.ref)).Nodup := by
  unfold pickSingle; split <;> simp

/-- The refs bound to one block are pairwise distinct. -/
theorem selectOne_refs_nodup (st : Store) (o : Oracle) (ho : o.Sane) (sp : SearchSpace) (q : CQuery)
    (ignored : List UtxoRef) (hst : (st.map (·.ref)).Nodup) (hsw : UWF st) (htw : WF (targetOf q)) :
    ((selectOne st o sp q ignored).map (·.ref)).Nodup := by
  unfold selectOne
  simp only
  have key : ∀ (fetched : List SUtxo), (∀ v ∈ fetched, v ∈ st) → (fetched.map (·.ref)).Nodup →
      ((if q.many = true then pickMany (o.order fetched) (targetOf q) o.pickExcess
        else pickSingle (o.order fetched) (targetOf q)).map (·.ref)).Nodup := by
    intro fetched hsub hnd
    have huwf : UWF (o.order fetched) := fun v hv => hsw v (hsub v (ho.order_sub _ v hv))
    split
    · exact List.Nodup.sublist (List.Sublist.map _ (pickMany_sublist _ _ _ htw huwf))
        (ho.order_refs _ hnd)
    · exact pickSingle_refs_nodup _ _
  have hsub0 : ∀ v ∈ ((st.fetch ((sp.take window o.fill).filter fun r => !ignored.contains r)).filter
      (hardOk q)), v ∈ st := by
    intro v hv
    have := (List.mem_filter.mp hv).1
    unfold Store.fetch at this
    exact (List.mem_filter.mp this).1
  by_cases hcoll : q.collateral = true
  · simp only [hcoll, ↓reduceIte]
    exact key _ (fun v hv => hsub0 v (List.mem_filter.mp hv).1)
      (List.Nodup.sublist (List.Sublist.map _ List.filter_sublist) (fetch_refs_nodup hst _ _))
  · simp only [hcoll, Bool.false_eq_true, ↓reduceIte]
    exact key _ hsub0 (fetch_refs_nodup hst _ _)

/-- Refs bound so far through non-collateral blocks, block after block. -/
def SelState.inputRefs (s : SelState) : List UtxoRef :=
  (s.selected.filter fun e => !e.2.1).flatMap fun e => e.2.2.map (·.ref)

/-- **Invariant of the resolve loop**: `ignore` is exactly the concatenation of the
non-collateral selections made so far, and it never holds a UTxO twice. -/
theorem resolveQueries_inv (st : Store) (o : Oracle) (ho : o.Sane)
    (hst : (st.map (·.ref)).Nodup) (hsw : UWF st) :
    ∀ (qs : List (String × CQuery)) (s s' : SelState),
    (∀ nq ∈ qs, WF (targetOf nq.2)) →
    s.ignore = s.inputRefs → s.ignore.Nodup →
    resolveQueries st o qs s = .ok s' →
    s'.ignore = s'.inputRefs ∧ s'.ignore.Nodup := by
  intro qs
  induction qs with
  | nil =>
    intro s s' _ h1 h2 hr
    simp only [resolveQueries] at hr
    cases hr; exact ⟨h1, h2⟩
  | cons nq rest ih =>
    intro s s' hw h1 h2 hr
    obtain ⟨name, q⟩ := nq
    rw [resolveQueries] at hr
    have htw : WF (targetOf q) := hw (name, q) List.mem_cons_self
    have hw' : ∀ nq ∈ rest, WF (targetOf nq.2) := fun nq h => hw nq (List.mem_cons_of_mem _ h)
    cases hn : narrowSearchSpace st q with
    | none => simp only [hn] at hr; cases hr
    | some sp =>
      simp only [hn] at hr
      by_cases hcoll : q.collateral = true
      · simp only [hcoll, ↓reduceIte] at hr
        by_cases hemp : (selectOne st o sp q s.ignoreCollateral).isEmpty = true
        · simp only [hemp, ↓reduceIte] at hr; cases hr
        · simp only [hemp, Bool.false_eq_true, ↓reduceIte] at hr
          refine ih _ s' hw' ?_ ?_ hr
          · simp only [SelState.inputRefs, List.filter_append, List.flatMap_append] at h1 ⊢
            simp [h1]
          · exact h2
      · simp only [hcoll, Bool.false_eq_true, ↓reduceIte] at hr
        by_cases hemp : (selectOne st o sp q s.ignore).isEmpty = true
        · simp only [hemp, ↓reduceIte] at hr; cases hr
        · simp only [hemp, Bool.false_eq_true, ↓reduceIte] at hr
          have hsound := C03_select_sound st o ho sp q s.ignore hst hsw htw
          have hnd := selectOne_refs_nodup st o ho sp q s.ignore hst hsw htw
          refine ih _ s' hw' ?_ ?_ hr
          · simp only [SelState.inputRefs, List.filter_append, List.flatMap_append] at h1 ⊢
            simp [h1]
          · simp only
            rw [List.nodup_append]
            refine ⟨h2, hnd, ?_⟩
            intro a ha b hb hab
            subst hab
            obtain ⟨u, hu, hur⟩ := List.mem_map.mp hb
            exact (hsound u hu).2.2.1 (hur ▸ ha)

/-- **C04.** When resolution succeeds, no UTxO is bound twice — neither by two different
non-collateral blocks nor twice within one — for every store, every combination of overlapping
queries and every oracle; collateral is the only block that may overlap a regular input. -/
theorem C04_disjoint (st : Store) (o : Oracle) (ho : o.Sane)
    (hst : (st.map (·.ref)).Nodup) (hsw : UWF st)
    (qs : List (String × CQuery)) (hw : ∀ nq ∈ qs, WF (targetOf nq.2)) (s' : SelState)
    (hr : resolveQueries st o qs {} = .ok s') : s'.inputRefs.Nodup := by
  have := resolveQueries_inv st o ho hst hsw qs {} s' hw (by simp [SelState.inputRefs]) (by simp) hr
  rw [← this.1]; exact this.2

/-- If the store cannot serve a block, resolution fails instead of reusing a UTxO: a
successful resolution binds a non-empty set to every block. -/
theorem C04_every_block_bound (st : Store) (o : Oracle) :
    ∀ (qs : List (String × CQuery)) (s s' : SelState),
    resolveQueries st o qs s = .ok s' →
    (∀ e ∈ s.selected, e.2.2 ≠ []) → ∀ e ∈ s'.selected, e.2.2 ≠ [] := by
  intro qs
  induction qs with
  | nil => intro s s' hr h; simp only [resolveQueries] at hr; cases hr; exact h
  | cons nq rest ih =>
    intro s s' hr h
    obtain ⟨name, q⟩ := nq
    rw [resolveQueries] at hr
    cases hn : narrowSearchSpace st q with
    | none => simp only [hn] at hr; cases hr
    | some sp =>
      simp only [hn] at hr
      by_cases hcoll : q.collateral = true
      · simp only [hcoll, ↓reduceIte] at hr
        by_cases hemp : (selectOne st o sp q s.ignoreCollateral).isEmpty = true
        · simp only [hemp, ↓reduceIte] at hr; cases hr
        · simp only [hemp, Bool.false_eq_true, ↓reduceIte] at hr
          apply ih _ s' hr
          intro e he
          simp only [List.mem_append, List.mem_singleton] at he
          rcases he with he | he
          · exact h e he
          · subst he
            intro hc; simp only at hc; simp [hc] at hemp
      · simp only [hcoll, Bool.false_eq_true, ↓reduceIte] at hr
        by_cases hemp : (selectOne st o sp q s.ignore).isEmpty = true
        · simp only [hemp, ↓reduceIte] at hr; cases hr
        · simp only [hemp, Bool.false_eq_true, ↓reduceIte] at hr
          apply ih _ s' hr
          intro e he
          simp only [List.mem_append, List.mem_singleton] at he
          rcases he with he | he
          · exact h e he
          · subst he
            intro hc; simp only at hc; simp [hc] at hemp

end Tx3
