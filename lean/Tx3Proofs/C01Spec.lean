import Tx3Proofs.C01Lovelace

/-!
# C01 — the independent semantics and the pipeline agree on the lovelace fragment

`eval` (Tx3Model/Lang.lean) is the big-step semantics `⟦·⟧` the per-case judge evaluates on the generator's own
tree; it knows nothing of lowering or of the reducer.  On the lovelace fragment it yields the one-entry bag holding
`den e` lovelace (`eval_lovelace`), and `C01_lovelace_fragment` says the pipeline's reduced constant denotes
exactly `den e` lovelace and nothing else: the two meet (`C01_spec_meets_pipeline`).
-/

namespace Tx3.Lang
open Tx3 Tx3.Expr Outcome

/-- The value `⟦·⟧` gives an amount of lovelace: no entry for zero. -/
def lov (v : Int) : Bag := Bag.single ([], []) v

theorem lov_def (v : Int) : lov v = if v = 0 then [] else [(([], []), v)] := by
  unfold lov Bag.single Bag.norm
  by_cases h : v = 0 <;> simp [h]

theorem lov_add (a b : Int) : Bag.add (lov a) (lov b) = lov (a + b) := by
  rw [lov_def a, lov_def b, lov_def (a + b)]
  by_cases ha : a = 0 <;> by_cases hb : b = 0 <;> by_cases hab : a + b = 0 <;>
    simp [ha, hb, hab, Bag.add, Bag.norm, Bag.insertAdd, keyLe, bytesLe, bytesLt] <;> omega

theorem lov_neg (b : Int) : Bag.neg (lov b) = lov (-b) := by
  rw [lov_def b, lov_def (-b)]
  by_cases hb : b = 0 <;> simp [hb, Bag.neg]

theorem lov_sub (a b : Int) : Bag.sub (lov a) (lov b) = lov (a - b) := by
  unfold Bag.sub
  rw [lov_neg, lov_add]
  congr 1

theorem eval_lovelace (ρ : Env) (ints : String → Int) (mode : Mode) :
    ∀ (e : AExp), ParamsOf ρ ints e.pars → ∀ k, eval ρ (e.depth + 1 + k) mode e.toL = .ok (.assets (lov (e.den ints)))
  | .ada i, h, k => by
    have hi := eval_int ρ ints mode i h k
    rw [show (AExp.ada i).depth + 1 + k = (i.depth + 1 + k) + 1 by simp only [AExp.depth]; omega, AExp.toL, eval]
    simp only [if_true, hi, ok_bind]
    rfl
  | .add a b, h, k => by
    have ha := eval_lovelace ρ ints mode a (fun x hx => h x (by simp [AExp.pars, hx])) (max a.depth b.depth - a.depth + k)
    have hb := eval_lovelace ρ ints mode b (fun x hx => h x (by simp [AExp.pars, hx])) (max a.depth b.depth - b.depth + k)
    rw [show a.depth + 1 + (max a.depth b.depth - a.depth + k) = max a.depth b.depth + 1 + k by omega] at ha
    rw [show b.depth + 1 + (max a.depth b.depth - b.depth + k) = max a.depth b.depth + 1 + k by omega] at hb
    rw [show (AExp.add a b).depth + 1 + k = (max a.depth b.depth + 1 + k) + 1 by simp only [AExp.depth]; omega, AExp.toL, eval]
    simp only [ha, hb, ok_bind, lov_add, AExp.den]
  | .sub a b, h, k => by
    have ha := eval_lovelace ρ ints mode a (fun x hx => h x (by simp [AExp.pars, hx])) (max a.depth b.depth - a.depth + k)
    have hb := eval_lovelace ρ ints mode b (fun x hx => h x (by simp [AExp.pars, hx])) (max a.depth b.depth - b.depth + k)
    rw [show a.depth + 1 + (max a.depth b.depth - a.depth + k) = max a.depth b.depth + 1 + k by omega] at ha
    rw [show b.depth + 1 + (max a.depth b.depth - b.depth + k) = max a.depth b.depth + 1 + k by omega] at hb
    rw [show (AExp.sub a b).depth + 1 + k = (max a.depth b.depth + 1 + k) + 1 by simp only [AExp.depth]; omega, AExp.toL, eval]
    simp only [ha, hb, ok_bind, lov_sub, AExp.den]

/-- **C01: the independent semantics and the pipeline meet** on the lovelace fragment: `⟦e⟧` is `den e` lovelace,
and lowering, applying the arguments and reducing `e` yields a constant denoting `den e` lovelace and nothing else. -/
theorem C01_spec_meets_pipeline (ρ : Env) (s : Scope) (σ : ArgMap) (ints : String → Int) (ctx : Ctx) (mode : Mode)
    (hl : ctx.lvl ≠ 0) (hA : AdaBuiltin s) (e : AExp) (hρ : ParamsOf ρ ints e.pars) (hs : ScopeOf s σ ints e.pars)
    (hf : e.Fits ints) (k m : Nat) :
    eval ρ (e.depth + 1 + k) mode e.toL = .ok (.assets (lov (e.den ints))) ∧
    ∃ t r, lowerE s (e.depth + 1 + k) ctx e.toL = .ok t ∧
      reduceF (e.depth + 2 + m) (applyArgs σ t) = .ok r ∧ DenotesLovelace r (e.den ints) :=
  ⟨eval_lovelace ρ ints mode e hρ k, C01_lovelace_fragment s σ ints ctx hl hA e hs hf k m⟩

end Tx3.Lang
