import Tx3Model.Reduce
import Tx3Proofs.Lemmas.Outcome

/-!
# C15 — `a - b = a + (-b)` where the reducer meets values

One level above the canonical values: the reducer's subtraction on the operands an amount can reduce to - nothing
at all (`None`, which `+` treats as the empty value), a number, an asset list - is, by definition or by computation,
addition of the negation.  (Before the fix that accompanies this module `None - b` was `b`: the model said so too,
"as written"; the law was checked on the code by the `expr-law` probe of C15's check, which is what exposed it.)
-/

namespace Tx3
open Outcome Expr

/-- **The law, for every pair of operands**: whenever the left operand is one `-` accepts, `x - y` is `x + (-y)`
(same result, same error). -/
theorem C15_expr_sub_is_add_neg (x y : Expr)
    (hx : x = .leaf .none ∨ (∃ n, x = .leaf (.number n)) ∨ (∃ cs, x = .node .assets cs)) :
    arithSub x y = (arithNeg y >>= fun ny => arithAdd x ny) := by
  rcases hx with rfl | ⟨n, rfl⟩ | ⟨cs, rfl⟩
  · -- nothing less `y` is `-y`, and nothing plus `-y` is `-y`
    unfold arithSub
    cases h : arithNeg y with
    | ok ny => simp [arithAdd]
    | err e => rfl
    | panic e => rfl
  · rfl
  · rfl

/-- The witness of the repaired defect: nothing less five is minus five. -/
example : arithSub (.leaf .none) (.leaf (.number 5)) = .ok (.leaf (.number (-5))) := by
  simp [arithSub, arithNeg, inI128, i128Min, i128Max]

end Tx3
