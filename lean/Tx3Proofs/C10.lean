import Tx3Proofs.C02

/-!
# C10 — emitted transactions are well-formed and self-consistent (structural clauses)

Over the model of `compile/mod.rs`.  The byte-level clauses of the property (a standard decoder
accepts the payload, the reported hash is the digest of the body bytes, the auxiliary-data
hash equals the digest of what is carried, byte-identical recompilation) are runtime facts
about pallas' encoder and hasher; they are decided per case by the independent Lean CBOR /
Conway reader and by pallas' own decoder in the correspondence, not by theorems.
-/

namespace Tx3
open Outcome

/-- The network id in the body is the configured network. -/
theorem C10_network_id {env : CompileEnv} {t : Tx} {a : ATx} (h : compileAbs env t = .ok a) :
    a.networkId = some (if env.mainnet then 1 else 0) := (compileAbs_ok h).network

/-- The script-data hash is present exactly when redeemers are, the auxiliary-data hash exactly
when metadata is. -/
theorem C10_hash_presence {env : CompileEnv} {t : Tx} {a : ATx} (h : compileAbs env t = .ok a) :
    (a.hasScriptDataHash = true ↔ a.redeemers ≠ []) ∧ (a.hasAuxDataHash = true ↔ a.metadata ≠ []) := by
  have p := compileAbs_ok h
  rw [p.sdh, p.adh]
  constructor <;> simp [List.isEmpty_iff]

/-- The mint field never carries a zero quantity (and so never an asset that cancelled out). -/
theorem C10_no_zero_mint {env : CompileEnv} {t : Tx} {a : ATx} (h : compileAbs env t = .ok a) :
    ∀ x ∈ a.mint, x.2.2 ≠ 0 := fun x hx => (C02_mint_range h x hx).1

theorem rewardAccount_wf {env : CompileEnv} {e : Expr} {acct : Bytes}
    (h : exprIntoRewardAccount env e = .ok acct) :
    acct.length = 29 ∧ ∃ hd rest, acct = hd :: rest ∧ (hd.toNat / 16 = 14 ∨ hd.toNat / 16 = 15) := by
  unfold exprIntoRewardAccount at h
  obtain ⟨a, ha, h⟩ := bind_eq_ok.mp h
  -- whatever `exprIntoAddress` returns satisfies `addressOk` or is a 29-byte script address
  have hok : addressOk a = true ∨ (a.length = 29 ∧ ∃ x r, a = x :: r ∧ x.toNat / 16 = 7) := by
    unfold exprIntoAddress at ha
    split at ha
    · unfold bytesIntoAddress at ha; split at ha
      · cases ha; left; assumption
      · cases ha
    · unfold policyIntoAddress at ha
      obtain ⟨hh, hhh, ha⟩ := bind_eq_ok.mp ha
      cases ha
      unfold bytesIntoHash at hhh
      split at hhh
      · rename_i hl; cases hhh
        right
        refine ⟨by simp [hl], _, _, rfl, ?_⟩
        split <;> decide
      · cases hhh
    · unfold bytesIntoAddress at ha; split at ha
      · cases ha; left; assumption
      · cases ha
    · cases ha
    · cases ha
  cases a with
  | nil => cases h
  | cons hd rest =>
    simp only at h
    rcases hok with hok | ⟨hl, x, r, hx, hty⟩
    · unfold addressOk at hok
      simp only at hok
      split at h
      · cases h
        rename_i hty
        have : ¬ hd.toNat / 16 ≤ 3 := by
          rcases Bool.or_eq_true _ _ |>.mp hty with h1 | h1 <;> simp at h1 <;> omega
        simp only [this, ↓reduceIte] at hok
        have hne : ¬ ((hd.toNat / 16 == 6 || hd.toNat / 16 == 7) = true) := by
          rcases Bool.or_eq_true _ _ |>.mp hty with h1 | h1 <;> simp at h1 <;> simp <;> omega
        simp only [hne, Bool.false_eq_true, ↓reduceIte, hty] at hok
        refine ⟨by simpa using hok, hd, rest, rfl, ?_⟩
        rcases Bool.or_eq_true _ _ |>.mp hty with h1 | h1 <;> simp at h1 <;> omega
      · rename_i hn
        split at h
        · cases h
          rename_i hty
          have h03 : hd.toNat / 16 ≤ 3 := by
            rcases Bool.or_eq_true _ _ |>.mp hty with h1 | h1 <;> simp at h1 <;> omega
          simp only [h03, ↓reduceIte, decide_eq_true_eq] at hok
          have hlen : rest.length = 56 := by simp at hok; omega
          refine ⟨by simp [hlen], _, _, rfl, ?_⟩
          left
          have : hd.toNat % 16 < 16 := Nat.mod_lt _ (by omega)
          rw [UInt8.toNat_ofNat']
          omega
        · split at h
          · cases h
            rename_i hty
            have h03 : hd.toNat / 16 ≤ 3 := by
              rcases Bool.or_eq_true _ _ |>.mp hty with h1 | h1 <;> simp at h1 <;> omega
            simp only [h03, ↓reduceIte, decide_eq_true_eq] at hok
            have hlen : rest.length = 56 := by simp at hok; omega
            refine ⟨by simp [hlen], _, _, rfl, ?_⟩
            right
            have : hd.toNat % 16 < 16 := Nat.mod_lt _ (by omega)
            rw [UInt8.toNat_ofNat']
            omega
          · cases h
    · cases hx
      split at h
      · rename_i hty'
        rcases Bool.or_eq_true _ _ |>.mp hty' with h1 | h1 <;> simp at h1 <;> omega
      · split at h
        · rename_i hty'
          rcases Bool.or_eq_true _ _ |>.mp hty' with h1 | h1 <;> simp at h1 <;> omega
        · split at h
          · rename_i hty'
            rcases Bool.or_eq_true _ _ |>.mp hty' with h1 | h1 <;> simp at h1 <;> omega
          · cases h

theorem insertKV_forall {P : Bytes × Int → Prop} : ∀ (l : List (Bytes × Int)) (k : Bytes) (v : Int), P (k, v) →
    (∀ w ∈ l, P w) → ∀ w ∈ insertKV k v l, P w := by
  intro l
  induction l with
  | nil => intro k v hv _ w hw; simp [insertKV] at hw; subst hw; exact hv
  | cons x xs ihl =>
    intro k v hv hl w hw
    obtain ⟨k', v'⟩ := x
    rw [insertKV] at hw
    split at hw
    · rcases List.mem_cons.mp hw with hw | hw
      · subst hw; exact hv
      · exact hl w (List.mem_cons_of_mem _ hw)
    · split at hw
      · rcases List.mem_cons.mp hw with hw | hw
        · subst hw; exact hv
        · exact hl w hw
      · rcases List.mem_cons.mp hw with hw | hw
        · subst hw; exact hl _ List.mem_cons_self
        · exact ihl k v hv (fun w h => hl w (List.mem_cons_of_mem _ h)) w hw

/-- Withdrawals are keyed by well-formed reward accounts: 29 bytes, a stake-address header. -/
theorem C10_reward_accounts {env : CompileEnv} {t : Tx} {a : ATx} (h : compileAbs env t = .ok a) :
    ∀ w ∈ a.withdrawals, w.1.length = 29 ∧
      ∃ hd rest, w.1 = hd :: rest ∧ (hd.toNat / 16 = 14 ∨ hd.toNat / 16 = 15) := by
  have hw := (compileAbs_ok h).withdrawals
  unfold compileWithdrawals at hw
  let P : Bytes × Int → Prop := fun w => w.1.length = 29 ∧
      ∃ hd rest, w.1 = hd :: rest ∧ (hd.toNat / 16 = 14 ∨ hd.toNat / 16 = 15)
  have key : ∀ (ds : List Expr) (acc r : List (Bytes × Int)),
      (∀ w ∈ acc, P w) → compileWithdrawals.go env ds acc = .ok r → ∀ w ∈ r, P w := by
    intro ds
    induction ds with
    | nil => intro acc r hacc hr; rw [compileWithdrawals.go] at hr; cases hr; exact hacc
    | cons d rest ih =>
      intro acc r hacc hr
      rw [compileWithdrawals.go] at hr
      obtain ⟨w, hwd, hr⟩ := bind_eq_ok.mp hr
      split at hr
      · cases hr
      · apply ih _ r _ hr
        unfold compileWithdrawalDirective at hwd
        obtain ⟨_, _, hwd⟩ := bind_eq_ok.mp hwd
        obtain ⟨acct, hacct, hwd⟩ := bind_eq_ok.mp hwd
        obtain ⟨_, _, hwd⟩ := bind_eq_ok.mp hwd
        obtain ⟨n, _, hwd⟩ := bind_eq_ok.mp hwd
        obtain ⟨m, hm, hwd⟩ := bind_eq_ok.mp hwd
        cases hwd
        exact insertKV_forall acc _ _ (rewardAccount_wf hacct) hacc
  exact key _ [] _ (fun w hw => by cases hw) hw

/-- Everything the structural part of the property asks of a compiled transaction. -/
theorem C10_wf {env : CompileEnv} {t : Tx} {a : ATx} (h : compileAbs env t = .ok a) :
    a.networkId = some (if env.mainnet then 1 else 0) ∧
    (a.hasScriptDataHash = true ↔ a.redeemers ≠ []) ∧ (a.hasAuxDataHash = true ↔ a.metadata ≠ []) ∧
    (∀ x ∈ a.mint, x.2.2 ≠ 0) ∧
    (∀ w ∈ a.withdrawals, w.1.length = 29) :=
  ⟨C10_network_id h, (C10_hash_presence h).1, (C10_hash_presence h).2, C10_no_zero_mint h,
   fun w hw => (C10_reward_accounts h w hw).1⟩

end Tx3
