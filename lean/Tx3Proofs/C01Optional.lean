import Tx3Model.Compile
import Tx3Proofs.Lemmas.Outcome

/-!
# C01 / C02 — optional outputs: left out exactly when they carry nothing

`output? name { … }` is part of the body only if it carries something.  Over the compile model: an optional output
whose block compiles is kept if and only if its lovelace is positive or it lists a native asset (and every listed asset
has a positive quantity: `C10_output_quantities_positive`); a block that is not optional is always kept; a mint or burn
entry written with quantity zero is refused, never dropped (the clause seed C02-09 went against).
-/

namespace Tx3
open Outcome

/-- **Kept iff it carries something.** -/
theorem C01_optional_output_kept_iff (out : AOutput) :
    outputHasAssets (.ok out) = true ↔ (0 < out.coin ∨ out.assets ≠ []) := by
  unfold outputHasAssets
  cases h : out.assets with
  | nil => simp [h]
  | cons a as => simp [h]

/-- A block that fails to compile is not dropped for being optional: the error surfaces. -/
theorem C01_optional_output_error_kept (e : String) : outputHasAssets (.err e : Outcome AOutput) = true := by
  simp [outputHasAssets]

/-- **A zero mint is refused**: a mint or burn entry whose quantity is 0 makes the compile model fail, for a mint and
for a burn block alike. -/
theorem C02_zero_mint_refused (isBurn : Bool) (p n : Expr) :
    ∀ r, compileMintAsset isBurn p n (.leaf (.number 0)) ≠ .ok r := by
  intro r h
  unfold compileMintAsset at h
  obtain ⟨pb, _, h⟩ := bind_eq_ok.mp h
  obtain ⟨ph, _, h⟩ := bind_eq_ok.mp h
  obtain ⟨nb, _, h⟩ := bind_eq_ok.mp h
  obtain ⟨amount, ha, h⟩ := bind_eq_ok.mp h
  obtain ⟨amount', ha', h⟩ := bind_eq_ok.mp h
  obtain ⟨amount'', ha'', h⟩ := bind_eq_ok.mp h
  have e0 : amount = 0 := by
    simp [exprIntoNumberC, exprIntoNumber] at ha; exact ha.symm
  subst e0
  have e1 : amount' = 0 := by
    cases isBurn <;> simp [inI128, i128Min, i128Max] at ha' <;> first | exact ha'.symm | (cases ha'; rfl)
  subst e1
  have e2 : amount'' = 0 := by
    simp [numberIntoI64, inI64, i64Min, i64Max] at ha''; exact ha''.symm
  subst e2
  simp [cerr] at h

end Tx3
