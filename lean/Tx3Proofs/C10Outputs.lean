import Tx3Model.Compile
import Tx3Proofs.Lemmas.Outcome

/-!
# C10 — the native assets of an output: every quantity positive and within 64 bits

The byte-level clause "no empty map, no zero entry inside a value" is decided per case on the real payload.  Its
counterpart over the compile model: whatever `compileOutputCore` produces holds, for every (policy, name) it lists, a
quantity in `[1, 2^64)` - an asset whose entries add up to nothing is not listed (there is nothing to add up to
nothing: only strictly positive entries are ever inserted, and sums of those stay positive), and a total beyond 64 bits
is refused rather than wrapped.
-/

namespace Tx3
open Outcome

theorem insertAsset_pos (p n : Bytes) (q : Int) (hq : 0 < q) :
    ∀ l : List (Bytes × Bytes × Int), (∀ a ∈ l, 0 < a.2.2) → ∀ a ∈ insertAsset p n q l, 0 < a.2.2
  | [], _, a, ha => by simp [insertAsset] at ha; subst ha; exact hq
  | (p', n', q') :: rest, hl, a, ha => by
    have hq' : 0 < q' := hl (p', n', q') (by simp)
    rw [insertAsset] at ha
    split at ha
    · rcases List.mem_cons.mp ha with rfl | ha
      · show 0 < q' + q; omega
      · exact hl a (by simp [ha])
    · split at ha
      · rcases List.mem_cons.mp ha with rfl | ha
        · exact hq
        · exact hl a ha
      · rcases List.mem_cons.mp ha with rfl | ha
        · exact hq'
        · exact insertAsset_pos p n q hq rest (fun b hb => hl b (by simp [hb])) a ha

/-- A value compiled from one entry is a coin or a strictly positive native amount. -/
theorem compileValue_asset_pos (p n a : Expr) (ph nb : Bytes) (q : Int)
    (h : compileValue p n a = .ok (.asset ph nb q)) : 0 < q := by
  unfold compileValue at h
  obtain ⟨amount, _, h⟩ := bind_eq_ok.mp h
  split at h
  · cases h
  · split at h
    · obtain ⟨pb, _, h⟩ := bind_eq_ok.mp h
      obtain ⟨ph', _, h⟩ := bind_eq_ok.mp h
      obtain ⟨nb', _, h⟩ := bind_eq_ok.mp h
      obtain ⟨am, _, h⟩ := bind_eq_ok.mp h
      obtain ⟨am', ham', h⟩ := bind_eq_ok.mp h
      split at h
      · simp [cerr] at h
      · rename_i hne
        cases h
        unfold numberIntoU64 at ham'
        split at ham'
        · rename_i hin
          cases ham'
          simp only [inU64, decide_eq_true_eq] at hin
          omega
        · simp [cerr] at ham'
    · cases h

theorem compileValues_assets_pos : ∀ (cs : List Expr) (vs : List CValue), compileValues cs = .ok vs →
    ∀ ph nb q, CValue.asset ph nb q ∈ vs → 0 < q
  | [], vs, h, _, _, _, hm => by simp [compileValues] at h; subst h; cases hm
  | [_], vs, h, _, _, _, hm => by simp [compileValues] at h; subst h; cases hm
  | [_, _], vs, h, _, _, _, hm => by simp [compileValues] at h; subst h; cases hm
  | p :: n :: a :: rest, vs, h, ph, nb, q, hm => by
    rw [compileValues] at h
    obtain ⟨v, hv, h⟩ := bind_eq_ok.mp h
    obtain ⟨vs', hvs', h⟩ := bind_eq_ok.mp h
    cases h
    rcases List.mem_cons.mp hm with rfl | hm
    · exact compileValue_asset_pos p n a ph nb q hv
    · exact compileValues_assets_pos rest vs' hvs' ph nb q hm

theorem foldl_addTo_pos : ∀ (vs : List CValue) (acc : List (Bytes × Bytes × Int)),
    (∀ ph nb q, CValue.asset ph nb q ∈ vs → 0 < q) → (∀ a ∈ acc, 0 < a.2.2) →
    ∀ a ∈ vs.foldl CValue.addTo acc, 0 < a.2.2
  | [], acc, _, hacc, a, ha => hacc a (by simpa using ha)
  | v :: vs, acc, hv, hacc, a, ha => by
    simp only [List.foldl_cons] at ha
    refine foldl_addTo_pos vs _ (fun ph nb q hm => hv ph nb q (by simp [hm])) ?_ a ha
    intro b hb
    cases v with
    | coin c => exact hacc b (by simpa [CValue.addTo] using hb)
    | asset ph nb q =>
      exact insertAsset_pos ph nb q (hv ph nb q (by simp)) acc hacc b (by simpa [CValue.addTo] using hb)

/-- **Every listed native asset of a compiled output has a quantity in `[1, 2^64)`.** -/
theorem C10_output_quantities_positive (env : CompileEnv) (address amount : Expr) (datum : Option Expr)
    (out : AOutput) (h : compileOutputCore env address amount datum = .ok out) :
    ∀ a ∈ out.assets, 0 < a.2.2 ∧ a.2.2 ≤ u64Max := by
  unfold compileOutputCore at h
  obtain ⟨addr, _, h⟩ := bind_eq_ok.mp h
  obtain ⟨cs, _, h⟩ := bind_eq_ok.mp h
  obtain ⟨vs, hvs, h⟩ := bind_eq_ok.mp h
  obtain ⟨ca, hca, h⟩ := bind_eq_ok.mp h
  obtain ⟨coin, assets⟩ := ca
  obtain ⟨d, _, h⟩ := bind_eq_ok.mp h
  cases h
  unfold aggregateOutput at hca
  simp only at hca
  split at hca
  · simp [cerr] at hca
  · rename_i hguard
    cases hca
    intro a ha
    refine ⟨foldl_addTo_pos vs [] (compileValues_assets_pos cs vs hvs) (fun b hb => by cases hb) a ha, ?_⟩
    simp only [Bool.or_eq_true, decide_eq_true_eq, List.any_eq_true, not_or, not_exists, not_and] at hguard
    have := hguard.2 a ha
    omega

end Tx3
