import Tx3Model.Analyze
import Tx3Proofs.Lemmas.Outcome

/-!
# C13 — a program the analyzer accepts can always be lowered

`analyze` (as repaired) ends with a trial lowering of every transaction.  Over the model of
that chaining — with name resolution an *arbitrary* report `core` — and the model of
`lowering.rs`:

* `C13`            an empty report implies every transaction lowers (by position and by name);
* `C13_reports`    conversely every transaction that cannot be lowered is named in the report of a
                   program whose name resolution is clean — no mistake is silently accepted;
* `lowerTx_noPanic` the lowering model never panics (every `expect`/`todo!`/indexing of
                   `lowering.rs` has become an error), hence neither does `analyze`;
* `C13_facade`     `Workspace::lower` never panics and never reaches its `unwrap` on an `Err`.
-/

namespace Tx3.Lang
open Tx3 Tx3.Outcome

/-! ### the lowering model never panics -/

theorem np_lerr {α} (e : String) : NoPanic (lerr e : Outcome α) := np_err _

/-- Closes `NoPanic` goals about one unfolded step of the lowering model by structure; recursive
calls are closed by the three named hypotheses.  Unification is kept reducible so that no model
function is unfolded while matching. -/
macro "np_low" hE:ident hL:ident hI:ident : tactic => `(tactic| repeat (first
  | with_reducible exact np_ok _ | with_reducible exact np_err _ | with_reducible exact np_pure _
  | with_reducible exact np_lerr _
  | with_reducible exact $hE _ _ | with_reducible exact $hL _ _ | with_reducible exact $hI _ _
  | with_reducible apply np_bind | with_reducible apply np_mapMO
  | split | dsimp only | intro _ | contradiction | (exfalso; simp_all; done)))

theorem lowerE_step (s : Scope) (n : Nat)
    (hE' : ∀ c x, NoPanic (lowerE s n c x)) (hL' : ∀ c x, NoPanic (lowerL s n c x))
    (hI' : ∀ c x, NoPanic (lowerInput s n c x)) (ctx : Ctx) (e : LExpr) :
    NoPanic (lowerE s (n + 1) ctx e) := by
  cases e with
  | leaf l => cases l <;> rw [lowerE] <;> np_low hE' hL' hI'
  | node k cs =>
    cases k with
    | prop f =>
      rcases cs with _ | ⟨a, _ | ⟨b, rest⟩⟩
      · rw [lowerE] <;> np_low hE' hL' hI'
      · rcases a with l | ⟨k', cs'⟩
        · cases l <;> rw [lowerE] <;> np_low hE' hL' hI'
        · rw [lowerE] <;> np_low hE' hL' hI'
      · rw [lowerE] <;> np_low hE' hL' hI'
    | list => rw [lowerE] <;> np_low hE' hL' hI'
    | map => rw [lowerE] <;> np_low hE' hL' hI'
    | record ty c fs sp => rw [lowerE] <;> np_low hE' hL' hI'
    | _ => rcases cs with _ | ⟨a, _ | ⟨b, _ | ⟨c, _ | ⟨d, rest⟩⟩⟩⟩ <;> rw [lowerE] <;> np_low hE' hL' hI'

theorem lower_np (s : Scope) : ∀ fuel : Nat,
    (∀ ctx e, NoPanic (lowerE s fuel ctx e)) ∧ (∀ ctx l, NoPanic (lowerL s fuel ctx l)) ∧
    (∀ ctx b, NoPanic (lowerInput s fuel ctx b)) := by
  intro fuel
  induction fuel with
  | zero =>
    refine ⟨?_, ?_, ?_⟩
    · intro ctx e; unfold lowerE; exact np_lerr _
    · intro ctx l; unfold lowerL; exact np_lerr _
    · intro ctx b; unfold lowerInput; exact np_lerr _
  | succ n ih =>
    obtain ⟨ihE, ihL, ihI⟩ := ih
    refine ⟨lowerE_step s n ihE ihL ihI, ?_, ?_⟩
    · intro ctx l
      induction l with
      | nil => unfold lowerL; exact np_ok _
      | cons c cs ihl =>
        unfold lowerL
        exact np_bind (ihE _ _) fun _ => np_bind ihl fun _ => np_ok _
    · intro ctx b
      rw [lowerInput]
      np_low ihE ihL ihI

theorem lowerE_noPanic (s : Scope) (fuel : Nat) (ctx : Ctx) (e : LExpr) : NoPanic (lowerE s fuel ctx e) :=
  (lower_np s fuel).1 ctx e
theorem lowerInput_noPanic (s : Scope) (fuel : Nat) (ctx : Ctx) (b : InputBlock) :
    NoPanic (lowerInput s fuel ctx b) := (lower_np s fuel).2.2 ctx b

theorem lowerOpt_noPanic (s : Scope) (c : Ctx) (e : Option LExpr) : NoPanic (lowerOpt s c e) := by
  unfold lowerOpt; split
  · exact lowerE_noPanic _ _ _ _
  · exact np_ok _

/-- **The lowering model never panics**, whatever the program and the transaction. -/
theorem lowerTx_noPanic (s : Scope) : NoPanic (lowerTx s) := by
  have hE : ∀ (c : Ctx) (e : LExpr), NoPanic (lowerE s (lowerFuel s) c e) := fun c e => lowerE_noPanic s _ c e
  have hI : ∀ (c : Ctx) (b : InputBlock), NoPanic (lowerInput s (lowerFuel s) c b) :=
    fun c b => lowerInput_noPanic s _ c b
  have hO : ∀ (c : Ctx) (e : Option LExpr), NoPanic (lowerOpt s c e) := lowerOpt_noPanic s
  unfold lowerTx
  np_low hE hO hI

/-! ### chain-specific directives (`cardano.rs`) -/

theorem lowerDirective_noPanic (s : Scope) (fuel : Nat) (ctx : Ctx) (w : String) (fs : List (String × LExpr)) :
    NoPanic (lowerDirective s fuel ctx w fs) := by
  unfold lowerDirective
  simp only
  split
  · split
    · exact np_lerr _
    · exact np_lerr _
    · refine np_bind (lowerE_noPanic _ _ _ _) fun _ => np_bind (lowerE_noPanic _ _ _ _) fun _ => np_bind ?_ fun _ => np_ok _
      split
      · exact lowerE_noPanic _ _ _ _
      · exact np_ok _
  · split
    · exact np_lerr _
    · refine np_bind (np_mapMO (fun kv => np_bind (lowerE_noPanic _ _ _ _) fun _ => np_ok _) _) fun _ => np_ok _

theorem lowerTxFull_noPanic (s : Scope) : NoPanic (lowerTxFull s) := by
  unfold lowerTxFull
  exact np_bind (lowerTx_noPanic s) fun _ =>
    np_bind (np_mapMO (fun d => lowerDirective_noPanic _ _ _ _ _) _) fun _ => np_ok _

/-! ### the chaining -/

theorem trial_nil (p : Program) : trial p [] = .ok [] := rfl
theorem trial_cons (p : Program) (tx : TxDef) (rest : List TxDef) :
    trial p (tx :: rest) =
      (match lowerOf p tx with
       | .ok _ => trial p rest
       | .err e =>
         (match trial p rest with
          | .ok ds => .ok (.notLowerable tx.name e :: ds)
          | .err x => .err x
          | .panic s => .panic s)
       | .panic s => .panic s) := by
  show trialWith TxDef.name (lowerOf p) (tx :: rest) = _
  rw [trialWith]
  cases lowerOf p tx with
  | ok a => rfl
  | err e => simp only [trial]; cases trialWith TxDef.name (lowerOf p) rest <;> rfl
  | panic s => rfl

/-- `analyze` is `analyzeWith` at the model's own lowering. -/
theorem analyze_eq_analyzeWith (core : Program → List Diag) (p : Program) :
    analyze core p = analyzeWith (core p) TxDef.name (lowerOf p) p.txs := by
  unfold analyze analyzeWith trial
  cases core p <;> rfl

theorem trial_nil_iff (p : Program) (txs : List TxDef) :
    trial p txs = .ok [] ↔ ∀ tx ∈ txs, ∃ t, lowerOf p tx = .ok t := by
  induction txs with
  | nil => simp [trial_nil]
  | cons tx rest ih =>
    rw [trial_cons]
    cases h : lowerOf p tx with
    | ok t =>
      simp only
      rw [ih]
      constructor
      · intro hr x hx
        rcases List.mem_cons.mp hx with rfl | hx
        · exact ⟨t, h⟩
        · exact hr x hx
      · intro hr x hx; exact hr x (List.mem_cons_of_mem _ hx)
    | err e =>
      simp only
      constructor
      · intro hr
        cases ht : trial p rest <;> rw [ht] at hr <;> cases hr
      · intro hr
        obtain ⟨t, ht⟩ := hr tx List.mem_cons_self
        rw [h] at ht; cases ht
    | panic s' =>
      simp only
      constructor
      · intro hr; cases hr
      · intro hr
        obtain ⟨t, ht⟩ := hr tx List.mem_cons_self
        rw [h] at ht; cases ht

/-- **C13.** If analysis reports no errors, lowering every transaction of the program succeeds —
for every program and every name-resolution report. -/
theorem C13 (core : Program → List Diag) (p : Program) (h : analyze core p = .ok []) :
    ∀ tx ∈ p.txs, ∃ t, lowerOf p tx = .ok t := by
  unfold analyze at h
  cases hc : core p with
  | nil => rw [hc] at h; exact (trial_nil_iff p p.txs).mp h
  | cons d ds => rw [hc] at h; cases h

/-- The same through `lowering::lower(ast, name)`, which picks the first transaction of that name
(also when two transactions share one). -/
theorem C13_by_name (core : Program → List Diag) (p : Program) (h : analyze core p = .ok []) :
    ∀ tx ∈ p.txs, ∃ t, lowerByName p tx.name = .ok t := by
  intro tx htx
  unfold lowerByName
  cases hf : p.txs.find? (fun t => t.name == tx.name) with
  | some tx' =>
    exact C13 core p h tx' (List.mem_of_find?_eq_some hf)
  | none =>
    have := List.find?_eq_none.mp hf tx htx
    simp at this

theorem trial_mem (p : Program) (txs : List TxDef) (ds : List Diag) (h : trial p txs = .ok ds)
    (tx : TxDef) (htx : tx ∈ txs) (e : String) (he : lowerOf p tx = .err e) :
    Diag.notLowerable tx.name e ∈ ds := by
  induction txs generalizing ds with
  | nil => cases htx
  | cons x rest ih =>
    rw [trial_cons] at h
    rcases List.mem_cons.mp htx with rfl | hin
    · rw [he] at h
      simp only at h
      cases ht : trial p rest <;> rw [ht] at h <;> cases h
      exact List.mem_cons_self
    · cases hx : lowerOf p x with
      | ok t => rw [hx] at h; exact ih ds h hin
      | err e' =>
        rw [hx] at h
        simp only at h
        cases ht : trial p rest with
        | ok ds' =>
          rw [ht] at h; cases h
          exact List.mem_cons_of_mem _ (ih ds' ht hin)
        | err x' => rw [ht] at h; cases h
        | panic s' => rw [ht] at h; cases h
      | panic s' => rw [hx] at h; cases h

theorem trial_noPanic (p : Program) (txs : List TxDef) : NoPanic (trial p txs) := by
  induction txs with
  | nil => exact np_ok _
  | cons tx rest ih =>
    rw [trial_cons]
    cases h : lowerOf p tx with
    | ok t => exact ih
    | err e =>
      simp only
      cases ht : trial p rest with
      | ok ds => exact np_ok _
      | err x => exact np_err _
      | panic s' => exact absurd ht (ih s')
    | panic s' => exact absurd h (lowerTxFull_noPanic _ s')

theorem trial_isOk (p : Program) (txs : List TxDef) : ∃ ds, trial p txs = .ok ds := by
  induction txs with
  | nil => exact ⟨[], rfl⟩
  | cons tx rest ih =>
    obtain ⟨ds, hds⟩ := ih
    rw [trial_cons]
    cases h : lowerOf p tx with
    | ok t => exact ⟨ds, hds⟩
    | err e => simp only [hds]; exact ⟨_, rfl⟩
    | panic s' => exact absurd h (lowerTxFull_noPanic _ s')

/-- `analyze` never panics and always returns a report. -/
theorem analyze_total (core : Program → List Diag) (p : Program) : ∃ ds, analyze core p = .ok ds := by
  unfold analyze
  split
  · exact trial_isOk p p.txs
  · exact ⟨_, rfl⟩

/-- **Every mistake that makes lowering impossible is reported.** If name resolution is clean and
lowering some transaction fails, the report names that transaction with the lowering error. -/
theorem C13_reports (core : Program → List Diag) (p : Program) (hc : core p = [])
    (tx : TxDef) (htx : tx ∈ p.txs) (e : String) (he : lowerOf p tx = .err e) :
    ∃ ds, analyze core p = .ok ds ∧ Diag.notLowerable tx.name e ∈ ds := by
  obtain ⟨ds, hds⟩ := analyze_total core p
  refine ⟨ds, hds, ?_⟩
  unfold analyze at hds
  rw [hc] at hds
  exact trial_mem p p.txs ds hds tx htx e he

/-- **The facade never panics**: with a clean report its `unwrap`s are on `Ok` values. -/
theorem C13_facade (core : Program → List Diag) (p : Program) : NoPanic (facadeLower core p) := by
  unfold facadeLower
  split
  · rename_i s' h
    obtain ⟨ds, hds⟩ := analyze_total core p
    rw [hds] at h; cases h
  · exact np_err _
  · exact np_err _
  · rename_i h
    apply np_mapMO_mem
    intro tx htx
    obtain ⟨t, ht⟩ := C13_by_name core p h tx htx
    rw [ht]
    exact np_ok _

/-- With a clean report the facade returns the lowered transactions (it does not fail either). -/
theorem C13_facade_ok (core : Program → List Diag) (p : Program) (h : analyze core p = .ok []) :
    ∃ r, facadeLower core p = .ok r := by
  unfold facadeLower
  rw [h]
  simp only
  have : ∀ l : List TxDef, (∀ tx ∈ l, tx ∈ p.txs) → ∃ r, mapMO (fun (tx : TxDef) =>
      match lowerByName p tx.name with
      | .ok t => Outcome.ok (tx.name, t)
      | .err e => .panic ("called `Result::unwrap()` on an `Err` value: " ++ e)
      | .panic s => .panic s) l = .ok r := by
    intro l
    induction l with
    | nil => intro _; exact ⟨[], rfl⟩
    | cons x xs ih =>
      intro hl
      obtain ⟨t, ht⟩ := C13_by_name core p h x (hl x List.mem_cons_self)
      obtain ⟨r, hr⟩ := ih fun tx htx => hl tx (List.mem_cons_of_mem _ htx)
      refine ⟨(x.name, t) :: r, ?_⟩
      rw [mapMO, ht]
      simp only [ok_bind, hr]
      rfl
  exact this p.txs fun _ h => h

/-! ### non-vacuity: an accepted program, and a rejected one that name resolution alone accepts -/

def exTx (amount : LExpr) : TxDef :=
  { name := "t", params := [("q", .int)], locals := [], inputs := [], references := [], collateral := none,
    outputs := [{ name := none, optional := false, to := some (.leaf (.id "A")), amount := some amount, datum := none }],
    mints := [], burns := [], validity := none, signers := none, metadata := none, adhoc := [] }

def exProg (amount : LExpr) : Program :=
  { env := [], parties := ["A"], policies := [], assets := [], types := [], aliases := [], txs := [exTx amount] }

/-- `Ada(q)` is accepted … -/
example : analyze (fun _ => []) (exProg (.node (.call "Ada") [.leaf (.id "q")])) = .ok [] := by
  simp [analyze, trial, trialWith, lowerOf, lowerTxFull, lowerTx, exProg, exTx, lowerOpt, lowerE, lowerFuel, mapMO, resolve, resolveOuter,
    indexOfOutput, indexOfOutput.go, lastWith, Ctx.enterAddress, Ctx.enterAsset, paramValue, lowerTy, none']
/-- … `Ada()` passes name resolution and is rejected by the trial lowering. -/
example : analyze (fun _ => []) (exProg (.node (.call "Ada") [])) =
    .ok [.notLowerable "t" "lower:InvalidAst:arity"] := by
  simp [analyze, trial, trialWith, lowerOf, lowerTxFull, lowerTx, exProg, exTx, lowerOpt, lowerE, lowerFuel, mapMO, resolve, resolveOuter,
    indexOfOutput, indexOfOutput.go, lastWith, Ctx.enterAddress, Ctx.enterAsset, paramValue, none', lerr]
  rfl

end Tx3.Lang
