import Tx3Model.Lang
import Tx3Model.LangLower
import Tx3Model.Reduce
import Tx3Proofs.Lemmas.Outcome

/-!
# C01 — a field of an input's datum

`source.counter`, where `source` is an input block declared with `datum_is: R`: the value is the field `counter` of the
datum the UTxO assigned to `source` carries.  Two halves, both over the models tied to lowering.rs and reduce/mod.rs:

* lowering writes `Property(IntoDatum(<the query of source>), i)` with `i` the position of the field in the *type
  definition* (`lower_input_field`);
* once the input stage has put the UTxO set in place, reducing that expression yields the i-th field of the datum of the
  (first) UTxO - whenever that datum is a record value with constant fields (`C01_input_field_value`).
-/

namespace Tx3
open Expr Outcome

/-- **Reading a field of the assigned UTxO's datum.** -/
theorem C01_input_field_value (ι : InputMap) (name : String) (many coll : Bool) (q : List Expr)
    (metas : List UtxoMeta) (ds : List Expr) (c : Nat) (fields : List Expr) (i : Int) (v : Expr) (n : Nat)
    (hι : lookupS ι name = some (.node (.utxoSet metas) ds))
    (hd : firstDatum metas ds = .node (.struct c) fields)
    (hc : isConstantL fields = true)
    (hv : nth? fields i = some v) :
    reduceF (n + 4)
      (applyInputs ι (.node (.builtin .property)
        [.node (.coerce .intoDatum) [.node (.param (.expectInput name many coll)) q], .leaf (.number i)])) = .ok v := by
  simp only [applyInputs, applyInputsL, hι]
  simp only [reduceF, mapMO, ok_bind, pure_eq_ok, isConstantL, isConstant, Bool.and_true, if_true,
    reduceCoerce, intoDatum, hd, reduceBuiltin, indexOrErr, index, asNumber?, hv, Option.bind_eq_bind,
    Option.bind_some, hc]

end Tx3

namespace Tx3.Lang
open Tx3 Tx3.Expr Outcome

/-- **What lowering writes for `x.f`** when `x` is an input block declared with `datum_is: n` and `f` is the i-th
field of record type `n`: the property access, by position, into the datum of the block's query. -/
theorem lower_input_field (s : Scope) (fuel : Nat) (ctx : Ctx) (x f n : String) (b : InputBlock) (i : Nat) (q : Expr)
    (hl : ctx.lvl ≠ 0)
    (hr : resolve s x = some (.input b))
    (hty : b.datumIs = some (.custom n))
    (hf : fieldIndex (recordFields s n) f = some i)
    (hq : lowerInput s fuel ctx.enterDatum.down b = .ok q) :
    lowerE s (fuel + 2) ctx (.node (.prop f) [.leaf (.id x)]) =
      .ok (builtin .property [.node (.coerce .intoDatum) [q], .leaf (.number i)]) := by
  have hl' : ctx.enterDatum.lvl ≠ 0 := by simpa [Ctx.enterDatum] using hl
  have hobj : lowerE s (fuel + 1) ctx.enterDatum (.leaf (.id x)) = .ok (.node (.coerce .intoDatum) [q]) := by
    have hq' : lowerInput s fuel ({ datum := true, lvl := ctx.lvl } : Ctx).down b = .ok q := by
      simpa [Ctx.enterDatum] using hq
    rw [lowerE]
    simp only [hr, Ctx.enterDatum, hl, if_false, hq', ok_bind, Bool.false_eq_true, if_true]
  rw [lowerE]
  simp only [hr, if_true, hobj, ok_bind, typeOf, hty, hf]

/-! ## records with a spread: `R { a: 1, ...source }` -/

theorem zip_range'_getElem {α} : ∀ (l : List α) (k i : Nat) (f : α), l[i]? = some f →
    ((List.range' k l.length).zip l)[i]? = some (k + i, f)
  | [], _, _, _, h => by simp at h
  | x :: xs, k, 0, f, h => by simp at h; subst h; simp [List.range'_succ]
  | x :: xs, k, i + 1, f, h => by
    simp only [List.getElem?_cons_succ] at h
    have := zip_range'_getElem xs (k + 1) i f h
    simp only [List.length_cons, List.range'_succ, List.zip_cons_cons, List.getElem?_cons_succ]
    rw [this]; congr 2; omega

theorem zip_range_getElem {α} (l : List α) (i : Nat) (f : α) (h : l[i]? = some f) :
    ((List.range l.length).zip l)[i]? = some (i, f) := by
  have := zip_range'_getElem l 0 i f h
  simpa [List.range_eq_range'] using this

theorem mapMO_getElem' {α β} (f : α → Outcome β) : ∀ (xs : List α) (ys : List β), mapMO f xs = .ok ys →
    ∀ (i : Nat) (x : α), xs[i]? = some x → ∃ y, ys[i]? = some y ∧ f x = .ok y
  | [], _, _, i, x, hx => by simp at hx
  | x0 :: xs, ys, h, i, x, hx => by
    simp only [mapMO] at h
    obtain ⟨y0, hy0, h⟩ := bind_eq_ok.mp h
    obtain ⟨ys', hys, h⟩ := bind_eq_ok.mp h
    simp only [pure_eq_ok, Outcome.ok.injEq] at h
    subst h
    cases i with
    | zero => simp at hx; subst hx; exact ⟨y0, by simp, hy0⟩
    | succ j =>
      simp only [List.getElem?_cons_succ] at hx ⊢
      exact mapMO_getElem' f xs ys' hys j x hx

/-- **A field the constructor leaves to the spread** is read from the spread by *position in the type definition*:
when a record constructor with a spread lowers, the i-th field of the result - for every declared field the
constructor does not write - is `Property(<the lowered spread>, i)`; a written field is the lowered written value. -/
theorem lower_record_with_spread (s : Scope) (fuel : Nat) (ctx : Ctx) (ty : String) (case : Option String)
    (names : List String) (cs : List LExpr) (sp : LExpr) (td : TypeDef) (ix : Nat) (cd : CaseDef) (t : Expr)
    (hl : ctx.lvl ≠ 0)
    (hft : findType s.prog ty = some td) (hci : caseIndex td (case.getD "Default") = some (ix, cd))
    (hsp : cs.getLast? = some sp)
    (h : lowerE s (fuel + 1) ctx (.node (.record ty case names true) cs) = .ok t) :
    ∃ fields, t = .node (.struct ix) fields ∧ fields.length = cd.fields.length ∧
      ∀ (i : Nat) (f : String × LTy), cd.fields[i]? = some f →
        (∀ v, Lang.lookup (names.zip cs) f.1 = some v → ∃ y, fields[i]? = some y ∧ lowerE s fuel ctx v = .ok y) ∧
        (Lang.lookup (names.zip cs) f.1 = none →
          ∃ y, fields[i]? = some (builtin .property [y, .leaf (.number i)]) ∧ lowerE s fuel ctx sp = .ok y) := by
  rw [lowerE] at h
  simp only [hl, if_false, hft, hci, if_true, hsp] at h
  obtain ⟨fields, hf, h⟩ := bind_eq_ok.mp h
  cases h
  refine ⟨fields, rfl, ?_, ?_⟩
  · have : fields.length = ((List.range cd.fields.length).zip cd.fields).length := by
      have key : ∀ {α β} (g : α → Outcome β) (xs : List α) (ys : List β), mapMO g xs = .ok ys → ys.length = xs.length := by
        intro α β g xs
        induction xs with
        | nil => intro ys hh; simp [mapMO] at hh; subst hh; rfl
        | cons x xs ih =>
          intro ys hh
          simp only [mapMO] at hh
          obtain ⟨y, _, hh⟩ := bind_eq_ok.mp hh
          obtain ⟨ys', hys, hh⟩ := bind_eq_ok.mp hh
          simp only [pure_eq_ok, Outcome.ok.injEq] at hh
          subst hh
          simp [ih ys' hys]
      exact key _ _ _ hf
    simpa using this
  · intro i f hfi
    obtain ⟨y, hy, hfy⟩ := mapMO_getElem' _ _ _ hf i (i, f) (zip_range_getElem cd.fields i f hfi)
    refine ⟨fun v hv => ?_, fun hn => ?_⟩
    · simp only [hv] at hfy
      exact ⟨y, hy, hfy⟩
    · simp only [hn] at hfy
      obtain ⟨t', ht', hfy⟩ := bind_eq_ok.mp hfy
      cases hfy
      exact ⟨t', hy, ht'⟩

/-- What the spread lowers to when it names an input block and the constructor stands in a datum position. -/
theorem lower_spread_input (s : Scope) (fuel : Nat) (ctx : Ctx) (x : String) (b : InputBlock) (q : Expr)
    (hl : ctx.lvl ≠ 0) (hd : ctx.datum = true) (ha : ctx.asset = false)
    (hr : resolve s x = some (.input b)) (hq : lowerInput s fuel ctx.down b = .ok q) :
    lowerE s (fuel + 1) ctx (.leaf (.id x)) = .ok (.node (.coerce .intoDatum) [q]) := by
  rw [lowerE]
  simp only [hl, if_false, hr, hq, ok_bind, ha, hd, Bool.false_eq_true, if_true]

/-- **`R { .., ...source }` end to end** (datum position): a declared field the constructor does not write ends up,
after the input stage and reduction, as the field at the same position of the datum carried by the UTxO assigned to
`source`. -/
theorem C01_spread_field_value (s : Scope) (fuel : Nat) (ctx : Ctx) (ty : String) (case : Option String)
    (names : List String) (cs : List LExpr) (x : String) (b : InputBlock) (q : Expr)
    (td : TypeDef) (ix : Nat) (cd : CaseDef) (t : Expr)
    (hl : ctx.lvl ≠ 0) (hd : ctx.datum = true) (ha : ctx.asset = false)
    (hft : findType s.prog ty = some td) (hci : caseIndex td (case.getD "Default") = some (ix, cd))
    (hsp : cs.getLast? = some (.leaf (.id x)))
    (hr : resolve s x = some (.input b)) (hq : lowerInput s fuel ctx.down b = .ok q)
    (h : lowerE s (fuel + 2) ctx (.node (.record ty case names true) cs) = .ok t)
    (i : Nat) (f : String × LTy) (hfi : cd.fields[i]? = some f) (hn : Lang.lookup (names.zip cs) f.1 = none)
    -- the input stage and the datum of the assigned UTxO
    (ι : InputMap) (many coll : Bool) (qcs : List Expr) (hqshape : q = .node (.param (.expectInput b.name.toLower many coll)) qcs)
    (metas : List UtxoMeta) (ds : List Expr) (c : Nat) (dfields : List Expr) (v : Expr) (n : Nat)
    (hι : lookupS ι b.name.toLower = some (.node (.utxoSet metas) ds))
    (hdatum : firstDatum metas ds = .node (.struct c) dfields) (hc : isConstantL dfields = true)
    (hv : nth? dfields i = some v) :
    ∃ fields e, t = .node (.struct ix) fields ∧ fields[i]? = some e ∧
      reduceF (n + 4) (applyInputs ι e) = .ok v := by
  obtain ⟨fields, ht, _, hall⟩ := lower_record_with_spread s (fuel + 1) ctx ty case names cs (.leaf (.id x)) td ix cd t
    hl hft hci hsp h
  obtain ⟨y, hy, hly⟩ := (hall i f hfi).2 hn
  have hly' := lower_spread_input s fuel ctx x b q hl hd ha hr hq
  rw [hly'] at hly
  cases hly
  refine ⟨fields, _, ht, hy, ?_⟩
  subst hqshape
  exact C01_input_field_value ι b.name.toLower many coll qcs metas ds c dfields i v n hι hdatum hc hv

end Tx3.Lang
