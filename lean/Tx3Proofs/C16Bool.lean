import Tx3Model.Json
import Tx3Proofs.Lemmas.Outcome

/-!
# C16 — nothing else is a boolean

`C16_bool` says that `true`, `false`, `0`, `1`, `"true"` and `"false"` are read as the booleans they name.  The
converse: whatever `value_to_bool` accepts is one of those six, with that meaning - no other number, text, null,
array or object is a boolean (the clause `accepts-ill-formed-bool` judges the real function against exactly this).
-/

namespace Tx3.Json
open Tx3 Outcome

theorem C16_bool_only (v : JVal) (b : Bool) (h : valueToBool v = .ok b) :
    v = .bool b ∨ (v = .int 0 ∧ b = false) ∨ (v = .int 1 ∧ b = true) ∨
    (v = .str "true" ∧ b = true) ∨ (v = .str "false" ∧ b = false) := by
  cases v with
  | bool x => simp [valueToBool] at h; subst h; exact Or.inl rfl
  | int n =>
    simp only [valueToBool] at h
    split at h
    · rename_i h0; cases h; subst h0; exact Or.inr (Or.inl ⟨rfl, rfl⟩)
    · split at h
      · rename_i h1; cases h; subst h1; exact Or.inr (Or.inr (Or.inl ⟨rfl, rfl⟩))
      · cases h
  | str s =>
    simp only [valueToBool] at h
    split at h
    · rename_i h0; cases h; subst h0; exact Or.inr (Or.inr (Or.inr (Or.inl ⟨rfl, rfl⟩)))
    · split at h
      · rename_i h1; cases h; subst h1; exact Or.inr (Or.inr (Or.inr (Or.inr ⟨rfl, rfl⟩)))
      · cases h
  | null => simp [valueToBool] at h
  | float => simp [valueToBool] at h
  | arr => simp [valueToBool] at h
  | obj fs => simp [valueToBool] at h

/-- In particular no number other than 0 and 1 is read as a boolean. -/
theorem C16_number_not_bool (n : Int) (h0 : n ≠ 0) (h1 : n ≠ 1) : ∃ e, valueToBool (.int n) = .err e := by
  simp [valueToBool, h0, h1]

/-- **An accepted reference names an output by a 32-bit index**: whatever text `string_to_utxo_ref` accepts, the index
it hands on is below 2^32 (a larger one is refused, never reduced modulo 2^32 - the clause seed C16-09 went against). -/
theorem C16_utxo_ref_index_fits (s : String) (r : UtxoRef) (h : stringToUtxoRef s = .ok r) : r.index < 2 ^ 32 := by
  unfold stringToUtxoRef at h
  split at h
  · cases h
  · split at h
    · split at h
      · rename_i hlt; cases h; exact hlt
      · cases h
    · cases h

end Tx3.Json
