import Tx3Model.WireDec
import Tx3Proofs.C11
import Tx3Proofs.Lemmas.Tir
import Tx3Proofs.Lemmas.CborRoundtrip

/-!
# C11 — the wire format loses nothing: a reader inverts the encoder on every well-shaped tree

`Wire.expr` (compared byte for byte with the real `to_bytes`) followed by `Wire.unexpr` is the
identity on every expression whose nodes have the arities the Rust types guarantee, for every fuel
at least the size of the tree.  Consequently `Wire.expr` is injective: two templates that differ
anywhere have different encodings.
-/

namespace Tx3.Wire
open Cbor

/-! ### scalars -/

theorem txtBytes_inj {s t : String} : txtBytes s = txtBytes t ↔ s = t := by
  unfold txtBytes
  constructor
  · intro h
    have h1 : s.toUTF8.data = t.toUTF8.data := Array.toList_inj.mp h
    have h2 : s.toUTF8 = t.toUTF8 := by
      cases hs : s.toUTF8; cases ht : t.toUTF8; simp_all
    exact String.toByteArray_inj.mp h2
  · intro h; rw [h]

theorem strOf_txtBytes (s : String) : strOf (txtBytes s) = some s := by
  unfold strOf txtBytes
  have e : (⟨s.toUTF8.data.toList.toArray⟩ : ByteArray) = s.toUTF8 := by simp
  have hv : ByteArray.IsValidUTF8 ⟨s.toUTF8.data.toList.toArray⟩ := by rw [e]; exact s.isValidUTF8
  rw [dif_pos hv]
  congr 1 <;> (apply String.toByteArray_inj.mp; simp)

@[simp] theorem unTxt_txt (s : String) : unTxt (txt s) = some s := by
  simp [unTxt, txt, strOf_txtBytes]

@[simp] theorem unFlag_flag (b : Bool) : unFlag (flag b) = some b := by
  cases b <;> simp [unFlag, flag]

@[simp] theorem unNat_int (n : Nat) : unNat (.int n) = some n := by
  simp [unNat]

@[simp] theorem unVariant_variant (name : String) (p : Item) : unVariant (variant name p) = some (name, p) := by
  simp [unVariant, variant]

@[simp] theorem unVariant_txt (s : String) : unVariant (txt s) = none := by
  simp [unVariant, txt]

@[simp] theorem readBytes_bytes (b : Bytes) : readBytes (bytes b) = some b := C11_bytes_roundtrip b
@[simp] theorem readInt128_int128 (v : Int) : readInt128 (int128 v) = some v := C11_int128_roundtrip v

theorem unTy_ty (t : Ty) : unTy (ty t) = some t := by
  cases t with
  | custom s => simp [unTy, ty, variant, unVariant]
  | _ => simp [unTy, ty, txt, strOf_txtBytes]

/-! ### composite readers invert their writers -/

theorem unUtxoRef_utxoRef (r : UtxoRef) : unUtxoRef (utxoRef r) = some r := by
  simp [unUtxoRef, utxoRef, unStruct, struct]

theorem mapM_unUtxoRef (rs : List UtxoRef) : (rs.map utxoRef).mapM unUtxoRef = some rs := by
  induction rs with
  | nil => rfl
  | cons r rs ih => simp [List.mapM_cons, unUtxoRef_utxoRef, ih]

theorem mapM_unUtxoRef_comp (rs : List UtxoRef) : List.mapM (unUtxoRef ∘ utxoRef) rs = some rs := by
  induction rs with
  | nil => rfl
  | cons r rs ih => simp [List.mapM_cons, unUtxoRef_utxoRef, ih]

theorem unAssetClass_assetClass (c : AssetClass) : unAssetClass (assetClass c) = some c := by
  cases c with
  | naked => simp [unAssetClass, assetClass, txt, strOf_txtBytes]
  | named n => simp [unAssetClass, assetClass, variant, unVariant]
  | defined p n => simp [unAssetClass, assetClass, variant, unVariant]

theorem unAssets_assets (a : Assets) :
    unAssets (a.map fun (c, n) => (assetClass c, int128 n)) = some a := by
  induction a with
  | nil => rfl
  | cons kv rest ih =>
    obtain ⟨c, n⟩ := kv
    simp [unAssets, unAssetClass_assetClass, ih]

theorem unPairs_pairItems : ∀ (n : Nat) (is : List Item), is.length = 2 * n → unPairs (pairItems is) = some is := by
  intro n
  induction n with
  | zero => intro is h; cases is <;> simp_all [pairItems, unPairs]
  | succ n ih =>
    intro is h
    match is with
    | [] => simp at h
    | [_] => simp at h; omega
    | k :: v :: rest =>
      have hr : rest.length = 2 * n := by simp at h; omega
      simp [pairItems, unPairs, ih rest hr]

theorem unAssetItems_assetItems : ∀ (n : Nat) (is : List Item), is.length = 3 * n →
    unAssetItems (assetItems is) = some is := by
  intro n
  induction n with
  | zero => intro is h; cases is <;> simp_all [assetItems, unAssetItems]
  | succ n ih =>
    intro is h
    match is with
    | [] => simp at h
    | [_] => simp at h; omega
    | [_, _] => simp at h; omega
    | p :: nm :: a :: rest =>
      have hr : rest.length = 3 * n := by simp at h; omega
      simp [assetItems, unAssetItems, unStruct, struct, ih rest hr]

theorem unDataFields_dataFields : ∀ (keys : List String) (is : List Item), keys.length = is.length →
    unDataFields (dataFields keys is) = some (keys, is) := by
  intro keys
  induction keys with
  | nil => intro is h; cases is <;> simp_all [dataFields, unDataFields]
  | cons k ks ih =>
    intro is h
    cases is with
    | nil => simp at h
    | cons c cs =>
      have hr : ks.length = cs.length := by simpa using h
      simp [dataFields, unDataFields, ih cs hr]

/-- An encoded expression is never CBOR `null` (so `Option<Expression>` is unambiguous). -/
theorem expr_not_null (e : Expr) : unOptional (expr e) = some (some (expr e)) := by
  cases e with
  | leaf l => cases l <;> simp [expr, unOptional, txt, variant]
  | node k cs =>
    simp only [expr]
    generalize exprL cs = is
    unfold assemble
    split <;> simp [unOptional, variant]

@[simp] theorem unOptional_null : unOptional (.simple 22) = some none := by simp [unOptional]

theorem unUtxo_utxoItem (m : UtxoMeta) (d s : Option Expr)
    (hd : m.hasDatum = d.isSome) (hs : m.hasScript = s.isSome) :
    unUtxo (utxoItem m (d.map expr) (s.map expr)) = some (m, (d.map expr).toList ++ (s.map expr).toList) := by
  cases m with
  | mk ref address assets hasDatum hasScript =>
    simp only at hd hs
    subst hd hs
    cases d <;> cases s <;>
      simp [unUtxo, utxoItem, unStruct, struct, unUtxoRef_utxoRef, unAssets_assets, optional, expr_not_null]

def utxoExprCount (metas : List UtxoMeta) : Nat :=
  (metas.map fun m => (if m.hasDatum then 1 else 0) + (if m.hasScript then 1 else 0)).sum

theorem unUtxos_utxoItems : ∀ (metas : List UtxoMeta) (cs : List Expr), cs.length = utxoExprCount metas →
    unUtxos (utxoItems metas (exprL cs)) = some (metas, exprL cs) := by
  intro metas
  induction metas with
  | nil => intro cs h; cases cs <;> simp_all [utxoItems, unUtxos, utxoExprCount, exprL]
  | cons m ms ih =>
    intro cs h
    cases hdm : m.hasDatum <;> cases hsm : m.hasScript
    · have hr : cs.length = utxoExprCount ms := by simpa [utxoExprCount, hdm, hsm] using h
      have := unUtxo_utxoItem m none none (by simp [hdm]) (by simp [hsm])
      simp only [Option.map_none, Option.toList_none, List.append_nil] at this
      simp [utxoItems, hdm, hsm, unUtxos, this, ih cs hr]
    · cases cs with
      | nil => simp [utxoExprCount, hdm, hsm] at h; omega
      | cons s rest =>
        have hr : rest.length = utxoExprCount ms := by simp [utxoExprCount, hdm, hsm] at h ⊢; omega
        have := unUtxo_utxoItem m none (some s) (by simp [hdm]) (by simp [hsm])
        simp only [Option.map_none, Option.map_some, Option.toList_none, Option.toList_some, List.nil_append] at this
        simp [utxoItems, hdm, hsm, unUtxos, exprL, this, ih rest hr]
    · cases cs with
      | nil => simp [utxoExprCount, hdm, hsm] at h; omega
      | cons d rest =>
        have hr : rest.length = utxoExprCount ms := by simp [utxoExprCount, hdm, hsm] at h ⊢; omega
        have := unUtxo_utxoItem m (some d) none (by simp [hdm]) (by simp [hsm])
        simp only [Option.map_none, Option.map_some, Option.toList_none, Option.toList_some, List.append_nil] at this
        simp [utxoItems, hdm, hsm, unUtxos, exprL, this, ih rest hr]
    · match cs with
      | [] => simp [utxoExprCount, hdm, hsm] at h; omega
      | [_] => simp [utxoExprCount, hdm, hsm] at h; omega
      | d :: s :: rest =>
        have hr : rest.length = utxoExprCount ms := by simp [utxoExprCount, hdm, hsm] at h ⊢; omega
        have := unUtxo_utxoItem m (some d) (some s) (by simp [hdm]) (by simp [hsm])
        simp only [Option.map_some, Option.toList_some, List.singleton_append] at this
        simp [utxoItems, hdm, hsm, unUtxos, exprL, this, ih rest hr]

/-! ### the node reader inverts `assemble` -/

theorem exprL_eq_map (cs : List Expr) : exprL cs = cs.map expr := by
  induction cs with
  | nil => rfl
  | cons c cs ih => simp [exprL, ih]

theorem mapM_children {d : Item → Option Expr} {cs : List Expr} (h : ∀ c ∈ cs, d (expr c) = some c) :
    (exprL cs).mapM d = some cs := by
  induction cs with
  | nil => rfl
  | cons c cs ih =>
    have hc := h c List.mem_cons_self
    have hr := ih fun x hx => h x (List.mem_cons_of_mem _ hx)
    simp [exprL, List.mapM_cons, hc, hr]

theorem unexpr_step_leaf (n : Nat) (l : Leaf) : unexpr (n + 1) (expr (.leaf l)) = some (.leaf l) := by
  cases l with
  | none => simp [unexpr, expr, txt, strOf_txtBytes]
  | utxoRefs rs => simp [unexpr, expr, variant, unVariant, unNode, mapM_unUtxoRef_comp]
  | _ => simp [unexpr, expr, variant, unVariant, unNode]

theorem unexpr_step_node (n : Nat) (k : Kind) (cs : List Expr) (hs : shapedNode k cs = true)
    (hc : ∀ c ∈ cs, unexpr n (expr c) = some c) :
    unexpr (n + 1) (expr (.node k cs)) = some (.node k cs) := by
  have hm := mapM_children hc
  cases k with
  | list => simp [unexpr, expr, assemble, variant, unVariant, unNode, hm]
  | map =>
    have hl : (exprL cs).length = 2 * (cs.length / 2) := by
      have : cs.length % 2 = 0 := by simpa [shapedNode] using hs
      rw [exprL_eq_map, List.length_map]; omega
    simp [unexpr, expr, assemble, variant, unVariant, unNode, unPairs_pairItems _ _ hl, hm]
  | tuple =>
    have : cs.length = 2 := by simpa [shapedNode] using hs
    match cs, this with
    | [a, b], _ =>
      have ha := hc a (by simp); have hb := hc b (by simp)
      simp [unexpr, expr, exprL, assemble, variant, unVariant, unNode, ha, hb]
  | struct c => simp [unexpr, expr, assemble, variant, unVariant, unNode, unStruct, struct, hm]
  | assets =>
    have hl : (exprL cs).length = 3 * (cs.length / 3) := by
      have : cs.length % 3 = 0 := by simpa [shapedNode] using hs
      rw [exprL_eq_map, List.length_map]; omega
    simp [unexpr, expr, assemble, variant, unVariant, unNode, unAssetItems_assetItems _ _ hl, hm]
  | param p =>
    cases p with
    | set =>
      have : cs.length = 1 := by simpa [shapedNode] using hs
      match cs, this with
      | [x], _ =>
        have hx := hc x (by simp)
        simp [unexpr, expr, exprL, assemble, variant, unVariant, unNode, hx]
    | expectValue name t =>
      have : cs = [] := by
        have : cs.length = 0 := by simpa [shapedNode] using hs
        exact List.length_eq_zero_iff.mp this
      subst this
      simp [unexpr, expr, exprL, assemble, variant, unVariant, unNode, unTy_ty]
    | expectInput name many coll =>
      have : cs.length = 3 := by simpa [shapedNode] using hs
      match cs, this with
      | [a, m, r], _ =>
        have ha := hc a (by simp); have hm' := hc m (by simp); have hr := hc r (by simp)
        simp [unexpr, expr, exprL, assemble, variant, unVariant, unNode, unStruct, struct, ha, hm', hr]
    | expectFees =>
      have : cs = [] := by
        have : cs.length = 0 := by simpa [shapedNode] using hs
        exact List.length_eq_zero_iff.mp this
      subst this
      simp [unexpr, expr, exprL, assemble, variant, unVariant, unNode, txt, strOf_txtBytes, unTxt]
  | builtin b =>
    cases b with
    | noop | negate =>
      have : cs.length = 1 := by simpa [shapedNode] using hs
      match cs, this with
      | [x], _ =>
        have hx := hc x (by simp)
        simp [unexpr, expr, exprL, assemble, variant, unVariant, unNode, hx]
    | add | sub | concat | property =>
      have : cs.length = 2 := by simpa [shapedNode] using hs
      match cs, this with
      | [a, b], _ =>
        have ha := hc a (by simp); have hb := hc b (by simp)
        simp [unexpr, expr, exprL, assemble, variant, unVariant, unNode, ha, hb]
  | compiler c =>
    cases c with
    | computeTipSlot =>
      have : cs = [] := by
        have : cs.length = 0 := by simpa [shapedNode] using hs
        exact List.length_eq_zero_iff.mp this
      subst this
      simp [unexpr, expr, exprL, assemble, variant, unVariant, unNode, txt, strOf_txtBytes, unTxt]
    | buildScriptAddress | computeMinUtxo | computeSlotToTime | computeTimeToSlot =>
      have : cs.length = 1 := by simpa [shapedNode] using hs
      match cs, this with
      | [x], _ =>
        have hx := hc x (by simp)
        simp [unexpr, expr, exprL, assemble, variant, unVariant, unNode, hx]
  | coerce c =>
    have : cs.length = 1 := by cases c <;> simpa [shapedNode] using hs
    match cs, this with
    | [x], _ =>
      have hx := hc x (by simp)
      cases c <;> simp [unexpr, expr, exprL, assemble, variant, unVariant, unNode, hx]
  | adhoc name keys =>
    have hl : keys.length = (exprL cs).length := by
      have : keys.length = cs.length := by simpa [shapedNode] using hs
      rw [exprL_eq_map, List.length_map]; exact this
    simp [unexpr, expr, assemble, variant, unVariant, unNode, unStruct, struct,
      unDataFields_dataFields _ _ hl, hm]
  | utxoSet metas =>
    have hl : cs.length = utxoExprCount metas := by simpa [shapedNode, utxoExprCount] using hs
    simp [unexpr, expr, assemble, variant, unVariant, unNode, unUtxos_utxoItems _ _ hl, hm]

/-! ### the round trip -/

theorem sizeL_mem' {c : Expr} {cs : List Expr} (h : c ∈ cs) : c.size ≤ Expr.sizeL cs := by
  induction cs with
  | nil => cases h
  | cons x xs ih =>
    rw [Expr.sizeL]
    rcases List.mem_cons.mp h with rfl | h
    · omega
    · have := ih h; omega

theorem Shaped_node {k : Kind} {cs : List Expr} (h : Shaped (.node k cs) = true) :
    shapedNode k cs = true ∧ ShapedL cs = true := by simpa [Shaped] using h

theorem ShapedL_mem {cs : List Expr} (h : ShapedL cs = true) {c : Expr} (hc : c ∈ cs) : Shaped c = true := by
  induction cs with
  | nil => cases hc
  | cons x xs ih =>
    simp only [ShapedL, Bool.and_eq_true] at h
    rcases List.mem_cons.mp hc with rfl | hc
    · exact h.1
    · exact ih h.2 hc

theorem roundtrip_aux :
    (∀ e : Expr, Shaped e = true → ∀ n, e.size ≤ n → unexpr n (expr e) = some e) ∧
    (∀ es : List Expr, ShapedL es = true → ∀ n, Expr.sizeL es ≤ n → ∀ c ∈ es, unexpr n (expr c) = some c) := by
  apply Expr.induct
  · intro l _ n hn
    cases n with
    | zero => simp [Expr.size] at hn
    | succ n => exact unexpr_step_leaf n l
  · intro k cs ih hs n hn
    obtain ⟨h1, h2⟩ := Shaped_node hs
    cases n with
    | zero => simp [Expr.size] at hn
    | succ n =>
      have hsz : Expr.sizeL cs ≤ n := by rw [Expr.size] at hn; omega
      exact unexpr_step_node n k cs h1 (ih h2 n hsz)
  · intro _ n _ c hc; cases hc
  · intro c cs ihc ihcs hs n hn x hx
    simp only [ShapedL, Bool.and_eq_true] at hs
    rw [Expr.sizeL] at hn
    rcases List.mem_cons.mp hx with rfl | hx
    · exact ihc hs.1 n (by omega)
    · exact ihcs hs.2 n (by omega) x hx

/-- **C11 (round trip).** Reading back the encoding of a well-shaped expression yields exactly
that expression, for every fuel at least its size. -/
theorem C11_expr_roundtrip (e : Expr) (hs : Shaped e = true) (n : Nat) (hn : e.size ≤ n) :
    unexpr n (expr e) = some e := roundtrip_aux.1 e hs n hn

/-- **The encoding is injective**: two well-shaped expressions with one encoding are equal — no
two templates are confused on the wire. -/
theorem C11_expr_injective (e₁ e₂ : Expr) (h₁ : Shaped e₁ = true) (h₂ : Shaped e₂ = true)
    (h : expr e₁ = expr e₂) : e₁ = e₂ := by
  have r1 := C11_expr_roundtrip e₁ h₁ (max e₁.size e₂.size) (Nat.le_max_left _ _)
  have r2 := C11_expr_roundtrip e₂ h₂ (max e₁.size e₂.size) (Nat.le_max_right _ _)
  rw [h] at r1
  rw [r1] at r2
  exact Option.some.inj r2

/-- Non-vacuity: a shaped tree with a parameter, a query and an asset list. -/
example : Shaped (.node (.builtin .add) [.node (.param (.expectValue "q" .int)) [],
    .node .assets [.leaf .none, .leaf .none, .leaf (.number 5)]]) = true := by
  simp [Shaped, ShapedL, shapedNode]

/-! ### the transaction -/

theorem mapM_map_of {α} {f : α → Item} {g : Item → Option α} :
    ∀ {l : List α}, (∀ a ∈ l, g (f a) = some a) → (l.map f).mapM g = some l := by
  intro l
  induction l with
  | nil => intro _; rfl
  | cons x xs ih =>
    intro h
    have hx := h x List.mem_cons_self
    have hr := ih fun a ha => h a (List.mem_cons_of_mem _ ha)
    simp [List.mapM_cons, hx, hr]

/-- Every expression slot of the transaction is well shaped and small enough for the fuel. -/
def TxOK (t : Tx) (n : Nat) : Prop := ∀ e ∈ t.slots, Shaped e = true ∧ e.size ≤ n

theorem adhoc_roundtrip (n : Nat) (e : Expr) (hs : Shaped e = true) (hn : e.size ≤ n)
    (hk : ∃ name keys cs, e = .node (.adhoc name keys) cs) :
    unAdhoc (unexpr n) (adhocDirective e) = some e := by
  obtain ⟨name, keys, cs, rfl⟩ := hk
  obtain ⟨h1, h2⟩ := Shaped_node hs
  have hl : keys.length = (exprL cs).length := by
    have : keys.length = cs.length := by simpa [shapedNode] using h1
    rw [exprL_eq_map, List.length_map]; exact this
  have hm : (exprL cs).mapM (unexpr n) = some cs := by
    apply mapM_children
    intro c hc
    have hsz : c.size ≤ n := by
      have := sizeL_mem' hc
      rw [Expr.size] at hn; omega
    exact C11_expr_roundtrip c (ShapedL_mem h2 hc) n hsz
  simp [unAdhoc, adhocDirective, unStruct, struct, unDataFields_dataFields _ _ hl, hm]

/-- A struct read with its own field names gives back its field values. -/
theorem unStruct_struct (fs : List (String × Item)) : unStruct (fs.map (·.1)) (struct fs) = some (fs.map (·.2)) := by
  simp [unStruct, struct, List.map_map, Function.comp_def]

theorem unStruct_struct_names (names : List String) (fs : List (String × Item)) (h : names = fs.map (·.1)) :
    unStruct names (struct fs) = some (fs.map (·.2)) := by
  rw [h]; exact unStruct_struct fs

theorem mem_slots_input {t : Tx} {i : Input} (hi : i ∈ t.inputs) : i.utxos ∈ t.slots ∧ i.redeemer ∈ t.slots := by
  constructor <;> (simp [Tx.slots]; exact Or.inl ⟨i, hi, by simp⟩)
theorem mem_slots_output {t : Tx} {o : Output} (ho : o ∈ t.outputs) :
    o.address ∈ t.slots ∧ o.datum ∈ t.slots ∧ o.amount ∈ t.slots := by
  refine ⟨?_, ?_, ?_⟩ <;> (simp [Tx.slots]; exact Or.inr (Or.inl ⟨o, ho, by simp⟩))
theorem mem_slots_mint {t : Tx} {m : Mint} (hm : m ∈ t.mints) : m.amount ∈ t.slots ∧ m.redeemer ∈ t.slots := by
  constructor <;> (simp [Tx.slots]; exact Or.inr (Or.inr (Or.inl ⟨m, hm, by simp⟩)))
theorem mem_slots_burn {t : Tx} {m : Mint} (hm : m ∈ t.burns) : m.amount ∈ t.slots ∧ m.redeemer ∈ t.slots := by
  constructor <;> (simp [Tx.slots]; exact Or.inr (Or.inr (Or.inr (Or.inl ⟨m, hm, by simp⟩))))
theorem mem_slots_metadata {t : Tx} {m : Metadata} (hm : m ∈ t.metadata) : m.key ∈ t.slots ∧ m.value ∈ t.slots := by
  constructor <;> (simp [Tx.slots]
                   exact Or.inr (Or.inr (Or.inr (Or.inr (Or.inr (Or.inr (Or.inr (Or.inr (Or.inl ⟨m, hm, by simp⟩)))))))))
theorem mem_slots_fees (t : Tx) : t.fees ∈ t.slots := by simp [Tx.slots]
theorem mem_slots_adhoc {t : Tx} {e : Expr} (h : e ∈ t.adhoc) : e ∈ t.slots := by simp [Tx.slots, h]
theorem mem_slots_refs {t : Tx} {e : Expr} (h : e ∈ t.references) : e ∈ t.slots := by simp [Tx.slots, h]
theorem mem_slots_coll {t : Tx} {e : Expr} (h : e ∈ t.collateral) : e ∈ t.slots := by simp [Tx.slots, h]
theorem mem_slots_signer {t : Tx} {s : List Expr} {e : Expr} (hs : t.signers = some s) (h : e ∈ s) : e ∈ t.slots := by
  simp [Tx.slots, hs, h]
theorem mem_slots_validity {t : Tx} {a b : Expr} (hs : t.validity = some (a, b)) : a ∈ t.slots ∧ b ∈ t.slots := by
  constructor <;> simp [Tx.slots, hs]

/-- **C11 (round trip), whole transaction.** Reading back the encoding of a transaction whose
expression slots are well shaped (and whose chain-specific directives are directives) yields exactly
that transaction. -/
theorem C11_tx_roundtrip (t : Tx) (n : Nat) (h : TxOK t n)
    (ha : ∀ e ∈ t.adhoc, ∃ name keys cs, e = Expr.node (.adhoc name keys) cs) :
    untx n (tx t) = some t := by
  have d : ∀ e ∈ t.slots, unexpr n (expr e) = some e :=
    fun e he => C11_expr_roundtrip e (h e he).1 n (h e he).2
  have hfees := d _ (mem_slots_fees t)
  have hrefs : (t.references.map expr).mapM (unexpr n) = some t.references :=
    mapM_map_of fun e he => d e (mem_slots_refs he)
  have hins : (t.inputs.map fun i => struct [("name", txt i.name), ("utxos", expr i.utxos), ("redeemer", expr i.redeemer)]).mapM
      (unInput (unexpr n)) = some t.inputs := by
    apply mapM_map_of
    intro i hi
    have h1 := d _ (mem_slots_input hi).1
    have h2 := d _ (mem_slots_input hi).2
    cases i
    simp [unInput, unStruct, struct] at h1 h2 ⊢
    simp [h1, h2]
  have houts : (t.outputs.map fun o => struct [("address", expr o.address), ("datum", expr o.datum),
      ("amount", expr o.amount), ("optional", flag o.optional)]).mapM (unOutput (unexpr n)) = some t.outputs := by
    apply mapM_map_of
    intro o ho
    have h1 := d _ (mem_slots_output ho).1
    have h2 := d _ (mem_slots_output ho).2.1
    have h3 := d _ (mem_slots_output ho).2.2
    cases o
    simp [unOutput, unStruct, struct] at h1 h2 h3 ⊢
    simp [h1, h2, h3]
  have hmints : (t.mints.map fun m => struct [("amount", expr m.amount), ("redeemer", expr m.redeemer)]).mapM
      (unMint (unexpr n)) = some t.mints := by
    apply mapM_map_of
    intro m hm
    have h1 := d _ (mem_slots_mint hm).1
    have h2 := d _ (mem_slots_mint hm).2
    cases m
    simp [unMint, unStruct, struct] at h1 h2 ⊢
    simp [h1, h2]
  have hburns : (t.burns.map fun m => struct [("amount", expr m.amount), ("redeemer", expr m.redeemer)]).mapM
      (unMint (unexpr n)) = some t.burns := by
    apply mapM_map_of
    intro m hm
    have h1 := d _ (mem_slots_burn hm).1
    have h2 := d _ (mem_slots_burn hm).2
    cases m
    simp [unMint, unStruct, struct] at h1 h2 ⊢
    simp [h1, h2]
  have hadhoc : (t.adhoc.map adhocDirective).mapM (unAdhoc (unexpr n)) = some t.adhoc :=
    mapM_map_of fun e he => adhoc_roundtrip n e (h e (mem_slots_adhoc he)).1 (h e (mem_slots_adhoc he)).2 (ha e he)
  have hcoll : (t.collateral.map fun c => struct [("utxos", expr c)]).mapM (unCollateral (unexpr n)) = some t.collateral := by
    apply mapM_map_of
    intro e he
    have h1 := d e (mem_slots_coll he)
    simp [unCollateral, unStruct, struct, h1]
  have hmd : (t.metadata.map fun m => struct [("key", expr m.key), ("value", expr m.value)]).mapM
      (unMetadata (unexpr n)) = some t.metadata := by
    apply mapM_map_of
    intro m hm
    have h1 := d _ (mem_slots_metadata hm).1
    have h2 := d _ (mem_slots_metadata hm).2
    cases m
    simp [unMetadata, unStruct, struct] at h1 h2 ⊢
    simp [h1, h2]
  have hvalid : ∀ a b, t.validity = some (a, b) → unexpr n (expr a) = some a ∧ unexpr n (expr b) = some b :=
    fun a b hv => ⟨d _ (mem_slots_validity hv).1, d _ (mem_slots_validity hv).2⟩
  have hsigners : ∀ s, t.signers = some s → (s.map expr).mapM (unexpr n) = some s :=
    fun s hs => mapM_map_of fun e he => d e (mem_slots_signer hs he)
  cases t with
  | mk fees references inputs outputs validity mints burns adhoc collateral signers metadata =>
    simp only at hfees hrefs hins houts hmints hburns hadhoc hcoll hmd hvalid hsigners
    unfold untx tx
    rw [unStruct_struct_names]
    · simp only [List.map_cons, List.map_nil, Option.bind_some, unArray, hfees, hrefs, hins, houts, hmints,
        hburns, hadhoc, hcoll, hmd, Option.map_some]
      cases validity with
      | none =>
        cases signers with
        | none => simp [optional]
        | some s => simp [optional, unOptional, struct, unStruct, hsigners s rfl]
      | some ab =>
        obtain ⟨a, b⟩ := ab
        obtain ⟨h1, h2⟩ := hvalid a b rfl
        cases signers with
        | none => simp [optional, unOptional, struct, unStruct, h1, h2]
        | some s => simp [optional, unOptional, struct, unStruct, h1, h2, hsigners s rfl]
    · rfl

end Tx3.Wire

/-! ## Down to bytes -/

namespace Tx3.Wire
open Tx3 Tx3.Cbor

/-- **C11 (round trip), bytes.** `from_bytes (to_bytes t) = t`: the RFC 8949 reader inverts the writer on what
the encoder writes (`Cbor.decode_encode`), and the typed reader inverts the typed writer (`C11_tx_roundtrip`).
Hypotheses, all executable and evaluated by the driver on every generated transaction: the item written is
within what CBOR heads can carry (`wfb`: lengths, tags and integers below 2^64 - i128 values beyond that are
written as bignums by `int128`), the expression slots are well shaped and not larger than the reader's fuel. -/
theorem C11_wire_roundtrip (t : Tx) (hwf : (tx t).wfb = true)
    (hok : TxOK t ((toBytes t).length + 1))
    (ha : ∀ e ∈ t.adhoc, ∃ name keys cs, e = Expr.node (.adhoc name keys) cs)
    (hn : nestTx t ≤ recursionLimit) :
    fromBytes (toBytes t) = some t := by
  unfold fromBytes toBytes
  rw [decode_encode_of_wfb _ hwf]
  have := C11_tx_roundtrip t _ hok ha
  simp only [toBytes] at this
  simp [this, hn]

/-- **C11 (deep nesting is an error).** A transaction nested beyond the decoder's recursion budget is written
but not read back: `from_bytes` answers with an error, whatever else holds. -/
theorem C11_too_deep (t : Tx) (hwf : (tx t).wfb = true)
    (hok : TxOK t ((toBytes t).length + 1))
    (ha : ∀ e ∈ t.adhoc, ∃ name keys cs, e = Expr.node (.adhoc name keys) cs)
    (hn : recursionLimit < nestTx t) :
    fromBytes (toBytes t) = none := by
  unfold fromBytes toBytes
  rw [decode_encode_of_wfb _ hwf]
  have := C11_tx_roundtrip t _ hok ha
  simp only [toBytes] at this
  have : ¬ nestTx t ≤ recursionLimit := by omega
  simp [*]

theorem TxOK_of_bytesHyps (t : Tx) (h : bytesHyps t = true) : (tx t).wfb = true ∧ TxOK t ((toBytes t).length + 1) := by
  unfold bytesHyps at h
  simp only [Bool.and_eq_true, List.all_eq_true, decide_eq_true_eq] at h
  exact ⟨h.1, fun e he => h.2 e he⟩

theorem C11_wire_roundtrip' (t : Tx) (h : bytesHyps t = true)
    (ha : ∀ e ∈ t.adhoc, ∃ name keys cs, e = Expr.node (.adhoc name keys) cs)
    (hn : nestTx t ≤ recursionLimit) :
    fromBytes (toBytes t) = some t :=
  C11_wire_roundtrip t (TxOK_of_bytesHyps t h).1 (TxOK_of_bytesHyps t h).2 ha hn

/-- Injectivity down to bytes: two transactions meeting the hypotheses and written to the same bytes are equal. -/
theorem C11_bytes_injective (a b : Tx) (ha : bytesHyps a = true) (hb : bytesHyps b = true)
    (ha' : ∀ e ∈ a.adhoc, ∃ name keys cs, e = Expr.node (.adhoc name keys) cs)
    (hb' : ∀ e ∈ b.adhoc, ∃ name keys cs, e = Expr.node (.adhoc name keys) cs)
    (hna : nestTx a ≤ recursionLimit) (hnb : nestTx b ≤ recursionLimit)
    (h : toBytes a = toBytes b) : a = b := by
  have h1 := C11_wire_roundtrip' a ha ha' hna
  have h2 := C11_wire_roundtrip' b hb hb' hnb
  rw [h] at h1
  exact Option.some.inj (h1.symm.trans h2)

end Tx3.Wire
