import Tx3Proofs.Lemmas.Cbor

/-!
# RFC 8949 layer: the reader inverts the writer

For every well-formed data item (`Item.WF`: integers of the 65-bit range a head can carry, lengths and
tags below 2^64, one-byte simple values, floats of 2, 4 or 8 bytes) and every continuation `rest`,
reading `encode x ++ rest` with enough fuel yields `x` and leaves `rest`; `decode (encode x) = some x`.
-/

namespace Tx3.Cbor

/-! ### big-endian fixed width -/

theorem natToBE_length (n w : Nat) : (natToBE n w).length = w := by simp [natToBE]

theorem natToBE_succ (n w : Nat) :
    natToBE n (w + 1) = UInt8.ofNat ((n / 256 ^ w) % 256) :: natToBE n w := by
  simp [natToBE, List.range_succ]

theorem foldl_be (bs : Bytes) (acc : Nat) :
    bs.foldl (fun acc b => acc * 256 + b.toNat) acc = acc * 256 ^ bs.length + beNat bs := by
  induction bs generalizing acc with
  | nil => simp [beNat]
  | cons b bs ih =>
    simp only [List.foldl_cons, List.length_cons, beNat]
    rw [ih, ih (0 * 256 + b.toNat)]
    rw [Nat.pow_succ]
    simp only [Nat.zero_mul, Nat.zero_add, Nat.add_mul]
    rw [Nat.mul_assoc, Nat.mul_comm 256 (256 ^ bs.length)]
    omega

theorem beNat_cons (b : UInt8) (bs : Bytes) : beNat (b :: bs) = b.toNat * 256 ^ bs.length + beNat bs := by
  have := foldl_be bs (0 * 256 + b.toNat)
  simp only [Nat.zero_mul, Nat.zero_add] at this
  simpa [beNat] using this

theorem beNat_natToBE_mod (w n : Nat) : beNat (natToBE n w) = n % 256 ^ w := by
  induction w with
  | zero => simp [natToBE, beNat, Nat.mod_one]
  | succ w ih =>
    rw [natToBE_succ, beNat_cons, ih, natToBE_length, Nat.mod_pow_succ]
    have : (UInt8.ofNat (n / 256 ^ w % 256)).toNat = n / 256 ^ w % 256 := by
      rw [UInt8.toNat_ofNat']; omega
    rw [this, Nat.mul_comm]; omega

theorem beNat_natToBE (w n : Nat) (h : n < 256 ^ w) : beNat (natToBE n w) = n := by
  rw [beNat_natToBE_mod, Nat.mod_eq_of_lt h]

theorem takeN_append (b r : Bytes) : takeN b.length (b ++ r) = some (b, r) := by
  simp [takeN]

theorem takeN_append' (n : Nat) (b r : Bytes) (h : b.length = n) : takeN n (b ++ r) = some (b, r) := by
  subst h; exact takeN_append b r

/-! ### heads -/

theorem byte_split (major info : Nat) (hm : major < 8) (hi : info < 32) :
    (UInt8.ofNat (major * 32 + info)).toNat / 32 = major ∧ (UInt8.ofNat (major * 32 + info)).toNat % 32 = info := by
  rw [UInt8.toNat_ofNat']; omega

/-- The head written for `(major, n)` is read back as `(major, n)` and is never the break byte. -/
theorem head_read (major n : Nat) (hm : major < 8) (hn : n < 2 ^ 64) (rest : Bytes) :
    ∃ b tl, head major n ++ rest = b :: tl ∧ b.toNat / 32 = major ∧ b.toNat % 32 < 28 ∧
      readArg (b.toNat % 32) tl = some (n, rest) := by
  unfold head
  simp only
  split
  · rename_i h
    obtain ⟨h1, h2⟩ := byte_split major n hm (by omega)
    exact ⟨_, rest, rfl, h1, by omega, by rw [h2]; simp [readArg, h]⟩
  split
  · rename_i h
    obtain ⟨h1, h2⟩ := byte_split major 24 hm (by omega)
    refine ⟨_, natToBE n 1 ++ rest, rfl, h1, by omega, ?_⟩
    rw [h2]
    have hb := beNat_natToBE 1 n (by omega)
    simp [readArg, natToBE_length, hb]
  split
  · rename_i h
    obtain ⟨h1, h2⟩ := byte_split major 25 hm (by omega)
    refine ⟨_, natToBE n 2 ++ rest, rfl, h1, by omega, ?_⟩
    rw [h2]
    have hb := beNat_natToBE 2 n (by omega)
    simp [readArg, natToBE_length, hb]
  split
  · rename_i h
    obtain ⟨h1, h2⟩ := byte_split major 26 hm (by omega)
    refine ⟨_, natToBE n 4 ++ rest, rfl, h1, by omega, ?_⟩
    rw [h2]
    have hb := beNat_natToBE 4 n (by omega)
    simp [readArg, natToBE_length, hb]
  · obtain ⟨h1, h2⟩ := byte_split major 27 hm (by omega)
    refine ⟨_, natToBE n 8 ++ rest, rfl, h1, by omega, ?_⟩
    rw [h2]
    have hb := beNat_natToBE 8 n (by omega)
    simp [readArg, natToBE_length, hb]

theorem ne_ff_of_info {b : UInt8} (h : b.toNat % 32 < 28) : b ≠ 0xff := by
  intro e; subst e; revert h; decide

/-! ### size (fuel) and well-formedness -/

mutual
def Item.sz : Item → Nat
  | .int _ => 1
  | .bytes _ => 1
  | .bytesIndef cs => cs.length + 2
  | .text _ => 1
  | .array xs => 1 + szL xs
  | .arrayIndef xs => 2 + szL xs
  | .map kvs => 1 + szKV kvs
  | .tag _ x => 1 + x.sz
  | .simple _ => 1
  | .float _ => 1
def szL : List Item → Nat
  | [] => 0
  | x :: xs => 1 + x.sz + szL xs
def szKV : List (Item × Item) → Nat
  | [] => 0
  | (k, v) :: r => 2 + k.sz + v.sz + szKV r
end

mutual
def Item.WF : Item → Prop
  | .int v => -(2 ^ 64 : Int) ≤ v ∧ v < 2 ^ 64
  | .bytes b => b.length < 2 ^ 64
  | .bytesIndef cs => ∀ c ∈ cs, c.length < 2 ^ 64
  | .text b => b.length < 2 ^ 64
  | .array xs => xs.length < 2 ^ 64 ∧ WFL xs
  | .arrayIndef xs => WFL xs
  | .map kvs => kvs.length < 2 ^ 64 ∧ WFKV kvs
  | .tag t x => t < 2 ^ 64 ∧ x.WF
  | .simple n => n < 256
  | .float raw => raw.length = 2 ∨ raw.length = 4 ∨ raw.length = 8
def WFL : List Item → Prop
  | [] => True
  | x :: xs => x.WF ∧ WFL xs
def WFKV : List (Item × Item) → Prop
  | [] => True
  | (k, v) :: r => k.WF ∧ v.WF ∧ WFKV r
end

def flatKV : List (Item × Item) → List Item
  | [] => []
  | (k, v) :: r => k :: v :: flatKV r

theorem pairUp_flatKV (kvs : List (Item × Item)) : pairUp (flatKV kvs) = kvs := by
  induction kvs with
  | nil => simp [flatKV, pairUp]
  | cons kv r ih => obtain ⟨k, v⟩ := kv; simp [flatKV, pairUp, ih]

theorem flatKV_length (kvs : List (Item × Item)) : (flatKV kvs).length = 2 * kvs.length := by
  induction kvs with
  | nil => rfl
  | cons kv r ih => obtain ⟨k, v⟩ := kv; simp [flatKV, ih]; omega

/-- chunks of an indefinite byte string -/
theorem readChunks_encode (cs : List Bytes) (h : ∀ c ∈ cs, c.length < 2 ^ 64) (fuel : Nat) (rest : Bytes)
    (hf : cs.length + 1 ≤ fuel) :
    readChunks fuel ((cs.flatMap fun c => head 2 c.length ++ c) ++ 0xff :: rest) = some (cs, rest) := by
  induction cs generalizing fuel with
  | nil =>
    obtain ⟨f, rfl⟩ : ∃ f, fuel = f + 1 := ⟨fuel - 1, by simp at hf; omega⟩
    simp [readChunks]
  | cons c cs ih =>
    obtain ⟨f, rfl⟩ : ∃ f, fuel = f + 1 := ⟨fuel - 1, by simp at hf; omega⟩
    obtain ⟨b, tl, hb, _, hinfo, harg⟩ := head_read 2 c.length (by omega) (h c (by simp)) (c ++ ((cs.flatMap fun c => head 2 c.length ++ c) ++ 0xff :: rest))
    have e : ((c :: cs).flatMap fun c => head 2 c.length ++ c) ++ 0xff :: rest
        = head 2 c.length ++ (c ++ ((cs.flatMap fun c => head 2 c.length ++ c) ++ 0xff :: rest)) := by
      simp [List.flatMap_cons, List.append_assoc]
    rw [e, hb, readChunks]
    have hne := ne_ff_of_info hinfo
    simp only [hne, if_false, harg, takeN_append]
    rw [ih (fun c hc => h c (by simp [hc])) f (by simp at hf ⊢; omega)]

end Tx3.Cbor

namespace Tx3.Cbor

/-- Every written item starts with a byte that is not the break byte. -/
theorem encode_head (x : Item) (h : x.WF) : ∃ b tl, encode x = b :: tl ∧ b ≠ 0xff := by
  cases x with
  | int v =>
    unfold Item.WF at h
    rw [encode]
    split
    · obtain ⟨b, tl, hb, _, hi, _⟩ := head_read 0 v.toNat (by omega) (by omega) []
      exact ⟨b, tl, by simpa using hb, ne_ff_of_info hi⟩
    · obtain ⟨b, tl, hb, _, hi, _⟩ := head_read 1 (-1 - v).toNat (by omega) (by omega) []
      exact ⟨b, tl, by simpa using hb, ne_ff_of_info hi⟩
  | bytes b =>
    unfold Item.WF at h
    obtain ⟨c, tl, hb, _, hi, _⟩ := head_read 2 b.length (by omega) h b
    exact ⟨c, tl, by rw [encode]; exact hb, ne_ff_of_info hi⟩
  | bytesIndef cs => exact ⟨0x5f, (cs.flatMap fun c => head 2 c.length ++ c) ++ [0xff], by rw [encode]; rfl, by decide⟩
  | text b =>
    unfold Item.WF at h
    obtain ⟨c, tl, hb, _, hi, _⟩ := head_read 3 b.length (by omega) h b
    exact ⟨c, tl, by rw [encode]; exact hb, ne_ff_of_info hi⟩
  | array xs =>
    unfold Item.WF at h
    obtain ⟨c, tl, hb, _, hi, _⟩ := head_read 4 xs.length (by omega) h.1 (encodeL xs)
    exact ⟨c, tl, by rw [encode]; exact hb, ne_ff_of_info hi⟩
  | arrayIndef xs => exact ⟨0x9f, encodeL xs ++ [0xff], by rw [encode]; rfl, by decide⟩
  | map kvs =>
    unfold Item.WF at h
    obtain ⟨c, tl, hb, _, hi, _⟩ := head_read 5 kvs.length (by omega) h.1 (encodeKV kvs)
    exact ⟨c, tl, by rw [encode]; exact hb, ne_ff_of_info hi⟩
  | tag t x =>
    unfold Item.WF at h
    obtain ⟨c, tl, hb, _, hi, _⟩ := head_read 6 t (by omega) h.1 (encode x)
    exact ⟨c, tl, by rw [encode]; exact hb, ne_ff_of_info hi⟩
  | simple n =>
    unfold Item.WF at h
    rw [encode]
    split
    · rename_i h24
      refine ⟨_, [], rfl, ?_⟩
      intro e
      have := congrArg UInt8.toNat e
      rw [UInt8.toNat_ofNat'] at this
      simp at this; omega
    · exact ⟨0xf8, _, rfl, by decide⟩
  | float raw =>
    unfold Item.WF at h
    rw [encode]
    refine ⟨_, raw, rfl, ?_⟩
    intro e
    have := congrArg UInt8.toNat e
    rw [UInt8.toNat_ofNat'] at this
    rcases h with h | h | h <;> simp [h] at this

/-- The statement proved by mutual induction over the writer. -/
def RT (x : Item) : Prop :=
  x.WF → ∀ fuel rest, x.sz ≤ fuel → readItem fuel (encode x ++ rest) = some (x, rest)
def RTL (xs : List Item) : Prop :=
  WFL xs → ∀ fuel rest, szL xs ≤ fuel →
    readN fuel xs.length (encodeL xs ++ rest) = some (xs, rest) ∧
    readUntilBreak (fuel + 1) (encodeL xs ++ 0xff :: rest) = some (xs, rest)
def RTKV (kvs : List (Item × Item)) : Prop :=
  WFKV kvs → ∀ fuel rest, szKV kvs ≤ fuel →
    readN fuel (2 * kvs.length) (encodeKV kvs ++ rest) = some (flatKV kvs, rest)

theorem fuel_succ {n fuel : Nat} (h : n + 1 ≤ fuel) : ∃ f, fuel = f + 1 ∧ n ≤ f := ⟨fuel - 1, by omega, by omega⟩

theorem roundtrip_all : (∀ x, RT x) ∧ (∀ kvs, RTKV kvs) ∧ (∀ xs, RTL xs) := by
  apply encode.mutual_induct (motive_1 := RT) (motive_2 := RTKV) (motive_3 := RTL)
  · -- int, non-negative
    intro v hv h fuel rest hf
    unfold Item.WF at h
    have hfs : 0 + 1 ≤ fuel := by simpa [Item.sz] using hf
    obtain ⟨f, rfl, _⟩ := fuel_succ hfs
    obtain ⟨b, tl, hb, hmaj, _, harg⟩ := head_read 0 v.toNat (by omega) (by omega) rest
    rw [encode, if_pos hv, hb]; rw [readItem.eq_def]; dsimp only
    simp only [hmaj, if_true, harg]
    simp [Int.toNat_of_nonneg hv]
  · -- int, negative
    intro v hv h fuel rest hf
    unfold Item.WF at h
    have hfs : 0 + 1 ≤ fuel := by simpa [Item.sz] using hf
    obtain ⟨f, rfl, _⟩ := fuel_succ hfs
    obtain ⟨b, tl, hb, hmaj, _, harg⟩ := head_read 1 (-1 - v).toNat (by omega) (by omega) rest
    rw [encode, if_neg hv, hb]; rw [readItem.eq_def]; dsimp only
    simp only [hmaj, harg]
    simp
    omega
  · -- bytes
    intro b h fuel rest hf
    unfold Item.WF at h
    have hfs : 0 + 1 ≤ fuel := by simpa [Item.sz] using hf
    obtain ⟨f, rfl, _⟩ := fuel_succ hfs
    obtain ⟨c, tl, hb, hmaj, hinfo, harg⟩ := head_read 2 b.length (by omega) h (b ++ rest)
    rw [encode, List.append_assoc, hb]; rw [readItem.eq_def]; dsimp only
    have : c.toNat % 32 ≠ 31 := by omega
    simp [hmaj, harg, this, takeN_append]
  · -- indefinite bytes
    intro cs h fuel rest hf
    unfold Item.WF at h
    have hfs : cs.length + 1 + 1 ≤ fuel := by simpa [Item.sz] using hf
    obtain ⟨f, rfl, hf'⟩ := fuel_succ hfs
    rw [encode]
    have hr := readChunks_encode cs h f rest hf'
    simp only [List.cons_append, List.append_assoc, List.singleton_append]
    rw [readItem.eq_def]; dsimp only
    simp [hr]
  · -- text
    intro b h fuel rest hf
    unfold Item.WF at h
    have hfs : 0 + 1 ≤ fuel := by simpa [Item.sz] using hf
    obtain ⟨f, rfl, _⟩ := fuel_succ hfs
    obtain ⟨c, tl, hb, hmaj, hinfo, harg⟩ := head_read 3 b.length (by omega) h (b ++ rest)
    rw [encode, List.append_assoc, hb]; rw [readItem.eq_def]; dsimp only
    have : c.toNat % 32 ≠ 31 := by omega
    simp [hmaj, harg, this, takeN_append]
  · -- array
    intro xs ih h fuel rest hf
    unfold Item.WF at h
    have hfs : szL xs + 1 ≤ fuel := by simpa [Item.sz, Nat.add_comm] using hf
    obtain ⟨f, rfl, hf'⟩ := fuel_succ hfs
    obtain ⟨c, tl, hb, hmaj, hinfo, harg⟩ := head_read 4 xs.length (by omega) h.1 (encodeL xs ++ rest)
    rw [encode, List.append_assoc, hb]; rw [readItem.eq_def]; dsimp only
    have : c.toNat % 32 ≠ 31 := by omega
    simp [hmaj, harg, this, (ih h.2 f rest hf').1]
  · -- indefinite array
    intro xs ih h fuel rest hf
    unfold Item.WF at h
    have hfs : szL xs + 1 + 1 ≤ fuel := by simp [Item.sz] at hf; omega
    obtain ⟨f, rfl, hf'⟩ := fuel_succ hfs
    obtain ⟨g, rfl, hg⟩ := fuel_succ hf'
    rw [encode]
    simp only [List.cons_append, List.append_assoc, List.singleton_append]
    rw [readItem.eq_def]; dsimp only
    simp [(ih h g rest hg).2]
  · -- map
    intro kvs ih h fuel rest hf
    unfold Item.WF at h
    have hfs : szKV kvs + 1 ≤ fuel := by simpa [Item.sz, Nat.add_comm] using hf
    obtain ⟨f, rfl, hf'⟩ := fuel_succ hfs
    obtain ⟨c, tl, hb, hmaj, hinfo, harg⟩ := head_read 5 kvs.length (by omega) h.1 (encodeKV kvs ++ rest)
    rw [encode, List.append_assoc, hb]; rw [readItem.eq_def]; dsimp only
    have : c.toNat % 32 ≠ 31 := by omega
    simp [hmaj, harg, this, ih h.2 f rest hf', pairUp_flatKV]
  · -- tag
    intro t x ih h fuel rest hf
    unfold Item.WF at h
    have hfs : x.sz + 1 ≤ fuel := by simpa [Item.sz, Nat.add_comm] using hf
    obtain ⟨f, rfl, hf'⟩ := fuel_succ hfs
    obtain ⟨c, tl, hb, hmaj, hinfo, harg⟩ := head_read 6 t (by omega) h.1 (encode x ++ rest)
    rw [encode, List.append_assoc, hb]; rw [readItem.eq_def]; dsimp only
    simp [hmaj, harg, ih h.2 f rest hf']
  · -- simple < 24
    intro n hn h fuel rest hf
    have hfs : 0 + 1 ≤ fuel := by simpa [Item.sz] using hf
    obtain ⟨f, rfl, _⟩ := fuel_succ hfs
    rw [encode, if_pos hn]
    have hb : (UInt8.ofNat (224 + n)).toNat = 224 + n := by rw [UInt8.toNat_ofNat']; omega
    simp only [List.singleton_append]
    rw [readItem.eq_def]; dsimp only
    have h1 : (224 + n) / 32 = 7 := by omega
    have h2 : (224 + n) % 32 = n := by omega
    simp only [hb, h1, h2]
    simp [hn]
  · -- simple ≥ 24
    intro n hn h fuel rest hf
    unfold Item.WF at h
    have hfs : 0 + 1 ≤ fuel := by simpa [Item.sz] using hf
    obtain ⟨f, rfl, _⟩ := fuel_succ hfs
    rw [encode, if_neg hn]
    simp only [List.cons_append, List.nil_append]
    rw [readItem.eq_def]; dsimp only
    have hb : (UInt8.ofNat n).toNat = n := by rw [UInt8.toNat_ofNat']; omega
    simp [hb]
  · -- float
    intro raw h fuel rest hf
    unfold Item.WF at h
    have hfs : 0 + 1 ≤ fuel := by simpa [Item.sz] using hf
    obtain ⟨f, rfl, _⟩ := fuel_succ hfs
    rw [encode]
    simp only [List.cons_append]
    rw [readItem.eq_def]; dsimp only
    rcases h with h | h | h
    · have hb : (UInt8.ofNat (224 + 25)).toNat = 249 := by decide
      simp [h, hb, takeN_append' 2 raw rest h]
    · have hb : (UInt8.ofNat (224 + 26)).toNat = 250 := by decide
      simp [h, hb, takeN_append' 4 raw rest h]
    · have hb : (UInt8.ofNat (224 + 27)).toNat = 251 := by decide
      simp [h, hb, takeN_append' 8 raw rest h]
  · -- []
    intro _ fuel rest _
    simp [encodeL, readN, readUntilBreak]
  · -- x :: xs
    intro x xs ihx ihxs h fuel rest hf
    unfold WFL at h
    have hfs : x.sz + szL xs + 1 ≤ fuel := by simp [szL] at hf; omega
    obtain ⟨f, rfl, hf'⟩ := fuel_succ hfs
    have hx := ihx h.1 f (encodeL xs ++ rest) (by omega)
    have hxs := ihxs h.2 f rest (by omega)
    refine ⟨?_, ?_⟩
    · rw [encodeL, List.append_assoc, List.length_cons, readN]
      simp [hx, hxs.1]
    · obtain ⟨b, tl, hb, hne⟩ := encode_head x h.1
      have hx' := ihx h.1 (f + 1) (encodeL xs ++ 0xff :: rest) (by omega)
      rw [encodeL, List.append_assoc]
      rw [hb] at hx' ⊢
      simp only [List.cons_append]
      rw [readUntilBreak]
      simp only [hne, if_false]
      simp only [List.cons_append] at hx'
      rw [hx']
      simp [hxs.2]
  · -- KV []
    intro _ fuel rest _
    simp [encodeKV, readN, flatKV]
  · -- (k, v) :: rest
    intro k v r ihk ihv ihr h fuel rest hf
    unfold WFKV at h
    have hfs : 1 + k.sz + v.sz + szKV r + 1 ≤ fuel := by simp [szKV] at hf; omega
    obtain ⟨f, rfl, hf'⟩ := fuel_succ hfs
    have hfs2 : k.sz + v.sz + szKV r + 1 ≤ f := by omega
    obtain ⟨g, rfl, hg⟩ := fuel_succ hfs2
    have hk := ihk h.1 (g + 1) (encode v ++ (encodeKV r ++ rest)) (by omega)
    have hv := ihv h.2.1 g (encodeKV r ++ rest) (by omega)
    have hr := ihr h.2.2 g rest (by omega)
    rw [encodeKV, List.append_assoc, List.append_assoc, List.length_cons,
      show 2 * (r.length + 1) = (2 * r.length + 1) + 1 by omega, readN]
    simp only [hk, Option.bind_eq_bind, Option.bind_some, Option.pure_def]
    rw [readN.eq_def]
    simp [hv, hr, flatKV]

/-- **The reader inverts the writer**, with any continuation. -/
theorem readItem_encode (x : Item) (h : x.WF) (fuel : Nat) (rest : Bytes) (hf : x.sz ≤ fuel) :
    readItem fuel (encode x ++ rest) = some (x, rest) := roundtrip_all.1 x h fuel rest hf

theorem head_length_pos (m n : Nat) : 1 ≤ (head m n).length := by
  unfold head; simp only; split <;> (try split) <;> (try split) <;> (try split) <;> simp

theorem flatMap_chunks_length (cs : List Bytes) :
    cs.length ≤ (cs.flatMap fun c => head 2 c.length ++ c).length := by
  induction cs with
  | nil => simp
  | cons c cs ih =>
    have := head_length_pos 2 c.length
    simp only [List.flatMap_cons, List.length_append, List.length_cons]
    omega

/-- The fuel `decode` starts with is enough: an item of size `s` occupies at least `(s + 1) / 2` bytes. -/
theorem sz_le_all : (∀ x : Item, x.sz + 1 ≤ 2 * (encode x).length) ∧
    (∀ kvs, szKV kvs ≤ 2 * (encodeKV kvs).length) ∧ (∀ xs, szL xs ≤ 2 * (encodeL xs).length) := by
  apply encode.mutual_induct
    (motive_1 := fun x => x.sz + 1 ≤ 2 * (encode x).length)
    (motive_2 := fun kvs => szKV kvs ≤ 2 * (encodeKV kvs).length)
    (motive_3 := fun xs => szL xs ≤ 2 * (encodeL xs).length)
  · intro v hv; rw [encode, if_pos hv]; have := head_length_pos 0 v.toNat; simp [Item.sz]; omega
  · intro v hv; rw [encode, if_neg hv]; have := head_length_pos 1 (-1 - v).toNat; simp [Item.sz]; omega
  · intro b; rw [encode]; have := head_length_pos 2 b.length; simp [Item.sz]; omega
  · intro cs; rw [encode]; have := flatMap_chunks_length cs
    simp only [Item.sz, List.length_cons, List.length_append, List.length_nil]; omega
  · intro b; rw [encode]; have := head_length_pos 3 b.length; simp [Item.sz]; omega
  · intro xs ih; rw [encode]; have := head_length_pos 4 xs.length; simp [Item.sz]; omega
  · intro xs ih; rw [encode]; simp [Item.sz]; omega
  · intro kvs ih; rw [encode]; have := head_length_pos 5 kvs.length; simp [Item.sz]; omega
  · intro t x ih; rw [encode]; have := head_length_pos 6 t; simp [Item.sz]; omega
  · intro n hn; rw [encode, if_pos hn]; simp [Item.sz]
  · intro n hn; rw [encode, if_neg hn]; simp [Item.sz]
  · intro raw; rw [encode]; simp [Item.sz]; omega
  · simp [szL, encodeL]
  · intro x xs ihx ihxs; rw [encodeL]; simp [szL]; omega
  · simp [szKV, encodeKV]
  · intro k v r ihk ihv ihr; rw [encodeKV]; simp [szKV]; omega

/-- **`decode ∘ encode = some`** on well-formed items. -/
theorem decode_encode (x : Item) (h : x.WF) : decode (encode x) = some x := by
  unfold decode
  have hs := sz_le_all.1 x
  have := readItem_encode x h (2 * (encode x).length + 8) [] (by omega)
  rw [List.append_nil] at this
  rw [this]

/-- Non-vacuity: a nested item with every constructor is well formed and is read back. -/
example : decode (encode (.array [.int (-5), .map [(.text [0x61], .tag 2 (.bytes [1, 2]))], .arrayIndef [.simple 22, .simple 200],
    .bytesIndef [[1], [2, 3]], .float [0, 0]])) =
    some (.array [.int (-5), .map [(.text [0x61], .tag 2 (.bytes [1, 2]))], .arrayIndef [.simple 22, .simple 200],
    .bytesIndef [[1], [2, 3]], .float [0, 0]]) := by
  apply decode_encode
  simp [Item.WF, WFL, WFKV]

/-- The executable check implies the well-formedness the theorems assume. -/
theorem wfb_all : (∀ x : Item, x.wfb = true → x.WF) ∧ (∀ kvs, wfbKV kvs = true → WFKV kvs) ∧
    (∀ xs, wfbL xs = true → WFL xs) := by
  apply encode.mutual_induct
    (motive_1 := fun x => x.wfb = true → x.WF)
    (motive_2 := fun kvs => wfbKV kvs = true → WFKV kvs)
    (motive_3 := fun xs => wfbL xs = true → WFL xs)
  · intro v _ h; simp [Item.wfb] at h; unfold Item.WF; exact h
  · intro v _ h; simp [Item.wfb] at h; unfold Item.WF; exact h
  · intro b h; simp [Item.wfb] at h; unfold Item.WF; exact h
  · intro cs h; simp [Item.wfb] at h; unfold Item.WF; exact h
  · intro b h; simp [Item.wfb] at h; unfold Item.WF; exact h
  · intro xs ih h; simp [Item.wfb] at h; unfold Item.WF; exact ⟨h.1, ih h.2⟩
  · intro xs ih h; simp [Item.wfb] at h; unfold Item.WF; exact ih h
  · intro kvs ih h; simp [Item.wfb] at h; unfold Item.WF; exact ⟨h.1, ih h.2⟩
  · intro t x ih h; simp [Item.wfb] at h; unfold Item.WF; exact ⟨h.1, ih h.2⟩
  · intro n _ h; simp [Item.wfb] at h; unfold Item.WF; exact h
  · intro n _ h; simp [Item.wfb] at h; unfold Item.WF; exact h
  · intro raw h; simp [Item.wfb] at h; unfold Item.WF; omega
  · intro _; unfold WFL; trivial
  · intro x xs ihx ihxs h; simp [wfbL] at h; unfold WFL; exact ⟨ihx h.1, ihxs h.2⟩
  · intro _; unfold WFKV; trivial
  · intro k v r ihk ihv ihr h; simp [wfbKV] at h; unfold WFKV; exact ⟨ihk h.1.1, ihv h.1.2, ihr h.2⟩

theorem decode_encode_of_wfb (x : Item) (h : x.wfb = true) : decode (encode x) = some x :=
  decode_encode x (wfb_all.1 x h)

end Tx3.Cbor
