import Tx3Model.Peg

/-!
Invariants of the PEG engine, for every grammar, input and fuel: the position only advances, it
always sits on a character boundary of the input, and every pair produced lies inside the stretch
of input consumed while it was produced, its inner pairs inside it.
-/

namespace Tx3.Peg

theorem utf8Len_append (a b : List Char) : utf8Len (a ++ b) = utf8Len a + utf8Len b := by
  simp [utf8Len, List.map_append, List.sum_append]

theorem utf8Len_cons (c : Char) (cs : List Char) : utf8Len (c :: cs) = c.utf8Size + utf8Len cs := by
  simp [utf8Len]

theorem dropPrefix_eq {cs rest r : List Char} (h : dropPrefix cs rest = some r) : rest = cs ++ r := by
  induction cs generalizing rest with
  | nil => simp [dropPrefix] at h; simp [h]
  | cons c cs ih =>
    cases rest with
    | nil => simp [dropPrefix] at h
    | cons d rest =>
      simp only [dropPrefix] at h
      split at h
      · rename_i hcd; subst hcd; rw [ih h]; rfl
      · cases h

/-- `p` is the byte offset of a character boundary of `input`. -/
def IsPos (input : List Char) (p : Nat) : Prop := ∃ pre suf, input = pre ++ suf ∧ utf8Len pre = p

/-- The state describes a suffix of `input` and the byte offset at which it starts. -/
def St.Valid (input : List Char) (s : St) : Prop := ∃ pre, input = pre ++ s.rest ∧ utf8Len pre = s.pos

theorem St.Valid.isPos {input : List Char} {s : St} (h : s.Valid input) : IsPos input s.pos := by
  obtain ⟨pre, h1, h2⟩ := h; exact ⟨pre, s.rest, h1, h2⟩

theorem St.Valid.le_len {input : List Char} {s : St} (h : s.Valid input) : s.pos ≤ utf8Len input := by
  obtain ⟨pre, h1, h2⟩ := h; rw [h1, utf8Len_append]; omega

theorem St.Valid.advance {input : List Char} {s : St} {c r : List Char} (h : s.Valid input)
    (hr : s.rest = c ++ r) : St.Valid input { rest := r, pos := s.pos + utf8Len c } := by
  obtain ⟨pre, h1, h2⟩ := h
  refine ⟨pre ++ c, ?_, ?_⟩
  · simp only [h1, hr, List.append_assoc]
  · simp only [utf8Len_append, h2]

mutual
/-- The pair lies in `[lo, hi]`, on character boundaries, with its inner pairs inside it. -/
def Good (input : List Char) (lo hi : Nat) : PTree → Prop
  | .node _ a b cs => lo ≤ a ∧ a ≤ b ∧ b ≤ hi ∧ IsPos input a ∧ IsPos input b ∧ AllGood input a b cs
def AllGood (input : List Char) (lo hi : Nat) : List PTree → Prop
  | [] => True
  | t :: ts => Good input lo hi t ∧ AllGood input lo hi ts
end

theorem Good.mono {input : List Char} {lo hi lo' hi' : Nat} {t : PTree} (h : Good input lo hi t)
    (h1 : lo' ≤ lo) (h2 : hi ≤ hi') : Good input lo' hi' t := by
  cases t with
  | node r a b cs =>
    simp only [Good] at h ⊢
    exact ⟨by omega, h.2.1, by omega, h.2.2.2.1, h.2.2.2.2.1, h.2.2.2.2.2⟩

theorem AllGood.mono {input : List Char} {lo hi lo' hi' : Nat} {ts : List PTree}
    (h : AllGood input lo hi ts) (h1 : lo' ≤ lo) (h2 : hi ≤ hi') : AllGood input lo' hi' ts := by
  induction ts with
  | nil => simp [AllGood]
  | cons t ts ih => simp only [AllGood] at h ⊢; exact ⟨h.1.mono h1 h2, ih h.2⟩

theorem AllGood.append {input : List Char} {lo hi : Nat} {a b : List PTree}
    (ha : AllGood input lo hi a) (hb : AllGood input lo hi b) : AllGood input lo hi (a ++ b) := by
  induction a with
  | nil => simpa using hb
  | cons t ts ih => simp only [AllGood, List.cons_append] at ha ⊢; exact ⟨ha.1, ih ha.2⟩

theorem AllGood.nil {input : List Char} {lo hi : Nat} : AllGood input lo hi [] := by simp [AllGood]

/-- What a successful step guarantees. -/
def StepOk (input : List Char) (s s' : St) (ts : List PTree) : Prop :=
  s'.Valid input ∧ s.pos ≤ s'.pos ∧ AllGood input s.pos s'.pos ts

theorem StepOk.refl {input : List Char} {s : St} (h : s.Valid input) : StepOk input s s [] :=
  ⟨h, Nat.le_refl _, AllGood.nil⟩

theorem StepOk.node {input : List Char} {s s' : St} {ts : List PTree} (h : s.Valid input)
    (hs : StepOk input s s' ts) (name : String) (atomic : Bool) :
    StepOk input s s' (if atomic then ts else [.node name s.pos s'.pos ts]) := by
  cases atomic with
  | true => exact hs
  | false =>
    refine ⟨hs.1, hs.2.1, ?_⟩
    simp only [Bool.false_eq_true, if_false, AllGood, Good, and_true]
    exact ⟨Nat.le_refl _, hs.2.1, Nat.le_refl _, h.isPos, hs.1.isPos, hs.2.2⟩

theorem StepOk.trans {input : List Char} {s s1 s2 : St} {t1 t2 : List PTree}
    (h1 : StepOk input s s1 t1) (h2 : StepOk input s1 s2 t2) : StepOk input s s2 (t1 ++ t2) :=
  ⟨h2.1, Nat.le_trans h1.2.1 h2.2.1,
   AllGood.append (h1.2.2.mono (Nat.le_refl _) h2.2.1) (h2.2.2.mono h1.2.1 (Nat.le_refl _))⟩

/-- The three mutually recursive functions keep the invariant, for every fuel. -/
theorem engine_inv (g : Grammar) (input : List Char) : ∀ fuel : Nat,
    (∀ atomic ws e s s' ts, s.Valid input → eval g fuel atomic ws e s = .ok s' ts → StepOk input s s' ts) ∧
    (∀ atomic ws e first s acc s' ts lo, s.Valid input → lo ≤ s.pos → AllGood input lo s.pos acc →
        starLoop g fuel atomic ws e first s acc = .ok s' ts →
        s'.Valid input ∧ s.pos ≤ s'.pos ∧ AllGood input lo s'.pos ts) ∧
    (∀ atomic s s' ts, s.Valid input → skip g fuel atomic s = .ok s' ts → s'.Valid input ∧ s.pos ≤ s'.pos) := by
  intro fuel
  induction fuel with
  | zero =>
    refine ⟨?_, ?_, ?_⟩
    · intro atomic ws e s s' ts _ h; simp [eval] at h
    · intro atomic ws e first s acc s' ts lo _ _ _ h; simp [starLoop] at h
    · intro atomic s s' ts _ h; simp [skip] at h
  | succ fuel ih =>
    obtain ⟨ihE, ihS, ihK⟩ := ih
    -- the skip between the items of a sequence, as `eval`/`starLoop` call it
    have skipStep : ∀ (c : Bool) atomic s s2 x, s.Valid input →
        (if c then skip g fuel atomic s else Res.ok s []) = .ok s2 x → s2.Valid input ∧ s.pos ≤ s2.pos := by
      intro c atomic s s2 x hv h
      cases c with
      | true => exact ihK atomic s s2 x hv (by simpa using h)
      | false =>
        simp only [Bool.false_eq_true, if_false, Res.ok.injEq] at h
        obtain ⟨rfl, _⟩ := h; exact ⟨hv, Nat.le_refl _⟩
    refine ⟨?_, ?_, ?_⟩
    · intro atomic ws e s s' ts hv h
      cases e with
      | str cs =>
        simp only [eval] at h
        split at h
        · rename_i rest hd
          simp only [Res.ok.injEq] at h; obtain ⟨rfl, rfl⟩ := h
          exact ⟨hv.advance (dropPrefix_eq hd), by simp, AllGood.nil⟩
        · cases h
      | any =>
        simp only [eval] at h
        split at h
        · rename_i c rest hr
          simp only [Res.ok.injEq] at h; obtain ⟨rfl, rfl⟩ := h
          have := hv.advance (c := [c]) (r := rest) (by simp [hr])
          exact ⟨this, by simp, AllGood.nil⟩
        · cases h
      | soi =>
        simp only [eval] at h
        split at h
        · simp only [Res.ok.injEq] at h; obtain ⟨rfl, rfl⟩ := h; exact StepOk.refl hv
        · cases h
      | eoi =>
        simp only [eval] at h
        split at h
        · simp only [Res.ok.injEq] at h; obtain ⟨rfl, rfl⟩ := h
          cases atomic with
          | true => exact StepOk.refl hv
          | false =>
            refine ⟨hv, Nat.le_refl _, ?_⟩
            simp only [Bool.false_eq_true, if_false, AllGood, Good, and_true]
            exact ⟨Nat.le_refl _, Nat.le_refl _, Nat.le_refl _, hv.isPos, hv.isPos⟩
        · cases h
      | ranges rs =>
        simp only [eval] at h
        split at h
        · rename_i c rest hr
          split at h
          · simp only [Res.ok.injEq] at h; obtain ⟨rfl, rfl⟩ := h
            have := hv.advance (c := [c]) (r := rest) (by simp [hr])
            exact ⟨this, by simp, AllGood.nil⟩
          · cases h
        · cases h
      | ref i =>
        simp only [eval] at h
        split at h
        · cases h
        · rename_i r hr
          split at h
          · exact ihE _ _ _ _ _ _ hv h
          · split at h
            · rename_i s1 t1 he
              simp only [Res.ok.injEq] at h; obtain ⟨rfl, rfl⟩ := h
              exact StepOk.node hv (ihE _ _ _ _ _ _ hv he) _ _
            · rename_i hne; exact absurd h (by intro h'; exact hne _ _ h')
          · split at h
            · rename_i s1 t1 he
              simp only [Res.ok.injEq] at h; obtain ⟨rfl, rfl⟩ := h
              exact StepOk.node hv (ihE _ _ _ _ _ _ hv he) _ _
            · rename_i hne; exact absurd h (by intro h'; exact hne _ _ h')
      | seq a b =>
        simp only [eval] at h
        split at h
        · rename_i s1 t1 ha
          have h1 := ihE _ _ _ _ _ _ hv ha
          split at h
          · rename_i s2 x hk
            have h2 := skipStep ws atomic s1 s2 x h1.1 hk
            split at h
            · rename_i s3 t3 hb
              simp only [Res.ok.injEq] at h; obtain ⟨rfl, rfl⟩ := h
              have h3 := ihE _ _ _ _ _ _ h2.1 hb
              refine ⟨h3.1, by have := h1.2.1; have := h2.2; have := h3.2.1; omega, ?_⟩
              exact AllGood.append (h1.2.2.mono (Nat.le_refl _) (by have := h2.2; have := h3.2.1; omega))
                (h3.2.2.mono (by have := h1.2.1; have := h2.2; omega) (Nat.le_refl _))
            · rename_i hne; exact absurd h (by intro h'; exact hne _ _ h')
          · rename_i hne; exact absurd h (by intro h'; exact hne _ _ h')
        · rename_i hne; exact absurd h (by intro h'; exact hne _ _ h')
      | choice a b =>
        simp only [eval] at h
        split at h
        · exact ihE _ _ _ _ _ _ hv h
        · exact ihE _ _ _ _ _ _ hv h
      | star e =>
        simp only [eval] at h
        exact ihS _ _ _ _ _ _ _ _ s.pos hv (Nat.le_refl _) AllGood.nil h
      | plus e =>
        simp only [eval] at h
        exact ihE _ _ _ _ _ _ hv h
      | opt e =>
        simp only [eval] at h
        split at h
        · simp only [Res.ok.injEq] at h; obtain ⟨rfl, rfl⟩ := h; exact StepOk.refl hv
        · exact ihE _ _ _ _ _ _ hv h
      | not e =>
        simp only [eval] at h
        split at h
        · cases h
        · simp only [Res.ok.injEq] at h; obtain ⟨rfl, rfl⟩ := h; exact StepOk.refl hv
        · cases h
    · intro atomic ws e first s acc s' ts lo hv hlo hacc h
      simp only [starLoop] at h
      split at h
      · rename_i s1 x hk
        have h1 : s1.Valid input ∧ s.pos ≤ s1.pos := by
          by_cases hc : (first || !ws) = true
          · simp only [hc, if_true, Res.ok.injEq] at hk; obtain ⟨rfl, _⟩ := hk; exact ⟨hv, Nat.le_refl _⟩
          · simp only [hc, Bool.false_eq_true, if_false] at hk; exact ihK _ _ _ _ hv hk
        split at h
        · rename_i s2 t2 he
          have h2 := ihE _ _ _ _ _ _ h1.1 he
          have h3 := ihS _ _ _ _ _ _ _ _ lo h2.1 (by have := h1.2; have := h2.2.1; omega)
            (AllGood.append (hacc.mono (Nat.le_refl _) (by have := h1.2; have := h2.2.1; omega))
              (h2.2.2.mono (by have := h1.2; omega) (Nat.le_refl _))) h
          exact ⟨h3.1, by have := h1.2; have := h2.2.1; have := h3.2.1; omega, h3.2.2⟩
        · simp only [Res.ok.injEq] at h; obtain ⟨rfl, rfl⟩ := h; exact ⟨hv, Nat.le_refl _, hacc⟩
        · cases h
      · simp only [Res.ok.injEq] at h; obtain ⟨rfl, rfl⟩ := h; exact ⟨hv, Nat.le_refl _, hacc⟩
      · cases h
    · intro atomic s s' ts hv h
      simp only [skip] at h
      split at h
      · simp only [Res.ok.injEq] at h; obtain ⟨rfl, _⟩ := h; exact ⟨hv, Nat.le_refl _⟩
      · split at h
        · rename_i s1 x hw
          have h1 := ihS _ _ _ _ _ _ _ _ s.pos hv (Nat.le_refl _) AllGood.nil hw
          have h2 := ihS _ _ _ _ _ _ _ _ s1.pos h1.1 (Nat.le_refl _) AllGood.nil h
          exact ⟨h2.1, Nat.le_trans h1.2.1 h2.2.1⟩
        · rename_i hne; exact absurd h (by intro h'; exact hne _ _ h')

end Tx3.Peg
