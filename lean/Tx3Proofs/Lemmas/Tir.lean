import Tx3Model.SpecTir

/-! Induction principle and list-level facts for the uniform TIR tree. -/

namespace Tx3

/-- Simultaneous induction over an expression and its child lists. -/
theorem Expr.induct {P : Expr → Prop} {Q : List Expr → Prop}
    (leaf : ∀ l, P (.leaf l)) (node : ∀ k cs, Q cs → P (.node k cs))
    (nil : Q []) (cons : ∀ c cs, P c → Q cs → Q (c :: cs)) : (∀ e, P e) ∧ (∀ es, Q es) :=
  ⟨fun e => Expr.rec (motive_1 := P) (motive_2 := Q) leaf node nil cons e,
   fun es => Expr.rec_1 (motive_1 := P) (motive_2 := Q) leaf node nil cons es⟩

namespace Expr

@[simp] theorem unresolvedL_nil : unresolvedL [] = [] := by simp [unresolvedL]
@[simp] theorem unresolvedL_cons (c : Expr) (cs : List Expr) :
    unresolvedL (c :: cs) = unresolved c ++ unresolvedL cs := by simp [unresolvedL]
@[simp] theorem unresolved_leaf (l : Leaf) : unresolved (leaf l) = [] := by simp [unresolved]

theorem ClosedL_cons {c : Expr} {cs : List Expr} : ClosedL (c :: cs) ↔ Closed c ∧ ClosedL cs := by
  simp [ClosedL, Closed]

theorem ClosedL_nil : ClosedL [] := by simp [ClosedL]

theorem unresolvedL_append (xs ys : List Expr) :
    unresolvedL (xs ++ ys) = unresolvedL xs ++ unresolvedL ys := by
  induction xs with
  | nil => simp
  | cons x xs ih => simp [ih]

theorem ClosedL_append {xs ys : List Expr} : ClosedL (xs ++ ys) ↔ ClosedL xs ∧ ClosedL ys := by
  simp [ClosedL, unresolvedL_append]

theorem ClosedL_iff {cs : List Expr} : ClosedL cs ↔ ∀ c ∈ cs, Closed c := by
  induction cs with
  | nil => simp [ClosedL]
  | cons c cs ih => rw [ClosedL_cons, ih]; simp

theorem Closed_leaf (l : Leaf) : Closed (leaf l) := by simp [Closed]

theorem unresolved_node (k : Kind) (cs : List Expr) :
    unresolved (node k cs) = k.pref?.toList ++ unresolvedL cs := by simp [unresolved]

theorem Closed_node {k : Kind} {cs : List Expr} :
    Closed (node k cs) ↔ k.pref? = none ∧ ClosedL cs := by
  unfold Closed ClosedL
  rw [unresolved_node]
  cases h : k.pref? <;> simp

@[simp] theorem SealedL_nil : SealedL [] := by simp [SealedL]
theorem SealedL_cons {c : Expr} {cs : List Expr} : SealedL (c :: cs) ↔ Sealed c ∧ SealedL cs := by
  simp [SealedL]
theorem Sealed_node {k : Kind} {cs : List Expr} :
    Sealed (node k cs) ↔ Kind.SealedAt k cs ∧ SealedL cs := by simp [Sealed]

@[simp] theorem paramsL_nil : paramsL [] = [] := by simp [paramsL]
@[simp] theorem paramsL_cons (c : Expr) (cs : List Expr) :
    paramsL (c :: cs) = params c ++ paramsL cs := by simp [paramsL]
@[simp] theorem queriesL_nil : queriesL [] = [] := by simp [queriesL]
@[simp] theorem queriesL_cons (c : Expr) (cs : List Expr) :
    queriesL (c :: cs) = queries c ++ queriesL cs := by simp [queriesL]
@[simp] theorem applyArgsL_nil (σ : ArgMap) : applyArgsL σ [] = [] := by simp [applyArgsL]
@[simp] theorem applyArgsL_cons (σ : ArgMap) (c : Expr) (cs : List Expr) :
    applyArgsL σ (c :: cs) = applyArgs σ c :: applyArgsL σ cs := by simp [applyArgsL]
@[simp] theorem applyInputsL_nil (ι : InputMap) : applyInputsL ι [] = [] := by simp [applyInputsL]
@[simp] theorem applyInputsL_cons (ι : InputMap) (c : Expr) (cs : List Expr) :
    applyInputsL ι (c :: cs) = applyInputs ι c :: applyInputsL ι cs := by simp [applyInputsL]
@[simp] theorem applyFeesL_nil (f : Int) : applyFeesL f [] = [] := by simp [applyFeesL]
@[simp] theorem applyFeesL_cons (f : Int) (c : Expr) (cs : List Expr) :
    applyFeesL f (c :: cs) = applyFees f c :: applyFeesL f cs := by simp [applyFeesL]
@[simp] theorem isConstantL_nil : isConstantL [] = true := by simp [isConstantL]
@[simp] theorem isConstantL_cons (c : Expr) (cs : List Expr) :
    isConstantL (c :: cs) = (isConstant c && isConstantL cs) := by simp [isConstantL]

theorem applyArgsL_eq_map (σ : ArgMap) (cs : List Expr) : applyArgsL σ cs = cs.map (applyArgs σ) := by
  induction cs with
  | nil => simp
  | cons c cs ih => simp [ih]
theorem applyInputsL_eq_map (ι : InputMap) (cs : List Expr) :
    applyInputsL ι cs = cs.map (applyInputs ι) := by
  induction cs with
  | nil => simp
  | cons c cs ih => simp [ih]
theorem applyFeesL_eq_map (f : Int) (cs : List Expr) : applyFeesL f cs = cs.map (applyFees f) := by
  induction cs with
  | nil => simp
  | cons c cs ih => simp [ih]

theorem Closed_feeExpr (f : Int) : Closed (feeExpr f) := by
  simp [Closed, feeExpr, unresolved, Kind.pref?]

end Expr
end Tx3
