import Tx3Model.Assets

/-! Helper lemmas about the association-list model of `CanonicalAssets`. -/

namespace Tx3.Assets

@[simp] theorem get?_nil (c : AssetClass) : get? [] c = none := rfl
@[simp] theorem amt_nil (c : AssetClass) : amt [] c = 0 := rfl

theorem get?_cons (k : AssetClass) (v : Int) (rest : Assets) (c : AssetClass) :
    get? ((k, v) :: rest) c = if k = c then some v else get? rest c := rfl

theorem amt_cons (k : AssetClass) (v : Int) (rest : Assets) (c : AssetClass) :
    amt ((k, v) :: rest) c = if k = c then v else amt rest c := by
  unfold amt; rw [get?_cons]; split <;> rfl

theorem get?_none_of_not_mem_keys {a : Assets} {c : AssetClass} (h : c ∉ keys a) :
    get? a c = none := by
  induction a with
  | nil => rfl
  | cons kv rest ih =>
    obtain ⟨k, v⟩ := kv
    simp only [keys, List.map_cons, List.mem_cons, not_or] at h
    rw [get?_cons, if_neg (fun e => h.1 e.symm)]
    exact ih h.2

theorem amt_zero_of_not_mem_keys {a : Assets} {c : AssetClass} (h : c ∉ keys a) :
    amt a c = 0 := by
  unfold amt; rw [get?_none_of_not_mem_keys h]; rfl

theorem mem_of_get?_some {a : Assets} {c : AssetClass} {v : Int} (h : get? a c = some v) :
    (c, v) ∈ a := by
  induction a with
  | nil => simp at h
  | cons kv rest ih =>
    obtain ⟨k, w⟩ := kv
    rw [get?_cons] at h
    by_cases hk : k = c
    · rw [if_pos hk] at h; cases h; subst hk; exact List.mem_cons_self
    · rw [if_neg hk] at h; exact List.mem_cons_of_mem _ (ih h)

theorem mem_keys_of_mem {a : Assets} {k : AssetClass} {v : Int} (h : (k, v) ∈ a) : k ∈ keys a :=
  List.mem_map.mpr ⟨(k, v), h, rfl⟩

theorem WF_cons {k : AssetClass} {v : Int} {rest : Assets} :
    WF ((k, v) :: rest) ↔ k ∉ keys rest ∧ WF rest := by
  unfold WF keys; simp [List.nodup_cons]

theorem get?_some_of_mem {a : Assets} (hwf : WF a) {k : AssetClass} {v : Int} (h : (k, v) ∈ a) :
    get? a k = some v := by
  induction a with
  | nil => cases h
  | cons kv rest ih =>
    obtain ⟨k', w⟩ := kv
    obtain ⟨hnk, hwf'⟩ := WF_cons.mp hwf
    rw [get?_cons]
    rcases List.mem_cons.mp h with h | h
    · cases h; simp
    · have : k' ≠ k := fun e => hnk (e ▸ mem_keys_of_mem h)
      rw [if_neg this]; exact ih hwf' h

theorem amt_of_mem {a : Assets} (hwf : WF a) {k : AssetClass} {v : Int} (h : (k, v) ∈ a) :
    amt a k = v := by
  unfold amt; rw [get?_some_of_mem hwf h]; rfl

/-! ### upsert -/

theorem amt_upsert (a : Assets) (k : AssetClass) (d : Int) (c : AssetClass) :
    amt (upsert a k d) c = amt a c + if k = c then d else 0 := by
  induction a with
  | nil =>
    simp only [upsert, amt_cons, amt_nil]
    split <;> omega
  | cons kv rest ih =>
    obtain ⟨k', v⟩ := kv
    simp only [upsert]
    by_cases h : k' = k
    · subst h
      rw [if_pos rfl, amt_cons, amt_cons]
      split <;> omega
    · rw [if_neg h, amt_cons, amt_cons, ih]
      by_cases h2 : k' = c
      · have : ¬ k = c := fun e => h (h2.trans e.symm)
        simp [h2, this]
      · simp [h2]

theorem keys_upsert (a : Assets) (k : AssetClass) (d : Int) :
    keys (upsert a k d) = if k ∈ keys a then keys a else keys a ++ [k] := by
  induction a with
  | nil => simp [upsert, keys]
  | cons kv rest ih =>
    obtain ⟨k', v⟩ := kv
    simp only [upsert]
    by_cases h : k' = k
    · subst h; simp [keys]
    · rw [if_neg h]
      have hk : keys ((k', v) :: upsert rest k d) = k' :: keys (upsert rest k d) := rfl
      have hk2 : keys ((k', v) :: rest) = k' :: keys rest := rfl
      rw [hk, hk2, ih]
      have : (k ∈ k' :: keys rest) ↔ k ∈ keys rest := by
        simp [List.mem_cons]; exact fun e => absurd e.symm h
      by_cases hm : k ∈ keys rest
      · simp [hm]
      · simp [hm, this]

theorem WF_upsert {a : Assets} (h : WF a) (k : AssetClass) (d : Int) : WF (upsert a k d) := by
  unfold WF at *
  rw [keys_upsert]
  split
  · exact h
  · rename_i hn
    rw [List.nodup_append]
    refine ⟨h, by simp, ?_⟩
    intro x hx y hy
    simp at hy; subst hy
    exact fun e => hn (e ▸ hx)

/-! ### addRaw / subRaw -/

theorem WF_foldl_upsert (f : Int → Int) (b : Assets) : ∀ {a : Assets}, WF a →
    WF (b.foldl (fun acc kv => upsert acc kv.1 (f kv.2)) a) := by
  induction b with
  | nil => intro a h; exact h
  | cons kv rest ih => intro a h; exact ih (WF_upsert h _ _)

theorem amt_foldl_upsert (f : Int → Int) (hf : f 0 = 0) (b : Assets) (hb : WF b) :
    ∀ (a : Assets) (c : AssetClass),
    amt (b.foldl (fun acc kv => upsert acc kv.1 (f kv.2)) a) c = amt a c + f (amt b c) := by
  induction b with
  | nil => intro a c; simp [hf]
  | cons kv rest ih =>
    obtain ⟨k, v⟩ := kv
    obtain ⟨hnk, hwf'⟩ := WF_cons.mp hb
    intro a c
    rw [List.foldl_cons, ih hwf', amt_upsert, amt_cons]
    by_cases h : k = c
    · subst h
      rw [amt_zero_of_not_mem_keys hnk]
      simp [hf]
    · simp [h]

theorem WF_addRaw {a b : Assets} (h : WF a) : WF (addRaw a b) :=
  WF_foldl_upsert (fun x => x) b h

theorem WF_subRaw {a b : Assets} (h : WF a) : WF (subRaw a b) :=
  WF_foldl_upsert (fun x => -x) b h

theorem amt_addRaw {a b : Assets} (hb : WF b) (c : AssetClass) :
    amt (addRaw a b) c = amt a c + amt b c :=
  amt_foldl_upsert (fun x => x) rfl b hb a c

theorem amt_subRaw {a b : Assets} (hb : WF b) (c : AssetClass) :
    amt (subRaw a b) c = amt a c - amt b c := by
  have := amt_foldl_upsert (fun x => -x) (by simp) b hb a c
  unfold subRaw; rw [this]; omega

/-! ### retainNZ -/

theorem WF_retainNZ {a : Assets} (h : WF a) : WF (retainNZ a) := by
  unfold WF keys retainNZ at *
  exact List.Nodup.sublist (List.Sublist.map _ List.filter_sublist) h

theorem keys_retainNZ_subset (a : Assets) {c : AssetClass} (h : c ∈ keys (retainNZ a)) :
    c ∈ keys a := by
  unfold keys retainNZ at *
  obtain ⟨kv, hkv, rfl⟩ := List.mem_map.mp h
  exact List.mem_map.mpr ⟨kv, (List.mem_filter.mp hkv).1, rfl⟩

theorem amt_retainNZ {a : Assets} (h : WF a) (c : AssetClass) : amt (retainNZ a) c = amt a c := by
  induction a with
  | nil => rfl
  | cons kv rest ih =>
    obtain ⟨k, v⟩ := kv
    obtain ⟨hnk, hwf'⟩ := WF_cons.mp h
    unfold retainNZ
    rw [List.filter_cons]
    by_cases hv : v = 0
    · subst hv
      simp only [ne_eq, not_true_eq_false, decide_false, Bool.false_eq_true, ↓reduceIte]
      rw [amt_cons]
      by_cases hk : k = c
      · subst hk
        rw [if_pos rfl]
        apply amt_zero_of_not_mem_keys
        exact fun hm => hnk (keys_retainNZ_subset rest hm)
      · rw [if_neg hk]; exact ih hwf'
    · simp only [ne_eq, hv, not_false_eq_true, decide_true, ↓reduceIte]
      rw [amt_cons, amt_cons]
      split
      · rfl
      · exact ih hwf'

theorem retainNZ_nonzero {a : Assets} {k : AssetClass} {v : Int} (h : (k, v) ∈ retainNZ a) :
    v ≠ 0 := by
  unfold retainNZ at h
  have := (List.mem_filter.mp h).2
  simpa using this

/-! ### add / sub / neg -/

theorem WF_add {a b : Assets} (h : WF a) : WF (add a b) := WF_retainNZ (WF_addRaw h)
theorem WF_sub {a b : Assets} (h : WF a) : WF (sub a b) := WF_retainNZ (WF_subRaw h)

theorem amt_add {a b : Assets} (ha : WF a) (hb : WF b) (c : AssetClass) :
    amt (add a b) c = amt a c + amt b c := by
  unfold add; rw [amt_retainNZ (WF_addRaw ha), amt_addRaw hb]

theorem amt_sub {a b : Assets} (ha : WF a) (hb : WF b) (c : AssetClass) :
    amt (sub a b) c = amt a c - amt b c := by
  unfold sub; rw [amt_retainNZ (WF_subRaw ha), amt_subRaw hb]

theorem keys_neg (a : Assets) : keys (neg a) = keys a := by
  unfold keys neg; rw [List.map_map]; rfl

theorem WF_neg {a : Assets} (h : WF a) : WF (neg a) := by
  unfold WF; rw [keys_neg]; exact h

theorem amt_neg (a : Assets) (c : AssetClass) : amt (neg a) c = - amt a c := by
  induction a with
  | nil => rfl
  | cons kv rest ih =>
    obtain ⟨k, v⟩ := kv
    have : neg ((k, v) :: rest) = (k, -v) :: neg rest := rfl
    rw [this, amt_cons, amt_cons, ih]
    split <;> rfl

/-! ### constructors are well formed -/

theorem WF_single (c : AssetClass) (n : Int) : WF [(c, n)] := by simp [WF, keys]
theorem WF_empty : WF empty := by simp [WF, keys, empty]
theorem WF_fromNakedAmount (n : Int) : WF (fromNakedAmount n) := WF_single _ _
theorem WF_fromClassAndAmount (c : AssetClass) (n : Int) : WF (fromClassAndAmount c n) :=
  WF_single _ _
theorem WF_fromNamedAsset (nm : Bytes) (n : Int) : WF (fromNamedAsset nm n) := by
  unfold fromNamedAsset; split
  · exact WF_fromNakedAmount n
  · exact WF_single _ _
theorem WF_fromDefinedAsset (p nm : Bytes) (n : Int) : WF (fromDefinedAsset p nm n) := by
  unfold fromDefinedAsset; split
  · exact WF_fromNamedAsset nm n
  · exact WF_single _ _
theorem WF_fromAsset (p nm : Option Bytes) (n : Int) : WF (fromAsset p nm n) := by
  unfold fromAsset
  split
  · exact WF_fromDefinedAsset _ _ _
  · exact WF_fromDefinedAsset _ _ _
  · exact WF_fromNamedAsset _ _
  · exact WF_fromNakedAmount _

/-! ### semantic equality -/

theorem SemEq.refl (a : Assets) : a ≈ₐ a := fun _ => rfl
theorem SemEq.symm {a b : Assets} (h : a ≈ₐ b) : b ≈ₐ a := fun c => (h c).symm
theorem SemEq.trans {a b c : Assets} (h1 : a ≈ₐ b) (h2 : b ≈ₐ c) : a ≈ₐ c :=
  fun x => (h1 x).trans (h2 x)

/-- The amount function of a key-unique list does not depend on the order of its entries:
this is what makes the unmodelled `HashMap` order immaterial. -/
theorem SemEq_of_perm {a b : Assets} (hp : a.Perm b) (ha : WF a) : a ≈ₐ b := by
  have hb : WF b := by
    unfold WF keys at *
    exact (List.Perm.nodup_iff (List.Perm.map _ hp)).mp ha
  intro c
  cases hg : get? a c with
  | some v =>
    have hm := mem_of_get?_some hg
    have hm' : (c, v) ∈ b := hp.mem_iff.mp hm
    unfold amt; rw [hg, get?_some_of_mem hb hm']
  | none =>
    cases hg' : get? b c with
    | none => unfold amt; rw [hg, hg']
    | some w =>
      have hm := mem_of_get?_some hg'
      have hm' : (c, w) ∈ a := hp.mem_iff.mpr hm
      rw [get?_some_of_mem ha hm'] at hg
      cases hg

end Tx3.Assets
