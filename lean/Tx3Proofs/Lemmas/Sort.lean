import Tx3Model.Basic

/-! Insertion sort with a total order: the result is sorted, a permutation of the input, and
the *only* sorted permutation — which is what makes "sort before emitting" wash out any
iteration order. -/

namespace Tx3

variable {α : Type}

/-- `le` is a total order with antisymmetry on the elements that matter. -/
structure TotalOrder (le : α → α → Bool) : Prop where
  total : ∀ a b, le a b = true ∨ le b a = true
  trans : ∀ a b c, le a b = true → le b c = true → le a c = true
  antisymm : ∀ a b, le a b = true → le b a = true → a = b

theorem insertBy_perm (le : α → α → Bool) (x : α) (l : List α) : (insertBy le x l).Perm (x :: l) := by
  induction l with
  | nil => exact List.Perm.refl _
  | cons y ys ih =>
    rw [insertBy]
    split
    · exact List.Perm.refl _
    · exact (List.Perm.cons y ih).trans (List.Perm.swap x y ys)

theorem sortBy_perm (le : α → α → Bool) (l : List α) : (sortBy le l).Perm l := by
  induction l with
  | nil => exact List.Perm.refl _
  | cons x xs ih =>
    rw [sortBy]
    exact (insertBy_perm le x _).trans (List.Perm.cons x ih)

theorem insertBy_sorted {le : α → α → Bool} (h : TotalOrder le) (x : α) (l : List α)
    (hl : l.Pairwise (fun a b => le a b = true)) : (insertBy le x l).Pairwise (fun a b => le a b = true) := by
  induction l with
  | nil => simp [insertBy]
  | cons y ys ih =>
    rw [insertBy]
    rw [List.pairwise_cons] at hl
    split
    · rename_i hxy
      rw [List.pairwise_cons]
      refine ⟨fun z hz => ?_, List.pairwise_cons.mpr hl⟩
      rcases List.mem_cons.mp hz with hz | hz
      · subst hz; exact hxy
      · exact h.trans _ _ _ hxy (hl.1 z hz)
    · rename_i hxy
      have hyx : le y x = true := (h.total y x).resolve_right (by simpa using hxy)
      rw [List.pairwise_cons]
      refine ⟨fun z hz => ?_, ih hl.2⟩
      have := (insertBy_perm le x ys).mem_iff.mp hz
      rcases List.mem_cons.mp this with hz' | hz'
      · subst hz'; exact hyx
      · exact hl.1 z hz'

theorem sortBy_sorted {le : α → α → Bool} (h : TotalOrder le) (l : List α) :
    (sortBy le l).Pairwise (fun a b => le a b = true) := by
  induction l with
  | nil => simp [sortBy]
  | cons x xs ih => rw [sortBy]; exact insertBy_sorted h x _ ih

/-- Two sorted lists with the same elements are the same list. -/
theorem sorted_perm_eq {le : α → α → Bool} (h : TotalOrder le) :
    ∀ (l₁ l₂ : List α), l₁.Pairwise (fun a b => le a b = true) → l₂.Pairwise (fun a b => le a b = true) →
    l₁.Perm l₂ → l₁ = l₂ := by
  intro l₁
  induction l₁ with
  | nil => intro l₂ _ _ hp; exact (List.Perm.nil_eq hp)
  | cons a t₁ ih =>
    intro l₂ h1 h2 hp
    cases l₂ with
    | nil => exact absurd hp.symm (by intro hc; have := List.Perm.nil_eq hc; cases this)
    | cons b t₂ =>
      rw [List.pairwise_cons] at h1 h2
      have hab : a = b := by
        have ha : a ∈ b :: t₂ := hp.mem_iff.mp List.mem_cons_self
        have hb : b ∈ a :: t₁ := hp.mem_iff.mpr List.mem_cons_self
        rcases List.mem_cons.mp ha with ha | ha
        · exact ha
        · rcases List.mem_cons.mp hb with hb | hb
          · exact hb.symm
          · exact h.antisymm a b (h1.1 b hb) (h2.1 a ha)
      subst hab
      congr 1
      exact ih t₂ h1.2 h2.2 (List.Perm.cons_inv hp)

/-- **Sorting washes out the input order.** -/
theorem sortBy_perm_invariant {le : α → α → Bool} (h : TotalOrder le) {l₁ l₂ : List α} (hp : l₁.Perm l₂) :
    sortBy le l₁ = sortBy le l₂ :=
  sorted_perm_eq h _ _ (sortBy_sorted h l₁) (sortBy_sorted h l₂)
    ((sortBy_perm le l₁).trans (hp.trans (sortBy_perm le l₂).symm))

end Tx3
