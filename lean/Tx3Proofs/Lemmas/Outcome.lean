import Tx3Model.Tir

/-! Reasoning about the `Outcome` monad: when a bind is `ok`, and that panics never appear. -/

namespace Tx3
namespace Outcome

theorem bind_eq_ok {α β} {x : Outcome α} {f : α → Outcome β} {b : β} :
    (x >>= f) = .ok b ↔ ∃ a, x = .ok a ∧ f a = .ok b := by
  cases x with
  | ok a => exact ⟨fun h => ⟨a, rfl, h⟩, fun ⟨a', h1, h2⟩ => by cases h1; exact h2⟩
  | err e =>
    constructor
    · intro h; cases h
    · rintro ⟨_, h1, _⟩; cases h1
  | panic s =>
    constructor
    · intro h; cases h
    · rintro ⟨_, h1, _⟩; cases h1

@[simp] theorem pure_eq_ok {α} (a : α) : (pure a : Outcome α) = .ok a := rfl

@[simp] theorem ok_bind {α β} (a : α) (f : α → Outcome β) : (Outcome.ok a >>= f) = f a := rfl

/-- The computation never panics. -/
def NoPanic {α} (x : Outcome α) : Prop := ∀ s, x ≠ .panic s

theorem np_ok {α} (a : α) : NoPanic (.ok a : Outcome α) := fun _ h => by cases h
theorem np_pure {α} (a : α) : NoPanic (pure a : Outcome α) := fun _ h => by cases h
theorem np_err {α} (e : String) : NoPanic (.err e : Outcome α) := fun _ h => by cases h

theorem np_bind {α β} {x : Outcome α} {f : α → Outcome β} (hx : NoPanic x) (hf : ∀ a, NoPanic (f a)) :
    NoPanic (x >>= f) := by
  intro s h
  cases x with
  | ok a => exact hf a s h
  | err e => cases h
  | panic s' => exact hx s' rfl

theorem np_ite {α} {c : Prop} [Decidable c] {x y : Outcome α} (hx : NoPanic x) (hy : NoPanic y) :
    NoPanic (if c then x else y) := by
  split <;> assumption

end Outcome

open Outcome

theorem np_mapMO {α β} {f : α → Outcome β} (hf : ∀ a, NoPanic (f a)) (l : List α) : NoPanic (mapMO f l) := by
  induction l with
  | nil => exact np_ok _
  | cons x xs ih =>
    rw [mapMO]
    exact np_bind (hf x) fun _ => np_bind ih fun _ => np_pure _

theorem np_mapMO_mem {α β} {f : α → Outcome β} (l : List α) (hf : ∀ a ∈ l, NoPanic (f a)) :
    NoPanic (mapMO f l) := by
  induction l with
  | nil => exact np_ok _
  | cons x xs ih =>
    rw [mapMO]
    exact np_bind (hf x List.mem_cons_self) fun _ =>
      np_bind (ih fun a ha => hf a (List.mem_cons_of_mem _ ha)) fun _ => np_pure _

theorem mapMO_ok_mem {α β} {f : α → Outcome β} {l : List α} {r : List β} (h : mapMO f l = .ok r) :
    ∀ b ∈ r, ∃ a ∈ l, f a = .ok b := by
  induction l generalizing r with
  | nil => rw [mapMO] at h; cases h; intro b hb; cases hb
  | cons x xs ih =>
    rw [mapMO] at h
    obtain ⟨y, hy, h⟩ := bind_eq_ok.mp h
    obtain ⟨ys, hys, h⟩ := bind_eq_ok.mp h
    cases h
    intro b hb
    rcases List.mem_cons.mp hb with hb | hb
    · subst hb; exact ⟨x, List.mem_cons_self, hy⟩
    · obtain ⟨a, ha, hfa⟩ := ih hys b hb
      exact ⟨a, List.mem_cons_of_mem _ ha, hfa⟩

end Tx3
