import Tx3Model.Select
import Tx3Proofs.C15

/-! Helper lemmas for the coin-selection model. -/

namespace Tx3

open Assets

/-- Sum of the amounts of class `c` over a list of UTxOs (spec-level arithmetic). -/
def sumAmt (l : List SUtxo) (c : AssetClass) : Int := (l.map fun u => amt u.assets c).sum

@[simp] theorem sumAmt_nil (c : AssetClass) : sumAmt [] c = 0 := rfl
@[simp] theorem sumAmt_cons (u : SUtxo) (l : List SUtxo) (c : AssetClass) :
    sumAmt (u :: l) c = amt u.assets c + sumAmt l c := by simp [sumAmt]
theorem sumAmt_append (l₁ l₂ : List SUtxo) (c : AssetClass) :
    sumAmt (l₁ ++ l₂) c = sumAmt l₁ c + sumAmt l₂ c := by simp [sumAmt, List.sum_append]

/-- Every UTxO carries a key-unique, non-negative value. -/
def UWF (l : List SUtxo) : Prop := ∀ u ∈ l, WF u.assets ∧ NonNeg u.assets

theorem UWF_cons {u : SUtxo} {l : List SUtxo} : UWF (u :: l) ↔ (WF u.assets ∧ NonNeg u.assets) ∧ UWF l := by
  simp [UWF]

theorem UWF_of_subset {l l' : List SUtxo} (h : ∀ u ∈ l', u ∈ l) (hl : UWF l) : UWF l' :=
  fun u hu => hl u (h u hu)

theorem sumAmt_nonneg {l : List SUtxo} (hl : UWF l) (c : AssetClass) : 0 ≤ sumAmt l c := by
  induction l with
  | nil => simp
  | cons u l ih =>
    obtain ⟨⟨_, hn⟩, hl'⟩ := UWF_cons.mp hl
    have := hn c; have := ih hl'
    simp; omega

/-! ### `is_empty_or_negative`, `contains_total` as statements about amounts -/

theorem isEmptyOrNegative_iff {p : Assets} (hp : WF p) :
    isEmptyOrNegative p = true ↔ ∀ c, amt p c ≤ 0 := by
  unfold isEmptyOrNegative
  simp only [List.all_eq_true, Bool.not_eq_true', decide_eq_false_iff_not]
  constructor
  · intro h c
    cases hg : get? p c with
    | none => unfold amt; rw [hg]; simp
    | some v =>
      have := h _ (mem_of_get?_some hg)
      unfold amt; rw [hg]; simp only [Option.getD_some]; omega
  · rintro h ⟨k, v⟩ hm
    have := h k
    rw [amt_of_mem hp hm] at this
    simp only; omega

theorem containsTotal_imp {self other : Assets} (_ho : WF other)
    (h : containsTotal self other = true) : ∀ c, amt other c > 0 → amt other c ≤ amt self c := by
  intro c hc
  unfold containsTotal at h
  simp only [List.all_eq_true] at h
  cases hg : get? other c with
  | none => unfold amt at hc; rw [hg] at hc; simp at hc
  | some v =>
    have hv : amt other c = v := by unfold amt; rw [hg]; rfl
    have := h _ (mem_of_get?_some hg)
    simp only at this
    rw [hv] at hc ⊢
    have hv0 : ¬ v = 0 := by omega
    have hvn : ¬ v < 0 := by omega
    rw [if_neg hv0, if_neg hvn] at this
    cases hs : get? self c with
    | none => rw [hs] at this; cases this
    | some s =>
      rw [hs] at this
      simp only at this
      have : amt self c = s := by unfold amt; rw [hs]; rfl
      by_cases hsn : s < 0
      · rw [if_pos hsn] at *; rename_i h2; cases h2
      · rename_i h2; rw [if_neg hsn] at h2; simp at h2; omega

/-- `contains_some self other = false` means: `other` is not empty, and wherever `other` has a
non-zero amount `self` has nothing positive. -/
theorem containsSome_false {self other : Assets} (_ho : WF other)
    (h : containsSome self other = false) : ∀ c, amt other c ≠ 0 → amt self c ≤ 0 := by
  intro c hc
  unfold containsSome at h
  split at h
  · cases h
  · split at h
    · -- `self` is empty: all its amounts are zero
      rename_i _ hse
      unfold isEmpty at hse
      simp only [List.all_eq_true, decide_eq_true_eq] at hse
      cases hg : get? self c with
      | none => unfold amt; rw [hg]; simp
      | some s =>
        have := hse _ (mem_of_get?_some hg)
        simp only at this
        unfold amt; rw [hg]; simp [this]
    · simp only [List.any_eq_false] at h
      cases hg : get? other c with
      | none => unfold amt at hc; rw [hg] at hc; simp at hc
      | some v =>
        have hv : amt other c = v := by unfold amt; rw [hg]; rfl
        have := h _ (mem_of_get?_some hg)
        simp only at this
        rw [hv] at hc
        rw [if_neg hc] at this
        cases hs : get? self c with
        | none => unfold amt; rw [hs]; simp
        | some s =>
          rw [hs] at this
          simp only [decide_eq_true_eq] at this
          unfold amt; rw [hs]; simp only [Option.getD_some]; omega

/-! ### totalAssets -/

theorem totalAssets_foldl (l : List SUtxo) : ∀ (acc : Assets), WF acc → UWF l →
    WF (l.foldl (fun acc u => add acc u.assets) acc) ∧
    ∀ c, amt (l.foldl (fun acc u => add acc u.assets) acc) c = amt acc c + sumAmt l c := by
  induction l with
  | nil => intro acc h _; simp [h]
  | cons u l ih =>
    intro acc h hl
    obtain ⟨⟨hw, _⟩, hl'⟩ := UWF_cons.mp hl
    have := ih (add acc u.assets) (WF_add h) hl'
    refine ⟨this.1, fun c => ?_⟩
    rw [List.foldl_cons, this.2 c, amt_add h hw]; simp; omega

theorem WF_totalAssets {l : List SUtxo} (hl : UWF l) : WF (totalAssets l) :=
  (totalAssets_foldl l [] WF_empty hl).1

theorem amt_totalAssets {l : List SUtxo} (hl : UWF l) (c : AssetClass) :
    amt (totalAssets l) c = sumAmt l c := by
  have := (totalAssets_foldl l [] WF_empty hl).2 c
  unfold totalAssets; rw [this]; simp

/-! ### removing one UTxO by ref -/

theorem filter_ne_eq (l : List SUtxo) (r : UtxoRef) :
    (l.filter fun v => v.ref ≠ r) = l.filter fun v => !(v.ref == r) := by
  congr 1; funext v
  by_cases h : v.ref = r <;> simp [h]

theorem sumAmt_filter_ref {l : List SUtxo} (hn : (l.map (·.ref)).Nodup) {u : SUtxo} (hu : u ∈ l)
    (c : AssetClass) :
    sumAmt (l.filter fun v => v.ref ≠ u.ref) c = sumAmt l c - amt u.assets c := by
  rw [filter_ne_eq]
  induction l with
  | nil => cases hu
  | cons x l ih =>
    simp only [List.map_cons, List.nodup_cons] at hn
    rcases List.mem_cons.mp hu with h | h
    · subst h
      have : (List.filter (fun v => !(v.ref == u.ref)) l) = l := by
        apply List.filter_eq_self.mpr
        intro v hv
        simp only [Bool.not_eq_true', beq_eq_false_iff_ne, ne_eq]
        intro e
        exact hn.1 (e ▸ List.mem_map.mpr ⟨v, hv, rfl⟩)
      rw [List.filter_cons]
      simp only [beq_self_eq_true, Bool.not_true, Bool.false_eq_true, ↓reduceIte, this, sumAmt_cons]
      omega
    · have hx : x.ref ≠ u.ref := fun e => hn.1 (e ▸ List.mem_map.mpr ⟨u, h, rfl⟩)
      have hx' : (!(x.ref == u.ref)) = true := by simp [hx]
      rw [List.filter_cons, if_pos hx', sumAmt_cons, sumAmt_cons, ih hn.2 h]
      omega

theorem filter_ref_nodup {l : List SUtxo} (hn : (l.map (·.ref)).Nodup) (r : UtxoRef) :
    ((l.filter fun v => v.ref ≠ r).map (·.ref)).Nodup :=
  List.Nodup.sublist (List.Sublist.map _ List.filter_sublist) hn

end Tx3
