import Tx3Proofs.Lemmas.Outcome
import Tx3Model.Compile

/-! Inversion of a successful `compileAbs`, and small facts about the checked conversions. -/

namespace Tx3
open Outcome

theorem numberIntoU64_ok {v x : Int} {w : String} (h : numberIntoU64 v w = .ok x) :
    x = v ∧ 0 ≤ v ∧ v ≤ u64Max := by
  unfold numberIntoU64 at h
  split at h
  · rename_i hr
    cases h
    unfold inU64 at hr
    simp at hr
    exact ⟨rfl, hr⟩
  · cases h

theorem numberIntoI64_ok {v x : Int} {w : String} (h : numberIntoI64 v w = .ok x) :
    x = v ∧ i64Min ≤ v ∧ v ≤ i64Max := by
  unfold numberIntoI64 at h
  split at h
  · rename_i hr
    cases h
    unfold inI64 at hr
    simp at hr
    exact ⟨rfl, hr⟩
  · cases h

/-- Everything a successful compilation computed, component by component. -/
structure CompileParts (env : CompileEnv) (t : Tx) (a : ATx) : Prop where
  validity : compileValidity t = .ok (a.validityStart, a.ttl)
  inputs : compileInputs t = .ok a.inputs
  outputs : compileOutputs env t = .ok a.outputs
  fee : ∃ n, exprIntoNumberC t.fees = .ok n ∧ numberIntoU64 n "fee" = .ok a.fee
  certs : compileCerts env t = .ok a.certs
  mint : compileMintBlock t = .ok a.mint
  refs : compileReferenceInputs t = .ok a.referenceInputs
  withdrawals : compileWithdrawals env t = .ok a.withdrawals
  collateral : compileCollateral t = .ok a.collateral
  signers : compileRequiredSigners t = .ok a.requiredSigners
  donation : compileDonation t = .ok a.donation
  redeemers : compileRedeemers env t a.inputs a.mint a.withdrawals = .ok a.redeemers
  metadata : compileAuxiliaryData t = .ok a.metadata
  network : a.networkId = some (if env.mainnet then 1 else 0)
  sdh : a.hasScriptDataHash = !a.redeemers.isEmpty
  adh : a.hasAuxDataHash = !a.metadata.isEmpty

theorem compileAbs_ok {env : CompileEnv} {t : Tx} {a : ATx} (h : compileAbs env t = .ok a) :
    CompileParts env t a := by
  unfold compileAbs at h
  obtain ⟨⟨since, untl⟩, hv, h⟩ := bind_eq_ok.mp h
  simp only at h
  obtain ⟨inputs, hi, h⟩ := bind_eq_ok.mp h
  obtain ⟨outputs, ho, h⟩ := bind_eq_ok.mp h
  obtain ⟨feeN, hfn, h⟩ := bind_eq_ok.mp h
  obtain ⟨fee, hf, h⟩ := bind_eq_ok.mp h
  obtain ⟨certs, hc, h⟩ := bind_eq_ok.mp h
  obtain ⟨mint, hm, h⟩ := bind_eq_ok.mp h
  obtain ⟨refs, hr, h⟩ := bind_eq_ok.mp h
  obtain ⟨ws, hw, h⟩ := bind_eq_ok.mp h
  obtain ⟨coll, hco, h⟩ := bind_eq_ok.mp h
  obtain ⟨signers, hs, h⟩ := bind_eq_ok.mp h
  obtain ⟨donation, hd, h⟩ := bind_eq_ok.mp h
  obtain ⟨redeemers, hre, h⟩ := bind_eq_ok.mp h
  obtain ⟨native, hn, h⟩ := bind_eq_ok.mp h
  obtain ⟨metadata, hme, h⟩ := bind_eq_ok.mp h
  split at h
  · cases h
  · cases h
    exact ⟨hv, hi, ho, ⟨feeN, hfn, hf⟩, hc, hm, hr, hw, hco, hs, hd, hre, hme, rfl, rfl, rfl⟩

end Tx3
