import Tx3Model.Cbor

/-! big-endian bytes ⇄ naturals -/

namespace Tx3.Cbor

theorem beNat_append_single (bs : Bytes) (b : UInt8) : beNat (bs ++ [b]) = beNat bs * 256 + b.toNat := by
  unfold beNat; rw [List.foldl_append]; rfl

theorem beNat_natToBytes (n : Nat) : beNat (natToBytes n) = n := by
  induction n using Nat.strongRecOn with
  | ind n ih =>
    rw [natToBytes]
    split
    · rename_i h; subst h; rfl
    · rename_i h
      rw [beNat_append_single, ih (n / 256) (by omega)]
      have : (UInt8.ofNat (n % 256)).toNat = n % 256 := by
        simp [UInt8.toNat_ofNat']
      rw [this]; omega

end Tx3.Cbor
