import Tx3Proofs.C01Template
import Tx3Proofs.C07

/-!
# C01 — from the source to the value: `source - Ada(q) - fees`

The amount expressions of the language that the examples are written in: asset constructors over integer
expressions (`MExp`, the multi-asset fragment), the name `fees`, the name of an input block used as a value,
`+` and `-`.  For every such expression written in an amount position, at every fuel from some bound on:
lowering succeeds, and the lowered expression - with the arguments, the resolved inputs and the fee applied -
reduces to a constant asset list that denotes, class by class, what the source says under ordinary integer
arithmetic: the constructors' amounts, the fee as lovelace, the total of the UTxOs assigned to the input, sums and
differences (associated as written).  `C01_template_value` is the same statement about IR trees; this one starts
from the syntax tree of the language and goes through `lowerE`.
-/

namespace Tx3.Lang
open Tx3 Tx3.Expr Assets Outcome

/-- All three stages. -/
def full (σ : ArgMap) (fee : Int) (ι : InputMap) (t : Expr) : Expr := applyArgs σ (applyInputs ι (applyFees fee t))

theorem full_inert (σ : ArgMap) (fee : Int) (ι : InputMap) {t : Expr} (h : Inert t) : full σ fee ι t = applyArgs σ t := by
  unfold full; rw [h fee ι]

theorem full_builtin2 (σ : ArgMap) (fee : Int) (ι : InputMap) (b : BKind) (x y : Expr) :
    full σ fee ι (builtin b [x, y]) = .node (.builtin b) [full σ fee ι x, full σ fee ι y] := by
  simp [full, builtin, applyFees, applyFeesL, applyInputs, applyInputsL, applyArgs, applyArgsL]

/-! ### the two arithmetic steps, on denotations -/

theorem denotes_add {ra rb : Expr} {da db : AssetClass → Int} (ha : Denotes ra da) (hb : Denotes rb db)
    (hfit : ∀ k, IExp.Small (da k + db k)) :
    ∃ r, reduceBuiltin .add [ra, rb] = .ok r ∧ Denotes r (fun k => da k + db k) ∧ RForm r := by
  obtain ⟨_, va, hva, hama⟩ := ha
  obtain ⟨_, vb, hvb, hamb⟩ := hb
  have hf : ∀ k', inI128 (amt va k' + amt vb k') = true := fun k' => by
    rw [hama k', hamb k']; exact small_i128 (hfit k')
  have hok := arithAdd_ok hva hvb hf
  refine ⟨assetsNode (retainNZ (addRaw va vb)), by simp only [reduceBuiltin, hok], ⟨isConstant_assetsNode _, ?_⟩,
    RForm_add hva hvb hf⟩
  obtain ⟨c, hc, hamt⟩ := C01_assets_add hva hvb hok
  exact ⟨c, hc, fun k' => by rw [hamt k', hama k', hamb k']⟩

theorem denotes_sub {ra rb : Expr} {da db : AssetClass → Int} (ha : Denotes ra da) (hb : Denotes rb db)
    (hnb : ∀ k, IExp.Small (db k)) (hfit : ∀ k, IExp.Small (da k - db k)) :
    ∃ r, reduceBuiltin .sub [ra, rb] = .ok r ∧ Denotes r (fun k => da k - db k) ∧ RForm r := by
  obtain ⟨_, va, hva, hama⟩ := ha
  obtain ⟨_, vb, hvb, hamb⟩ := hb
  have hneg : ∀ k', inI128 (- amt vb k') = true := fun k' => by
    rw [hamb k']
    have := hnb k'
    exact small_i128 (by unfold IExp.Small at *; omega)
  have hsub : ∀ k', inI128 (amt va k' - amt vb k') = true := fun k' => by
    rw [hama k', hamb k']; exact small_i128 (hfit k')
  have hnegok := arithNeg_ok hvb hneg
  obtain ⟨nb, hnb', hnamt⟩ := C01_assets_neg hvb hnegok
  have haddok := arithAdd_ok hva hnb' (fun k' => by
    rw [hnamt k']; have := hsub k'; rwa [Int.sub_eq_add_neg] at this)
  obtain ⟨cs, rfl⟩ := assetsVal_is_assets hva
  have hok : arithSub (.node .assets cs) rb = .ok (assetsNode (retainNZ (addRaw va nb))) := by
    unfold arithSub
    simp only [hnegok, ok_bind, haddok]
  obtain ⟨c, hc, hamt⟩ := C01_assets_sub hva hvb hok
  exact ⟨_, by simp only [reduceBuiltin, hok], ⟨isConstant_assetsNode _, c, hc,
    fun k' => by rw [hamt k', hama k', hamb k']⟩, RForm_add hva hnb' (fun k' => by
      rw [hnamt k']; have := hsub k'; rwa [Int.sub_eq_add_neg] at this)⟩

/-! ### the expressions -/

inductive CExp where
  /-- asset constructors over integer expressions, `+`, `-`: no input and no fee in it -/
  | pure (e : MExp)
  /-- the name `fees` -/
  | fees
  /-- the name of an input block, used as a value -/
  | input (x : String)
  | add (a b : CExp)
  | sub (a b : CExp)
  /-- the name of a local (`locals { x: c, }`), standing for its expression -/
  | loc (x : String) (c : CExp)

namespace CExp

def toL : CExp → LExpr
  | pure e => e.toL
  | fees => .leaf (.id "fees")
  | input x => .leaf (.id x)
  | add a b => .node .add [a.toL, b.toL]
  | sub a b => .node .sub [a.toL, b.toL]
  | loc x _ => .leaf (.id x)

/-- What the source says, class by class: `ints` values the integer parameters, `cls` the declared assets, `fee` is
the fee, `assigned x` the UTxOs the resolver assigned to input `x`. -/
def den (ints : String → Int) (cls : String → AssetClass) (fee : Int) (assigned : String → List UtxoMeta) :
    CExp → AssetClass → Int
  | pure e, k => e.den ints cls k
  | fees, k => if k = AssetClass.naked then fee else 0
  | input x, k => TExp.utxoTotal (assigned x) k
  | add a b, k => a.den ints cls fee assigned k + b.den ints cls fee assigned k
  | sub a b, k => a.den ints cls fee assigned k - b.den ints cls fee assigned k
  | loc _ c, k => c.den ints cls fee assigned k

/-- The hypotheses: what the names resolve to, and that every intermediate per-class amount stays strictly inside
the 128-bit range. -/
def OK (s : Scope) (σ : ArgMap) (ints : String → Int) (cls : String → AssetClass) (fee : Int)
    (ι : InputMap) (assigned : String → List UtxoMeta) : CExp → Ctx → Prop
  | pure e, _ => ScopeOf s σ ints e.pars ∧ (∀ x ∈ e.toks, TokOf s cls x) ∧ e.Fits ints cls
  | fees, _ => resolve s "fees" = some .fees ∧ IExp.Small fee
  | input x, ctx => ∃ b N, resolve s x = some (.input b) ∧ (∀ n, N ≤ n → ∃ q, lowerInput s n ctx.down b = .ok q) ∧
      ∃ ds a, lookupS ι b.name.toLower = some (.node (.utxoSet (assigned x)) ds) ∧
        sumUtxoAssets (assigned x) [] = some a ∧ ∀ m ∈ assigned x, Good m.assets
  | add a b, ctx => a.OK s σ ints cls fee ι assigned ctx ∧ b.OK s σ ints cls fee ι assigned ctx ∧
      ∀ k, IExp.Small (a.den ints cls fee assigned k + b.den ints cls fee assigned k)
  | sub a b, ctx => a.OK s σ ints cls fee ι assigned ctx ∧ b.OK s σ ints cls fee ι assigned ctx ∧
      (∀ k, IExp.Small (b.den ints cls fee assigned k)) ∧
      ∀ k, IExp.Small (a.den ints cls fee assigned k - b.den ints cls fee assigned k)
  -- the expression behind the name is read one symbol deeper: the analyzer's snapshots bound how deep that can go
  | loc x c, ctx => resolve s x = some (.localE c.toL) ∧ ctx.down.lvl ≠ 0 ∧ c.OK s σ ints cls fee ι assigned ctx.down

end CExp

/-- Whatever the query of an input block lowers to, it is the `ExpectInput` placeholder of that block. -/
theorem lowerInput_shape (s : Scope) (n : Nat) (c : Ctx) (b : InputBlock) (q : Expr)
    (h : lowerInput s n c b = .ok q) :
    ∃ qs, q = .node (.param (.expectInput b.name.toLower b.many false)) qs := by
  cases n with
  | zero => simp [lowerInput, lerr] at h
  | succ n =>
    rw [lowerInput] at h
    simp only [] at h
    obtain ⟨a1, _, h⟩ := bind_eq_ok.mp h
    obtain ⟨a2, _, h⟩ := bind_eq_ok.mp h
    obtain ⟨a3, _, h⟩ := bind_eq_ok.mp h
    cases h
    exact ⟨_, rfl⟩

theorem change_value (s : Scope) (σ : ArgMap) (ints : String → Int) (cls : String → AssetClass)
    (hA : AdaBuiltin s) (fee : Int) (ι : InputMap) (assigned : String → List UtxoMeta) :
    ∀ (c : CExp) (ctx : Ctx), ctx.lvl ≠ 0 → ctx.asset = true → c.OK s σ ints cls fee ι assigned ctx →
      ∃ N, ∀ n, N ≤ n → ∃ t, lowerE s n ctx c.toL = .ok t ∧
        ∀ m, N ≤ m → ∃ r, reduceF m (full σ fee ι t) = .ok r ∧ Denotes r (c.den ints cls fee assigned) ∧ RForm r
  | .pure e, ctx, hl, ha, h => by
    obtain ⟨hs, ht, hf⟩ := h
    refine ⟨e.depth + 2, fun n hn => ?_⟩
    obtain ⟨t, hlow, hin, hred⟩ := lower_multi s σ ints cls ctx hl hA e hs ht hf (n - (e.depth + 2))
    rw [show e.depth + 2 + (n - (e.depth + 2)) = n by omega] at hlow
    refine ⟨t, hlow, fun m hm => ?_⟩
    obtain ⟨r, hr, hd, hform⟩ := hred (m - (e.depth + 2))
    rw [show e.depth + 2 + (m - (e.depth + 2)) = m by omega] at hr
    exact ⟨r, by rw [full_inert σ fee ι hin]; exact hr, hd, hform⟩
  | .fees, ctx, hl, ha, h => by
    obtain ⟨hres, hsm⟩ := h
    refine ⟨3, fun n hn => ⟨.node (.param .expectFees) [], ?_, fun m hm => ?_⟩⟩
    · obtain ⟨n', rfl⟩ : ∃ n', n = n' + 1 := ⟨n - 1, by omega⟩
      simp [CExp.toL, lowerE, hl, hres]
    · have hd := single_entry (.leaf .none) (.leaf .none) ⟨_, rfl⟩ ⟨_, rfl⟩ fee hsm
      rw [entryClass_none] at hd
      refine ⟨.node .assets [.leaf .none, .leaf .none, .leaf (.number fee)], ?_, hd, RForm.ada _⟩
      obtain ⟨m', rfl⟩ : ∃ m', m = (m' + 2) + 1 := ⟨m - 3, by omega⟩
      simp [full, applyFees, feeExpr, applyInputs, applyArgs, reduceF]
  | .input x, ctx, hl, ha, h => by
    obtain ⟨b, N, hres, hlow, ds, a, hlk, hsum, hgood⟩ := h
    refine ⟨N + 3, fun n hn => ?_⟩
    obtain ⟨n', rfl⟩ : ∃ n', n = n' + 1 := ⟨n - 1, by omega⟩
    obtain ⟨q, hq⟩ := hlow n' (by omega)
    obtain ⟨qs, rfl⟩ := lowerInput_shape s n' ctx.down b q hq
    refine ⟨.node (.coerce .intoAssets) [.node (.param (.expectInput b.name.toLower b.many false)) qs], ?_,
      fun m hm => ?_⟩
    · simp [CExp.toL, lowerE, hl, hres, hq, ha]
    · obtain ⟨ga, hamt⟩ := sumUtxo_spec (assigned x) [] a Good_nil hgood hsum
      obtain ⟨c, hc, _, hcamt⟩ := reread_canonical ga
      refine ⟨assetsNode a, ?_, ⟨isConstant_assetsNode a, c, hc, fun k => ?_⟩,
        RForm.canon a ga (sumUtxo_NZ _ _ _ NZ_nil hsum)⟩
      · obtain ⟨m', rfl⟩ : ∃ m', m = (m' + 2) + 1 := ⟨m - 3, by omega⟩
        simp [full, applyFees, applyFeesL, applyInputs, applyInputsL, applyArgs, applyArgsL, hlk, reduceF, mapMO,
          isConstantL, isConstant, reduceCoerce, intoAssets, hsum]
      · rw [hcamt k, hamt k, amt_nil]; simp [CExp.den]
  | .add a b, ctx, hl, ha, h => by
    obtain ⟨Na, hA'⟩ := change_value s σ ints cls hA fee ι assigned a ctx hl ha h.1
    obtain ⟨Nb, hB'⟩ := change_value s σ ints cls hA fee ι assigned b ctx hl ha h.2.1
    refine ⟨max Na Nb + 1, fun n hn => ?_⟩
    obtain ⟨n', rfl⟩ : ∃ n', n = n' + 1 := ⟨n - 1, by omega⟩
    obtain ⟨ta, hla, hra⟩ := hA' n' (by omega)
    obtain ⟨tb, hlb, hrb⟩ := hB' n' (by omega)
    refine ⟨builtin .add [ta, tb], by simp only [CExp.toL, lowerE, hla, hlb, ok_bind], fun m hm => ?_⟩
    obtain ⟨m', rfl⟩ : ∃ m', m = m' + 1 := ⟨m - 1, by omega⟩
    obtain ⟨ra, h1, da, _⟩ := hra m' (by omega)
    obtain ⟨rb, h2, db, _⟩ := hrb m' (by omega)
    obtain ⟨r, hr, hd, hform⟩ := denotes_add da db h.2.2
    refine ⟨r, ?_, hd, hform⟩
    rw [full_builtin2, reduce_binary_const _ .add (by decide) _ _ ra rb h1 h2 da.1 db.1]
    exact hr
  | .sub a b, ctx, hl, ha, h => by
    obtain ⟨Na, hA'⟩ := change_value s σ ints cls hA fee ι assigned a ctx hl ha h.1
    obtain ⟨Nb, hB'⟩ := change_value s σ ints cls hA fee ι assigned b ctx hl ha h.2.1
    refine ⟨max Na Nb + 1, fun n hn => ?_⟩
    obtain ⟨n', rfl⟩ : ∃ n', n = n' + 1 := ⟨n - 1, by omega⟩
    obtain ⟨ta, hla, hra⟩ := hA' n' (by omega)
    obtain ⟨tb, hlb, hrb⟩ := hB' n' (by omega)
    refine ⟨builtin .sub [ta, tb], by simp only [CExp.toL, lowerE, hla, hlb, ok_bind], fun m hm => ?_⟩
    obtain ⟨m', rfl⟩ : ∃ m', m = m' + 1 := ⟨m - 1, by omega⟩
    obtain ⟨ra, h1, da, _⟩ := hra m' (by omega)
    obtain ⟨rb, h2, db, _⟩ := hrb m' (by omega)
    obtain ⟨r, hr, hd, hform⟩ := denotes_sub da db h.2.2.1 h.2.2.2
    refine ⟨r, ?_, hd, hform⟩
    rw [full_builtin2, reduce_binary_const _ .sub (by decide) _ _ ra rb h1 h2 da.1 db.1]
    exact hr
  | .loc x c, ctx, hl, ha, h => by
    obtain ⟨hres, hl', hc⟩ := h
    obtain ⟨N, hN⟩ := change_value s σ ints cls hA fee ι assigned c ctx.down hl' (by simpa [Ctx.down] using ha) hc
    refine ⟨N + 1, fun n hn => ?_⟩
    obtain ⟨n', rfl⟩ : ∃ n', n = n' + 1 := ⟨n - 1, by omega⟩
    obtain ⟨t, hlow, hred⟩ := hN n' (by omega)
    exact ⟨t, by simp [CExp.toL, lowerE, hl, hres, hlow], fun m hm => hred m (by omega)⟩

/-- **C01 (from the source to the value).** An amount written with asset constructors, `fees`, input names, `+`
`-` and names of locals standing for such amounts - `source - Ada(quantity) - fees`, the change of every example,
written in place or behind a local - lowers, and after the arguments, the
inputs and the fee are applied reduces to a constant asset list holding, of every asset class, exactly what integer
arithmetic gives for the expression as written. -/
theorem C01_source_to_value (s : Scope) (σ : ArgMap) (ints : String → Int) (cls : String → AssetClass) (ctx : Ctx)
    (hl : ctx.lvl ≠ 0) (ha : ctx.asset = true) (hA : AdaBuiltin s) (fee : Int) (ι : InputMap)
    (assigned : String → List UtxoMeta) (c : CExp) (h : c.OK s σ ints cls fee ι assigned ctx) :
    ∃ N, ∀ n, N ≤ n → ∃ t, lowerE s n ctx c.toL = .ok t ∧
      ∀ m, N ≤ m → ∃ r, reduceF m (full σ fee ι t) = .ok r ∧ Denotes r (c.den ints cls fee assigned) ∧ RForm r :=
  change_value s σ ints cls hA fee ι assigned c ctx hl ha h

/-- The order of the stages does not matter (C07): the same holds for the pipeline's order. -/
theorem full_pipeline_order (σ : ArgMap) (fee : Int) (ι : InputMap) (t : Expr) :
    full σ fee ι t = applyFees fee (applyInputs ι (applyArgs σ t)) := by
  unfold full
  rw [C07_args_inputs, C07_fees_inputs, C07_args_fees]

/-- The hypothesis on the input block holds for the blocks the examples write: `from: <party>`, `min_amount:` an
expression of the multi-asset fragment, no `ref`. -/
theorem input_lowers (s : Scope) (σ : ArgMap) (ints : String → Int) (cls : String → AssetClass) (ctx : Ctx)
    (h2 : 2 ≤ ctx.lvl) (hA : AdaBuiltin s) (b : InputBlock) (p : String) (e : MExp)
    (hfrom : b.«from» = some (.leaf (.id p))) (hp : resolve s p = some (.party p))
    (hmin : b.minAmount = some e.toL) (href : b.ref = none)
    (hs : ScopeOf s σ ints e.pars) (ht : ∀ x ∈ e.toks, TokOf s cls x) (hf : e.Fits ints cls) :
    ∀ n, e.depth + 3 ≤ n → ∃ q, lowerInput s n ctx.down b = .ok q := by
  intro n hn
  obtain ⟨n', rfl⟩ : ∃ n', n = n' + 1 := ⟨n - 1, by omega⟩
  have hl' : ctx.down.enterAsset.lvl ≠ 0 := by simp [Ctx.down, Ctx.enterAsset]; omega
  have hl'' : ctx.down.enterAddress.lvl ≠ 0 := by simp [Ctx.down, Ctx.enterAddress]; omega
  obtain ⟨t, hlow, _, _⟩ := lower_multi s σ ints cls ctx.down.enterAsset hl' hA e hs ht hf (n' - (e.depth + 2))
  rw [show e.depth + 2 + (n' - (e.depth + 2)) = n' by omega] at hlow
  obtain ⟨n'', rfl⟩ : ∃ n'', n' = n'' + 1 := ⟨n' - 1, by omega⟩
  have hparty : lowerE s (n'' + 1) ctx.down.enterAddress (.leaf (.id p)) = .ok (paramValue p .address) := by
    simp [lowerE, hl'', hp]
  exact ⟨.node (.param (.expectInput b.name.toLower b.many false)) [paramValue p .address, t, none'],
    by simp [lowerInput, hfrom, hmin, href, hlow, hparty]⟩

/-! ### Non-vacuity: `source - Ada(quantity) - fees`, from the source, with one UTxO of 5 ADA assigned to `source` -/

def chBlock : InputBlock :=
  { name := "source", many := false, «from» := none, minAmount := none, ref := none, redeemer := none, datumIs := none }
def chTx : TxDef := { maTx with params := [("quantity", .int)], inputs := [chBlock] }
def chScope : Scope := { prog := maProg, tx := chTx }
def chArgs : ArgMap := [("quantity".toLower, .leaf (.number 2000000))]
def chInputs : InputMap := [("source".toLower, .node (.utxoSet [exMeta]) [])]
def chInts : String → Int := fun _ => 2000000
def chExp : CExp := .sub (.sub (.input "source") (.pure (.ada (.par "quantity")))) .fees

example : chExp.toL = .node .sub [.node .sub [.leaf (.id "source"), .node (.call "Ada") [.leaf (.id "quantity")]],
    .leaf (.id "fees")] := rfl

example : AdaBuiltin chScope := by
  constructor
  · simp [resolve, resolveOuter, indexOfOutput, indexOfOutput.go, lastWith, maProg, maTx, chScope, chTx, chBlock]
  · simp [maProg, chScope]

/-- The same transaction with the change behind a local: `locals { change: source - Ada(quantity) - fees, }`. -/
def chTx2 : TxDef := { chTx with locals := [("change", chExp.toL)] }
def chScope2 : Scope := { prog := maProg, tx := chTx2 }

theorem chOK_core (sc : Scope) (ctx : Ctx) (h1 : resolve sc "source" = some (.input chBlock))
    (h2 : resolve sc "quantity" = some (.param "quantity" .int)) (h3 : resolve sc "fees" = some .fees) :
    chExp.OK sc chArgs chInts maCls 170000 chInputs exAssigned ctx := by
  have hs : sumUtxoAssets [exMeta] [] = some [(AssetClass.naked, 5000000)] := by
    simp [sumUtxoAssets, exMeta, addRaw, upsert, fitsI128, inI128, i128Min, i128Max, retainNZ]
  have d1 : ∀ k, TExp.utxoTotal (exAssigned "source") k = if k = AssetClass.naked then 5000000 else 0 := by
    intro k
    by_cases hk : k = AssetClass.naked
    · subst hk; simp [TExp.utxoTotal, exAssigned, exMeta, amt, get?]
    · have : ¬ AssetClass.naked = k := fun e => hk e.symm
      simp [TExp.utxoTotal, exAssigned, exMeta, amt, get?, hk, this]
  refine ⟨⟨⟨chBlock, 1, h1, ?_, [], _, ?_, by simpa [exAssigned] using hs, ?_⟩, ⟨?_, ?_, ?_⟩, ?_, ?_⟩, ⟨h3, ?_⟩, ?_, ?_⟩
  · intro n hn
    obtain ⟨n', rfl⟩ : ∃ n', n = n' + 1 := ⟨n - 1, by omega⟩
    exact ⟨.node (.param (.expectInput "source".toLower false false)) [none', none', none'],
      by simp [lowerInput, chBlock]⟩
  · simp [chInputs, lookupS, chBlock, exAssigned]
  · intro m hm; simp [exAssigned] at hm; subst hm; exact exGood
  · intro x hx
    simp [MExp.pars, IExp.pars] at hx
    subst hx
    exact ⟨⟨.int, h2⟩, by simp [chArgs, lookupS, chInts]⟩
  · intro x hx; simp [MExp.toks] at hx
  · simp [MExp.Fits, IExp.Fits, chInts, IExp.Small]
  · intro k; simp only [CExp.den, MExp.den, IExp.den, chInts]; unfold IExp.Small; split <;> omega
  · intro k; simp only [CExp.den, MExp.den, IExp.den, chInts]; rw [d1 k]; unfold IExp.Small; split <;> omega
  · unfold IExp.Small; omega
  · intro k; simp only [CExp.den]; unfold IExp.Small; split <;> omega
  · intro k
    simp only [CExp.den, MExp.den, IExp.den, chInts]
    rw [d1 k]
    unfold IExp.Small
    split <;> omega

/-- `source - Ada(quantity) - fees` written in place… -/
example : chExp.OK chScope chArgs chInts maCls 170000 chInputs exAssigned { asset := true } :=
  chOK_core _ _
    (by simp [resolve, resolveOuter, indexOfOutput, indexOfOutput.go, lastWith, maProg, maTx, chScope, chTx, chBlock])
    (by simp [resolve, resolveOuter, indexOfOutput, indexOfOutput.go, lastWith, maProg, maTx, chScope, chTx, chBlock])
    (by simp [resolve, resolveOuter, indexOfOutput, indexOfOutput.go, lastWith, maProg, maTx, chScope, chTx, chBlock])

/-- …and behind a local: the amount `change` in a transaction with `locals { change: source - Ada(quantity) - fees, }`. -/
example : (CExp.loc "change" chExp).OK chScope2 chArgs chInts maCls 170000 chInputs exAssigned { asset := true } := by
  refine ⟨?_, by simp [Ctx.down], chOK_core _ _ ?_ ?_ ?_⟩ <;>
  simp [resolve, resolveOuter, indexOfOutput, indexOfOutput.go, lastWith, maProg, maTx, chScope2, chTx2, chTx, chBlock, chExp,
    CExp.toL, MExp.toL, IExp.toL]

/-- What the theorem then says of it: 5 000 000 - 2 000 000 - 170 000 lovelace, nothing of any other class. -/
example : chExp.den chInts maCls 170000 exAssigned AssetClass.naked = 2830000 := by
  simp [chExp, CExp.den, MExp.den, IExp.den, chInts, TExp.utxoTotal, exAssigned, exMeta, amt, get?]

end Tx3.Lang
