import Tx3Proofs.Lemmas.Compile

/-!
# C02 — quantities are never silently wrapped, truncated or dropped

Over the model of `tx3-cardano/src/compile/mod.rs` (every conversion as the Rust code performs
it).  Proved: whenever compilation succeeds, fee, validity slots, withdrawal amounts, donation,
mint quantities and native-asset output quantities are the exact integers their expressions
denote, inside their ledger ranges.  Not true of the code as it stands, and therefore stated
as witnesses and kept out of the theorems by explicit hypotheses: a **lovelace** entry of an
output is converted with `as u64` (wraps), and a **negative native-asset** entry of an output
is dropped — both pinned by hashes in the repository's own test-suite (known findings).
-/

namespace Tx3
open Outcome

/-- **Fee.** The fee in the body is exactly the number the `fees` expression denotes, and it
fits an unsigned 64-bit field. -/
theorem C02_fee_exact {env : CompileEnv} {t : Tx} {a : ATx} (h : compileAbs env t = .ok a) :
    ∃ n, exprIntoNumberC t.fees = .ok n ∧ a.fee = n ∧ 0 ≤ n ∧ n ≤ u64Max := by
  obtain ⟨n, h1, h2⟩ := (compileAbs_ok h).fee
  obtain ⟨e, r⟩ := numberIntoU64_ok h2
  exact ⟨n, h1, e, r⟩

/-- **Validity.** A bound that is present is the exact slot number, within `u64`; an absent
bound stays absent. -/
theorem C02_validity_exact {env : CompileEnv} {t : Tx} {a : ATx} (h : compileAbs env t = .ok a)
    {since untl : Expr} (hv : t.validity = some (since, untl)) :
    (since.isNone = true → a.validityStart = none) ∧
    (since.isNone = false → ∃ n, exprIntoNumberC since = .ok n ∧ a.validityStart = some n ∧ 0 ≤ n ∧ n ≤ u64Max) ∧
    (untl.isNone = true → a.ttl = none) ∧
    (untl.isNone = false → ∃ n, exprIntoNumberC untl = .ok n ∧ a.ttl = some n ∧ 0 ≤ n ∧ n ≤ u64Max) := by
  have hc := (compileAbs_ok h).validity
  unfold compileValidity at hc
  rw [hv] at hc
  simp only at hc
  obtain ⟨s, hs, hc⟩ := bind_eq_ok.mp hc
  obtain ⟨u, hu, hc⟩ := bind_eq_ok.mp hc
  cases hc
  have conv : ∀ (e : Expr) (r : Option Int),
      (if e.isNone = true then (Outcome.ok none : Outcome (Option Int)) else do
        let n ← exprIntoNumberC e
        let s ← numberIntoU64 n "slot"
        Outcome.ok (some s)) = .ok r →
      (e.isNone = true → r = none) ∧
      (e.isNone = false → ∃ n, exprIntoNumberC e = .ok n ∧ r = some n ∧ 0 ≤ n ∧ n ≤ u64Max) := by
    intro e r hr
    split at hr
    · rename_i hn; cases hr; exact ⟨fun _ => rfl, fun hf => by rw [hn] at hf; cases hf⟩
    · rename_i hn
      obtain ⟨n, h1, hr⟩ := bind_eq_ok.mp hr
      obtain ⟨x, h2, hr⟩ := bind_eq_ok.mp hr
      cases hr
      obtain ⟨e1, rng⟩ := numberIntoU64_ok h2
      refine ⟨fun ht => absurd ht hn, fun _ => ⟨n, h1, by rw [e1], rng⟩⟩
  obtain ⟨a1, a2⟩ := conv since _ hs
  obtain ⟨b1, b2⟩ := conv untl _ hu
  exact ⟨a1, a2, b1, b2⟩

/-- **Mint / burn.** Every quantity in the mint field is non-zero and fits a signed 64-bit
field (a zero or out-of-range net quantity is an error, never a wrapped value). -/
theorem C02_mint_range {env : CompileEnv} {t : Tx} {a : ATx} (h : compileAbs env t = .ok a) :
    ∀ x ∈ a.mint, x.2.2 ≠ 0 ∧ i64Min ≤ x.2.2 ∧ x.2.2 ≤ i64Max := by
  have hm := (compileAbs_ok h).mint
  unfold compileMintBlock at hm
  split at hm
  · have := Outcome.ok.inj hm; intro x hx; rw [← this] at hx; cases hx
  · obtain ⟨ml, _, hm⟩ := bind_eq_ok.mp hm
    obtain ⟨ms, _, hm⟩ := bind_eq_ok.mp hm
    obtain ⟨bl, _, hm⟩ := bind_eq_ok.mp hm
    obtain ⟨bs, _, hm⟩ := bind_eq_ok.mp hm
    obtain ⟨checked, hck, hm⟩ := bind_eq_ok.mp hm
    have hm := Outcome.ok.inj hm
    intro x hx
    rw [← hm] at hx
    obtain ⟨hx1, hx2⟩ := List.mem_filter.mp hx
    obtain ⟨y, _, hy⟩ := mapMO_ok_mem hck x hx1
    obtain ⟨q, hq, hy⟩ := bind_eq_ok.mp hy
    cases hy
    obtain ⟨e, r⟩ := numberIntoI64_ok hq
    simp only [ne_eq, decide_eq_true_eq] at hx2
    simp only at hx2 ⊢
    exact ⟨hx2, by rw [e]; exact r.1, by rw [e]; exact r.2⟩

/-- **Withdrawals.** Every amount in the withdrawal map is the exact number written in some
withdrawal directive of the template and fits `u64`. -/
theorem C02_withdrawal_exact {env : CompileEnv} {t : Tx} {a : ATx} (h : compileAbs env t = .ok a) :
    ∀ w ∈ a.withdrawals, 0 ≤ w.2 ∧ w.2 ≤ u64Max := by
  have hw := (compileAbs_ok h).withdrawals
  unfold compileWithdrawals at hw
  -- invariant of the accumulation loop
  have key : ∀ (ds : List Expr) (acc r : List (Bytes × Int)),
      (∀ w ∈ acc, 0 ≤ w.2 ∧ w.2 ≤ u64Max) → compileWithdrawals.go env ds acc = .ok r →
      ∀ w ∈ r, 0 ≤ w.2 ∧ w.2 ≤ u64Max := by
    intro ds
    induction ds with
    | nil => intro acc r hacc hr; rw [compileWithdrawals.go] at hr; cases hr; exact hacc
    | cons d rest ih =>
      intro acc r hacc hr
      rw [compileWithdrawals.go] at hr
      obtain ⟨w, hwd, hr⟩ := bind_eq_ok.mp hr
      split at hr
      · cases hr
      · apply ih _ r _ hr
        -- the directive's amount went through the checked conversion
        unfold compileWithdrawalDirective at hwd
        obtain ⟨_, _, hwd⟩ := bind_eq_ok.mp hwd
        obtain ⟨_, _, hwd⟩ := bind_eq_ok.mp hwd
        obtain ⟨_, _, hwd⟩ := bind_eq_ok.mp hwd
        obtain ⟨n, _, hwd⟩ := bind_eq_ok.mp hwd
        obtain ⟨m, hm, hwd⟩ := bind_eq_ok.mp hwd
        cases hwd
        obtain ⟨e, rng⟩ := numberIntoU64_ok hm
        have insInv : ∀ (l : List (Bytes × Int)) (k : Bytes) (v : Int), 0 ≤ v ∧ v ≤ u64Max →
            (∀ w ∈ l, 0 ≤ w.2 ∧ w.2 ≤ u64Max) → ∀ w ∈ insertKV k v l, 0 ≤ w.2 ∧ w.2 ≤ u64Max := by
          intro l
          induction l with
          | nil => intro k v hv _ w hw; simp [insertKV] at hw; subst hw; exact hv
          | cons x xs ihl =>
            intro k v hv hl w hw
            obtain ⟨k', v'⟩ := x
            rw [insertKV] at hw
            split at hw
            · rcases List.mem_cons.mp hw with hw | hw
              · subst hw; exact hv
              · exact hl w (List.mem_cons_of_mem _ hw)
            · split at hw
              · rcases List.mem_cons.mp hw with hw | hw
                · subst hw; exact hv
                · exact hl w hw
              · rcases List.mem_cons.mp hw with hw | hw
                · subst hw; exact hl _ List.mem_cons_self
                · exact ihl k v hv (fun w h => hl w (List.mem_cons_of_mem _ h)) w hw
        exact insInv acc _ _ (by rw [e]; exact rng) hacc
  exact key _ [] _ (fun w hw => by cases hw) hw

/-- **Donation.** -/
theorem C02_donation_exact {env : CompileEnv} {t : Tx} {a : ATx} (h : compileAbs env t = .ok a) :
    ∀ d, a.donation = some d → 0 < d ∧ d ≤ u64Max := by
  have hd := (compileAbs_ok h).donation
  unfold compileDonation at hd
  intro d hdd
  split at hd
  · have := Outcome.ok.inj hd; rw [hdd] at this; cases this
  · obtain ⟨n, _, hd⟩ := bind_eq_ok.mp hd
    obtain ⟨c, hc, hd⟩ := bind_eq_ok.mp hd
    obtain ⟨e, rng⟩ := numberIntoU64_ok hc
    split at hd
    · cases hd
    · rename_i hz
      have := Outcome.ok.inj hd
      rw [hdd] at this
      cases this
      omega

/-! ## What is *not* true of the code as it stands (known findings, with witnesses) -/

def addrA : Bytes := 0x60 :: List.replicate 28 0xa1

/-- A template whose single output holds lovelace `-1`. -/
def negLovelaceTx : Tx :=
  { fees := .node .assets [.leaf .none, .leaf .none, .leaf (.number 1)], references := [], inputs := [],
    outputs := [{ address := .leaf (.address addrA), datum := .leaf .none,
                  amount := .node .assets [.leaf .none, .leaf .none, .leaf (.number (-1))], optional := false }],
    validity := none, mints := [], burns := [], adhoc := [], collateral := [], signers := none, metadata := [] }

/-- **Known finding C02-lovelace-wraps.** A negative lovelace amount in an output is emitted
modulo 2^64 (`compile_ada_value: amount as u64`): compilation succeeds and the output carries
18 446 744 073 709 551 615 lovelace. -/
theorem C02_negative_lovelace_wraps :
    ∃ a, compileAbs { mainnet := false, costModels := [] } negLovelaceTx = .ok a ∧
      (a.outputs.map (·.coin)) = [18446744073709551615] := by
  refine ⟨_, rfl, ?_⟩
  decide

/-- A template whose single output holds `-5` of a native asset. -/
def negAssetTx : Tx :=
  { negLovelaceTx with
    outputs := [{ address := .leaf (.address addrA), datum := .leaf .none,
                  amount := .node .assets [.leaf (.bytes (List.replicate 28 0x11)), .leaf (.bytes [0x41]),
                    .leaf (.number (-5))], optional := false }] }

/-- **Known finding C02-negative-asset-dropped.** A negative native-asset amount in an output
is dropped: compilation succeeds and the output carries no asset at all. -/
theorem C02_negative_asset_dropped :
    ∃ a, compileAbs { mainnet := false, costModels := [] } negAssetTx = .ok a ∧
      (a.outputs.map (·.assets)) = [[]] := by
  refine ⟨_, rfl, ?_⟩
  decide

end Tx3
