import Tx3Proofs.C01Datum

/-!
# C08 — what a redeemer means does not depend on the block it is written in

An input block lowers its redeemer in a datum position, a mint or burn block and a withdrawal in a plain one.  For the
data fragment of `C01Datum` (integer expressions, literals, records and variants in any field order, lists) the
position is immaterial: in every position whose identifiers still carry symbols, lowering, applying the arguments,
reducing and converting yields the same Plutus Data, `den` - so the redeemer attached to the spend, the mint and the
reward item of one expression carry the same data (what the `lang-redeemers` probe of the check observes on the real
crates, and where seed C08-08 - a withdrawal lowered in an address position - shows).
-/

namespace Tx3.Lang
open Tx3 Tx3.Expr Outcome

theorem C08_redeemer_position_immaterial (s : Scope) (σ : ArgMap) (ints : String → Int) (c1 c2 : Ctx)
    (h1 : c1.lvl ≠ 0) (h2 : c2.lvl ≠ 0) (d : DExp) (h : d.OK s σ ints) (k m : Nat) :
    ∃ t1 r1 t2 r2,
      lowerE s (d.depth + 1 + k) c1 d.toL = .ok t1 ∧ reduceF (d.depth + 2 + m) (applyArgs σ t1) = .ok r1 ∧
      lowerE s (d.depth + 1 + k) c2 d.toL = .ok t2 ∧ reduceF (d.depth + 2 + m) (applyArgs σ t2) = .ok r2 ∧
      tryAsData r1 = tryAsData r2 ∧ tryAsData r1 = .ok (d.den s ints) := by
  obtain ⟨t1, ht1, r1, hr1, hd1⟩ := C01_redeemer_exact s σ ints c1 h1 d h k m
  obtain ⟨t2, ht2, r2, hr2, hd2⟩ := C01_redeemer_exact s σ ints c2 h2 d h k m
  exact ⟨t1, r1, t2, r2, ht1, hr1, ht2, hr2, by rw [hd1, hd2], hd1⟩

/-- The three positions lowering uses: a datum position (input redeemers), a plain one (mint, burn, withdrawal) and
an address position (what seed C08-08 moved the withdrawal's redeemer into) keep the symbol depth. -/
example (c : Ctx) (h : c.lvl ≠ 0) : c.enterDatum.lvl ≠ 0 ∧ c.enterAddress.lvl ≠ 0 ∧ c.enterAsset.lvl ≠ 0 := by
  simp [Ctx.enterDatum, Ctx.enterAddress, Ctx.enterAsset, h]

/-- **A policy name** written as a redeemer (or a datum field) is the policy's hash in every position but an address
position - where it is the script address the compiler builds from it, which is what a withdrawal's redeemer became
under seed C08-08. -/
theorem C08_policy_name_as_data (s : Scope) (n : Nat) (ctx : Ctx) (x h : String) (hb : Bytes)
    (hl : ctx.lvl ≠ 0) (hr : resolve s x = some (.policy x h)) (hh : hexDecode h = some hb) :
    (ctx.address = false →
      lowerE s (n + 1) ctx (.leaf (.id x)) = .ok (.leaf (.hash hb)) ∧ tryAsData (.leaf (.hash hb)) = .ok (.bytes hb)) ∧
    (ctx.address = true →
      lowerE s (n + 1) ctx (.leaf (.id x)) = .ok (.node (.compiler .buildScriptAddress) [.leaf (.hash hb)])) := by
  constructor
  · intro ha
    refine ⟨?_, by simp [tryAsData]⟩
    rw [lowerE]
    simp only [hl, if_false, hr, hh, ha, Bool.false_eq_true]
  · intro ha
    rw [lowerE]
    simp only [hl, if_false, hr, hh, ha, if_true]

end Tx3.Lang
