import Tx3Proofs.C01MultiAsset

/-!
# C01 — the value a template denotes, at the level of the IR

Asset-valued IR expressions as lowering produces them for amounts: constant asset lists, the fee placeholder,
inputs used as values (`IntoAssets(ExpectInput ..)`), `+` and `-`.  After the input and fee stages, reduction
yields a constant asset list that denotes, class by class: the literal's amounts, the fee as lovelace, the
*total of the UTxOs assigned to the input*, sums and differences - provided every intermediate per-class amount
stays inside the 128-bit range.  (`source - Ada(q) - fees`, the change of every example, is of this shape.)
-/

namespace Tx3
open Outcome Expr Assets Tx3.Lang

inductive TExp where
  /-- a constant asset list whose entries are leaves, denoting `c` -/
  | lit (cs : List Expr) (c : Assets)
  | fee
  | input (name : String) (many coll : Bool) (query : List Expr)
  | add (a b : TExp)
  | sub (a b : TExp)

namespace TExp

def toExpr : TExp → Expr
  | lit cs _ => .node .assets cs
  | fee => .node (.param .expectFees) []
  | input n many coll q => .node (.coerce .intoAssets) [.node (.param (.expectInput n many coll)) q]
  | add a b => .node (.builtin .add) [a.toExpr, b.toExpr]
  | sub a b => .node (.builtin .sub) [a.toExpr, b.toExpr]

def depth : TExp → Nat
  | lit _ _ => 0
  | fee => 0
  | input _ _ _ _ => 0
  | add a b => max a.depth b.depth + 1
  | sub a b => max a.depth b.depth + 1

/-- The total of a set of UTxOs, class by class. -/
def utxoTotal (metas : List UtxoMeta) (k : AssetClass) : Int := (metas.map fun m => amt m.assets k).sum

/-- Per-class denotation, given the fee and the UTxOs assigned to each input. -/
def den (fee : Int) (assigned : String → List UtxoMeta) : TExp → AssetClass → Int
  | lit _ c, k => amt c k
  | .fee, k => if k = AssetClass.naked then fee else 0
  | input n _ _ _, k => utxoTotal (assigned n) k
  | add a b, k => a.den fee assigned k + b.den fee assigned k
  | sub a b, k => a.den fee assigned k - b.den fee assigned k

/-- What the theorem asks of the leaves, and of every intermediate amount. -/
def OK (fee : Int) (ι : InputMap) (assigned : String → List UtxoMeta) : TExp → Prop
  | lit cs c => (∀ x ∈ cs, ∃ l, x = .leaf l) ∧ assetsVal (.node .assets cs) = some c
  | .fee => IExp.Small fee
  | input n _ _ _ => ∃ ds a, lookupS ι n = some (.node (.utxoSet (assigned n)) ds) ∧
      sumUtxoAssets (assigned n) [] = some a ∧ ∀ m ∈ assigned n, Good m.assets
  | add a b => a.OK fee ι assigned ∧ b.OK fee ι assigned ∧
      ∀ k, IExp.Small (a.den fee assigned k + b.den fee assigned k)
  | sub a b => a.OK fee ι assigned ∧ b.OK fee ι assigned ∧ (∀ k, IExp.Small (b.den fee assigned k)) ∧
      ∀ k, IExp.Small (a.den fee assigned k - b.den fee assigned k)

end TExp

/-- The stages applied to an asset-valued expression: fee, then inputs. -/
def staged (fee : Int) (ι : InputMap) (e : Expr) : Expr := applyInputs ι (applyFees fee e)

theorem leaves_applyFeesL (fee : Int) : ∀ (cs : List Expr), (∀ x ∈ cs, ∃ l, x = .leaf l) → applyFeesL fee cs = cs := by
  intro cs
  induction cs with
  | nil => intro _; simp [applyFeesL]
  | cons c cs ih =>
    intro h
    obtain ⟨l, rfl⟩ := h c (by simp)
    simp [applyFeesL, applyFees, ih (fun x hx => h x (by simp [hx]))]

theorem leaves_applyInputsL (ι : InputMap) : ∀ (cs : List Expr), (∀ x ∈ cs, ∃ l, x = .leaf l) → applyInputsL ι cs = cs := by
  intro cs
  induction cs with
  | nil => intro _; simp [applyInputsL]
  | cons c cs ih =>
    intro h
    obtain ⟨l, rfl⟩ := h c (by simp)
    simp [applyInputsL, applyInputs, ih (fun x hx => h x (by simp [hx]))]

theorem leaves_reduce (n : Nat) : ∀ (cs : List Expr), (∀ x ∈ cs, ∃ l, x = .leaf l) → mapMO (reduceF (n + 1)) cs = .ok cs := by
  intro cs
  induction cs with
  | nil => intro _; rfl
  | cons c cs ih =>
    intro h
    obtain ⟨l, rfl⟩ := h c (by simp)
    simp [mapMO, reduceF, ih (fun x hx => h x (by simp [hx]))]

theorem leaves_const : ∀ (cs : List Expr), (∀ x ∈ cs, ∃ l, x = .leaf l) → isConstantL cs = true := by
  intro cs
  induction cs with
  | nil => intro _; simp [isConstantL]
  | cons c cs ih =>
    intro h
    obtain ⟨l, rfl⟩ := h c (by simp)
    simp [isConstantL, isConstant, ih (fun x hx => h x (by simp [hx]))]

/-- The running sum of `sumUtxoAssets` stays canonical and adds up class by class. -/
theorem sumUtxo_spec : ∀ (metas : List UtxoMeta) (acc a : Assets), Good acc → (∀ m ∈ metas, Good m.assets) →
    sumUtxoAssets metas acc = some a →
    Good a ∧ ∀ k, amt a k = amt acc k + TExp.utxoTotal metas k := by
  intro metas
  induction metas with
  | nil =>
    intro acc a ga _ h
    rw [sumUtxoAssets] at h; cases h
    exact ⟨ga, fun k => by simp [TExp.utxoTotal]⟩
  | cons m rest ih =>
    intro acc a ga hm h
    rw [sumUtxoAssets] at h
    try simp only at h
    split at h
    · rename_i hfit
      have gm := hm m (by simp)
      have hg : Good (retainNZ (addRaw acc m.assets)) :=
        Good_retainNZ (WF_addRaw ga.wf) (ProperKeys_foldl_upsert id m.assets gm.proper ga.proper) hfit
      obtain ⟨g2, h2⟩ := ih _ a hg (fun x hx => hm x (by simp [hx])) h
      refine ⟨g2, fun k => ?_⟩
      rw [h2 k, amt_retainNZ (WF_addRaw ga.wf), amt_addRaw gm.wf]
      simp only [TExp.utxoTotal, List.map_cons, List.sum_cons]
      omega
    · cases h

/-- …and holds no zero entry. -/
theorem sumUtxo_NZ : ∀ (metas : List UtxoMeta) (acc a : Assets), NZ acc → sumUtxoAssets metas acc = some a → NZ a := by
  intro metas
  induction metas with
  | nil => intro acc a h hs; rw [sumUtxoAssets] at hs; cases hs; exact h
  | cons m rest ih =>
    intro acc a _ hs
    rw [sumUtxoAssets] at hs
    try simp only at hs
    split at hs
    · exact ih _ a (NZ_retainNZ _) hs
    · cases hs

theorem amt_nil (k : AssetClass) : amt ([] : Assets) k = 0 := by simp [amt, get?]

theorem template_value (fee : Int) (ι : InputMap) (assigned : String → List UtxoMeta) :
    ∀ (t : TExp), t.OK fee ι assigned → ∀ m,
      ∃ r, reduceF (t.depth + 3 + m) (staged fee ι t.toExpr) = .ok r ∧ Denotes r (t.den fee assigned)
  | .lit cs c, h, m => by
    obtain ⟨hl, hv⟩ := h
    refine ⟨.node .assets cs, ?_, by simp [isConstant, leaves_const cs hl], c, hv, fun k => rfl⟩
    simp only [staged, TExp.toExpr, applyFees, applyInputs, leaves_applyFeesL fee cs hl, leaves_applyInputsL ι cs hl]
    rw [show TExp.depth (.lit cs c) + 3 + m = (m + 2) + 1 by simp [TExp.depth]; omega]
    simp [reduceF, leaves_reduce (m + 1) cs hl]
  | .fee, h, m => by
    have hd := single_entry (.leaf .none) (.leaf .none) ⟨_, rfl⟩ ⟨_, rfl⟩ fee h
    rw [entryClass_none] at hd
    refine ⟨.node .assets [.leaf .none, .leaf .none, .leaf (.number fee)], ?_, hd⟩
    simp only [staged, TExp.toExpr, applyFees, feeExpr, applyInputs]
    rw [show TExp.depth .fee + 3 + m = (m + 2) + 1 by simp [TExp.depth]; omega]
    simp [reduceF]
  | .input n many coll q, h, m => by
    obtain ⟨ds, a, hlk, hsum, hgood⟩ := h
    obtain ⟨ga, hamt⟩ := sumUtxo_spec (assigned n) [] a Good_nil hgood hsum
    obtain ⟨c, hc, _, hcamt⟩ := reread_canonical ga
    refine ⟨assetsNode a, ?_, isConstant_assetsNode a, c, hc, fun k => ?_⟩
    · simp only [staged, TExp.toExpr, applyFees, applyFeesL, applyInputs, applyInputsL, hlk]
      rw [show TExp.depth (.input n many coll q) + 3 + m = (m + 2) + 1 by simp [TExp.depth]; omega]
      simp [reduceF, mapMO, isConstantL, isConstant, reduceCoerce, intoAssets, hsum]
    · rw [hcamt k, hamt k, amt_nil]; simp [TExp.den]
  | .add a b, h, m => by
    obtain ⟨ra, h1, ⟨ca, va, hva, hama⟩⟩ := template_value fee ι assigned a h.1 (max a.depth b.depth - a.depth + m)
    obtain ⟨rb, h2, ⟨cb, vb, hvb, hamb⟩⟩ := template_value fee ι assigned b h.2.1 (max a.depth b.depth - b.depth + m)
    rw [show a.depth + 3 + (max a.depth b.depth - a.depth + m) = max a.depth b.depth + 3 + m by omega] at h1
    rw [show b.depth + 3 + (max a.depth b.depth - b.depth + m) = max a.depth b.depth + 3 + m by omega] at h2
    have hfit : ∀ k', inI128 (amt va k' + amt vb k') = true := fun k' => by
      rw [hama k', hamb k']; exact small_i128 (h.2.2 k')
    have hok := arithAdd_ok hva hvb hfit
    refine ⟨assetsNode (retainNZ (addRaw va vb)), ?_, isConstant_assetsNode _, ?_⟩
    · rw [show (TExp.add a b).depth + 3 + m = (max a.depth b.depth + 3 + m) + 1 by simp only [TExp.depth]; omega]
      simp only [staged, TExp.toExpr, applyFees, applyFeesL, applyInputs, applyInputsL]
      have h1' : reduceF (max a.depth b.depth + 3 + m) (applyInputs ι (applyFees fee a.toExpr)) = .ok ra := h1
      have h2' : reduceF (max a.depth b.depth + 3 + m) (applyInputs ι (applyFees fee b.toExpr)) = .ok rb := h2
      rw [reduce_binary_const _ .add (by decide) _ _ ra rb h1' h2' ca cb]
      simp only [reduceBuiltin, hok]
    · obtain ⟨c, hc, hamt⟩ := C01_assets_add hva hvb hok
      exact ⟨c, hc, fun k' => by rw [hamt k', hama k', hamb k']; rfl⟩
  | .sub a b, h, m => by
    obtain ⟨ra, h1, ⟨ca, va, hva, hama⟩⟩ := template_value fee ι assigned a h.1 (max a.depth b.depth - a.depth + m)
    obtain ⟨rb, h2, ⟨cb, vb, hvb, hamb⟩⟩ := template_value fee ι assigned b h.2.1 (max a.depth b.depth - b.depth + m)
    rw [show a.depth + 3 + (max a.depth b.depth - a.depth + m) = max a.depth b.depth + 3 + m by omega] at h1
    rw [show b.depth + 3 + (max a.depth b.depth - b.depth + m) = max a.depth b.depth + 3 + m by omega] at h2
    have hneg : ∀ k', inI128 (- amt vb k') = true := fun k' => by
      rw [hamb k']
      have := h.2.2.1 k'
      exact small_i128 (by unfold IExp.Small at *; omega)
    have hsub : ∀ k', inI128 (amt va k' - amt vb k') = true := fun k' => by
      rw [hama k', hamb k']; exact small_i128 (h.2.2.2 k')
    have hnegok := arithNeg_ok hvb hneg
    obtain ⟨nb, hnb, hnamt⟩ := C01_assets_neg hvb hnegok
    have haddok := arithAdd_ok hva hnb (fun k' => by
      rw [hnamt k']; have := hsub k'; rwa [Int.sub_eq_add_neg] at this)
    obtain ⟨cs, rfl⟩ := assetsVal_is_assets hva
    have hok : arithSub (.node .assets cs) rb = .ok (assetsNode (retainNZ (addRaw va nb))) := by
      unfold arithSub
      simp only [hnegok, ok_bind, haddok]
    obtain ⟨c, hc, hamt⟩ := C01_assets_sub hva hvb hok
    refine ⟨_, ?_, isConstant_assetsNode _, c, hc, fun k' => ?_⟩
    · rw [show (TExp.sub a b).depth + 3 + m = (max a.depth b.depth + 3 + m) + 1 by simp only [TExp.depth]; omega]
      simp only [staged, TExp.toExpr, applyFees, applyFeesL, applyInputs, applyInputsL]
      have h1' : reduceF (max a.depth b.depth + 3 + m) (applyInputs ι (applyFees fee a.toExpr)) = .ok (.node .assets cs) := h1
      have h2' : reduceF (max a.depth b.depth + 3 + m) (applyInputs ι (applyFees fee b.toExpr)) = .ok rb := h2
      rw [reduce_binary_const _ .sub (by decide) _ _ _ rb h1' h2' ca cb]
      simp only [reduceBuiltin, hok]
    · rw [hamt k', hama k', hamb k']; rfl

/-- **C01 (the value of a template).** `source - Ada(q) - fees` and every other combination of inputs, literals,
the fee, `+` and `-`: after the fee and the inputs are applied, the reducer writes a constant asset list that
denotes, class by class, the totals of the assigned UTxOs, the literals and the fee combined by integer arithmetic. -/
theorem C01_template_value (fee : Int) (ι : InputMap) (assigned : String → List UtxoMeta) (t : TExp)
    (h : t.OK fee ι assigned) (m : Nat) :
    ∃ r, reduceF (t.depth + 3 + m) (staged fee ι t.toExpr) = .ok r ∧ Denotes r (t.den fee assigned) :=
  template_value fee ι assigned t h m

/-! ### Non-vacuity: `source - Ada(2000000) - fees` with one UTxO of 5 ADA assigned to `source` -/

def exMeta : UtxoMeta :=
  { ref := { txid := [1], index := 0 }, address := [], assets := [(AssetClass.naked, 5000000)], hasDatum := false, hasScript := false }
def exAssigned : String → List UtxoMeta := fun _ => [exMeta]
def exInputs : InputMap := [("source", .node (.utxoSet [exMeta]) [])]
def exChange : TExp :=
  .sub (.sub (.input "source" false false []) (.lit [.leaf .none, .leaf .none, .leaf (.number 2000000)] [(AssetClass.naked, 2000000)])) .fee

theorem exGood : Good exMeta.assets := by
  refine ⟨?_, ?_, ?_⟩
  · simp [exMeta, Assets.WF, Assets.keys]
  · intro kv hkv
    simp [exMeta] at hkv
    subst hkv
    simp [AssetClass.Proper]
  · simp [exMeta, fitsI128, inI128, i128Min, i128Max]

example : exChange.OK 170000 exInputs exAssigned := by
  have hs : sumUtxoAssets [exMeta] [] = some [(AssetClass.naked, 5000000)] := by
    simp [sumUtxoAssets, exMeta, addRaw, upsert, fitsI128, inI128, i128Min, i128Max, retainNZ]
  have hv : assetsVal (.node .assets [.leaf .none, .leaf .none, .leaf (.number 2000000)]) = some [(AssetClass.naked, 2000000)] := by
    simp [assetsVal, assetsOfChildren, fromAsset, fromNakedAmount, constPolicy, constName, nameExprOf, addRaw, upsert, fitsI128, inI128,
      i128Min, i128Max, retainNZ]
  have d1 : ∀ k, TExp.den 170000 exAssigned (.input "source" false false []) k = if k = AssetClass.naked then 5000000 else 0 := by
    intro k
    by_cases hk : k = AssetClass.naked
    · subst hk; simp [TExp.den, TExp.utxoTotal, exAssigned, exMeta, amt, get?]
    · have : ¬ AssetClass.naked = k := fun e => hk e.symm
      simp [TExp.den, TExp.utxoTotal, exAssigned, exMeta, amt, get?, hk, this]
  have d2 : ∀ k, TExp.den 170000 exAssigned (.lit [.leaf .none, .leaf .none, .leaf (.number 2000000)] [(AssetClass.naked, 2000000)]) k
      = if k = AssetClass.naked then 2000000 else 0 := by
    intro k
    by_cases hk : k = AssetClass.naked
    · subst hk; simp [TExp.den, amt, get?]
    · have : ¬ AssetClass.naked = k := fun e => hk e.symm
      simp [TExp.den, amt, get?, hk, this]
  refine ⟨⟨⟨[], _, by simp [exInputs, lookupS, exAssigned], by simpa [exAssigned] using hs, ?_⟩, ⟨by simp, hv⟩, ?_, ?_⟩, ?_, ?_, ?_⟩
  · intro m hm; simp [exAssigned] at hm; subst hm; exact exGood
  · intro k; rw [d2 k]; unfold IExp.Small; split <;> omega
  · intro k; rw [d1 k, d2 k]; unfold IExp.Small; split <;> omega
  · show IExp.Small 170000; unfold IExp.Small; omega
  · intro k; simp only [TExp.den]; unfold IExp.Small; split <;> omega
  · intro k
    have e1 := d1 k
    have e2 := d2 k
    simp only [TExp.den] at e1 e2 ⊢
    rw [e1, e2]
    unfold IExp.Small
    split <;> omega

end Tx3
