import Tx3Model.Select

/-!
# C03 / C04 — a block that shares nothing with the others is resolved as if it were alone

With several input blocks the selector remembers what earlier blocks took (`ignore`) and hides it from later ones,
so whether a later block resolves depends, in general, on what the earlier ones happened to pick.  Not when the
block's own window holds nothing the earlier blocks took: then its selection is exactly the selection it would get in
a transaction of its own - for every oracle - and the completeness clause of C03 applies to it as it stands.  This is
the fact behind the judge's clause `complete:independent-block`.
-/

namespace Tx3

/-- **What is not in the window cannot matter.** If nothing the selector is told to ignore lies in the block's
window, the block gets the selection it gets with nothing ignored. -/
theorem C03_independent_block (st : Store) (o : Oracle) (sp : SearchSpace) (q : CQuery) (ignored : List UtxoRef)
    (h : ∀ r ∈ sp.take window o.fill, r ∉ ignored) :
    selectOne st o sp q ignored = selectOne st o sp q [] := by
  unfold selectOne
  have e1 : ((sp.take window o.fill).filter fun r => !ignored.contains r) = sp.take window o.fill := by
    apply List.filter_eq_self.mpr
    intro r hr
    simp [h r hr]
  have e2 : ((sp.take window o.fill).filter fun r => !([] : List UtxoRef).contains r) = sp.take window o.fill := by
    apply List.filter_eq_self.mpr
    intro r _
    simp
  simp only [e1, e2]

/-- **Two independent blocks.** When the second block's window holds nothing the first block selected, resolving the
two in turn binds to each exactly what it would get alone (or fails on exactly the block that would fail alone). -/
theorem C03_two_independent_blocks (st : Store) (o : Oracle) (n1 n2 : String) (q1 q2 : CQuery)
    (sp1 sp2 : SearchSpace) (h1 : narrowSearchSpace st q1 = some sp1) (h2 : narrowSearchSpace st q2 = some sp2)
    (c1 : q1.collateral = false) (c2 : q2.collateral = false)
    (hind : ∀ r ∈ sp2.take window o.fill, r ∉ (selectOne st o sp1 q1 []).map (·.ref)) :
    resolveQueries st o [(n1, q1), (n2, q2)] {} =
      (let sel1 := selectOne st o sp1 q1 []
       let sel2 := selectOne st o sp2 q2 []
       if sel1.isEmpty then .error (.notResolved n1)
       else if sel2.isEmpty then .error (.notResolved n2)
       else .ok { ignore := sel1.map (·.ref) ++ sel2.map (·.ref), ignoreCollateral := [],
                  selected := [(n1, false, sel1), (n2, false, sel2)] }) := by
  simp only [resolveQueries, h1, h2, c1, c2, Bool.false_eq_true, if_false, List.nil_append]
  by_cases e1 : (selectOne st o sp1 q1 []).isEmpty = true
  · simp [e1]
  · simp only [e1, if_false, Bool.false_eq_true]
    rw [C03_independent_block st o sp2 q2 _ hind]
    by_cases e2 : (selectOne st o sp2 q2 []).isEmpty = true
    · simp [e2]
    · simp [e2]

end Tx3
