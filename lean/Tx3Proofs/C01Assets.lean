import Tx3Proofs.C15
import Tx3Proofs.Lemmas.Sort
import Tx3Proofs.Lemmas.Outcome
import Tx3Model.Reduce

/-!
# C01 / C02 — the reducer's multi-asset arithmetic is pointwise integer arithmetic

The reducer computes on asset *expressions* (`Expression::Assets`): it parses the operands into
canonical values, adds / subtracts / negates, and writes the result back as an asset list.  Proved
here, over the model of `Arithmetic for Vec<AssetExpr>`:

* `assetsVal e` — the canonical value a constant asset list denotes (what `try_canonical_assets`
  reads);
* `C01_assets_add / _sub / _neg` — whenever the reducer's operation succeeds on two constant asset
  lists, the list it writes denotes, class by class, the sum / difference / negation of what the
  operands denote (`amt` = quantity of a class, 0 when absent): nothing is dropped, merged into
  another class or numerically altered, and an overflow of the 128-bit range is an error, never a
  wrapped value;
* the writer/reader pair is lossless on canonical values (`reread_canonical`), which is what lets the
  results be chained.
-/

namespace Tx3
open Outcome Assets

/-- Invariant of canonical values inside the reducer: one entry per class, classes the
constructors can produce, every amount inside the 128-bit range. -/
structure Good (a : Assets) : Prop where
  wf : WF a
  proper : ProperKeys a
  fits : fitsI128 a = true

theorem Good_nil : Good [] := ⟨WF_empty, (fun _ h => by cases h), rfl⟩

/-- The class an entry `(policy, name)` of an asset list denotes. -/
def entryClass (p n : Expr) : AssetClass :=
  match Assets.fromAsset (Assets.constPolicy (nameExprOf p)) (Assets.constName (nameExprOf n)) 0 with
  | (c, _) :: _ => c
  | [] => .naked

theorem fromAsset_single (p n : Option Bytes) (v : Int) :
    ∃ c, Assets.fromAsset p n v = [(c, v)] ∧ c.Proper ∧ ∀ w, Assets.fromAsset p n w = [(c, w)] := by
  unfold Assets.fromAsset
  cases p with
  | none =>
    cases n with
    | none => exact ⟨.naked, rfl, trivial, fun _ => rfl⟩
    | some nm =>
      simp only
      unfold fromNamedAsset
      by_cases h : nm = []
      · simp only [h, if_true]; exact ⟨.naked, rfl, trivial, fun _ => rfl⟩
      · simp only [h, if_false]; exact ⟨.named nm, rfl, h, fun _ => rfl⟩
  | some pb =>
    cases n with
    | none =>
      simp only
      unfold fromDefinedAsset
      by_cases h : pb = []
      · simp only [h, if_true]; unfold fromNamedAsset; simp only [if_true]
        exact ⟨.naked, rfl, trivial, fun _ => rfl⟩
      · simp only [h, if_false]; exact ⟨.defined pb [], rfl, h, fun _ => rfl⟩
    | some nm =>
      simp only
      unfold fromDefinedAsset
      by_cases h : pb = []
      · simp only [h, if_true]
        unfold fromNamedAsset
        by_cases h2 : nm = []
        · simp only [h2, if_true]; exact ⟨.naked, rfl, trivial, fun _ => rfl⟩
        · simp only [h2, if_false]; exact ⟨.named nm, rfl, h2, fun _ => rfl⟩
      · simp only [h, if_false]; exact ⟨.defined pb nm, rfl, h, fun _ => rfl⟩

theorem fromAsset_entryClass (p n : Expr) (v : Int) :
    Assets.fromAsset (Assets.constPolicy (nameExprOf p)) (Assets.constName (nameExprOf n)) v = [(entryClass p n, v)] ∧
    (entryClass p n).Proper := by
  obtain ⟨c, h1, h2, h3⟩ := fromAsset_single (Assets.constPolicy (nameExprOf p)) (Assets.constName (nameExprOf n)) v
  have h0 := h3 0
  have : entryClass p n = c := by unfold entryClass; rw [h0]
  rw [this]
  exact ⟨h1, h2⟩

/-- Σ of the amounts of the entries of class `k`. -/
def entryAmt (k : AssetClass) : List Expr → Int
  | p :: n :: a :: rest =>
    (if entryClass p n = k then (match a with | .leaf (.number v) => v | _ => 0) else 0) + entryAmt k rest
  | _ => 0

theorem fitsI128_iff {a : Assets} : fitsI128 a = true ↔ ∀ kv ∈ a, inI128 kv.2 = true := by
  unfold fitsI128; simp [List.all_eq_true]

theorem Good_retainNZ {a : Assets} (h : WF a) (hp : ProperKeys a) (hf : fitsI128 a = true) : Good (retainNZ a) := by
  refine ⟨WF_retainNZ h, ?_, ?_⟩
  · intro kv hkv
    exact hp kv (List.mem_filter.mp hkv).1
  · rw [fitsI128_iff] at hf ⊢
    intro kv hkv
    exact hf kv (List.mem_filter.mp hkv).1

theorem ProperKeys_upsert {a : Assets} (hp : ProperKeys a) {k : AssetClass} (hk : k.Proper) (d : Int) :
    ProperKeys (upsert a k d) := by
  induction a with
  | nil => intro kv h; simp [upsert] at h; rw [h]; exact hk
  | cons e rest ih =>
    obtain ⟨k', v⟩ := e
    have hp' : ProperKeys rest := fun kv h => hp kv (List.mem_cons_of_mem _ h)
    intro kv h
    rw [upsert] at h
    split at h
    · rcases List.mem_cons.mp h with h1 | h1
      · rw [h1]; exact hp (k', v) List.mem_cons_self
      · exact hp kv (List.mem_cons_of_mem _ h1)
    · rcases List.mem_cons.mp h with h1 | h1
      · rw [h1]; exact hp (k', v) List.mem_cons_self
      · exact ih hp' kv h1

theorem addRaw_single (acc : Assets) (k : AssetClass) (v : Int) : addRaw acc [(k, v)] = upsert acc k v := rfl

/-- **Reading a constant asset list**: the result is canonical and denotes, per class, what the
accumulator held plus the entries of that class. -/
theorem assetsOfChildren_amt : ∀ (n : Nat) (cs : List Expr) (acc r : Assets), cs.length ≤ n → Good acc →
    assetsOfChildren cs acc = some r → Good r ∧ ∀ k, amt r k = amt acc k + entryAmt k cs := by
  intro n
  induction n with
  | zero =>
    intro cs acc r hl hg h
    cases cs with
    | nil => rw [assetsOfChildren] at h; cases h; exact ⟨hg, fun k => by simp [entryAmt]⟩
    | cons _ _ => simp at hl
  | succ n ih =>
    intro cs acc r hl hg h
    match cs with
    | [] => rw [assetsOfChildren] at h; cases h; exact ⟨hg, fun k => by simp [entryAmt]⟩
    | [_] => simp [assetsOfChildren] at h
    | [_, _] => simp [assetsOfChildren] at h
    | p :: nm :: a :: rest =>
      simp only [assetsOfChildren] at h
      split at h
      · rename_i amount
        obtain ⟨hone, hproper⟩ := fromAsset_entryClass p nm amount
        simp only [hone, addRaw_single] at h
        split at h
        · rename_i hfit
          have hg' : Good (retainNZ (upsert acc (entryClass p nm) amount)) :=
            Good_retainNZ (WF_upsert hg.wf _ _) (ProperKeys_upsert hg.proper hproper _) hfit
          obtain ⟨g, hk⟩ := ih rest _ r (by simp at hl; omega) hg' h
          refine ⟨g, fun k => ?_⟩
          rw [hk k, amt_retainNZ (WF_upsert hg.wf _ _), amt_upsert]
          simp only [entryAmt]
          omega
        · cases h
      · cases h

/-- The canonical value a constant asset list denotes. -/
def assetsVal : Expr → Option Assets
  | .node .assets cs => assetsOfChildren cs []
  | _ => none

/-! ### writing a canonical value and reading it back -/

theorem entryClass_of_class {k : AssetClass} (hk : k.Proper) :
    entryClass (match k.policy? with | some p => Expr.leaf (.bytes p) | none => Expr.leaf .none)
               (match k.name? with | some n => Expr.leaf (.bytes n) | none => Expr.leaf .none) = k := by
  cases k with
  | naked => simp [entryClass, AssetClass.policy?, AssetClass.name?, nameExprOf, constPolicy, constName, fromAsset, fromNakedAmount]
  | named n =>
    have hn : n ≠ [] := hk
    simp [entryClass, AssetClass.policy?, AssetClass.name?, nameExprOf, constPolicy, constName, fromAsset, fromNamedAsset, hn]
  | defined p n =>
    have hp : p ≠ [] := hk
    simp [entryClass, AssetClass.policy?, AssetClass.name?, nameExprOf, constPolicy, constName, fromAsset, fromDefinedAsset, hp]

def triple (kv : AssetClass × Int) : List Expr :=
  [ (match kv.1.policy? with | some p => Expr.leaf (.bytes p) | none => Expr.leaf .none),
    (match kv.1.name? with | some n => Expr.leaf (.bytes n) | none => Expr.leaf .none),
    Expr.leaf (.number kv.2) ]

/-- Reading back the triples written for a list of entries with distinct, proper classes not yet in
the accumulator: succeeds, and adds exactly those entries. -/
theorem reread_entries : ∀ (l acc : Assets), Good acc → WF l → ProperKeys l → fitsI128 l = true →
    (∀ k ∈ keys l, k ∉ keys acc) →
    ∃ r, assetsOfChildren (l.flatMap triple) acc = some r ∧ Good r ∧ ∀ k, amt r k = amt acc k + amt l k := by
  intro l
  induction l with
  | nil =>
    intro acc hg _ _ _ _
    exact ⟨acc, by simp [assetsOfChildren], hg, fun k => by simp [amt, get?]⟩
  | cons e rest ih =>
    intro acc hg hwf hp hf hdis
    obtain ⟨k, v⟩ := e
    obtain ⟨hnk, hwf'⟩ := WF_cons.mp hwf
    have hk : k.Proper := hp (k, v) List.mem_cons_self
    have hp' : ProperKeys rest := fun kv h => hp kv (List.mem_cons_of_mem _ h)
    have hfv : inI128 v = true := (fitsI128_iff.mp hf) (k, v) List.mem_cons_self
    have hf' : fitsI128 rest = true := fitsI128_iff.mpr fun kv h => (fitsI128_iff.mp hf) kv (List.mem_cons_of_mem _ h)
    have hkacc : k ∉ keys acc := hdis k (by simp [keys])
    simp only [List.flatMap_cons, triple, List.cons_append, List.nil_append]
    rw [assetsOfChildren]
    have hec := entryClass_of_class hk
    obtain ⟨hone, _⟩ := fromAsset_entryClass
      (match k.policy? with | some p => Expr.leaf (.bytes p) | none => Expr.leaf .none)
      (match k.name? with | some n => Expr.leaf (.bytes n) | none => Expr.leaf .none) v
    rw [hec] at hone
    simp only [hone, addRaw_single]
    -- the new entry is appended: nothing to add up, so it fits
    have hfit : fitsI128 (upsert acc k v) = true := by
      rw [fitsI128_iff]
      intro kv hkv
      have hwu := WF_upsert hg.wf k v
      have ha := amt_of_mem hwu hkv
      rw [amt_upsert] at ha
      by_cases hkk : k = kv.1
      · have h0 : amt acc kv.1 = 0 := by rw [← hkk]; exact amt_zero_of_not_mem_keys hkacc
        rw [if_pos hkk, h0] at ha
        have : kv.2 = v := by omega
        rw [this]; exact hfv
      · simp [hkk] at ha
        -- an old entry
        have : (kv.1, kv.2) ∈ acc := by
          have hk' : kv.1 ∈ keys (upsert acc k v) := mem_keys_of_mem hkv
          rw [keys_upsert] at hk'
          split at hk'
          · have hmem : kv.1 ∈ keys acc := hk'
            obtain ⟨e', he', hee⟩ := List.mem_map.mp hmem
            have := amt_of_mem hg.wf (show (e'.1, e'.2) ∈ acc from he')
            rw [hee] at this
            rw [this] at ha
            rw [← ha, ← hee]; exact he'
          · rcases List.mem_append.mp hk' with h1 | h1
            · obtain ⟨e', he', hee⟩ := List.mem_map.mp h1
              have := amt_of_mem hg.wf (show (e'.1, e'.2) ∈ acc from he')
              rw [hee] at this
              rw [this] at ha
              rw [← ha, ← hee]; exact he'
            · simp at h1; exact absurd h1.symm hkk
        exact (fitsI128_iff.mp hg.fits) kv this
    simp only [hfit, if_true]
    have hg' : Good (retainNZ (upsert acc k v)) := Good_retainNZ (WF_upsert hg.wf _ _) (ProperKeys_upsert hg.proper hk _) hfit
    have hdis' : ∀ k' ∈ keys rest, k' ∉ keys (retainNZ (upsert acc k v)) := by
      intro k' hk' hin
      have h1 := keys_retainNZ_subset _ hin
      rw [keys_upsert] at h1
      split at h1
      · exact hdis k' (by simp [keys] at hk' ⊢; exact Or.inr hk') h1
      · rcases List.mem_append.mp h1 with h2 | h2
        · exact hdis k' (by simp [keys] at hk' ⊢; exact Or.inr hk') h2
        · simp at h2; subst h2; exact hnk hk'
    obtain ⟨r, hr, hgr, hamt⟩ := ih _ hg' hwf' hp' hf' hdis'
    refine ⟨r, hr, hgr, fun k' => ?_⟩
    rw [hamt k', amt_retainNZ (WF_upsert hg.wf _ _), amt_upsert, amt_cons]
    by_cases hkk : k = k'
    · have h0 : amt rest k' = 0 := by rw [← hkk]; exact amt_zero_of_not_mem_keys hnk
      simp [hkk, h0]
    · simp [hkk]

/-- **The writer/reader pair is lossless**: the asset list written for a canonical value denotes
that value. -/
theorem reread_canonical {c : Assets} (hc : Good c) :
    ∃ r, assetsVal (assetsNode c) = some r ∧ Good r ∧ ∀ k, amt r k = amt c k := by
  unfold assetsVal assetsNode childrenOfAssets
  have hperm : (sortAssets c).Perm c := sortBy_perm _ c
  have hwl : WF (sortAssets c) := by
    unfold WF keys at *
    exact (List.Perm.nodup_iff (List.Perm.map _ hperm)).mpr hc.wf
  have hpl : ProperKeys (sortAssets c) := fun kv h => hc.proper kv (hperm.mem_iff.mp h)
  have hfl : fitsI128 (sortAssets c) = true :=
    fitsI128_iff.mpr fun kv h => (fitsI128_iff.mp hc.fits) kv (hperm.mem_iff.mp h)
  obtain ⟨r, hr, hg, hamt⟩ := reread_entries (sortAssets c) [] Good_nil hwl hpl hfl (fun _ _ h => by cases h)
  refine ⟨r, ?_, hg, fun k => ?_⟩
  · exact hr
  · rw [hamt k]
    have := SemEq_of_perm hperm hwl k
    simp [amt, get?] at this ⊢
    exact this

/-! ### the three operations -/

theorem assetsVal_good {e : Expr} {a : Assets} (h : assetsVal e = some a) : Good a := by
  unfold assetsVal at h
  split at h
  · rename_i cs
    exact (assetsOfChildren_amt cs.length cs [] a (Nat.le_refl _) Good_nil h).1
  · cases h

theorem assetsVal_is_assets {e : Expr} {a : Assets} (h : assetsVal e = some a) : ∃ cs, e = .node .assets cs := by
  unfold assetsVal at h
  split at h
  · exact ⟨_, rfl⟩
  · cases h

theorem ProperKeys_foldl_upsert (f : Int → Int) (b : Assets) (hb : ProperKeys b) :
    ∀ {a : Assets}, ProperKeys a → ProperKeys (b.foldl (fun acc kv => upsert acc kv.1 (f kv.2)) a) := by
  induction b with
  | nil => intro a h; exact h
  | cons kv rest ih =>
    intro a h
    simp only [List.foldl_cons]
    exact ih (fun kv' h' => hb kv' (List.mem_cons_of_mem _ h'))
      (ProperKeys_upsert h (hb kv List.mem_cons_self) _)

/-- **Addition.** If the reducer's `+` succeeds on two constant asset lists, the list it writes
denotes, class by class, the sum of what the operands denote. -/
theorem C01_assets_add {x y r : Expr} {a b : Assets} (hx : assetsVal x = some a) (hy : assetsVal y = some b)
    (h : arithAdd x y = .ok r) :
    ∃ c, assetsVal r = some c ∧ ∀ k, amt c k = amt a k + amt b k := by
  obtain ⟨cs, rfl⟩ := assetsVal_is_assets hx
  obtain ⟨ds, rfl⟩ := assetsVal_is_assets hy
  have ga := assetsVal_good hx
  have gb := assetsVal_good hy
  unfold assetsVal at hx hy
  simp only at hx hy
  unfold arithAdd at h
  simp only [hx, hy] at h
  split at h
  · rename_i hfit
    cases h
    have hg : Good (retainNZ (addRaw a b)) :=
      Good_retainNZ (WF_addRaw ga.wf) (ProperKeys_foldl_upsert id b gb.proper ga.proper) hfit
    obtain ⟨c, hc, _, hamt⟩ := reread_canonical hg
    refine ⟨c, hc, fun k => ?_⟩
    rw [hamt k, amt_retainNZ (WF_addRaw ga.wf), amt_addRaw gb.wf]
  · cases h

theorem Good_neg {a : Assets} (ha : Good a) (hf : fitsI128 (Assets.neg a) = true) : Good (Assets.neg a) :=
  ⟨WF_neg ha.wf, (fun kv h => by
      obtain ⟨kv', h', rfl⟩ := List.mem_map.mp h
      exact ha.proper kv' h'), hf⟩

/-- **Negation.** -/
theorem C01_assets_neg {x r : Expr} {a : Assets} (hx : assetsVal x = some a) (h : arithNeg x = .ok r) :
    ∃ c, assetsVal r = some c ∧ ∀ k, amt c k = - amt a k := by
  obtain ⟨cs, rfl⟩ := assetsVal_is_assets hx
  have ga := assetsVal_good hx
  unfold assetsVal at hx
  simp only at hx
  unfold arithNeg at h
  simp only [hx] at h
  split at h
  · rename_i hfit
    cases h
    obtain ⟨c, hc, _, hamt⟩ := reread_canonical (Good_neg ga hfit)
    exact ⟨c, hc, fun k => by rw [hamt k, amt_neg]⟩
  · cases h

/-- **Subtraction** is addition of the negation, class by class: `x − y` denotes `x(k) − y(k)`. -/
theorem C01_assets_sub {x y r : Expr} {a b : Assets} (hx : assetsVal x = some a) (hy : assetsVal y = some b)
    (h : arithSub x y = .ok r) :
    ∃ c, assetsVal r = some c ∧ ∀ k, amt c k = amt a k - amt b k := by
  obtain ⟨cs, rfl⟩ := assetsVal_is_assets hx
  unfold arithSub at h
  simp only at h
  obtain ⟨ny, hny, h⟩ := bind_eq_ok.mp h
  obtain ⟨nb, hnb, hnamt⟩ := C01_assets_neg hy hny
  obtain ⟨c, hc, hamt⟩ := C01_assets_add hx hnb h
  exact ⟨c, hc, fun k => by rw [hamt k, hnamt k]; omega⟩

/-- In particular subtraction chains associate to the left, class by class:
`(x − y) − z` denotes `x(k) − y(k) − z(k)`. -/
theorem C01_assets_sub_chain {x y z r₁ r : Expr} {a b c : Assets}
    (hx : assetsVal x = some a) (hy : assetsVal y = some b) (hz : assetsVal z = some c)
    (h1 : arithSub x y = .ok r₁) (h2 : arithSub r₁ z = .ok r) :
    ∃ d, assetsVal r = some d ∧ ∀ k, amt d k = amt a k - amt b k - amt c k := by
  obtain ⟨d1, hd1, ha1⟩ := C01_assets_sub hx hy h1
  obtain ⟨d, hd, ha⟩ := C01_assets_sub hd1 hz h2
  exact ⟨d, hd, fun k => by rw [ha k, ha1 k]⟩

/-! ### progress: the operations succeed when every class stays inside the 128-bit range -/

theorem fits_of_amt {a : Assets} (hw : WF a) (h : ∀ k, inI128 (amt a k) = true) : fitsI128 a = true := by
  rw [fitsI128_iff]
  intro kv hkv
  have := amt_of_mem hw (show (kv.1, kv.2) ∈ a from hkv)
  rw [← this]; exact h kv.1

theorem arithAdd_ok {x y : Expr} {a b : Assets} (hx : assetsVal x = some a) (hy : assetsVal y = some b)
    (hf : ∀ k, inI128 (amt a k + amt b k) = true) :
    arithAdd x y = .ok (assetsNode (retainNZ (addRaw a b))) := by
  obtain ⟨cs, rfl⟩ := assetsVal_is_assets hx
  obtain ⟨ds, rfl⟩ := assetsVal_is_assets hy
  have ga := assetsVal_good hx
  have gb := assetsVal_good hy
  unfold assetsVal at hx hy
  simp only at hx hy
  unfold arithAdd
  simp only [hx, hy]
  have : fitsI128 (addRaw a b) = true :=
    fits_of_amt (WF_addRaw ga.wf) fun k => by rw [amt_addRaw gb.wf]; exact hf k
  simp only [this, if_true]

theorem arithNeg_ok {x : Expr} {a : Assets} (hx : assetsVal x = some a)
    (hf : ∀ k, inI128 (- amt a k) = true) :
    arithNeg x = .ok (assetsNode (Assets.neg a)) := by
  obtain ⟨cs, rfl⟩ := assetsVal_is_assets hx
  have ga := assetsVal_good hx
  unfold assetsVal at hx
  simp only at hx
  unfold arithNeg
  simp only [hx]
  have : fitsI128 (Assets.neg a) = true :=
    fits_of_amt (WF_neg ga.wf) fun k => by rw [amt_neg]; exact hf k
  simp only [this, if_true]

theorem arithSub_ok {x y : Expr} {a b : Assets} (hx : assetsVal x = some a) (hy : assetsVal y = some b)
    (hn : ∀ k, inI128 (- amt b k) = true) (hf : ∀ k, inI128 (amt a k - amt b k) = true) :
    ∃ r, arithSub x y = .ok r := by
  obtain ⟨cs, rfl⟩ := assetsVal_is_assets hx
  have hneg := arithNeg_ok hy hn
  obtain ⟨nb, hnb, hnamt⟩ := C01_assets_neg hy hneg
  have hadd := arithAdd_ok hx hnb (fun k => by rw [hnamt k]; have := hf k; rwa [Int.sub_eq_add_neg] at this)
  refine ⟨assetsNode (retainNZ (addRaw a nb)), ?_⟩
  unfold arithSub
  simp only [hneg, ok_bind, hadd]

/-- Non-vacuity: `{lovelace: 5} + {lovelace: 7}` over the reducer. -/
example : ∃ a, assetsVal (.node .assets [.leaf .none, .leaf .none, .leaf (.number 5)]) = some a ∧ amt a .naked = 5 := by
  refine ⟨[(.naked, 5)], ?_, ?_⟩
  · simp [assetsVal, assetsOfChildren, nameExprOf, constPolicy, constName, fromAsset, fromNakedAmount, addRaw,
      upsert, fitsI128, inI128, i128Min, i128Max, retainNZ]
  · simp [amt, get?]

/-! ### how a reduced asset value is written -/

/-- No entry holds zero (what `retain` leaves). -/
def NZ (a : Assets) : Prop := ∀ kv ∈ a, kv.2 ≠ 0

theorem NZ_nil : NZ [] := fun _ h => by cases h

theorem NZ_retainNZ (a : Assets) : NZ (retainNZ a) := by
  intro kv h
  unfold retainNZ at h
  simpa using (List.mem_filter.mp h).2

/-- The two ways the reducer leaves a constant asset value: the single entry a constructor lowers to (lovelace, or a
token with constant policy and name), or the canonical list written for a value - one entry per class, none zero. -/
inductive RForm : Expr → Prop
  | ada (v : Int) : RForm (.node .assets [.leaf .none, .leaf .none, .leaf (.number v)])
  | tok (pb nb : Bytes) (v : Int) : pb ≠ [] →
      RForm (.node .assets [.leaf (.bytes pb), .leaf (.bytes nb), .leaf (.number v)])
  | canon (a : Assets) : Good a → NZ a → RForm (assetsNode a)

theorem RForm_add {x y : Expr} {a b : Assets} (hx : assetsVal x = some a) (hy : assetsVal y = some b)
    (hf : ∀ k, inI128 (amt a k + amt b k) = true) : RForm (assetsNode (retainNZ (addRaw a b))) := by
  have ga := assetsVal_good hx
  have gb := assetsVal_good hy
  have hfit : fitsI128 (addRaw a b) = true :=
    fits_of_amt (WF_addRaw ga.wf) fun k => by rw [amt_addRaw gb.wf]; exact hf k
  exact RForm.canon _ (Good_retainNZ (WF_addRaw ga.wf) (ProperKeys_foldl_upsert id b gb.proper ga.proper) hfit)
    (NZ_retainNZ _)

end Tx3
