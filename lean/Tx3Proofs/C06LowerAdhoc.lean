import Tx3Model.LangAdhoc
import Tx3Proofs.C06Lower
import Tx3Proofs.C17Lower

/-!
# C06 / C07 / C17 — chain-specific directives: what lowering writes for them meets the same conditions

`lowerTxFull` adds the ad-hoc directives of a transaction (`cardano::withdrawal`, `…::publish`, witnesses, donation,
certificates) to what `lowerTx` produces.  Proved: every directive field is lowered by `lowerE`, so the directive nodes
are *fresh* (no substituted parameter, no UTxO set, childless placeholders) - hence `Sealed` and `WF`, the hypotheses of
the stage theorems - and hold value placeholders only under declared names, exactly like the rest of the transaction.
-/

namespace Tx3
open Outcome Expr

namespace Lang

theorem putField_forall {P : Expr → Prop} (k : String) (v : Expr) (hv : P v) :
    ∀ l : List (String × Expr), (∀ kv ∈ l, P kv.2) → ∀ kv ∈ putField k v l, P kv.2
  | [], _, kv, h => by simp [putField] at h; subst h; exact hv
  | (k', v') :: rest, hl, kv, h => by
    rw [putField] at h
    split at h
    · rcases List.mem_cons.mp h with rfl | h
      · exact hv
      · exact hl kv (by simp [h])
    · split at h
      · rcases List.mem_cons.mp h with rfl | h
        · exact hv
        · exact hl kv h
      · rcases List.mem_cons.mp h with rfl | h
        · exact hl _ (by simp)
        · exact putField_forall k v hv rest (fun x hx => hl x (by simp [hx])) kv h

theorem foldl_putField_forall {P : Expr → Prop} : ∀ (xs : List (String × Expr)) (acc : List (String × Expr)),
    (∀ kv ∈ xs, P kv.2) → (∀ kv ∈ acc, P kv.2) →
    ∀ kv ∈ xs.foldl (fun acc kv => putField kv.1 kv.2 acc) acc, P kv.2
  | [], acc, _, hacc, kv, h => hacc kv (by simpa using h)
  | x :: xs, acc, hx, hacc, kv, h => by
    simp only [List.foldl_cons] at h
    exact foldl_putField_forall xs _ (fun y hy => hx y (by simp [hy]))
      (putField_forall x.1 x.2 (hx x (by simp)) acc hacc) kv h

/-- A predicate on expressions that every directive node inherits from its fields. -/
structure NodeWise (Q : Expr → Bool) : Prop where
  adhoc : ∀ name (fields : List (String × Expr)), (∀ kv ∈ fields, Q kv.2 = true) → Q (adhocNode name fields) = true
  none' : Q none' = true

theorem lowerDirective_all (Q : Expr → Bool) (hQ : NodeWise Q) (s : Scope) (fuel : Nat)
    (hE : ∀ ctx e t, lowerE s fuel ctx e = .ok t → Q t = true)
    (ctx : Ctx) (w : String) (fs : List (String × LExpr)) (t : Expr)
    (h : lowerDirective s fuel ctx w fs = .ok t) : Q t = true := by
  unfold lowerDirective at h
  simp only at h
  split at h
  · -- withdrawal
    split at h
    · simp [lerr] at h
    · simp [lerr] at h
    · obtain ⟨c, hc, h⟩ := bind_eq_ok.mp h
      obtain ⟨a, ha, h⟩ := bind_eq_ok.mp h
      obtain ⟨r, hr, h⟩ := bind_eq_ok.mp h
      cases h
      have hr' : Q r = true := by
        split at hr
        · exact hE _ _ _ hr
        · cases hr; exact hQ.none'
      apply hQ.adhoc
      exact putField_forall (P := fun e => Q e = true) _ _ (hE _ _ _ hc) _
        (putField_forall (P := fun e => Q e = true) _ _ (hE _ _ _ ha) _
          (putField_forall (P := fun e => Q e = true) _ _ hr' [] (fun kv hkv => by cases hkv)))
  · split at h
    · cases h
    · obtain ⟨lowered, hl, h⟩ := bind_eq_ok.mp h
      cases h
      apply hQ.adhoc
      apply foldl_putField_forall (P := fun e => Q e = true)
      · intro kv hkv
        have := mapMO_all (P := fun (y : String × Expr) => Q y.2 = true) _ _ hl (fun x _ y hy => by
          obtain ⟨v, hv, hy⟩ := bind_eq_ok.mp hy
          cases hy
          exact hE _ _ _ hv) kv hkv
        exact this
      · intro kv hkv; cases hkv

theorem lowerTxFull_slots (s : Scope) (t : Tx) (h : lowerTxFull s = .ok t) :
    ∃ t0 adhoc, lowerTx s = .ok t0 ∧ t = { t0 with adhoc } ∧
      mapMO (fun (d : String × List (String × LExpr)) => lowerDirective s (lowerFuel s) {} d.1 d.2) s.tx.adhoc = .ok adhoc ∧
      ∀ e ∈ t.slots, e ∈ t0.slots ∨ e ∈ adhoc := by
  unfold lowerTxFull at h
  obtain ⟨t0, h0, h⟩ := bind_eq_ok.mp h
  obtain ⟨adhoc, ha, h⟩ := bind_eq_ok.mp h
  cases h
  refine ⟨t0, adhoc, h0, rfl, ha, ?_⟩
  intro e he
  simp only [Tx.slots, List.mem_append] at he ⊢
  rcases he with ((((((((((he | he) | he) | he) | he) | he) | he) | he) | he) | he) | he)
  · exact Or.inl (by simp [he])
  · exact Or.inl (by simp [he])
  · exact Or.inl (by simp [he])
  · exact Or.inl (by simp [he])
  · exact Or.inl (by simp [he])
  · exact Or.inr he
  · exact Or.inl (by simp [he])
  · exact Or.inl (by simp [he])
  · exact Or.inl (by simp [he])
  · exact Or.inl (by simp [he])
  · exact Or.inl (by simp [he])

theorem nodeWise_freshb : NodeWise freshb where
  adhoc := by
    intro name fields h
    simp only [adhocNode, freshb, Kind.freshAt, Bool.true_and]
    apply freshbL_of_forall
    intro c hc
    obtain ⟨kv, hkv, rfl⟩ := List.mem_map.mp hc
    exact h kv hkv
  none' := fresh_none'

/-- **Every slot of a lowered transaction, directives included, is fresh** - hence `Sealed` and `WF`. -/
theorem lowerTxFull_fresh (s : Scope) (t : Tx) (h : lowerTxFull s = .ok t) : ∀ e ∈ t.slots, freshb e = true := by
  obtain ⟨t0, adhoc, h0, _, ha, hs⟩ := lowerTxFull_slots s t h
  intro e he
  rcases hs e he with he | he
  · exact lowerTx_fresh s t0 h0 e he
  · exact mapMO_all (P := fun y => freshb y = true) _ _ ha (fun d _ y hy =>
      lowerDirective_all freshb nodeWise_freshb s _ (fun ctx e t ht => (lower_fresh s _).1 ctx e t ht) _ _ _ _ hy) e he

theorem lowerTxFull_sealed_WF (s : Scope) (t : Tx) (h : lowerTxFull s = .ok t) :
    ∀ e ∈ t.slots, sealedb e = true ∧ WF e = true :=
  fun e he => ⟨fresh_sealed (lowerTxFull_fresh s t h e he), fresh_WF (lowerTxFull_fresh s t h e he)⟩

theorem nodeWise_declb (D : List String) : NodeWise (declb D) where
  adhoc := by
    intro name fields h
    simp only [adhocNode, declb, Kind.declAt, Bool.true_and]
    apply declbL_of_forall
    intro c hc
    obtain ⟨kv, hkv, rfl⟩ := List.mem_map.mp hc
    exact h kv hkv
  none' := decl_none'

/-- **C17 with directives**: a name used only inside a directive is required under its declared key too. -/
theorem C17_lowered_full_requires_declared (s : Scope) (t : Tx) (h : lowerTxFull s = .ok t) (n : String)
    (hn : PRef.value n ∈ t.unresolved) : ∃ d ∈ declared s, n = Tii.irName d := by
  obtain ⟨t0, adhoc, h0, _, ha, hs⟩ := lowerTxFull_slots s t h
  unfold Tx.unresolved at hn
  obtain ⟨e, he, hn⟩ := List.mem_flatMap.mp hn
  have hdecl : declb ((declared s).map Tii.tiiKey) e = true := by
    rcases hs e he with he | he
    · exact lowerTx_decl s (resolve_names s) t0 h0 e he
    · exact mapMO_all (P := fun y => declb ((declared s).map Tii.tiiKey) y = true) _ _ ha (fun d _ y hy =>
        lowerDirective_all _ (nodeWise_declb _) s _
          (fun ctx e t ht => (lower_decl s (resolve_names s) _).1 ctx e t ht) _ _ _ _ hy) e he
  have := declb_unresolved_aux.1 e hdecl n hn
  obtain ⟨d, hd, rfl⟩ := List.mem_map.mp this
  exact ⟨d, hd, rfl⟩

end Lang
end Tx3
