import Tx3Model.Json
import Tx3Proofs.Lemmas.Outcome

/-!
# C16 — JSON arguments are coerced faithfully and safely at the service boundary

Over the model of `interop.rs` / `trp/mod.rs` (tied to the code per case: every generated JSON
value × type and every generated request is run through the real `from_json` /
`parse_resolve_request` and compared with the model, outcome for outcome).
Proved: the hex codec inverts its encoding for every byte string (plain, `0x`-prefixed);
booleans are read from `true/false/0/1/"true"/"false"`; `from_json` and the request's
argument handling never panic; the argument map handed to the template holds only declared
parameters.  Decimal text, base64 and bech32 are not proved (the last two are parameters of the
model); they are exercised on boundary values.
-/

namespace Tx3.Json
open Outcome

/-! ## hex -/

theorem hexVal_hexDigit (n : Nat) (h : n < 16) : hexVal (hexDigit n) = some n := by
  have : n = 0 ∨ n = 1 ∨ n = 2 ∨ n = 3 ∨ n = 4 ∨ n = 5 ∨ n = 6 ∨ n = 7 ∨ n = 8 ∨ n = 9 ∨ n = 10 ∨
      n = 11 ∨ n = 12 ∨ n = 13 ∨ n = 14 ∨ n = 15 := by omega
  rcases this with h | h | h | h | h | h | h | h | h | h | h | h | h | h | h | h <;> subst h <;> decide

theorem hexDigit_ne_x (n : Nat) (h : n < 16) : hexDigit n ≠ 'x' := by
  have : n = 0 ∨ n = 1 ∨ n = 2 ∨ n = 3 ∨ n = 4 ∨ n = 5 ∨ n = 6 ∨ n = 7 ∨ n = 8 ∨ n = 9 ∨ n = 10 ∨
      n = 11 ∨ n = 12 ∨ n = 13 ∨ n = 14 ∨ n = 15 := by omega
  rcases this with h | h | h | h | h | h | h | h | h | h | h | h | h | h | h | h <;> subst h <;> decide

theorem byte_of_nibbles (b : UInt8) : UInt8.ofNat (b.toNat / 16 * 16 + b.toNat % 16) = b := by
  have : b.toNat / 16 * 16 + b.toNat % 16 = b.toNat := by omega
  rw [this]; exact UInt8.ofNat_toNat

/-- **Hex round trip**: decoding the hex text of any byte string gives the byte string back. -/
theorem C16_hex_roundtrip (bs : Bytes) : hexDecodeChars (bs.flatMap hexOfByte) = some bs := by
  induction bs with
  | nil => rfl
  | cons b bs ih =>
    have hlt : b.toNat < 256 := b.toNat_lt
    simp only [List.flatMap_cons, hexOfByte, List.cons_append, List.nil_append]
    rw [hexDecodeChars, hexVal_hexDigit _ (by omega), hexVal_hexDigit _ (by omega), ih]
    simp only [byte_of_nibbles]

/-- …with or without the `0x` prefix, as `hex_to_bytes` reads it. -/
theorem C16_hexToBytes_plain (bs : Bytes) : hexToBytes (String.ofList (bs.flatMap hexOfByte)) = some bs := by
  unfold hexToBytes
  rw [String.toList_ofList]
  cases bs with
  | nil => rfl
  | cons b rest =>
    have hlt : b.toNat < 256 := b.toNat_lt
    have hx := hexDigit_ne_x (b.toNat % 16) (by omega)
    have h := C16_hex_roundtrip (b :: rest)
    simp only [List.flatMap_cons, hexOfByte, List.cons_append, List.nil_append] at h ⊢
    split
    · rename_i r heq
      simp only [List.cons.injEq] at heq
      exact absurd heq.2.1 hx
    · exact h

theorem C16_hexToBytes_prefixed (bs : Bytes) :
    hexToBytes (String.ofList ('0' :: 'x' :: bs.flatMap hexOfByte)) = some bs := by
  unfold hexToBytes
  rw [String.toList_ofList]
  exact C16_hex_roundtrip bs

/-! ## booleans -/

theorem C16_bool (b : Bool) :
    valueToBool (.bool b) = .ok b ∧ valueToBool (.int (if b then 1 else 0)) = .ok b ∧
    valueToBool (.str (if b then "true" else "false")) = .ok b := by
  cases b <;> simp [valueToBool]

/-! ## never a panic -/

theorem np_stringToBigint (s : String) : NoPanic (stringToBigint s) := by
  unfold stringToBigint
  repeat (first | exact np_ok _ | exact np_err _ | split)

theorem np_valueToBigint (v : JVal) : NoPanic (valueToBigint v) := by
  unfold valueToBigint
  split <;> first | exact np_ok _ | exact np_err _ | exact np_stringToBigint _

theorem np_valueToBool (v : JVal) : NoPanic (valueToBool v) := by
  unfold valueToBool
  repeat (first | exact np_ok _ | exact np_err _ | split)

theorem np_envelopeBytes (b64 : String → Option Bytes) (fs : List (String × JVal)) :
    NoPanic (envelopeBytes b64 fs) := by
  unfold envelopeBytes
  simp only
  repeat (first | exact np_ok _ | exact np_err _ | split)

theorem np_valueToBytes (b64 : String → Option Bytes) (v : JVal) : NoPanic (valueToBytes b64 v) := by
  unfold valueToBytes
  split
  · split <;> first | exact np_ok _ | exact np_err _
  · exact np_envelopeBytes _ _
  · exact np_err _

theorem np_valueToAddress (f : String → Option Bytes) (v : JVal) : NoPanic (valueToAddress f v) := by
  unfold valueToAddress
  repeat (first | exact np_ok _ | exact np_err _ | split)

theorem np_stringToUtxoRef (s : String) : NoPanic (stringToUtxoRef s) := by
  unfold stringToUtxoRef
  repeat (first | exact np_ok _ | exact np_err _ | split)

/-- **Coercion is total**: for every JSON value and every target type `from_json` returns a
value or an error. -/
theorem C16_fromJson_total (cd : Codecs) (v : JVal) (t : Ty) : NoPanic (fromJson cd v t) := by
  unfold fromJson
  split
  · exact np_bind (np_valueToBigint v) fun _ => np_ok _
  · exact np_bind (np_valueToBool v) fun _ => np_ok _
  · exact np_bind (np_valueToBytes _ v) fun _ => np_ok _
  · exact np_bind (np_valueToAddress _ v) fun _ => np_ok _
  · split
    · exact np_bind (np_stringToUtxoRef _) fun _ => np_ok _
    · exact np_err _
  · split <;> first | exact np_ok _ | exact np_err _
  · exact np_err _

/-! ## the argument map of a resolve request -/

theorem mem_insertArg {m : List (String × Arg)} {k : String} {v : Arg} {e : String × Arg}
    (h : e ∈ insertArg m k v) : e.1 = k ∨ e ∈ m := by
  induction m with
  | nil => simp [insertArg] at h; subst h; exact Or.inl rfl
  | cons x xs ih =>
    obtain ⟨k', v'⟩ := x
    rw [insertArg] at h
    split at h
    · rcases List.mem_cons.mp h with h | h
      · subst h; exact Or.inl rfl
      · exact Or.inr (List.mem_cons_of_mem _ h)
    · rcases List.mem_cons.mp h with h | h
      · subst h; exact Or.inr List.mem_cons_self
      · exact (ih h).imp id (List.mem_cons_of_mem _)

theorem lookup_isSome_of {α} {m : List (String × α)} {k : String} {v : α} (h : lookup m k = some v) :
    ∃ e ∈ m, e.1 = k := by
  induction m with
  | nil => simp [lookup] at h
  | cons x xs ih =>
    obtain ⟨k', v'⟩ := x
    rw [lookup] at h
    split at h
    · rename_i hk; exact ⟨(k', v'), List.mem_cons_self, hk⟩
    · obtain ⟨e, he, hk⟩ := ih h; exact ⟨e, List.mem_cons_of_mem _ he, hk⟩

/-- **Only declared parameters reach the template**, and handling the request never panics. -/
theorem C16_request_args (cd : Codecs) (declared : List (String × Ty)) (env args : List (String × JVal)) :
    NoPanic (parseArgs cd declared env args) ∧
    ∀ m, parseArgs cd declared env args = .ok m → ∀ e ∈ m, ∃ d ∈ declared, d.1 = e.1 := by
  unfold parseArgs
  have key : ∀ (l : List (String × JVal)) (acc : List (String × Arg)),
      NoPanic (parseArgs.go cd declared l acc) ∧
      ((∀ e ∈ acc, ∃ d ∈ declared, d.1 = e.1) → ∀ m, parseArgs.go cd declared l acc = .ok m →
        ∀ e ∈ m, ∃ d ∈ declared, d.1 = e.1) := by
    intro l
    induction l with
    | nil =>
      intro acc
      rw [parseArgs.go]
      exact ⟨np_ok _, fun hacc m hm => by cases hm; exact hacc⟩
    | cons kv rest ih =>
      intro acc
      obtain ⟨k, v⟩ := kv
      rw [parseArgs.go]
      cases hl : lookup declared k with
      | none => exact ih acc
      | some ty =>
        simp only
        refine ⟨np_bind (C16_fromJson_total cd v ty) fun a => (ih _).1, fun hacc m hm => ?_⟩
        obtain ⟨a, _, hm⟩ := bind_eq_ok.mp hm
        apply (ih _).2 _ m hm
        intro e he
        rcases mem_insertArg he with he | he
        · obtain ⟨d, hd, hk⟩ := lookup_isSome_of hl
          exact ⟨d, hd, hk.trans he.symm⟩
        · exact hacc e he
  exact ⟨(key _ []).1, (key _ []).2 (fun e he => by cases he)⟩

/-! ## non-vacuity -/

example : hexDecodeChars ([0xc0, 0xff, 0xee].flatMap hexOfByte) = some [0xc0, 0xff, 0xee] :=
  C16_hex_roundtrip _

end Tx3.Json
