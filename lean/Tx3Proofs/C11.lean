import Tx3Model.Wire
import Tx3Proofs.Lemmas.Cbor
import Tx3Proofs.Lemmas.Sort

/-!
# C11 — the TIR wire format round-trips and rejects garbage gracefully
# C18 — lowering and encoding are deterministic

`Wire.toBytes` is the model of `encoding::to_bytes` (serde's derived data model written by
ciborium); it is compared byte for byte with the real encoder on every generated tree.
Proved here: the scalar codecs of the format round-trip for every value (128-bit integers as
CBOR integers or bignums, byte strings as integer arrays), the version gate refuses every
version but the current one, and a directive's encoding does not depend on the order in which
its fields are held.  The structural part of the round trip (the derived (de)serializers for
structs and enums) is serde/ciborium machinery that is exercised — decode∘encode compared
with the original on every tree — not modelled; and "arbitrary bytes never panic or abort
the decoder" is runtime behaviour of ciborium, exercised in a child process.
-/

namespace Tx3.Wire
open Cbor

/-- **Integers.** Every integer the IR can hold (and beyond) survives the wire: small ones as
CBOR integers, large ones as bignums of either sign. -/
theorem C11_int128_roundtrip (v : Int) : readInt128 (int128 v) = some v := by
  unfold int128
  split
  · rfl
  · split
    · simp only [readInt128, beNat_natToBytes]
      have : ((v.toNat : Nat) : Int) = v := by omega
      rw [this]
    · simp only [readInt128, beNat_natToBytes]
      have : -1 - (((-1 - v).toNat : Nat) : Int) = v := by omega
      rw [this]

/-- **Byte strings** (hashes, addresses, policy ids, transaction ids) survive the wire. -/
theorem C11_bytes_roundtrip (b : Bytes) : readBytes (bytes b) = some b := by
  unfold readBytes bytes
  simp only
  induction b with
  | nil => rfl
  | cons x xs ih =>
    simp only [List.map_cons, List.mapM_cons]
    have hx : (0 : Int) ≤ (x.toNat : Int) ∧ (x.toNat : Int) < 256 := by
      have := x.toNat_lt
      constructor <;> omega
    simp only [hx, and_self, ↓reduceIte, Int.toNat_natCast, UInt8.ofNat_toNat]
    rw [ih]
    rfl

/-- **Version gate.** Only the current version decodes; a retired or unknown version name is an
error, never a silent success. -/
theorem C11_version_gate (s : String) :
    gate (versionOfString s) = .ok () ↔ s = "v1beta0" := by
  unfold versionOfString
  by_cases h1 : s = "v1alpha8"
  · subst h1; simp [gate]
  · by_cases h2 : s = "v1beta0"
    · subst h2; simp [gate]
    · simp [h1, h2, gate]

/-! ## C18 — determinism -/

/-- The fields of a directive as the encoder emits them: sorted by key. -/
def canonFields (le : String → String → Bool) (fields : List (String × Item)) : List (Item × Item) :=
  (sortBy (fun a b => le a.1 b.1) fields).map fun (k, v) => (txt k, v)

/-- **C18.** Whatever order a directive's fields are held in (any iteration order of the map
that stores them), the encoder emits the same bytes: sorting by key has exactly one result. -/
theorem C18_directive_order_independent (le : String → String → Bool)
    (hle : TotalOrder (fun (a b : String × Item) => le a.1 b.1))
    {f₁ f₂ : List (String × Item)} (hp : f₁.Perm f₂) (name : String) :
    encode (struct [("name", txt name), ("data", .map (canonFields le f₁))]) =
    encode (struct [("name", txt name), ("data", .map (canonFields le f₂))]) := by
  unfold canonFields
  rw [sortBy_perm_invariant hle hp]

/-- Encoding is a function of the lowered tree: the same tree always gives the same bytes
(there is no hidden parameter). -/
theorem C18_encoding_function (t₁ t₂ : Tx) (h : t₁ = t₂) : toBytes t₁ = toBytes t₂ := by rw [h]

/-! ## Non-vacuity -/

example : readInt128 (int128 (2^127 - 1)) = some (2^127 - 1) := C11_int128_roundtrip _
example : readInt128 (int128 (-(2^127))) = some (-(2^127)) := C11_int128_roundtrip _
example : (match int128 (2^64) with | .tag 2 (.bytes b) => b.length | _ => 0) = 9 := by
  unfold int128
  simp only [show ¬ (-(2:Int)^64 ≤ 2^64 ∧ (2:Int)^64 < 2^64) by omega, ↓reduceIte,
    show (2:Int)^64 ≥ 0 by omega]
  simp [natToBytes]

end Tx3.Wire
