import Tx3Model.Front
import Tx3Model.Gen.Grammar
import Tx3Proofs.Lemmas.Outcome
import Tx3Proofs.Lemmas.Peg

/-!
# C12 — the front end is total

What is proved here is about the model: the PEG engine (running the grammar regenerated from
`tx3.pest`) is a total function whose every successful result is a well-placed pair tree, and the
literal builders — the places where `parsing.rs` converts matched text into values — return a
value or an error for every text, including numerals outside the 64-bit range, odd-length hex and
oversized output indices.  That the real pest engine, the tree plumbing of `parsing.rs` and the
analyzer never panic or hang is explored per case (grammar-derived expansions, token-level
mutations, nesting to depth 64, under a panic hook and a watchdog), with the engine compared
pair for pair with pest.
-/

namespace Tx3.Front
open Tx3.Peg Outcome

/-- The engine returns pairs, a rejection, or runs out of fuel; pairs are well placed. -/
theorem C12_engine_outcome (g : Grammar) (rule : Nat) (input : String) :
    (∃ s ts, Peg.parse g rule input = .ok s ts ∧ AllGood input.toList 0 (utf8Len input.toList) ts) ∨
    Peg.parse g rule input = .fail ∨ Peg.parse g rule input = .fuelOut := by
  cases h : Peg.parse g rule input with
  | ok s ts =>
    left
    refine ⟨s, ts, rfl, ?_⟩
    unfold Peg.parse Peg.parseF at h
    have := (engine_inv g input.toList _).1 _ _ _ _ _ _ ⟨[], by simp, by simp [utf8Len]⟩ h
    obtain ⟨pre, h1, h2⟩ := this.1
    refine this.2.2.mono (Nat.le_refl _) ?_
    rw [h1, utf8Len_append]; omega
  | fail => right; left; rfl
  | fuelOut => right; right; rfl

/-- **Numerals**: any text — in particular any `"-"? digit+` beyond the 64-bit range — is read or
rejected with an error. -/
theorem C12_number_total (text : List Char) : NoPanic (numberParse text) := by
  unfold numberParse; split <;> first | exact np_ok _ | exact np_err _

/-- A numeral is read exactly when it denotes a 64-bit value. -/
theorem C12_number_range (text : List Char) (v : Int) (h : numberParse text = .ok v) :
    -(2:Int)^63 ≤ v ∧ v < (2:Int)^63 := by
  unfold numberParse at h
  split at h
  · rename_i w hw
    cases Outcome.ok.inj h
    unfold parseI64 at hw
    split at hw
    · rename_i d ds
      cases hn : natOfDigits (d :: ds) 0 with
      | none => rw [hn] at hw; cases hw
      | some n =>
        rw [hn] at hw
        simp only [Option.bind_some] at hw
        split at hw
        · cases hw; omega
        · cases hw
    · rename_i d ds _
      cases hn : natOfDigits (d :: ds) 0 with
      | none => rw [hn] at hw; cases hw
      | some n =>
        rw [hn] at hw
        simp only [Option.bind_some] at hw
        split at hw
        · cases hw; omega
        · cases hw
    · cases hw
  · cases h

/-- **UTxO references**: odd-length hex and oversized indices are errors. -/
theorem C12_utxo_ref_total (text : List Char) : NoPanic (utxoRefParse text) := by
  unfold utxoRefParse
  repeat (first | exact np_ok _ | exact np_err _ | split)

/-- The two texts the `bool` rule matches are read. -/
theorem C12_bool_on_rule : boolParse "true".toList = .ok true ∧ boolParse "false".toList = .ok false := by
  constructor <;> decide

example : numberParse "99999999999999999999".toList = .err "integer literal out of range" := by decide
example : numberParse "-9223372036854775808".toList = .ok (-9223372036854775808) := by decide
example : utxoRefParse "0xabc#1".toList = .err "invalid hex in the txid of a utxo ref" := by decide

end Tx3.Front
