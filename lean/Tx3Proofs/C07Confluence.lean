import Tx3Proofs.C06Reduce
import Tx3Proofs.C07

/-!
# C07 — reducing before or after a substitution stage gives the same template

`reduce ∘ apply σ ∘ reduce` and `reduce ∘ apply σ` agree: whenever the reducer answers on an expression, on
the expression with arguments applied, and on the reduced expression with the same arguments applied, the
last two answers are the same tree (for every fuel each of the three runs is given).  First the invariant
the proof needs: `Sealed` (payloads of `Set` and the expressions held by UTxOs are closed) is kept by the
reducer, by the same case analysis as `reduce_closed`.
-/

namespace Tx3
open Outcome Expr

theorem Sealed_leaf (l : Leaf) : Sealed (.leaf l) := by simp [Sealed]

theorem SealedL_iff {cs : List Expr} : SealedL cs ↔ ∀ c ∈ cs, Sealed c := by
  induction cs with
  | nil => simp
  | cons c cs ih => rw [SealedL_cons, ih]; simp

theorem SealedL_append {xs ys : List Expr} : SealedL (xs ++ ys) ↔ SealedL xs ∧ SealedL ys := by
  simp only [SealedL_iff, List.mem_append]
  constructor
  · intro h; exact ⟨fun c hc => h c (Or.inl hc), fun c hc => h c (Or.inr hc)⟩
  · intro h c hc; rcases hc with hc | hc
    · exact h.1 c hc
    · exact h.2 c hc

theorem Sealed_of_mem {cs : List Expr} {c : Expr} (h : SealedL cs) (hc : c ∈ cs) : Sealed c :=
  SealedL_iff.mp h c hc

theorem Sealed_children {k : Kind} {cs : List Expr} (h : Sealed (.node k cs)) : SealedL cs :=
  (Sealed_node.mp h).2

theorem Sealed_mk {k : Kind} {cs : List Expr} (hk : ∀ cs, Kind.SealedAt k cs) (h : SealedL cs) :
    Sealed (.node k cs) := Sealed_node.mpr ⟨hk cs, h⟩

theorem Sealed_assetsNode (a : Assets) : Sealed (assetsNode a) := by
  unfold assetsNode
  refine Sealed_mk (fun _ => trivial) (SealedL_iff.mpr ?_)
  intro c hc
  unfold childrenOfAssets at hc
  simp only [List.mem_flatMap] at hc
  obtain ⟨kv, _, hkv⟩ := hc
  simp only [List.mem_cons, List.mem_nil_iff, or_false] at hkv
  rcases hkv with rfl | rfl | rfl
  · split <;> exact Sealed_leaf _
  · split <;> exact Sealed_leaf _
  · exact Sealed_leaf _

theorem Sealed_arithNeg {x r : Expr} (h : arithNeg x = .ok r) : Sealed r := by
  unfold arithNeg at h
  split at h
  · cases h; exact Sealed_leaf _
  · split at h
    · cases h; exact Sealed_leaf _
    · cases h
  · split at h
    · dsimp only at h
      split at h
      · cases h; exact Sealed_assetsNode _
      · cases h
    · cases h
  · cases h

theorem Sealed_arithAdd {x y r : Expr} (hx : Sealed x) (hy : Sealed y) (h : arithAdd x y = .ok r) :
    Sealed r := by
  unfold arithAdd at h
  split at h
  · cases h; exact hy
  · split at h
    · split at h
      · cases h; exact Sealed_leaf _
      · cases h
    · cases h; exact hx
    · cases h
  · split at h
    · split at h
      · dsimp only at h
        split at h
        · cases h; exact Sealed_assetsNode _
        · cases h
      · cases h
    · split at h
      · cases h; exact Sealed_assetsNode _
      · cases h
    · cases h
  · cases h

theorem Sealed_arithSub {x y r : Expr} (hx : Sealed x) (hy : Sealed y) (h : arithSub x y = .ok r) :
    Sealed r := by
  unfold arithSub at h
  split at h
  · exact Sealed_arithNeg h
  · obtain ⟨ny, hny, h⟩ := bind_eq_ok.mp h
    exact Sealed_arithAdd hx (Sealed_arithNeg hny) h
  · obtain ⟨ny, hny, h⟩ := bind_eq_ok.mp h
    exact Sealed_arithAdd hx (Sealed_arithNeg hny) h
  · cases h

theorem Sealed_concat {x y r : Expr} (hx : Sealed x) (hy : Sealed y) (h : concat x y = .ok r) :
    Sealed r := by
  unfold concat at h
  split at h
  · cases h; exact hy
  · split at h
    · cases h; exact Sealed_leaf _
    · cases h; exact Sealed_leaf _
    · cases h; exact hx
    · cases h
  · split at h
    · cases h; exact Sealed_leaf _
    · cases h; exact hx
    · cases h
  · split at h
    · cases h
      exact Sealed_mk (fun _ => trivial) (SealedL_append.mpr ⟨Sealed_children hx, Sealed_children hy⟩)
    · cases h
  · cases h

theorem Sealed_findPair {idx : Expr} : ∀ {kvs : List Expr} {r : Expr}, SealedL kvs →
    findPair idx kvs = some r → Sealed r := by
  intro kvs
  induction kvs using findPair.induct idx with
  | case1 k v rest hk =>
    intro r hn h
    rw [findPair] at h
    simp only [hk, if_true] at h
    cases h
    obtain ⟨h1, h2⟩ := SealedL_cons.mp hn
    obtain ⟨h3, _⟩ := SealedL_cons.mp h2
    exact Sealed_mk (fun _ => trivial) (SealedL_cons.mpr ⟨h1, SealedL_cons.mpr ⟨h3, SealedL_nil⟩⟩)
  | case2 k v rest hk ih =>
    intro r hn h
    rw [findPair] at h
    simp only [hk] at h
    obtain ⟨_, h2⟩ := SealedL_cons.mp hn
    obtain ⟨_, h4⟩ := SealedL_cons.mp h2
    exact ih h4 (by simpa using h)
  | case3 kvs hne =>
    intro r _ h
    rw [findPair] at h
    · cases h
    · exact hne

theorem Sealed_index {x idx r : Expr} (hx : Sealed x) (h : index x idx = some r) : Sealed r := by
  unfold index at h
  split at h
  · exact Sealed_findPair (Sealed_children hx) h
  · cases hn : idx.asNumber? with
    | none => simp [hn] at h
    | some n =>
      simp only [hn, Option.bind_eq_bind, Option.bind_some] at h
      obtain ⟨i, hi⟩ := nth?_some h
      exact Sealed_of_mem (Sealed_children hx) (List.mem_of_getElem? hi)
  · cases hn : idx.asNumber? with
    | none => simp [hn] at h
    | some n =>
      simp only [hn, Option.bind_eq_bind, Option.bind_some] at h
      have hc := Sealed_children hx
      obtain ⟨h1, h2⟩ := SealedL_cons.mp hc
      obtain ⟨h3, _⟩ := SealedL_cons.mp h2
      split at h
      · cases h; exact h1
      · split at h
        · cases h; exact h3
        · cases h
  · cases hn : idx.asNumber? with
    | none => simp [hn] at h
    | some n =>
      simp only [hn, Option.bind_eq_bind, Option.bind_some] at h
      obtain ⟨i, hi⟩ := nth?_some h
      exact Sealed_of_mem (Sealed_children hx) (List.mem_of_getElem? hi)
  · cases h

theorem Sealed_reduceBuiltin {b : BKind} {cs : List Expr} {r : Expr} (hn : SealedL cs)
    (h : reduceBuiltin b cs = .ok r) : Sealed r := by
  unfold reduceBuiltin at h
  split at h
  · obtain ⟨h1, h2⟩ := SealedL_cons.mp hn
    exact Sealed_arithAdd h1 (SealedL_cons.mp h2).1 h
  · obtain ⟨h1, h2⟩ := SealedL_cons.mp hn
    exact Sealed_arithSub h1 (SealedL_cons.mp h2).1 h
  · obtain ⟨h1, h2⟩ := SealedL_cons.mp hn
    exact Sealed_concat h1 (SealedL_cons.mp h2).1 h
  · exact Sealed_arithNeg h
  · obtain ⟨h1, _⟩ := SealedL_cons.mp hn
    unfold indexOrErr at h
    split at h
    · cases h; exact Sealed_index h1 (by assumption)
    · cases h
  · cases h; exact (SealedL_cons.mp hn).1
  · cases h

theorem Sealed_firstDatum (metas : List UtxoMeta) (cs : List Expr) (hn : SealedL cs) :
    Sealed (firstDatum metas cs) := by
  unfold firstDatum
  split
  · split
    · split
      · exact (SealedL_cons.mp hn).1
      · exact Sealed_leaf _
    · exact Sealed_leaf _
  · exact Sealed_leaf _

theorem Sealed_reduceCoerce {c : KKind} {cs : List Expr} {r : Expr} (hn : SealedL cs)
    (h : reduceCoerce c cs = .ok r) : Sealed r := by
  unfold reduceCoerce at h
  split at h
  · cases h; exact (SealedL_cons.mp hn).1
  · have hx := (SealedL_cons.mp hn).1
    unfold intoAssets at h
    split at h
    · cases h; exact hx
    · cases h; exact hx
    · split at h
      · cases h; exact Sealed_assetsNode _
      · cases h
    · cases h
  · have hx := (SealedL_cons.mp hn).1
    unfold intoDatum at h
    split at h <;> first
      | (cases h; exact hx)
      | (cases h; exact Sealed_leaf _)
      | (cases h; exact Sealed_firstDatum _ _ (Sealed_children hx))
      | cases h
  · unfold errUn at h; cases h
  · cases h

/-- **Reduction keeps a sealed expression sealed**, for every fuel. -/
theorem reduce_sealed : ∀ (n : Nat) (e e' : Expr), Sealed e → reduceF n e = .ok e' → Sealed e' := by
  intro n
  induction n with
  | zero => intro e e' _ h; rw [reduceF] at h; cases h
  | succ n ih =>
    intro e e' hc h
    have hL : ∀ {cs r : List Expr}, SealedL cs → mapMO (reduceF n) cs = .ok r → SealedL r := by
      intro cs r hcs hr
      exact SealedL_iff.mpr (mapMO_ok_forall hr fun a ha b hb => ih a b (Sealed_of_mem hcs ha) hb)
    cases e with
    | leaf l => rw [reduceF] at h; cases h; exact Sealed_leaf _
    | node k cs =>
      have hcs := Sealed_children hc
      cases k with
      | param p =>
        cases p with
        | set =>
          simp only [reduceF] at h
          split at h
          · cases h; exact (SealedL_cons.mp hcs).1
          · cases h
        | expectValue name ty => rw [reduceF] at h; cases h; exact hc
        | expectFees => rw [reduceF] at h; cases h; exact hc
        | expectInput name many coll =>
          simp only [reduceF] at h
          obtain ⟨cs1, h1, h⟩ := bind_eq_ok.mp h
          have c1 := hL hcs h1
          obtain ⟨cs2, h2, h⟩ := bind_eq_ok.mp h
          have c2 := hL c1 h2
          cases h
          exact Sealed_mk (fun _ => trivial) c2
      | builtin b =>
        cases b with
        | noop =>
          simp only [reduceF] at h
          split at h
          · exact ih _ _ (SealedL_cons.mp hcs).1 h
          · cases h
        | add | sub | concat | negate | property =>
          simp only [reduceF] at h
          obtain ⟨cs1, h1, h⟩ := bind_eq_ok.mp h
          have c1 := hL hcs h1
          try dsimp only at h
          split at h
          · exact Sealed_reduceBuiltin c1 h
          · obtain ⟨cs2, h2, h⟩ := bind_eq_ok.mp h
            have c2 := hL c1 h2
            try dsimp only at h
            split at h
            · obtain ⟨r, hr, h⟩ := bind_eq_ok.mp h
              cases h
              exact Sealed_mk (fun _ => trivial) (SealedL_cons.mpr ⟨Sealed_reduceBuiltin c2 hr, SealedL_nil⟩)
            · cases h; exact Sealed_mk (fun _ => trivial) c2
      | coerce c =>
        cases c with
        | noop =>
          simp only [reduceF] at h
          split at h
          · exact ih _ _ (SealedL_cons.mp hcs).1 h
          · cases h
        | intoAssets | intoDatum | intoScript =>
          simp only [reduceF] at h
          obtain ⟨cs1, h1, h⟩ := bind_eq_ok.mp h
          have c1 := hL hcs h1
          try dsimp only at h
          split at h
          · exact Sealed_reduceCoerce c1 h
          · obtain ⟨cs2, h2, h⟩ := bind_eq_ok.mp h
            have c2 := hL c1 h2
            try dsimp only at h
            split at h
            · obtain ⟨r, hr, h⟩ := bind_eq_ok.mp h
              cases h
              exact Sealed_mk (fun _ => trivial) (SealedL_cons.mpr ⟨Sealed_reduceCoerce c2 hr, SealedL_nil⟩)
            · cases h; exact Sealed_mk (fun _ => trivial) c2
      | utxoSet m => rw [reduceF] at h; cases h; exact hc
      | list | map | tuple | struct | assets | compiler | adhoc =>
        simp only [reduceF] at h
        obtain ⟨cs1, h1, h⟩ := bind_eq_ok.mp h
        have c1 := hL hcs h1
        cases h
        exact Sealed_mk (fun _ => trivial) c1


/-! ## Inversion of `reduceF` on well-formed nodes -/

theorem mapMO_nf {n : Nat} {cs cs1 : List Expr} (hw : WFL cs = true) (h : mapMO (reduceF n) cs = .ok cs1) :
    NFL cs1 = true :=
  NFL_iff.mpr (mapMO_ok_forall h fun a ha b hb => reduce_nf n a b (WFL_iff.mp hw a ha) hb)

theorem mapMO_again {n : Nat} {cs1 cs2 : List Expr} (hn : NFL cs1 = true) (h : mapMO (reduceF n) cs1 = .ok cs2) :
    cs2 = cs1 :=
  mapMO_id_of h fun a ha b hb => nf_fix n a b (NFL_iff.mp hn a ha) hb

theorem mapMO_sealed {n : Nat} {cs cs1 : List Expr} (hs : SealedL cs) (h : mapMO (reduceF n) cs = .ok cs1) :
    SealedL cs1 :=
  SealedL_iff.mpr (mapMO_ok_forall h fun a ha b hb => reduce_sealed n a b (Sealed_of_mem hs ha) hb)

/-- A builtin other than `NoOp` on well-formed operands: the operands are reduced; when they are all
constants the operation is evaluated, otherwise the node is rebuilt around the reduced operands. -/
theorem inv_builtin {n : Nat} {b : BKind} {cs : List Expr} {r : Expr} (hb : b ≠ .noop) (hw : WFL cs = true)
    (h : reduceF (n + 1) (.node (.builtin b) cs) = .ok r) :
    ∃ cs1, mapMO (reduceF n) cs = .ok cs1 ∧ NFL cs1 = true ∧
      ((isConstantL cs1 = true ∧ reduceBuiltin b cs1 = .ok r) ∨
       (isConstantL cs1 = false ∧ r = .node (.builtin b) cs1)) := by
  cases b with
  | noop => exact absurd rfl hb
  | add | sub | concat | negate | property =>
    simp only [reduceF] at h
    obtain ⟨cs1, h1, h⟩ := bind_eq_ok.mp h
    have n1 := mapMO_nf hw h1
    refine ⟨cs1, h1, n1, ?_⟩
    try dsimp only at h
    split at h
    · rename_i hc; exact Or.inl ⟨hc, h⟩
    · rename_i hc
      obtain ⟨cs2, h2, h⟩ := bind_eq_ok.mp h
      have e2 := mapMO_again n1 h2
      rw [e2] at h
      try dsimp only at h
      rw [if_neg hc] at h
      cases h
      exact Or.inr ⟨by simpa using hc, rfl⟩

theorem inv_coerce {n : Nat} {c : KKind} {cs : List Expr} {r : Expr} (hb : c ≠ .noop) (hw : WFL cs = true)
    (h : reduceF (n + 1) (.node (.coerce c) cs) = .ok r) :
    ∃ cs1, mapMO (reduceF n) cs = .ok cs1 ∧ NFL cs1 = true ∧
      ((isConstantL cs1 = true ∧ reduceCoerce c cs1 = .ok r) ∨
       (isConstantL cs1 = false ∧ r = .node (.coerce c) cs1)) := by
  cases c with
  | noop => exact absurd rfl hb
  | intoAssets | intoDatum | intoScript =>
    simp only [reduceF] at h
    obtain ⟨cs1, h1, h⟩ := bind_eq_ok.mp h
    have n1 := mapMO_nf hw h1
    refine ⟨cs1, h1, n1, ?_⟩
    try dsimp only at h
    split at h
    · rename_i hc; exact Or.inl ⟨hc, h⟩
    · rename_i hc
      obtain ⟨cs2, h2, h⟩ := bind_eq_ok.mp h
      have e2 := mapMO_again n1 h2
      rw [e2] at h
      try dsimp only at h
      rw [if_neg hc] at h
      cases h
      exact Or.inr ⟨by simpa using hc, rfl⟩

theorem inv_input {n : Nat} {name : String} {many coll : Bool} {cs : List Expr} {r : Expr} (hw : WFL cs = true)
    (h : reduceF (n + 1) (.node (.param (.expectInput name many coll)) cs) = .ok r) :
    ∃ cs1, mapMO (reduceF n) cs = .ok cs1 ∧ r = .node (.param (.expectInput name many coll)) cs1 := by
  simp only [reduceF] at h
  obtain ⟨cs1, h1, h⟩ := bind_eq_ok.mp h
  obtain ⟨cs2, h2, h⟩ := bind_eq_ok.mp h
  have e2 := mapMO_again (mapMO_nf hw h1) h2
  rw [e2] at h
  cases h
  exact ⟨_, h1, rfl⟩

/-! ## What argument application leaves alone -/

theorem applyArgs_closed_aux (σ : ArgMap) :
    (∀ e : Expr, Closed e → applyArgs σ e = e) ∧ (∀ es : List Expr, ClosedL es → applyArgsL σ es = es) := by
  apply Expr.induct
  · intro l _; simp [applyArgs]
  · intro k cs ih hc
    have hk := (Closed_node.mp hc).1
    have hcs := (Closed_node.mp hc).2
    cases k with
    | param p =>
      cases p with
      | set => simp [applyArgs]
      | expectValue name ty => simp [Kind.pref?] at hk
      | expectFees => simp [applyArgs]
      | expectInput name many coll => simp [Kind.pref?] at hk
    | utxoSet m => simp [applyArgs]
    | list | map | tuple | struct | assets | builtin | compiler | coerce | adhoc =>
      simp [applyArgs, ih hcs]
  · intro _; simp
  · intro c cs ihc ihcs h
    obtain ⟨h1, h2⟩ := ClosedL_cons.mp h
    simp [ihc h1, ihcs h2]

theorem applyArgs_closed (σ : ArgMap) {e : Expr} (h : Closed e) : applyArgs σ e = e :=
  (applyArgs_closed_aux σ).1 e h
theorem applyArgsL_closed (σ : ArgMap) {es : List Expr} (h : ClosedL es) : applyArgsL σ es = es :=
  (applyArgs_closed_aux σ).2 es h

/-- A constant in normal form whose UTxOs hold closed expressions has no parameter anywhere. -/
theorem const_closed_aux :
    (∀ e : Expr, isConstant e = true → NF e = true → Sealed e → Closed e) ∧
    (∀ es : List Expr, isConstantL es = true → NFL es = true → SealedL es → ClosedL es) := by
  apply Expr.induct
  · intro l _ _ _; exact Closed_leaf l
  · intro k cs ih hc hn hs
    have hss := Sealed_children hs
    cases k with
    | param p =>
      cases p with
      | set => simp [NF] at hn
      | expectValue name ty => simp [isConstant] at hc
      | expectFees => simp [isConstant] at hc
      | expectInput name many coll => simp [isConstant] at hc
    | utxoSet m =>
      have := (Sealed_node.mp hs).1
      exact Closed_mk rfl this
    | compiler c => simp [isConstant] at hc
    | builtin b =>
      cases b with
      | noop => simp [NF] at hn
      | add | sub | concat | negate | property =>
        have h1 : isConstantL cs = true := by simpa [isConstant] using hc
        have h2 : NFL cs = true ∧ isConstantL cs = false := by simpa [NF] using hn
        rw [h1] at h2; exact absurd h2.2 (by simp)
    | coerce c =>
      cases c with
      | noop => simp [NF] at hn
      | intoAssets | intoDatum | intoScript =>
        have h1 : isConstantL cs = true := by simpa [isConstant] using hc
        have h2 : NFL cs = true ∧ isConstantL cs = false := by simpa [NF] using hn
        rw [h1] at h2; exact absurd h2.2 (by simp)
    | list | map | tuple | struct | assets | adhoc =>
      have h1 : isConstantL cs = true := by simpa [isConstant] using hc
      have h2 : NFL cs = true := by simpa [NF] using hn
      exact Closed_mk rfl (ih h1 h2 hss)
  · intro _ _ _; exact ClosedL_nil
  · intro c cs ihc ihcs hc hn hs
    simp only [isConstantL_cons, Bool.and_eq_true] at hc
    simp only [NFL_cons, Bool.and_eq_true] at hn
    obtain ⟨s1, s2⟩ := SealedL_cons.mp hs
    exact ClosedL_cons.mpr ⟨ihc hc.1 hn.1 s1, ihcs hc.2 hn.2 s2⟩

theorem constL_closed {es : List Expr} (hc : isConstantL es = true) (hn : NFL es = true) (hs : SealedL es) :
    ClosedL es := const_closed_aux.2 es hc hn hs

/-- Closed operands in normal form reduce to themselves, with enough fuel. -/
theorem mapMO_closed_fix (σ : ArgMap) {cs1 : List Expr} (hc : ClosedL cs1) (hn : NFL cs1 = true) :
    mapMO (reduceF (Expr.sizeL cs1 + 1)) (applyArgsL σ cs1) = .ok cs1 := by
  rw [applyArgsL_closed σ hc]
  exact mapMO_fix_of fun a ha => nf_fix_fuel _ a (NFL_iff.mp hn a ha) (Nat.le_succ_of_le (sizeL_mem ha))

/-! ## Confluence with the argument stage -/

/-- The claim for one expression, as used in the induction. -/
def Confl (σ : ArgMap) (n : Nat) (c : Expr) : Prop :=
  ∀ r, reduceF n c = .ok r → ∀ m a, reduceF m (applyArgs σ c) = .ok a →
    ∀ k b, reduceF k (applyArgs σ r) = .ok b → a = b

theorem list_confl (σ : ArgMap) (n m k : Nat) :
    ∀ (cs cs1 ca cb : List Expr), (∀ c ∈ cs, Confl σ n c) →
      mapMO (reduceF n) cs = .ok cs1 → mapMO (reduceF m) (applyArgsL σ cs) = .ok ca →
      mapMO (reduceF k) (applyArgsL σ cs1) = .ok cb → ca = cb := by
  intro cs
  induction cs with
  | nil =>
    intro cs1 ca cb _ h1 ha hb
    rw [mapMO] at h1; cases h1
    simp only [applyArgsL_nil] at ha hb
    rw [mapMO] at ha hb; cases ha; cases hb; rfl
  | cons c cs ih =>
    intro cs1 ca cb hc h1 ha hb
    rw [mapMO] at h1
    obtain ⟨r, hr, h1⟩ := bind_eq_ok.mp h1
    obtain ⟨rs, hrs, h1⟩ := bind_eq_ok.mp h1
    cases h1
    simp only [applyArgsL_cons] at ha hb
    rw [mapMO] at ha hb
    obtain ⟨a, ha1, ha⟩ := bind_eq_ok.mp ha
    obtain ⟨as, has, ha⟩ := bind_eq_ok.mp ha
    cases ha
    obtain ⟨b, hb1, hb⟩ := bind_eq_ok.mp hb
    obtain ⟨bs, hbs, hb⟩ := bind_eq_ok.mp hb
    cases hb
    have e1 : a = b := hc c (by simp) r hr m a ha1 k b hb1
    have e2 : as = bs := ih rs as bs (fun c' hc' => hc c' (by simp [hc'])) hrs has hbs
    rw [e1, e2]

/-- Two runs of `mapMO (reduceF ·)` on the same list with different fuels agree when both answer and the list is
in normal form (both are the identity). -/
theorem WFL_of_WF_node {k : Kind} {cs : List Expr} (h : WF (.node k cs) = true)
    (hk : ∀ p, k ≠ .param p) (hu : ∀ m, k ≠ .utxoSet m) : WFL cs = true := by
  cases k with
  | param p => exact absurd rfl (hk p)
  | utxoSet m => exact absurd rfl (hu m)
  | list | map | tuple | struct | assets | builtin | compiler | coerce | adhoc => simpa [WF] using h

theorem confl_args (σ : ArgMap) (hσ : ValuesNF σ) :
    ∀ (n : Nat) (e : Expr), WF e = true → Sealed e → Confl σ n e := by
  intro n
  induction n with
  | zero => intro e _ _ r h; rw [reduceF] at h; cases h
  | succ n ih =>
    intro e hw hs r h m a ha k b hb
    have wfA : ∀ {es : List Expr}, WFL es = true → WFL (applyArgsL σ es) = true :=
      fun {es} h => (WF_applyArgs_aux σ hσ).2 es h
    -- the children, once the node is known to hand them to the reducer
    have kids : ∀ {cs : List Expr}, WFL cs = true → SealedL cs → ∀ c ∈ cs, Confl σ n c :=
      fun {cs} w s c hc => ih c (WFL_iff.mp w c hc) (Sealed_of_mem s hc)
    cases e with
    | leaf l =>
      rw [reduceF] at h; cases h
      simp only [applyArgs] at ha hb
      cases m with
      | zero => rw [reduceF] at ha; cases ha
      | succ m =>
        cases k with
        | zero => rw [reduceF] at hb; cases hb
        | succ k => rw [reduceF] at ha hb; cases ha; cases hb; rfl
    | node kd cs =>
      have hss := Sealed_children hs
      cases kd with
      | param p =>
        cases p with
        | set =>
          -- the payload is handed out as it is; it is closed and in normal form
          have hn : NFL cs = true := by simpa [WF] using hw
          have hcl : ClosedL cs := (Sealed_node.mp hs).1
          simp only [reduceF] at h
          split at h
          · rename_i x
            cases h
            simp only [applyArgs] at ha
            cases m with
            | zero => rw [reduceF] at ha; cases ha
            | succ m =>
              simp only [reduceF] at ha
              cases ha
              have hx : NF r = true := by simpa using hn
              rw [applyArgs_closed σ (ClosedL_cons.mp hcl).1] at hb
              exact (nf_fix k r b hx hb).symm
          · cases h
        | expectValue name ty =>
          rw [reduceF] at h; cases h
          -- both runs reduce the same expression; it is `Set [v]` or the parameter itself
          simp only [applyArgs] at ha hb
          cases hl : lookupS σ name with
          | none =>
            simp only [hl] at ha hb
            cases m with
            | zero => rw [reduceF] at ha; cases ha
            | succ m =>
              cases k with
              | zero => rw [reduceF] at hb; cases hb
              | succ k => rw [reduceF] at ha hb; cases ha; cases hb; rfl
          | some v =>
            simp only [hl] at ha hb
            cases m with
            | zero => rw [reduceF] at ha; cases ha
            | succ m =>
              cases k with
              | zero => rw [reduceF] at hb; cases hb
              | succ k => simp only [reduceF] at ha hb; cases ha; cases hb; rfl
        | expectFees =>
          rw [reduceF] at h; cases h
          simp only [applyArgs] at ha hb
          cases m with
          | zero => rw [reduceF] at ha; cases ha
          | succ m =>
            cases k with
            | zero => rw [reduceF] at hb; cases hb
            | succ k => rw [reduceF] at ha hb; cases ha; cases hb; rfl
        | expectInput name many coll =>
          have hwc : WFL cs = true := by simpa [WF] using hw
          obtain ⟨cs1, h1, rfl⟩ := inv_input hwc h
          have w1 : WFL cs1 = true := WFL_iff.mpr fun c hc => NF_imp_WF c (NFL_iff.mp (mapMO_nf hwc h1) c hc)
          simp only [applyArgs] at ha hb
          cases m with
          | zero => rw [reduceF] at ha; cases ha
          | succ m =>
            cases k with
            | zero => rw [reduceF] at hb; cases hb
            | succ k =>
              obtain ⟨ca, ha1, rfl⟩ := inv_input (wfA hwc) ha
              obtain ⟨cb, hb1, rfl⟩ := inv_input (wfA w1) hb
              rw [list_confl σ n m k cs cs1 ca cb (kids hwc hss) h1 ha1 hb1]
      | utxoSet ms =>
        rw [reduceF] at h; cases h
        simp only [applyArgs] at ha hb
        cases m with
        | zero => rw [reduceF] at ha; cases ha
        | succ m =>
          cases k with
          | zero => rw [reduceF] at hb; cases hb
          | succ k => rw [reduceF] at ha hb; cases ha; cases hb; rfl
      | builtin bk =>
        have hwc : WFL cs = true := by simpa [WF] using hw
        by_cases hno : bk = .noop
        · subst hno
          simp only [reduceF] at h
          split at h
          · rename_i x
            simp only [applyArgs, applyArgsL_cons, applyArgsL_nil] at ha
            cases m with
            | zero => rw [reduceF] at ha; cases ha
            | succ m =>
              simp only [reduceF] at ha
              have wx : WF x = true := by simpa using hwc
              exact ih x wx (SealedL_cons.mp hss).1 r h m a ha k b hb
          · cases h
        · obtain ⟨cs1, h1, n1, hcase⟩ := inv_builtin hno hwc h
          have s1 := mapMO_sealed hss h1
          have w1 : WFL cs1 = true := WFL_iff.mpr fun c hc => NF_imp_WF c (NFL_iff.mp n1 c hc)
          have haA : applyArgs σ (.node (.builtin bk) cs) = .node (.builtin bk) (applyArgsL σ cs) := by
            simp [applyArgs]
          rw [haA] at ha
          cases m with
          | zero => rw [reduceF] at ha; cases ha
          | succ m =>
            obtain ⟨ca, ha1, _, hcaseA⟩ := inv_builtin hno (wfA hwc) ha
            rcases hcase with ⟨hc1, hr⟩ | ⟨hc1, rfl⟩
            · -- the operands reduce to constants: the operation is evaluated before and after
              have cl := constL_closed hc1 n1 s1
              have hcr : Closed r := Closed_reduceBuiltin cl hr
              rw [applyArgs_closed σ hcr] at hb
              have eb : b = r := nf_fix k r b (NF_reduceBuiltin n1 hr) hb
              have eca : ca = cs1 := list_confl σ n m _ cs cs1 ca cs1 (kids hwc hss) h1 ha1 (mapMO_closed_fix σ cl n1)
              rw [eca] at hcaseA
              rcases hcaseA with ⟨_, hra⟩ | ⟨hf, _⟩
              · rw [hr] at hra; cases hra; exact eb.symm
              · rw [hc1] at hf; cases hf
            · -- some operand is still pending: the node is rebuilt, then treated alike on both sides
              have hbB : applyArgs σ (.node (.builtin bk) cs1) = .node (.builtin bk) (applyArgsL σ cs1) := by
                simp [applyArgs]
              rw [hbB] at hb
              cases k with
              | zero => rw [reduceF] at hb; cases hb
              | succ k =>
                obtain ⟨cb, hb1, _, hcaseB⟩ := inv_builtin hno (wfA w1) hb
                have e := list_confl σ n m k cs cs1 ca cb (kids hwc hss) h1 ha1 hb1
                subst e
                rcases hcaseA with ⟨ha2, hra⟩ | ⟨ha2, rfl⟩ <;> rcases hcaseB with ⟨hb2, hrb⟩ | ⟨hb2, rfl⟩
                · rw [hra] at hrb; cases hrb; rfl
                · rw [ha2] at hb2; cases hb2
                · rw [ha2] at hb2; cases hb2
                · rfl
      | coerce ck =>
        have hwc : WFL cs = true := by simpa [WF] using hw
        by_cases hno : ck = .noop
        · subst hno
          simp only [reduceF] at h
          split at h
          · rename_i x
            simp only [applyArgs, applyArgsL_cons, applyArgsL_nil] at ha
            cases m with
            | zero => rw [reduceF] at ha; cases ha
            | succ m =>
              simp only [reduceF] at ha
              have wx : WF x = true := by simpa using hwc
              exact ih x wx (SealedL_cons.mp hss).1 r h m a ha k b hb
          · cases h
        · obtain ⟨cs1, h1, n1, hcase⟩ := inv_coerce hno hwc h
          have s1 := mapMO_sealed hss h1
          have w1 : WFL cs1 = true := WFL_iff.mpr fun c hc => NF_imp_WF c (NFL_iff.mp n1 c hc)
          have haA : applyArgs σ (.node (.coerce ck) cs) = .node (.coerce ck) (applyArgsL σ cs) := by
            simp [applyArgs]
          rw [haA] at ha
          cases m with
          | zero => rw [reduceF] at ha; cases ha
          | succ m =>
            obtain ⟨ca, ha1, _, hcaseA⟩ := inv_coerce hno (wfA hwc) ha
            rcases hcase with ⟨hc1, hr⟩ | ⟨hc1, rfl⟩
            · have cl := constL_closed hc1 n1 s1
              have hcr : Closed r := Closed_reduceCoerce cl hr
              rw [applyArgs_closed σ hcr] at hb
              have eb : b = r := nf_fix k r b (NF_reduceCoerce n1 hr) hb
              have eca : ca = cs1 := list_confl σ n m _ cs cs1 ca cs1 (kids hwc hss) h1 ha1 (mapMO_closed_fix σ cl n1)
              rw [eca] at hcaseA
              rcases hcaseA with ⟨_, hra⟩ | ⟨hf, _⟩
              · rw [hr] at hra; cases hra; exact eb.symm
              · rw [hc1] at hf; cases hf
            · have hbB : applyArgs σ (.node (.coerce ck) cs1) = .node (.coerce ck) (applyArgsL σ cs1) := by
                simp [applyArgs]
              rw [hbB] at hb
              cases k with
              | zero => rw [reduceF] at hb; cases hb
              | succ k =>
                obtain ⟨cb, hb1, _, hcaseB⟩ := inv_coerce hno (wfA w1) hb
                have e := list_confl σ n m k cs cs1 ca cb (kids hwc hss) h1 ha1 hb1
                subst e
                rcases hcaseA with ⟨ha2, hra⟩ | ⟨ha2, rfl⟩ <;> rcases hcaseB with ⟨hb2, hrb⟩ | ⟨hb2, rfl⟩
                · rw [hra] at hrb; cases hrb; rfl
                · rw [ha2] at hb2; cases hb2
                · rw [ha2] at hb2; cases hb2
                · rfl
      | list | map | tuple | struct | assets | compiler | adhoc =>
        have hwc : WFL cs = true := by simpa [WF] using hw
        simp only [reduceF] at h
        obtain ⟨cs1, h1, h⟩ := bind_eq_ok.mp h
        cases h
        simp only [applyArgs] at ha hb
        cases m with
        | zero => rw [reduceF] at ha; cases ha
        | succ m =>
          cases k with
          | zero => rw [reduceF] at hb; cases hb
          | succ k =>
            simp only [reduceF] at ha hb
            obtain ⟨ca, ha1, ha⟩ := bind_eq_ok.mp ha
            obtain ⟨cb, hb1, hb⟩ := bind_eq_ok.mp hb
            cases ha; cases hb
            rw [list_confl σ n m k cs cs1 ca cb (kids hwc hss) h1 ha1 hb1]

/-! ## Fuel does not matter for the answer -/

theorem applyArgs_nil_aux : (∀ e : Expr, applyArgs [] e = e) ∧ (∀ es : List Expr, applyArgsL [] es = es) := by
  apply Expr.induct
  · intro l; simp [applyArgs]
  · intro k cs ih
    cases k with
    | param p => cases p <;> simp [applyArgs, lookupS, ih]
    | utxoSet m => simp [applyArgs]
    | list | map | tuple | struct | assets | builtin | compiler | coerce | adhoc => simp [applyArgs, ih]
  · simp
  · intro c cs ihc ihcs; simp [ihc, ihcs]

/-- Two runs of the reducer on one well-formed expression give the same answer whenever both answer. -/
theorem reduceF_det {n m : Nat} {e r r' : Expr} (hw : WF e = true) (hs : Sealed e)
    (h : reduceF n e = .ok r) (h' : reduceF m e = .ok r') : r' = r := by
  have hσ : ValuesNF ([] : ArgMap) := fun kv hkv => by cases hkv
  have hn := reduce_nf n e r hw h
  have := confl_args [] hσ n e hw hs r h m r' (by rw [applyArgs_nil_aux.1]; exact h') (r.size + 1) r
    (by rw [applyArgs_nil_aux.1]; exact nf_fix_fuel _ r hn (Nat.le_succ _))
  exact this

theorem mapMO_det {n m : Nat} {cs r r' : List Expr} (hw : WFL cs = true) (hs : SealedL cs)
    (h : mapMO (reduceF n) cs = .ok r) (h' : mapMO (reduceF m) cs = .ok r') : r' = r := by
  induction cs generalizing r r' with
  | nil => rw [mapMO] at h h'; cases h; cases h'; rfl
  | cons c cs ih =>
    rw [mapMO] at h h'
    obtain ⟨x, hx, h⟩ := bind_eq_ok.mp h
    obtain ⟨xs, hxs, h⟩ := bind_eq_ok.mp h
    obtain ⟨y, hy, h'⟩ := bind_eq_ok.mp h'
    obtain ⟨ys, hys, h'⟩ := bind_eq_ok.mp h'
    cases h; cases h'
    simp only [WFL_cons, Bool.and_eq_true] at hw
    obtain ⟨s1, s2⟩ := SealedL_cons.mp hs
    rw [reduceF_det hw.1 s1 hx hy, ih hw.2 s2 hxs hys]

/-! ## Every substitution stage -/

/-- What the proof uses about a substitution stage (`apply_args`, `apply_inputs`, `apply_fees`). -/
structure IsStage (f : Expr → Expr) (fL : List Expr → List Expr) : Prop where
  leaf : ∀ l, f (.leaf l) = .leaf l
  nil : fL [] = []
  cons : ∀ c cs, fL (c :: cs) = f c :: fL cs
  /-- structural nodes: the stage goes into the children -/
  struct : ∀ k cs, (∀ p, k ≠ .param p) → (∀ m, k ≠ .utxoSet m) → f (.node k cs) = .node k (fL cs)
  set : ∀ cs, f (.node (.param .set) cs) = .node (.param .set) cs
  utxo : ∀ m cs, f (.node (.utxoSet m) cs) = .node (.utxoSet m) cs
  /-- a pending parameter is left alone, replaced by `Set [v]`, or (an input query) entered - and which of the
  three does not depend on its children -/
  param : ∀ p, p ≠ .set →
    (∀ cs, f (.node (.param p) cs) = .node (.param p) cs) ∨
    (∃ v, ∀ cs, f (.node (.param p) cs) = .node (.param .set) [v]) ∨
    ((∃ name many coll, p = .expectInput name many coll) ∧ ∀ cs, f (.node (.param p) cs) = .node (.param p) (fL cs))
  wf : ∀ es, WFL es = true → WFL (fL es) = true
  closed : ∀ e, Closed e → f e = e
  closedL : ∀ es, ClosedL es → fL es = es

def ConflS (f : Expr → Expr) (n : Nat) (c : Expr) : Prop :=
  ∀ r, reduceF n c = .ok r → ∀ m a, reduceF m (f c) = .ok a → ∀ k b, reduceF k (f r) = .ok b → a = b

theorem list_conflS {f : Expr → Expr} {fL : List Expr → List Expr} (S : IsStage f fL) (n m k : Nat) :
    ∀ (cs cs1 ca cb : List Expr), (∀ c ∈ cs, ConflS f n c) →
      mapMO (reduceF n) cs = .ok cs1 → mapMO (reduceF m) (fL cs) = .ok ca →
      mapMO (reduceF k) (fL cs1) = .ok cb → ca = cb := by
  intro cs
  induction cs with
  | nil =>
    intro cs1 ca cb _ h1 ha hb
    rw [mapMO] at h1; cases h1
    rw [S.nil, mapMO] at ha hb; cases ha; cases hb; rfl
  | cons c cs ih =>
    intro cs1 ca cb hc h1 ha hb
    rw [mapMO] at h1
    obtain ⟨r, hr, h1⟩ := bind_eq_ok.mp h1
    obtain ⟨rs, hrs, h1⟩ := bind_eq_ok.mp h1
    cases h1
    rw [S.cons, mapMO] at ha hb
    obtain ⟨a, ha1, ha⟩ := bind_eq_ok.mp ha
    obtain ⟨as, has, ha⟩ := bind_eq_ok.mp ha
    cases ha
    obtain ⟨b, hb1, hb⟩ := bind_eq_ok.mp hb
    obtain ⟨bs, hbs, hb⟩ := bind_eq_ok.mp hb
    cases hb
    have e1 : a = b := hc c (by simp) r hr m a ha1 k b hb1
    have e2 : as = bs := ih rs as bs (fun c' hc' => hc c' (by simp [hc'])) hrs has hbs
    rw [e1, e2]

theorem mapMO_closed_fixS {f : Expr → Expr} {fL : List Expr → List Expr} (S : IsStage f fL) {cs1 : List Expr}
    (hc : ClosedL cs1) (hn : NFL cs1 = true) :
    mapMO (reduceF (Expr.sizeL cs1 + 1)) (fL cs1) = .ok cs1 := by
  rw [S.closedL _ hc]
  exact mapMO_fix_of fun a ha => nf_fix_fuel _ a (NFL_iff.mp hn a ha) (Nat.le_succ_of_le (sizeL_mem ha))

/-- Reducing the same leaf, parameter or UTxO set with two fuels. -/
theorem same_input {x a b : Expr} {m k : Nat} (hx : NF x = true)
    (ha : reduceF m x = .ok a) (hb : reduceF k x = .ok b) : a = b := by
  rw [nf_fix m x a hx ha, nf_fix k x b hx hb]

theorem confl_stage {f : Expr → Expr} {fL : List Expr → List Expr} (S : IsStage f fL) :
    ∀ (n : Nat) (e : Expr), WF e = true → Sealed e → ConflS f n e := by
  intro n
  induction n with
  | zero => intro e _ _ r h; rw [reduceF] at h; cases h
  | succ n ih =>
    intro e hw hs r h m a ha k b hb
    have kids : ∀ {cs : List Expr}, WFL cs = true → SealedL cs → ∀ c ∈ cs, ConflS f n c :=
      fun {cs} w s c hc => ih c (WFL_iff.mp w c hc) (Sealed_of_mem s hc)
    cases e with
    | leaf l =>
      rw [reduceF] at h; cases h
      rw [S.leaf] at ha hb
      exact same_input (by simp [NF]) ha hb
    | node kd cs =>
      have hss := Sealed_children hs
      cases kd with
      | param p =>
        by_cases hp : p = .set
        · subst hp
          have hn : NFL cs = true := by simpa [WF] using hw
          have hcl : ClosedL cs := (Sealed_node.mp hs).1
          simp only [reduceF] at h
          split at h
          · rename_i x
            cases h
            rw [S.set] at ha
            cases m with
            | zero => rw [reduceF] at ha; cases ha
            | succ m =>
              simp only [reduceF] at ha
              cases ha
              have hx : NF r = true := by simpa using hn
              rw [S.closed _ (ClosedL_cons.mp hcl).1] at hb
              exact (nf_fix k r b hx hb).symm
          · cases h
        · rcases S.param p hp with hsame | ⟨v, hv⟩ | ⟨⟨name, many, coll, rfl⟩, hrec⟩
          · -- left alone, whatever the children
            rw [hsame] at ha
            cases p with
            | set => exact absurd rfl hp
            | expectValue name ty =>
              rw [reduceF] at h; cases h
              rw [hsame] at hb
              exact same_input (by simp [NF]) ha hb
            | expectFees =>
              rw [reduceF] at h; cases h
              rw [hsame] at hb
              exact same_input (by simp [NF]) ha hb
            | expectInput name many coll =>
              have hwc : WFL cs = true := by simpa [WF] using hw
              obtain ⟨cs1, h1, rfl⟩ := inv_input hwc h
              rw [hsame] at hb
              have nr : NF (.node (.param (.expectInput name many coll)) cs1) = true := by
                simpa [NF] using mapMO_nf hwc h1
              rw [nf_fix k _ b nr hb]
              exact reduceF_det hw hs (show reduceF (n + 1) _ = _ from h) ha
          · -- replaced by `Set [v]`, whatever the children
            rw [hv] at ha
            have hr : ∃ cs', r = .node (.param p) cs' := by
              cases p with
              | set => exact absurd rfl hp
              | expectValue name ty => rw [reduceF] at h; cases h; exact ⟨_, rfl⟩
              | expectFees => rw [reduceF] at h; cases h; exact ⟨_, rfl⟩
              | expectInput name many coll =>
                have hwc : WFL cs = true := by simpa [WF] using hw
                obtain ⟨cs1, _, rfl⟩ := inv_input hwc h
                exact ⟨_, rfl⟩
            obtain ⟨cs', rfl⟩ := hr
            rw [hv] at hb
            cases m with
            | zero => rw [reduceF] at ha; cases ha
            | succ m =>
              cases k with
              | zero => rw [reduceF] at hb; cases hb
              | succ k => simp only [reduceF] at ha hb; cases ha; cases hb; rfl
          · -- an input query the stage goes into
            have hwc : WFL cs = true := by simpa [WF] using hw
            obtain ⟨cs1, h1, rfl⟩ := inv_input hwc h
            have w1 : WFL cs1 = true := WFL_iff.mpr fun c hc => NF_imp_WF c (NFL_iff.mp (mapMO_nf hwc h1) c hc)
            rw [hrec] at ha hb
            cases m with
            | zero => rw [reduceF] at ha; cases ha
            | succ m =>
              cases k with
              | zero => rw [reduceF] at hb; cases hb
              | succ k =>
                obtain ⟨ca, ha1, rfl⟩ := inv_input (S.wf _ hwc) ha
                obtain ⟨cb, hb1, rfl⟩ := inv_input (S.wf _ w1) hb
                rw [list_conflS S n m k cs cs1 ca cb (kids hwc hss) h1 ha1 hb1]
      | utxoSet ms =>
        rw [reduceF] at h; cases h
        rw [S.utxo] at ha hb
        have hn : NF (.node (.utxoSet ms) cs) = true := by simpa [NF, WF] using hw
        exact same_input hn ha hb
      | builtin bk =>
        have hwc : WFL cs = true := by simpa [WF] using hw
        have hst : ∀ cs', f (.node (.builtin bk) cs') = .node (.builtin bk) (fL cs') :=
          fun cs' => S.struct _ _ (by intro p; simp) (by intro m; simp)
        by_cases hno : bk = .noop
        · subst hno
          simp only [reduceF] at h
          split at h
          · rename_i x
            rw [hst, S.cons, S.nil] at ha
            cases m with
            | zero => rw [reduceF] at ha; cases ha
            | succ m =>
              simp only [reduceF] at ha
              have wx : WF x = true := by simpa using hwc
              exact ih x wx (SealedL_cons.mp hss).1 r h m a ha k b hb
          · cases h
        · obtain ⟨cs1, h1, n1, hcase⟩ := inv_builtin hno hwc h
          have s1 := mapMO_sealed hss h1
          have w1 : WFL cs1 = true := WFL_iff.mpr fun c hc => NF_imp_WF c (NFL_iff.mp n1 c hc)
          rw [hst] at ha
          cases m with
          | zero => rw [reduceF] at ha; cases ha
          | succ m =>
            obtain ⟨ca, ha1, _, hcaseA⟩ := inv_builtin hno (S.wf _ hwc) ha
            rcases hcase with ⟨hc1, hr⟩ | ⟨hc1, rfl⟩
            · have cl := constL_closed hc1 n1 s1
              have hcr : Closed r := Closed_reduceBuiltin cl hr
              rw [S.closed _ hcr] at hb
              have eb : b = r := nf_fix k r b (NF_reduceBuiltin n1 hr) hb
              have eca : ca = cs1 := list_conflS S n m _ cs cs1 ca cs1 (kids hwc hss) h1 ha1 (mapMO_closed_fixS S cl n1)
              rw [eca] at hcaseA
              rcases hcaseA with ⟨_, hra⟩ | ⟨hf, _⟩
              · rw [hr] at hra; cases hra; exact eb.symm
              · rw [hc1] at hf; cases hf
            · rw [hst] at hb
              cases k with
              | zero => rw [reduceF] at hb; cases hb
              | succ k =>
                obtain ⟨cb, hb1, _, hcaseB⟩ := inv_builtin hno (S.wf _ w1) hb
                have e := list_conflS S n m k cs cs1 ca cb (kids hwc hss) h1 ha1 hb1
                subst e
                rcases hcaseA with ⟨ha2, hra⟩ | ⟨ha2, rfl⟩ <;> rcases hcaseB with ⟨hb2, hrb⟩ | ⟨hb2, rfl⟩
                · rw [hra] at hrb; cases hrb; rfl
                · rw [ha2] at hb2; cases hb2
                · rw [ha2] at hb2; cases hb2
                · rfl
      | coerce ck =>
        have hwc : WFL cs = true := by simpa [WF] using hw
        have hst : ∀ cs', f (.node (.coerce ck) cs') = .node (.coerce ck) (fL cs') :=
          fun cs' => S.struct _ _ (by intro p; simp) (by intro m; simp)
        by_cases hno : ck = .noop
        · subst hno
          simp only [reduceF] at h
          split at h
          · rename_i x
            rw [hst, S.cons, S.nil] at ha
            cases m with
            | zero => rw [reduceF] at ha; cases ha
            | succ m =>
              simp only [reduceF] at ha
              have wx : WF x = true := by simpa using hwc
              exact ih x wx (SealedL_cons.mp hss).1 r h m a ha k b hb
          · cases h
        · obtain ⟨cs1, h1, n1, hcase⟩ := inv_coerce hno hwc h
          have s1 := mapMO_sealed hss h1
          have w1 : WFL cs1 = true := WFL_iff.mpr fun c hc => NF_imp_WF c (NFL_iff.mp n1 c hc)
          rw [hst] at ha
          cases m with
          | zero => rw [reduceF] at ha; cases ha
          | succ m =>
            obtain ⟨ca, ha1, _, hcaseA⟩ := inv_coerce hno (S.wf _ hwc) ha
            rcases hcase with ⟨hc1, hr⟩ | ⟨hc1, rfl⟩
            · have cl := constL_closed hc1 n1 s1
              have hcr : Closed r := Closed_reduceCoerce cl hr
              rw [S.closed _ hcr] at hb
              have eb : b = r := nf_fix k r b (NF_reduceCoerce n1 hr) hb
              have eca : ca = cs1 := list_conflS S n m _ cs cs1 ca cs1 (kids hwc hss) h1 ha1 (mapMO_closed_fixS S cl n1)
              rw [eca] at hcaseA
              rcases hcaseA with ⟨_, hra⟩ | ⟨hf, _⟩
              · rw [hr] at hra; cases hra; exact eb.symm
              · rw [hc1] at hf; cases hf
            · rw [hst] at hb
              cases k with
              | zero => rw [reduceF] at hb; cases hb
              | succ k =>
                obtain ⟨cb, hb1, _, hcaseB⟩ := inv_coerce hno (S.wf _ w1) hb
                have e := list_conflS S n m k cs cs1 ca cb (kids hwc hss) h1 ha1 hb1
                subst e
                rcases hcaseA with ⟨ha2, hra⟩ | ⟨ha2, rfl⟩ <;> rcases hcaseB with ⟨hb2, hrb⟩ | ⟨hb2, rfl⟩
                · rw [hra] at hrb; cases hrb; rfl
                · rw [ha2] at hb2; cases hb2
                · rw [ha2] at hb2; cases hb2
                · rfl
      | list | map | tuple | struct | assets | compiler | adhoc =>
        have hwc : WFL cs = true := by simpa [WF] using hw
        simp only [reduceF] at h
        obtain ⟨cs1, h1, h⟩ := bind_eq_ok.mp h
        cases h
        rw [S.struct _ _ (by intro p; simp) (by intro m; simp)] at ha hb
        cases m with
        | zero => rw [reduceF] at ha; cases ha
        | succ m =>
          cases k with
          | zero => rw [reduceF] at hb; cases hb
          | succ k =>
            simp only [reduceF] at ha hb
            obtain ⟨ca, ha1, ha⟩ := bind_eq_ok.mp ha
            obtain ⟨cb, hb1, hb⟩ := bind_eq_ok.mp hb
            cases ha; cases hb
            rw [list_conflS S n m k cs cs1 ca cb (kids hwc hss) h1 ha1 hb1]

/-! ## The three stages of the pipeline are stages -/

theorem applyFees_closed_aux (f : Int) :
    (∀ e : Expr, Closed e → applyFees f e = e) ∧ (∀ es : List Expr, ClosedL es → applyFeesL f es = es) := by
  apply Expr.induct
  · intro l _; simp [applyFees]
  · intro k cs ih hc
    have hk := (Closed_node.mp hc).1
    have hcs := (Closed_node.mp hc).2
    cases k with
    | param p =>
      cases p with
      | set => simp [applyFees]
      | expectValue name ty => simp [applyFees]
      | expectFees => simp [Kind.pref?] at hk
      | expectInput name many coll => simp [Kind.pref?] at hk
    | utxoSet m => simp [applyFees]
    | list | map | tuple | struct | assets | builtin | compiler | coerce | adhoc =>
      simp [applyFees, ih hcs]
  · intro _; simp
  · intro c cs ihc ihcs h
    obtain ⟨h1, h2⟩ := ClosedL_cons.mp h
    simp [ihc h1, ihcs h2]

theorem applyInputs_closed_aux (ι : InputMap) :
    (∀ e : Expr, Closed e → applyInputs ι e = e) ∧ (∀ es : List Expr, ClosedL es → applyInputsL ι es = es) := by
  apply Expr.induct
  · intro l _; simp [applyInputs]
  · intro k cs ih hc
    have hk := (Closed_node.mp hc).1
    have hcs := (Closed_node.mp hc).2
    cases k with
    | param p =>
      cases p with
      | set => simp [applyInputs]
      | expectValue name ty => simp [applyInputs]
      | expectFees => simp [applyInputs]
      | expectInput name many coll => simp [Kind.pref?] at hk
    | utxoSet m => simp [applyInputs]
    | list | map | tuple | struct | assets | builtin | compiler | coerce | adhoc =>
      simp [applyInputs, ih hcs]
  · intro _; simp
  · intro c cs ihc ihcs h
    obtain ⟨h1, h2⟩ := ClosedL_cons.mp h
    simp [ihc h1, ihcs h2]

theorem isStage_args (σ : ArgMap) (hσ : ValuesNF σ) : IsStage (applyArgs σ) (applyArgsL σ) where
  leaf := by intro l; simp [applyArgs]
  nil := by simp
  cons := by intro c cs; simp
  struct := by
    intro k cs hp hu
    cases k with
    | param p => exact absurd rfl (hp p)
    | utxoSet m => exact absurd rfl (hu m)
    | list | map | tuple | struct | assets | builtin | compiler | coerce | adhoc => simp [applyArgs]
  set := by intro cs; simp [applyArgs]
  utxo := by intro m cs; simp [applyArgs]
  param := by
    intro p hp
    cases p with
    | set => exact absurd rfl hp
    | expectValue name ty =>
      cases hl : lookupS σ name with
      | none => exact Or.inl fun cs => by simp [applyArgs, hl]
      | some v => exact Or.inr (Or.inl ⟨v, fun cs => by simp [applyArgs, hl]⟩)
    | expectFees => exact Or.inl fun cs => by simp [applyArgs]
    | expectInput name many coll => exact Or.inr (Or.inr ⟨⟨name, many, coll, rfl⟩, fun cs => by simp [applyArgs]⟩)
  wf := (WF_applyArgs_aux σ hσ).2
  closed := (applyArgs_closed_aux σ).1
  closedL := (applyArgs_closed_aux σ).2

theorem isStage_fees (fee : Int) : IsStage (applyFees fee) (applyFeesL fee) where
  leaf := by intro l; simp [applyFees]
  nil := by simp
  cons := by intro c cs; simp
  struct := by
    intro k cs hp hu
    cases k with
    | param p => exact absurd rfl (hp p)
    | utxoSet m => exact absurd rfl (hu m)
    | list | map | tuple | struct | assets | builtin | compiler | coerce | adhoc => simp [applyFees]
  set := by intro cs; simp [applyFees]
  utxo := by intro m cs; simp [applyFees]
  param := by
    intro p hp
    cases p with
    | set => exact absurd rfl hp
    | expectValue name ty => exact Or.inl fun cs => by simp [applyFees]
    | expectFees =>
      exact Or.inr (Or.inl ⟨.node .assets [.leaf .none, .leaf .none, .leaf (.number fee)], fun cs => by simp [applyFees, feeExpr]⟩)
    | expectInput name many coll => exact Or.inr (Or.inr ⟨⟨name, many, coll, rfl⟩, fun cs => by simp [applyFees]⟩)
  wf := (WF_applyFees_aux fee).2
  closed := (applyFees_closed_aux fee).1
  closedL := (applyFees_closed_aux fee).2

theorem isStage_inputs (ι : InputMap) (hι : ValuesNF ι) : IsStage (applyInputs ι) (applyInputsL ι) where
  leaf := by intro l; simp [applyInputs]
  nil := by simp
  cons := by intro c cs; simp
  struct := by
    intro k cs hp hu
    cases k with
    | param p => exact absurd rfl (hp p)
    | utxoSet m => exact absurd rfl (hu m)
    | list | map | tuple | struct | assets | builtin | compiler | coerce | adhoc => simp [applyInputs]
  set := by intro cs; simp [applyInputs]
  utxo := by intro m cs; simp [applyInputs]
  param := by
    intro p hp
    cases p with
    | set => exact absurd rfl hp
    | expectValue name ty => exact Or.inl fun cs => by simp [applyInputs]
    | expectFees => exact Or.inl fun cs => by simp [applyInputs]
    | expectInput name many coll =>
      cases hl : lookupS ι name with
      | none => exact Or.inl fun cs => by simp [applyInputs, hl]
      | some v => exact Or.inr (Or.inl ⟨v, fun cs => by simp [applyInputs, hl]⟩)
  wf := (WF_applyInputs_aux ι hι).2
  closed := (applyInputs_closed_aux ι).1
  closedL := (applyInputs_closed_aux ι).2

/-- The stage function of a `Stage`, and the values it substitutes in normal form. -/
def Stage.ValuesNF : Stage → Prop
  | .args σ => Tx3.ValuesNF σ
  | .inputs ι => Tx3.ValuesNF ι
  | .fees _ => True

def Stage.onList : Stage → List Expr → List Expr
  | .args σ => applyArgsL σ
  | .inputs ι => applyInputsL ι
  | .fees f => applyFeesL f

theorem Stage.isStage (s : Stage) (h : s.ValuesNF) : IsStage s.onExpr s.onList := by
  cases s with
  | args σ => exact isStage_args σ h
  | inputs ι => exact isStage_inputs ι h
  | fees f => exact isStage_fees f

/-- **C07 (reduction may come before or after a stage).** For every substitution stage `s` (arguments, input
UTxOs, fee), every well-formed expression `e` and every fuel: if the reducer answers `r` on `e`, `a` on `s e`
and `b` on `s r`, then `a = b` - reducing first changes nothing about what the next reduction yields. -/
theorem C07_reduce_commutes_with_stage (s : Stage) (hv : s.ValuesNF) (e r a b : Expr) (n m k : Nat)
    (hw : WF e = true) (hs : Sealed e)
    (h : reduceF n e = .ok r) (ha : reduceF m (s.onExpr e) = .ok a) (hb : reduceF k (s.onExpr r) = .ok b) :
    a = b :=
  confl_stage (s.isStage hv) n e hw hs r h m a ha k b hb

/-- The same with the fuel `reduce` uses. -/
theorem C07_reduce_then_stage (s : Stage) (hv : s.ValuesNF) (e r a b : Expr)
    (hw : WF e = true) (hs : Sealed e)
    (h : e.reduce = .ok r) (ha : (s.onExpr e).reduce = .ok a) (hb : (s.onExpr r).reduce = .ok b) :
    a = b :=
  C07_reduce_commutes_with_stage s hv e r a b _ _ _ hw hs h ha hb

/-- Chains: reduce, stage, reduce, stage, reduce against stage, stage, reduce (two stages, any kinds). -/
theorem C07_two_stages (s₁ s₂ : Stage) (h₁ : s₁.ValuesNF) (h₂ : s₂.ValuesNF) (e r₀ r₁ r₂ a₁ a : Expr)
    (hw : WF e = true) (hs : Sealed e)
    (hr₀ : e.reduce = .ok r₀) (hr₁ : (s₁.onExpr r₀).reduce = .ok r₁) (hr₂ : (s₂.onExpr r₁).reduce = .ok r₂)
    (ha₁ : (s₁.onExpr e).reduce = .ok a₁) (ha : (s₂.onExpr a₁).reduce = .ok a) : a = r₂ := by
  have e1 : a₁ = r₁ := C07_reduce_then_stage s₁ h₁ e r₀ a₁ r₁ hw hs hr₀ ha₁ hr₁
  subst e1
  rw [ha] at hr₂
  exact Option.some.inj (by cases hr₂; rfl)

/-- Non-vacuity: `q + (1 + 2)` with `q := 5`: reduce first gives `q + 3`, then 8; apply first gives 8. -/
example :
    let e : Expr := .node (.builtin .add) [.node (.param (.expectValue "q" .int)) [],
      .node (.builtin .add) [.leaf (.number 1), .leaf (.number 2)]]
    let s : Stage := .args [("q", .leaf (.number 5))]
    WF e = true ∧ Sealed e ∧
    e.reduce = .ok (.node (.builtin .add) [.node (.param (.expectValue "q" .int)) [], .leaf (.number 3)]) ∧
    (s.onExpr e).reduce = .ok (.leaf (.number 8)) := by
  refine ⟨by simp [WF], by simp [Sealed, SealedL, Kind.SealedAt], ?_, ?_⟩
  · simp [Expr.reduce, Expr.size, Expr.sizeL, reduceF, mapMO, isConstant, reduceBuiltin, arithAdd, Expr.asNumber?, inI128, i128Min, i128Max]
  · simp [Stage.onExpr, applyArgs, lookupS, Expr.reduce, Expr.size, Expr.sizeL, reduceF, mapMO, isConstant, reduceBuiltin, arithAdd, Expr.asNumber?, inI128, i128Min, i128Max]

/-- The executable check implies `Sealed`. -/
theorem sealedb_Sealed_aux : (∀ e : Expr, sealedb e = true → Sealed e) ∧ (∀ es : List Expr, sealedbL es = true → SealedL es) := by
  apply Expr.induct
  · intro l _; exact Sealed_leaf l
  · intro k cs ih h
    simp only [sealedb, Bool.and_eq_true] at h
    refine Sealed_node.mpr ⟨?_, ih h.2⟩
    have h1 := h.1
    cases k with
    | param p =>
      cases p with
      | set => simpa [Kind.sealedAtB, Kind.SealedAt, ClosedL] using h1
      | expectValue name ty => simpa [Kind.sealedAtB, Kind.SealedAt] using h1
      | expectFees => simpa [Kind.sealedAtB, Kind.SealedAt] using h1
      | expectInput name many coll => simp [Kind.SealedAt]
    | utxoSet m => simpa [Kind.sealedAtB, Kind.SealedAt, ClosedL] using h1
    | list | map | tuple | struct | assets | builtin | compiler | coerce | adhoc => simp [Kind.SealedAt]
  · intro _; exact SealedL_nil
  · intro c cs ihc ihcs h
    simp only [sealedbL, Bool.and_eq_true] at h
    exact SealedL_cons.mpr ⟨ihc h.1, ihcs h.2⟩

theorem sealedb_Sealed {e : Expr} (h : sealedb e = true) : Sealed e := sealedb_Sealed_aux.1 e h

end Tx3
