import Tx3Proofs.C01Lovelace

/-!
# C01 — the multi-asset fragment: `Ada(i)`, declared assets `Tok(i)`, `+`, `-`

`MExp` adds to the lovelace fragment the constructors of assets declared in the program
(`asset Tok = 0x<policy>.0x<name>;`).  For every such expression, every argument vector and every
sufficient fuel: lowering succeeds and applying the arguments and reducing yields a constant asset
list that denotes, *class by class*, exactly `den e k` — ordinary integer arithmetic per asset class,
subtraction chains associated to the left — provided every intermediate per-class amount stays
inside the 128-bit range.
-/

namespace Tx3.Lang
open Tx3 Tx3.Expr Assets Outcome

inductive MExp where
  | ada (i : IExp)
  | tok (x : String) (i : IExp)
  /-- `AnyAsset(0x<policy>, 0x<name>, i)` -/
  | any (ph nh : String) (i : IExp)
  | add (a b : MExp)
  | sub (a b : MExp)

/-- The class `AnyAsset(0x<ph>, 0x<nh>, _)` names. -/
def anyCls (ph nh : String) : AssetClass :=
  match hexDecode ph, hexDecode nh with
  | some pb, some nb => .defined pb nb
  | _, _ => .naked

/-- Both are hex literals, the policy not empty. -/
def AnyOK (ph nh : String) : Prop := ∃ pb nb, hexDecode ph = some pb ∧ hexDecode nh = some nb ∧ pb ≠ []

namespace MExp

def toL : MExp → LExpr
  | ada i => .node (.call "Ada") [i.toL]
  | tok x i => .node (.call x) [i.toL]
  | any ph nh i => .node .anyAsset [.leaf (.hex ph), .leaf (.hex nh), i.toL]
  | add a b => .node .add [a.toL, b.toL]
  | sub a b => .node .sub [a.toL, b.toL]

/-- Per-class denotation under an assignment `cls` of asset classes to declared asset names. -/
def den (ints : String → Int) (cls : String → AssetClass) : MExp → AssetClass → Int
  | ada i, k => if k = AssetClass.naked then i.den ints else 0
  | tok x i, k => if k = cls x then i.den ints else 0
  | any ph nh i, k => if k = anyCls ph nh then i.den ints else 0
  | add a b, k => a.den ints cls k + b.den ints cls k
  | sub a b, k => a.den ints cls k - b.den ints cls k

def depth : MExp → Nat
  | ada i => i.depth + 1
  | tok _ i => i.depth + 1
  | any _ _ i => i.depth + 1
  | add a b => max a.depth b.depth + 1
  | sub a b => max a.depth b.depth + 1

def pars : MExp → List String
  | ada i => i.pars
  | tok _ i => i.pars
  | any _ _ i => i.pars
  | add a b => a.pars ++ b.pars
  | sub a b => a.pars ++ b.pars

def toks : MExp → List String
  | ada _ => []
  | tok x _ => [x]
  | any _ _ _ => []
  | add a b => a.toks ++ b.toks
  | sub a b => a.toks ++ b.toks

/-- Every intermediate per-class amount lies strictly inside the `i128` range. -/
def Fits (ints : String → Int) (cls : String → AssetClass) : MExp → Prop
  | ada i => i.Fits ints
  | tok _ i => i.Fits ints
  | any ph nh i => i.Fits ints ∧ AnyOK ph nh
  | add a b => a.Fits ints cls ∧ b.Fits ints cls ∧ ∀ k, IExp.Small (a.den ints cls k + b.den ints cls k)
  | sub a b => a.Fits ints cls ∧ b.Fits ints cls ∧ (∀ k, IExp.Small (b.den ints cls k)) ∧
      ∀ k, IExp.Small (a.den ints cls k - b.den ints cls k)

end MExp

/-- A reduced result that denotes `d k` of every class `k`. -/
def Denotes (r : Expr) (d : AssetClass → Int) : Prop :=
  isConstant r = true ∧ ∃ c, assetsVal r = some c ∧ ∀ k, amt c k = d k

/-- `x` names an asset the program declares with a constant policy and name (hex literals), the policy not empty
(an empty one would make the reducer read the entry as lovelace or as a bare name), and `cls x` is the class those
bytes denote. -/
def TokOf (s : Scope) (cls : String → AssetClass) (x : String) : Prop :=
  x ≠ "min_utxo" ∧ x ≠ "tip_slot" ∧ x ≠ "slot_to_time" ∧ x ≠ "time_to_slot" ∧ x ≠ "Ada" ∧
  ∃ ph nh pb nb, resolve s x = some (.asset (.leaf (.hex ph)) (.leaf (.hex nh))) ∧
    hexDecode ph = some pb ∧ hexDecode nh = some nb ∧
    cls x = entryClass (.leaf (.bytes pb)) (.leaf (.bytes nb)) ∧ pb ≠ []

theorem single_entry (p n : Expr) (hp : ∃ l, p = .leaf l) (hn : ∃ l, n = .leaf l) (v : Int) (hv : IExp.Small v) :
    Denotes (.node .assets [p, n, .leaf (.number v)]) (fun k => if k = entryClass p n then v else 0) := by
  obtain ⟨lp, rfl⟩ := hp
  obtain ⟨ln, rfl⟩ := hn
  refine ⟨by simp [isConstant, isConstantL], ?_⟩
  have hfit : inI128 v = true := small_inI128 hv
  obtain ⟨hone, _⟩ := fromAsset_entryClass (.leaf lp) (.leaf ln) v
  by_cases h0 : v = 0
  · subst h0
    refine ⟨[], ?_, fun k => by simp [amt, get?]⟩
    simp only [assetsVal, assetsOfChildren, hone, addRaw_single, upsert, fitsI128, List.all_cons, List.all_nil,
      Bool.and_true, Int.zero_add, retainNZ]
    simp [inI128, i128Min, i128Max]
  · refine ⟨[(entryClass (.leaf lp) (.leaf ln), v)], ?_, fun k => ?_⟩
    · simp only [assetsVal, assetsOfChildren, hone, addRaw_single, upsert, fitsI128, List.all_cons, List.all_nil,
        Bool.and_true, Int.zero_add, retainNZ]
      simp [hfit, h0]
    · by_cases hk : k = entryClass (.leaf lp) (.leaf ln)
      · subst hk; simp [amt, get?]
      · have : ¬ entryClass (.leaf lp) (.leaf ln) = k := fun e => hk e.symm
        simp [amt, get?, hk, this]

theorem entryClass_defined {pb nb : Bytes} (h : pb ≠ []) :
    entryClass (.leaf (.bytes pb)) (.leaf (.bytes nb)) = .defined pb nb := by
  simp [entryClass, nameExprOf, constPolicy, constName, fromAsset, fromDefinedAsset, h]

theorem entryClass_none : entryClass (.leaf .none) (.leaf .none) = AssetClass.naked := by
  simp [entryClass, nameExprOf, constPolicy, constName, fromAsset, fromNakedAmount]

theorem lower_multi (s : Scope) (σ : ArgMap) (ints : String → Int) (cls : String → AssetClass) (ctx : Ctx)
    (hl : ctx.lvl ≠ 0) (hA : AdaBuiltin s) :
    ∀ (e : MExp), ScopeOf s σ ints e.pars → (∀ x ∈ e.toks, TokOf s cls x) → e.Fits ints cls → ∀ k,
      ∃ t, lowerE s (e.depth + 2 + k) ctx e.toL = .ok t ∧ Inert t ∧
        ∀ m, ∃ r, reduceF (e.depth + 2 + m) (applyArgs σ t) = .ok r ∧ Denotes r (e.den ints cls) ∧ RForm r
  | .ada i, h, _, hf, k => by
    obtain ⟨ti, hli, hri⟩ := lower_int s σ ints ctx hl i h hf (k + 1)
    have hin : Inert ti := lower_int_inert s σ ints i h _ _ _ hli
    refine ⟨.node .assets [none', none', ti], ?_, Inert_assets3 (Inert_leaf _) (Inert_leaf _) hin, ?_⟩
    · rw [show (MExp.ada i).depth + 2 + k = (i.depth + 1 + (k + 1)) + 1 by simp only [MExp.depth]; omega, MExp.toL, lowerE]
      simp only [hl, hA.1, hA.2, hli, ok_bind, if_false, Bool.not_false, Bool.and_true, decide_true,
        Bool.true_and, show ("Ada" = "min_utxo") = False by decide, show ("Ada" = "tip_slot") = False by decide,
        show ("Ada" = "slot_to_time") = False by decide, show ("Ada" = "time_to_slot") = False by decide]
      simp
    · intro m
      have hd := single_entry (.leaf .none) (.leaf .none) ⟨_, rfl⟩ ⟨_, rfl⟩ (i.den ints) (fits_small ints i hf)
      rw [entryClass_none] at hd
      refine ⟨.node .assets [.leaf .none, .leaf .none, .leaf (.number (i.den ints))], ?_, hd, RForm.ada _⟩
      rw [show (MExp.ada i).depth + 2 + m = (i.depth + 2 + m) + 1 by simp only [MExp.depth]; omega]
      have h1 := hri m
      have e2 : i.depth + 2 + m = (i.depth + 1 + m) + 1 := by omega
      simp only [none', applyArgs, applyArgsL, reduceF, mapMO, h1, ok_bind, pure_eq_ok]
      rw [e2]
      simp only [reduceF, ok_bind]
  | .tok x i, h, ht, hf, k => by
    obtain ⟨h1x, h2x, h3x, h4x, h5x, ph, nh, pb, nb, hres, hpb, hnb, hcls, hpne⟩ := ht x (by simp [MExp.toks])
    obtain ⟨ti, hli, hri⟩ := lower_int s σ ints ctx hl i h hf (k + 1)
    have hin : Inert ti := lower_int_inert s σ ints i h _ _ _ hli
    refine ⟨.node .assets [.leaf (.bytes pb), .leaf (.bytes nb), ti], ?_, Inert_assets3 (Inert_leaf _) (Inert_leaf _) hin, ?_⟩
    · rw [show (MExp.tok x i).depth + 2 + k = (i.depth + 1 + (k + 1)) + 1 by simp only [MExp.depth]; omega, MExp.toL, lowerE]
      have e3 : i.depth + 1 + (k + 1) = (i.depth + 1 + k) + 1 := by omega
      have hp : lowerE s (i.depth + 1 + (k + 1)) ctx (.leaf (.hex ph)) = .ok (.leaf (.bytes pb)) := by
        rw [e3, lowerE]; simp [hpb]
      have hn : lowerE s (i.depth + 1 + (k + 1)) ctx (.leaf (.hex nh)) = .ok (.leaf (.bytes nb)) := by
        rw [e3, lowerE]; simp [hnb]
      simp only [h1x, h2x, h3x, h4x, h5x, hl, hres, hli, ok_bind, if_false, false_and, Bool.false_and]
      simp [hp, hn]
    · intro m
      have hd := single_entry (.leaf (.bytes pb)) (.leaf (.bytes nb)) ⟨_, rfl⟩ ⟨_, rfl⟩ (i.den ints) (fits_small ints i hf)
      rw [← hcls] at hd
      refine ⟨.node .assets [.leaf (.bytes pb), .leaf (.bytes nb), .leaf (.number (i.den ints))], ?_, hd, RForm.tok _ _ _ hpne⟩
      rw [show (MExp.tok x i).depth + 2 + m = (i.depth + 2 + m) + 1 by simp only [MExp.depth]; omega]
      have h1 := hri m
      have e2 : i.depth + 2 + m = (i.depth + 1 + m) + 1 := by omega
      simp only [applyArgs, applyArgsL, reduceF, mapMO, h1, ok_bind, pure_eq_ok]
      rw [e2]
      simp only [reduceF, ok_bind]
  | .any ph nh i, h, _, hf, k => by
    obtain ⟨hfi, pb, nb, hpb, hnb, hpne⟩ := hf
    have hl' : ctx.enterDatum.lvl ≠ 0 := by simpa [Ctx.enterDatum] using hl
    obtain ⟨ti, hli, hri⟩ := lower_int s σ ints ctx.enterDatum hl' i h hfi (k + 1)
    have hin : Inert ti := lower_int_inert s σ ints i h _ _ _ hli
    refine ⟨.node .assets [.leaf (.bytes pb), .leaf (.bytes nb), ti], ?_, Inert_assets3 (Inert_leaf _) (Inert_leaf _) hin, ?_⟩
    · rw [show (MExp.any ph nh i).depth + 2 + k = (i.depth + 1 + (k + 1)) + 1 by simp only [MExp.depth]; omega, MExp.toL, lowerE]
      have e3 : i.depth + 1 + (k + 1) = (i.depth + 1 + k) + 1 := by omega
      have hp : lowerE s (i.depth + 1 + (k + 1)) ctx.enterDatum (.leaf (.hex ph)) = .ok (.leaf (.bytes pb)) := by
        rw [e3, lowerE]; simp [hpb]
      have hn : lowerE s (i.depth + 1 + (k + 1)) ctx.enterDatum (.leaf (.hex nh)) = .ok (.leaf (.bytes nb)) := by
        rw [e3, lowerE]; simp [hnb]
      simp only [hp, hn, hli, ok_bind]
    · intro m
      have hd := single_entry (.leaf (.bytes pb)) (.leaf (.bytes nb)) ⟨_, rfl⟩ ⟨_, rfl⟩ (i.den ints) (fits_small ints i hfi)
      rw [entryClass_defined hpne] at hd
      have hcl : anyCls ph nh = .defined pb nb := by simp [anyCls, hpb, hnb]
      refine ⟨.node .assets [.leaf (.bytes pb), .leaf (.bytes nb), .leaf (.number (i.den ints))], ?_,
        by simpa only [MExp.den, hcl] using hd, RForm.tok _ _ _ hpne⟩
      rw [show (MExp.any ph nh i).depth + 2 + m = (i.depth + 2 + m) + 1 by simp only [MExp.depth]; omega]
      have h1 := hri m
      have e2 : i.depth + 2 + m = (i.depth + 1 + m) + 1 := by omega
      simp only [applyArgs, applyArgsL, reduceF, mapMO, h1, ok_bind, pure_eq_ok]
      rw [e2]
      simp only [reduceF, ok_bind]
  | .add a b, h, ht, hf, k => by
    obtain ⟨ta, hla, hia, hra⟩ := lower_multi s σ ints cls ctx hl hA a (fun x hx => h x (by simp [MExp.pars, hx]))
      (fun x hx => ht x (by simp [MExp.toks, hx])) hf.1 (max a.depth b.depth - a.depth + k)
    obtain ⟨tb, hlb, hib, hrb⟩ := lower_multi s σ ints cls ctx hl hA b (fun x hx => h x (by simp [MExp.pars, hx]))
      (fun x hx => ht x (by simp [MExp.toks, hx])) hf.2.1 (max a.depth b.depth - b.depth + k)
    refine ⟨builtin .add [ta, tb], ?_, Inert_builtin2 _ hia hib, ?_⟩
    · rw [show (MExp.add a b).depth + 2 + k = (a.depth + 2 + (max a.depth b.depth - a.depth + k)) + 1 by
        simp only [MExp.depth]; omega, MExp.toL, lowerE]
      simp only [hla, ok_bind]
      rw [show a.depth + 2 + (max a.depth b.depth - a.depth + k) = b.depth + 2 + (max a.depth b.depth - b.depth + k) by omega]
      simp only [hlb, ok_bind]
    · intro m
      obtain ⟨ra, h1, ⟨ca, va, hva, hama⟩, _⟩ := hra (max a.depth b.depth - a.depth + m)
      obtain ⟨rb, h2, ⟨cb, vb, hvb, hamb⟩, _⟩ := hrb (max a.depth b.depth - b.depth + m)
      rw [show a.depth + 2 + (max a.depth b.depth - a.depth + m) = max a.depth b.depth + 2 + m by omega] at h1
      rw [show b.depth + 2 + (max a.depth b.depth - b.depth + m) = max a.depth b.depth + 2 + m by omega] at h2
      rw [show (MExp.add a b).depth + 2 + m = (max a.depth b.depth + 2 + m) + 1 by simp only [MExp.depth]; omega]
      have hfit : ∀ k', inI128 (amt va k' + amt vb k') = true := fun k' => by
        rw [hama k', hamb k']; exact small_i128 (hf.2.2 k')
      have hok := arithAdd_ok hva hvb hfit
      refine ⟨assetsNode (retainNZ (addRaw va vb)), ?_, ⟨isConstant_assetsNode _, ?_⟩, RForm_add hva hvb hfit⟩
      · simp only [builtin, applyArgs, applyArgsL]
        rw [reduce_binary_const _ .add (by decide) _ _ ra rb h1 h2 ca cb]
        simp only [reduceBuiltin, hok]
      · obtain ⟨c, hc, hamt⟩ := C01_assets_add hva hvb hok
        exact ⟨c, hc, fun k' => by rw [hamt k', hama k', hamb k']; rfl⟩
  | .sub a b, h, ht, hf, k => by
    obtain ⟨ta, hla, hia, hra⟩ := lower_multi s σ ints cls ctx hl hA a (fun x hx => h x (by simp [MExp.pars, hx]))
      (fun x hx => ht x (by simp [MExp.toks, hx])) hf.1 (max a.depth b.depth - a.depth + k)
    obtain ⟨tb, hlb, hib, hrb⟩ := lower_multi s σ ints cls ctx hl hA b (fun x hx => h x (by simp [MExp.pars, hx]))
      (fun x hx => ht x (by simp [MExp.toks, hx])) hf.2.1 (max a.depth b.depth - b.depth + k)
    refine ⟨builtin .sub [ta, tb], ?_, Inert_builtin2 _ hia hib, ?_⟩
    · rw [show (MExp.sub a b).depth + 2 + k = (a.depth + 2 + (max a.depth b.depth - a.depth + k)) + 1 by
        simp only [MExp.depth]; omega, MExp.toL, lowerE]
      simp only [hla, ok_bind]
      rw [show a.depth + 2 + (max a.depth b.depth - a.depth + k) = b.depth + 2 + (max a.depth b.depth - b.depth + k) by omega]
      simp only [hlb, ok_bind]
    · intro m
      obtain ⟨ra, h1, ⟨ca, va, hva, hama⟩, _⟩ := hra (max a.depth b.depth - a.depth + m)
      obtain ⟨rb, h2, ⟨cb, vb, hvb, hamb⟩, _⟩ := hrb (max a.depth b.depth - b.depth + m)
      rw [show a.depth + 2 + (max a.depth b.depth - a.depth + m) = max a.depth b.depth + 2 + m by omega] at h1
      rw [show b.depth + 2 + (max a.depth b.depth - b.depth + m) = max a.depth b.depth + 2 + m by omega] at h2
      rw [show (MExp.sub a b).depth + 2 + m = (max a.depth b.depth + 2 + m) + 1 by simp only [MExp.depth]; omega]
      have hneg : ∀ k', inI128 (- amt vb k') = true := fun k' => by
        rw [hamb k']
        have := hf.2.2.1 k'
        exact small_i128 (by unfold IExp.Small at *; omega)
      have hsub : ∀ k', inI128 (amt va k' - amt vb k') = true := fun k' => by
        rw [hama k', hamb k']; exact small_i128 (hf.2.2.2 k')
      have hnegok := arithNeg_ok hvb hneg
      obtain ⟨nb, hnb, hnamt⟩ := C01_assets_neg hvb hnegok
      have haddok := arithAdd_ok hva hnb (fun k' => by
        rw [hnamt k']; have := hsub k'; rwa [Int.sub_eq_add_neg] at this)
      obtain ⟨cs, rfl⟩ := assetsVal_is_assets hva
      have hok : arithSub (.node .assets cs) rb = .ok (assetsNode (retainNZ (addRaw va nb))) := by
        unfold arithSub
        simp only [hnegok, ok_bind, haddok]
      obtain ⟨c, hc, hamt⟩ := C01_assets_sub hva hvb hok
      refine ⟨_, ?_, ⟨isConstant_assetsNode _, c, hc, fun k' => ?_⟩, RForm_add hva hnb (fun k' => by
        rw [hnamt k']; have := hsub k'; rwa [Int.sub_eq_add_neg] at this)⟩
      · simp only [builtin, applyArgs, applyArgsL]
        rw [reduce_binary_const _ .sub (by decide) _ _ _ rb h1 h2 ca cb]
        simp only [reduceBuiltin, hok]
      · rw [hamt k', hama k', hamb k']; rfl

/-- **C01 on the multi-asset fragment.** -/
theorem C01_multi_asset_fragment (s : Scope) (σ : ArgMap) (ints : String → Int) (cls : String → AssetClass)
    (ctx : Ctx) (hl : ctx.lvl ≠ 0) (hA : AdaBuiltin s) (e : MExp) (hs : ScopeOf s σ ints e.pars)
    (ht : ∀ x ∈ e.toks, TokOf s cls x) (hf : e.Fits ints cls) (k m : Nat) :
    ∃ t r, lowerE s (e.depth + 2 + k) ctx e.toL = .ok t ∧
      reduceF (e.depth + 2 + m) (applyArgs σ t) = .ok r ∧ Denotes r (e.den ints cls) := by
  obtain ⟨t, h1, _, h2⟩ := lower_multi s σ ints cls ctx hl hA e hs ht hf k
  obtain ⟨r, h3, h4, _⟩ := h2 m
  exact ⟨t, r, h1, h3, h4⟩

/-- No re-association, class by class. -/
theorem C01_multi_sub_chain (ints : String → Int) (cls : String → AssetClass) (a b c : MExp) (k : AssetClass) :
    (MExp.sub (MExp.sub a b) c).den ints cls k = (a.den ints cls k - b.den ints cls k) - c.den ints cls k := rfl

/-! ### The hypotheses are satisfiable: a program declaring `asset Tok = 0xab.0xcd;` -/

def maProg : Program :=
  { env := [], parties := [], policies := [],
    assets := [("Tok", .leaf (.hex "ab"), .leaf (.hex "cd"))], types := [], aliases := [], txs := [] }
def maTx : TxDef :=
  { name := "t", params := [("q", .int)], locals := [], inputs := [], references := [], collateral := none,
    outputs := [], mints := [], burns := [], validity := none, signers := none, metadata := none, adhoc := [] }
def maCls : String → AssetClass := fun _ => entryClass (.leaf (.bytes [0xab])) (.leaf (.bytes [0xcd]))

example : AdaBuiltin { prog := maProg, tx := maTx } := by
  constructor
  · simp [resolve, resolveOuter, indexOfOutput, indexOfOutput.go, lastWith, maProg, maTx]
  · simp [maProg]

example : TokOf { prog := maProg, tx := maTx } maCls "Tok" := by
  refine ⟨by decide, by decide, by decide, by decide, by decide, "ab", "cd", [0xab], [0xcd], ?_, ?_, ?_, rfl, by simp⟩
  · simp [resolve, resolveOuter, indexOfOutput, indexOfOutput.go, lastWith, maProg, maTx]
  · simp [hexDecode, hexDecodeChars, hexVal]
  · simp [hexDecode, hexDecodeChars, hexVal]

/-- `Tok(5) - Tok(2) + Ada(7)` denotes 3 of the token's class and 7 lovelace. -/
example : (MExp.add (MExp.sub (MExp.tok "Tok" (.num 5)) (MExp.tok "Tok" (.num 2))) (MExp.ada (.num 7))).den
    (fun _ => 0) maCls (maCls "Tok") = 3 := by
  simp [MExp.den, IExp.den, maCls, entryClass, nameExprOf, constPolicy, constName, fromAsset, fromDefinedAsset, AssetClass.naked]

/-- `AnyAsset(0xab, 0xcd, q)`: the literals are hex, the policy is not empty. -/
example : (MExp.any "ab" "cd" (.par "q")).Fits (fun _ => 7) maCls := by
  refine ⟨by simp [IExp.Fits, IExp.Small], [0xab], [0xcd], ?_, ?_, by simp⟩
  · simp [hexDecode, hexDecodeChars, hexVal]
  · simp [hexDecode, hexDecodeChars, hexVal]

end Tx3.Lang
