import Driver.C15
import Driver.Stages
import Driver.Select

def main (args : List String) : IO UInt32 := do
  match args with
  | ["C15"] => Driver.runJudge Driver.C15.judge; return 0
  | ["C03"] => Driver.runJudge (Driver.Select.judge "C03"); return 0
  | ["C04"] => Driver.runJudge (Driver.Select.judge "C04"); return 0
  | ["C06"] => Driver.runJudge (Driver.Stages.judge "C06"); return 0
  | ["C07"] => Driver.runJudge (Driver.Stages.judge "C07"); return 0
  | _ => IO.eprintln "usage: driver <property>  (cases on stdin, verdicts on stdout)"; return 2
