import Driver.C15

def main (args : List String) : IO UInt32 := do
  match args with
  | ["C15"] => Driver.runJudge Driver.C15.judge; return 0
  | _ => IO.eprintln "usage: driver <property>  (cases on stdin, verdicts on stdout)"; return 2
