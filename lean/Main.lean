import Driver.C15
import Driver.Stages
import Driver.Select
import Driver.Compile
import Driver.Resolve
import Driver.WireJ
import Driver.TiiJ
import Driver.JsonJ
import Driver.FrontJ
import Driver.LangJ
import Driver.C13J

def main (args : List String) : IO UInt32 := do
  match args with
  | ["C15"] => Driver.runJudge Driver.C15.judge; return 0
  | ["C03"] => Driver.runJudge (Driver.Select.judge "C03"); return 0
  | ["C04"] => Driver.runJudge (Driver.Select.judge "C04"); return 0
  | ["C02"] => Driver.runJudge (Driver.Compile.judge "C02"); return 0
  | ["C08"] => Driver.runJudge (Driver.Compile.judge "C08"); return 0
  | ["C09"] => Driver.runJudge (Driver.Compile.judge "C09"); return 0
  | ["C10"] => Driver.runJudge (Driver.Compile.judge "C10"); return 0
  | ["C14"] =>
    Driver.runJudge (fun j =>
      match Driver.fieldD j "probe" with
      | .str "stages" => Driver.Stages.judge "C14" j
      | .str "minutxo" => Driver.Resolve.judgeMinUtxo j
      | .str "resolve" => Driver.Resolve.judgeTotal j
      | _ => Driver.Compile.judge "C14" j)
    return 0
  | ["C11"] => Driver.runJudge Driver.WireJ.judgeC11; return 0
  | ["C01"] =>
    Driver.runJudge (fun j =>
      match Driver.fieldD j "program" with
      | .null => Driver.Compile.judge "C01" j
      | _ => Driver.LangJ.judge j)
    return 0
  | ["C12"] => Driver.runJudge (Driver.FrontJ.judge "C12"); return 0
  | ["C13"] => Driver.runJudge Driver.C13J.judge; return 0
  | ["C19"] => Driver.runJudge (Driver.FrontJ.judge "C19"); return 0
  | ["C16"] => Driver.runJudge Driver.JsonJ.judge; return 0
  | ["C17"] => Driver.runJudge Driver.TiiJ.judge; return 0
  | ["C18"] => Driver.runJudge Driver.WireJ.judgeC18; return 0
  | ["C05"] => Driver.runJudge Driver.Resolve.judgeC05; return 0
  | ["C20"] => Driver.runJudge Driver.Resolve.judgeC20; return 0
  | ["C06"] => Driver.runJudge (Driver.Stages.judge "C06"); return 0
  | ["C07"] => Driver.runJudge (Driver.Stages.judge "C07"); return 0
  | _ => IO.eprintln "usage: driver <property>  (cases on stdin, verdicts on stdout)"; return 2
