import Driver.Util
import Tx3Model.Tii

/-! Judge for C17: what the real `tx3c` wrote against the model and against the property. -/

open Lean Tx3

namespace Driver.TiiJ

def strs (j : Json) : R (List String) := do (← arr j).mapM str

def sameSet (a b : List String) : Bool := a.all (b.contains ·) && b.all (a.contains ·)

def judge (j : Json) : R Verdict := do
  let i ← nat (← field j "i")
  let gen ← str (← field j "gen")
  let decl ← field j "declared"
  let dParties ← strs (← field decl "parties")
  let dEnv ← strs (← field decl "env")
  let dTxs ← (← arr (← field decl "txs")).mapM fun t => do
    pure ((← str (← field t "name")), (← strs (← field t "params")), (← strs (← field t "used")))
  let obs ← field j "obs"
  let key := fnv (fieldD j "src").compress
  let mut corr : List String := []
  let mut spec : List String := []
  let mut tags : List String := [gen]
  let model := Tii.interfaceOf [] dParties dEnv
  -- transaction names are compared exactly (Pay and pay are two transactions), everything else up to case
  let txNames := dTxs.map (·.1)
  let repeatedTx := (txNames.zip (List.range txNames.length)).filterMap fun (n, i) => if (txNames.take i).contains n then some n else none
  let dups := (dTxs.map fun (_, ps, _) => Tii.dupNames [] ps).flatten ++ Tii.dupNames [] dParties ++ Tii.dupNames [] dEnv ++ repeatedTx
  tags := tags ++ ["txs:" ++ toString dTxs.length]
  let err := fieldD obs "error"
  if !(isNull err) then
    -- the compiler refused the program: the model's duplicate check must have fired
    tags := tags ++ ["rejected"]
    if dups.isEmpty then corr := corr ++ ["rejected-without-duplicate"]
    if !((← str err).contains "duplicate definition") then corr := corr ++ ["rejected-for-another-reason"]
    return { i, corr, spec, key, tags, nt := true }
  if !dups.isEmpty then
    -- accepted although two names collide once lower-cased
    spec := spec ++ ["collision-accepted"]
  let tii ← field obs "tii"
  let oParties ← strs (← field tii "parties")
  let oEnv ← strs (← field tii "environment")
  if !(sameSet oParties model.parties) then corr := corr ++ ["parties-keys"]
  if !(sameSet oEnv model.environment) then corr := corr ++ ["environment-keys"]
  let oTxs ← arr (← field obs "txs")
  if oTxs.length != dTxs.length && repeatedTx.isEmpty then spec := spec ++ ["transactions-listed"]
  for t in oTxs do
    let oParams ← strs (← field t "params")
    let tname ← str (← field t "name")
    let some (_, dParams, used) := dTxs.find? (fun d => d.1 == tname)
      | spec := spec ++ ["transaction-not-declared:" ++ tname]
    let envUsed := used.filter (dEnv.contains ·)
    tags := tags ++ [if dEnv.isEmpty then "no-env" else if envUsed.isEmpty then "env-unread" else "env-read"]
    if !(sameSet oParams (Tii.interfaceOf dParams dParties dEnv).params) then corr := corr ++ ["params-keys"]
    let irp := fieldD t "ir_params"
    if isNull irp then spec := spec ++ ["embedded-ir-does-not-decode"]
    else
      let irParams ← strs irp
      let declaredKeys := oParams ++ oParties ++ oEnv
      -- everything the IR requires is declared, under the same spelling
      for p in irParams do
        if !(declaredKeys.contains p) then spec := spec ++ ["required-but-not-declared:" ++ p]
      -- every declared name the body uses is required by the IR under the spelling the file declares
      for u in used do
        if !(irParams.contains (Tii.irName u)) then
          corr := corr ++ ["used-name-not-required:" ++ u]
          spec := spec ++ ["used-but-not-required-by-the-ir:" ++ u]
        if !(declaredKeys.contains (Tii.irName u)) then spec := spec ++ ["used-but-declared-differently:" ++ u]
      if declaredKeys.eraseDups.length != declaredKeys.length then spec := spec ++ ["colliding-keys"]
    -- a client supplying precisely what the file declares resolves the transaction: the server keeps what the IR
    -- requires and nothing stays pending
    let req := fieldD t "request"
    if !(isNull req) then
      match req.getObjVal? "remaining" with
      | .ok (.arr rs) => if !rs.isEmpty then spec := spec ++ ["declared-keys-leave-parameters-pending"]
      | .ok _ => spec := spec ++ ["declared-keys-do-not-apply"]
      | .error _ => spec := spec ++ ["declared-keys-request-refused"]
    match fieldD t "decodes_to_lowered" with
    | .bool true => pure ()
    | .bool false => spec := spec ++ ["embedded-ir-differs-from-lowering"]
    | _ => spec := spec ++ ["embedded-ir-not-compared"]
  return { i, corr := corr.eraseDups, spec := spec.eraseDups, key, tags, nt := true }

end Driver.TiiJ
