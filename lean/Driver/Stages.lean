import Driver.TirJson
import Tx3Model.CompilerOps
import Tx3Model.SpecTir

/-! Judge of the shared L3 probe (C06, C07): staged application, reduction, compiler pass. -/

open Lean Tx3

namespace Driver.Stages

def sameTx (obs : Json) (m : Tx) : R Bool := sameOutcome obs (.ok m)

def namesJson (l : List String) : Json := .arr (l.map Json.str).toArray

/-- Spec-side walk: every unresolved parameter node anywhere in the tree — including the
payload of `Set` and every child of every node, with no knowledge of the traversal tables. -/
partial def unresolved : Expr → List (String × String)
  | .leaf _ => []
  | .node (.param (.expectValue n _)) cs => ("value", n) :: cs.flatMap unresolved
  | .node (.param (.expectInput n _ _)) cs => ("input", n) :: cs.flatMap unresolved
  | .node (.param .expectFees) cs => ("fees", "") :: cs.flatMap unresolved
  | .node _ cs => cs.flatMap unresolved

def parseUnresolved (j : Json) : R (List (String × String)) := do
  (← arr j).mapM fun e => do
    match ← arr e with
    | [k, n] => do return (← str k, ← str n)
    | [k] => do return (← str k, "")
    | _ => throw "bad unresolved"

def envOf (j : Json) : R OpEnv := do
  let c ← field j "cursor"
  return { slot := ← int (← field c "slot"), time := ← int (← field c "time"),
           coinsPerByte := ← int (← field c "coins_per_byte"), mainnet := ← bool (← field c "mainnet"),
           latestOutputs := none }

def judge (prop : String) (j : Json) : R Verdict := do
  let i ← nat (← field j "i")
  let gen ← str (← field j "gen")
  let tx ← parseTx (← field j "tx")
  let args ← parsePairs (← field j "args")
  let inputs ← parsePairs (← field j "inputs")
  let fees ← int (← field j "fees")
  let env ← envOf j
  let obs ← field j "obs"
  let key := fnv ((fieldD j "tx").compress ++ (fieldD j "args").compress ++ toString fees)
  let mut corr : List String := []
  let mut spec : List String := []
  let mut tags : List String := [gen]
  -- reported parameters and queries
  let mParams := lastWins tx.params
  let oParams ← (← arr (← field obs "params")).mapM fun p => do
    match ← arr p with
    | [k, t] => do return (← str k, ← parseTy t)
    | _ => throw "bad param"
  if mParams != oParams then corr := corr ++ ["params"]
  let mQueries := (lastWins (tx.queries.map fun q => (q.name, q))).map (·.1)
  let oQueries ← (← arr (← field obs "queries")).mapM str
  if mQueries != oQueries then corr := corr ++ ["queries"]
  let oConst ← bool (← field obs "is_constant")
  if oConst != tx.isConstant then corr := corr ++ ["is_constant"]
  -- the three substitutions, each on the original template
  if !(← sameTx (← field obs "after_args") (tx.applyArgs args)) then corr := corr ++ ["after_args"]
  if !(← sameTx (← field obs "after_inputs") (tx.applyInputs inputs)) then corr := corr ++ ["after_inputs"]
  if !(← sameTx (← field obs "after_fees") (tx.applyFees fees)) then corr := corr ++ ["after_fees"]
  let mRed := tx.reduce
  if !(← sameOutcome (← field obs "reduced0") mRed) then corr := corr ++ ["reduced0"]
  let mComp := tx.compilerPass (reduceOp env)
  if !(← sameOutcome (← field obs "compiled0") mComp) then corr := corr ++ ["compiled0"]
  let applied := ((tx.applyArgs args).applyFees fees).applyInputs inputs
  if !(← sameTx (← field obs "applied") applied) then corr := corr ++ ["applied"]
  let mFull := applied.reduce
  let oFull := fieldD obs "full"
  if !(← sameOutcome oFull mFull) then corr := corr ++ ["full"]
  match mFull with
  | .ok t =>
    tags := tags ++ ["full-ok"]
    let oc := fieldD obs "full_is_constant"
    if !(isNull oc) then
      if (← bool oc) != t.isConstant then corr := corr ++ ["full_is_constant"]
    if t.isConstant then tags := tags ++ ["closed"]
  | .err e => tags := tags ++ ["full-err:" ++ e]
  | .panic _ => tags := tags ++ ["full-panic"]
  -- spec: observations of the implementation against the property
  let u0 ← parseUnresolved (← field obs "unresolved0")
  let specU0 := (tx.slots.flatMap unresolved).eraseDups
  -- the two independent walkers (Rust over the serde data model, Lean over the tree) agree
  if !(specU0.all (u0.contains ·) && u0.all (specU0.contains ·)) then corr := corr ++ ["unresolved-walk"]
  let allArgs := oParams.all fun p => (lookupS args p.1).isSome
  if prop == "C06" then
    -- every unresolved value parameter is reported
    for (k, n) in u0 do
      if k == "value" && !(oParams.any (·.1 == n)) then spec := spec ++ ["reported_complete:" ++ n]
    -- closure
    if allArgs then
      let ua := fieldD obs "unresolved_applied"
      if !(isNull ua) then
        let ua ← parseUnresolved ua
        if !ua.isEmpty then spec := spec ++ ["closes:after-apply"]
      let uf := fieldD obs "unresolved_full"
      if !(isNull uf) then
        let uf ← parseUnresolved uf
        if !uf.isEmpty then spec := spec ++ ["closes:after-reduce"]
      match oFull.getObjVal? "ok" with
      | .ok _ =>
        let oc := fieldD obs "full_is_constant"
        -- after supplying everything and reducing, only compiler ops may keep it non-constant
        let hasCompiler := (fieldD j "tx").compress.contains "\"c.compute" ||
          (fieldD j "tx").compress.contains "\"c.build"
        if !(isNull oc) && !(← bool oc) && !hasCompiler then spec := spec ++ ["closes:not-constant"]
      | .error _ => pure ()
    else tags := tags ++ ["unconstructible-arg"]
    -- the guard
    for m in ← arr (← field obs "missing") do
      match ← arr m with
      | [n, c] =>
        let n ← str n; let c ← str c
        if c != "err:MissingTxArg:" ++ n then spec := spec ++ ["missing_arg:" ++ c]
      | _ => throw "bad missing"
    -- all arguments but one: exactly that one stays pending (and the model's substitution says the same)
    for m in (fieldD obs "partial").getArr?.toOption.getD #[] do
      match ← arr m with
      | [n, after, un] =>
        let n ← str n
        let part := args.filter (·.1 != n)
        if !(← sameTx after (tx.applyArgs part)) then corr := corr ++ ["after_args_partial"]
        if allArgs && !(isNull un) then
          let u ← parseUnresolved un
          let pendingValues := (u.filter (·.1 == "value")).map (·.2)
          if !(pendingValues.all (· == n)) then spec := spec ++ ["closes:partial-application-leaves-others-pending"]
          if pendingValues.isEmpty then spec := spec ++ ["closes:partial-application-lost-the-missing-one"]
      | _ => throw "bad partial"
  if prop == "C14" then
    -- any stage of the real pipeline that panicked
    for f in ["after_args", "after_inputs", "after_fees", "reduced0", "reduced0_twice", "compiled0",
              "applied", "full", "full_twice"] do
      match (fieldD obs f).getObjVal? "panic" with
      | .ok site => spec := spec ++ ["no-panic:" ++ f ++ ":" ++ (match site with | .str s => s | _ => "")]
      | .error _ => pure ()
    for m in ← arr (← field obs "missing") do
      match ← arr m with
      | [_, c] =>
        let c ← str c
        if c.startsWith "panic:" then spec := spec ++ ["no-panic:resolve_tx:" ++ c]
      | _ => pure ()
  if prop == "C07" then
    -- the hypothesis of the idempotence theorem holds of what is about to be reduced
    let valuesNF := args.all (fun kv => Expr.NF kv.2) && inputs.all (fun kv => Expr.NF kv.2)
    if !(tx.slots.all Expr.WF) then corr := corr ++ ["wf:template"]
    else if !valuesNF then tags := tags ++ ["wf:values-not-in-normal-form"]
    else if !(applied.slots.all Expr.WF) then corr := corr ++ ["wf:applied"]
    else tags := tags ++ ["wf-holds"]
    -- the second hypothesis of the confluence theorem (`C07_reduce_commutes_with_stage`)
    tags := tags ++ [if tx.slots.all Expr.sealedb && applied.slots.all Expr.sealedb then "sealed-holds" else "sealed-fails"]
    let r0 := fieldD obs "reduced0"
    let r0t := fieldD obs "reduced0_twice"
    if !(isNull r0t) then
      match r0.getObjVal? "ok", r0t.getObjVal? "ok" with
      | .ok a, .ok b =>
        let ta ← parseTx a; let tb ← parseTx b
        if (txJson (canonTx ta)).compress != (txJson (canonTx tb)).compress then
          spec := spec ++ ["reduce_idempotent:template"]
      | .ok _, .error _ => spec := spec ++ ["reduce_idempotent:template-second-fails"]
      | _, _ => pure ()
    let ft := fieldD obs "full_twice"
    if !(isNull ft) then
      match oFull.getObjVal? "ok", ft.getObjVal? "ok" with
      | .ok a, .ok b =>
        let ta ← parseTx a; let tb ← parseTx b
        if (txJson (canonTx ta)).compress != (txJson (canonTx tb)).compress then
          spec := spec ++ ["reduce_idempotent:applied"]
      | .ok _, .error _ => spec := spec ++ ["reduce_idempotent:applied-second-fails"]
      | _, _ => pure ()
    let s := fieldD obs "sched"
    if !(isNull s) then
      let d ← nat (← field s "distinct_ok")
      let nok ← nat (← field s "ok")
      let nerr ← nat (← field s "err")
      let panics ← arr (← field s "panics")
      if d > 1 then spec := spec ++ ["schedules_agree"]
      if nok > 0 && nerr > 0 then spec := spec ++ ["success_independent"]
      if !panics.isEmpty then spec := spec ++ ["schedule_panics"]
      if nok > 0 then tags := tags ++ ["sched-ok"]
      if nerr > 0 then tags := tags ++ ["sched-err"]
      if (← nat (← field s "inadmissible")) > 0 then tags := tags ++ ["sched-some-inadmissible"]
  -- does an input query hold an expression that fails to reduce once arguments and fees are in?
  -- (such an error is lost when the input is supplied before the next reduction)
  let af := (tx.applyArgs args).applyFees fees
  let fails (e : Expr) : Bool := match e.reduce with | .ok _ => false | _ => true
  let queryErr := af.queries.any fun q => q.body.any fun e =>
    fails e ||
    -- …or once the compiler ops inside it have been evaluated as well
    (match compilerPass (reduceOp env) e with | .ok e' => fails e' | _ => true)
  if queryErr then tags := tags ++ ["query-body-error"]
  let nt := !(u0.isEmpty)
  let label := match (fieldD j "label") with | .str s => s | _ => ""
  return { i, corr, spec, nt, key, tags, note := label }

end Driver.Stages
