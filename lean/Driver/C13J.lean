import Driver.Util
import Driver.LangJ
import Tx3Model.Analyze

/-! Judge for C13: what the real `analyze` / `lower` / `Workspace::lower` did with a (semantically
mutated) program, against the property (an accepted program lowers; the facade never panics),
against the model of the chaining (`analyzeWith` run on the *observed* name-resolution report and
the *observed* lowering results) and against the model of `lowering.rs` (ok / error class per
transaction, when the generator's tree is available and name resolution is clean). -/

open Lean Tx3 Tx3.Lang

namespace Driver.C13J

def classOf (r : String) : String := ((r.splitOn "|").head!.splitOn ":").head!

def judge (j : Json) : R Verdict := do
  let i ← nat (← field j "i")
  let gen ← str (← field j "gen")
  let input ← str (← field j "input")
  let obs ← field j "obs"
  let key := fnv input
  let muts := ((fieldD j "mutations").getArr?.toOption.getD #[]).toList.filterMap (·.getStr?.toOption)
  let mut corr : List String := []
  let mut spec : List String := []
  let mut tags : List String := [gen] ++ muts.map ("mut:" ++ ·)
  let cls := ((fieldD obs "class_tags").getArr?.toOption.getD #[]).toList.filterMap (·.getStr?.toOption)
  tags := tags ++ cls.map ("class:" ++ ·)
  if !isNull (fieldD obs "abort") then
    return { i, corr, spec := ["no-panic:abort"], nt := true, key, tags := tags ++ ["abort"] }
  if hasTimeout obs then
    -- a text of a growth class (C12's known finding) that does not come back says nothing about C13
    if !cls.isEmpty then return { i, corr, spec := [], nt := false, key, tags := tags ++ ["timeout"] }
    return { i, corr, spec := ["terminates"], nt := true, key, tags := tags ++ ["timeout"] }
  let parse := fieldD obs "parse"
  if isNull (fieldD parse "ok") then
    let t := if isNull (fieldD parse "panic") then "parse-error" else "parse-panic"
    return { i, corr, spec := if t == "parse-panic" then ["no-panic:parse"] else [], nt := false, key, tags := tags ++ [t] }
  let analyze := fieldD obs "analyze"
  if !isNull (fieldD analyze "panic") then
    return { i, corr, spec := ["no-panic:analyze"], nt := true, key, tags := tags ++ ["analyze-panic"] }
  let core ← (← arr (← field analyze "core")).mapM str
  let nl ← (← arr (← field analyze "not_lowerable")).mapM fun x => do return (← str (← field x "tx"), ← str (← field x "reason"))
  let lower ← (← arr (← field obs "lower")).mapM fun x => do
    return (← str (← field x "tx"), ← str (← field x "r"), ← str (← field x "by_name"))
  let facade ← str (← field obs "facade")
  let accepted := core.isEmpty && nl.isEmpty
  tags := tags ++ [if accepted then "accepted" else if core.isEmpty then "rejected:not-lowerable" else "rejected:name-resolution"]
  tags := tags ++ core.map ("diag:" ++ ·)
  -- the property, on the implementation's own output
  if accepted then
    for (_, r, byName) in lower do
      if r != "ok" then spec := spec ++ ["accepted-but-not-lowered:" ++ classOf r ++ ":" ++ ((r.splitOn ":").getD 1 "")]
      else if byName != "ok" then spec := spec ++ ["accepted-but-not-lowered-by-name:" ++ classOf byName]
    if facade != "ok" then spec := spec ++ ["facade:" ++ classOf facade]
  else if facade.startsWith "panic" then spec := spec ++ ["facade-panics"]
  if core.isEmpty then
    for (_, r, _) in lower do
      if r.startsWith "panic" then spec := spec ++ ["lowering-panics"]
      tags := tags ++ ["lower:" ++ ((r.splitOn "|").head!)]
  -- the model of the chaining, on the observed report and the observed lowering results
  let low (x : String × String × String) : Outcome Unit :=
    if x.2.1 == "ok" then .ok () else if x.2.1.startsWith "panic" then .panic x.2.1 else .err x.2.1
  match analyzeWith (core.map Diag.core) (fun x => x.1) low lower with
  | .ok ds =>
    let want := ds.filterMap fun d => match d with | .notLowerable tx _ => some tx | _ => none
    if want != nl.map (·.1) then corr := corr ++ ["analyze:not-lowerable-set"]
  | .err _ => corr := corr ++ ["analyze:model-error"]
  | .panic _ => if core.isEmpty then corr := corr ++ ["analyze:model-panics-impl-returned"]
  -- the model of lowering.rs, on the generator's tree
  let pj := fieldD j "program"
  if !isNull pj && core.isEmpty then
    let prog ← Driver.LangJ.programOf pj
    if prog.txs.length != lower.length then corr := corr ++ ["lowering:tx-count"]
    else
      for (tx, (_, r, _)) in prog.txs.zip lower do
        if !tx.adhoc.isEmpty then tags := tags ++ ["with-directive"]
        let m := match lowerOf prog tx with | .ok _ => "ok" | .err e => "err:" ++ e | .panic e => "panic:" ++ e
        if classOf m != classOf r then corr := corr ++ ["lowering-class:model=" ++ m ++ ":impl=" ++ ((r.splitOn "|").head!)]
        else tags := tags ++ ["lowering-model-agrees:" ++ classOf m]
  return { i, corr, spec, nt := true, key, tags }
where
  hasTimeout (obs : Json) : Bool := !isNull (fieldD obs "timeout")

end Driver.C13J
