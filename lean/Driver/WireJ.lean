import Driver.TirJson
import Tx3Model.Wire
import Tx3Model.WireDec

/-! Judges for C11 (wire round trip, version gate, garbage) and C18 (determinism). -/

open Lean Tx3

namespace Driver.WireJ

partial def hasUnorderedContainer : Expr → Bool
  | .leaf _ => false
  | .node (.utxoSet metas) cs =>
    metas.length > 1 || metas.any (fun m => m.assets.length > 1) || cs.any hasUnorderedContainer
  | .node _ cs => cs.any hasUnorderedContainer

def sortedBytes (b : Bytes) : Bytes := (b.toArray.qsort (· < ·)).toList

def judgeC11 (j : Json) : R Verdict := do
  let i ← nat (← field j "i")
  let gen ← str (← field j "gen")
  let probe ← str (← field j "probe")
  match probe with
  | "roundtrip" =>
    let tx ← parseTx (← field j "tx")
    let obs ← field j "obs"
    let key := fnv (fieldD j "tx").compress
    let mut corr : List String := []
    let mut spec : List String := []
    let mut tags : List String := [gen]
    if !(isNull (fieldD obs "panic")) then
      return { i, corr := ["panic"], spec := ["no-panic:" ++ (fieldD obs "stage").compress], key, tags, nt := true }
    let real ← hex (← field obs "bytes")
    let model := Wire.toBytes tx
    let unordered := tx.slots.any hasUnorderedContainer
    if unordered then
      tags := tags ++ ["unordered-container"]
      if model.length != real.length || sortedBytes model != sortedBytes real then corr := corr ++ ["bytes-up-to-order"]
    else if model != real then corr := corr ++ ["bytes"]
    -- the model reader on the real bytes gives back the tree that was encoded
    tags := tags ++ [if Wire.bytesHyps tx then "wire-theorem-hyps-hold" else "wire-theorem-hyps-fail"]
    if !(tx.slots.all Wire.Shaped) then corr := corr ++ ["shaped"]
    else if !unordered then
      match Wire.fromBytes real with
      | some t' =>
        if (txJson (canonTx t')).compress != (txJson (canonTx tx)).compress then corr := corr ++ ["model-reader:differs"]
        else tags := tags ++ ["model-reader-ok"]
      | none => corr := corr ++ ["model-reader:rejects"]
    let rt ← field obs "roundtrip"
    if !(isNull (fieldD rt "panic")) then spec := spec ++ ["no-panic:from_bytes"]
    else
      if !(← bool (← field rt "ok")) then spec := spec ++ ["decodes-own-encoding"]
      else
        if !(← bool (← field rt "same")) then spec := spec ++ ["roundtrip:structure"]
        if !(← bool (← field rt "params_same")) then spec := spec ++ ["roundtrip:params"]
        if !(← bool (← field rt "queries_same")) then spec := spec ++ ["roundtrip:queries"]
        if !unordered && !(← bool (← field rt "reencode_same")) then spec := spec ++ ["roundtrip:reencode"]
    return { i, corr, spec, key, tags, nt := true }
  | "nest" =>
    -- the real decoder and the model reader (with ciborium's recursion budget) on the same bytes
    let bytes ← hex (← field j "bytes")
    let slot ← str (← field j "slot")
    let w ← nat (← field j "wrapper")
    let d ← nat (← field j "depth")
    let obs ← field j "obs"
    let key := fnv (fieldD j "bytes").compress
    let mut corr : List String := []
    let mut spec : List String := []
    let mut tags : List String := [gen, "slot:" ++ slot]
    if !(isNull (fieldD obs "panic")) || !((fieldD j "panics").getArr?.toOption.getD #[]).isEmpty then
      return { i, corr, spec := ["no-panic:from_bytes:nesting"], key, tags, nt := true }
    let realOk ← bool (← field obs "ok")
    let unbounded := Wire.fromBytesUnbounded bytes
    let model := Wire.fromBytes bytes
    match unbounded with
    | none => corr := corr ++ ["nest:model-reader-rejects-structure"]
    | some t =>
      tags := tags ++ [if Wire.nestTx t ≤ Wire.recursionLimit then "within-budget" else "beyond-budget"]
      if model.isSome != realOk then
        corr := corr ++ [s!"nest-boundary:slot={slot}:wrapper={w}:depth={d}:model-nest={Wire.nestTx t}:impl-ok={realOk}"]
    if !(← bool (← field j "monotone")) then corr := corr ++ ["nest:acceptance-not-downward-closed"]
    return { i, corr, spec, key, tags, nt := true }
  | "version" =>
    let v ← str (← field j "version")
    let o ← str (← field j "obs")
    let m := match Wire.gate (Wire.versionOfString v) with
      | .ok _ => "ok" | .err e => e | .panic _ => "panic"
    let corr := if m != o then ["version-gate:" ++ m ++ "/" ++ o] else []
    let spec := if o.startsWith "panic" then ["no-panic:version"]
      else if v != "v1beta0" && o == "ok" then ["retired-or-unknown-version-accepted"] else []
    return { i, corr, spec, key := "version:" ++ v, tags := [gen], nt := true }
  | "garbage" =>
    let exit := fieldD j "exit"
    let rep := fieldD j "report"
    let mut spec : List String := []
    if isNull exit || exit.compress != "0" then spec := spec ++ ["garbage:decoder-aborted"]
    if !(isNull rep) then
      let ps ← arr (← field rep "panics")
      if !ps.isEmpty then spec := spec ++ ["garbage:panic"]
    else if spec.isEmpty then spec := spec ++ ["garbage:no-report"]
    return { i, corr := [], spec, key := "garbage:" ++ toString i, tags := [gen], nt := true }
  | other => throw s!"bad probe {other}"

def judgeC18 (j : Json) : R Verdict := do
  let i ← nat (← field j "i")
  let gen ← str (← field j "gen")
  let obs ← field j "obs"
  let origin ← str (← field j "origin")
  let txs ← (← arr (← field j "txs")).mapM fun p => do
    match ← arr p with
    | [n, t] => do return (← str n, ← parseTx t)
    | _ => throw "bad tx pair"
  let mut corr : List String := []
  let mut spec : List String := []
  -- the model's encoding is a function of the lowered tree: it must be the one encoding observed
  let model := String.intercalate "|" (txs.map fun (n, t) => n ++ ":" ++ hexEncode (Wire.toBytes t))
  if model != (← str (← field obs "encoding")) then corr := corr ++ ["encoding"]
  if (← nat (← field obs "in_process_distinct")) != 1 then spec := spec ++ ["in-process"]
  let cr ← nat (← field obs "cross_process_runs")
  if cr > 0 then
    if (← nat (← field obs "cross_process_distinct")) != 1 then spec := spec ++ ["cross-process"]
    if !(← bool (← field obs "cross_matches_in_process")) then spec := spec ++ ["cross-process-vs-in-process"]
  if (← nat (← field obs "tii_distinct")) > 1 then spec := spec ++ ["tii-file"]
  -- the same command line with profiles and env files, in fresh processes
  if (← nat (← field obs "tii_profile_distinct")) > 1 then spec := spec ++ ["tii-file-with-profiles"]
  let tags := [gen] ++ (if cr > 0 then ["cross-process"] else []) ++
    (if (← nat (← field obs "tii_runs")) > 0 then ["tii"] else []) ++
    (if (← nat (← field obs "tii_profile_runs")) > 0 then ["tii-with-profiles"] else []) ++
    (if !(isNull (fieldD obs "tii_error")) then ["tii-error"] else [])
  return { i, corr, spec, key := fnv origin, tags, nt := true }

end Driver.WireJ
