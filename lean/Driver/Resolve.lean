import Driver.Util
import Driver.TirJson
import Tx3Model.Resolve
import Tx3Model.Conway
import Tx3Model.CompilerOps

/-! Judge of the resolve probe (C05, C20): the recorded passes are replayed through the model
of the loop; the returned payload is read by the Lean Conway reader. -/

open Lean Tx3

namespace Driver.Resolve

structure Entry where
  feeIn : Int
  eval : Option Eval       -- none: the compile call failed
  err : String := ""

def parseEntry (j : Json) : R Entry := do
  let fi := fieldD j "fee_in"
  let feeIn ← (if isNull fi then pure (-1) else int fi : R Int)
  match j.getObjVal? "payload" with
  | .ok p => do
    return { feeIn, eval := some { payload := ← hex p, hash := ← hex (← field j "hash"), fee := ← int (← field j "fee_out") } }
  | .error _ => do return { feeIn, eval := none, err := ← str (← field j "err") }

/-- The recorded trace as a pass function: the compiler state is the number of passes so far. -/
def tracePass (trace : List Entry) : Pass Nat := fun f i =>
  match trace[i]? with
  | some e =>
    if e.feeIn != f then .err "trace:fee-in-mismatch" else
    (match e.eval with
     | some ev => .ok (ev, i + 1)
     | none => .err ("CompileError:" ++ e.err))
  | none => .err "pass-failed-before-compile"

def bodyFee (payload : Bytes) : Option Int := (Conway.readTx payload).map fun (a, _, _) => a.fee

def judgeC05 (j : Json) : R Verdict := do
  let i ← nat (← field j "i")
  let gen ← str (← field j "gen")
  -- every place of the template that asks for the fee gets the very same fee: the real `apply_fees` against
  -- "replace every fee placeholder by the fee" (the model's `applyFees` is exactly that)
  if (fieldD j "probe").compress == "\"apply-fees\"" then
    let tx ← parseTx (← field j "tx")
    let fee ← int (← field j "fee")
    let obs ← field j "obs"
    let same ← sameOutcome (← field obs "after") (.ok (tx.applyFees fee))
    let spec := if same then [] else ["FeeOK:a-threshold-is-not-computed-with-the-fee"]
    return { i, corr := spec, spec, key := fnv ((fieldD j "tx").compress ++ toString fee), tags := [gen], nt := true }
  -- the estimate: the linear fee of the payload's size plus the margin whenever that is a 64-bit amount, a refusal
  -- otherwise, never a panic and never another number
  if (fieldD j "probe").compress == "\"size-fees\"" then
    let len ← nat (← field j "len")
    let p : FeeParams := { a := ← int (← field j "a"), b := ← int (← field j "b"), margin := ← int (← field j "margin") }
    let obs ← field j "obs"
    let model := p.evalSizeFees len
    let mut spec : List String := []
    let mut corr : List String := []
    if !(isNull (fieldD obs "panic")) then
      spec := ["FeeOK:the-estimate-panics"]; corr := ["panic"]
    else match obs.getObjVal? "ok" with
      | .ok f =>
        let f ← int f
        if f != p.sizeFee len then spec := ["reported-fee-is-not-linear-fee-of-returned-payload"]
        if model != .ok f then corr := ["size-fees:value"]
      | .error _ =>
        if p.sizeFee len < 2^64 then spec := ["FeeOK:a-representable-fee-is-refused"]
        match model with | .err _ => pure () | _ => corr := ["size-fees:model-accepts"]
    return { i, corr, spec, key := fnv ((fieldD j "len").compress ++ (fieldD j "a").compress ++ (fieldD j "b").compress ++ (fieldD j "margin").compress), tags := [gen], nt := true }
  let a ← int (← field j "a")
  let b ← int (← field j "b")
  let margin ← int (← field j "margin")
  let rounds ← nat (← field j "rounds")
  let obs ← field j "obs"
  let trace ← (← arr (← field obs "trace")).mapM parseEntry
  let res ← field obs "result"
  let p : FeeParams := { a, b, margin }
  let key := fnv ((fieldD j "src").compress ++ (fieldD j "store").compress ++ toString a ++ "," ++ toString b ++ "," ++ toString margin ++ (fieldD j "quantity").compress)
  let mut corr : List String := []
  let mut spec : List String := []
  let mut tags : List String := [gen, "passes:" ++ toString trace.length]
  -- every recorded pass satisfies PassOK
  for e in trace do
    match e.eval with
    | some ev =>
      match bodyFee ev.payload with
      | some bf => if bf != e.feeIn then corr := corr ++ ["pass:body-fee-is-not-the-applied-fee"]
      | none => corr := corr ++ ["pass:unreadable-payload"]
      if ev.fee != p.sizeFee ev.payload.length then corr := corr ++ ["pass:reported-fee-is-not-the-linear-fee"]
    | none => pure ()
  if (← nat (← field obs "resets")) != 1 then corr := corr ++ ["reset-count"]
  -- replay the loop
  let model := resolveTx (tracePass trace) 0 rounds 0
  match res.getObjVal? "ok" with
  | .ok r =>
    let payload ← hex (← field r "payload")
    let fee ← int (← field r "fee")
    tags := tags ++ ["ok"]
    match model with
    | .ok ev => if ev.payload != payload || ev.fee != fee then corr := corr ++ ["loop:different-result"]
    | .err e => corr := corr ++ ["loop:model-err:" ++ e]
    | .panic _ => corr := corr ++ ["loop:model-panic"]
    -- the property, on what was returned
    match bodyFee payload with
    | some bf => if bf != fee then spec := spec ++ ["body-fee-differs-from-reported-fee"]
    | none => spec := spec ++ ["payload-unreadable"]
    if fee != p.sizeFee payload.length then spec := spec ++ ["reported-fee-is-not-linear-fee-of-returned-payload"]
  | .error _ =>
    let cls ← str (← field res "class")
    tags := tags ++ [cls]
    match model with
    | .ok _ => corr := corr ++ ["loop:model-ok-impl-" ++ cls]
    | .err e =>
      if e == "pass-failed-before-compile" then
        if cls.startsWith "err:CompileError" || cls.startsWith "panic" then corr := corr ++ ["loop:class:" ++ cls]
      else if "err:" ++ e != cls then corr := corr ++ ["loop:class:" ++ e ++ "/" ++ cls]
    | .panic _ => corr := corr ++ ["loop:model-panic"]
    if cls.startsWith "panic" then spec := spec ++ ["panic"]
  return { i, corr := corr.eraseDups, spec, key, tags, nt := trace.length ≥ 2 }

def judgeC20 (j : Json) : R Verdict := do
  let i ← nat (← field j "i")
  let gen ← str (← field j "gen")
  let obs ← field j "obs"
  let fresh := fieldD obs "fresh"
  let used := fieldD obs "used"
  let hist ← arr (← field j "history")
  let key := fnv ((fieldD j "history").compress ++ (fieldD j "target").compress)
  let mut corr : List String := []
  let mut spec : List String := []
  if fresh.compress != used.compress then spec := spec ++ ["history-dependent"]
  if (fresh.compress.contains "panic") || (used.compress.contains "panic") then spec := spec ++ ["panic"]
  -- the two recorded traces must be the same sequence of passes (the model's loop is a function
  -- of the pass sequence only)
  let tf := (fieldD obs "trace_fresh").compress
  let tu := (fieldD obs "trace_used").compress
  if tf != tu then corr := corr ++ ["traces-differ"]
  let okc := (fresh.getObjVal? "ok").isOk
  return { i, corr, spec, key, tags := [gen, "history:" ++ toString hist.length, if okc then "ok" else "err"],
           nt := hist.length ≥ 1 }

/-- C14: `min_utxo(n)` evaluated against a remembered body of `k` outputs. -/
def judgeMinUtxo (j : Json) : R Verdict := do
  let i ← nat (← field j "i")
  let n ← int (← field j "n")
  let sizes ← (← arr (← field j "sizes")).mapM nat
  let hasBody ← bool (← field j "has_body")
  let cpb ← int (← field j "coins_per_byte")
  let obs ← field j "obs"
  let env : OpEnv := { slot := 0, time := 0, coinsPerByte := cpb, mainnet := false,
                       latestOutputs := if hasBody then some sizes else none }
  let model := reduceOp env .computeMinUtxo [.leaf (.number n)]
  let key := fnv (toString sizes.length ++ ":" ++ toString n)
  let mut corr : List String := []
  let mut spec : List String := []
  match obs.getObjVal? "panic" with
  | .ok site =>
    spec := ["no-panic:min_utxo:" ++ (match site with | .str s => s | _ => "")]
    corr := ["panic"]
  | .error _ =>
    match model, obs.getObjVal? "ok", obs.getObjVal? "err" with
    | .ok (.node .assets [_, _, .leaf (.number v)]), .ok o, _ =>
      if (← int o) != v then corr := corr ++ ["min-utxo-value"]
    | .err e, _, .ok oe => if (← str oe) != e then corr := corr ++ ["min-utxo-error-class:" ++ e]
    | _, _, _ => corr := corr ++ ["min-utxo-outcome"]
  return { i, corr, spec, key, tags := ["min-utxo-op"], nt := true }

/-- C14: a whole resolution never panics. -/
def judgeTotal (j : Json) : R Verdict := do
  let i ← nat (← field j "i")
  let obs ← field j "obs"
  let res ← field obs "result"
  let key := fnv ((fieldD j "src").compress ++ (fieldD j "quantity").compress ++ (fieldD j "tip").compress ++ (fieldD j "store").compress ++ (fieldD j "pparams").compress)
  let mut spec : List String := []
  let cls := match res.getObjVal? "class" with | .ok (.str c) => c | _ => "ok"
  if cls.startsWith "panic" then spec := ["no-panic:resolve_tx:" ++ cls]
  return { i, corr := if spec.isEmpty then [] else ["panic"], spec, key, tags := ["resolve", (cls.takeWhile (· != ':')).toString], nt := true }

end Driver.Resolve
