import Driver.TirJson
import Tx3Model.Conway

/-! Judge of the compile probe (C02, C08, C09, C10, C14). -/

open Lean Tx3

namespace Driver.Compile

partial def pdJson : PData → Json
  | .constr i fs => Json.mkObj [("c", Json.num (i : Int)), ("f", .arr (fs.map pdJson).toArray)]
  | .map kvs => Json.mkObj [("m", .arr (kvs.map fun (k, v) => Json.arr #[pdJson k, pdJson v]).toArray)]
  | .list xs => Json.mkObj [("l", .arr (xs.map pdJson).toArray)]
  | .int v => Json.mkObj [("i", jint v)]
  | .bytes b => Json.mkObj [("b", jhex b)]

def assetsJson (l : List (Bytes × Bytes × Int)) : Json :=
  .arr (l.map fun (p, n, q) => Json.arr #[jhex p, jhex n, jint q]).toArray

def txInsJson (l : List TxIn) : Json := .arr (l.map fun (h, i) => Json.arr #[jhex h, Json.num (i : Int)]).toArray

def optInt : Option Int → Json
  | some v => jint v
  | none => .null

def metaJson : Metadatum → Json
  | .int v => Json.mkObj [("i", jint v)]
  | .text s => Json.mkObj [("t", jhex s)]
  | .bytes b => Json.mkObj [("b", jhex b)]

def atxJson (a : ATx) : Json :=
  Json.mkObj [
    ("inputs", txInsJson a.inputs),
    ("outputs", .arr (a.outputs.map fun o => Json.mkObj [("address", jhex o.address), ("coin", jint o.coin),
        ("assets", assetsJson o.assets),
        ("datum", match o.datum with | some d => pdJson d | none => .null),
        ("script", match o.scriptRef with | some (v, s) => Json.arr #[Json.num (v : Int), jhex s] | none => .null)]).toArray),
    ("fee", jint a.fee), ("ttl", optInt a.ttl), ("start", optInt a.validityStart),
    ("mint", assetsJson a.mint),
    ("withdrawals", .arr (a.withdrawals.map fun (k, v) => Json.arr #[jhex k, jint v]).toArray),
    ("collateral", txInsJson a.collateral),
    ("signers", .arr (a.requiredSigners.map jhex).toArray),
    ("refs", txInsJson a.referenceInputs),
    ("network", optInt a.networkId), ("donation", optInt a.donation), ("certs", Json.arr (a.certs.map fun c => Json.arr #[Json.bool c.credIsScript, jhex c.cred, jhex c.drep]).toArray),
    ("sdh", a.hasScriptDataHash), ("adh", a.hasAuxDataHash),
    ("metadata", .arr (a.metadata.map fun (k, v) => Json.arr #[jint k, metaJson v]).toArray),
    ("redeemers", .arr (a.redeemers.map fun ((t, i), d) =>
        Json.arr #[Json.num (t : Int), Json.num (i : Int), pdJson d]).toArray),
    ("plutus", .arr (a.plutusScripts.map fun (v, ss) =>
        Json.arr #[Json.num (v : Int), .arr (ss.map jhex).toArray]).toArray),
    ("native", Json.num (a.nativeScripts : Int))]

/-! ### Spec: what the constant template denotes (written from the property statements) -/

/-- Value of a datum/redeemer expression as Plutus Data. -/
partial def denoteData : Expr → Option PData
  | .leaf .none => some (.constr 0 [])
  | .leaf (.bytes b) => some (.bytes b)
  | .leaf (.number n) => some (.int n)
  | .leaf (.bool b) => some (.constr (if b then 1 else 0) [])
  | .leaf (.string s) => some (.bytes s.toUTF8.toList)
  | .leaf (.address b) => some (.bytes b)
  | .leaf (.hash b) => some (.bytes b)
  | .node (.struct c) fs => do let ds ← fs.mapM denoteData; some (.constr c ds)
  | .node .list xs => do let ds ← xs.mapM denoteData; some (.list ds)
  | .node .map kvs =>
    let rec go : List Expr → Option (List (PData × PData))
      | k :: v :: rest => do
        let a ← denoteData k; let b ← denoteData v; let r ← go rest
        some ((a, b) :: r)
      | _ => some []
    (go kvs).map .map
  | _ => none


/-- The number a one-number position denotes: a number, or a value of exactly one entry whose amount denotes one
(to any depth; the relation `ScalarOf` of `C02_scalar_shape`). Independent of the model's `exprIntoNumber`. -/
def scalarOf : Expr → Option Int
  | .leaf (.number n) => some n
  | .node .assets [_, _, a] => scalarOf a
  | _ => none

/-- The amount of an entry is read by the same function as a one-number position. -/
def numOf : Expr → Option Int := scalarOf

def bytesOf : Expr → Option Bytes
  | .leaf (.bytes b) => some b
  | .leaf (.string s) => some s.toUTF8.toList
  | _ => none

/-- Exact totals of an asset list: lovelace and per-class quantities, as integers. -/
def assetTotals (cs : List Expr) : Option (Int × List (Bytes × Bytes × Int)) :=
  let rec go : List Expr → Int → List (Bytes × Bytes × Int) → Option (Int × List (Bytes × Bytes × Int))
    | p :: n :: a :: rest, coin, acc => do
      let q ← numOf a
      if p.isNone then go rest (coin + q) acc
      else do
        let pb ← bytesOf p
        let nb ← bytesOf n
        go rest coin (insertAsset pb nb q acc)
    | _, coin, acc => some (coin, acc)
  go cs 0 []

def entriesNegative (cs : List Expr) : Bool × Bool :=
  let rec go : List Expr → Bool × Bool → Bool × Bool
    | p :: _ :: a :: rest, (nl, na) =>
      match numOf a with
      | some q => if p.isNone then go rest (nl || q < 0 || q > u64Max, na) else go rest (nl, na || q < 0)
      | none => go rest (nl, na)
    | _, acc => acc
  go cs (false, false)

def lovelaceEntries : List Expr → List Int
  | p :: _ :: a :: rest => (if p.isNone then (match numOf a with | some q => [q] | none => []) else []) ++ lovelaceEntries rest
  | _ => []

def assetTotalsDroppingNegative (cs : List Expr) : List (Bytes × Bytes × Int) :=
  let rec go : List Expr → List (Bytes × Bytes × Int) → List (Bytes × Bytes × Int)
    | p :: n :: a :: rest, acc =>
      match numOf a, bytesOf p, bytesOf n with
      | some q, some pb, some nb => if !p.isNone && q > 0 then go rest (insertAsset pb nb q acc) else go rest acc
      | _, _, _ => go rest acc
    | _, acc => acc
  go cs []

/-- C08 from the source: one expression as the redeemer of an input, a mint and a withdrawal gives three redeemers
with the same data. -/
def judgeLangRedeemers (j : Json) : R Verdict := do
  let i ← nat (← field j "i")
  let gen ← str (← field j "gen")
  let obs ← field j "obs"
  let key := fnv ((fieldD j "expr").compress ++ (fieldD j "mainnet").compress)
  match obs.getObjVal? "ok" with
  | .error _ =>
    let cls := (fieldD obs "class").getStr?.toOption.getD "?"
    -- the front end or the resolution refuses the program: nothing to compare (a panic is C14's business, still said)
    let spec := if cls.startsWith "panic" then ["redeemer:panic:" ++ cls] else []
    return { i, corr := [], spec, key, tags := [gen, "refused:" ++ (cls.takeWhile (· != ':')).toString], nt := false }
  | .ok ok =>
    let payload ← hex (← field ok "payload")
    match Conway.readTx payload with
    | none => return { i, corr := [], spec := ["payload-unreadable"], key, tags := [gen], nt := true }
    | some (atx, _, _) =>
      let mut spec : List String := []
      let tagsSeen := (atx.redeemers.map (·.1.1)).eraseDups
      if atx.redeemers.length != 3 || !([0, 1, 3].all tagsSeen.contains) then
        spec := spec ++ ["redeemer-count:" ++ toString atx.redeemers.length]
      match atx.redeemers with
      | (_, d) :: rest =>
        if !(rest.all fun r => r.2 == d) then spec := spec ++ ["redeemer-data-differs-between-block-kinds"]
      | [] => pure ()
      return { i, corr := [], spec, key, tags := [gen, "compiled"], nt := true }

def judge (prop : String) (j : Json) : R Verdict := do
  if (fieldD j "probe").compress == "\"lang-redeemers\"" then return ← judgeLangRedeemers j
  let i ← nat (← field j "i")
  let gen ← str (← field j "gen")
  let tx ← parseTx (← field j "tx")
  let mainnet ← bool (← field j "mainnet")
  let cmj ← field j "cost_models"
  let cms : List Nat := match cmj with
    | .bool true => [0, 1, 2]
    | .bool false => []
    | .arr xs => xs.toList.filterMap (·.getNat?.toOption)
    | _ => []
  let obs ← field j "obs"
  let key := fnv ((fieldD j "tx").compress ++ toString mainnet)
  let env : CompileEnv := { mainnet, costModels := cms }
  let mut corr : List String := []
  let mut spec : List String := []
  let mut tags : List String := [gen]
  let model := compileAbs env tx
  -- panics: C14 (and every other property's check treats a panic as a broken tie)
  if !(isNull (fieldD obs "panic")) then
    let site ← str (← field obs "panic")
    -- a panic is never an acceptable way to refuse a quantity (C02) or an integer/record (C09)
    let sp := if prop == "C14" then ["no-panic:" ++ site]
      else if prop == "C02" then ["panic-instead-of-error:" ++ site]
      else if prop == "C09" then ["encoding-panics:" ++ site] else []
    return { i, corr := ["panic"], spec := sp, key, tags := tags ++ ["panic"], nt := true }
  match obs.getObjVal? "err" with
  | .ok e =>
    let oe ← str e
    tags := tags ++ ["err:" ++ oe]
    match model with
    | .err me => if me != oe then corr := corr ++ ["error-class:" ++ me ++ "/" ++ oe]
    | .ok _ => corr := corr ++ ["model-ok-impl-err:" ++ oe]
    | .panic s => corr := corr ++ ["model-panic:" ++ s]
    return { i, corr, spec, key, tags, nt := true }
  | .error _ => pure ()
  let ok ← field obs "ok"
  let payload ← hex (← field ok "payload")
  tags := tags ++ ["ok"]
  match Conway.readTx payload with
  | none =>
    -- a standard reader cannot make sense of the payload
    -- a reader written from the ledger CDDL and the Plutus Data convention cannot read it
    let sp := if prop == "C10" then ["decodes"] else if prop == "C09" then ["plutus-data-unreadable"]
      else if prop == "C08" then ["witness-set-unreadable"] else []
    return { i, corr := ["unreadable-payload"], spec := sp, key, tags, nt := true }
  | some (atx, rep, _body) =>
    -- correspondence: model vs what the payload carries
    match model with
    | .ok m =>
      if (atxJson m).compress != (atxJson atx).compress then
        let fields := ["inputs", "outputs", "fee", "ttl", "start", "mint", "withdrawals", "collateral",
          "signers", "refs", "network", "donation", "certs", "sdh", "adh", "metadata", "redeemers", "plutus", "native"]
        let mj := atxJson m; let aj := atxJson atx
        let diff := fields.filter fun f => (fieldD mj f).compress != (fieldD aj f).compress
        corr := corr ++ (diff.map ("field:" ++ ·))
    | .err e => corr := corr ++ ["model-err-impl-ok:" ++ e]
    | .panic s => corr := corr ++ ["model-panic:" ++ s]
    -- the outputs the template denotes: non-optional ones, optional ones that hold something
    let expectedOutputs := tx.outputs.filter fun o =>
      match o.amount with
      | .node .assets cs =>
        (match assetTotals cs with
         | some (coin, assets) => !o.optional || coin > 0 || assets.any (fun a => a.2.2 > 0)
         | none => true)
      | _ => true
    -- the outputs kept when out-of-range entries wrap / are dropped one by one (known findings)
    let keptUnderWrap := tx.outputs.filter fun o =>
      match o.amount with
      | .node .assets cs =>
        !o.optional || ((lovelaceEntries cs).map asU64).sum > 0 ||
          (assetTotalsDroppingNegative cs).any (fun a => a.2.2 > 0)
      | _ => true
    let nPubAll := (tx.adhoc.filter fun d => adhocName d == "cardano_publish").length
    -- template outputs aligned with the outputs of the transaction (empty when the counts differ:
    -- the count itself is judged under C02)
    let alignedOutputs :=
      if expectedOutputs.length + nPubAll == atx.outputs.length then expectedOutputs
      else if keptUnderWrap.length + nPubAll == atx.outputs.length then keptUnderWrap
      else []
    if prop == "C01" then
      -- what the body spends, reads and pledges is what the template's blocks hold - every reference of every block,
      -- whatever the UTxO behind it holds, and no other (as sets: the ledger's fields are sets)
      let asSet (rs : List UtxoRef) : List TxIn := dedupAdj (sortBy txInLe (rs.map fun r => (r.txid, r.index)))
      let readable (es : List Expr) : Bool := es.all fun e => match exprIntoUtxoRefs e with | .ok _ => true | _ => false
      let ins := tx.inputs.map (·.utxos)
      if readable ins && asSet (ins.flatMap refsOrNothing) != dedupAdj (sortBy txInLe atx.inputs) then
        spec := spec ++ ["denotes:inputs"]
      if readable tx.references && asSet (tx.references.flatMap refsOrNothing) != dedupAdj (sortBy txInLe atx.referenceInputs) then
        spec := spec ++ ["denotes:reference-inputs"]
      let cols := tx.collateral.filter fun e => !e.isNone
      if readable cols && asSet (cols.flatMap refsOrNothing) != dedupAdj (sortBy txInLe atx.collateral) then
        spec := spec ++ ["denotes:collateral"]
    if prop == "C02" then
      -- fee, validity
      if let some f := scalarOf tx.fees then
        if atx.fee != f then spec := spec ++ ["exact:fee"]
      let (since, untl) := match tx.validity with
        | some (a, b) => (a, b)
        | none => (Expr.leaf .none, Expr.leaf .none)
      if let some s := scalarOf since then
        if atx.validityStart != some s then spec := spec ++ ["exact:validity-start"]
      if since.isNone && atx.validityStart.isSome then spec := spec ++ ["exact:validity-start"]
      if let some u := scalarOf untl then
        if atx.ttl != some u then spec := spec ++ ["exact:ttl"]
      if untl.isNone && atx.ttl.isSome then spec := spec ++ ["exact:ttl"]
      -- an amount no ledger field can hold makes compilation fail, in an optional output too: it is never dropped
      for o in tx.outputs do
        if let .node .assets cs := o.amount then
          if let some (_, assets) := assetTotals cs then
            if assets.any (fun a => a.2.2 ≥ 2 ^ 64) then spec := spec ++ ["exact:asset-total-beyond-u64-accepted"]
      -- outputs
      let nPub := (tx.adhoc.filter fun d => adhocName d == "cardano_publish").length
      if expectedOutputs.length + nPub != atx.outputs.length then
        -- an optional output whose lovelace wrapped around is kept although it denotes nothing
        let wrappedOptional := tx.outputs.any fun o =>
          o.optional && (match o.amount with | .node .assets cs => (entriesNegative cs).1 | _ => false)
        -- …or whose negative asset entry was dropped one by one, leaving a positive one (same finding as below)
        let droppedOptional := tx.outputs.any fun o =>
          o.optional && (match o.amount with | .node .assets cs => (entriesNegative cs).2 | _ => false)
        if wrappedOptional && keptUnderWrap.length + nPub == atx.outputs.length then
          spec := spec ++ ["exact:output-lovelace:wrapped"]
          tags := tags ++ ["lovelace-entry-out-of-range"]
        else if droppedOptional && keptUnderWrap.length + nPub == atx.outputs.length then
          spec := spec ++ ["exact:output-assets:negative-dropped"]
          tags := tags ++ ["negative-asset-entry"]
        else spec := spec ++ ["exact:output-count"]
      else
        for (o, a) in expectedOutputs.zip atx.outputs do
          match o.amount with
          | .node .assets cs =>
            match assetTotals cs with
            | some (coin, assets) =>
              let (negL, negA) := entriesNegative cs
              if negL then tags := tags ++ ["lovelace-entry-out-of-range"]
              if negA then tags := tags ++ ["negative-asset-entry"]
              if a.coin != coin then
                -- is the difference explained by the per-entry `as u64` wrap?
                let wrapped := (lovelaceEntries cs).map asU64 |>.sum
                spec := spec ++ [if negL && a.coin == wrapped then "exact:output-lovelace:wrapped"
                                 else "exact:output-lovelace"]
              let expectedAssets := assets.filter fun x => x.2.2 ≠ 0
              if (assetsJson a.assets).compress != (assetsJson expectedAssets).compress then
                -- is it explained by negative entries being dropped one by one?
                let dropped := (assetTotalsDroppingNegative cs).filter fun x => x.2.2 ≠ 0
                spec := spec ++ [if negA && (assetsJson a.assets).compress == (assetsJson dropped).compress
                                 then "exact:output-assets:negative-dropped" else "exact:output-assets"]
            | none => pure ()
          | _ => pure ()
      -- mint − burn per class
      let mintCs := tx.mints.flatMap fun m => match m.amount with | .node .assets cs => cs | _ => []
      let burnCs := tx.burns.flatMap fun m => match m.amount with | .node .assets cs => cs | _ => []
      if let (some (_, ms), some (_, bs)) := (assetTotals mintCs, assetTotals burnCs) then
        let net := bs.foldl (fun acc x => insertAsset x.1 x.2.1 (-x.2.2) acc) ms
        let expected := net.filter fun x => x.2.2 ≠ 0
        if (assetsJson atx.mint).compress != (assetsJson expected).compress then spec := spec ++ ["exact:mint"]
      -- a mint or burn entry written with quantity zero is a value its field cannot hold: compilation fails, the
      -- entry is never dropped (a mint and a burn that cancel are another matter)
      let zeroEntry : List Expr → Bool := fun cs =>
        let rec go : List Expr → Bool
          | _ :: _ :: a :: rest => (numOf a == some 0) || go rest
          | _ => false
        go cs
      if zeroEntry mintCs || zeroEntry burnCs then spec := spec ++ ["exact:zero-mint-entry-accepted"]
      -- ledger ranges of what was emitted
      if !(inU64 atx.fee) then spec := spec ++ ["range:fee"]
      if atx.outputs.any fun o => !(inU64 o.coin) || o.assets.any (fun x => x.2.2 < 1 || x.2.2 > u64Max) then
        spec := spec ++ ["range:output"]
      if atx.mint.any fun x => x.2.2 = 0 || !(inI64 x.2.2) then spec := spec ++ ["range:mint"]
      -- withdrawals, donation, metadata
      let wds := tx.adhoc.filter fun d => adhocName d == "withdrawal"
      for d in wds do
        match (adhocGet d "amount").bind numOf with
        | some n => if !(atx.withdrawals.any fun w => w.2 = n) then spec := spec ++ ["exact:withdrawal"]
        | none => pure ()
      if let some n := ((tx.adhoc.find? fun d => adhocName d == "treasury_donation").bind (adhocGet · "coin")).bind numOf then
        if atx.donation != some n then spec := spec ++ ["exact:donation"]
      for m in tx.metadata do
        match numOf m.key, m.value with
        | some k, .leaf (.number v) =>
          -- the last entry for a label wins; only check labels that occur once
          if (tx.metadata.filter fun m' => numOf m'.key == some k).length == 1 then
            if !(atx.metadata.any fun kv => kv.1 = k && kv.2 == .int v) then spec := spec ++ ["exact:metadata"]
        | _, _ => pure ()
      -- a position that holds one number was given something that denotes none (a value of no class, of several):
      -- there is no quantity to be exact about, so there is no transaction
      let scalars : List (String × Expr) :=
        [("fee", tx.fees)] ++ (if since.isNone then [] else [("validity-start", since)]) ++
        (if untl.isNone then [] else [("ttl", untl)]) ++
        (wds.filterMap fun d => (adhocGet d "amount").map fun e => ("withdrawal", e)) ++
        ((tx.adhoc.filter fun d => adhocName d == "treasury_donation").filterMap fun d =>
          (adhocGet d "coin").map fun e => ("donation", e)) ++
        (tx.metadata.map fun m => ("metadata-label", m.key))
      for (what, e) in scalars do
        if (scalarOf e).isNone then spec := spec ++ ["exact:" ++ what ++ ":not-a-number-accepted"]
    if prop == "C09" || prop == "C02" then
      if alignedOutputs.length ≤ atx.outputs.length then
        for (o, a) in alignedOutputs.zip atx.outputs do
          if !o.datum.isNone then
            match denoteData o.datum, a.datum with
            | some d, some d' => if !(d == d') then spec := spec ++ ["datum-value"]
            | some _, none => spec := spec ++ ["datum-missing"]
            | none, _ => pure ()
          else if a.datum.isSome then spec := spec ++ ["datum-unexpected"]
      tags := tags ++ (if tx.outputs.any (fun o => !o.datum.isNone) then ["has-datum"] else [])
    if prop == "C08" || prop == "C09" then
      -- expected redeemer map, built from the source by sorting items as the ledger does
      let bodyInputs := dedupAdj (sortBy txInLe atx.inputs)
      let policies := dedupAdj (atx.mint.map (·.1))
      let accounts := atx.withdrawals.map (·.1)
      let mut expected : List ((Nat × Nat) × PData) := []
      let mut computable := true
      for inp in tx.inputs do
        if !inp.redeemer.isNone then
          match exprIntoUtxoRefs inp.utxos, denoteData inp.redeemer with
          | .ok refs, some d =>
            for r in refs do
              match indexOf? (r.txid, r.index) bodyInputs with
              | some ix => expected := expected ++ [((0, ix), d)]
              | none => spec := spec ++ ["redeemer:input-not-in-body"]
          | _, _ => computable := false
      for m in tx.mints ++ tx.burns do
        if !m.redeemer.isNone then
          match m.amount, denoteData m.redeemer with
          | .node .assets cs, some d =>
            let rec pols : List Expr → List Bytes
              | p :: _ :: _ :: rest => (match bytesOf p with | some b => [b] | none => []) ++ pols rest
              | _ => []
            for p in (pols cs).eraseDups do
              match indexOf? p policies with
              | some ix => expected := expected ++ [((1, ix), d)]
              | none => spec := spec ++ ["redeemer:policy-not-in-mint"]
          | _, _ => computable := false
      for d in tx.adhoc.filter fun d => adhocName d == "withdrawal" do
        match adhocGet d "redeemer" with
        | some r =>
          if !r.isNone then
            match adhocGet d "credential", denoteData r with
            | some c, some dd =>
              match exprIntoRewardAccount env c with
              | .ok acct =>
                match indexOf? acct accounts with
                | some ix => expected := expected ++ [((3, ix), dd)]
                | none => spec := spec ++ ["redeemer:account-not-in-withdrawals"]
              | _ => computable := false
            | _, _ => computable := false
        | none => pure ()
      if computable then
        -- every expected item present with its data; nothing else
        for (k, d) in expected do
          match atx.redeemers.find? (·.1 == k) with
          | some (_, d') => if !(d == d') then spec := spec ++ ["redeemer:wrong-data"]
          | none => spec := spec ++ ["redeemer:missing"]
        for (k, _) in atx.redeemers do
          if !(expected.any (·.1 == k)) then spec := spec ++ ["redeemer:unexpected"]
        if ((atx.redeemers.map (·.1)).eraseDups).length != atx.redeemers.length then
          spec := spec ++ ["redeemer:duplicate-key"]
      if !expected.isEmpty then tags := tags ++ ["has-redeemers"]
    if prop == "C10" then
      if rep.dupInputs then spec := spec ++ ["wf:duplicate-input"]
      if rep.dupCollateral then spec := spec ++ ["wf:duplicate-collateral"]
      if rep.dupReferenceInputs then spec := spec ++ ["wf:duplicate-reference-input"]
      if rep.dupSigners then spec := spec ++ ["wf:duplicate-signer"]
      if rep.emptyMintPolicy then spec := spec ++ ["wf:empty-mint-policy"]
      if rep.zeroMintQuantity then spec := spec ++ ["wf:zero-mint"]
      if rep.zeroOutputAsset then spec := spec ++ ["wf:zero-output-asset"]
      if rep.emptyOptionalField then spec := spec ++ ["wf:empty-optional-field"]
      if rep.dupWitnessMember then spec := spec ++ ["wf:duplicate-witness-set-member"]
      if rep.emptyWitnessField then spec := spec ++ ["wf:empty-witness-set-field"]
      -- what `compile` returns is unsigned: a key witness in it was written by nobody who holds a key
      if rep.keyWitnesses != 0 then spec := spec ++ ["wf:key-witness-in-an-unsigned-transaction"]
      if rep.badRewardAccount then spec := spec ++ ["wf:reward-account"]
      if atx.networkId != some (if mainnet then 1 else 0) then spec := spec ++ ["network-id"]
      if atx.hasScriptDataHash != !atx.redeemers.isEmpty then spec := spec ++ ["script-data-hash-presence"]
      if atx.hasAuxDataHash != !atx.metadata.isEmpty then spec := spec ++ ["aux-data-hash-presence"]
      if !(← bool (← field ok "pallas_decodes")) then spec := spec ++ ["decodes"]
      if !(← bool (← field j "same_again")) then spec := spec ++ ["reproducible"]
      -- a compiler that has compiled something else before, and was not reset, answers with the same bytes
      if !(← bool (← field j "same_used")) then spec := spec ++ ["reproducible-on-a-used-compiler"]
      let hm := fieldD ok "hash_matches"
      if !(isNull hm) then
        if !(← bool hm) then spec := spec ++ ["hash-of-body"]
      let am := fieldD ok "aux_hash_matches"
      if !(isNull am) then
        if !(← bool am) then spec := spec ++ ["aux-data-hash-value"]
      -- duplicate names / blocks sharing a UTxO make the *template* ask for the same input twice
      let allRefs := tx.inputs.flatMap fun inp => refsOrNothing inp.utxos
      if hasDupRefs allRefs then tags := tags ++ ["template-repeats-input"]
      let sg := match tx.signers with | some s => s | none => []
      if (sg.map fun e => (exprJson e).compress).eraseDups.length != sg.length then
        tags := tags ++ ["template-repeats-signer"]
      let crefs := (tx.collateral.filter fun e => !e.isNone).flatMap refsOrNothing
      if hasDupRefs crefs then tags := tags ++ ["template-repeats-collateral"]
    return { i, corr, spec := spec.eraseDups, key, tags := tags.eraseDups, nt := true }
where
  hasDupRefs (l : List UtxoRef) : Bool := l.eraseDups.length != l.length

end Driver.Compile
