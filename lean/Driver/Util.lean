import Lean.Data.Json
import Tx3Model.Basic

/-! Line-protocol helpers for the driver (not part of the model). -/

open Lean

namespace Driver

abbrev R := Except String

def field (j : Json) (k : String) : R Json := j.getObjVal? k
def fieldD (j : Json) (k : String) : Json := j.getObjValD k
def str (j : Json) : R String := j.getStr?
def arr (j : Json) : R (List Json) := do return (← j.getArr?).toList
def bool (j : Json) : R Bool := j.getBool?

/-- Big integers cross the protocol as decimal strings (plain numbers are accepted too). -/
def int (j : Json) : R Int :=
  match j with
  | .str s => match s.toInt? with
    | some i => pure i
    | none => throw s!"bad int {s}"
  | other => other.getInt?

def nat (j : Json) : R Nat := do
  let i ← int j
  if i < 0 then throw "negative nat" else pure i.toNat

def hex (j : Json) : R Tx3.Bytes := do
  let s ← str j
  match Tx3.hexDecode s with
  | some b => pure b
  | none => throw s!"bad hex {s}"

def optHex (j : Json) : R (Option Tx3.Bytes) :=
  match j with
  | .null => pure none
  | other => do return some (← hex other)

def isNull (j : Json) : Bool := match j with | .null => true | _ => false

def jint (i : Int) : Json := .str (toString i)
def jhex (b : Tx3.Bytes) : Json := .str (Tx3.hexEncode b)
def jstrs (l : List String) : Json := .arr (l.map Json.str).toArray

/-- One verdict per case. `corr`: fields on which model and implementation disagree;
`spec`: clauses of the property the implementation's own output violates (these are
violations with the case as replay); `nt`: non-trivial by the property's rule; `key`:
canonical form used to count distinct cases; `tags`: generator/branch tags for the
distribution report. -/
structure Verdict where
  i : Nat := 0
  corr : List String := []
  spec : List String := []
  nt : Bool := false
  key : String := ""
  tags : List String := []
  note : String := ""

def Verdict.toJson (v : Verdict) : Json :=
  Json.mkObj [("i", v.i), ("corr", jstrs v.corr), ("spec", jstrs v.spec), ("nt", v.nt),
    ("key", v.key), ("tags", jstrs v.tags), ("note", v.note)]

/-- FNV-1a over the characters of a string: short stable keys for distinct-counting. -/
def fnv (s : String) : String :=
  let h := s.foldl (fun (h : UInt64) c => (h ^^^ c.toNat.toUInt64) * 1099511628211) 14695981039346656037
  toString h.toNat

partial def lineLoop (h : IO.FS.Stream) (f : String → String) : IO Unit := do
  let line ← h.getLine
  if line.isEmpty then return ()
  let t := line.trimAscii.toString
  if !t.isEmpty then IO.println (f t)
  lineLoop h f

def runJudge (judge : Json → R Verdict) : IO Unit := do
  let stdin ← IO.getStdin
  lineLoop stdin fun line =>
    match Json.parse line with
    | .error e => (Json.mkObj [("error", Json.str s!"parse: {e}")]).compress
    | .ok j =>
      match judge j with
      | .ok v => v.toJson.compress
      | .error e =>
        let i := (fieldD j "i")
        (Json.mkObj [("i", i), ("error", Json.str e)]).compress

end Driver
