import Driver.Util
import Driver.C15
import Tx3Model.Reduce

/-! TIR ⇄ line protocol (the uniform tree of `harness/src/tirjson.rs`). -/

open Lean Tx3

namespace Driver

def parseTy (j : Json) : R Ty := do
  let s ← str j
  match s with
  | "undefined" => pure .undefined | "unit" => pure .unit | "int" => pure .int
  | "bool" => pure .bool | "bytes" => pure .bytes | "address" => pure .address
  | "utxo" => pure .utxo | "utxoRef" => pure .utxoRef | "anyAsset" => pure .anyAsset
  | "list" => pure .list | "map" => pure .map
  | other =>
    if other.startsWith "custom:" then pure (.custom (other.drop 7).toString) else throw s!"bad type {other}"

def tyJson : Ty → Json
  | .undefined => "undefined" | .unit => "unit" | .int => "int" | .bool => "bool"
  | .bytes => "bytes" | .address => "address" | .utxo => "utxo" | .utxoRef => "utxoRef"
  | .anyAsset => "anyAsset" | .list => "list" | .map => "map"
  | .custom s => Json.str ("custom:" ++ s)

def parseRef (j : Json) : R UtxoRef := do
  match ← arr j with
  | [t, i] => do return { txid := ← hex t, index := ← nat i }
  | _ => throw "bad ref"

def refJson (r : UtxoRef) : Json := .arr #[jhex r.txid, Json.num (r.index : Int)]

def parseMeta (j : Json) : R UtxoMeta := do
  return {
    ref := ← parseRef (← field j "ref")
    address := ← hex (← field j "address")
    assets := ← C15.parseDump (← field j "assets")
    hasDatum := ← bool (← field j "hasDatum")
    hasScript := ← bool (← field j "hasScript") }

def metaJson (m : UtxoMeta) : Json :=
  Json.mkObj [("ref", refJson m.ref), ("address", jhex m.address), ("assets", C15.dump m.assets),
    ("hasDatum", m.hasDatum), ("hasScript", m.hasScript)]

def parseKind (k : String) (j : Json) : R Kind := do
  match k with
  | "list" => pure .list | "map" => pure .map | "tuple" => pure .tuple | "assets" => pure .assets
  | "struct" => do return .struct (← nat (← field j "ctor"))
  | "set" => pure (.param .set)
  | "expectValue" => do
    return .param (.expectValue (← str (← field j "name")) (← parseTy (← field j "ty")))
  | "expectInput" => do
    return .param (.expectInput (← str (← field j "name")) (← bool (← field j "many"))
      (← bool (← field j "collateral")))
  | "expectFees" => pure (.param .expectFees)
  | "b.noop" => pure (.builtin .noop) | "b.add" => pure (.builtin .add)
  | "b.sub" => pure (.builtin .sub) | "b.concat" => pure (.builtin .concat)
  | "b.negate" => pure (.builtin .negate) | "b.property" => pure (.builtin .property)
  | "c.buildScriptAddress" => pure (.compiler .buildScriptAddress)
  | "c.computeMinUtxo" => pure (.compiler .computeMinUtxo)
  | "c.computeTipSlot" => pure (.compiler .computeTipSlot)
  | "c.computeSlotToTime" => pure (.compiler .computeSlotToTime)
  | "c.computeTimeToSlot" => pure (.compiler .computeTimeToSlot)
  | "k.noop" => pure (.coerce .noop) | "k.intoAssets" => pure (.coerce .intoAssets)
  | "k.intoDatum" => pure (.coerce .intoDatum) | "k.intoScript" => pure (.coerce .intoScript)
  | "adhoc" => do
    let keys ← (← arr (← field j "keys")).mapM str
    return .adhoc (← str (← field j "name")) keys
  | "utxoSet" => do
    let metas ← (← arr (← field j "metas")).mapM parseMeta
    return .utxoSet metas
  | other => throw s!"bad kind {other}"

partial def parseExpr (j : Json) : R Expr := do
  match j.getObjVal? "l" with
  | .ok l => do
    let tag ← str l
    match tag with
    | "none" => pure (.leaf .none)
    | "bytes" => do return .leaf (.bytes (← hex (← field j "v")))
    | "number" => do return .leaf (.number (← int (← field j "v")))
    | "bool" => do return .leaf (.bool (← bool (← field j "v")))
    | "string" => do return .leaf (.string (← str (← field j "v")))
    | "address" => do return .leaf (.address (← hex (← field j "v")))
    | "hash" => do return .leaf (.hash (← hex (← field j "v")))
    | "refs" => do return .leaf (.utxoRefs (← (← arr (← field j "v")).mapM parseRef))
    | other => throw s!"bad leaf {other}"
  | .error _ => do
    let k ← str (← field j "k")
    let kind ← parseKind k j
    let cs ← (← arr (← field j "c")).mapM parseExpr
    pure (.node kind cs)

def kindJson : Kind → List (String × Json)
  | .list => [("k", "list")] | .map => [("k", "map")] | .tuple => [("k", "tuple")]
  | .assets => [("k", "assets")]
  | .struct c => [("k", "struct"), ("ctor", Json.num (c : Int))]
  | .param .set => [("k", "set")]
  | .param (.expectValue n t) => [("k", "expectValue"), ("name", n), ("ty", tyJson t)]
  | .param (.expectInput n m c) => [("k", "expectInput"), ("name", n), ("many", m), ("collateral", c)]
  | .param .expectFees => [("k", "expectFees")]
  | .builtin .noop => [("k", "b.noop")] | .builtin .add => [("k", "b.add")]
  | .builtin .sub => [("k", "b.sub")] | .builtin .concat => [("k", "b.concat")]
  | .builtin .negate => [("k", "b.negate")] | .builtin .property => [("k", "b.property")]
  | .compiler .buildScriptAddress => [("k", "c.buildScriptAddress")]
  | .compiler .computeMinUtxo => [("k", "c.computeMinUtxo")]
  | .compiler .computeTipSlot => [("k", "c.computeTipSlot")]
  | .compiler .computeSlotToTime => [("k", "c.computeSlotToTime")]
  | .compiler .computeTimeToSlot => [("k", "c.computeTimeToSlot")]
  | .coerce .noop => [("k", "k.noop")] | .coerce .intoAssets => [("k", "k.intoAssets")]
  | .coerce .intoDatum => [("k", "k.intoDatum")] | .coerce .intoScript => [("k", "k.intoScript")]
  | .adhoc n keys => [("k", "adhoc"), ("name", n), ("keys", .arr (keys.map Json.str).toArray)]
  | .utxoSet metas => [("k", "utxoSet"), ("metas", .arr (metas.map metaJson).toArray)]

partial def exprJson : Expr → Json
  | .leaf .none => Json.mkObj [("l", "none")]
  | .leaf (.bytes b) => Json.mkObj [("l", "bytes"), ("v", jhex b)]
  | .leaf (.number n) => Json.mkObj [("l", "number"), ("v", jint n)]
  | .leaf (.bool b) => Json.mkObj [("l", "bool"), ("v", b)]
  | .leaf (.string s) => Json.mkObj [("l", "string"), ("v", s)]
  | .leaf (.address b) => Json.mkObj [("l", "address"), ("v", jhex b)]
  | .leaf (.hash b) => Json.mkObj [("l", "hash"), ("v", jhex b)]
  | .leaf (.utxoRefs rs) => Json.mkObj [("l", "refs"), ("v", .arr (rs.map refJson).toArray)]
  | .node k cs => Json.mkObj (kindJson k ++ [("c", .arr (cs.map exprJson).toArray)])

/-- Canonical form: asset lists stably sorted by (policy, name) key — their order comes out of
a `HashMap` on the Rust side. -/
partial def canonExpr : Expr → Expr
  | .leaf l => .leaf l
  | .node .assets cs =>
    let cs := cs.map canonExpr
    let rec triples : List Expr → List (List Expr)
      | a :: b :: c :: rest => [a, b, c] :: triples rest
      | [] => []
      | rest => [rest]
    let ts := triples cs
    let key (t : List Expr) : String :=
      match t with
      | p :: n :: _ => (exprJson p).compress ++ "|" ++ (exprJson n).compress
      | _ => ""
    let sorted := sortBy (fun a b => decide (key a ≤ key b)) ts
    .node .assets sorted.flatten
  | .node k cs => .node k (cs.map canonExpr)

def parseTx (j : Json) : R Tx := do
  let exprs (k : String) : R (List Expr) := do (← arr (← field j k)).mapM parseExpr
  let inputs ← (← arr (← field j "inputs")).mapM fun i => do
    return ({ name := ← str (← field i "name"), utxos := ← parseExpr (← field i "utxos"),
              redeemer := ← parseExpr (← field i "redeemer") } : Input)
  let outputs ← (← arr (← field j "outputs")).mapM fun o => do
    return ({ address := ← parseExpr (← field o "address"), datum := ← parseExpr (← field o "datum"),
              amount := ← parseExpr (← field o "amount"), optional := ← bool (← field o "optional") } : Output)
  let mint (m : Json) : R Mint := do
    return { amount := ← parseExpr (← field m "amount"), redeemer := ← parseExpr (← field m "redeemer") }
  let validity ← (do
    let v ← field j "validity"
    if isNull v then pure Option.none else
      match ← arr v with
      | [a, b] => do return some (← parseExpr a, ← parseExpr b)
      | _ => throw "bad validity" : R (Option (Expr × Expr)))
  let signers ← (do
    let v ← field j "signers"
    if isNull v then pure Option.none else do return some (← (← arr v).mapM parseExpr)
    : R (Option (List Expr)))
  let metadata ← (← arr (← field j "metadata")).mapM fun m => do
    return ({ key := ← parseExpr (← field m "key"), value := ← parseExpr (← field m "value") } : Metadata)
  return {
    fees := ← parseExpr (← field j "fees")
    references := ← exprs "references"
    inputs, outputs, validity
    mints := ← (← arr (← field j "mints")).mapM mint
    burns := ← (← arr (← field j "burns")).mapM mint
    adhoc := ← exprs "adhoc"
    collateral := ← exprs "collateral"
    signers, metadata }

def txJson (t : Tx) : Json :=
  let mint (m : Mint) := Json.mkObj [("amount", exprJson m.amount), ("redeemer", exprJson m.redeemer)]
  Json.mkObj [
    ("fees", exprJson t.fees),
    ("references", .arr (t.references.map exprJson).toArray),
    ("inputs", .arr (t.inputs.map fun i => Json.mkObj [("name", i.name), ("utxos", exprJson i.utxos),
        ("redeemer", exprJson i.redeemer)]).toArray),
    ("outputs", .arr (t.outputs.map fun o => Json.mkObj [("address", exprJson o.address),
        ("datum", exprJson o.datum), ("amount", exprJson o.amount), ("optional", o.optional)]).toArray),
    ("validity", match t.validity with
      | some (a, b) => .arr #[exprJson a, exprJson b] | Option.none => .null),
    ("mints", .arr (t.mints.map mint).toArray),
    ("burns", .arr (t.burns.map mint).toArray),
    ("adhoc", .arr (t.adhoc.map exprJson).toArray),
    ("collateral", .arr (t.collateral.map exprJson).toArray),
    ("signers", match t.signers with
      | some s => .arr (s.map exprJson).toArray | Option.none => .null),
    ("metadata", .arr (t.metadata.map fun m => Json.mkObj [("key", exprJson m.key),
        ("value", exprJson m.value)]).toArray)]

def canonTx (t : Tx) : Tx := t.map canonExpr

/-- Same outcome? `ok` payloads are compared after canonicalisation; errors by class;
panics only as "a panic" (the site is reported, not compared). -/
def sameOutcome (obs : Json) (m : Outcome Tx) : R Bool := do
  match m with
  | .ok t =>
    match obs.getObjVal? "ok" with
    | .ok o => do
      let ot ← parseTx o
      pure ((txJson (canonTx ot)).compress == (txJson (canonTx t)).compress)
    | .error _ => pure false
  | .err e =>
    match obs.getObjVal? "err" with
    | .ok o => do pure ((← str o) == e)
    | .error _ => pure false
  | .panic _ => pure (obs.getObjVal? "panic").isOk

def parsePairs (j : Json) : R (List (String × Expr)) := do
  (← arr j).mapM fun p => do
    match ← arr p with
    | [k, v] => do return (← str k, ← parseExpr v)
    | _ => throw "bad pair"

end Driver
