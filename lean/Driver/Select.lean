import Driver.Util
import Tx3Model.Select
import Tx3Model.SpecTir

/-! Judge for C03 / C04: input selection observed on the real resolver. -/

open Lean Tx3

namespace Driver.Select

def classOf (k : String) : AssetClass :=
  match k with
  | "L" => .naked
  | "X" => .defined (List.replicate 28 0x11) "X".toUTF8.toList
  | "Y" => .defined (List.replicate 28 0x22) "Y".toUTF8.toList
  | _ => .defined (List.replicate 28 0x33) []

def addrOf (tag : String) : Bytes :=
  let b : UInt8 := match tag with | "A" => 0xa1 | "B" => 0xb2 | "C" => 0xc3 | _ => 0xee
  0x60 :: List.replicate 28 b

def parseAmounts (j : Json) : R Assets := do
  (← arr j).mapM fun e => do
    match ← arr e with
    | [k, n] => do return (classOf (← str k), ← int n)
    | _ => throw "bad amount"

def refOf (t i : Nat) : UtxoRef := { txid := List.replicate 32 (UInt8.ofNat t), index := i }

def parseSmallRef (j : Json) : R UtxoRef := do
  match ← arr j with
  | [t, i] => do return refOf (← nat t) (← nat i)
  | _ => throw "bad ref"

def parseHexRef (j : Json) : R UtxoRef := do
  match ← arr j with
  | [t, i] => do return { txid := ← hex t, index := ← nat i }
  | _ => throw "bad ref"

def parseU (j : Json) : R SUtxo := do
  return { ref := ← parseSmallRef (← field j "r"), address := addrOf (← str (← field j "a")),
           assets := ← parseAmounts (← field j "v") }

def parseQ (j : Json) : R (String × CQuery) := do
  let a := fieldD j "a"
  let address ← (if isNull a then pure none else do return some (addrOf (← str a)) : R (Option Bytes))
  let m := fieldD j "min"
  -- `CanonicalAssets::from(Vec<AssetExpr>)` adds entry by entry and drops zeros
  let minAmount ← (if isNull m then pure none else do
    let es ← parseAmounts m
    return some (es.foldl (fun acc kv => Assets.add acc [(kv.1, kv.2)]) []) : R (Option Assets))
  let refs ← (← arr (← field j "refs")).mapM parseSmallRef
  return (← str (← field j "name"),
    { address, minAmount, refs := refs.eraseDups, many := ← bool (← field j "many"),
      collateral := ← bool (← field j "collateral") })

/-! ### Spec (written from the property, not from the code) -/

def holdsEvery (q : CQuery) (u : SUtxo) : Bool :=
  (targetOf q).all fun kv =>
    match kv.1 with
    | .defined _ _ => if kv.2 > 0 then decide (Assets.amt u.assets kv.1 > 0) else true
    | _ => true

/-- Candidates of the property statement. -/
def candidates (st : Store) (q : CQuery) (taken : List UtxoRef) : List SUtxo :=
  st.filter fun u =>
    (match q.address with | some a => u.address = a | none => true) &&
    (q.refs.isEmpty || q.refs.contains u.ref) &&
    (if q.address.isNone && q.refs.isEmpty then holdsEvery q u else true) &&
    !(taken.contains u.ref) &&
    (if q.collateral then Assets.isOnlyNaked u.assets else true)

def sumAmt (l : List SUtxo) (c : AssetClass) : Int := (l.map fun u => Assets.amt u.assets c).sum

def classesOf (q : CQuery) : List AssetClass := (targetOf q).map (·.1)

def coversOne (q : CQuery) (u : SUtxo) : Bool :=
  (classesOf q).all fun c => Assets.amt (targetOf q) c ≤ Assets.amt u.assets c
def coversSum (q : CQuery) (l : List SUtxo) : Bool :=
  (classesOf q).all fun c => Assets.amt (targetOf q) c ≤ sumAmt l c

def nonNegTarget (q : CQuery) : Bool := (targetOf q).all fun kv => kv.2 ≥ 0

def judge (prop : String) (j : Json) : R Verdict := do
  let i ← nat (← field j "i")
  let gen ← str (← field j "gen")
  let st ← (← arr (← field j "store")).mapM parseU
  let qsRaw ← (← arr (← field j "queries")).mapM parseQ
  let obs ← field j "obs"
  let key := fnv ((fieldD j "store").compress ++ (fieldD j "queries").compress)
  let mut corr : List String := []
  let mut spec : List String := []
  let mut tags : List String := [gen]
  -- `find_queries` is a map keyed by name: one entry per distinct name, in name order
  let names := keySet (qsRaw.map (·.1))
  let dupNames := names.length != qsRaw.length
  if dupNames then tags := tags ++ ["dup-names"]
  let qs : List (String × CQuery) := names.filterMap fun n =>
    -- later blocks with the same name overwrite earlier ones (BTreeMap::extend / collect)
    (qsRaw.reverse.find? (·.1 == n))
  -- model: status for the canonical oracle (identity order, first `k` of diff, first removable)
  let oracle : Oracle := { fill := fun d k => d.take k, order := id, pickExcess := fun _ => 0 }
  let mres := resolveQueries st oracle qs {}
  let oerr := fieldD obs "err"
  if !(isNull (fieldD obs "panic")) then
    return { i, corr := ["panic"], spec := ["no-panic"], key, tags }
  match mres, isNull oerr with
  | .error e, false =>
    let oe ← str oerr
    let me := match e with | .tooBroad => "tooBroad" | .notResolved n => "notResolved:" ++ n
    -- with several blocks, which block fails first (and hence with which error) depends on what
    -- the earlier blocks happened to take, i.e. on the oracle: only single-block cases are compared
    if qs.length == 1 && oe != me then corr := corr ++ ["error-class"]
    if qs.length > 1 && (oe.takeWhile (· != ':')) != (me.takeWhile (· != ':')) then
      tags := tags ++ ["oracle-dependent-error"]
    tags := tags ++ ["err:" ++ (me.takeWhile (· != ':')).toString]
  | .error _, true =>
    -- success/failure of a single block does not depend on the oracle within the window
    if qs.length == 1 then corr := corr ++ ["model-fails-impl-succeeds"]
    else tags := tags ++ ["oracle-dependent-status"]
  | .ok _, false =>
    if qs.length == 1 then corr := corr ++ ["model-succeeds-impl-fails"]
    else tags := tags ++ ["oracle-dependent-status"]
  | .ok _, true => tags := tags ++ ["ok"]
  -- spec on the implementation's own selections
  if isNull oerr then
    let selJ ← field obs "sel"
    let mut taken : List UtxoRef := []
    let mut allNonColl : List UtxoRef := []
    for (name, q) in qs do
      let sj := fieldD selJ (if q.collateral then "collateral" else name)
      if isNull sj then
        spec := spec ++ ["block-unbound:" ++ name]
        continue
      let srefs ← (← arr sj).mapM parseHexRef
      let sel := st.filter fun u => srefs.contains u.ref
      if sel.length != srefs.length then spec := spec ++ ["sound:not-in-store"]
      let takenHere := if q.collateral then [] else taken
      -- soundness
      for u in sel do
        match q.address with
        | some a => if u.address != a then spec := spec ++ ["sound:address"]
        | none => pure ()
        if !q.refs.isEmpty && !(q.refs.contains u.ref) then spec := spec ++ ["sound:ref"]
        if q.address.isNone && q.refs.isEmpty && !(holdsEvery q u) then spec := spec ++ ["sound:token"]
        if q.collateral && !(Assets.isOnlyNaked u.assets) then spec := spec ++ ["sound:collateral-naked"]
        if takenHere.contains u.ref then spec := spec ++ ["disjoint"]
      if sel.isEmpty then spec := spec ++ ["sound:empty-selection"]
      if nonNegTarget q then
        if q.many then
          if !(coversSum q sel) then spec := spec ++ ["sound:sum-covers"]
        else
          if sel.length != 1 then spec := spec ++ ["sound:single-count"]
          else if !(sel.all (coversOne q)) then spec := spec ++ ["sound:single-covers"]
      -- correspondence with the loop's terminal condition: nothing removable is left
      if q.many && !(removable sel (targetOf q)).isEmpty then corr := corr ++ ["not-terminal"]
      -- model candidates (what the selector can see) contain the selection
      if !q.collateral then
        taken := taken ++ srefs
        allNonColl := allNonColl ++ srefs
    -- C04: the body lists every selected UTxO exactly once
    let body := fieldD obs "body"
    if prop == "C04" && !(isNull body) then
      let bi := fieldD body "inputs"
      if isNull bi then tags := tags ++ ["body-err"]
      else
        let brefs ← (← arr bi).mapM parseHexRef
        if brefs.eraseDups.length != brefs.length then spec := spec ++ ["body:duplicate-input"]
        if !(allNonColl.all (brefs.contains ·)) then spec := spec ++ ["body:missing-input"]
        if !(brefs.all (allNonColl.contains ·)) then spec := spec ++ ["body:extra-input"]
  else
    -- completeness: the first block that fails must really have no cover among its candidates
    let oe ← str oerr
    if oe.startsWith "notResolved:" && qs.length == 1 then
      match qs with
      | [(_, q)] =>
        let cands := candidates st q []
        -- queries with two or more references cannot be written in the language: the property
        -- explores them for soundness only
        if q.refs.length ≥ 2 then tags := tags ++ ["multi-ref:soundness-only"]
        else if nonNegTarget q && cands.length ≤ window then
          let coverable := if q.many then (!cands.isEmpty && coversSum q cands) else cands.any (coversOne q)
          -- a query constrained by nothing but lovelace is "too broad", never resolved: excluded
          if coverable then spec := spec ++ ["complete"]
        if cands.length > window then tags := tags ++ ["over-window"]
      | _ => pure ()
    -- several blocks: the block that fails is judged like a single one when nothing another block can see is among
    -- what it can see (then no earlier block can have taken anything from it)
    if oe.startsWith "notResolved:" && qs.length > 1 then
      let failing := (oe.drop "notResolved:".length).toString
      match qs.find? (·.1 == failing) with
      | some (_, q) =>
        let cands := candidates st q []
        let others := (qs.filter (·.1 != failing)).flatMap fun (_, o) => (candidates st o []).map (·.ref)
        if cands.all (fun u => !(others.contains u.ref)) then
          tags := tags ++ ["independent-block"]
          if q.refs.length < 2 && nonNegTarget q && cands.length ≤ window then
            let coverable := if q.many then (!cands.isEmpty && coversSum q cands) else cands.any (coversOne q)
            if coverable then spec := spec ++ ["complete:independent-block"]
      | none => pure ()
  let nt := !st.isEmpty && qs.any fun (_, q) => q.minAmount.isSome || !q.refs.isEmpty || q.address.isSome
  return { i, corr, spec := spec.eraseDups, nt, key, tags }

end Driver.Select
