import Driver.TirJson
import Tx3Model.Json

/-! Judge for C16. -/

open Lean Tx3 Tx3.Json

namespace Driver.JsonJ

partial def parseJVal (j : Json) : R JVal := do
  let t ← str (← field j "t")
  match t with
  | "null" => pure .null
  | "bool" => do return .bool (← bool (← field j "v"))
  | "int" => do return .int (← int (← field j "v"))
  | "float" => pure .float
  | "str" => do return .str (← str (← field j "v"))
  | "arr" => pure .arr
  | "obj" => do
    let fs ← (← arr (← field j "v")).mapM fun p => do
      match ← arr p with
      | [k, v] => do return (← str k, ← parseJVal v)
      | _ => throw "bad field"
    return .obj fs
  | other => throw s!"bad jval {other}"

def argJson : Arg → Json
  | .int n => Json.mkObj [("int", jint n)]
  | .bool b => Json.mkObj [("bool", b)]
  | .string s => Json.mkObj [("string", s)]
  | .bytes b => Json.mkObj [("bytes", jhex b)]
  | .address b => Json.mkObj [("address", jhex b)]
  | .utxoRef r => Json.mkObj [("utxoRef", refJson r)]

def outcomeJson (o : Outcome Arg) : Json :=
  match o with
  | .ok a => Json.mkObj [("ok", argJson a)]
  | .err e => Json.mkObj [("err", e)]
  | .panic s => Json.mkObj [("panic", s)]

/-- base64 and bech32 are parameters of the model: the driver supplies decoders that know only
the strings the harness generated, via what the real code returned for them (so these two
codecs are trusted, every other step is compared). -/
def judge (j : Json) : R Verdict := do
  let i ← nat (← field j "i")
  let gen ← str (← field j "gen")
  let probe ← str (← field j "probe")
  let obs ← field j "obs"
  if !(isNull (fieldD obs "panic")) then
    return { i, corr := ["panic"], spec := ["no-panic:" ++ (fieldD obs "panic").compress], key := toString i, tags := [gen], nt := true }
  match probe with
  | "from_json" =>
    let v ← parseJVal (← field j "val")
    let ty ← parseTy (← field j "ty")
    let expect := fieldD j "expect"
    let key := fnv ((fieldD j "val").compress ++ (fieldD j "ty").compress)
    -- trusted codecs: take base64/bech32 results from the observation itself
    let obsBytes : Option Bytes := match (fieldD obs "ok").getObjVal? "bytes" with
      | .ok (.str h) => hexDecode h | _ => none
    let obsAddr : Option Bytes := match (fieldD obs "ok").getObjVal? "address" with
      | .ok (.str h) => hexDecode h | _ => none
    let isB64 := gen == "bytes:envelope-base64" || (match v with
      | .obj fs => fs.any (fun f => (f.1 == "contentType" || f.1 == "encoding") && (match f.2 with | .str "base64" => true | _ => false))
      | _ => false)
    let cd : Codecs := {
      b64 := fun _ => if isB64 then obsBytes else none
      bech32 := fun s => if gen.startsWith "address:bech32" || (hexToBytes s).isNone then obsAddr else none }
    let m := fromJson cd v ty
    let mut corr : List String := []
    let mut spec : List String := []
    if (outcomeJson m).compress != obs.compress then
      -- base64/bech32 failures are reported by the real code with their own error names
      let oe := match obs.getObjVal? "err" with | .ok (.str e) => e | _ => ""
      let trustedErr := (oe == "InvalidBase64" && isB64) || oe == "InvalidBech32"
      if !trustedErr then corr := corr ++ ["from_json:" ++ (outcomeJson m).compress.take 60]
    -- the property: admissible encodings are inverted
    if !(isNull expect) then
      match obs.getObjVal? "ok" with
      | .ok o => if o.compress != expect.compress then spec := spec ++ ["inverts-encoding:" ++ gen]
      | .error _ => spec := spec ++ ["rejects-admissible-encoding:" ++ gen]
    -- a bare number literal is read as the integer it denotes (when it denotes one), or rejected
    if let .str lit := fieldD j "literal" then
      match obs.getObjVal? "ok" with
      | .ok o =>
        match o.getObjVal? "int" with
        | .ok (.str got) =>
          -- `2.0`, `1e3` denote integers too: compare through the decimal expansion when plain
          match lit.toInt? with
          | some n => if got.toInt? != some n then spec := spec ++ ["number-literal-altered"]
          | none => pure ()
        | _ => pure ()
      | .error _ => pure ()
    -- a bech32 text whose checksum does not hold is not an address
    if gen == "address:bech32-bad-checksum" && (obs.getObjVal? "ok").isOk then
      spec := spec ++ ["accepts-ill-formed-bech32"]
    -- ill-formed text must not be accepted as bytes/ints
    if gen == "ill-formed" then
      match v, ty, obs.getObjVal? "ok" with
      | .str s, .bytes, .ok _ => if (hexToBytes s).isNone then spec := spec ++ ["accepts-ill-formed-hex"]
      | .str s, .utxoRef, .ok _ => if !(s.contains '#') then spec := spec ++ ["accepts-ill-formed-utxo-ref"]
      | _, _, _ => pure ()
    -- a reference names an output by an index of 32 bits: a text whose index is no such number is no reference,
    -- whichever stream it comes from
    match v, ty, obs.getObjVal? "ok" with
    | .str s, .utxoRef, .ok _ =>
      let ix := ((s.splitOn "#").getD 1 "")
      -- (one leading `+` is part of Rust's decimal notation for unsigned numbers; the clause is about the value)
      let digits := if ix.startsWith "+" then (ix.drop 1).toString else ix
      let fits := match digits.toNat? with | some n => decide (n < 2 ^ 32) | none => false
      if !fits then spec := spec ++ ["accepts-ill-formed-utxo-ref:index"]
    | _, _, _ => pure ()
    -- a boolean is true / false, 0 / 1 or "true" / "false": nothing else is one, whichever stream it comes from
    match v, ty, obs.getObjVal? "ok" with
    | .int n, .bool, .ok _ => if n != 0 && n != 1 then spec := spec ++ ["accepts-ill-formed-bool"]
    | .str s, .bool, .ok _ => if s != "true" && s != "false" then spec := spec ++ ["accepts-ill-formed-bool"]
    | .float, .bool, .ok _ => spec := spec ++ ["accepts-ill-formed-bool"]
    | .null, .bool, .ok _ => spec := spec ++ ["accepts-ill-formed-bool"]
    | .arr, .bool, .ok _ => spec := spec ++ ["accepts-ill-formed-bool"]
    | .obj _, .bool, .ok _ => spec := spec ++ ["accepts-ill-formed-bool"]
    | _, _, _ => pure ()
    return { i, corr, spec, key, tags := [gen], nt := true }
  | "request" =>
    let declared ← (← arr (← field j "declared")).mapM fun p => do
      match ← arr p with
      | [k, t] => do return (← str k, ← parseTy t)
      | _ => throw "bad declared"
    let parsePairsJ (x : Json) : R (List (String × JVal)) := do
      (← arr x).mapM fun p => do
        match ← arr p with
        | [k, v] => do return (← str k, ← parseJVal v)
        | _ => throw "bad pair"
    let args ← parsePairsJ (← field j "args")
    let env ← parsePairsJ (← field j "env")
    let envelopeOk ← bool (← field j "envelope_ok")
    let key := fnv ((fieldD j "args").compress ++ (fieldD j "env").compress ++ toString envelopeOk)
    let cd : Codecs := { b64 := fun _ => none, bech32 := fun _ => none }
    let mut corr : List String := []
    let mut spec : List String := []
    let mut tags : List String := [gen]
    if !(isNull (fieldD obs "bad_request")) then
      return { i, corr, spec, key, tags := tags ++ ["bad-request"], nt := false }
    if !envelopeOk then
      tags := tags ++ ["corrupted-envelope"]
      -- must be an error, whichever
      if (obs.getObjVal? "ok").isOk then spec := spec ++ ["corrupted-envelope-accepted"]
      return { i, corr, spec, key, tags, nt := true }
    let m := parseArgs cd declared env args
    match m, obs.getObjVal? "ok", obs.getObjVal? "err" with
    | .ok am, .ok o, _ =>
      let mj := Json.arr ((sortBy (fun a b => decide (a.1 ≤ b.1)) am).map fun (k, a) => Json.arr #[Json.str k, argJson a]).toArray
      if mj.compress != o.compress then corr := corr ++ ["request:args"]
      -- the property: exactly the declared subset of args + env, args winning
      let supplied := declared.filter fun d => (lookup args d.1).isSome || (lookup env d.1).isSome
      let got ← (← arr o).mapM fun p => do
        match ← arr p with
        | [k, _] => str k
        | _ => throw "bad arg pair"
      if !(supplied.all fun d => got.contains d.1) then spec := spec ++ ["request:declared-parameter-dropped"]
      if !(got.all fun k => declared.any (·.1 == k)) then spec := spec ++ ["request:undeclared-parameter-passed"]
      tags := tags ++ ["ok"]
    | .err e, _, .ok oe =>
      let oe ← str oe
      if oe != "InteropError:" ++ e then corr := corr ++ ["request:error-class:" ++ e]
      tags := tags ++ ["err"]
    | _, _, _ => corr := corr ++ ["request:outcome"]
    return { i, corr, spec, key, tags, nt := true }
  | other => throw s!"bad probe {other}"

end Driver.JsonJ
