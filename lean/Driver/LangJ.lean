import Driver.Util
import Driver.TirJson
import Tx3Model.Lang
import Tx3Model.LangLower
import Tx3Model.LangAdhoc
import Tx3Model.Conway

/-! Judge for C01: the generator's tree → `⟦P⟧` in Lean, against the transaction the real pipeline
produced (decoded by the Conway reader). -/

open Lean Tx3 Tx3.Lang

namespace Driver.LangJ

partial def tyOf (j : Json) : R LTy := do
  match ← str (← field j "k") with
  | "int" => pure .int | "bool" => pure .bool | "bytes" => pure .bytes | "address" => pure .address
  | "utxoRef" => pure .utxoRef | "anyAsset" => pure .anyAsset
  | "list" => do return .list (← tyOf (← field j "e"))
  | "custom" => do return .custom (← str (← field j "n"))
  | other => throw s!"bad type {other}"

partial def exprOf (j : Json) : R LExpr := do
  let k ← str (← field j "k")
  let kids : R (List LExpr) := do (← arr (fieldD j "c")).mapM exprOf
  match k with
  | "num" => do return .leaf (.num (← int (← field j "v")))
  | "bool" => do return .leaf (.bool (← bool (← field j "v")))
  | "str" => do return .leaf (.str (← str (← field j "v")))
  | "hex" => do return .leaf (.hex (← str (← field j "v")))
  | "unit" => pure (.leaf .unit)
  | "id" => do return .leaf (.id (← str (← field j "n")))
  | "utxoRef" => do return .leaf (.utxoRef (← str (← field j "txid")) (← nat (← field j "index")))
  | "add" => do return .node .add (← kids)
  | "sub" => do return .node .sub (← kids)
  | "neg" => do return .node .neg (← kids)
  | "concat" => do return .node .concat (← kids)
  | "prop" => do return .node (.prop (← str (← field j "p"))) (← kids)
  | "index" => do return .node .index (← kids)
  | "list" => do return .node .list (← kids)
  | "map" => do return .node .map (← kids)
  | "record" => do
    let case := match (fieldD j "case") with | .str s => some s | _ => none
    let fields ← (← arr (← field j "fields")).mapM str
    return .node (.record (← str (← field j "ty")) case fields (← bool (← field j "spread"))) (← kids)
  | "anyAsset" => do return .node .anyAsset (← kids)
  | "call" => do return .node (.call (← str (← field j "f"))) (← kids)
  | other => throw s!"bad expr {other}"

def optExpr (j : Json) : R (Option LExpr) := if isNull j then pure none else do return some (← exprOf j)

def named (j : Json) (f : Json → R α) (key : String) : R (List (String × α)) := do
  (← arr j).mapM fun x => do return (← str (← field x "name"), ← f (← field x key))

def inputOf (j : Json) : R InputBlock := do
  return { name := ← str (← field j "name"), many := ← bool (← field j "many"), «from» := ← optExpr (fieldD j "from"),
           minAmount := ← optExpr (fieldD j "min_amount"), ref := ← optExpr (fieldD j "ref"),
           redeemer := ← optExpr (fieldD j "redeemer"),
           datumIs := ← (if isNull (fieldD j "datum_is") then pure none else do return some (← tyOf (fieldD j "datum_is"))) }

def txOf (j : Json) : R TxDef := do
  let mint (m : Json) : R MintBlock := do return { amount := ← optExpr (fieldD m "amount"), redeemer := ← optExpr (fieldD m "redeemer") }
  let v := fieldD j "validity"
  let validity ← (if isNull v then pure none else do
    return some (← optExpr (fieldD v "since"), ← optExpr (fieldD v "until")) : R (Option (Option LExpr × Option LExpr)))
  let sg := fieldD j "signers"
  let md := fieldD j "metadata"
  let col := fieldD j "collateral"
  return {
    name := ← str (← field j "name")
    params := ← named (← field j "params") tyOf "ty"
    locals := ← named (← field j "locals") exprOf "e"
    inputs := ← (← arr (← field j "inputs")).mapM inputOf
    references := ← named (← field j "references") exprOf "ref"
    collateral := ← (if isNull col then pure none else do return some (← inputOf col))
    outputs := ← (← arr (← field j "outputs")).mapM fun o => do
      let nm := match fieldD o "name" with | .str s => some s | _ => none
      return ({ name := nm, optional := ← bool (← field o "optional"), to := ← optExpr (fieldD o "to"),
                amount := ← optExpr (fieldD o "amount"), datum := ← optExpr (fieldD o "datum") } : OutputBlock)
    mints := ← (← arr (← field j "mints")).mapM mint
    burns := ← (← arr (← field j "burns")).mapM mint
    validity
    signers := ← (if isNull sg then pure none else do return some (← (← arr sg).mapM exprOf))
    metadata := ← (if isNull md then pure none else do
      return some (← (← arr md).mapM fun m => do return (← exprOf (← field m "key"), ← exprOf (← field m "value"))))
    adhoc := ← (← arr (← field j "adhoc")).mapM fun a => do
      return (← str (← field a "name"), ← named (← field a "fields") exprOf "e") }

def programOf (j : Json) : R Program := do
  return {
    env := ← named (← field j "env") tyOf "ty"
    parties := ← (← arr (← field j "parties")).mapM str
    policies := ← (← arr (← field j "policies")).mapM fun p => do return (← str (← field p "name"), ← str (← field p "hash"))
    assets := ← (← arr (← field j "assets")).mapM fun a => do
      return (← str (← field a "name"), ← exprOf (← field a "policy"), ← exprOf (← field a "asset_name"))
    types := ← (← arr (← field j "types")).mapM fun t => do
      return ({ name := ← str (← field t "name"),
                cases := ← (← arr (← field t "cases")).mapM fun c => do
                  return ({ name := ← str (← field c "name"), fields := ← named (← field c "fields") tyOf "ty" } : CaseDef) } : TypeDef)
    aliases := ← named (← field j "aliases") tyOf "ty"
    txs := ← (← arr (← field j "txs")).mapM txOf }

/-! ### the world -/

structure WUtxo where
  party : String
  txid : Bytes
  index : Nat
  bag : Bag
  datum : Option PData

def worldUtxos (w : Json) : R (List WUtxo) := do
  (← arr (← field w "utxos")).mapM fun u => do
    let toks ← (← arr (← field u "tokens")).mapM fun t => do
      return ((← hex (← field t "policy"), ← hex (← field t "name")), ← int (← field t "amount"))
    let bag := toks.foldl (fun acc kv => Bag.add acc (Bag.single kv.1 kv.2)) (Bag.single ([], []) (← int (← field u "lovelace")))
    let d := fieldD u "datum"
    let datum ← (if isNull d then pure none else do
      return some (PData.constr 0 [.int (← int (← field d "counter")), .bytes (← hex (← field d "label")), .int (← int (← field d "extra"))]) : R (Option PData))
    return { party := ← str (← field u "party"), txid := ← hex (← field u "txid"), index := ← nat (← field u "index"), bag, datum }

/-- The UTxOs the pipeline assigned to each input block, read from the constant IR it compiled. -/
def assignedInputs (prog : Program) (tx : TxDef) (finalTir : Json) (us : List WUtxo) : R (List InputVal) := do
  if isNull finalTir then return []
  let t ← parseTx finalTir
  t.inputs.mapM fun i => do
    let refs : List (Bytes × Nat) := match i.utxos with
      | .node (.utxoSet metas) _ => metas.map fun m => (m.ref.txid, m.ref.index)
      | _ => []
    let mine := us.filter fun u => refs.contains (u.txid, u.index)
    let bag := mine.foldl (fun acc u => Bag.add acc u.bag) []
    let block := tx.inputs.find? fun b => b.name.toLower = i.name
    let _ := prog
    return { name := (block.map (·.name)).getD i.name, refs, assets := bag,
             datum := (mine.head?).bind (·.datum),
             datumTy := block.bind fun b => match b.datumIs with | some (.custom n) => some n | _ => none }

partial def mentionsInputProp (tx : TxDef) (fuel : Nat) : LExpr → Bool
  | .leaf (.id x) => if fuel = 0 then false else
      match Lang.lookup tx.locals x with
      | some e => mentionsInputProp tx (fuel - 1) e
      | none => false
  | .leaf _ => false
  | .node (.prop _) [.leaf (.id x)] => tx.inputs.any (·.name = x)
  | .node (.record ..) _ => false        -- evaluated in datum position
  | .node .anyAsset _ => false           -- evaluated in datum position
  | .node _ cs => cs.any (mentionsInputProp tx fuel)

def bagOf (l : List (Bytes × Bytes × Int)) : Bag :=
  l.foldl (fun acc x => Bag.add acc (Bag.single (x.1, x.2.1) x.2.2)) []

def hexOf (b : Bytes) : String := hexEncode b

def judge (j : Json) : R Verdict := do
  let i ← nat (← field j "i")
  let gen ← str (← field j "gen")
  let prog ← programOf (← field j "program")
  let world ← field j "world"
  let obs ← field j "obs"
  let layout ← field j "layout"
  let key := fnv ((fieldD j "program").compress ++ (fieldD j "world").compress)
  let mut corr : List String := []
  let mut spec : List String := []
  let mut tags : List String := [gen]
  let tx ← (match prog.txs.head? with | some t => pure t | none => throw "no tx")
  -- insignificant white space and comments never change the result
  if !(← bool (← field layout "same_outcome")) then spec := spec ++ ["layout:outcome"]
  if !(← bool (← field layout "same_lowered")) then spec := spec ++ ["layout:lowered"]
  if let .str e := fieldD obs "front_err" then
    spec := spec ++ ["front-end-rejects-core-program:" ++ ((e.splitOn ":").head!)]
    return { i, corr, spec, nt := true, key, tags := tags ++ ["front-err"] }
  -- the model of analysis + lowering against the IR the real front end produced
  match lowerTxFull { prog, tx } with
  | .ok mt =>
    let real ← parseTx (← field obs "lowered")
    if (txJson (canonTx mt)).compress != (txJson (canonTx real)).compress then
      let fields := ["fees", "references", "inputs", "outputs", "validity", "mints", "burns", "adhoc", "collateral", "signers", "metadata"]
      let mj := txJson (canonTx mt); let rj := txJson (canonTx real)
      corr := corr ++ (fields.filter fun f => (fieldD mj f).compress != (fieldD rj f).compress).map ("lowered:" ++ ·)
  | .err e => corr := corr ++ ["model-lowering-fails:" ++ e]
  | .panic e => corr := corr ++ ["model-panic:" ++ e]
  let us ← worldUtxos world
  let ints := (← named (← field world "int_args") int "v") ++ (← named (← field world "env_ints") int "v")
  let byteVals := (← named (← field world "bytes_args") hex "v") ++ (← named (← field world "env_bytes") hex "v")
  let parties ← (← arr (← field world "parties")).mapM fun x => do return (← str (← field x "name"), ← hex (← field x "address"))
  let addrs := parties ++ (← named (← field world "addr_args") hex "v")
  let mainnet ← bool (← field world "mainnet")
  let outcome ← field obs "outcome"
  let inputs ← assignedInputs prog tx (fieldD obs "final_tir") us
  let plainPositions : List LExpr :=
    (match tx.validity with | some (a, b) => a.toList ++ b.toList | none => []) ++
    (tx.metadata.getD []).flatMap (fun kv => [kv.1, kv.2]) ++ (tx.signers.getD []) ++
    (tx.mints ++ tx.burns).flatMap (fun m => m.amount.toList) ++
    tx.outputs.flatMap (fun o => o.to.toList ++ o.amount.toList) ++
    tx.inputs.flatMap (fun b => b.minAmount.toList)
  let propOutside := plainPositions.any (mentionsInputProp tx 16)
  if propOutside then tags := tags ++ ["input-property-outside-datum-position"]
  match fieldD outcome "ok" with
  | .null =>
    -- the pipeline failed: is that what the template denotes?
    let cls := (fieldD outcome "class").getStr?.toOption.getD "?"
    tags := tags ++ ["pipeline-error"]
    -- evaluate with fee 0 and the UTxOs the world offers each input's party (selection never ran to the end)
    let guess : List InputVal := tx.inputs.map fun b =>
      let party := match b.«from» with | some (.leaf (.id p)) => p | _ => ""
      let mine := us.filter (·.party = party)
      { name := b.name, refs := mine.map (fun u => (u.txid, u.index)),
        assets := mine.foldl (fun acc u => Bag.add acc u.bag) [], datum := mine.head?.bind (·.datum),
        datumTy := match b.datumIs with | some (.custom n) => some n | _ => none }
    let ρ : Env := { prog, tx, ints, byteVals, addrs, inputs := guess, fee := 0, mainnet, tipSlot := 101674141 }
    match denote ρ with
    | .ok d =>
      let outOfRange := d.outputs.any (fun o => o.lovelace < 0 || o.tokens.any (·.2 < 0) || o.lovelace ≥ 2^64) ||
        (match d.validFrom with | some v => v < 0 || v ≥ 2^64 | none => false) ||
        (match d.validUntil with | some v => v < 0 || v ≥ 2^64 | none => false) ||
        d.metadata.any (fun kv => kv.1 < 0 || kv.1 ≥ 2^64 || (match kv.2 with | .int v => v < -(2:Int)^64 || v ≥ 2^64 | _ => false)) ||
        d.mint.any (fun kv => kv.2 < -(2:Int)^63 || kv.2 ≥ 2^63) ||
        (match d.donation with | some v => v ≤ 0 || v ≥ 2^64 | none => false)
      if outOfRange then tags := tags ++ ["denotation-out-of-range"]
      else if propOutside then
        spec := spec ++ ["progress:input-property-outside-datum-position"]
      else spec := spec ++ ["progress:" ++ cls]
    | .err e => tags := tags ++ ["denotation-undefined:" ++ e]
    | .panic e => corr := corr ++ ["model-panic:" ++ e]
    return { i, corr, spec, nt := true, key, tags }
  | ok =>
    let fee ← int (← field ok "fee")
    let payload ← hex (← field ok "payload")
    let ρ : Env := { prog, tx, ints, byteVals, addrs, inputs, fee, mainnet, tipSlot := 101674141 }
    match Conway.readTx payload with
    | none => spec := spec ++ ["payload-unreadable"]
    | some (atx, _, _) =>
      match denote ρ with
      | .err e =>
        tags := tags ++ ["denotation-undefined:" ++ e]
        spec := spec ++ ["compiled-although-undefined:" ++ e]
      | .panic e => corr := corr ++ ["model-panic:" ++ e]
      | .ok d =>
        tags := tags ++ ["compiled"]
        if atx.fee != d.fee then spec := spec ++ ["fee"]
        if sortBy refLe atx.inputs != d.inputs then spec := spec ++ ["inputs"]
        if sortBy refLe atx.referenceInputs != d.referenceInputs then spec := spec ++ ["reference-inputs"]
        if tx.collateral.isNone && !atx.collateral.isEmpty then spec := spec ++ ["collateral-added"]
        if atx.outputs.length != d.outputs.length then spec := spec ++ ["output-count"]
        else
          for (a, o) in atx.outputs.zip d.outputs do
            if a.address != o.address then spec := spec ++ ["output-address"]
            if o.lovelace < 0 || o.tokens.any (·.2 < 0) then tags := tags ++ ["negative-amount"]
            else
              if a.coin != o.lovelace then spec := spec ++ ["output-lovelace"]
              if bagOf a.assets != o.tokens then spec := spec ++ ["output-assets"]
            match a.datum, o.datum with
            | none, none => pure ()
            | some x, some y => if !(x == y) then spec := spec ++ ["output-datum"]
            | some _, none => spec := spec ++ ["output-datum-added"]
            | none, some _ => spec := spec ++ ["output-datum-dropped"]
        if bagOf atx.mint != d.mint then spec := spec ++ ["mint"]
        if atx.validityStart != d.validFrom then spec := spec ++ ["validity-start"]
        if atx.ttl != d.validUntil then spec := spec ++ ["validity-until"]
        let sgLe := fun (a b : Bytes) => bytesLe a b
        if sortBy sgLe atx.requiredSigners != sortBy sgLe d.signers then spec := spec ++ ["signers"]
        let mdGot := atx.metadata.map fun kv => (kv.1, match kv.2 with
          | .int v => DMeta.int v | .text s => DMeta.text s | .bytes b => DMeta.bytes b)
        let mdLe := fun (a b : Int × DMeta) => decide (a.1 ≤ b.1)
        if sortBy mdLe mdGot != sortBy mdLe d.metadata then spec := spec ++ ["metadata"]
        if atx.donation != d.donation then spec := spec ++ ["donation"]
        if !atx.withdrawals.isEmpty || !atx.certs.isEmpty then spec := spec ++ ["something-added"]
        if tx.outputs.any (·.datum.isSome) then tags := tags ++ ["has-datum"]
        if !tx.locals.isEmpty then tags := tags ++ ["locals"]
        if !tx.mints.isEmpty then tags := tags ++ ["mint"]
        if tx.validity.isSome then tags := tags ++ ["validity"]
        if tx.metadata.isSome then tags := tags ++ ["metadata"]
        if tx.signers.isSome then tags := tags ++ ["signers"]
    return { i, corr, spec, nt := true, key, tags }

end Driver.LangJ
